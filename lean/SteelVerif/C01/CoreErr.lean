/-
C01 stage 2 — errors: whenever `evalC` yields `err k` with `k ≠ bad`, the VM started at the code of the expression
reaches a configuration whose next step reports `err k`.  Second pass over the cases of `sim_all`; the successful
sub-evaluations are carried by `P1`/`P2`, the failing ones by `E1`/`E2`.
-/
import SteelVerif.C01.CoreSimCall
namespace SteelVerif.C01C

/-- The VM, started in `start`, reports the error `k`. -/
def Fails (start : Cfg) (k : Err) : Prop := ∃ c, Exec start c ∧ step c = .err k

theorem Fails.of_exec {a b : Cfg} {k : Err} (h : Exec a b) (hf : Fails b k) : Fails a k := by
  obtain ⟨c, hc, hs⟩ := hf
  exact ⟨c, h.trans hc, hs⟩

theorem Fails.now {a : Cfg} {k : Err} (h : step a = .err k) : Fails a k := ⟨a, Exec.refl a, h⟩

def V.isProc {α : Type} : V α → Bool
  | .prim _ => true
  | .clo _ _ _ _ => true
  | _ => false

@[simp] theorem isProc_toV (v : Val) : V.isProc (toV v) = V.isProc v := by cases v <;> simp [V.isProc]

/-- The errors a call raises itself (before anything of the callee runs). -/
def CallErr {α : Type} (f : V α) (args : List (V α)) (k : Err) : Prop :=
  (∃ p, f = .prim p ∧ p.apply args = .err k) ∨
  (∃ a r b cc, f = .clo a r b cc ∧ bindArgs a r args = .err k) ∨
  (V.isProc f = false ∧ k = .notproc)

theorem CallErr.toV {fv : Val} {argv : List Val} {k : Err} (h : CallErr fv argv k) :
    CallErr (toV fv) (argv.map SteelVerif.C01C.toV) k := by
  rcases h with ⟨p, rfl, hp⟩ | ⟨a, r, b, cc, rfl, hb⟩ | ⟨hn, rfl⟩
  · exact Or.inl ⟨p, by simp, by rw [Prim.apply_map, hp]; rfl⟩
  · exact Or.inr (Or.inl ⟨a, r, bodyCode b, cc.map SteelVerif.C01C.toV, by simp, by rw [bindArgs_map, hb]; rfl⟩)
  · exact Or.inr (Or.inr ⟨by simpa using hn, rfl⟩)

theorem applyWith_err {ev : Self → Core → List Val → List Val → St Core → Res (Val × List Val × St Core)}
    {fv : Val} {argv : List Val} {σ : St Core} {k : Err}
    (h : applyWith ev fv argv σ = .err k) :
    CallErr fv argv k ∨
    (∃ a r body cc locals, fv = .clo a r body cc ∧ bindArgs a r argv = .ok locals ∧
      ev (some (a, r, body)) body locals cc σ = .err k) := by
  cases fv with
  | prim p =>
    left; left
    simp only [applyWith] at h
    cases hp : p.apply argv with
    | ok x => simp [hp, Res.map] at h
    | err e => simp [hp, Res.map] at h; subst h; exact ⟨p, rfl, hp⟩
    | timeout => simp [hp, Res.map] at h
  | clo a r body cc =>
    simp only [applyWith] at h
    cases hb : bindArgs a r argv with
    | ok locals =>
      right
      simp only [hb] at h
      cases he : ev (some (a, r, body)) body locals cc σ with
      | ok x => obtain ⟨v', envb, σ''⟩ := x; simp [he] at h
      | err e => simp [he] at h; subst h; exact ⟨a, r, body, cc, locals, rfl, hb, he⟩
      | timeout => simp [he] at h
    | err e => simp [hb] at h; subst h; exact Or.inl (Or.inr (Or.inl ⟨a, r, body, cc, rfl, hb⟩))
    | timeout => simp [hb] at h
  | int n => simp [applyWith] at h; subst h; exact Or.inl (Or.inr (Or.inr ⟨rfl, rfl⟩))
  | bool b => simp [applyWith] at h; subst h; exact Or.inl (Or.inr (Or.inr ⟨rfl, rfl⟩))
  | void => simp [applyWith] at h; subst h; exact Or.inl (Or.inr (Or.inr ⟨rfl, rfl⟩))
  | box a => simp [applyWith] at h; subst h; exact Or.inl (Or.inr (Or.inr ⟨rfl, rfl⟩))
  | list xs => simp [applyWith] at h; subst h; exact Or.inl (Or.inr (Or.inr ⟨rfl, rfl⟩))

theorem callFn_err (c : Cfg) (stack below args : List VVal) (f : VVal) (n ret : Nat) (k : Err)
    (hsl : splitLast n stack = some (below, args)) (h : CallErr f args k) :
    callFn c stack f n ret = .err k := by
  rcases h with ⟨p, rfl, hp⟩ | ⟨a, r, b, cc, rfl, hb⟩ | ⟨hn, rfl⟩
  · simp [callFn, hsl, hp]
  · simp [callFn, hsl, hb]
  · cases f <;> simp [callFn, hsl, V.isProc] at hn ⊢

theorem tailFn_err (c : Cfg) (stack below args : List VVal) (f : VVal) (n : Nat) (pr : Bool) (nx : Nat) (k : Err)
    (hsl : splitLast n stack = some (below, args)) (h : CallErr f args k) :
    tailFn c stack f n pr nx = .err k := by
  rcases h with ⟨p, rfl, hp⟩ | ⟨a, r, b, cc, rfl, hb⟩ | ⟨hn, rfl⟩
  · simp [tailFn, hsl, hp]
  · simp [tailFn, hsl, hb]
  · cases f <;> simp [tailFn, hsl, V.isProc] at hn ⊢

/-! ## Instructions that report an error -/

set_option hygiene false in
macro "err_step" h:ident : tactic =>
  `(tactic| (have hc := code_at pre mid post k _ $h
             simp only [at_] at hc ⊢
             generalize pre ++ mid ++ post = code at hc ⊢))

set_option hygiene false in
macro "err_step2" h:ident h2:ident : tactic =>
  `(tactic| (have hc := code_at pre mid post k _ $h
             have hc2 := code_at pre mid post (k + 1) _ $h2
             have hc3 := hc2
             rw [← Nat.add_assoc] at hc3
             simp only [at_] at hc hc2 hc3 ⊢
             generalize pre ++ mid ++ post = code at hc hc2 hc3 ⊢))

section
variable (pre mid post : List Instr) (k : Nat) (s : List VVal) (fr : List Frame) (st : St (List Instr))

theorem fail_pushg (g : Nat) (h : mid[k]? = some (.PUSH g)) (hv : lookupG g st.globals = none) :
    step (at_ pre mid post k s fr st) = .err .free := by
  err_step h
  simp [step, hc, hv]

theorem fail_set (g : Nat) (v : VVal) (h : mid[k]? = some (.SET g)) (hv : lookupG g st.globals = none) :
    step (at_ pre mid post k (s ++ [v]) fr st) = .err .free := by
  err_step h
  simp [step, hc, hv]

theorem fail_boxop (op : BoxOp) (below args : List VVal) (e : Err)
    (h : mid[k]? = some (boxInstr op)) (hsplit : splitLast op.arity s = some (below, args))
    (happ : op.apply args st = .err e) :
    step (at_ pre mid post k s fr st) = .err e := by
  err_step h
  cases op <;> simp [boxInstr] at hc <;> simp [step, hc, hsplit, happ]

theorem fail_func (n : Nat) (below args : List VVal) (f : VVal) (e : Err)
    (h : mid[k]? = some (.FUNC n)) (hn : args.length = n) (hce : CallErr f args e) :
    step (at_ pre mid post k (below ++ args ++ [f]) fr st) = .err e := by
  err_step h
  simp only [step, hc, List.getLast?_append, List.getLast?_singleton, Option.some_or, List.dropLast_concat]
  exact callFn_err _ _ below args f n _ e (splitLast_append n below args hn) hce

theorem fail_tailcall (n : Nat) (below args : List VVal) (f : VVal) (e : Err)
    (h : mid[k]? = some (.TAILCALL n)) (hn : args.length = n) (hce : CallErr f args e) :
    step (at_ pre mid post k (below ++ args ++ [f]) fr st) = .err e := by
  err_step h
  simp only [step, hc, List.getLast?_append, List.getLast?_singleton, Option.some_or, List.dropLast_concat]
  exact tailFn_err _ _ below args f n _ _ e (splitLast_append n below args hn) hce

theorem fail_callg (g n : Nat) (below args : List VVal) (f : VVal) (e : Err)
    (h : mid[k]? = some (.CALLGLOBAL g)) (h2 : mid[k + 1]? = some (.FUNC n))
    (hg : lookupG g st.globals = some f) (hn : args.length = n) (hce : CallErr f args e) :
    step (at_ pre mid post k (below ++ args) fr st) = .err e := by
  err_step2 h h2
  simp only [step, hc, hc2, hc3, hg]
  exact callFn_err _ _ below args f n _ e (splitLast_append n below args hn) hce

theorem fail_callg_free (g : Nat) (h : mid[k]? = some (.CALLGLOBAL g)) (hg : lookupG g st.globals = none) :
    step (at_ pre mid post k s fr st) = .err .free := by
  err_step h
  simp [step, hc, hg]

theorem fail_callgtail (g n : Nat) (below args : List VVal) (f : VVal) (e : Err)
    (h : mid[k]? = some (.CALLGLOBALTAIL g)) (h2 : mid[k + 1]? = some (.TAILCALL n))
    (hg : lookupG g st.globals = some f) (hn : args.length = n) (hce : CallErr f args e) :
    step (at_ pre mid post k (below ++ args) fr st) = .err e := by
  err_step2 h h2
  simp only [step, hc, hc2, hc3, hg]
  exact tailFn_err _ _ below args f n _ _ e (splitLast_append n below args hn) hce

theorem fail_callgtail_free (g : Nat) (h : mid[k]? = some (.CALLGLOBALTAIL g)) (hg : lookupG g st.globals = none) :
    step (at_ pre mid post k s fr st) = .err .free := by
  err_step h
  simp [step, hc, hg]

theorem fail_tcojmp (n : Nat) (below args : List VVal) (f : Frame) (rest : List Frame) (e : Err)
    (h : mid[k]? = some (.TCOJMP n)) (hn : args.length = n) (hb : bindArgs f.arity f.rest args = .err e) :
    step (at_ pre mid post k (below ++ args) (f :: rest) st) = .err e := by
  err_step h
  simp [step, hc, splitLast_append n below args hn, hb]

end

/-! ## The statement -/

def E1e (fuel : Nat) (e : Core) : Prop :=
  ∀ (self : Self) (tail : Bool) (env caps : List Val) (σ : St Core) (k : Err),
    evalC fuel self tail e env caps σ = .err k → k ≠ .bad →
  ∀ (fin b : Nat) (pre post : List Instr) (base : List VVal) (frames : List Frame), b = pre.length →
    Ctx self caps (pre ++ compile tail b fin e ++ post) base frames → (tail = true → frames ≠ []) →
    Fails (at_ pre (compile tail b fin e) post 0 (base ++ env.map toV) frames (toSt σ)) k

def E1 (fuel : Nat) : Prop := ∀ e, E1e fuel e

def E2 (fuel : Nat) : Prop :=
  ∀ (self : Self) (args : List Core) (env caps : List Val) (σ : St Core) (k : Err),
    evalArgs fuel self args env caps σ = .err k → k ≠ .bad →
  ∀ (lv : Bool) (fin b : Nat) (pre post : List Instr) (base : List VVal) (frames : List Frame), b = pre.length →
    Ctx self caps (pre ++ compileArgs lv b fin args ++ post) base frames →
    Fails (at_ pre (compileArgs lv b fin args) post 0 (base ++ env.map toV) frames (toSt σ)) k

theorem E1.sub {fuel : Nat} (eh : E1 fuel) {self : Self} {tail : Bool} {e : Core} {env caps : List Val}
    {σ : St Core} {k : Err}
    (h : evalC fuel self tail e env caps σ = .err k) (hk : k ≠ .bad)
    (pre mid post pre' post' : List Instr) (fin b' : Nat) (base : List VVal) (frames : List Frame)
    (hcode : pre ++ mid ++ post = pre' ++ compile tail b' fin e ++ post') (hb' : b' = pre'.length)
    (hctx : Ctx self caps (pre ++ mid ++ post) base frames) (ht : tail = true → frames ≠ [])
    (j : Nat) (hj : pre.length + j = pre'.length) :
    Fails (at_ pre mid post j (base ++ env.map toV) frames (toSt σ)) k := by
  have := eh e self tail env caps σ k h hk fin b' pre' post' base frames hb' (hcode ▸ hctx) ht
  rw [at_eq _ _ _ hcode (by omega : pre.length + j = pre'.length + 0)]; exact this

theorem E2.sub {fuel : Nat} (eh : E2 fuel) {self : Self} {args : List Core} {env caps : List Val}
    {σ : St Core} {k : Err}
    (h : evalArgs fuel self args env caps σ = .err k) (hk : k ≠ .bad)
    (lv : Bool) (pre mid post pre' post' : List Instr) (fin b' : Nat) (base : List VVal) (frames : List Frame)
    (hcode : pre ++ mid ++ post = pre' ++ compileArgs lv b' fin args ++ post') (hb' : b' = pre'.length)
    (hctx : Ctx self caps (pre ++ mid ++ post) base frames)
    (j : Nat) (hj : pre.length + j = pre'.length) :
    Fails (at_ pre mid post j (base ++ env.map toV) frames (toSt σ)) k := by
  have := eh self args env caps σ k h hk lv fin b' pre' post' base frames hb' (hcode ▸ hctx)
  rw [at_eq _ _ _ hcode (by omega : pre.length + j = pre'.length + 0)]; exact this

/-! ## Leaves -/

theorem err_const (fuel : Nat) (c : Const) : E1e (fuel + 1) (.const c) := by
  intro self tail env caps σ k h; simp [evalC] at h

theorem err_loc (fuel : Nat) (i : Nat) (mv : Bool) : E1e (fuel + 1) (.loc i mv) := by
  intro self tail env caps σ k h hk
  simp only [evalC] at h
  cases hv : env[i]? <;> simp [hv] at h
  exact absurd h.symm hk

theorem err_cap (fuel : Nat) (i : Nat) : E1e (fuel + 1) (.cap i) := by
  intro self tail env caps σ k h hk
  simp only [evalC] at h
  cases hv : caps[i]? <;> simp [hv] at h
  exact absurd h.symm hk

theorem err_lam (fuel : Nat) (a : Nat) (r : Bool) (cs : List CapSrc) (body : Core) :
    E1e (fuel + 1) (.lam a r cs body) := by
  intro self tail env caps σ k h hk
  simp only [evalC] at h
  cases hv : capture env caps cs <;> simp [hv] at h
  exact absurd h.symm hk

theorem err_glob (fuel : Nat) (g : Nat) : E1e (fuel + 1) (.glob g) := by
  intro self tail env caps σ k h hk fin b pre post base frames hb hctx ht
  simp only [evalC] at h
  cases hv : lookupG g σ.globals with
  | some x => simp [hv] at h
  | none =>
    simp only [hv, Res.err.injEq] at h
    subst h
    refine Fails.now (fail_pushg pre _ post 0 _ frames _ g (by simp [compile]) ?_)
    simp [lookupG_map, hv]

/-! ## Control -/

theorem err_seq (fuel : Nat) (ih : P1 fuel) (eh : E1 fuel) (a b' : Core) : E1e (fuel + 1) (.seq a b') := by
  intro self tail env caps σ k h hk fin b pre post base frames hb hctx ht
  subst hb
  simp only [evalC] at h
  cases ha : evalC fuel self false a env caps σ with
  | timeout => simp [ha] at h
  | err e =>
    simp only [ha, Res.err.injEq] at h; subst h
    exact E1.sub eh ha hk pre _ post pre
      ([.POPSINGLE] ++ compile tail (pre.length + clen a + 1) fin b' ++ post) fin pre.length base frames
      (by simp [compile, List.append_assoc]) rfl hctx (by simp) 0 rfl
  | ok ra =>
    obtain ⟨va, env1, σ1⟩ := ra
    simp only [ha] at h
    obtain ⟨c1, e1, p1⟩ := P1.sub ih ha pre _ post pre
      ([.POPSINGLE] ++ compile tail (pre.length + clen a + 1) fin b' ++ post) fin pre.length base frames
      (by simp [compile, List.append_assoc]) rfl hctx (by simp) 0 rfl
    rw [p1.exact] at e1
    have e2 := exec_popsingle pre (compile tail pre.length fin (.seq a b')) post (0 + clen a)
      (base ++ env1.map toV) frames (toSt σ1) (toV va) (by find_ins)
    refine Fails.of_exec (e1.trans e2) ?_
    exact E1.sub eh h hk pre (compile tail pre.length fin (.seq a b')) post
      (pre ++ compile false pre.length fin a ++ [.POPSINGLE]) post fin (pre.length + clen a + 1) base frames
      (by simp [compile, List.append_assoc]) (by simp <;> omega) hctx ht (0 + clen a + 1) (by simp <;> omega)

theorem err_ite (fuel : Nat) (ih : P1 fuel) (eh : E1 fuel) (c t e : Core) : E1e (fuel + 1) (.ite c t e) := by
  intro self tail env caps σ k h hk fin b pre post base frames hb hctx ht
  subst hb
  simp only [evalC] at h
  cases hc : evalC fuel self false c env caps σ with
  | timeout => simp [hc] at h
  | err e' =>
    simp only [hc, Res.err.injEq] at h; subst h
    exact E1.sub eh hc hk pre (compile tail pre.length fin (.ite c t e)) post pre
      ([.IF (pre.length + clen c + 1 + clen t + 1)] ++ compile tail (pre.length + clen c + 1) fin t ++
        [if tail && (pre.length + clen c + 1 + clen t + 1 + clen e == fin) then .POPJMP
          else .JMP (pre.length + clen c + 1 + clen t + 1 + clen e)] ++
        compile tail (pre.length + clen c + 1 + clen t + 1) fin e ++ post) fin pre.length base frames
      (by simp [compile, List.append_assoc]) rfl hctx (by simp) 0 rfl
  | ok rc =>
    obtain ⟨vc, env1, σ1⟩ := rc
    simp only [hc] at h
    obtain ⟨c1, e1, p1⟩ := P1.sub ih hc pre (compile tail pre.length fin (.ite c t e)) post pre
      ([.IF (pre.length + clen c + 1 + clen t + 1)] ++ compile tail (pre.length + clen c + 1) fin t ++
        [if tail && (pre.length + clen c + 1 + clen t + 1 + clen e == fin) then .POPJMP
          else .JMP (pre.length + clen c + 1 + clen t + 1 + clen e)] ++
        compile tail (pre.length + clen c + 1 + clen t + 1) fin e ++ post) fin pre.length base frames
      (by simp [compile, List.append_assoc]) rfl hctx (by simp) 0 rfl
    rw [p1.exact] at e1
    refine Fails.of_exec e1 ?_
    have hif : (compile tail pre.length fin (.ite c t e))[0 + clen c]? =
        some (.IF (pre.length + clen c + 1 + clen t + 1)) := by find_ins
    by_cases htr : truthy vc = true
    · simp only [htr, if_true] at h
      have e2 := exec_if_true pre (compile tail pre.length fin (.ite c t e)) post (0 + clen c)
        (base ++ env1.map toV) frames (toSt σ1) _ (toV vc) hif (by simpa using htr)
      refine Fails.of_exec e2 ?_
      exact E1.sub eh h hk pre (compile tail pre.length fin (.ite c t e)) post
        (pre ++ compile false pre.length fin c ++ [.IF (pre.length + clen c + 1 + clen t + 1)])
        ([if tail && (pre.length + clen c + 1 + clen t + 1 + clen e == fin) then .POPJMP
          else .JMP (pre.length + clen c + 1 + clen t + 1 + clen e)] ++
          compile tail (pre.length + clen c + 1 + clen t + 1) fin e ++ post) fin (pre.length + clen c + 1) base frames
        (by simp [compile, List.append_assoc]) (by simp <;> omega) hctx ht (0 + clen c + 1) (by simp <;> omega)
    · have htr' : truthy vc = false := by simpa using htr
      simp only [htr', Bool.false_eq_true, if_false] at h
      have e2 := exec_if_false pre (compile tail pre.length fin (.ite c t e)) post (0 + clen c)
        (base ++ env1.map toV) frames (toSt σ1) _ (toV vc) hif (by simpa using htr')
      refine Fails.of_exec e2 ?_
      have hst : ({ code := pre ++ compile tail pre.length fin (.ite c t e) ++ post,
                    ip := pre.length + clen c + 1 + clen t + 1, stack := base ++ env1.map toV,
                    frames := frames, st := toSt σ1 } : Cfg) =
          at_ pre (compile tail pre.length fin (.ite c t e)) post (clen c + 1 + clen t + 1)
            (base ++ env1.map toV) frames (toSt σ1) := by
        simp [at_]; omega
      rw [hst]
      exact E1.sub eh h hk pre (compile tail pre.length fin (.ite c t e)) post
        (pre ++ compile false pre.length fin c ++ [.IF (pre.length + clen c + 1 + clen t + 1)] ++
          compile tail (pre.length + clen c + 1) fin t ++
          [if tail && (pre.length + clen c + 1 + clen t + 1 + clen e == fin) then .POPJMP
            else .JMP (pre.length + clen c + 1 + clen t + 1 + clen e)]) post fin
        (pre.length + clen c + 1 + clen t + 1) base frames
        (by simp [compile, List.append_assoc]) (by simp <;> omega) hctx ht (clen c + 1 + clen t + 1)
        (by simp <;> omega)

theorem err_setLoc (fuel : Nat) (eh : E1 fuel) (i : Nat) (e : Core) : E1e (fuel + 1) (.setLoc i e) := by
  intro self tail env caps σ k h hk fin b pre post base frames hb hctx ht
  subst hb
  simp only [evalC] at h
  cases he : evalC fuel self false e env caps σ with
  | timeout => simp [he] at h
  | err e' =>
    simp only [he, Res.err.injEq] at h; subst h
    exact E1.sub eh he hk pre (compile tail pre.length fin (.setLoc i e)) post pre
      ([.SETLOCAL i] ++ post) fin pre.length base frames
      (by simp [compile, List.append_assoc]) rfl hctx (by simp) 0 rfl
  | ok re =>
    obtain ⟨ve, env1, σ1⟩ := re
    simp only [he] at h
    cases ho : env1[i]? <;> simp [ho] at h
    exact absurd h.symm hk

theorem err_define (fuel : Nat) (eh : E1 fuel) (g : Nat) (e : Core) : E1e (fuel + 1) (.define g e) := by
  intro self tail env caps σ k h hk fin b pre post base frames hb hctx ht
  subst hb
  simp only [evalC] at h
  cases he : evalC fuel self false e env caps σ with
  | timeout => simp [he] at h
  | ok re => obtain ⟨ve, env1, σ1⟩ := re; simp [he] at h
  | err e' =>
    simp only [he, Res.err.injEq] at h; subst h
    have e0 := exec_nop pre (compile tail pre.length fin (.define g e)) post 0
      (base ++ env.map toV) frames (toSt σ) .SDEF (by simp [compile]) (by simp)
    refine Fails.of_exec e0 ?_
    exact E1.sub eh he hk pre (compile tail pre.length fin (.define g e)) post (pre ++ [.SDEF])
      ([.EDEF] ++ [.BIND g] ++ [.VOID] ++ post) fin (pre.length + 1) base frames
      (by simp [compile, List.append_assoc]) (by simp) hctx (by simp) (0 + 1) (by simp)

theorem err_setGlob (fuel : Nat) (ih : P1 fuel) (eh : E1 fuel) (g : Nat) (e : Core) :
    E1e (fuel + 1) (.setGlob g e) := by
  intro self tail env caps σ k h hk fin b pre post base frames hb hctx ht
  subst hb
  simp only [evalC] at h
  cases he : evalC fuel self false e env caps σ with
  | timeout => simp [he] at h
  | err e' =>
    simp only [he, Res.err.injEq] at h; subst h
    exact E1.sub eh he hk pre (compile tail pre.length fin (.setGlob g e)) post pre
      ([.SET g] ++ post) fin pre.length base frames
      (by simp [compile, List.append_assoc]) rfl hctx (by simp) 0 rfl
  | ok re =>
    obtain ⟨ve, env1, σ1⟩ := re
    simp only [he] at h
    cases ho : lookupG g σ1.globals with
    | some old => simp [ho] at h
    | none =>
      simp only [ho, Res.err.injEq] at h; subst h
      obtain ⟨c1, e1, p1⟩ := P1.sub ih he pre (compile tail pre.length fin (.setGlob g e)) post pre
        ([.SET g] ++ post) fin pre.length base frames
        (by simp [compile, List.append_assoc]) rfl hctx (by simp) 0 rfl
      rw [p1.exact] at e1
      refine Fails.of_exec e1 (Fails.now ?_)
      exact fail_set pre (compile tail pre.length fin (.setGlob g e)) post (0 + clen e)
        (base ++ env1.map toV) frames (toSt σ1) g (toV ve) (by find_ins) (by simp [lookupG_map, ho])

theorem err_let (fuel : Nat) (ih2 : P2 fuel) (eh : E1 fuel) (eh2 : E2 fuel) (off : Nat) (inits : List Core)
    (body : Core) : E1e (fuel + 1) (.let_ off inits body) := by
  intro self tail env caps σ k h hk fin b pre post base frames hb hctx ht
  subst hb
  simp only [evalC] at h
  have e0 := exec_nop pre (compile tail pre.length fin (.let_ off inits body)) post 0
    (base ++ env.map toV) frames (toSt σ) .BEGINSCOPE (by simp [compile]) (by simp)
  refine Fails.of_exec e0 ?_
  cases hi : evalArgs fuel self inits env caps σ with
  | timeout => simp [hi] at h
  | err e' =>
    simp only [hi, Res.err.injEq] at h; subst h
    exact E2.sub eh2 hi hk true pre (compile tail pre.length fin (.let_ off inits body)) post
      (pre ++ [.BEGINSCOPE])
      (compile tail (pre.length + 1 + clenL true inits) fin body ++ [.LETENDSCOPE off] ++ post) fin
      (pre.length + 1) base frames (by simp [compile, List.append_assoc]) (by simp) hctx (0 + 1) (by simp)
  | ok ri =>
    obtain ⟨env1, σ1⟩ := ri
    simp only [hi] at h
    have e1 := P2.sub ih2 hi true pre (compile tail pre.length fin (.let_ off inits body)) post
      (pre ++ [.BEGINSCOPE])
      (compile tail (pre.length + 1 + clenL true inits) fin body ++ [.LETENDSCOPE off] ++ post) fin
      (pre.length + 1) base frames (by simp [compile, List.append_assoc]) (by simp) hctx (0 + 1) (by simp)
    refine Fails.of_exec e1 ?_
    cases hbd : evalC fuel self tail body env1 caps σ1 with
    | timeout => simp [hbd] at h
    | ok rb =>
      obtain ⟨vb, env2, σ2⟩ := rb
      simp only [hbd] at h
      by_cases hlen : env2.length < off
      · simp [hlen] at h; exact absurd h.symm hk
      · simp [hlen] at h
    | err e' =>
      simp only [hbd, Res.err.injEq] at h; subst h
      exact E1.sub eh hbd hk pre (compile tail pre.length fin (.let_ off inits body)) post
        (pre ++ [.BEGINSCOPE] ++ compileArgs true (pre.length + 1) fin inits) ([.LETENDSCOPE off] ++ post) fin
        (pre.length + 1 + clenL true inits) base frames
        (by simp [compile, List.append_assoc]) (by simp <;> omega) hctx ht (0 + 1 + clenL true inits)
        (by simp <;> omega)

/-! ## Operand lists -/

theorem err_args (fuel : Nat) (ih : P1 fuel) (eh : E1 fuel) (eh2 : E2 fuel) : E2 (fuel + 1) := by
  intro self args env caps σ k h hk lv fin b pre post base frames hb hctx
  subst hb
  cases args with
  | nil => simp [evalArgs] at h
  | cons a rest =>
    simp only [evalArgs] at h
    cases ha : evalC fuel self false a env caps σ with
    | timeout => simp [ha] at h
    | err e' =>
      simp only [ha, Res.err.injEq] at h; subst h
      cases lv
      · exact E1.sub eh ha hk pre (compileArgs false pre.length fin (a :: rest)) post pre
          (compileArgs false (pre.length + clen a + 0) fin rest ++ post) fin pre.length base frames
          (by simp [compileArgs, List.append_assoc]) rfl hctx (by simp) 0 rfl
      · exact E1.sub eh ha hk pre (compileArgs true pre.length fin (a :: rest)) post pre
          ([.LETVAR] ++ compileArgs true (pre.length + clen a + 1) fin rest ++ post) fin pre.length base frames
          (by simp [compileArgs, List.append_assoc]) rfl hctx (by simp) 0 rfl
    | ok ra =>
      obtain ⟨va, env2, σ2⟩ := ra
      simp only [ha] at h
      cases lv
      · obtain ⟨c1, e1, p1⟩ := P1.sub ih ha pre (compileArgs false pre.length fin (a :: rest)) post pre
          (compileArgs false (pre.length + clen a + 0) fin rest ++ post) fin pre.length base frames
          (by simp [compileArgs, List.append_assoc]) rfl hctx (by simp) 0 rfl
        rw [p1.exact] at e1
        refine Fails.of_exec e1 ?_
        have := E2.sub eh2 h hk false pre (compileArgs false pre.length fin (a :: rest)) post
          (pre ++ compile false pre.length fin a) post fin (pre.length + clen a + 0) base frames
          (by simp [compileArgs, List.append_assoc]) (by simp) hctx (0 + clen a) (by simp)
        simpa using this
      · obtain ⟨c1, e1, p1⟩ := P1.sub ih ha pre (compileArgs true pre.length fin (a :: rest)) post pre
          ([.LETVAR] ++ compileArgs true (pre.length + clen a + 1) fin rest ++ post) fin pre.length base frames
          (by simp [compileArgs, List.append_assoc]) rfl hctx (by simp) 0 rfl
        rw [p1.exact] at e1
        have e15 := exec_nop pre (compileArgs true pre.length fin (a :: rest)) post (0 + clen a)
          (base ++ env2.map toV ++ [toV va]) frames (toSt σ2) .LETVAR
          (by simp only [compileArgs, if_true]; exact gl (gh (by simp))) (by simp)
        refine Fails.of_exec (e1.trans e15) ?_
        have := E2.sub eh2 h hk true pre (compileArgs true pre.length fin (a :: rest)) post
          (pre ++ compile false pre.length fin a ++ [.LETVAR]) post fin (pre.length + clen a + 1) base frames
          (by simp [compileArgs, List.append_assoc]) (by simp <;> omega) hctx (0 + clen a + 1) (by simp <;> omega)
        simpa using this

/-! ## Box primitives -/

theorem err_boxop (fuel : Nat) (ih2 : P2 fuel) (eh2 : E2 fuel) (op : BoxOp) (args : List Core) :
    E1e (fuel + 1) (.boxop op args) := by
  intro self tail env caps σ k h hk fin b pre post base frames hb hctx ht
  subst hb
  simp only [evalC] at h
  cases hi : evalArgs fuel self args env caps σ with
  | timeout => simp [hi] at h
  | err e' =>
    simp only [hi, Res.err.injEq] at h; subst h
    exact E2.sub eh2 hi hk false pre (compile tail pre.length fin (.boxop op args)) post pre
      ([boxInstr op] ++ [if tail then .TAILCALL args.length else .FUNC args.length] ++ post) fin pre.length
      base frames (by simp [compile, List.append_assoc]) rfl hctx 0 rfl
  | ok ri =>
    obtain ⟨env1, σ1⟩ := ri
    simp only [hi] at h
    cases hs : splitLast op.arity env1 with
    | none => simp [hs] at h; exact absurd h.symm hk
    | some sp =>
      obtain ⟨envr, argv⟩ := sp
      simp only [hs] at h
      cases ha : op.apply argv σ1 with
      | timeout => simp [ha] at h
      | ok ro => obtain ⟨vo, σ2⟩ := ro; simp [ha] at h
      | err e' =>
        simp only [ha, Res.err.injEq] at h; subst h
        have e1 := P2.sub ih2 hi false pre (compile tail pre.length fin (.boxop op args)) post pre
          ([boxInstr op] ++ [if tail then .TAILCALL args.length else .FUNC args.length] ++ post) fin pre.length
          base frames (by simp [compile, List.append_assoc]) rfl hctx 0 rfl
        refine Fails.of_exec e1 (Fails.now ?_)
        exact fail_boxop pre (compile tail pre.length fin (.boxop op args)) post (0 + clenL false args)
          (base ++ env1.map toV) frames (toSt σ1) op (base ++ envr.map toV) (argv.map toV) e'
          (by find_ins) (splitLast_base base hs) (by rw [BoxOp.apply_map, ha]; rfl)

/-! ## Calls -/

theorem body_fails {fuel : Nat} (eh : E1 fuel) (a : Nat) (r : Bool) (body : Core) (locals cc : List Val)
    (σ : St Core) (k : Err) (hk : k ≠ .bad)
    (h : evalC fuel (some (a, r, body)) true body locals cc σ = .err k)
    (base : List VVal) (f : Frame) (rest : List Frame) (hsp : f.sp = base.length) (hc : f.caps = cc.map toV)
    (ha : f.arity = a) (hr : f.rest = r) :
    Fails { code := bodyCode body, ip := 0, stack := base ++ locals.map toV, frames := f :: rest, st := toSt σ } k := by
  have := eh body (some (a, r, body)) true locals cc σ k h hk (clen body) 0 [] [.POPPURE] base (f :: rest) rfl
    ⟨by simpa [spOf] using hsp, by simpa [capsOf] using hc, by
      intro a' r' b' heq
      simp only [Option.some.injEq, Prod.mk.injEq] at heq
      obtain ⟨rfl, rfl, rfl⟩ := heq
      exact ⟨f, rest, rfl, ha, hr, by simp [bodyCode]⟩⟩
    (by simp)
  have hstart : at_ [] (compile true 0 (clen body) body) [.POPPURE] 0 (base ++ locals.map toV) (f :: rest) (toSt σ) =
      { code := bodyCode body, ip := 0, stack := base ++ locals.map toV, frames := f :: rest, st := toSt σ } := by
    simp [at_, bodyCode]
  rw [hstart] at this
  exact this

/-- A failing application, in or out of tail position: either the call instruction itself reports the error, or the
callee's body is entered (in the frame `mkframe …`) and fails. -/
theorem call_fails {fuel : Nat} (eh : E1 fuel) (fv : Val) (argv : List Val) (σ2 : St Core) (k : Err) (hk : k ≠ .bad)
    (happ : applyWith (fun s => evalC fuel s true) fv argv σ2 = .err k)
    (start : Cfg) (himm : CallErr (toV fv) (argv.map toV) k → step start = .err k)
    (base' : List VVal) (mkframe : Nat → Bool → List VVal → Frame) (restf : List Frame)
    (hfr : ∀ a r caps, (mkframe a r caps).sp = base'.length ∧ (mkframe a r caps).arity = a ∧
      (mkframe a r caps).rest = r ∧ (mkframe a r caps).caps = caps)
    (hclo : ∀ a r body cc locals, fv = .clo a r body cc → bindArgs a r (argv.map toV) = .ok locals →
      Exec start { code := bodyCode body, ip := 0, stack := base' ++ locals,
                   frames := mkframe a r (cc.map toV) :: restf, st := toSt σ2 }) :
    Fails start k := by
  rcases applyWith_err happ with hce | ⟨a, r, body, cc, locals, rfl, hb, hev⟩
  · exact Fails.now (himm hce.toV)
  · have h1 := hclo a r body cc (locals.map toV) rfl (by rw [bindArgs_map, hb]; rfl)
    obtain ⟨h1', h2', h3', h4'⟩ := hfr a r (cc.map toV)
    exact Fails.of_exec h1 (body_fails eh a r body locals cc σ2 k hk hev base' _ restf h1' h4' h2' h3')

theorem err_app (fuel : Nat) (ih : P1 fuel) (ih2 : P2 fuel) (eh : E1 fuel) (eh2 : E2 fuel) (f : Core)
    (args : List Core) : E1e (fuel + 1) (.app f args) := by
  intro self tail env caps σ k h hk fin b pre post base frames hb hctx ht
  subst hb
  simp only [evalC] at h
  cases hi : evalArgs fuel self args env caps σ with
  | timeout => simp [hi] at h
  | err e' =>
    simp only [hi, Res.err.injEq] at h; subst h
    exact E2.sub eh2 hi hk false pre (compile tail pre.length fin (.app f args)) post pre
      (compile false (pre.length + clenL false args) fin f ++
        [if tail then .TAILCALL args.length else .FUNC args.length] ++ post) fin pre.length
      base frames (by simp [compile, List.append_assoc]) rfl hctx 0 rfl
  | ok ri =>
    obtain ⟨env1, σ1⟩ := ri
    simp only [hi] at h
    have e1 := P2.sub ih2 hi false pre (compile tail pre.length fin (.app f args)) post pre
      (compile false (pre.length + clenL false args) fin f ++
        [if tail then .TAILCALL args.length else .FUNC args.length] ++ post) fin pre.length
      base frames (by simp [compile, List.append_assoc]) rfl hctx 0 rfl
    refine Fails.of_exec e1 ?_
    cases hf : evalC fuel self false f env1 caps σ1 with
    | timeout => simp [hf] at h
    | err e' =>
      simp only [hf, Res.err.injEq] at h; subst h
      exact E1.sub eh hf hk pre (compile tail pre.length fin (.app f args)) post
        (pre ++ compileArgs false pre.length fin args)
        ([if tail then .TAILCALL args.length else .FUNC args.length] ++ post) fin
        (pre.length + clenL false args) base frames
        (by simp [compile, List.append_assoc]) (by simp) hctx (by simp) (0 + clenL false args) (by simp)
    | ok rf =>
      obtain ⟨fv, env2, σ2⟩ := rf
      simp only [hf] at h
      obtain ⟨c2, e2, p2⟩ := P1.sub ih hf pre (compile tail pre.length fin (.app f args)) post
        (pre ++ compileArgs false pre.length fin args)
        ([if tail then .TAILCALL args.length else .FUNC args.length] ++ post) fin
        (pre.length + clenL false args) base frames
        (by simp [compile, List.append_assoc]) (by simp) hctx (by simp) (0 + clenL false args) (by simp)
      rw [p2.exact] at e2
      refine Fails.of_exec e2 ?_
      cases hs : splitLast args.length env2 with
      | none => simp [hs] at h; exact absurd h.symm hk
      | some sp =>
        obtain ⟨envr, argv⟩ := sp
        simp only [hs] at h
        cases happ : applyWith (fun s => evalC fuel s true) fv argv σ2 with
        | timeout => simp [happ] at h
        | ok ro => obtain ⟨vo, σ3⟩ := ro; simp [happ] at h
        | err e' =>
          simp only [happ, Res.err.injEq] at h; subst h
          obtain ⟨henv2, hlen, _⟩ := splitLast_some hs
          have hstk : base ++ env2.map toV ++ [toV fv] = (base ++ envr.map toV) ++ argv.map toV ++ [toV fv] := by
            rw [henv2]; simp [List.append_assoc]
          rw [hstk]
          cases tail
          · have hins : (compile false pre.length fin (.app f args))[0 + clenL false args + clen f]? =
                some (.FUNC args.length) := by find_ins
            refine call_fails eh fv argv σ2 e' hk happ _ ?_ (base ++ envr.map toV)
              (fun a r caps => { sp := (base ++ envr.map toV).length,
                                 retIp := pre.length + (0 + clenL false args + clen f + 1),
                                 retCode := pre ++ compile false pre.length fin (.app f args) ++ post,
                                 arity := a, rest := r, caps := caps }) frames
              (fun a r caps => ⟨rfl, rfl, rfl, rfl⟩) ?_
            · intro hce
              exact fail_func pre _ post _ frames (toSt σ2) args.length (base ++ envr.map toV) (argv.map toV)
                (toV fv) e' hins (by simpa using hlen) hce
            · intro a r body cc locals hfv hb
              subst hfv
              have := exec_func_clo pre _ post _ frames (toSt σ2) args.length (base ++ envr.map toV) (argv.map toV)
                locals a r (bodyCode body) (cc.map toV) hins (by simpa using hlen) hb
              simpa [Nat.add_assoc] using this
          · obtain ⟨fr, rest, rfl⟩ := frames_cons (ht rfl)
            have hsp : fr.sp = base.length := by simpa [spOf] using hctx.hsp
            have hins : (compile true pre.length fin (.app f args))[0 + clenL false args + clen f]? =
                some (.TAILCALL args.length) := by find_ins
            refine call_fails eh fv argv σ2 e' hk happ _ ?_ base
              (fun a r caps => { fr with arity := a, rest := r, caps := caps }) rest
              (fun a r caps => ⟨hsp, rfl, rfl, rfl⟩) ?_
            · intro hce
              exact fail_tailcall pre _ post _ (fr :: rest) (toSt σ2) args.length (base ++ envr.map toV)
                (argv.map toV) (toV fv) e' hins (by simpa using hlen) hce
            · intro a r body cc locals hfv hb
              subst hfv
              simpa using exec_tail_clo pre _ post _ (toSt σ2) args.length base (envr.map toV) (argv.map toV)
                locals a r (bodyCode body) (cc.map toV) fr rest hins (by simpa using hlen) hsp hb

theorem err_callG (fuel : Nat) (ih2 : P2 fuel) (eh : E1 fuel) (eh2 : E2 fuel) (g : Nat)
    (args : List Core) : E1e (fuel + 1) (.callG g args) := by
  intro self tail env caps σ k h hk fin b pre post base frames hb hctx ht
  subst hb
  simp only [evalC] at h
  cases hi : evalArgs fuel self args env caps σ with
  | timeout => simp [hi] at h
  | err e' =>
    simp only [hi, Res.err.injEq] at h; subst h
    exact E2.sub eh2 hi hk false pre (compile tail pre.length fin (.callG g args)) post pre
      ([if tail then .CALLGLOBALTAIL g else .CALLGLOBAL g] ++
        [if tail then .TAILCALL args.length else .FUNC args.length] ++ post) fin pre.length
      base frames (by simp [compile, List.append_assoc]) rfl hctx 0 rfl
  | ok ri =>
    obtain ⟨env1, σ1⟩ := ri
    simp only [hi] at h
    have e1 := P2.sub ih2 hi false pre (compile tail pre.length fin (.callG g args)) post pre
      ([if tail then .CALLGLOBALTAIL g else .CALLGLOBAL g] ++
        [if tail then .TAILCALL args.length else .FUNC args.length] ++ post) fin pre.length
      base frames (by simp [compile, List.append_assoc]) rfl hctx 0 rfl
    refine Fails.of_exec e1 ?_
    cases hg : lookupG g σ1.globals with
    | none =>
      simp only [hg, Res.err.injEq] at h; subst h
      have hgv : lookupG g (toSt σ1).globals = none := by simp [lookupG_map, hg]
      cases tail
      · exact Fails.now (fail_callg_free pre _ post (0 + clenL false args) _ frames (toSt σ1) g (by find_ins) hgv)
      · exact Fails.now (fail_callgtail_free pre _ post (0 + clenL false args) _ frames (toSt σ1) g (by find_ins) hgv)
    | some fv =>
      simp only [hg] at h
      cases hs : splitLast args.length env1 with
      | none => simp [hs] at h; exact absurd h.symm hk
      | some sp =>
        obtain ⟨envr, argv⟩ := sp
        simp only [hs] at h
        cases happ : applyWith (fun s => evalC fuel s true) fv argv σ1 with
        | timeout => simp [happ] at h
        | ok ro => obtain ⟨vo, σ3⟩ := ro; simp [happ] at h
        | err e' =>
          simp only [happ, Res.err.injEq] at h; subst h
          obtain ⟨henv1, hlen, _⟩ := splitLast_some hs
          have hgv := lookupG_toSt g σ1 fv hg
          have hstk : base ++ env1.map toV = (base ++ envr.map toV) ++ argv.map toV := by
            rw [henv1]; simp [List.append_assoc]
          rw [hstk]
          cases tail
          · have hins : (compile false pre.length fin (.callG g args))[0 + clenL false args]? =
                some (.CALLGLOBAL g) := by find_ins
            have hins2 : (compile false pre.length fin (.callG g args))[0 + clenL false args + 1]? =
                some (.FUNC args.length) := by find_ins
            refine call_fails eh fv argv σ1 e' hk happ _ ?_ (base ++ envr.map toV)
              (fun a r caps => { sp := (base ++ envr.map toV).length,
                                 retIp := pre.length + (0 + clenL false args + 2),
                                 retCode := pre ++ compile false pre.length fin (.callG g args) ++ post,
                                 arity := a, rest := r, caps := caps }) frames
              (fun a r caps => ⟨rfl, rfl, rfl, rfl⟩) ?_
            · intro hce
              exact fail_callg pre _ post _ frames (toSt σ1) g args.length (base ++ envr.map toV) (argv.map toV)
                (toV fv) e' hins hins2 hgv (by simpa using hlen) hce
            · intro a r body cc locals hfv hb
              subst hfv
              have := exec_callg_clo pre _ post _ frames (toSt σ1) g args.length (base ++ envr.map toV)
                (argv.map toV) locals a r (bodyCode body) (cc.map toV) hins hins2 (hgv.trans (by simp))
                (by simpa using hlen) hb
              simpa [Nat.add_assoc] using this
          · obtain ⟨fr, rest, rfl⟩ := frames_cons (ht rfl)
            have hsp : fr.sp = base.length := by simpa [spOf] using hctx.hsp
            have hins : (compile true pre.length fin (.callG g args))[0 + clenL false args]? =
                some (.CALLGLOBALTAIL g) := by find_ins
            have hins2 : (compile true pre.length fin (.callG g args))[0 + clenL false args + 1]? =
                some (.TAILCALL args.length) := by find_ins
            refine call_fails eh fv argv σ1 e' hk happ _ ?_ base
              (fun a r caps => { fr with arity := a, rest := r, caps := caps }) rest
              (fun a r caps => ⟨hsp, rfl, rfl, rfl⟩) ?_
            · intro hce
              exact fail_callgtail pre _ post _ (fr :: rest) (toSt σ1) g args.length (base ++ envr.map toV)
                (argv.map toV) (toV fv) e' hins hins2 hgv (by simpa using hlen) hce
            · intro a r body cc locals hfv hb
              subst hfv
              simpa using exec_callgtail_clo pre _ post _ (toSt σ1) g args.length base (envr.map toV) (argv.map toV)
                locals a r (bodyCode body) (cc.map toV) fr rest hins hins2 (hgv.trans (by simp))
                (by simpa using hlen) hsp hb

theorem err_selfTail (fuel : Nat) (ih2 : P2 fuel) (eh : E1 fuel) (eh2 : E2 fuel) (args : List Core) :
    E1e (fuel + 1) (.selfTail args) := by
  intro self tail env caps σ k h hk fin b pre post base frames hb hctx ht
  subst hb
  simp only [evalC] at h
  cases tail
  · simp at h; exact absurd h.symm hk
  · simp only [if_true] at h
    cases hi : evalArgs fuel self args env caps σ with
    | timeout => simp [hi] at h
    | err e' =>
      simp only [hi, Res.err.injEq] at h; subst h
      exact E2.sub eh2 hi hk false pre (compile true pre.length fin (.selfTail args)) post pre
        ([.TCOJMP args.length] ++ [.PASS 0] ++ post) fin pre.length
        base frames (by simp [compile, List.append_assoc]) rfl hctx 0 rfl
    | ok ri =>
      obtain ⟨env1, σ1⟩ := ri
      simp only [hi] at h
      cases self with
      | none => simp at h; exact absurd h.symm hk
      | some sf =>
        obtain ⟨a, r, body⟩ := sf
        simp only at h
        cases hs : splitLast args.length env1 with
        | none => simp [hs] at h; exact absurd h.symm hk
        | some sp =>
          obtain ⟨envr, argv⟩ := sp
          simp only [hs] at h
          cases happ : applyWith (fun s => evalC fuel s true) (.clo a r body caps) argv σ1 with
          | timeout => simp [happ] at h
          | ok ro => obtain ⟨vo, σ3⟩ := ro; simp [happ] at h
          | err e' =>
            simp only [happ, Res.err.injEq] at h; subst h
            obtain ⟨henv1, hlen, _⟩ := splitLast_some hs
            obtain ⟨fr, rest, rfl, har, hrr, hcode⟩ := hctx.hself a r body rfl
            have hsp : fr.sp = base.length := by simpa [spOf] using hctx.hsp
            have hcaps : fr.caps = caps.map toV := by simpa [capsOf] using hctx.hcaps
            have e1 := P2.sub ih2 hi false pre (compile true pre.length fin (.selfTail args)) post pre
              ([.TCOJMP args.length] ++ [.PASS 0] ++ post) fin pre.length
              base (fr :: rest) (by simp [compile, List.append_assoc]) rfl hctx 0 rfl
            refine Fails.of_exec e1 ?_
            have hstk : base ++ env1.map toV = base ++ envr.map toV ++ argv.map toV := by
              rw [henv1]; simp [List.append_assoc]
            rw [hstk]
            have hins : (compile true pre.length fin (.selfTail args))[0 + clenL false args]? =
                some (.TCOJMP args.length) := by find_ins
            rcases applyWith_err happ with hce | ⟨a', r', body', cc, locals, hfv, hb, hev⟩
            · rcases hce with ⟨p, hfv, _⟩ | ⟨a', r', b', cc, hfv, hb⟩ | ⟨hn, _⟩
              · cases hfv
              · simp only [V.clo.injEq] at hfv
                obtain ⟨rfl, rfl, rfl, rfl⟩ := hfv
                refine Fails.now ?_
                exact fail_tcojmp pre _ post _ (toSt σ1) args.length (base ++ envr.map toV) (argv.map toV) fr rest e'
                  hins (by simpa using hlen) (by rw [har, hrr, bindArgs_map, hb]; rfl)
              · simp [V.isProc] at hn
            · simp only [V.clo.injEq] at hfv
              obtain ⟨rfl, rfl, rfl, rfl⟩ := hfv
              have e2 := exec_tcojmp pre (compile true pre.length fin (.selfTail args)) post (0 + clenL false args)
                (toSt σ1) args.length base (envr.map toV) (argv.map toV) (locals.map toV) fr rest hins
                (by simpa using hlen) hsp (by rw [har, hrr, bindArgs_map, hb]; rfl)
              rw [hcode] at e2
              exact Fails.of_exec e2 (body_fails eh a r body locals caps σ1 e' hk hev base fr rest hsp hcaps har hrr)

/-! ## All cases together -/

theorem err_all : ∀ fuel, E1 fuel ∧ E2 fuel := by
  intro fuel
  induction fuel with
  | zero =>
    constructor
    · intro e self tail env caps σ k h
      simp [evalC] at h
    · intro self args env caps σ k h
      simp [evalArgs] at h
  | succ fuel ihf =>
    obtain ⟨eh, eh2⟩ := ihf
    obtain ⟨ih, ih2⟩ := sim_all fuel
    refine ⟨?_, err_args fuel ih eh eh2⟩
    intro e
    cases e with
    | const c => exact err_const fuel c
    | loc i mv => exact err_loc fuel i mv
    | cap i => exact err_cap fuel i
    | glob g => exact err_glob fuel g
    | lam a r cs body => exact err_lam fuel a r cs body
    | app f args => exact err_app fuel ih ih2 eh eh2 f args
    | callG g args => exact err_callG fuel ih2 eh eh2 g args
    | selfTail args => exact err_selfTail fuel ih2 eh eh2 args
    | ite c t e => exact err_ite fuel ih eh c t e
    | let_ off inits body => exact err_let fuel ih2 eh eh2 off inits body
    | seq a b => exact err_seq fuel ih eh a b
    | setLoc i e => exact err_setLoc fuel eh i e
    | boxop op args => exact err_boxop fuel ih2 eh2 op args
    | define g e => exact err_define fuel eh g e
    | setGlob g e => exact err_setGlob fuel ih eh g e

end SteelVerif.C01C
