/-
C01 stage 2 — the simulation statement and its cases for the constructs without calls.

`P1 fuel`: whenever `evalC fuel … e` yields a value, the VM started at the code of `e` (anywhere inside a function
body or a top-level sequence, on a shared stack whose part below the frame is arbitrary) reaches the end of that
code with the frame slots prescribed by the semantics and the value on top — or, in tail position, has returned
the value to the caller of the frame.
-/
import SteelVerif.C01.CoreExec
namespace SteelVerif.C01C

/-- What ties the VM's frame list to the semantic context of the running function. -/
structure Ctx (slf : Self) (caps : List Val) (code : List Instr) (base : List VVal) (frames : List Frame) : Prop where
  hsp : spOf frames = base.length
  hcaps : capsOf frames = caps.map toV
  hself : ∀ a r b, slf = some (a, r, b) →
    ∃ f rest, frames = f :: rest ∧ f.arity = a ∧ f.rest = r ∧ code = bodyCode b

/-- The frame has returned `v` to its caller. -/
def Ret (base : List VVal) (frames : List Frame) (v : Val) (σ' : St Core) (c : Cfg) : Prop :=
  ∃ f rest, frames = f :: rest ∧
    c = { code := f.retCode, ip := f.retIp, stack := base ++ [toV v], frames := rest, st := toSt σ' }

def PostAt (tail : Bool) (pre mid post : List Instr) (j : Nat) (base : List VVal) (frames : List Frame)
    (v : Val) (env' : List Val) (σ' : St Core) (c : Cfg) : Prop :=
  c = at_ pre mid post j (base ++ env'.map toV ++ [toV v]) frames (toSt σ') ∨ (tail = true ∧ Ret base frames v σ' c)

theorem PostAt.exact {pre mid post : List Instr} {j : Nat} {base : List VVal} {frames : List Frame}
    {v : Val} {env' : List Val} {σ' : St Core} {c : Cfg}
    (h : PostAt false pre mid post j base frames v env' σ' c) :
    c = at_ pre mid post j (base ++ env'.map toV ++ [toV v]) frames (toSt σ') := by
  rcases h with h | ⟨h, _⟩
  · exact h
  · cases h

def P1e (fuel : Nat) (e : Core) : Prop :=
  ∀ (self : Self) (tail : Bool) (env caps : List Val) (σ : St Core) (v : Val) (env' : List Val) (σ' : St Core),
    evalC fuel self tail e env caps σ = .ok (v, env', σ') →
  ∀ (fin b : Nat) (pre post : List Instr) (base : List VVal) (frames : List Frame), b = pre.length →
    Ctx self caps (pre ++ compile tail b fin e ++ post) base frames → (tail = true → frames ≠ []) →
    ∃ c, Exec (at_ pre (compile tail b fin e) post 0 (base ++ env.map toV) frames (toSt σ)) c ∧
      PostAt tail pre (compile tail b fin e) post (clen e) base frames v env' σ' c

def P1 (fuel : Nat) : Prop := ∀ e, P1e fuel e

def P2 (fuel : Nat) : Prop :=
  ∀ (self : Self) (args : List Core) (env caps : List Val) (σ : St Core) (env1 : List Val) (σ1 : St Core),
    evalArgs fuel self args env caps σ = .ok (env1, σ1) →
  ∀ (lv : Bool) (fin b : Nat) (pre post : List Instr) (base : List VVal) (frames : List Frame), b = pre.length →
    Ctx self caps (pre ++ compileArgs lv b fin args ++ post) base frames →
    Exec (at_ pre (compileArgs lv b fin args) post 0 (base ++ env.map toV) frames (toSt σ))
      (at_ pre (compileArgs lv b fin args) post (clenL lv args) (base ++ env1.map toV) frames (toSt σ1))

/-- Use of `P1` for a sub-expression sitting somewhere inside the code under consideration. -/
theorem P1.sub {fuel : Nat} (ih : P1 fuel) {self : Self} {tail : Bool} {e : Core} {env caps : List Val}
    {σ : St Core} {v : Val} {env' : List Val} {σ' : St Core}
    (h : evalC fuel self tail e env caps σ = .ok (v, env', σ'))
    (pre mid post pre' post' : List Instr) (fin b' : Nat) (base : List VVal) (frames : List Frame)
    (hcode : pre ++ mid ++ post = pre' ++ compile tail b' fin e ++ post') (hb' : b' = pre'.length)
    (hctx : Ctx self caps (pre ++ mid ++ post) base frames) (ht : tail = true → frames ≠ [])
    (j : Nat) (hj : pre.length + j = pre'.length) :
    ∃ c, Exec (at_ pre mid post j (base ++ env.map toV) frames (toSt σ)) c ∧
      PostAt tail pre mid post (j + clen e) base frames v env' σ' c := by
  obtain ⟨c, hex, hp⟩ := ih e self tail env caps σ v env' σ' h fin b' pre' post' base frames hb' (hcode ▸ hctx) ht
  refine ⟨c, ?_, ?_⟩
  · rw [at_eq _ _ _ hcode (by omega : pre.length + j = pre'.length + 0)]; exact hex
  · rcases hp with hp | hp
    · left; rw [hp]; exact (at_eq _ _ _ hcode (by omega)).symm
    · right; exact hp

theorem P2.sub {fuel : Nat} (ih : P2 fuel) {self : Self} {args : List Core} {env caps : List Val}
    {σ : St Core} {env1 : List Val} {σ1 : St Core}
    (h : evalArgs fuel self args env caps σ = .ok (env1, σ1))
    (lv : Bool) (pre mid post pre' post' : List Instr) (fin b' : Nat) (base : List VVal) (frames : List Frame)
    (hcode : pre ++ mid ++ post = pre' ++ compileArgs lv b' fin args ++ post') (hb' : b' = pre'.length)
    (hctx : Ctx self caps (pre ++ mid ++ post) base frames)
    (j : Nat) (hj : pre.length + j = pre'.length) :
    Exec (at_ pre mid post j (base ++ env.map toV) frames (toSt σ))
      (at_ pre mid post (j + clenL lv args) (base ++ env1.map toV) frames (toSt σ1)) := by
  have hex := ih self args env caps σ env1 σ1 h lv fin b' pre' post' base frames hb' (hcode ▸ hctx)
  rw [at_eq _ _ _ hcode (by omega : pre.length + j = pre'.length + 0),
    at_eq _ _ _ hcode (by omega : pre.length + (j + clenL lv args) = pre'.length + clenL lv args)]
  exact hex

theorem gl {L R : List Instr} {k : Nat} {x : Instr} (h : L[k]? = some x) : (L ++ R)[k]? = some x := by
  have hk : k < L.length := by
    rcases Nat.lt_or_ge k L.length with h1 | h1
    · exact h1
    · simp [List.getElem?_eq_none h1] at h
  simp [List.getElem?_append_left hk, h]

theorem gh {P : List Instr} {k : Nat} {x : Instr} (hk : k = P.length) : (P ++ [x])[k]? = some x := by
  subst hk; simp

/-- Find the instruction at a given offset of the code of a compound expression. -/
macro "find_ins" : tactic =>
  `(tactic| (simp only [compile, if_true, if_false, Bool.false_eq_true]; first
      | exact gh (by simp <;> omega)
      | exact gl (gh (by simp <;> omega))
      | exact gl (gl (gh (by simp <;> omega)))
      | exact gl (gl (gl (gh (by simp <;> omega))))
      | exact gl (gl (gl (gl (gh (by simp <;> omega)))))))

/-- Continue after an exact intermediate configuration. -/
theorem exec_then {a b : Cfg} {Q : Cfg → Prop} (h1 : Exec a b) (h2 : ∃ c, Exec b c ∧ Q c) : ∃ c, Exec a c ∧ Q c := by
  obtain ⟨c, hc, hq⟩ := h2
  exact ⟨c, h1.trans hc, hq⟩

/-! ## Leaves -/

theorem sim_const (fuel : Nat) (k : Const) : P1e (fuel + 1) (.const k) := by
  intro self tail env caps σ v env' σ' h fin b pre post base frames hb hctx ht
  simp only [evalC, Res.ok.injEq, Prod.mk.injEq] at h
  obtain ⟨rfl, rfl, rfl⟩ := h
  refine ⟨_, exec_const pre _ post 0 _ frames _ k (by simp [compile]), Or.inl ?_⟩
  simp [clen]

theorem sim_loc (fuel : Nat) (i : Nat) (mv : Bool) : P1e (fuel + 1) (.loc i mv) := by
  intro self tail env caps σ v env' σ' h fin b pre post base frames hb hctx ht
  simp only [evalC] at h
  cases hv : env[i]? with
  | none => simp [hv] at h
  | some x =>
    simp only [hv, Res.ok.injEq, Prod.mk.injEq] at h
    obtain ⟨rfl, rfl, rfl⟩ := h
    have hx : (base ++ env.map toV)[spOf frames + i]? = some (toV x) := by
      rw [hctx.hsp, getElem?_base]; simp [hv]
    cases mv
    · refine ⟨_, exec_readlocal pre _ post 0 _ frames _ i (toV x) (by simp [compile]) hx, Or.inl ?_⟩
      simp [clen]
    · refine ⟨_, exec_movelocal pre _ post 0 _ frames _ i (toV x) (by simp [compile]) hx, Or.inl ?_⟩
      rw [hctx.hsp, set_base]
      simp [clen, List.map_set]

theorem sim_cap (fuel : Nat) (i : Nat) : P1e (fuel + 1) (.cap i) := by
  intro self tail env caps σ v env' σ' h fin b pre post base frames hb hctx ht
  simp only [evalC] at h
  cases hv : caps[i]? with
  | none => simp [hv] at h
  | some x =>
    simp only [hv, Res.ok.injEq, Prod.mk.injEq] at h
    obtain ⟨rfl, rfl, rfl⟩ := h
    refine ⟨_, exec_readcap pre _ post 0 _ frames _ i (toV x) (by simp [compile])
      (by rw [hctx.hcaps]; simp [hv]), Or.inl ?_⟩
    simp [clen]

theorem sim_glob (fuel : Nat) (g : Nat) : P1e (fuel + 1) (.glob g) := by
  intro self tail env caps σ v env' σ' h fin b pre post base frames hb hctx ht
  simp only [evalC] at h
  cases hv : lookupG g σ.globals with
  | none => simp [hv] at h
  | some x =>
    simp only [hv, Res.ok.injEq, Prod.mk.injEq] at h
    obtain ⟨rfl, rfl, rfl⟩ := h
    refine ⟨_, exec_pushg pre _ post 0 _ frames _ g (toV x) (by simp [compile]) (lookupG_toSt g σ x hv), Or.inl ?_⟩
    simp [clen]

/-! ## Closure creation -/

theorem sim_lam (fuel : Nat) (a : Nat) (r : Bool) (cs : List CapSrc) (body : Core) :
    P1e (fuel + 1) (.lam a r cs body) := by
  intro self tail env caps σ v env' σ' h fin b pre post base frames hb hctx ht
  simp only [evalC] at h
  cases hv : capture env caps cs with
  | none => simp [hv] at h
  | some cv =>
    simp only [hv, Res.ok.injEq, Prod.mk.injEq] at h
    obtain ⟨rfl, rfl, rfl⟩ := h
    have hbl : (bodyCode body).length = clen body + 1 := by simp [bodyCode]
    by_cases hcs : cs.isEmpty = true
    · have hcs' : cs = [] := by simpa using hcs
      subst hcs'
      simp only [capture, Option.some.injEq] at hv
      subst hv
      have := exec_purefunc pre post (base ++ env.map toV) frames (toSt σ) (bodyCode body) (if r then 1 else 0) 0 a
      refine ⟨_, ?_, Or.inl rfl⟩
      cases r <;> simpa [compile, clen, bodyCode, hbl, Nat.add_assoc, Nat.add_comm, Nat.add_left_comm] using this
    · have hcap := capture_map base env caps cs
      rw [hv] at hcap
      have := exec_newsclosure pre post (base ++ env.map toV) frames (toSt σ) (cs.map capInstr) (bodyCode body)
        (if r then 1 else 0) 0 a (cv.map toV) (by rw [hctx.hsp, hctx.hcaps]; simpa using hcap)
      refine ⟨_, ?_, Or.inl rfl⟩
      cases r <;> simpa [compile, clen, bodyCode, hcs, hbl, Nat.add_assoc, Nat.add_comm, Nat.add_left_comm] using this

/-! ## Control -/

theorem sim_seq (fuel : Nat) (ih : P1 fuel) (a b' : Core) : P1e (fuel + 1) (.seq a b') := by
  intro self tail env caps σ v env' σ' h fin b pre post base frames hb hctx ht
  subst hb
  simp only [evalC] at h
  cases ha : evalC fuel self false a env caps σ with
  | err e => simp [ha] at h
  | timeout => simp [ha] at h
  | ok ra =>
    obtain ⟨va, env1, σ1⟩ := ra
    simp only [ha] at h
    obtain ⟨c1, e1, p1⟩ := P1.sub ih ha pre _ post pre
      ([.POPSINGLE] ++ compile tail (pre.length + clen a + 1) fin b' ++ post) fin pre.length base frames
      (by simp [compile, List.append_assoc]) rfl hctx (by simp) 0 rfl
    rw [p1.exact] at e1
    refine exec_then e1 ?_
    have e2 := exec_popsingle pre (compile tail pre.length fin (.seq a b')) post (0 + clen a)
      (base ++ env1.map toV) frames (toSt σ1) (toV va)
      (by find_ins)
    refine exec_then e2 ?_
    obtain ⟨c3, e3, p3⟩ := P1.sub ih h pre (compile tail pre.length fin (.seq a b')) post
      (pre ++ compile false pre.length fin a ++ [.POPSINGLE]) post fin (pre.length + clen a + 1) base frames
      (by simp [compile, List.append_assoc]) (by simp <;> omega) hctx ht (0 + clen a + 1) (by simp <;> omega)
    refine ⟨c3, e3, ?_⟩
    have : 0 + clen a + 1 + clen b' = clen (.seq a b') := by simp [clen]
    rw [this] at p3
    exact p3

theorem sim_ite (fuel : Nat) (ih : P1 fuel) (c t e : Core) : P1e (fuel + 1) (.ite c t e) := by
  intro self tail env caps σ v env' σ' h fin b pre post base frames hb hctx ht
  subst hb
  simp only [evalC] at h
  cases hc : evalC fuel self false c env caps σ with
  | err e => simp [hc] at h
  | timeout => simp [hc] at h
  | ok rc =>
    obtain ⟨vc, env1, σ1⟩ := rc
    simp only [hc] at h
    obtain ⟨c1, e1, p1⟩ := P1.sub ih hc pre (compile tail pre.length fin (.ite c t e)) post pre
      ([.IF (pre.length + clen c + 1 + clen t + 1)] ++ compile tail (pre.length + clen c + 1) fin t ++
        [if tail && (pre.length + clen c + 1 + clen t + 1 + clen e == fin) then .POPJMP
          else .JMP (pre.length + clen c + 1 + clen t + 1 + clen e)] ++
        compile tail (pre.length + clen c + 1 + clen t + 1) fin e ++ post) fin pre.length base frames
      (by simp [compile, List.append_assoc]) rfl hctx (by simp) 0 rfl
    rw [p1.exact] at e1
    refine exec_then e1 ?_
    have hif : (compile tail pre.length fin (.ite c t e))[0 + clen c]? =
        some (.IF (pre.length + clen c + 1 + clen t + 1)) := by
      simp [compile, List.getElem?_append_right]
    by_cases htr : truthy vc = true
    · simp only [htr, if_true] at h
      have e2 := exec_if_true pre (compile tail pre.length fin (.ite c t e)) post (0 + clen c)
        (base ++ env1.map toV) frames (toSt σ1) _ (toV vc) hif (by simpa using htr)
      refine exec_then e2 ?_
      obtain ⟨c3, e3, p3⟩ := P1.sub ih h pre (compile tail pre.length fin (.ite c t e)) post
        (pre ++ compile false pre.length fin c ++ [.IF (pre.length + clen c + 1 + clen t + 1)])
        ([if tail && (pre.length + clen c + 1 + clen t + 1 + clen e == fin) then .POPJMP
          else .JMP (pre.length + clen c + 1 + clen t + 1 + clen e)] ++
          compile tail (pre.length + clen c + 1 + clen t + 1) fin e ++ post) fin (pre.length + clen c + 1) base frames
        (by simp [compile, List.append_assoc]) (by simp <;> omega) hctx ht (0 + clen c + 1) (by simp <;> omega)
      rcases p3 with p3 | p3
      · rw [p3] at e3
        refine exec_then e3 ?_
        by_cases hpj : (tail && (pre.length + clen c + 1 + clen t + 1 + clen e == fin)) = true
        · -- POPJMP: return
          have htail : tail = true := by
            cases tail <;> simp at hpj ⊢
          obtain ⟨f, rest, hfr⟩ : ∃ f rest, frames = f :: rest := by
            cases hf : frames with
            | nil => exact absurd hf (ht htail)
            | cons f rest => exact ⟨f, rest, rfl⟩
          subst hfr
          have e4 := exec_ret pre (compile tail pre.length fin (.ite c t e)) post (0 + clen c + 1 + clen t)
            (toSt σ') base (env'.map toV) (toV v) f rest .POPJMP
            (by simp only [compile, hpj, if_true]; exact gl (gh (by simp <;> omega))) (Or.inr rfl)
            (by have := hctx.hsp; simpa [spOf] using this)
          exact ⟨_, e4, Or.inr ⟨htail, f, rest, rfl, rfl⟩⟩
        · have e4 := exec_jmp pre (compile tail pre.length fin (.ite c t e)) post (0 + clen c + 1 + clen t)
            (base ++ env'.map toV ++ [toV v]) frames (toSt σ') (pre.length + clen c + 1 + clen t + 1 + clen e)
            (by simp only [compile, hpj]; exact gl (gh (by simp <;> omega)))
          refine ⟨_, e4, Or.inl ?_⟩
          simp [at_, clen]; omega
      · exact ⟨c3, e3, Or.inr p3⟩
    · have htr' : truthy vc = false := by simpa using htr
      simp only [htr', Bool.false_eq_true, if_false] at h
      have e2 := exec_if_false pre (compile tail pre.length fin (.ite c t e)) post (0 + clen c)
        (base ++ env1.map toV) frames (toSt σ1) _ (toV vc) hif (by simpa using htr')
      refine exec_then e2 ?_
      obtain ⟨c3, e3, p3⟩ := P1.sub ih h pre (compile tail pre.length fin (.ite c t e)) post
        (pre ++ compile false pre.length fin c ++ [.IF (pre.length + clen c + 1 + clen t + 1)] ++
          compile tail (pre.length + clen c + 1) fin t ++
          [if tail && (pre.length + clen c + 1 + clen t + 1 + clen e == fin) then .POPJMP
            else .JMP (pre.length + clen c + 1 + clen t + 1 + clen e)]) post fin
        (pre.length + clen c + 1 + clen t + 1) base frames
        (by simp [compile, List.append_assoc]) (by simp <;> omega) hctx ht (clen c + 1 + clen t + 1) (by simp <;> omega)
      have hst : ({ code := pre ++ compile tail pre.length fin (.ite c t e) ++ post,
                    ip := pre.length + clen c + 1 + clen t + 1, stack := base ++ env1.map toV,
                    frames := frames, st := toSt σ1 } : Cfg) =
          at_ pre (compile tail pre.length fin (.ite c t e)) post (clen c + 1 + clen t + 1)
            (base ++ env1.map toV) frames (toSt σ1) := by
        simp [at_]; omega
      rw [hst]
      refine ⟨c3, e3, ?_⟩
      have : clen c + 1 + clen t + 1 + clen e = clen (.ite c t e) := by simp [clen]
      rw [this] at p3
      exact p3

theorem sim_setLoc (fuel : Nat) (ih : P1 fuel) (i : Nat) (e : Core) : P1e (fuel + 1) (.setLoc i e) := by
  intro self tail env caps σ v env' σ' h fin b pre post base frames hb hctx ht
  subst hb
  simp only [evalC] at h
  cases he : evalC fuel self false e env caps σ with
  | err e => simp [he] at h
  | timeout => simp [he] at h
  | ok re =>
    obtain ⟨ve, env1, σ1⟩ := re
    simp only [he] at h
    cases ho : env1[i]? with
    | none => simp [ho] at h
    | some old =>
      simp only [ho, Res.ok.injEq, Prod.mk.injEq] at h
      obtain ⟨rfl, rfl, rfl⟩ := h
      obtain ⟨c1, e1, p1⟩ := P1.sub ih he pre (compile tail pre.length fin (.setLoc i e)) post pre
        ([.SETLOCAL i] ++ post) fin pre.length base frames
        (by simp [compile, List.append_assoc]) rfl hctx (by simp) 0 rfl
      rw [p1.exact] at e1
      refine exec_then e1 ?_
      have e2 := exec_setlocal pre (compile tail pre.length fin (.setLoc i e)) post (0 + clen e)
        (base ++ env1.map toV) frames (toSt σ1) i (toV ve) (toV old)
        (by find_ins)
        (by rw [hctx.hsp, getElem?_base]; simp [ho])
      refine ⟨_, e2, Or.inl ?_⟩
      rw [hctx.hsp, set_base]
      simp [clen, List.map_set]

theorem sim_define (fuel : Nat) (ih : P1 fuel) (g : Nat) (e : Core) : P1e (fuel + 1) (.define g e) := by
  intro self tail env caps σ v env' σ' h fin b pre post base frames hb hctx ht
  subst hb
  simp only [evalC] at h
  cases he : evalC fuel self false e env caps σ with
  | err e => simp [he] at h
  | timeout => simp [he] at h
  | ok re =>
    obtain ⟨ve, env1, σ1⟩ := re
    simp only [he, Res.ok.injEq, Prod.mk.injEq] at h
    obtain ⟨rfl, rfl, rfl⟩ := h
    have e0 := exec_nop pre (compile tail pre.length fin (.define g e)) post 0
      (base ++ env.map toV) frames (toSt σ) .SDEF (by simp [compile]) (by simp)
    refine exec_then e0 ?_
    obtain ⟨c1, e1, p1⟩ := P1.sub ih he pre (compile tail pre.length fin (.define g e)) post (pre ++ [.SDEF])
      ([.EDEF] ++ [.BIND g] ++ [.VOID] ++ post) fin (pre.length + 1) base frames
      (by simp [compile, List.append_assoc]) (by simp) hctx (by simp) (0 + 1) (by simp)
    rw [p1.exact] at e1
    refine exec_then e1 ?_
    have e2 := exec_nop pre (compile tail pre.length fin (.define g e)) post (0 + 1 + clen e)
      (base ++ env1.map toV ++ [toV ve]) frames (toSt σ1) .EDEF
      (by find_ins) (by simp)
    refine exec_then e2 ?_
    have e3 := exec_bind pre (compile tail pre.length fin (.define g e)) post (0 + 1 + clen e + 1)
      (base ++ env1.map toV) frames (toSt σ1) g (toV ve)
      (by find_ins)
    refine exec_then e3 ?_
    have e4 := exec_const pre (compile tail pre.length fin (.define g e)) post (0 + 1 + clen e + 1 + 1)
      (base ++ env1.map toV) frames { toSt σ1 with globals := (g, toV ve) :: (toSt σ1).globals } .void
      (by find_ins)
    refine ⟨_, e4, Or.inl ?_⟩
    simp [at_, clen, toSt, Const.toV] <;> omega

theorem sim_setGlob (fuel : Nat) (ih : P1 fuel) (g : Nat) (e : Core) : P1e (fuel + 1) (.setGlob g e) := by
  intro self tail env caps σ v env' σ' h fin b pre post base frames hb hctx ht
  subst hb
  simp only [evalC] at h
  cases he : evalC fuel self false e env caps σ with
  | err e => simp [he] at h
  | timeout => simp [he] at h
  | ok re =>
    obtain ⟨ve, env1, σ1⟩ := re
    simp only [he] at h
    cases ho : lookupG g σ1.globals with
    | none => simp [ho] at h
    | some old =>
      simp only [ho, Res.ok.injEq, Prod.mk.injEq] at h
      obtain ⟨rfl, rfl, rfl⟩ := h
      obtain ⟨c1, e1, p1⟩ := P1.sub ih he pre (compile tail pre.length fin (.setGlob g e)) post pre
        ([.SET g] ++ post) fin pre.length base frames
        (by simp [compile, List.append_assoc]) rfl hctx (by simp) 0 rfl
      rw [p1.exact] at e1
      refine exec_then e1 ?_
      have e2 := exec_set pre (compile tail pre.length fin (.setGlob g e)) post (0 + clen e)
        (base ++ env1.map toV) frames (toSt σ1) g (toV ve) (toV old)
        (by find_ins) (lookupG_toSt g σ1 old ho)
      refine ⟨_, e2, Or.inl ?_⟩
      simp [at_, clen, toSt]

theorem sim_let (fuel : Nat) (ih : P1 fuel) (ih2 : P2 fuel) (off : Nat) (inits : List Core) (body : Core) :
    P1e (fuel + 1) (.let_ off inits body) := by
  intro self tail env caps σ v env' σ' h fin b pre post base frames hb hctx ht
  subst hb
  simp only [evalC] at h
  cases hi : evalArgs fuel self inits env caps σ with
  | err e => simp [hi] at h
  | timeout => simp [hi] at h
  | ok ri =>
    obtain ⟨env1, σ1⟩ := ri
    simp only [hi] at h
    cases hbd : evalC fuel self tail body env1 caps σ1 with
    | err e => simp [hbd] at h
    | timeout => simp [hbd] at h
    | ok rb =>
      obtain ⟨vb, env2, σ2⟩ := rb
      simp only [hbd] at h
      by_cases hlen : env2.length < off
      · simp [hlen] at h
      · simp only [hlen, if_false, Res.ok.injEq, Prod.mk.injEq] at h
        obtain ⟨rfl, rfl, rfl⟩ := h
        have e0 := exec_nop pre (compile tail pre.length fin (.let_ off inits body)) post 0
          (base ++ env.map toV) frames (toSt σ) .BEGINSCOPE (by simp [compile]) (by simp)
        refine exec_then e0 ?_
        have e1 := P2.sub ih2 hi true pre (compile tail pre.length fin (.let_ off inits body)) post
          (pre ++ [.BEGINSCOPE])
          (compile tail (pre.length + 1 + clenL true inits) fin body ++ [.LETENDSCOPE off] ++ post) fin
          (pre.length + 1) base frames (by simp [compile, List.append_assoc]) (by simp) hctx (0 + 1) (by simp)
        refine exec_then e1 ?_
        obtain ⟨c2, e2, p2⟩ := P1.sub ih hbd pre (compile tail pre.length fin (.let_ off inits body)) post
          (pre ++ [.BEGINSCOPE] ++ compileArgs true (pre.length + 1) fin inits) ([.LETENDSCOPE off] ++ post) fin
          (pre.length + 1 + clenL true inits) base frames
          (by simp [compile, List.append_assoc]) (by simp <;> omega) hctx ht (0 + 1 + clenL true inits) (by simp <;> omega)
        rcases p2 with p2 | p2
        · rw [p2] at e2
          refine exec_then e2 ?_
          have e3 := exec_letend pre (compile tail pre.length fin (.let_ off inits body)) post
            (0 + 1 + clenL true inits + clen body) frames (toSt σ2) base (env2.map toV) (toV vb) off
            (by find_ins) hctx.hsp (by simp <;> omega)
          refine ⟨_, e3, Or.inl ?_⟩
          simp [at_, clen, List.map_take] <;> omega
        · exact ⟨c2, e2, Or.inr p2⟩

end SteelVerif.C01C
