/-
C01 stage 2 — the simulation for calls (computed callee, global callee, self tail call), the box primitives and
operand lists; and the induction on the fuel that ties all cases together.
-/
import SteelVerif.C01.CoreSim
namespace SteelVerif.C01C

theorem applyWith_ok {ev : Self → Core → List Val → List Val → St Core → Res (Val × List Val × St Core)}
    {fv : Val} {argv : List Val} {σ : St Core} {v : Val} {σ' : St Core}
    (h : applyWith ev fv argv σ = .ok (v, σ')) :
    (∃ p, fv = .prim p ∧ p.apply argv = .ok v ∧ σ' = σ) ∨
    (∃ a r body cc locals envb, fv = .clo a r body cc ∧ bindArgs a r argv = .ok locals ∧
      ev (some (a, r, body)) body locals cc σ = .ok (v, envb, σ')) := by
  cases fv with
  | prim p =>
    left
    simp only [applyWith] at h
    cases hp : p.apply argv with
    | ok x => simp [hp, Res.map] at h; exact ⟨p, rfl, by rw [hp, h.1], h.2.symm⟩
    | err e => simp [hp, Res.map] at h
    | timeout => simp [hp, Res.map] at h
  | clo a r body cc =>
    right
    simp only [applyWith] at h
    cases hb : bindArgs a r argv with
    | ok locals =>
      simp only [hb] at h
      cases he : ev (some (a, r, body)) body locals cc σ with
      | ok x =>
        obtain ⟨v', envb, σ''⟩ := x
        simp only [he, Res.ok.injEq, Prod.mk.injEq] at h
        obtain ⟨rfl, rfl⟩ := h
        exact ⟨a, r, body, cc, locals, envb, rfl, hb, he⟩
      | err e => simp [he] at h
      | timeout => simp [he] at h
    | err e => simp [hb] at h
    | timeout => simp [hb] at h
  | int n => simp [applyWith] at h
  | bool b => simp [applyWith] at h
  | void => simp [applyWith] at h
  | box a => simp [applyWith] at h
  | list xs => simp [applyWith] at h

/-- Running a closure body in its frame returns the value to the caller of the frame. -/
theorem run_body {fuel : Nat} (ih : P1 fuel) (a : Nat) (r : Bool) (body : Core) (locals cc : List Val) (σ : St Core)
    (v : Val) (envb : List Val) (σ' : St Core)
    (h : evalC fuel (some (a, r, body)) true body locals cc σ = .ok (v, envb, σ'))
    (base : List VVal) (f : Frame) (rest : List Frame) (hsp : f.sp = base.length) (hc : f.caps = cc.map toV)
    (ha : f.arity = a) (hr : f.rest = r) :
    Exec { code := bodyCode body, ip := 0, stack := base ++ locals.map toV, frames := f :: rest, st := toSt σ }
      { code := f.retCode, ip := f.retIp, stack := base ++ [toV v], frames := rest, st := toSt σ' } := by
  obtain ⟨c, hex, hp⟩ := ih body (some (a, r, body)) true locals cc σ v envb σ' h (clen body) 0 [] [.POPPURE] base
    (f :: rest) rfl
    ⟨by simpa [spOf] using hsp, by simpa [capsOf] using hc, by
      intro a' r' b' heq
      simp only [Option.some.injEq, Prod.mk.injEq] at heq
      obtain ⟨rfl, rfl, rfl⟩ := heq
      exact ⟨f, rest, rfl, ha, hr, by simp [bodyCode]⟩⟩
    (by simp)
  have hstart : at_ [] (compile true 0 (clen body) body) [.POPPURE] 0 (base ++ locals.map toV) (f :: rest) (toSt σ) =
      { code := bodyCode body, ip := 0, stack := base ++ locals.map toV, frames := f :: rest, st := toSt σ } := by
    simp [at_, bodyCode]
  rw [hstart] at hex
  rcases hp with hp | ⟨_, f', rest', hfr, hp⟩
  · rw [hp] at hex
    refine hex.trans ?_
    rw [at_eq (pre' := compile true 0 (clen body) body) (mid' := [.POPPURE]) (post' := []) (k' := 0) _ _ _
      (by simp) (by simp)]
    exact exec_ret (compile true 0 (clen body) body) [.POPPURE] [] 0 (toSt σ') base (envb.map toV) (toV v) f rest
      .POPPURE (by simp) (Or.inl rfl) hsp
  · simp only [List.cons.injEq] at hfr
    obtain ⟨rfl, rfl⟩ := hfr
    rw [hp] at hex
    exact hex

/-- A non-tail call: however the VM got the callee and the operands, if a primitive's result is pushed at `retK`
and a closure is entered with a frame returning to `retK`, the call ends at `retK` with the value of the
application on top of what was below the operands. -/
theorem call_nontail {fuel : Nat} (ih : P1 fuel) (fv : Val) (argv : List Val) (σ2 : St Core) (v : Val) (σ3 : St Core)
    (happ : applyWith (fun s => evalC fuel s true) fv argv σ2 = .ok (v, σ3))
    (pre mid post : List Instr) (retK : Nat) (below : List VVal) (frames : List Frame) (start : Cfg)
    (hprim : ∀ p r, fv = .prim p → p.apply (argv.map toV) = .ok r →
      Exec start (at_ pre mid post retK (below ++ [r]) frames (toSt σ2)))
    (hclo : ∀ a r body cc locals, fv = .clo a r body cc → bindArgs a r (argv.map toV) = .ok locals →
      Exec start { code := bodyCode body, ip := 0, stack := below ++ locals,
                   frames := { sp := below.length, retIp := pre.length + retK, retCode := pre ++ mid ++ post,
                               arity := a, rest := r, caps := cc.map toV } :: frames, st := toSt σ2 }) :
    Exec start (at_ pre mid post retK (below ++ [toV v]) frames (toSt σ3)) := by
  rcases applyWith_ok happ with ⟨p, rfl, hp, rfl⟩ | ⟨a, r, body, cc, locals, envb, rfl, hb, hev⟩
  · exact hprim p (toV v) rfl (by rw [Prim.apply_map, hp]; rfl)
  · have h1 := hclo a r body cc (locals.map toV) rfl (by rw [bindArgs_map, hb]; rfl)
    refine h1.trans ?_
    exact run_body ih a r body locals cc σ2 v envb σ3 hev below _ frames rfl rfl rfl rfl

/-- A call in tail position. -/
theorem call_tail {fuel : Nat} (ih : P1 fuel) (fv : Val) (argv : List Val) (σ2 : St Core) (v : Val) (σ3 : St Core)
    (happ : applyWith (fun s => evalC fuel s true) fv argv σ2 = .ok (v, σ3))
    (pre mid post : List Instr) (retK : Nat) (base junk : List VVal) (f : Frame) (rest : List Frame) (start : Cfg)
    (hsp : f.sp = base.length)
    (hprim : ∀ p r, fv = .prim p → p.apply (argv.map toV) = .ok r →
      Exec start (at_ pre mid post retK (base ++ junk ++ [r]) (f :: rest) (toSt σ2)) ∨
      Exec start { code := f.retCode, ip := f.retIp, stack := base ++ [r], frames := rest, st := toSt σ2 })
    (hclo : ∀ a r body cc locals, fv = .clo a r body cc → bindArgs a r (argv.map toV) = .ok locals →
      Exec start { code := bodyCode body, ip := 0, stack := base ++ locals,
                   frames := { f with arity := a, rest := r, caps := cc.map toV } :: rest, st := toSt σ2 }) :
    ∃ c, Exec start c ∧
      (c = at_ pre mid post retK (base ++ junk ++ [toV v]) (f :: rest) (toSt σ3) ∨ Ret base (f :: rest) v σ3 c) := by
  rcases applyWith_ok happ with ⟨p, rfl, hp, rfl⟩ | ⟨a, r, body, cc, locals, envb, rfl, hb, hev⟩
  · rcases hprim p (toV v) rfl (by rw [Prim.apply_map, hp]; rfl) with h | h
    · exact ⟨_, h, Or.inl rfl⟩
    · exact ⟨_, h, Or.inr ⟨f, rest, rfl, rfl⟩⟩
  · have h1 := hclo a r body cc (locals.map toV) rfl (by rw [bindArgs_map, hb]; rfl)
    have h2 := run_body ih a r body locals cc σ2 v envb σ3 hev base
      { f with arity := a, rest := r, caps := cc.map toV } rest hsp rfl rfl rfl
    exact ⟨_, h1.trans h2, Or.inr ⟨f, rest, rfl, rfl⟩⟩

theorem frames_cons {frames : List Frame} (h : frames ≠ []) : ∃ f rest, frames = f :: rest := by
  cases frames with
  | nil => exact absurd rfl h
  | cons f rest => exact ⟨f, rest, rfl⟩

/-! ## Operand lists -/

theorem sim_args (fuel : Nat) (ih : P1 fuel) (ih2 : P2 fuel) : P2 (fuel + 1) := by
  intro self args env caps σ env1 σ1 h lv fin b pre post base frames hb hctx
  subst hb
  cases args with
  | nil =>
    simp only [evalArgs, Res.ok.injEq, Prod.mk.injEq] at h
    obtain ⟨rfl, rfl⟩ := h
    simp only [clenL]
    exact Exec.refl _
  | cons a rest =>
    simp only [evalArgs] at h
    cases ha : evalC fuel self false a env caps σ with
    | err e => simp [ha] at h
    | timeout => simp [ha] at h
    | ok ra =>
      obtain ⟨va, env2, σ2⟩ := ra
      simp only [ha] at h
      cases lv
      · obtain ⟨c1, e1, p1⟩ := P1.sub ih ha pre (compileArgs false pre.length fin (a :: rest)) post pre
          (compileArgs false (pre.length + clen a + 0) fin rest ++ post) fin pre.length base frames
          (by simp [compileArgs, List.append_assoc]) rfl hctx (by simp) 0 rfl
        rw [p1.exact] at e1
        refine e1.trans ?_
        have e2 := P2.sub ih2 h false pre (compileArgs false pre.length fin (a :: rest)) post
          (pre ++ compile false pre.length fin a) post fin (pre.length + clen a + 0) base frames
          (by simp [compileArgs, List.append_assoc]) (by simp) hctx (0 + clen a) (by simp)
        have hk : 0 + clen a + clenL false rest = clenL false (a :: rest) := by simp [clenL]
        rw [hk] at e2
        simpa using e2
      · obtain ⟨c1, e1, p1⟩ := P1.sub ih ha pre (compileArgs true pre.length fin (a :: rest)) post pre
          ([.LETVAR] ++ compileArgs true (pre.length + clen a + 1) fin rest ++ post) fin pre.length base frames
          (by simp [compileArgs, List.append_assoc]) rfl hctx (by simp) 0 rfl
        rw [p1.exact] at e1
        refine e1.trans ?_
        have e15 := exec_nop pre (compileArgs true pre.length fin (a :: rest)) post (0 + clen a)
          (base ++ env2.map toV ++ [toV va]) frames (toSt σ2) .LETVAR
          (by simp only [compileArgs, if_true]; exact gl (gh (by simp))) (by simp)
        refine e15.trans ?_
        have e2 := P2.sub ih2 h true pre (compileArgs true pre.length fin (a :: rest)) post
          (pre ++ compile false pre.length fin a ++ [.LETVAR]) post fin (pre.length + clen a + 1) base frames
          (by simp [compileArgs, List.append_assoc]) (by simp <;> omega) hctx (0 + clen a + 1) (by simp <;> omega)
        have hk : 0 + clen a + 1 + clenL true rest = clenL true (a :: rest) := by simp [clenL]
        rw [hk] at e2
        simpa using e2

/-! ## Box primitives -/

theorem sim_boxop (fuel : Nat) (ih2 : P2 fuel) (op : BoxOp) (args : List Core) : P1e (fuel + 1) (.boxop op args) := by
  intro self tail env caps σ v env' σ' h fin b pre post base frames hb hctx ht
  subst hb
  simp only [evalC] at h
  cases hi : evalArgs fuel self args env caps σ with
  | err e => simp [hi] at h
  | timeout => simp [hi] at h
  | ok ri =>
    obtain ⟨env1, σ1⟩ := ri
    simp only [hi] at h
    cases hs : splitLast op.arity env1 with
    | none => simp [hs] at h
    | some sp =>
      obtain ⟨envr, argv⟩ := sp
      simp only [hs] at h
      cases ha : op.apply argv σ1 with
      | err e => simp [ha] at h
      | timeout => simp [ha] at h
      | ok ro =>
        obtain ⟨vo, σ2⟩ := ro
        simp only [ha, Res.ok.injEq, Prod.mk.injEq] at h
        obtain ⟨rfl, rfl, rfl⟩ := h
        have e1 := P2.sub ih2 hi false pre (compile tail pre.length fin (.boxop op args)) post pre
          ([boxInstr op] ++ [if tail then .TAILCALL args.length else .FUNC args.length] ++ post) fin pre.length
          base frames (by simp [compile, List.append_assoc]) rfl hctx 0 rfl
        refine exec_then e1 ?_
        have e2 := exec_boxop pre (compile tail pre.length fin (.boxop op args)) post (0 + clenL false args)
          (base ++ env1.map toV) frames (toSt σ1) op (base ++ envr.map toV) (argv.map toV) (toV vo) (toSt σ2)
          (by find_ins) (splitLast_base base hs) (by rw [BoxOp.apply_map, ha]; rfl)
        refine ⟨_, e2, Or.inl ?_⟩
        simp [clen]

/-! ## Calls -/

theorem sim_app (fuel : Nat) (ih : P1 fuel) (ih2 : P2 fuel) (f : Core) (args : List Core) :
    P1e (fuel + 1) (.app f args) := by
  intro self tail env caps σ v env' σ' h fin b pre post base frames hb hctx ht
  subst hb
  simp only [evalC] at h
  cases hi : evalArgs fuel self args env caps σ with
  | err e => simp [hi] at h
  | timeout => simp [hi] at h
  | ok ri =>
    obtain ⟨env1, σ1⟩ := ri
    simp only [hi] at h
    cases hf : evalC fuel self false f env1 caps σ1 with
    | err e => simp [hf] at h
    | timeout => simp [hf] at h
    | ok rf =>
      obtain ⟨fv, env2, σ2⟩ := rf
      simp only [hf] at h
      cases hs : splitLast args.length env2 with
      | none => simp [hs] at h
      | some sp =>
        obtain ⟨envr, argv⟩ := sp
        simp only [hs] at h
        cases happ : applyWith (fun s => evalC fuel s true) fv argv σ2 with
        | err e => simp [happ] at h
        | timeout => simp [happ] at h
        | ok ro =>
          obtain ⟨vo, σ3⟩ := ro
          simp only [happ, Res.ok.injEq, Prod.mk.injEq] at h
          obtain ⟨rfl, rfl, rfl⟩ := h
          obtain ⟨henv2, hlen, _⟩ := splitLast_some hs
          have e1 := P2.sub ih2 hi false pre (compile tail pre.length fin (.app f args)) post pre
            (compile false (pre.length + clenL false args) fin f ++
              [if tail then .TAILCALL args.length else .FUNC args.length] ++ post) fin pre.length
            base frames (by simp [compile, List.append_assoc]) rfl hctx 0 rfl
          refine exec_then e1 ?_
          obtain ⟨c2, e2, p2⟩ := P1.sub ih hf pre (compile tail pre.length fin (.app f args)) post
            (pre ++ compileArgs false pre.length fin args)
            ([if tail then .TAILCALL args.length else .FUNC args.length] ++ post) fin
            (pre.length + clenL false args) base frames
            (by simp [compile, List.append_assoc]) (by simp) hctx (by simp) (0 + clenL false args) (by simp)
          rw [p2.exact] at e2
          refine exec_then e2 ?_
          have hstk : base ++ env2.map toV ++ [toV fv] = (base ++ envr.map toV) ++ argv.map toV ++ [toV fv] := by
            rw [henv2]; simp [List.append_assoc]
          rw [hstk]
          cases tail
          · have hins : (compile false pre.length fin (.app f args))[0 + clenL false args + clen f]? =
                some (.FUNC args.length) := by find_ins
            have := call_nontail ih fv argv σ2 vo σ3 happ pre (compile false pre.length fin (.app f args)) post
              (0 + clenL false args + clen f + 1) (base ++ envr.map toV) frames
              (at_ pre (compile false pre.length fin (.app f args)) post (0 + clenL false args + clen f)
                (base ++ envr.map toV ++ argv.map toV ++ [toV fv]) frames (toSt σ2))
              (by
                intro p r hfv hp
                subst hfv
                simpa using exec_func_prim pre _ post _ frames (toSt σ2) args.length (base ++ envr.map toV)
                  (argv.map toV) p r hins (by simpa using hlen) hp)
              (by
                intro a r body cc locals hfv hb
                subst hfv
                have := exec_func_clo pre _ post _ frames (toSt σ2) args.length (base ++ envr.map toV) (argv.map toV)
                  locals a r (bodyCode body) (cc.map toV) hins (by simpa using hlen) hb
                simpa [Nat.add_assoc] using this)
            refine ⟨_, this, Or.inl ?_⟩
            simp [clen]
          · obtain ⟨fr, rest, rfl⟩ := frames_cons (ht rfl)
            have hsp : fr.sp = base.length := by simpa [spOf] using hctx.hsp
            have hins : (compile true pre.length fin (.app f args))[0 + clenL false args + clen f]? =
                some (.TAILCALL args.length) := by find_ins
            obtain ⟨c, hc, hpost⟩ := call_tail ih fv argv σ2 vo σ3 happ pre (compile true pre.length fin (.app f args))
              post (0 + clenL false args + clen f + 1) base (envr.map toV) fr rest
              (at_ pre (compile true pre.length fin (.app f args)) post (0 + clenL false args + clen f)
                (base ++ envr.map toV ++ argv.map toV ++ [toV fv]) (fr :: rest) (toSt σ2)) hsp
              (by
                intro p r hfv hp
                subst hfv
                left
                simpa using exec_tail_prim pre _ post _ (fr :: rest) (toSt σ2) args.length (base ++ envr.map toV)
                  (argv.map toV) p r hins (by simpa using hlen) hp)
              (by
                intro a r body cc locals hfv hb
                subst hfv
                simpa using exec_tail_clo pre _ post _ (toSt σ2) args.length base (envr.map toV) (argv.map toV)
                  locals a r (bodyCode body) (cc.map toV) fr rest hins (by simpa using hlen) hsp hb)
            refine ⟨c, hc, ?_⟩
            rcases hpost with hpost | hpost
            · left; rw [hpost]; simp [clen]
            · right; exact ⟨rfl, hpost⟩

theorem sim_callG (fuel : Nat) (ih : P1 fuel) (ih2 : P2 fuel) (g : Nat) (args : List Core) :
    P1e (fuel + 1) (.callG g args) := by
  intro self tail env caps σ v env' σ' h fin b pre post base frames hb hctx ht
  subst hb
  simp only [evalC] at h
  cases hi : evalArgs fuel self args env caps σ with
  | err e => simp [hi] at h
  | timeout => simp [hi] at h
  | ok ri =>
    obtain ⟨env1, σ1⟩ := ri
    simp only [hi] at h
    cases hg : lookupG g σ1.globals with
    | none => simp [hg] at h
    | some fv =>
      simp only [hg] at h
      cases hs : splitLast args.length env1 with
      | none => simp [hs] at h
      | some sp =>
        obtain ⟨envr, argv⟩ := sp
        simp only [hs] at h
        cases happ : applyWith (fun s => evalC fuel s true) fv argv σ1 with
        | err e => simp [happ] at h
        | timeout => simp [happ] at h
        | ok ro =>
          obtain ⟨vo, σ3⟩ := ro
          simp only [happ, Res.ok.injEq, Prod.mk.injEq] at h
          obtain ⟨rfl, rfl, rfl⟩ := h
          obtain ⟨henv1, hlen, _⟩ := splitLast_some hs
          have hgv := lookupG_toSt g σ1 fv hg
          have e1 := P2.sub ih2 hi false pre (compile tail pre.length fin (.callG g args)) post pre
            ([if tail then .CALLGLOBALTAIL g else .CALLGLOBAL g] ++
              [if tail then .TAILCALL args.length else .FUNC args.length] ++ post) fin pre.length
            base frames (by simp [compile, List.append_assoc]) rfl hctx 0 rfl
          refine exec_then e1 ?_
          have hstk : base ++ env1.map toV = (base ++ envr.map toV) ++ argv.map toV := by
            rw [henv1]; simp [List.append_assoc]
          rw [hstk]
          cases tail
          · have hins : (compile false pre.length fin (.callG g args))[0 + clenL false args]? =
                some (.CALLGLOBAL g) := by find_ins
            have hins2 : (compile false pre.length fin (.callG g args))[0 + clenL false args + 1]? =
                some (.FUNC args.length) := by find_ins
            have := call_nontail ih fv argv σ1 vo σ3 happ pre (compile false pre.length fin (.callG g args)) post
              (0 + clenL false args + 2) (base ++ envr.map toV) frames
              (at_ pre (compile false pre.length fin (.callG g args)) post (0 + clenL false args)
                (base ++ envr.map toV ++ argv.map toV) frames (toSt σ1))
              (by
                intro p r hfv hp
                subst hfv
                exact exec_callg_prim pre _ post _ frames (toSt σ1) g args.length (base ++ envr.map toV) (argv.map toV)
                  p r hins hins2 (hgv.trans (by simp)) (by simpa using hlen) hp)
              (by
                intro a r body cc locals hfv hb
                subst hfv
                have := exec_callg_clo pre _ post _ frames (toSt σ1) g args.length (base ++ envr.map toV)
                  (argv.map toV) locals a r (bodyCode body) (cc.map toV) hins hins2 (hgv.trans (by simp))
                  (by simpa using hlen) hb
                simpa [Nat.add_assoc] using this)
            refine ⟨_, this, Or.inl ?_⟩
            simp [clen]
          · obtain ⟨fr, rest, rfl⟩ := frames_cons (ht rfl)
            have hsp : fr.sp = base.length := by simpa [spOf] using hctx.hsp
            have hins : (compile true pre.length fin (.callG g args))[0 + clenL false args]? =
                some (.CALLGLOBALTAIL g) := by find_ins
            have hins2 : (compile true pre.length fin (.callG g args))[0 + clenL false args + 1]? =
                some (.TAILCALL args.length) := by find_ins
            obtain ⟨c, hc, hpost⟩ := call_tail ih fv argv σ1 vo σ3 happ pre (compile true pre.length fin (.callG g args))
              post (0 + clenL false args + 2) base (envr.map toV) fr rest
              (at_ pre (compile true pre.length fin (.callG g args)) post (0 + clenL false args)
                (base ++ envr.map toV ++ argv.map toV) (fr :: rest) (toSt σ1)) hsp
              (by
                intro p r hfv hp
                subst hfv
                right
                exact exec_callgtail_prim pre _ post _ (toSt σ1) g args.length base (envr.map toV)
                  (argv.map toV) p r fr rest hins hins2 (hgv.trans (by simp)) (by simpa using hlen) hp hsp)
              (by
                intro a r body cc locals hfv hb
                subst hfv
                exact exec_callgtail_clo pre _ post _ (toSt σ1) g args.length base (envr.map toV) (argv.map toV)
                  locals a r (bodyCode body) (cc.map toV) fr rest hins hins2 (hgv.trans (by simp))
                  (by simpa using hlen) hsp hb)
            refine ⟨c, hc, ?_⟩
            rcases hpost with hpost | hpost
            · left; rw [hpost]; simp [clen]
            · right; exact ⟨rfl, hpost⟩

theorem sim_selfTail (fuel : Nat) (ih : P1 fuel) (ih2 : P2 fuel) (args : List Core) :
    P1e (fuel + 1) (.selfTail args) := by
  intro self tail env caps σ v env' σ' h fin b pre post base frames hb hctx ht
  subst hb
  simp only [evalC] at h
  cases tail
  · simp at h
  · simp only [if_true] at h
    cases hi : evalArgs fuel self args env caps σ with
    | err e => simp [hi] at h
    | timeout => simp [hi] at h
    | ok ri =>
      obtain ⟨env1, σ1⟩ := ri
      simp only [hi] at h
      cases self with
      | none => simp at h
      | some sf =>
        obtain ⟨a, r, body⟩ := sf
        simp only at h
        cases hs : splitLast args.length env1 with
        | none => simp [hs] at h
        | some sp =>
          obtain ⟨envr, argv⟩ := sp
          simp only [hs] at h
          cases happ : applyWith (fun s => evalC fuel s true) (.clo a r body caps) argv σ1 with
          | err e => simp [happ] at h
          | timeout => simp [happ] at h
          | ok ro =>
            obtain ⟨vo, σ3⟩ := ro
            simp only [happ, Res.ok.injEq, Prod.mk.injEq] at h
            obtain ⟨rfl, rfl, rfl⟩ := h
            obtain ⟨henv1, hlen, _⟩ := splitLast_some hs
            obtain ⟨fr, rest, rfl, har, hrr, hcode⟩ := hctx.hself a r body rfl
            have hsp : fr.sp = base.length := by simpa [spOf] using hctx.hsp
            have hcaps : fr.caps = caps.map toV := by simpa [capsOf] using hctx.hcaps
            have e1 := P2.sub ih2 hi false pre (compile true pre.length fin (.selfTail args)) post pre
              ([.TCOJMP args.length] ++ [.PASS 0] ++ post) fin pre.length
              base (fr :: rest) (by simp [compile, List.append_assoc]) rfl hctx 0 rfl
            refine exec_then e1 ?_
            have hstk : base ++ env1.map toV = base ++ envr.map toV ++ argv.map toV := by
              rw [henv1]; simp [List.append_assoc]
            rw [hstk]
            rcases applyWith_ok happ with ⟨p, hfv, _, _⟩ | ⟨a', r', body', cc, locals, envb, hfv, hb, hev⟩
            · cases hfv
            · simp only [V.clo.injEq] at hfv
              obtain ⟨rfl, rfl, rfl, rfl⟩ := hfv
              have e2 := exec_tcojmp pre (compile true pre.length fin (.selfTail args)) post (0 + clenL false args)
                (toSt σ1) args.length base (envr.map toV) (argv.map toV) (locals.map toV) fr rest (by find_ins)
                (by simpa using hlen) hsp (by rw [har, hrr, bindArgs_map, hb]; rfl)
              rw [hcode] at e2
              have e3 := run_body ih a r body locals caps σ1 vo envb σ3 hev base fr rest hsp hcaps har hrr
              exact ⟨_, e2.trans e3, Or.inr ⟨rfl, fr, rest, rfl, rfl⟩⟩

/-! ## All cases together -/

theorem sim_all : ∀ fuel, P1 fuel ∧ P2 fuel := by
  intro fuel
  induction fuel with
  | zero =>
    constructor
    · intro e self tail env caps σ v env' σ' h
      simp [evalC] at h
    · intro self args env caps σ env1 σ1 h
      simp [evalArgs] at h
  | succ fuel ihf =>
    obtain ⟨ih, ih2⟩ := ihf
    refine ⟨?_, sim_args fuel ih ih2⟩
    intro e
    cases e with
    | const c => exact sim_const fuel c
    | loc i mv => exact sim_loc fuel i mv
    | cap i => exact sim_cap fuel i
    | glob g => exact sim_glob fuel g
    | lam a r cs body => exact sim_lam fuel a r cs body
    | app f args => exact sim_app fuel ih ih2 f args
    | callG g args => exact sim_callG fuel ih ih2 g args
    | selfTail args => exact sim_selfTail fuel ih ih2 args
    | ite c t e => exact sim_ite fuel ih c t e
    | let_ off inits body => exact sim_let fuel ih ih2 off inits body
    | seq a b => exact sim_seq fuel ih a b
    | setLoc i e => exact sim_setLoc fuel ih i e
    | boxop op args => exact sim_boxop fuel ih2 op args
    | define g e => exact sim_define fuel ih g e
    | setGlob g e => exact sim_setGlob fuel ih g e

end SteelVerif.C01C
