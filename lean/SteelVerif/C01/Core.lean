/-
C01 — stage 2 model: the lowered core WITH FIRST-CLASS CLOSURES, its reference semantics, the code
generator and the stack VM with the real op codes.   (Stage 1 is `Frag.lean`; nothing there is changed.)

Everything here is executable core Lean (no Mathlib) and total.

## What is modelled

* `Core`     the lowered core the real pipeline hands to `compiler/code_gen.rs`: locals by stack offset
             (offsets count the temporaries of pending calls, as `analysis.rs` computes them), captured
             variables by index, globals by slot, `lambda` with a capture list (each entry: copy from the
             enclosing frame's stack / from the enclosing closure's captures), calls of computed callees,
             calls of globals, self tail calls, `if`, `let`, `begin`, `set!` of locals and globals, `define`,
             and the box primitives `#%box` / `#%unbox` / `#%set-box!` into which the real compiler lowers
             captured + assigned variables.
* `evalC`    big-step reference semantics of `Core` (fuel = structural recursion; every recursive call
             decrements), with closure VALUES `V.clo arity rest body captures`, an environment per frame
             (`env`, the frame's slots), the captures of the running closure, a store for boxes and a global
             table.  Outcomes: `ok`, `err arity | type | notproc | free | bad`, `timeout`.  `bad` = the program
             is ill-formed (an offset out of range, `selfTail` outside tail position, …): the real VM would
             panic / index out of bounds there.
* `Instr`    the REAL op codes (see the table below).
* `step`/`run` the VM: ONE operand stack shared by all frames, a frame stack of
             `{sp, return ip, return code, function (arity, rest flag, captures)}`; locals are addressed
             relative to `sp` of the innermost frame (`0` at top level).  The real VM caches `sp` in a register
             (`self.sp = get_last_stack_frame_sp()`); here it is always read from the frame list (`spOf`).
* `compile`  the code generator, emitting the shapes `code_gen.rs` emits (tail aware).

## How a real listing (`vh disasm`, i.e. `debug_build_strings`) maps to `Instr`

  listing line `OPCODE : payload  text`            `Instr`
  -------------------------------------------------------------------------------------------------
  PUSHCONST p  text            → `.PUSHCONST c`    c = the constant shown in the text column (the payload is the
                                                   index into the constant pool)
  LOADINT0/1/2, TRUE, FALSE, VOID → the constructor of the same name (payload ignored)
  PUSH g                       → `.PUSH g`         g = global slot
  READLOCAL i, READLOCAL0..3   → `.READLOCAL i`    (the specialised op codes carry the same payload i)
  MOVEREADLOCAL i, MOVEREADLOCAL0..3 → `.MOVEREADLOCAL i`
  READCAPTURED i               → `.READCAPTURED i`
  SETLOCAL i                   → `.SETLOCAL i`
  IF t / JMP t                 → `.IF t` / `.JMP t` t = ABSOLUTE index inside the enclosing function body (index 0 =
                                                   first instruction after the closure header and its COPYCAPTURE words) —
                                                   resp. inside the top-level expression's listing
  POPJMP                       → `.POPJMP`         (payload = the former JMP target, ignored by the VM)
  NEWSCLOSURE s / PUREFUNC s   → `.NEWSCLOSURE s` / `.PUREFUNC s`   s = distance to the matching ECLOSURE
  PASS p                       → `.PASS p`         (first PASS after a closure header: 1 = rest arguments; the second
                                                   PASS carries the function id — parse it as `.PASS 0` or keep it, the
                                                   VM ignores it; the PASS after TCOJMP likewise)
  NDEFS n, COPYCAPTURESTACK i, COPYCAPTURECLOSURE i, ECLOSURE a → same names
  NEWBOX / UNBOX / SETBOX      → same names (each is followed by a `FUNC n` or `TAILCALL n` word that the VM skips)
  FUNC n, TAILCALL n, TCOJMP n → same names
  CALLGLOBAL g (+ next word FUNC n), CALLGLOBALTAIL g (+ next word TAILCALL n) → `.CALLGLOBAL g`, `.CALLGLOBALTAIL g`
                                                   followed by `.FUNC n` / `.TAILCALL n`
  POPPURE, POPSINGLE, BEGINSCOPE, LetVar, SDEF, EDEF → `.POPPURE`, `.POPSINGLE`, `.BEGINSCOPE`, `.LETVAR`, `.SDEF`, `.EDEF`
                                                   (payloads ignored by the VM: POPPURE carries the arity, BEGINSCOPE 0)
  LETENDSCOPE n                → `.LETENDSCOPE n`  n = offset (relative to sp) of the first slot of the scope
  BIND g / SET g               → `.BIND g` / `.SET g`

  `compile` emits exactly this alphabet; compared with a real listing it differs only in: payloads the VM ignores
  (function ids, POPPURE/BEGINSCOPE payloads), READLOCAL0..3 / MOVEREADLOCAL0..3 specialisation, and constant-pool indices.

## Deliberate abstractions (all other behaviour follows `vm.rs`)

* Primitive procedures are the six binary integer primitives `+ - * < <= =` as VALUES (`V.prim`) living in global
  slots, exactly as `+` is a `FuncV` in a global slot in Steel; they take exactly two integers (Steel's are variadic).
* Boxes are addresses into a growing store (no collector).  Globals are an association list slot ↦ value
  (`BIND` adds in front, lookup finds the first entry).
* No frame limit (C09 models it), no continuations, no JIT, no super-instructions.
* `selfTail` (TCOJMP) means "call the closure running in this frame again" — that is what the VM does (`ip := 0` in the
  same instruction sequence).  The real compiler lowers a call of the enclosing top-level function's own NAME to it
  when that global is not assigned inside the same unit; an assignment from a LATER unit is then not seen by the old
  closure (witness /verif/.build/C01/witness-tcojmp-self-call-after-later-set.scm: `(define (f n) (if (= n 0) 'old
  (f (- n 1)))) (define g f) (set! f (lambda (n) 'new)) (g 3)` gives `old`, the source semantics says `new`).  That
  lowering step is outside this model (it belongs to `analysis.rs`); the same class as K06a/K02a.
* `MOVEREADLOCAL` really moves (the slot becomes `void`), and so does the reference semantics of `loc i true`:
  the lowered core carries the last-usage flags of `analysis.rs` and its semantics says what they mean.
-/
namespace SteelVerif.C01C

/-! ## Values -/

inductive Const where
  | int (n : Int)
  | bool (b : Bool)
  | void
deriving DecidableEq, Repr, Inhabited

inductive Prim where
  | add | sub | mul | lt | le | eq
deriving DecidableEq, Repr, Inhabited

inductive Err where
  | arity | type | notproc | free | bad
deriving DecidableEq, Repr, Inhabited

inductive Res (α : Type) where
  | ok (a : α)
  | err (e : Err)
  | timeout
deriving Repr, Inhabited

def Res.map {α β : Type} (f : α → β) : Res α → Res β
  | .ok a => .ok (f a)
  | .err e => .err e
  | .timeout => .timeout

/-- Values, parametrised by the representation of a closure's code: `V Core` are the values of the reference
semantics (a closure holds its body expression), `V (List Instr)` those of the VM (a closure holds its
instruction sequence = the real `ByteCodeLambda.body_exp`). -/
inductive V (α : Type) where
  | int (n : Int)
  | bool (b : Bool)
  | void
  | box (a : Nat)
  | prim (p : Prim)
  | list (xs : List (V α))
  | clo (arity : Nat) (rest : Bool) (code : α) (caps : List (V α))

instance {α : Type} : Inhabited (V α) := ⟨.void⟩

mutual
/-- Translate the code component of every closure inside a value. -/
def V.map {α β : Type} (f : α → β) : V α → V β
  | .int n => .int n
  | .bool b => .bool b
  | .void => .void
  | .box a => .box a
  | .prim p => .prim p
  | .list xs => .list (V.mapL f xs)
  | .clo a r c caps => .clo a r (f c) (V.mapL f caps)
def V.mapL {α β : Type} (f : α → β) : List (V α) → List (V β)
  | [] => []
  | x :: xs => V.map f x :: V.mapL f xs
end

def Const.toV {α : Type} : Const → V α
  | .int n => .int n
  | .bool b => .bool b
  | .void => .void

def truthy {α : Type} : V α → Bool
  | .bool false => false
  | _ => true

def V.toInt? {α : Type} : V α → Option Int
  | .int n => some n
  | _ => none

def Prim.apply {α : Type} : Prim → List (V α) → Res (V α)
  | p, [.int a, .int b] =>
      .ok (match p with
        | .add => .int (a + b) | .sub => .int (a - b) | .mul => .int (a * b)
        | .lt => .bool (a < b) | .le => .bool (a ≤ b) | .eq => .bool (a == b))
  | _, [_, _] => .err .type
  | _, _ => .err .arity

/-- Boxes and globals. -/
structure St (α : Type) where
  store : List (V α)
  globals : List (Nat × V α)

instance {α : Type} : Inhabited (St α) := ⟨⟨[], []⟩⟩

def lookupG {α : Type} (g : Nat) : List (Nat × V α) → Option (V α)
  | [] => none
  | (k, v) :: rest => if k = g then some v else lookupG g rest

inductive BoxOp where
  | new | get | set
deriving DecidableEq, Repr, Inhabited

def BoxOp.arity : BoxOp → Nat
  | .new => 1 | .get => 1 | .set => 2

/-- `#%box`, `#%unbox`, `#%set-box!` (the latter yields the previous contents). -/
def BoxOp.apply {α : Type} : BoxOp → List (V α) → St α → Res (V α × St α)
  | .new, [v], σ => .ok (.box σ.store.length, { σ with store := σ.store ++ [v] })
  | .get, [.box a], σ =>
      match σ.store[a]? with
      | some x => .ok (x, σ)
      | none => .err .bad
  | .get, [_], _ => .err .type
  | .set, [.box a, v], σ =>
      match σ.store[a]? with
      | some old => .ok (old, { σ with store := σ.store.set a v })
      | none => .err .bad
  | .set, [_, _], _ => .err .type
  | _, _, _ => .err .arity

/-- The last `n` entries of a list and what is below them. -/
def splitLast {β : Type} (n : Nat) (l : List β) : Option (List β × List β) :=
  if l.length < n then none else some (l.take (l.length - n), l.drop (l.length - n))

/-- `adjust_stack_for_multi_arity`: the callee's locals from the operands of the call. -/
def bindArgs {α : Type} (arity : Nat) (rest : Bool) (args : List (V α)) : Res (List (V α)) :=
  if rest then
    if args.length < arity - 1 then .err .arity
    else .ok (args.take (arity - 1) ++ [.list (args.drop (arity - 1))])
  else if args.length = arity then .ok args else .err .arity

/-! ## The lowered core -/

inductive CapSrc where
  | stack (i : Nat)      -- COPYCAPTURESTACK i : slot i of the enclosing frame
  | closure (i : Nat)    -- COPYCAPTURECLOSURE i : capture i of the enclosing closure
deriving DecidableEq, Repr, Inhabited

inductive Core where
  | const (c : Const)
  | loc (i : Nat) (move : Bool)                 -- READLOCAL i / MOVEREADLOCAL i (last usage)
  | cap (i : Nat)                               -- READCAPTURED i
  | glob (g : Nat)                              -- PUSH g
  | lam (arity : Nat) (rest : Bool) (caps : List CapSrc) (body : Core)
  | app (f : Core) (args : List Core)           -- operands, callee, FUNC n / TAILCALL n
  | callG (g : Nat) (args : List Core)          -- operands, CALLGLOBAL g + FUNC n / CALLGLOBALTAIL g + TAILCALL n
  | selfTail (args : List Core)                 -- operands, TCOJMP n (tail position only)
  | ite (c t e : Core)
  | let_ (off : Nat) (inits : List Core) (body : Core)   -- off = offset of the first bound slot
  | seq (a b : Core)
  | setLoc (i : Nat) (e : Core)                 -- yields the previous value
  | boxop (op : BoxOp) (args : List Core)       -- NEWBOX / UNBOX / SETBOX + FUNC word
  | define (g : Nat) (e : Core)
  | setGlob (g : Nat) (e : Core)                -- yields the previous value
deriving Repr, Inhabited

abbrev Val := V Core

/-- The captured values of a new closure. -/
def capture {α : Type} (env caps : List (V α)) : List CapSrc → Option (List (V α))
  | [] => some []
  | .stack i :: rest =>
      match env[i]?, capture env caps rest with
      | some v, some vs => some (v :: vs)
      | _, _ => none
  | .closure i :: rest =>
      match caps[i]?, capture env caps rest with
      | some v, some vs => some (v :: vs)
      | _, _ => none

/-- The function running in the current frame: arity, rest flag, body. -/
abbrev Self := Option (Nat × Bool × Core)

/-- Application of a procedure value to evaluated operands; `ev` evaluates a closure body in a fresh frame. -/
def applyWith (ev : Self → Core → List Val → List Val → St Core → Res (Val × List Val × St Core))
    (fv : Val) (argv : List Val) (σ : St Core) : Res (Val × St Core) :=
  match fv with
  | .prim p => (p.apply argv).map (·, σ)
  | .clo a r body cc =>
      match bindArgs a r argv with
      | .ok locals =>
          match ev (some (a, r, body)) body locals cc σ with
          | .ok (v, _, σ') => .ok (v, σ')
          | .err e => .err e
          | .timeout => .timeout
      | .err e => .err e
      | .timeout => .timeout
  | _ => .err .notproc

/-! ## Reference semantics

`evalC fuel self tail e env caps σ`: `env` = the slots of the current frame (locals, let-bound variables and
the operands of pending calls, in stack order), `caps` = the captured values of the running closure, `self` =
the running function (for `selfTail`), `tail` = whether `e` is in tail position of the function body
(`selfTail` is only meaningful there).  The result carries the updated frame slots and state. -/
mutual
def evalC : Nat → Self → Bool → Core → List Val → List Val → St Core → Res (Val × List Val × St Core)
  | 0, _, _, _, _, _, _ => .timeout
  | fuel + 1, self, tail, e, env, caps, σ =>
    match e with
    | .const c => .ok (c.toV, env, σ)
    | .loc i mv =>
        match env[i]? with
        | some v => .ok (v, if mv then env.set i .void else env, σ)
        | none => .err .bad
    | .cap i =>
        match caps[i]? with
        | some v => .ok (v, env, σ)
        | none => .err .bad
    | .glob g =>
        match lookupG g σ.globals with
        | some v => .ok (v, env, σ)
        | none => .err .free
    | .lam a r cs body =>
        match capture env caps cs with
        | some cv => .ok (.clo a r body cv, env, σ)
        | none => .err .bad
    | .app f args =>
        match evalArgs fuel self args env caps σ with
        | .ok (env1, σ1) =>
            match evalC fuel self false f env1 caps σ1 with
            | .ok (fv, env2, σ2) =>
                match splitLast args.length env2 with
                | some (envr, argv) =>
                    match applyWith (fun s => evalC fuel s true) fv argv σ2 with
                    | .ok (v, σ3) => .ok (v, envr, σ3)
                    | .err e => .err e
                    | .timeout => .timeout
                | none => .err .bad
            | .err e => .err e
            | .timeout => .timeout
        | .err e => .err e
        | .timeout => .timeout
    | .callG g args =>
        match evalArgs fuel self args env caps σ with
        | .ok (env1, σ1) =>
            match lookupG g σ1.globals with
            | some fv =>
                match splitLast args.length env1 with
                | some (envr, argv) =>
                    match applyWith (fun s => evalC fuel s true) fv argv σ1 with
                    | .ok (v, σ3) => .ok (v, envr, σ3)
                    | .err e => .err e
                    | .timeout => .timeout
                | none => .err .bad
            | none => .err .free
        | .err e => .err e
        | .timeout => .timeout
    | .selfTail args =>
        if tail then
          match evalArgs fuel self args env caps σ with
          | .ok (env1, σ1) =>
              match self with
              | some (a, r, body) =>
                  match splitLast args.length env1 with
                  | some (envr, argv) =>
                      match applyWith (fun s => evalC fuel s true) (.clo a r body caps) argv σ1 with
                      | .ok (v, σ3) => .ok (v, envr, σ3)
                      | .err e => .err e
                      | .timeout => .timeout
                  | none => .err .bad
              | none => .err .bad
          | .err e => .err e
          | .timeout => .timeout
        else .err .bad
    | .ite c t e' =>
        match evalC fuel self false c env caps σ with
        | .ok (vc, env1, σ1) =>
            if truthy vc then evalC fuel self tail t env1 caps σ1 else evalC fuel self tail e' env1 caps σ1
        | .err e => .err e
        | .timeout => .timeout
    | .let_ off inits body =>
        match evalArgs fuel self inits env caps σ with
        | .ok (env1, σ1) =>
            match evalC fuel self tail body env1 caps σ1 with
            | .ok (v, env2, σ2) => if env2.length < off then .err .bad else .ok (v, env2.take off, σ2)
            | .err e => .err e
            | .timeout => .timeout
        | .err e => .err e
        | .timeout => .timeout
    | .seq a b =>
        match evalC fuel self false a env caps σ with
        | .ok (_, env1, σ1) => evalC fuel self tail b env1 caps σ1
        | .err e => .err e
        | .timeout => .timeout
    | .setLoc i e' =>
        match evalC fuel self false e' env caps σ with
        | .ok (v, env1, σ1) =>
            match env1[i]? with
            | some old => .ok (old, env1.set i v, σ1)
            | none => .err .bad
        | .err e => .err e
        | .timeout => .timeout
    | .boxop op args =>
        match evalArgs fuel self args env caps σ with
        | .ok (env1, σ1) =>
            match splitLast op.arity env1 with
            | some (envr, argv) =>
                match op.apply argv σ1 with
                | .ok (v, σ2) => .ok (v, envr, σ2)
                | .err e => .err e
                | .timeout => .timeout
            | none => .err .bad
        | .err e => .err e
        | .timeout => .timeout
    | .define g e' =>
        match evalC fuel self false e' env caps σ with
        | .ok (v, env1, σ1) => .ok (.void, env1, { σ1 with globals := (g, v) :: σ1.globals })
        | .err e => .err e
        | .timeout => .timeout
    | .setGlob g e' =>
        match evalC fuel self false e' env caps σ with
        | .ok (v, env1, σ1) =>
            match lookupG g σ1.globals with
            | some old => .ok (old, env1, { σ1 with globals := (g, v) :: σ1.globals })
            | none => .err .free
        | .err e => .err e
        | .timeout => .timeout
/-- Operands (and `let` initialisers) left to right, each value pushed into the next slot of the frame. -/
def evalArgs : Nat → Self → List Core → List Val → List Val → St Core → Res (List Val × St Core)
  | 0, _, _, _, _, _ => .timeout
  | _ + 1, _, [], env, _, σ => .ok (env, σ)
  | fuel + 1, self, a :: rest, env, caps, σ =>
      match evalC fuel self false a env caps σ with
      | .ok (v, env1, σ1) => evalArgs fuel self rest (env1 ++ [v]) caps σ1
      | .err e => .err e
      | .timeout => .timeout
end

/-- A top-level expression: empty frame, no captures, no running function, not in tail position. -/
def evalTop (fuel : Nat) (e : Core) (σ : St Core) : Res (Val × St Core) :=
  (evalC fuel none false e [] [] σ).map (fun r => (r.1, r.2.2))

/-! ## Instructions (the real op codes; payload conventions in the file header) -/

inductive Instr where
  | PUSHCONST (c : Const)
  | LOADINT0 | LOADINT1 | LOADINT2 | TRUE | FALSE | VOID
  | PUSH (g : Nat)
  | READLOCAL (i : Nat)
  | MOVEREADLOCAL (i : Nat)
  | READCAPTURED (i : Nat)
  | SETLOCAL (i : Nat)
  | IF (target : Nat)
  | JMP (target : Nat)
  | POPJMP
  | NEWSCLOSURE (size : Nat)
  | PUREFUNC (size : Nat)
  | PASS (p : Nat)
  | NDEFS (n : Nat)
  | COPYCAPTURESTACK (i : Nat)
  | COPYCAPTURECLOSURE (i : Nat)
  | ECLOSURE (arity : Nat)
  | NEWBOX | UNBOX | SETBOX
  | FUNC (n : Nat)
  | TAILCALL (n : Nat)
  | TCOJMP (n : Nat)
  | CALLGLOBAL (g : Nat)
  | CALLGLOBALTAIL (g : Nat)
  | POPPURE
  | POPSINGLE
  | BEGINSCOPE
  | LETVAR
  | LETENDSCOPE (n : Nat)
  | SDEF | EDEF
  | BIND (g : Nat)
  | SET (g : Nat)
deriving DecidableEq, Repr, Inhabited

abbrev VVal := V (List Instr)

/-! ## Code generation -/

mutual
/-- Number of instructions `compile` emits (independent of the position and of tail-ness). -/
def clen : Core → Nat
  | .const _ => 1
  | .loc _ _ => 1
  | .cap _ => 1
  | .glob _ => 1
  | .lam _ _ caps body => (if caps.isEmpty then 3 else 4 + caps.length) + (clen body + 1) + 1
  | .app f args => clenL false args + clen f + 1
  | .callG _ args => clenL false args + 2
  | .selfTail args => clenL false args + 2
  | .ite c t e => clen c + 1 + clen t + 1 + clen e
  | .let_ _ inits body => 1 + clenL true inits + clen body + 1
  | .seq a b => clen a + 1 + clen b
  | .setLoc _ e => clen e + 1
  | .boxop _ args => clenL false args + 2
  | .define _ e => 1 + clen e + 3
  | .setGlob _ e => clen e + 1
def clenL (lv : Bool) : List Core → Nat
  | [] => 0
  | a :: rest => clen a + (if lv then 1 else 0) + clenL lv rest
end

def constInstr : Const → Instr
  | .int 0 => .LOADINT0
  | .int 1 => .LOADINT1
  | .int 2 => .LOADINT2
  | .bool true => .TRUE
  | .bool false => .FALSE
  | .void => .VOID
  | c => .PUSHCONST c

def capInstr : CapSrc → Instr
  | .stack i => .COPYCAPTURESTACK i
  | .closure i => .COPYCAPTURECLOSURE i

def boxInstr : BoxOp → Instr
  | .new => .NEWBOX
  | .get => .UNBOX
  | .set => .SETBOX

mutual
/-- `compile tail b fin e`: the code of `e` placed at index `b` of its function body (`IF`/`JMP` payloads are
absolute indices of that body); `tail` = `e` is in tail position of the body; `fin` = the length of the body
without its final `POPPURE` (a `JMP` to there is emitted as `POPJMP`, `visit_lambda_function`). -/
def compile (tail : Bool) (b fin : Nat) : Core → List Instr
  | .const c => [constInstr c]
  | .loc i mv => [if mv then .MOVEREADLOCAL i else .READLOCAL i]
  | .cap i => [.READCAPTURED i]
  | .glob g => [.PUSH g]
  | .lam a r caps body =>
      let bc := compile true 0 (clen body) body ++ [.POPPURE]
      (if caps.isEmpty then
        [.PUREFUNC (3 + (clen body + 1)), .PASS (if r then 1 else 0), .PASS 0]
      else
        [.NEWSCLOSURE (4 + caps.length + (clen body + 1)), .PASS (if r then 1 else 0), .PASS 0,
          .NDEFS caps.length] ++ caps.map capInstr)
      ++ bc ++ [.ECLOSURE a]
  | .app f args =>
      compileArgs false b fin args ++ compile false (b + clenL false args) fin f ++
        [if tail then .TAILCALL args.length else .FUNC args.length]
  | .callG g args =>
      compileArgs false b fin args ++ [if tail then .CALLGLOBALTAIL g else .CALLGLOBAL g] ++
        [if tail then .TAILCALL args.length else .FUNC args.length]
  | .selfTail args => compileArgs false b fin args ++ [.TCOJMP args.length] ++ [.PASS 0]
  | .ite c t e =>
      let j2 := b + clen c + 1 + clen t + 1
      let j3 := j2 + clen e
      compile false b fin c ++ [.IF j2] ++ compile tail (b + clen c + 1) fin t ++
        [if tail && j3 == fin then .POPJMP else .JMP j3] ++ compile tail j2 fin e
  | .let_ off inits body =>
      [.BEGINSCOPE] ++ compileArgs true (b + 1) fin inits ++ compile tail (b + 1 + clenL true inits) fin body ++
        [.LETENDSCOPE off]
  | .seq a b' => compile false b fin a ++ [.POPSINGLE] ++ compile tail (b + clen a + 1) fin b'
  | .setLoc i e => compile false b fin e ++ [.SETLOCAL i]
  | .boxop op args =>
      compileArgs false b fin args ++ [boxInstr op] ++ [if tail then .TAILCALL args.length else .FUNC args.length]
  | .define g e => [.SDEF] ++ compile false (b + 1) fin e ++ [.EDEF] ++ [.BIND g] ++ [.VOID]
  | .setGlob g e => compile false b fin e ++ [.SET g]
/-- Operands of a call (`lv = false`) or initialisers of a `let` (`lv = true`: each is followed by `LetVar`). -/
def compileArgs (lv : Bool) (b fin : Nat) : List Core → List Instr
  | [] => []
  | a :: rest =>
      compile false b fin a ++ (if lv then [.LETVAR] else []) ++
        compileArgs lv (b + clen a + (if lv then 1 else 0)) fin rest
end

/-- The instruction sequence of a closure whose body is `body` (what `NEWSCLOSURE`/`PUREFUNC` cut out of the
enclosing code: everything between the header and `ECLOSURE`). -/
def bodyCode (body : Core) : List Instr := compile true 0 (clen body) body ++ [.POPPURE]

/-- A top-level expression: not in tail position, no `POPJMP` conversion (`fin` = an index no `JMP` targets:
every target is ≥ 1), final `POPPURE`. -/
def compileTop (e : Core) : List Instr := compile false 0 0 e ++ [.POPPURE]

/-- The VM value corresponding to a value of the reference semantics: closure bodies are compiled. -/
def toV : Val → VVal := V.map bodyCode
def toVL : List Val → List VVal := V.mapL bodyCode
def toSt (σ : St Core) : St (List Instr) :=
  { store := toVL σ.store, globals := σ.globals.map (fun p => (p.1, toV p.2)) }

/-! ## The VM -/

structure Frame where
  sp : Nat                   -- index of the frame's first local in the shared stack
  retIp : Nat                -- where the caller continues
  retCode : List Instr       -- the caller's instructions
  arity : Nat                -- `function.arity()`
  rest : Bool                -- `function.is_multi_arity`
  caps : List VVal           -- `function.captures()`

structure Cfg where
  code : List Instr
  ip : Nat
  stack : List VVal
  frames : List Frame        -- innermost first; empty at top level
  st : St (List Instr)

inductive StepRes where
  | next (c : Cfg)
  | halt (v : VVal) (st : St (List Instr))   -- `POPPURE` with no frame: the value of the top-level expression
  | err (e : Err)

def spOf : List Frame → Nat
  | [] => 0
  | f :: _ => f.sp

/-- The captures of the running closure (none at top level; reading one there is `bad`). -/
def capsOf : List Frame → List VVal
  | [] => []
  | f :: _ => f.caps

/-- `handle_pop_pure`: keep the top of the stack, drop the frame. -/
def doRet (c : Cfg) : StepRes :=
  match c.stack.getLast? with
  | none => .err .bad
  | some v =>
    match c.frames with
    | [] => .halt v c.st
    | f :: rest =>
      if c.stack.length ≤ f.sp then .err .bad
      else .next { c with code := f.retCode, ip := f.retIp, stack := c.stack.take f.sp ++ [v], frames := rest }

/-- `handle_function_call`: `stack` = the operand stack with the callee already removed, `n` operands on top. -/
def callFn (c : Cfg) (stack : List VVal) (f : VVal) (n : Nat) (retIp : Nat) : StepRes :=
  match splitLast n stack with
  | none => .err .bad
  | some (below, args) =>
    match f with
    | .prim p =>
        match p.apply args with
        | .ok r => .next { c with ip := retIp, stack := below ++ [r] }
        | .err e => .err e
        | .timeout => .err .bad
    | .clo a r body caps =>
        match bindArgs a r args with
        | .ok locals =>
            .next { c with code := body, ip := 0, stack := below ++ locals,
                           frames := { sp := below.length, retIp := retIp, retCode := c.code,
                                       arity := a, rest := r, caps := caps } :: c.frames }
        | .err e => .err e
        | .timeout => .err .bad
    | _ => .err .notproc

/-- `handle_tail_call` / the `CALLGLOBALTAIL` arm.  `primReturns`: a primitive called through `CALLGLOBALTAIL`
returns from the frame at once (`handle_pop_pure_value`), through `TAILCALL` it pushes its result and goes on. -/
def tailFn (c : Cfg) (stack : List VVal) (f : VVal) (n : Nat) (primReturns : Bool) (nextIp : Nat) : StepRes :=
  match splitLast n stack with
  | none => .err .bad
  | some (below, args) =>
    match f with
    | .prim p =>
        match p.apply args with
        | .ok r =>
            if primReturns then doRet { c with stack := below ++ [r] }
            else .next { c with ip := nextIp, stack := below ++ [r] }
        | .err e => .err e
        | .timeout => .err .bad
    | .clo a r body caps =>
        match bindArgs a r args with
        | .ok locals =>
            match c.frames with
            | [] => .err .bad
            | fr :: rest =>
              if below.length < fr.sp then .err .bad
              else .next { c with code := body, ip := 0, stack := below.take fr.sp ++ locals,
                                  frames := { fr with arity := a, rest := r, caps := caps } :: rest }
        | .err e => .err e
        | .timeout => .err .bad
    | _ => .err .notproc

/-- The capture words of `NEWSCLOSURE`. -/
def captureWords (stack : List VVal) (sp : Nat) (caps : List VVal) : List Instr → Option (List VVal)
  | [] => some []
  | .COPYCAPTURESTACK i :: rest =>
      match stack[sp + i]?, captureWords stack sp caps rest with
      | some v, some vs => some (v :: vs)
      | _, _ => none
  | .COPYCAPTURECLOSURE i :: rest =>
      match caps[i]?, captureWords stack sp caps rest with
      | some v, some vs => some (v :: vs)
      | _, _ => none
  | _ :: _ => none

/-- `code[from, from+len)`, or `none` when out of range. -/
def slice (code : List Instr) (start len : Nat) : Option (List Instr) :=
  if start + len ≤ code.length then some ((code.drop start).take len) else none

def step (c : Cfg) : StepRes :=
  let sp := spOf c.frames
  let push (v : VVal) : StepRes := .next { c with ip := c.ip + 1, stack := c.stack ++ [v] }
  match c.code[c.ip]? with
  | none => .err .bad
  | some ins =>
    match ins with
    | .PUSHCONST k => push k.toV
    | .LOADINT0 => push (.int 0)
    | .LOADINT1 => push (.int 1)
    | .LOADINT2 => push (.int 2)
    | .TRUE => push (.bool true)
    | .FALSE => push (.bool false)
    | .VOID => push .void
    | .PUSH g =>
        match lookupG g c.st.globals with
        | some v => push v
        | none => .err .free
    | .READLOCAL i =>
        match c.stack[sp + i]? with
        | some v => push v
        | none => .err .bad
    | .MOVEREADLOCAL i =>
        match c.stack[sp + i]? with
        | some v => .next { c with ip := c.ip + 1, stack := c.stack.set (sp + i) .void ++ [v] }
        | none => .err .bad
    | .READCAPTURED i =>
        match (capsOf c.frames)[i]? with
        | some v => push v
        | none => .err .bad
    | .SETLOCAL i =>
        match c.stack.getLast? with
        | none => .err .bad
        | some v =>
          let s := c.stack.dropLast
          match s[sp + i]? with
          | some old => .next { c with ip := c.ip + 1, stack := s.set (sp + i) v ++ [old] }
          | none => .err .bad
    | .IF t =>
        match c.stack.getLast? with
        | none => .err .bad
        | some v =>
          if truthy v then .next { c with ip := c.ip + 1, stack := c.stack.dropLast }
          else .next { c with ip := t, stack := c.stack.dropLast }
    | .JMP t => .next { c with ip := t }
    | .POPJMP => doRet c
    | .POPPURE => doRet c
    | .PUREFUNC size =>
        match c.code[c.ip + 1]?, slice c.code (c.ip + 3) (size - 3), c.code[c.ip + size]? with
        | some (.PASS r), some body, some (.ECLOSURE a) =>
            if size < 3 then .err .bad
            else .next { c with ip := c.ip + size + 1, stack := c.stack ++ [.clo a (r == 1) body []] }
        | _, _, _ => .err .bad
    | .NEWSCLOSURE size =>
        match c.code[c.ip + 1]?, c.code[c.ip + 3]? with
        | some (.PASS r), some (.NDEFS n) =>
            if size < 4 + n then .err .bad
            else
              match slice c.code (c.ip + 4) n, slice c.code (c.ip + 4 + n) (size - 4 - n), c.code[c.ip + size]? with
              | some words, some body, some (.ECLOSURE a) =>
                  match captureWords c.stack sp (capsOf c.frames) words with
                  | some caps => .next { c with ip := c.ip + size + 1, stack := c.stack ++ [.clo a (r == 1) body caps] }
                  | none => .err .bad
              | _, _, _ => .err .bad
        | _, _ => .err .bad
    | .NEWBOX | .UNBOX | .SETBOX =>
        let op : BoxOp := match ins with | .NEWBOX => .new | .UNBOX => .get | _ => .set
        match splitLast op.arity c.stack with
        | none => .err .bad
        | some (below, args) =>
          match op.apply args c.st with
          | .ok (r, st') => .next { c with ip := c.ip + 2, stack := below ++ [r], st := st' }
          | .err e => .err e
          | .timeout => .err .bad
    | .FUNC n =>
        match c.stack.getLast? with
        | none => .err .bad
        | some f => callFn c c.stack.dropLast f n (c.ip + 1)
    | .TAILCALL n =>
        match c.stack.getLast? with
        | none => .err .bad
        | some f => tailFn c c.stack.dropLast f n false (c.ip + 1)
    | .CALLGLOBAL g =>
        match lookupG g c.st.globals with
        | none => .err .free
        | some f =>
          match c.code[c.ip + 1]? with
          | some (.FUNC n) => callFn c c.stack f n (c.ip + 2)
          | _ => .err .bad
    | .CALLGLOBALTAIL g =>
        match lookupG g c.st.globals with
        | none => .err .free
        | some f =>
          match c.code[c.ip + 1]? with
          | some (.TAILCALL n) => tailFn c c.stack f n true (c.ip + 2)
          | _ => .err .bad
    | .TCOJMP n =>
        match c.frames with
        | [] => .err .bad
        | fr :: _ =>
          match splitLast n c.stack with
          | none => .err .bad
          | some (below, args) =>
            match bindArgs fr.arity fr.rest args with
            | .ok locals =>
                if below.length < fr.sp then .err .bad
                else .next { c with ip := 0, stack := below.take fr.sp ++ locals }
            | .err e => .err e
            | .timeout => .err .bad
    | .POPSINGLE => .next { c with ip := c.ip + 1, stack := c.stack.dropLast }
    | .BEGINSCOPE | .LETVAR | .SDEF | .EDEF | .PASS _ => .next { c with ip := c.ip + 1 }
    | .LETENDSCOPE n =>
        match c.stack.getLast? with
        | none => .err .bad
        | some v =>
          if c.stack.length ≤ sp + n then .err .bad
          else .next { c with ip := c.ip + 1, stack := c.stack.take (sp + n) ++ [v] }
    | .BIND g =>
        match c.stack.getLast? with
        | none => .err .bad
        | some v =>
          .next { c with ip := c.ip + 1, stack := c.stack.dropLast,
                         st := { c.st with globals := (g, v) :: c.st.globals } }
    | .SET g =>
        match c.stack.getLast? with
        | none => .err .bad
        | some v =>
          match lookupG g c.st.globals with
          | some old =>
              .next { c with ip := c.ip + 1, stack := c.stack.dropLast ++ [old],
                             st := { c.st with globals := (g, v) :: c.st.globals } }
          | none => .err .free
    -- words that are only ever read by the instruction before them
    | .NDEFS _ | .COPYCAPTURESTACK _ | .COPYCAPTURECLOSURE _ | .ECLOSURE _ => .err .bad

def run : Nat → Cfg → Res (VVal × St (List Instr))
  | 0, _ => .timeout
  | fuel + 1, c =>
    match step c with
    | .next c' => run fuel c'
    | .halt v st => .ok (v, st)
    | .err e => .err e

/-- `n` steps. -/
def steps : Nat → Cfg → Option Cfg
  | 0, c => some c
  | n + 1, c =>
    match step c with
    | .next c' => steps n c'
    | _ => none

/-- The initial configuration for a top-level instruction sequence. -/
def initCfg (code : List Instr) (st : St (List Instr)) : Cfg :=
  { code := code, ip := 0, stack := [], frames := [], st := st }

/-- A program = top-level expressions evaluated one after the other on the same state. -/
def evalProgram (fuel : Nat) : List Core → St Core → Res (List Val × St Core)
  | [], σ => .ok ([], σ)
  | e :: rest, σ =>
    match evalTop fuel e σ with
    | .ok (v, σ1) => (evalProgram fuel rest σ1).map (fun r => (v :: r.1, r.2))
    | .err k => .err k
    | .timeout => .timeout

def runProgram (fuel : Nat) : List (List Instr) → St (List Instr) → Res (List VVal × St (List Instr))
  | [], st => .ok ([], st)
  | code :: rest, st =>
    match run fuel (initCfg code st) with
    | .ok (v, st1) => (runProgram fuel rest st1).map (fun r => (v :: r.1, r.2))
    | .err k => .err k
    | .timeout => .timeout

/-- The global table with the six primitives in slots 0..5. -/
def primGlobals {α : Type} : List (Nat × V α) :=
  [(0, .prim .add), (1, .prim .sub), (2, .prim .mul), (3, .prim .lt), (4, .prim .le), (5, .prim .eq)]

end SteelVerif.C01C
