/-
C01 stage 2 — basic lemmas: execution sequences, the value translation `toV` commutes with every operation the
semantics and the VM share, lengths of generated code.
-/
import SteelVerif.C01.Core
namespace SteelVerif.C01C

/-! ## Execution sequences -/

def Exec (a b : Cfg) : Prop := ∃ n, steps n a = some b

theorem Exec.refl (a : Cfg) : Exec a a := ⟨0, rfl⟩

theorem steps_add : ∀ (n m : Nat) (a b c : Cfg), steps n a = some b → steps m b = some c → steps (n + m) a = some c := by
  intro n
  induction n with
  | zero => intro m a b c h1 h2; simp [steps] at h1; subst h1; simpa using h2
  | succ n ih =>
    intro m a b c h1 h2
    rw [Nat.add_right_comm]
    simp only [steps] at h1 ⊢
    cases hs : step a with
    | next c' => rw [hs] at h1; simp only; exact ih m c' b c h1 h2
    | halt v st => rw [hs] at h1; cases h1
    | err e => rw [hs] at h1; cases h1

theorem Exec.trans {a b c : Cfg} (h1 : Exec a b) (h2 : Exec b c) : Exec a c := by
  obtain ⟨n, hn⟩ := h1
  obtain ⟨m, hm⟩ := h2
  exact ⟨n + m, steps_add n m a b c hn hm⟩

theorem Exec.step {a b : Cfg} (h : step a = .next b) : Exec a b := ⟨1, by simp [steps, h]⟩

theorem run_of_steps : ∀ (n m : Nat) (a b : Cfg) (r : VVal × St (List Instr)),
    steps n a = some b → run m b = .ok r → run (n + m) a = .ok r := by
  intro n
  induction n with
  | zero => intro m a b r h1 h2; simp [steps] at h1; subst h1; simpa using h2
  | succ n ih =>
    intro m a b r h1 h2
    rw [Nat.add_right_comm]
    simp only [steps] at h1
    simp only [run]
    cases hs : step a with
    | next c' => rw [hs] at h1; exact ih m c' b r h1 h2
    | halt v st => rw [hs] at h1; cases h1
    | err e => rw [hs] at h1; cases h1

/-! ## `toV` -/

theorem mapL_eq {α β : Type} (f : α → β) (xs : List (V α)) : V.mapL f xs = xs.map (V.map f) := by
  induction xs with
  | nil => simp [V.mapL]
  | cons x xs ih => simp [V.mapL, ih]

@[simp] theorem toVL_eq (xs : List Val) : toVL xs = xs.map toV := mapL_eq _ xs

@[simp] theorem toV_int (n : Int) : toV (.int n) = .int n := by simp [toV, V.map]
@[simp] theorem toV_bool (b : Bool) : toV (.bool b) = .bool b := by simp [toV, V.map]
@[simp] theorem toV_void : toV .void = .void := by simp [toV, V.map]
@[simp] theorem toV_box (a : Nat) : toV (.box a) = .box a := by simp [toV, V.map]
@[simp] theorem toV_prim (p : Prim) : toV (.prim p) = .prim p := by simp [toV, V.map]
@[simp] theorem toV_list (xs : List Val) : toV (.list xs) = .list (xs.map toV) := by
  simp [toV, V.map, mapL_eq]
@[simp] theorem toV_clo (a : Nat) (r : Bool) (b : Core) (cs : List Val) :
    toV (.clo a r b cs) = .clo a r (bodyCode b) (cs.map toV) := by
  simp [toV, V.map, mapL_eq]

@[simp] theorem toV_const (c : Const) : toV (c.toV) = c.toV := by cases c <;> simp [Const.toV]

@[simp] theorem truthy_toV (v : Val) : truthy (toV v) = truthy v := by
  cases v <;> simp [truthy]
  rename_i b; cases b <;> simp [truthy]

@[simp] theorem toSt_store (σ : St Core) : (toSt σ).store = σ.store.map toV := by simp [toSt]
@[simp] theorem toSt_globals (σ : St Core) : (toSt σ).globals = σ.globals.map (fun p => (p.1, toV p.2)) := by
  simp [toSt]

theorem lookupG_map (g : Nat) (gs : List (Nat × Val)) :
    lookupG g (gs.map (fun p => (p.1, toV p.2))) = (lookupG g gs).map toV := by
  induction gs with
  | nil => simp [lookupG]
  | cons p gs ih =>
    obtain ⟨k, v⟩ := p
    by_cases hk : k = g <;> simp [lookupG, hk, ih]

theorem lookupG_toSt (g : Nat) (σ : St Core) (v : Val) (h : lookupG g σ.globals = some v) :
    lookupG g (toSt σ).globals = some (toV v) := by
  simp [lookupG_map, h]

theorem Prim.apply_map (p : Prim) (args : List Val) :
    p.apply (args.map toV) = (p.apply args).map toV := by
  rcases args with _ | ⟨x, _ | ⟨y, _ | ⟨z, t⟩⟩⟩
  · simp [Prim.apply, Res.map]
  · simp [Prim.apply, Res.map]
  · cases x <;> cases y <;> simp [Prim.apply, Res.map] <;> cases p <;> simp
  · simp [Prim.apply, Res.map]

theorem bindArgs_map (a : Nat) (r : Bool) (args : List Val) :
    bindArgs a r (args.map toV) = (bindArgs a r args).map (List.map toV) := by
  unfold bindArgs
  cases r <;> simp [Res.map]
  · split <;> simp
  · split <;> simp [List.map_take, List.map_drop]

theorem BoxOp.apply_map (op : BoxOp) (args : List Val) (σ : St Core) :
    op.apply (args.map toV) (toSt σ) = (op.apply args σ).map (fun r => (toV r.1, toSt r.2)) := by
  rcases args with _ | ⟨x, _ | ⟨y, _ | ⟨z, t⟩⟩⟩
  · cases op <;> simp [BoxOp.apply, Res.map]
  · cases op
    · simp [BoxOp.apply, Res.map, toSt]
    · cases x <;> simp [BoxOp.apply, Res.map]
      rename_i a
      cases h : σ.store[a]? <;> simp [h]
    · simp [BoxOp.apply, Res.map]
  · cases op
    · simp [BoxOp.apply, Res.map]
    · simp [BoxOp.apply, Res.map]
    · cases x <;> simp [BoxOp.apply, Res.map]
      rename_i a
      cases h : σ.store[a]? <;> simp [h, toSt, List.map_set]
  · cases op <;> simp [BoxOp.apply, Res.map]

theorem splitLast_some {β : Type} {n : Nat} {l lo hi : List β} (h : splitLast n l = some (lo, hi)) :
    l = lo ++ hi ∧ hi.length = n ∧ n ≤ l.length := by
  unfold splitLast at h
  split at h
  · cases h
  · simp only [Option.some.injEq, Prod.mk.injEq] at h
    obtain ⟨rfl, rfl⟩ := h
    refine ⟨by simp, by simp; omega, by omega⟩

theorem splitLast_append {β : Type} (n : Nat) (lo hi : List β) (h : hi.length = n) :
    splitLast n (lo ++ hi) = some (lo, hi) := by
  unfold splitLast
  have : ¬ ((lo ++ hi).length < n) := by simp; omega
  simp only [this, if_false]
  have h1 : (lo ++ hi).length - n = lo.length := by simp; omega
  rw [h1]; simp

/-- The VM's view of the operands of a call. -/
theorem splitLast_base {n : Nat} {l lo hi : List Val} (base : List VVal) (h : splitLast n l = some (lo, hi)) :
    splitLast n (base ++ l.map toV) = some (base ++ lo.map toV, hi.map toV) := by
  obtain ⟨rfl, h2, _⟩ := splitLast_some h
  have := splitLast_append n (base ++ lo.map toV) (hi.map toV) (by simpa using h2)
  simpa [List.append_assoc] using this

theorem getElem?_base {β : Type} (base l : List β) (i : Nat) : (base ++ l)[base.length + i]? = l[i]? := by
  simp [List.getElem?_append_right]

theorem set_base {β : Type} (base l : List β) (i : Nat) (x : β) :
    (base ++ l).set (base.length + i) x = base ++ l.set i x := by
  simp [List.set_append_right]

theorem capture_map (base : List VVal) (env caps : List Val) (cs : List CapSrc) :
    captureWords (base ++ env.map toV) base.length (caps.map toV) (cs.map capInstr) =
      (capture env caps cs).map (List.map toV) := by
  induction cs with
  | nil => simp [captureWords, capture]
  | cons c cs ih =>
    cases c with
    | stack i =>
      simp only [List.map_cons, capInstr, captureWords, capture, ih, getElem?_base, List.getElem?_map]
      cases env[i]? <;> cases capture env caps cs <;> simp
    | closure i =>
      simp only [List.map_cons, capInstr, captureWords, capture, ih, List.getElem?_map]
      cases caps[i]? <;> cases capture env caps cs <;> simp

/-! ## Lengths of generated code -/

mutual
theorem compile_length (tail : Bool) (b fin : Nat) : ∀ e : Core, (compile tail b fin e).length = clen e
  | .const _ => by simp [compile, clen]
  | .loc _ _ => by simp [compile, clen]
  | .cap _ => by simp [compile, clen]
  | .glob _ => by simp [compile, clen]
  | .lam a r caps body => by
      have := compile_length true 0 (clen body) body
      simp only [compile, clen]
      split <;> simp [this] <;> omega
  | .app f args => by
      have := compileArgs_length false b fin args
      have := compile_length false (b + clenL false args) fin f
      simp [compile, clen, *]; omega
  | .callG g args => by
      have := compileArgs_length false b fin args
      simp [compile, clen, *]
  | .selfTail args => by
      have := compileArgs_length false b fin args
      simp [compile, clen, *]
  | .ite c t e => by
      have := compile_length false b fin c
      have := compile_length tail (b + clen c + 1) fin t
      have := compile_length tail (b + clen c + 1 + clen t + 1) fin e
      simp [compile, clen, *]; omega
  | .let_ off inits body => by
      have := compileArgs_length true (b + 1) fin inits
      have := compile_length tail (b + 1 + clenL true inits) fin body
      simp [compile, clen, *]; omega
  | .seq a b' => by
      have := compile_length false b fin a
      have := compile_length tail (b + clen a + 1) fin b'
      simp [compile, clen, *]; omega
  | .setLoc i e => by
      have := compile_length false b fin e
      simp [compile, clen, *]
  | .boxop op args => by
      have := compileArgs_length false b fin args
      simp [compile, clen, *]
  | .define g e => by
      have := compile_length false (b + 1) fin e
      simp [compile, clen, *]; omega
  | .setGlob g e => by
      have := compile_length false b fin e
      simp [compile, clen, *]
theorem compileArgs_length (lv : Bool) (b fin : Nat) : ∀ args : List Core, (compileArgs lv b fin args).length = clenL lv args
  | [] => by simp [compileArgs, clenL]
  | a :: rest => by
      have h1 := compile_length false b fin a
      cases lv
      · have h2 := compileArgs_length false (b + clen a + 0) fin rest
        simp at h2
        simp [compileArgs, clenL, h1, h2]
      · have h2 := compileArgs_length true (b + clen a + 1) fin rest
        simp [compileArgs, clenL, h1, h2]; omega
end

attribute [simp] compile_length compileArgs_length

/-! ## Code positions -/

/-- The instruction at position `pre.length + k` of `pre ++ mid ++ post`. -/
theorem code_at (pre mid post : List Instr) (k : Nat) (ins : Instr) (h : mid[k]? = some ins) :
    (pre ++ mid ++ post)[pre.length + k]? = some ins := by
  have hk : k < mid.length := by
    rcases Nat.lt_or_ge k mid.length with h1 | h1
    · exact h1
    · simp [List.getElem?_eq_none h1] at h
  rw [List.append_assoc, List.getElem?_append_right (by omega)]
  simp [List.getElem?_append_left hk, h]

/-- A configuration positioned at offset `k` inside `mid`. -/
def at_ (pre mid post : List Instr) (k : Nat) (stack : List VVal) (frames : List Frame) (st : St (List Instr)) : Cfg :=
  { code := pre ++ mid ++ post, ip := pre.length + k, stack := stack, frames := frames, st := st }

theorem at_eq {pre mid post pre' mid' post' : List Instr} {k k' : Nat} (s : List VVal) (fr : List Frame)
    (st : St (List Instr))
    (h1 : pre ++ mid ++ post = pre' ++ mid' ++ post') (h2 : pre.length + k = pre'.length + k') :
    at_ pre mid post k s fr st = at_ pre' mid' post' k' s fr st := by
  simp only [at_, h1, h2]

theorem exec_embed {pre mid post pre' mid' post' : List Instr} (j1 j2 : Nat) {k1 k2 : Nat}
    {s s2 : List VVal} {fr fr2 : List Frame} {st st2 : St (List Instr)}
    (h : Exec (at_ pre' mid' post' k1 s fr st) (at_ pre' mid' post' k2 s2 fr2 st2))
    (hc : pre ++ mid ++ post = pre' ++ mid' ++ post')
    (h1 : pre.length + j1 = pre'.length + k1) (h2 : pre.length + j2 = pre'.length + k2) :
    Exec (at_ pre mid post j1 s fr st) (at_ pre mid post j2 s2 fr2 st2) := by
  rw [at_eq s fr st hc h1, at_eq s2 fr2 st2 hc h2]; exact h

end SteelVerif.C01C
