/-
C01 tie — the `bc` mode of `c01driver`.

stdin = the output of `harness c01 --bc` (see harness/src/bin/c01.rs), in which the check may have inserted, after a
unit's `\x1eU` line, one line `\x1eC <core term>` per top-level expression of the unit (the generator's lowering of
the same source).  Per unit the driver prints

  L  ok | unmodelled <reason,…> | skipped      the real listing read into `List C01C.Instr`
  RV <outcome>      `C01C.run` on the REAL listing            (state carried from unit to unit)
  XV <outcome>      the extended VM (`BCExt`) on the REAL listing, when the listing is inside the extended set
  XO <text>         what the extended VM wrote to the output port in this unit (`\n` and `\\` escaped)
  SE <outcome>      `evalC` on the generator's Core term      (only with `\x1eC` lines)
  MV <outcome>      `C01C.run (compileTop e)`                 (only with `\x1eC` lines)
  CMP identical | diff <class> | -             `compileTop e` vs the real listing after `normalise`
  OPS op=n,…        op codes of the real listing
  TO real=accept|reject|- model=accept|reject|-    the static check `C09.tailOnlyB` (= `goodTopB` on every top-level
                    sequence: inside every lambda body the only non-tail calls are calls of primitive slots) on the real
                    listing and on `compileTop e`.  Accepted real listings are covered by `C09.core_loop_constant_space`
                    (at most one frame in every reachable configuration).
outcome = `ok v1\x1fv2…` | `err <kind>` | `timeout` | `-` (not run).
-/
import SteelVerif.Base.Sexp
import SteelVerif.C01.BCParse
import SteelVerif.C01.BCExt
import SteelVerif.C09.CoreWF
namespace SteelVerif.C01BC
open SteelVerif.C01C
open SteelVerif.Base

/-! ## Core terms in text form -/

partial def parseCore : Sexp → Option Core
  | .list [.sym "c", .int n] => some (.const (.int n))
  | .list [.sym "t"] => some (.const (.bool true))
  | .list [.sym "f"] => some (.const (.bool false))
  | .list [.sym "v"] => some (.const .void)
  | .list [.sym "l", .int i] => some (.loc i.toNat false)
  | .list [.sym "lm", .int i] => some (.loc i.toNat true)
  | .list [.sym "cap", .int i] => some (.cap i.toNat)
  | .list [.sym "g", .int g] => some (.glob g.toNat)
  | .list [.sym "lam", .int a, .int r, .list caps, body] => do
      let cs ← caps.mapM fun
        | .list [.sym "s", .int i] => some (CapSrc.stack i.toNat)
        | .list [.sym "k", .int i] => some (CapSrc.closure i.toNat)
        | _ => none
      some (.lam a.toNat (r != 0) cs (← parseCore body))
  | .list (.sym "app" :: f :: args) => do some (.app (← parseCore f) (← args.mapM parseCore))
  | .list (.sym "cg" :: .int g :: args) => do some (.callG g.toNat (← args.mapM parseCore))
  | .list (.sym "st" :: args) => do some (.selfTail (← args.mapM parseCore))
  | .list [.sym "if", c, t, e] => do some (.ite (← parseCore c) (← parseCore t) (← parseCore e))
  | .list [.sym "let", .int off, .list inits, body] => do
      some (.let_ off.toNat (← inits.mapM parseCore) (← parseCore body))
  | .list [.sym "seq", a, b] => do some (.seq (← parseCore a) (← parseCore b))
  | .list [.sym "setl", .int i, e] => do some (.setLoc i.toNat (← parseCore e))
  | .list [.sym "box", e] => do some (.boxop .new [← parseCore e])
  | .list [.sym "unbox", e] => do some (.boxop .get [← parseCore e])
  | .list [.sym "setbox", b, v] => do some (.boxop .set [← parseCore b, ← parseCore v])
  | .list [.sym "def", .int g, e] => do some (.define g.toNat (← parseCore e))
  | .list [.sym "setg", .int g, e] => do some (.setGlob g.toNat (← parseCore e))
  | _ => none

/-! ## Normalisation for the listing comparison

Already done by `toInstr`: `READLOCALk`/`MOVEREADLOCALk` ↦ `READLOCAL k`/`MOVEREADLOCAL k`; the function id in the
second `PASS` of a closure header ↦ 0; the payloads of `POPPURE`, `BEGINSCOPE`, `POPJMP`, `SDEF`, … dropped (the
constructors have none); `PUSHCONST` by the constant, not by the pool index.  Here: global slots are renamed to
0, 1, 2, … in the order of their first appearance in the program (independently on both sides). -/

abbrev Ren := List (Nat × Nat)

def Ren.get (r : Ren) (g : Nat) : Ren × Nat :=
  match r.lookup g with
  | some k => (r, k)
  | none => (r ++ [(g, r.length)], r.length)

def renInstr (r : Ren) : Instr → Ren × Instr
  | .PUSH g => let (r, k) := r.get g; (r, .PUSH k)
  | .CALLGLOBAL g => let (r, k) := r.get g; (r, .CALLGLOBAL k)
  | .CALLGLOBALTAIL g => let (r, k) := r.get g; (r, .CALLGLOBALTAIL k)
  | .BIND g => let (r, k) := r.get g; (r, .BIND k)
  | .SET g => let (r, k) := r.get g; (r, .SET k)
  | i => (r, i)

def renCode (r : Ren) : List Instr → Ren × List Instr
  | [] => (r, [])
  | i :: rest =>
    let (r1, i') := renInstr r i
    let (r2, rest') := renCode r1 rest
    (r2, i' :: rest')

def opName : Instr → String
  | .PUSHCONST _ => "PUSHCONST" | .LOADINT0 => "LOADINT0" | .LOADINT1 => "LOADINT1" | .LOADINT2 => "LOADINT2"
  | .TRUE => "TRUE" | .FALSE => "FALSE" | .VOID => "VOID" | .PUSH _ => "PUSH" | .READLOCAL _ => "READLOCAL"
  | .MOVEREADLOCAL _ => "MOVEREADLOCAL" | .READCAPTURED _ => "READCAPTURED" | .SETLOCAL _ => "SETLOCAL"
  | .IF _ => "IF" | .JMP _ => "JMP" | .POPJMP => "POPJMP" | .NEWSCLOSURE _ => "NEWSCLOSURE"
  | .PUREFUNC _ => "PUREFUNC" | .PASS _ => "PASS" | .NDEFS _ => "NDEFS" | .COPYCAPTURESTACK _ => "COPYCAPTURESTACK"
  | .COPYCAPTURECLOSURE _ => "COPYCAPTURECLOSURE" | .ECLOSURE _ => "ECLOSURE" | .NEWBOX => "NEWBOX"
  | .UNBOX => "UNBOX" | .SETBOX => "SETBOX" | .FUNC _ => "FUNC" | .TAILCALL _ => "TAILCALL" | .TCOJMP _ => "TCOJMP"
  | .CALLGLOBAL _ => "CALLGLOBAL" | .CALLGLOBALTAIL _ => "CALLGLOBALTAIL" | .POPPURE => "POPPURE"
  | .POPSINGLE => "POPSINGLE" | .BEGINSCOPE => "BEGINSCOPE" | .LETVAR => "LETVAR" | .LETENDSCOPE _ => "LETENDSCOPE"
  | .SDEF => "SDEF" | .EDEF => "EDEF" | .BIND _ => "BIND" | .SET _ => "SET"

def countOp (n : String) (l : List Instr) : Nat := (l.filter (fun i => opName i == n)).length

/-- Why two normalised listings differ (one word, for the histogram). -/
def diffClass (real model : List Instr) : String :=
  if real == model then "identical"
  else if real.length != model.length then
    if countOp "BEGINSCOPE" real > countOp "BEGINSCOPE" model &&
       (countOp "CALLGLOBAL" real + countOp "CALLGLOBALTAIL" real + countOp "TCOJMP" real + countOp "FUNC" real
         ≥ countOp "CALLGLOBAL" model + countOp "CALLGLOBALTAIL" model + countOp "TCOJMP" model + countOp "FUNC" model)
       && real.length == model.length + 2 * (countOp "BEGINSCOPE" real - countOp "BEGINSCOPE" model) then
      "extra-empty-scope"
    else if real.length < model.length then "real-shorter(folded/pruned)"
    else "real-longer(inlined/expanded)"
  else
    let ds := (real.zip model).filter (fun p => p.1 != p.2)
    match ds.head? with
    | some (a, b) =>
        if opName a == opName b then s!"payload:{opName a}" else s!"{opName a}/{opName b}"
    | none => "identical"

/-! ## The unit loop -/

def showOutcome {α : Type} : Res (List (V α) × St α) → String
  | .ok (vs, _) => "ok " ++ "\u001f".intercalate (vs.map showV)
  | .err e => "err " ++ showErr e
  | .timeout => "timeout"

structure PState where
  prims : List (Nat × String)            -- slot, name of the built-ins (\x1eK rows)
  rvSt : Option (St (List Instr))        -- state of the core VM on real listings; none = given up (unmodelled unit)
  xvSt : Option XSt                      -- state of the extended VM on real listings
  seSt : Option (St Core)
  mvSt : Option (St (List Instr))
  renR : Ren
  renM : Ren

def primTable {α : Type} (prims : List (Nat × String)) : List (Nat × V α) :=
  prims.filterMap fun (s, n) => (primOfName n).map fun p => (s, V.prim p)

/-- The generator's Core terms use slots 0..5 for `+ - * < <= =`. -/
def initP (prims : List (Nat × String)) : PState :=
  { prims := prims, rvSt := some ⟨[], primTable prims⟩, xvSt := some (xInitSt prims),
    seSt := some ⟨[], primGlobals⟩, mvSt := some ⟨[], primGlobals⟩,
    renR := (prims.filterMap fun (s, n) => (primOfName n).map fun _ => s).zipIdx.map (fun (s, i) => (s, i)),
    renM := (List.range 6).map (fun i => (i, i)) }

def fuelVM : Nat := 100000
def fuelSem : Nat := 2500

/-- `C09.tailOnlyB` with generous size bounds (`maxN`, `maxLen` only bound operand counts and code length). -/
def tailOnly (slots : List Nat) (codes : List (List Instr)) : Bool :=
  codes.all (SteelVerif.C09C.goodTopB 64 ⟨slots, 64, 100000⟩)

def histo (ls : List Line) : String :=
  let names := (ls.map (·.op)).eraseDups
  ",".intercalate (names.map fun n => s!"{n}={(ls.filter (·.op == n)).length}")

/-- A constant whose text contains a newline spreads over several lines of the listing: a line that is not a
listing line continues the text column of the line before it. -/
def mergeLines (ls : List String) : List String :=
  (ls.foldl (fun (acc : List String) l =>
    match acc with
    | [] => [l]
    | prev :: rest => if (parseLine l).isSome then l :: acc else (prev ++ "\n" ++ l) :: rest) []).reverse

/-- Process one unit: `cores` = the `\x1eC` lines, `listings` = the listings (each a list of raw lines), `rm`. -/
def doUnit (ps : PState) (cores : List String) (listings : List (List String)) (rm : Remap) : PState × List String :=
  let listings := listings.map mergeLines
  let parsed : List (List Line) := listings.map (fun l => l.filterMap parseLine)
  let lineLoss := (listings.zip parsed).any (fun (a, b) => a.length != b.length)
  let codes := parsed.map (toCode rm)
  let bad : List String := (codes.foldl (fun acc c => match c with | .error b => acc ++ b | .ok _ => acc) []).eraseDups
  let realCodes : List (List Instr) := codes.filterMap (fun c => match c with | .ok l => some l | .error _ => none)
  let ops := "OPS " ++ histo parsed.flatten
  let toReal := if lineLoss || !bad.isEmpty then "-" else if tailOnly rm.known realCodes then "accept" else "reject"
  -- core VM on the real listing
  let (rvSt, lLine, rvLine) :=
    match ps.rvSt with
    | none => (none, "L skipped", "RV -")
    | some st =>
      if lineLoss then (none, "L unmodelled unparsable-line", "RV -")
      else if !bad.isEmpty then (none, "L unmodelled " ++ ",".intercalate bad, "RV -")
      else
        let r := runProgram fuelVM realCodes st
        ((match r with | .ok (_, st') => some st' | _ => none), "L ok", "RV " ++ showOutcome r)
  -- extended VM on the real listing
  let (xvSt, xvLine) :=
    match ps.xvSt with
    | none => (none, "XV - skipped")
    | some st =>
      if lineLoss then (none, "XV - unparsable-line")
      else
        match xCodes rm parsed with
        | .error b => (none, "XV - " ++ ",".intercalate b.eraseDups)
        | .ok xc =>
          let r := xRunProgram fuelVM xc st
          let esc := (r.out.replace "\\" "\\\\").replace "\n" "\\n"
          (r.st, "XV " ++ r.line ++ "\nXO " ++ esc)
  -- the generator's Core terms
  let terms : Option (List Core) :=
    if cores.isEmpty then none
    else cores.mapM (fun s => (Reader.read s).bind (fun l => l.head?.bind parseCore))
  match terms with
  | none =>
      ({ ps with rvSt := rvSt, xvSt := xvSt, seSt := none, mvSt := none },
        [lLine, rvLine, xvLine] ++ (if cores.isEmpty then [] else ["SE bad-core-term"]) ++
          [ops, s!"TO real={toReal} model=-"])
  | some es =>
      let (seSt, seLine) :=
        match ps.seSt with
        | none => (none, "SE -")
        | some st =>
          let r := evalProgram fuelSem es st
          ((match r with | .ok (_, st') => some st' | _ => none), "SE " ++ showOutcome r)
      let mcodes := es.map compileTop
      let (mvSt, mvLine) :=
        match ps.mvSt with
        | none => (none, "MV -")
        | some st =>
          let r := runProgram fuelVM mcodes st
          ((match r with | .ok (_, st') => some st' | _ => none), "MV " ++ showOutcome r)
      let (renR, cmpLine, renM) :=
        if lineLoss || !bad.isEmpty then (ps.renR, "CMP -", ps.renM)
        else
          let (r1, a) := renCode ps.renR realCodes.flatten
          let (r2, b) := renCode ps.renM mcodes.flatten
          let cls := if realCodes.length != mcodes.length then "more-top-level-expressions(lifted-lambda)" else diffClass a b
          (r1, (if cls == "identical" then "CMP identical" else "CMP diff " ++ cls), r2)
      ({ ps with rvSt := rvSt, xvSt := xvSt, seSt := seSt, mvSt := mvSt, renR := renR, renM := renM },
        [lLine, rvLine, xvLine, seLine, mvLine, cmpLine, ops,
          s!"TO real={toReal} model={if tailOnly [0, 1, 2, 3, 4, 5] mcodes then "accept" else "reject"}"])

structure Acc where
  ps : PState
  prims : List (Nat × String)
  started : Bool
  inUnit : Bool
  inListing : Bool
  cores : List String
  cur : List String
  listings : List (List String)
  rm : Remap

def splitOnChar (s : String) (c : Char) : List String :=
  let rec go (l : List Char) (cur : List Char) (acc : List String) : List String :=
    match l with
    | [] => (String.ofList cur.reverse :: acc).reverse
    | x :: r => if x == c then go r [] (String.ofList cur.reverse :: acc) else go r (x :: cur) acc
  go s.toList [] []

partial def bcLoop (h : IO.FS.Stream) (a : Acc) : IO Unit := do
  let l ← h.getLine
  if l.isEmpty then return ()
  let l := if l.endsWith "\n" then (l.dropEnd 1).toString else l
  if l.startsWith "\u001eB" then
    IO.println "\u001eB"
    bcLoop h { a with ps := initP [], prims := [], started := false, inUnit := false, inListing := false,
                      cores := [], cur := [], listings := [] }
  else if l.startsWith "\u001eK " then
    match splitOnChar (l.drop 3).toString ' ' with
    | [n, s] => bcLoop h { a with prims := a.prims ++ [(s.toNat?.getD 0, n)] }
    | _ => bcLoop h a
  else if l.startsWith "\u001eU" then
    IO.println "\u001eU"
    let ps := if a.started then a.ps else initP a.prims
    bcLoop h { a with ps := ps, started := true, inUnit := true, inListing := true, cores := [], cur := [],
                      listings := [] }
  else if l.startsWith "\u001eC " then
    bcLoop h { a with cores := a.cores ++ [(l.drop 3).toString] }
  else if l.startsWith "\u001eX" then
    bcLoop h { a with inListing := false }
  else if l.startsWith "\u001eG " then
    match splitOnChar (l.drop 3).toString '\u001f' with
    | b :: names =>
        let limit := ((a.prims.find? (·.2 == "#builtins")).map (·.1)).getD 0
        let known := a.prims.filterMap fun (s, n) => (primOfName n).map fun _ => s
        bcLoop h { a with rm := { base := b.toNat?.getD 0, names := names.filter (· ≠ ""), limit := limit,
                                  known := known } }
    | [] => bcLoop h a
  else if l.startsWith "\u001eR" then
    if a.inUnit then
      let (ps, out) := doUnit a.ps a.cores a.listings a.rm
      for o in out do IO.println o
      bcLoop h { a with ps := ps, inUnit := false }
    else bcLoop h a
  else if a.inUnit && a.inListing then
    if l == "----" then bcLoop h { a with listings := a.listings ++ [a.cur], cur := [] }
    else if l.startsWith "=> listing failed" then bcLoop h a
    else bcLoop h { a with cur := a.cur ++ [l] }
  else bcLoop h a

def bcMain : IO Unit := do
  bcLoop (← IO.getStdin)
    { ps := initP [], prims := [], started := false, inUnit := false, inListing := false, cores := [], cur := [],
      listings := [], rm := { base := 0, names := [] } }

end SteelVerif.C01BC
