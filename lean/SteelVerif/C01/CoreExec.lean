/-
C01 stage 2 — one lemma per instruction: what a single `step` does at a known code position.
-/
import SteelVerif.C01.CoreLemmas
namespace SteelVerif.C01C

set_option hygiene false in
/-- Reduce `Exec (at_ pre mid post k …) c'` to a single `step` on a configuration whose code is abstract. -/
macro "one_step" h:ident : tactic =>
  `(tactic| (refine Exec.step ?_
             have hc := code_at pre mid post k _ $h
             simp only [at_] at hc ⊢
             generalize pre ++ mid ++ post = code at hc ⊢))

set_option hygiene false in
/-- The same for a two-word instruction (`h2` = the word after it). -/
macro "two_step" h:ident h2:ident : tactic =>
  `(tactic| (refine Exec.step ?_
             have hc := code_at pre mid post k _ $h
             have hc2 := code_at pre mid post (k + 1) _ $h2
             have hc3 := hc2
             rw [← Nat.add_assoc] at hc3
             simp only [at_] at hc hc2 hc3 ⊢
             generalize pre ++ mid ++ post = code at hc hc2 hc3 ⊢))

theorem splitLast_append3 {β : Type} (n : Nat) (a b c : List β) (h : c.length = n) :
    splitLast n (a ++ (b ++ c)) = some (a ++ b, c) := by
  simpa [List.append_assoc] using splitLast_append n (a ++ b) c h

variable (pre mid post : List Instr) (k : Nat) (s : List VVal) (fr : List Frame) (st : St (List Instr))

theorem exec_const (c : Const) (h : mid[k]? = some (constInstr c)) :
    Exec (at_ pre mid post k s fr st) (at_ pre mid post (k + 1) (s ++ [c.toV]) fr st) := by
  one_step h
  unfold constInstr at hc
  split at hc <;> simp [step, hc, Const.toV, Nat.add_assoc]

theorem exec_pushg (g : Nat) (v : VVal) (h : mid[k]? = some (.PUSH g)) (hv : lookupG g st.globals = some v) :
    Exec (at_ pre mid post k s fr st) (at_ pre mid post (k + 1) (s ++ [v]) fr st) := by
  one_step h
  simp [step, hc, hv, Nat.add_assoc]

theorem exec_readlocal (i : Nat) (v : VVal) (h : mid[k]? = some (.READLOCAL i)) (hv : s[spOf fr + i]? = some v) :
    Exec (at_ pre mid post k s fr st) (at_ pre mid post (k + 1) (s ++ [v]) fr st) := by
  one_step h
  simp [step, hc, hv, Nat.add_assoc]

theorem exec_movelocal (i : Nat) (v : VVal) (h : mid[k]? = some (.MOVEREADLOCAL i)) (hv : s[spOf fr + i]? = some v) :
    Exec (at_ pre mid post k s fr st) (at_ pre mid post (k + 1) (s.set (spOf fr + i) .void ++ [v]) fr st) := by
  one_step h
  simp [step, hc, hv, Nat.add_assoc]

theorem exec_readcap (i : Nat) (v : VVal) (h : mid[k]? = some (.READCAPTURED i)) (hv : (capsOf fr)[i]? = some v) :
    Exec (at_ pre mid post k s fr st) (at_ pre mid post (k + 1) (s ++ [v]) fr st) := by
  one_step h
  simp [step, hc, hv, Nat.add_assoc]

theorem exec_setlocal (i : Nat) (v old : VVal) (h : mid[k]? = some (.SETLOCAL i)) (ho : s[spOf fr + i]? = some old) :
    Exec (at_ pre mid post k (s ++ [v]) fr st) (at_ pre mid post (k + 1) (s.set (spOf fr + i) v ++ [old]) fr st) := by
  one_step h
  simp [step, hc, ho, Nat.add_assoc]

theorem exec_if_true (t : Nat) (c : VVal) (h : mid[k]? = some (.IF t)) (ht : truthy c = true) :
    Exec (at_ pre mid post k (s ++ [c]) fr st) (at_ pre mid post (k + 1) s fr st) := by
  one_step h
  simp [step, hc, ht, Nat.add_assoc]

theorem exec_if_false (t : Nat) (c : VVal) (h : mid[k]? = some (.IF t)) (ht : truthy c = false) :
    Exec (at_ pre mid post k (s ++ [c]) fr st)
      { code := pre ++ mid ++ post, ip := t, stack := s, frames := fr, st := st } := by
  one_step h
  simp [step, hc, ht]

theorem exec_jmp (t : Nat) (h : mid[k]? = some (.JMP t)) :
    Exec (at_ pre mid post k s fr st)
      { code := pre ++ mid ++ post, ip := t, stack := s, frames := fr, st := st } := by
  one_step h
  simp [step, hc]

theorem doRet_frame (c : Cfg) (base junk : List VVal) (v : VVal) (f : Frame) (rest : List Frame)
    (hs : c.stack = base ++ junk ++ [v]) (hf : c.frames = f :: rest) (hsp : f.sp = base.length) :
    doRet c = .next { c with code := f.retCode, ip := f.retIp, stack := base ++ [v], frames := rest } := by
  unfold doRet
  simp only [hs, hf, List.getLast?_append, List.getLast?_singleton, Option.some_or]
  have : ¬ ((base ++ junk ++ [v]).length ≤ f.sp) := by simp; omega
  simp [this, hsp]

theorem exec_ret (base junk : List VVal) (v : VVal) (f : Frame) (rest : List Frame) (ins : Instr)
    (h : mid[k]? = some ins) (hins : ins = .POPPURE ∨ ins = .POPJMP) (hsp : f.sp = base.length) :
    Exec (at_ pre mid post k (base ++ junk ++ [v]) (f :: rest) st)
      { code := f.retCode, ip := f.retIp, stack := base ++ [v], frames := rest, st := st } := by
  one_step h
  rcases hins with rfl | rfl
  · simp only [step, hc]
    rw [doRet_frame _ base junk v f rest rfl rfl hsp]
  · simp only [step, hc]
    rw [doRet_frame _ base junk v f rest rfl rfl hsp]

theorem exec_popsingle (v : VVal) (h : mid[k]? = some .POPSINGLE) :
    Exec (at_ pre mid post k (s ++ [v]) fr st) (at_ pre mid post (k + 1) s fr st) := by
  one_step h
  simp [step, hc, Nat.add_assoc]

theorem exec_nop (ins : Instr) (h : mid[k]? = some ins)
    (hins : ins = .BEGINSCOPE ∨ ins = .LETVAR ∨ ins = .SDEF ∨ ins = .EDEF) :
    Exec (at_ pre mid post k s fr st) (at_ pre mid post (k + 1) s fr st) := by
  one_step h
  rcases hins with rfl | rfl | rfl | rfl <;> simp [step, hc, Nat.add_assoc]

theorem exec_letend (base l : List VVal) (v : VVal) (n : Nat) (h : mid[k]? = some (.LETENDSCOPE n))
    (hsp : spOf fr = base.length) (hn : n ≤ l.length) :
    Exec (at_ pre mid post k (base ++ l ++ [v]) fr st) (at_ pre mid post (k + 1) (base ++ l.take n ++ [v]) fr st) := by
  one_step h
  have h1 : ¬ (base.length + (l.length + 1) ≤ base.length + n) := by omega
  have h2 : (base ++ l ++ [v]).take (base.length + n) = base ++ l.take n := by
    rw [List.append_assoc, List.take_length_add_append, List.take_append_of_le_length hn]
  simp only [step, hc, hsp, List.getLast?_append, List.getLast?_singleton, Option.some_or, List.length_append,
    List.length_singleton, h2, Nat.add_assoc]
  rw [if_neg h1]

theorem exec_bind (g : Nat) (v : VVal) (h : mid[k]? = some (.BIND g)) :
    Exec (at_ pre mid post k (s ++ [v]) fr st)
      (at_ pre mid post (k + 1) s fr { st with globals := (g, v) :: st.globals }) := by
  one_step h
  simp [step, hc, Nat.add_assoc]

theorem exec_set (g : Nat) (v old : VVal) (h : mid[k]? = some (.SET g)) (ho : lookupG g st.globals = some old) :
    Exec (at_ pre mid post k (s ++ [v]) fr st)
      (at_ pre mid post (k + 1) (s ++ [old]) fr { st with globals := (g, v) :: st.globals }) := by
  one_step h
  simp [step, hc, ho, Nat.add_assoc]

theorem exec_boxop (op : BoxOp) (below args : List VVal) (r : VVal) (st' : St (List Instr))
    (h : mid[k]? = some (boxInstr op)) (hsplit : splitLast op.arity s = some (below, args))
    (happ : op.apply args st = .ok (r, st')) :
    Exec (at_ pre mid post k s fr st) (at_ pre mid post (k + 2) (below ++ [r]) fr st') := by
  one_step h
  cases op <;> simp [boxInstr] at hc <;> simp [step, hc, hsplit, happ, Nat.add_assoc]

/-! ### Calls -/

theorem exec_func_prim (n : Nat) (below args : List VVal) (p : Prim) (r : VVal)
    (h : mid[k]? = some (.FUNC n)) (hn : args.length = n) (hp : p.apply args = .ok r) :
    Exec (at_ pre mid post k (below ++ args ++ [.prim p]) fr st) (at_ pre mid post (k + 1) (below ++ [r]) fr st) := by
  one_step h
  simp [step, hc, callFn, splitLast_append n below args hn, hp, Nat.add_assoc]

theorem exec_func_clo (n : Nat) (below args locals : List VVal) (a : Nat) (r : Bool) (body : List Instr)
    (caps : List VVal) (h : mid[k]? = some (.FUNC n)) (hn : args.length = n)
    (hb : bindArgs a r args = .ok locals) :
    Exec (at_ pre mid post k (below ++ args ++ [.clo a r body caps]) fr st)
      { code := body, ip := 0, stack := below ++ locals,
        frames := { sp := below.length, retIp := pre.length + k + 1, retCode := pre ++ mid ++ post,
                    arity := a, rest := r, caps := caps } :: fr, st := st } := by
  one_step h
  simp [step, hc, callFn, splitLast_append n below args hn, hb]

theorem exec_callg_prim (g n : Nat) (below args : List VVal) (p : Prim) (r : VVal)
    (h : mid[k]? = some (.CALLGLOBAL g)) (h2 : mid[k + 1]? = some (.FUNC n))
    (hg : lookupG g st.globals = some (.prim p)) (hn : args.length = n) (hp : p.apply args = .ok r) :
    Exec (at_ pre mid post k (below ++ args) fr st) (at_ pre mid post (k + 2) (below ++ [r]) fr st) := by
  two_step h h2
  simp [step, hc, hc2, hc3, hg, callFn, splitLast_append n below args hn, hp, Nat.add_assoc]

theorem exec_callg_clo (g n : Nat) (below args locals : List VVal) (a : Nat) (r : Bool) (body : List Instr)
    (caps : List VVal) (h : mid[k]? = some (.CALLGLOBAL g)) (h2 : mid[k + 1]? = some (.FUNC n))
    (hg : lookupG g st.globals = some (.clo a r body caps)) (hn : args.length = n)
    (hb : bindArgs a r args = .ok locals) :
    Exec (at_ pre mid post k (below ++ args) fr st)
      { code := body, ip := 0, stack := below ++ locals,
        frames := { sp := below.length, retIp := pre.length + k + 2, retCode := pre ++ mid ++ post,
                    arity := a, rest := r, caps := caps } :: fr, st := st } := by
  two_step h h2
  simp [step, hc, hc2, hc3, hg, callFn, splitLast_append n below args hn, hb]

theorem exec_tail_prim (n : Nat) (below args : List VVal) (p : Prim) (r : VVal)
    (h : mid[k]? = some (.TAILCALL n)) (hn : args.length = n) (hp : p.apply args = .ok r) :
    Exec (at_ pre mid post k (below ++ args ++ [.prim p]) fr st) (at_ pre mid post (k + 1) (below ++ [r]) fr st) := by
  one_step h
  simp [step, hc, tailFn, splitLast_append n below args hn, hp, Nat.add_assoc]

theorem exec_tail_clo (n : Nat) (base junk args locals : List VVal) (a : Nat) (r : Bool) (body : List Instr)
    (caps : List VVal) (f : Frame) (rest : List Frame)
    (h : mid[k]? = some (.TAILCALL n)) (hn : args.length = n) (hsp : f.sp = base.length)
    (hb : bindArgs a r args = .ok locals) :
    Exec (at_ pre mid post k (base ++ junk ++ args ++ [.clo a r body caps]) (f :: rest) st)
      { code := body, ip := 0, stack := base ++ locals,
        frames := { f with arity := a, rest := r, caps := caps } :: rest, st := st } := by
  one_step h
  have : ¬ (base.length + junk.length < base.length) := by omega
  simp [step, hc, tailFn, splitLast_append3 n base junk args hn, hb, hsp, this]

theorem exec_callgtail_prim (g n : Nat) (base junk args : List VVal) (p : Prim) (r : VVal) (f : Frame)
    (rest : List Frame)
    (h : mid[k]? = some (.CALLGLOBALTAIL g)) (h2 : mid[k + 1]? = some (.TAILCALL n))
    (hg : lookupG g st.globals = some (.prim p)) (hn : args.length = n) (hp : p.apply args = .ok r)
    (hsp : f.sp = base.length) :
    Exec (at_ pre mid post k (base ++ junk ++ args) (f :: rest) st)
      { code := f.retCode, ip := f.retIp, stack := base ++ [r], frames := rest, st := st } := by
  two_step h h2
  simp only [step, hc, hc2, hc3, hg, tailFn, splitLast_append n (base ++ junk) args hn, hp, if_true]
  rw [doRet_frame _ base junk r f rest rfl rfl hsp]

theorem exec_callgtail_clo (g n : Nat) (base junk args locals : List VVal) (a : Nat) (r : Bool)
    (body : List Instr) (caps : List VVal) (f : Frame) (rest : List Frame)
    (h : mid[k]? = some (.CALLGLOBALTAIL g)) (h2 : mid[k + 1]? = some (.TAILCALL n))
    (hg : lookupG g st.globals = some (.clo a r body caps)) (hn : args.length = n) (hsp : f.sp = base.length)
    (hb : bindArgs a r args = .ok locals) :
    Exec (at_ pre mid post k (base ++ junk ++ args) (f :: rest) st)
      { code := body, ip := 0, stack := base ++ locals,
        frames := { f with arity := a, rest := r, caps := caps } :: rest, st := st } := by
  two_step h h2
  have : ¬ (base.length + junk.length < base.length) := by omega
  simp [step, hc, hc2, hc3, hg, tailFn, splitLast_append3 n base junk args hn, hb, hsp, this]

theorem exec_tcojmp (n : Nat) (base junk args locals : List VVal) (f : Frame) (rest : List Frame)
    (h : mid[k]? = some (.TCOJMP n)) (hn : args.length = n) (hsp : f.sp = base.length)
    (hb : bindArgs f.arity f.rest args = .ok locals) :
    Exec (at_ pre mid post k (base ++ junk ++ args) (f :: rest) st)
      { code := pre ++ mid ++ post, ip := 0, stack := base ++ locals, frames := f :: rest, st := st } := by
  one_step h
  have : ¬ (base.length + junk.length < base.length) := by omega
  simp [step, hc, splitLast_append3 n base junk args hn, hb, hsp, this]

/-! ### Closure creation -/

theorem slice_mid (pre a b c : List Instr) : slice (pre ++ (a ++ b ++ c)) (pre.length + a.length) b.length = some b := by
  unfold slice
  have : pre.length + a.length + b.length ≤ (pre ++ (a ++ b ++ c)).length := by simp; omega
  simp only [this, if_true]
  have h1 : pre ++ (a ++ b ++ c) = (pre ++ a) ++ (b ++ c) := by simp [List.append_assoc]
  rw [h1, show pre.length + a.length = (pre ++ a).length by simp, List.drop_left]
  simp

theorem step_purefunc (c : Cfg) (size p a : Nat) (body : List Instr)
    (h0 : c.code[c.ip]? = some (.PUREFUNC size)) (h1 : c.code[c.ip + 1]? = some (.PASS p))
    (hs : slice c.code (c.ip + 3) (size - 3) = some body) (h3 : c.code[c.ip + size]? = some (.ECLOSURE a))
    (hsz : ¬ size < 3) :
    step c = .next { c with ip := c.ip + size + 1, stack := c.stack ++ [.clo a (p == 1) body []] } := by
  simp [step, h0, h1, hs, h3, hsz]

theorem step_newsclosure (c : Cfg) (size p a n : Nat) (words body : List Instr) (cv : List VVal)
    (h0 : c.code[c.ip]? = some (.NEWSCLOSURE size)) (h1 : c.code[c.ip + 1]? = some (.PASS p))
    (h2 : c.code[c.ip + 3]? = some (.NDEFS n))
    (hs1 : slice c.code (c.ip + 4) n = some words)
    (hs2 : slice c.code (c.ip + 4 + n) (size - 4 - n) = some body)
    (h3 : c.code[c.ip + size]? = some (.ECLOSURE a)) (hsz : ¬ size < 4 + n)
    (hcap : captureWords c.stack (spOf c.frames) (capsOf c.frames) words = some cv) :
    step c = .next { c with ip := c.ip + size + 1, stack := c.stack ++ [.clo a (p == 1) body cv] } := by
  simp [step, h0, h1, h2, hs1, hs2, h3, hsz, hcap]

theorem exec_purefunc (body : List Instr) (p q a : Nat) :
    Exec (at_ pre ([.PUREFUNC (3 + body.length), .PASS p, .PASS q] ++ body ++ [.ECLOSURE a]) post 0 s fr st)
      (at_ pre ([.PUREFUNC (3 + body.length), .PASS p, .PASS q] ++ body ++ [.ECLOSURE a]) post
        (3 + body.length + 1) (s ++ [.clo a (p == 1) body []]) fr st) := by
  refine Exec.step ?_
  generalize hm : ([Instr.PUREFUNC (3 + body.length), .PASS p, .PASS q] ++ body ++ [.ECLOSURE a]) = m
  have h0 := code_at pre m post 0 (.PUREFUNC (3 + body.length)) (by simp [← hm])
  have h1 := code_at pre m post 1 (.PASS p) (by simp [← hm])
  have h3 := code_at pre m post (3 + body.length) (.ECLOSURE a) (by
    subst hm
    rw [List.getElem?_append_right (by simp; omega)]
    have : 3 + body.length - ([Instr.PUREFUNC (3 + body.length), .PASS p, .PASS q] ++ body).length = 0 := by
      simp; omega
    rw [this]; rfl)
  have hs : slice (pre ++ m ++ post) (pre.length + 0 + 3) (3 + body.length - 3) = some body := by
    have := slice_mid pre [.PUREFUNC (3 + body.length), .PASS p, .PASS q] body ([.ECLOSURE a] ++ post)
    subst hm
    have e : 3 + body.length - 3 = body.length := by omega
    rw [e]
    simpa [List.append_assoc] using this
  have := step_purefunc (at_ pre m post 0 s fr st) (3 + body.length) p a body h0
    (by simpa [at_, Nat.add_assoc] using h1) hs
    (by simpa [at_, Nat.add_assoc] using h3) (by omega)
  rw [this]
  simp [at_, Nat.add_assoc]

theorem exec_newsclosure (words body : List Instr) (p q a : Nat) (cv : List VVal)
    (hcap : captureWords s (spOf fr) (capsOf fr) words = some cv) :
    Exec (at_ pre ([.NEWSCLOSURE (4 + words.length + body.length), .PASS p, .PASS q, .NDEFS words.length] ++ words ++
            body ++ [.ECLOSURE a]) post 0 s fr st)
      (at_ pre ([.NEWSCLOSURE (4 + words.length + body.length), .PASS p, .PASS q, .NDEFS words.length] ++ words ++
            body ++ [.ECLOSURE a]) post (4 + words.length + body.length + 1) (s ++ [.clo a (p == 1) body cv]) fr st) := by
  refine Exec.step ?_
  generalize hm : ([Instr.NEWSCLOSURE (4 + words.length + body.length), .PASS p, .PASS q, .NDEFS words.length] ++ words ++
            body ++ [.ECLOSURE a]) = m
  have h0 := code_at pre m post 0 (.NEWSCLOSURE (4 + words.length + body.length)) (by simp [← hm])
  have h1 := code_at pre m post 1 (.PASS p) (by simp [← hm])
  have h2 := code_at pre m post 3 (.NDEFS words.length) (by simp [← hm])
  have h3 := code_at pre m post (4 + words.length + body.length) (.ECLOSURE a) (by
    subst hm
    rw [List.getElem?_append_right (by simp; omega)]
    have : 4 + words.length + body.length -
        ([Instr.NEWSCLOSURE (4 + words.length + body.length), .PASS p, .PASS q, .NDEFS words.length] ++ words ++
          body).length = 0 := by simp; omega
    rw [this]; rfl)
  have hs1 : slice (pre ++ m ++ post) (pre.length + 0 + 4) words.length = some words := by
    have := slice_mid pre [.NEWSCLOSURE (4 + words.length + body.length), .PASS p, .PASS q, .NDEFS words.length]
      words (body ++ [.ECLOSURE a] ++ post)
    subst hm
    simpa [List.append_assoc] using this
  have hs2 : slice (pre ++ m ++ post) (pre.length + 0 + 4 + words.length)
      (4 + words.length + body.length - 4 - words.length) = some body := by
    have := slice_mid pre ([.NEWSCLOSURE (4 + words.length + body.length), .PASS p, .PASS q, .NDEFS words.length] ++
      words) body ([.ECLOSURE a] ++ post)
    subst hm
    have e : 4 + words.length + body.length - 4 - words.length = body.length := by omega
    have e2 : pre.length + 0 + 4 + words.length = pre.length +
      ([Instr.NEWSCLOSURE (4 + words.length + body.length), .PASS p, .PASS q, .NDEFS words.length] ++ words).length := by
      simp; omega
    rw [e, e2]
    simpa [List.append_assoc] using this
  have := step_newsclosure (at_ pre m post 0 s fr st) (4 + words.length + body.length) p a words.length words body cv
    h0 (by simpa [at_, Nat.add_assoc] using h1) (by simpa [at_, Nat.add_assoc] using h2) hs1 hs2
    (by simpa [at_, Nat.add_assoc] using h3) (by omega) hcap
  rw [this]
  simp [at_, Nat.add_assoc]

end SteelVerif.C01C
