/-
C01 tie — hook for an EXTENDED VM on real listings (more built-ins: list primitives, comparison, vectors, output).
NOT BUILT YET: `xCodes` rejects every listing ("no-extension"), so the driver's `XV` line is always `-` and the evidence
field `units_ext_modelled` is 0.  The measured reasons why whole programs of gen/progs.py are outside the core VM are all
built-ins (no op code): see `tie_core_model_to_repo.whole.unmodelled_reasons` in evidence/C01.json.  An extension has to
bring its own value type (strings, symbols, vectors are not in `C01C.V`) and therefore its own copy of `step`; the plan is
to run both VMs on every core-only listing and require equal outcomes (differential tie to `C01C.step`), or to prove the
embedding `xstep (embed c) = embed (step c)`.
-/
import SteelVerif.C01.BCParse
namespace SteelVerif.C01BC
open SteelVerif.C01C

abbrev XInstr := Instr
abbrev XSt := St (List Instr)

def xInitSt (_prims : List (Nat × String)) : XSt := ⟨[], []⟩
def xCodes (_rm : Remap) (_ls : List (List Line)) : Except (List String) (List (List XInstr)) := .error ["no-extension"]
def xRunProgram (fuel : Nat) (codes : List (List XInstr)) (st : XSt) := runProgram fuel codes st
def xShowOutcome : Res (List VVal × XSt) → String
  | .ok (vs, _) => "ok " ++ "\u001f".intercalate (vs.map showV)
  | .err e => "err " ++ showErr e
  | .timeout => "timeout"

end SteelVerif.C01BC
