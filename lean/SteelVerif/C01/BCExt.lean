/-
C01 tie — the EXTENDED VM for real listings (`XV` line of `c01driver bc`).

Purpose: replay the real bytecode of WHOLE programs (gen/progs.py, corpus) that use built-ins, strings, symbols,
quoted data, vectors, output and `with-handler`, which the proved core VM (`C01C.step`, values `C01C.V`) cannot hold.

Design (executable Lean, nothing here is proved):
* VALUES are the values of the reference evaluator S, `Base.Val` (integers, booleans, symbols, strings, characters,
  pairs, vectors and boxes in the store `Base.St.store`, …).  A VM closure is the handle `.prim "\u0001<k>"` into the
  closure table `XSt.clos` (`procedure?`, `eq?` and printing treat it like any procedure).
* BUILT-INS are applied by `Base.applyPrim` — the SAME primitive table S uses, so a difference real-vs-`XV` is about the
  compiler and the VM, not about the primitives; `display`/`displayln`/`newline`/`write` append to `Base.St.out`, which the
  check compares with the real output of the unit.  `apply` spreads its last operand.  The library procedures S defines in
  the object language (`Base.preludeSrc`: map, filter, foldl, foldr, for-each, reduce) are not built in here: the check
  prepends them to the replayed program as its first compilation unit, compiled by the real compiler like user code.
* MODULE MODE (`(require "file")`, what `steel file.scm` does): mangled `##mm…` globals are ordinary slots; an import
  `(%proto-hash-get% __module-… 'name)` yields the built-in `name`; export tables are opaque; the specialised op codes
  (`ADD`, `SUB`, `MUL`, `LTE`, `NUMEQUAL`, `CAR`, `CDR`, `CONS`, `LIST`, `NULL`, `NOT`, `VECTORREF`, `CALLPRIMITIVE`, …) name the
  built-in they stand for in their text column (`#%prim.NAME`) and are executed as the call of that built-in through the
  shared primitive table; `SELFTAILCALLNOARITY` = `TCOJMP`.
* OP CODES: the 47 of the core model with the same behaviour as `C01C.step` (same order of effects, same frame
  discipline; arrays instead of lists), plus `FUNCNOARITY`, `TAILCALLNOARITY`, `CALLGLOBALNOARITY`,
  `CALLGLOBALTAILNOARITY` (= the checked forms; the compiler emits them where it has compared the operand count itself).
  The tie of THIS VM to the proved one is differential: on every listing inside the core set both run (`RV` and `XV`) and
  the check requires equal outcomes.
* `with-handler` is what the real expander makes of it: `(*reset (λ () (call-with-exception-handler h thunk)))` with a
  handler that ends in `(*shift (λ (k) (k result)))`.  Modelled as marks on frames (a mark lives as long as the frame:
  tail calls keep it): `*reset` marks the frame of its thunk, `call-with-exception-handler` marks the frame of its thunk
  with the handler; an error unwinds to the innermost handler mark and runs the handler in that frame; `*shift f` unwinds
  to the innermost reset mark and runs `f` there with the identity as the continuation argument (so `(k v)` in tail
  position returns `v` from the reset).  Any other use of the continuation, `call/cc`, `dynamic-wind` … are outside:
  the unit is reported as unmodelled with the reason.
-/
import SteelVerif.Base.Eval
import SteelVerif.C01.BCParse
namespace SteelVerif.C01BC
open SteelVerif.Base

structure XI where
  op : String
  p : Nat
  k : Val := .void
  name : String := ""
deriving Inhabited

structure XClo where
  arity : Nat
  rest : Bool
  code : Array XI
  caps : Array Val
deriving Inhabited

inductive Mark where
  | reset
  | handler (h : Val)
deriving Inhabited

structure XFrame where
  sp : Nat
  retIp : Nat
  retCode : Array XI
  arity : Nat
  rest : Bool
  caps : Array Val
  marks : List Mark          -- innermost first
deriving Inhabited

structure XSt where
  bst : Base.St
  globals : List (Nat × Val)
  clos : Array XClo
  limit : Nat                -- slots below are built-ins of a fresh engine
deriving Inhabited

structure XCfg where
  code : Array XI
  ip : Nat
  stack : Array Val
  frames : List XFrame
  st : XSt
deriving Inhabited

inductive XRes where
  | next (c : XCfg)
  | halt (v : Val) (st : XSt)
  | err (kind : String) (payload : Val) (c : XCfg)
  | unmod (why : String)

instance : Inhabited XRes := ⟨.unmod "?"⟩

def cloTag : String := "\u0001"
def mkClo (i : Nat) : Val := .prim (cloTag ++ toString i)
def cloIdx? : Val → Option Nat
  | .prim n => if n.startsWith cloTag then (n.drop 1).toString.toNat? else none
  | _ => none

def controlNames : List String :=
  ["*reset", "*shift", "call-with-exception-handler", "%proto-hash-get%", "%proto-hash%", "#%void",
   "#%push-module-context", "#%pop-module-context"]

def primPrefix : String := "#%prim."
/-- `#%prim.NAME` in the text column: the instruction is the inlined / direct call of the built-in NAME. -/
def primOfText (t : String) : Option String :=
  if t.startsWith primPrefix then some (t.drop primPrefix.length).toString else none
def isBuiltinName (n : String) : Bool := primNames.contains n || controlNames.contains n

def errKindOf (payload : Val) : String :=
  match payload with
  | .pair (.sym "error") (.pair (.str m) .nil) =>
      if m.startsWith "type mismatch" then "type" else if m.startsWith "arity mismatch" then "arity" else "other"
  | _ => "other"

def xLookupG (g : Nat) : List (Nat × Val) → Option Val
  | [] => none
  | (k, v) :: rest => if k = g then some v else xLookupG g rest

/-- The value of global slot `g` (`name` = text column of the instruction). -/
def globalOf (st : XSt) (g : Nat) (name : String) : Except (Option String) Val :=
  let name := (primOfText name).getD name      -- module code names built-ins `#%prim.NAME`
  match xLookupG g st.globals with
  | some v => .ok v
  | none =>
    if g < st.limit then
      -- steel's `void` is the void VALUE, not a procedure (`(void)` is an application of a non-procedure)
      if name == "void" then .ok .void
      else if name.startsWith "__module-" then .ok (.sym name)      -- a module's export table: opaque
      else .ok (.prim name)         -- a built-in the model does not have is reported when it is CALLED (`prim:NAME`)
    else .error none       -- free identifier

def spOfX : List XFrame → Nat
  | [] => 0
  | f :: _ => f.sp
def capsOfX : List XFrame → Array Val
  | [] => #[]
  | f :: _ => f.caps

def xBindArgs (arity : Nat) (rest : Bool) (args : Array Val) : Option (Array Val) :=
  if rest then
    if args.size < arity - 1 then none
    else some ((args.extract 0 (arity - 1)).push (valsToList (args.extract (arity - 1) args.size).toList))
  else if args.size = arity then some args else none

def arityErr (c : XCfg) : XRes := .err "arity" (mkErr "arity mismatch") c

/-- Return from the innermost frame with the value on top of the stack (`handle_pop_pure`). -/
def xRet (c : XCfg) : XRes :=
  match c.stack.back? with
  | none => .unmod "bad:empty-stack-at-return"
  | some v =>
    match c.frames with
    | [] => .halt v c.st
    | f :: rest =>
      .next { c with code := f.retCode, ip := f.retIp, stack := (c.stack.extract 0 f.sp).push v, frames := rest }

def addMark (m : Mark) : XRes → XRes
  | .next c =>
      match c.frames with
      | f :: rest => .next { c with frames := { f with marks := m :: f.marks } :: rest }
      | [] => .unmod "bad:mark-without-frame"
  | r => r

/-- Enter closure `k` with `args`; `below` = the stack under the operands.  Tail: the innermost frame is reused. -/
def enterClo (c : XCfg) (below : Array Val) (k : XClo) (args : Array Val) (retIp : Nat) (tail : Bool) : XRes :=
  match xBindArgs k.arity k.rest args with
  | none => arityErr c
  | some locals =>
    if tail then
      match c.frames with
      | [] => .unmod "bad:tail-call-at-top-level"
      | fr :: rest =>
        .next { c with code := k.code, ip := 0, stack := (below.extract 0 fr.sp) ++ locals,
                       frames := { fr with arity := k.arity, rest := k.rest, caps := k.caps } :: rest }
    else
      .next { c with code := k.code, ip := 0, stack := below ++ locals,
                     frames := { sp := below.size, retIp := retIp, retCode := c.code, arity := k.arity,
                                 rest := k.rest, caps := k.caps, marks := [] } :: c.frames }

def dropToReset : List XFrame → Option (XFrame × List XFrame)
  | [] => none
  | f :: rest =>
    let rec cut : List Mark → Option (List Mark)
      | [] => none
      | .reset :: ms => some ms
      | _ :: ms => cut ms
    match cut f.marks with
    | some ms => some ({ f with marks := ms }, rest)
    | none => dropToReset rest

def dropToHandler : List XFrame → Option (Val × XFrame × List XFrame)
  | [] => none
  | f :: rest =>
    let rec cut : List Mark → Option (Val × List Mark)
      | [] => none
      | .handler h :: ms => some (h, ms)
      | _ :: ms => cut ms
    match cut f.marks with
    | some (h, ms) => some (h, { f with marks := ms }, rest)
    | none => dropToHandler rest

/-- Apply `f` to the `n` operands on top of `stack` (the callee is already removed).  `retIp`: where a non-tail call
continues; `tail`: frame reuse; `primReturns`: a built-in called by `CALLGLOBALTAIL` returns from the frame at once. -/
partial def callV (c : XCfg) (stack : Array Val) (f : Val) (n : Nat) (retIp : Nat) (tail primReturns : Bool) : XRes :=
  if stack.size < n then .unmod "bad:stack-underflow" else
  let below := stack.extract 0 (stack.size - n)
  let args := stack.extract (stack.size - n) stack.size
  let result (v : Val) (st : XSt) : XRes :=
    if tail && primReturns then xRet { c with stack := below.push v, st := st }
    else .next { c with ip := retIp, stack := below.push v, st := st }
  match cloIdx? f with
  | some i =>
      match c.st.clos[i]? with
      | some k => enterClo c below k args retIp tail
      | none => .unmod "bad:closure-handle"
  | none =>
    match f with
    | .prim "apply" =>
        if n < 2 then arityErr c else
        match listToVals 100000 args.back! with
        | none => .err "type" (mkErr "type mismatch in apply") c
        | some spread =>
          let args' := (args.extract 1 (n - 1)) ++ spread.toArray
          callV c (below ++ args') args[0]! args'.size retIp tail primReturns
    | .prim "*reset" =>
        if n != 1 then arityErr c else addMark .reset (callV c below args[0]! 0 retIp tail primReturns)
    | .prim "call-with-exception-handler" =>
        if n != 2 then arityErr c else addMark (.handler args[0]!) (callV c below args[1]! 0 retIp tail primReturns)
    | .prim "*shift" =>
        if n != 1 then arityErr c else
        match dropToReset c.frames with
        | none => .unmod "shift-without-reset"
        | some (fr, rest) =>
          match (cloIdx? args[0]!).bind (c.st.clos[·]?) with
          | none => .unmod "shift-non-closure"
          | some k =>
            -- run the body of the shift in the frame of the reset; its continuation argument is the identity
            enterClo { c with frames := fr :: rest } (c.stack.extract 0 fr.sp) k #[.prim "#%mk"] 0 true
    | .prim "#%mk" => if n != 1 then .unmod "continuation-arity" else result args[0]! c.st
    -- module plumbing of `(require "file")`: export tables are opaque, an import of a built-in module yields the built-in
    | .prim "#%void" | .prim "#%push-module-context" | .prim "#%pop-module-context" => result .void c.st
    | .prim "%proto-hash%" => result (.sym "__module-table") c.st
    | .prim "%proto-hash-get%" =>
        match args.toList with
        | [.sym m, .sym nm] =>
            if !m.startsWith "__module-" then .unmod "hash-get" else
            if nm == "void" then result .void c.st
            else result (.prim nm) c.st      -- a built-in the model does not have is reported when it is CALLED
        | _ => .unmod "hash-get"
    | .prim name =>
        match applyPrim name args.toList c.st.bst with
        | some (.ok (v, bst)) => result v { c.st with bst := bst }
        | some (.error p) => .err (errKindOf p) p c
        | none => .unmod s!"prim:{name}"
    | .cont _ => .unmod "continuation-invoked"
    | _ => .err "notproc" (mkErr "not a procedure") c

def readConst (text : String) : Option Val :=
  match Reader.read text with
  | some [.list [.sym "quote", d]] => some (datumToVal d)
  | some [.int n] => some (.int n)
  | some [.bool b] => some (.bool b)
  | some [.str s] => some (.str s)
  | some [.chr ch] => some (.chr ch)
  | _ => if text == "#<void>" then some .void else none

/-- Specialised op codes that occurred in module-mode listings; each carries `#%prim.NAME` in its text column and is
executed as the call of NAME (`xStep`, last arm) — any other op code with such a text column is accepted the same way. -/
def specialisedOps : List String :=
  ["ADD", "SUB", "MUL", "LTE", "LT", "GT", "GTE", "NUMEQUAL", "NOT", "CAR", "CDR", "CONS", "LIST", "NULL", "VECTORREF",
   "EQUAL2", "CALLPRIMITIVE", "SELFTAILCALLNOARITY"]

def xOps : List String :=
  modelledOpNames ++ ["FUNCNOARITY", "TAILCALLNOARITY", "CALLGLOBALNOARITY", "CALLGLOBALTAILNOARITY"]

/-- One listing line → extended instruction (global slots remapped like in `toInstr`). -/
def toXI (rm : Remap) (l : Line) : Except String XI :=
  if (primOfText l.text).isSome && !xOps.contains l.op then .ok { op := l.op, p := l.payload, name := l.text }
  else if l.op == "SELFTAILCALLNOARITY" then .ok { op := "TCOJMP", p := l.payload, name := l.text }
  else if !xOps.contains l.op then .error l.op
  else if l.op == "PUSHCONST" then
    match readConst l.text with
    | some v => .ok { op := l.op, p := l.payload, k := v }
    | none => .error s!"PUSHCONST:{constKind l.text}"
  else if ["PUSH", "CALLGLOBAL", "CALLGLOBALTAIL", "CALLGLOBALNOARITY", "CALLGLOBALTAILNOARITY", "BIND", "SET"].contains l.op then
    .ok { op := l.op, p := rm.slot l.payload, name := l.text }
  else .ok { op := l.op, p := l.payload, name := l.text }

def xCodes (rm : Remap) (ls : List (List Line)) : Except (List String) (List (Array XI)) :=
  let rs := ls.map (fun l => l.map (toXI rm))
  let bad := rs.flatten.filterMap (fun r => match r with | .error e => some e | .ok _ => none)
  if bad.isEmpty then
    .ok (rs.map (fun l => (l.filterMap (fun r => match r with | .ok i => some i | .error _ => none)).toArray))
  else .error bad

def isTwoWordCall (op : String) : Bool :=
  op == "FUNC" || op == "FUNCNOARITY" || op == "TAILCALL" || op == "TAILCALLNOARITY"

def xStep (c : XCfg) : XRes :=
  let sp := spOfX c.frames
  let push (v : Val) : XRes := .next { c with ip := c.ip + 1, stack := c.stack.push v }
  match c.code[c.ip]? with
  | none => .unmod "bad:ip-out-of-range"
  | some ins =>
    match ins.op with
    | "PUSHCONST" => push ins.k
    | "LOADINT0" => push (.int 0)
    | "LOADINT1" => push (.int 1)
    | "LOADINT2" => push (.int 2)
    | "TRUE" => push (.bool true)
    | "FALSE" => push (.bool false)
    | "VOID" => push .void
    | "PUSH" =>
        match globalOf c.st ins.p ins.name with
        | .ok v => push v
        | .error (some why) => .unmod why
        | .error none => .err "free" (mkErr "free identifier") c
    | "READLOCAL" | "READLOCAL0" | "READLOCAL1" | "READLOCAL2" | "READLOCAL3" =>
        match c.stack[sp + ins.p]? with
        | some v => push v
        | none => .unmod "bad:local-out-of-range"
    | "MOVEREADLOCAL" | "MOVEREADLOCAL0" | "MOVEREADLOCAL1" | "MOVEREADLOCAL2" | "MOVEREADLOCAL3" =>
        match c.stack[sp + ins.p]? with
        | some v => .next { c with ip := c.ip + 1, stack := (c.stack.setIfInBounds (sp + ins.p) .void).push v }
        | none => .unmod "bad:local-out-of-range"
    | "READCAPTURED" =>
        match (capsOfX c.frames)[ins.p]? with
        | some v => push v
        | none => .unmod "bad:capture-out-of-range"
    | "SETLOCAL" =>
        match c.stack.back? with
        | none => .unmod "bad:empty-stack"
        | some v =>
          let s := c.stack.pop
          match s[sp + ins.p]? with
          | some old => .next { c with ip := c.ip + 1, stack := (s.setIfInBounds (sp + ins.p) v).push old }
          | none => .unmod "bad:local-out-of-range"
    | "IF" =>
        match c.stack.back? with
        | none => .unmod "bad:empty-stack"
        | some v =>
          if Base.truthy v then .next { c with ip := c.ip + 1, stack := c.stack.pop }
          else .next { c with ip := ins.p, stack := c.stack.pop }
    | "JMP" => .next { c with ip := ins.p }
    | "POPJMP" | "POPPURE" => xRet c
    | "PUREFUNC" =>
        match c.code[c.ip + 1]?, c.code[c.ip + ins.p]? with
        | some r, some e =>
            if ins.p < 3 || e.op != "ECLOSURE" then .unmod "bad:closure-header" else
            let k : XClo := { arity := e.p, rest := r.p == 1, code := c.code.extract (c.ip + 3) (c.ip + ins.p), caps := #[] }
            .next { c with ip := c.ip + ins.p + 1, stack := c.stack.push (mkClo c.st.clos.size),
                           st := { c.st with clos := c.st.clos.push k } }
        | _, _ => .unmod "bad:closure-header"
    | "NEWSCLOSURE" =>
        match c.code[c.ip + 1]?, c.code[c.ip + 3]?, c.code[c.ip + ins.p]? with
        | some r, some nd, some e =>
            if nd.op != "NDEFS" || e.op != "ECLOSURE" || ins.p < 4 + nd.p then .unmod "bad:closure-header" else
            let words := c.code.extract (c.ip + 4) (c.ip + 4 + nd.p)
            let caps? := words.toList.mapM (fun w =>
              if w.op == "COPYCAPTURESTACK" then c.stack[sp + w.p]?
              else if w.op == "COPYCAPTURECLOSURE" then (capsOfX c.frames)[w.p]? else none)
            match caps? with
            | none => .unmod "bad:capture-word"
            | some caps =>
              let k : XClo := { arity := e.p, rest := r.p == 1,
                                code := c.code.extract (c.ip + 4 + nd.p) (c.ip + ins.p), caps := caps.toArray }
              .next { c with ip := c.ip + ins.p + 1, stack := c.stack.push (mkClo c.st.clos.size),
                             st := { c.st with clos := c.st.clos.push k } }
        | _, _, _ => .unmod "bad:closure-header"
    | "NEWBOX" =>
        match c.stack.back? with
        | none => .unmod "bad:empty-stack"
        | some v =>
          let bst := c.st.bst
          .next { c with ip := c.ip + 2, stack := c.stack.pop.push (.box bst.store.size),
                         st := { c.st with bst := { bst with store := bst.store.push v } } }
    | "UNBOX" =>
        match c.stack.back? with
        | some (.box l) =>
            match c.st.bst.store[l]? with
            | some v => .next { c with ip := c.ip + 2, stack := c.stack.pop.push v }
            | none => .unmod "bad:box"
        | some _ => .err "type" (mkErr "type mismatch in unbox") c
        | none => .unmod "bad:empty-stack"
    | "SETBOX" =>
        if c.stack.size < 2 then .unmod "bad:empty-stack" else
        match c.stack[c.stack.size - 2]!, c.stack.back! with
        | .box l, v =>
            let bst := c.st.bst
            match bst.store[l]? with
            | some old =>
                .next { c with ip := c.ip + 2, stack := c.stack.pop.pop.push old,
                               st := { c.st with bst := { bst with store := bst.store.setIfInBounds l v } } }
            | none => .unmod "bad:box"
        | _, _ => .err "type" (mkErr "type mismatch in set-box!") c
    | "FUNC" | "FUNCNOARITY" =>
        match c.stack.back? with
        | none => .unmod "bad:empty-stack"
        | some f => callV c c.stack.pop f ins.p (c.ip + 1) false false
    | "TAILCALL" | "TAILCALLNOARITY" =>
        match c.stack.back? with
        | none => .unmod "bad:empty-stack"
        | some f => callV c c.stack.pop f ins.p (c.ip + 1) true false
    | "CALLGLOBAL" | "CALLGLOBALNOARITY" =>
        match globalOf c.st ins.p ins.name, c.code[c.ip + 1]? with
        | .ok f, some w => if isTwoWordCall w.op then callV c c.stack f w.p (c.ip + 2) false false else .unmod "bad:call-word"
        | .error (some why), _ => .unmod why
        | .error none, _ => .err "free" (mkErr "free identifier") c
        | _, none => .unmod "bad:call-word"
    | "CALLGLOBALTAIL" | "CALLGLOBALTAILNOARITY" =>
        match globalOf c.st ins.p ins.name, c.code[c.ip + 1]? with
        | .ok f, some w => if isTwoWordCall w.op then callV c c.stack f w.p (c.ip + 2) true true else .unmod "bad:call-word"
        | .error (some why), _ => .unmod why
        | .error none, _ => .err "free" (mkErr "free identifier") c
        | _, none => .unmod "bad:call-word"
    | "TCOJMP" =>
        match c.frames with
        | [] => .unmod "bad:tcojmp-at-top-level"
        | fr :: _ =>
          if c.stack.size < ins.p then .unmod "bad:stack-underflow" else
          let args := c.stack.extract (c.stack.size - ins.p) c.stack.size
          match xBindArgs fr.arity fr.rest args with
          | some locals => .next { c with ip := 0, stack := (c.stack.extract 0 fr.sp) ++ locals }
          | none => arityErr c
    | "POPSINGLE" => .next { c with ip := c.ip + 1, stack := c.stack.pop }
    | "BEGINSCOPE" | "LetVar" | "SDEF" | "EDEF" | "PASS" => .next { c with ip := c.ip + 1 }
    | "LETENDSCOPE" =>
        match c.stack.back? with
        | none => .unmod "bad:empty-stack"
        | some v =>
          if c.stack.size ≤ sp + ins.p then .unmod "bad:scope" else
          .next { c with ip := c.ip + 1, stack := (c.stack.extract 0 (sp + ins.p)).push v }
    | "BIND" =>
        match c.stack.back? with
        | none => .unmod "bad:empty-stack"
        | some v =>
          .next { c with ip := c.ip + 1, stack := c.stack.pop,
                         st := { c.st with globals := (ins.p, v) :: c.st.globals } }
    | "SET" =>
        match c.stack.back?, globalOf c.st ins.p ins.name with
        | some v, .ok old =>
            .next { c with ip := c.ip + 1, stack := c.stack.pop.push old,
                           st := { c.st with globals := (ins.p, v) :: c.st.globals } }
        | some _, .error (some why) => .unmod why
        | some _, .error none => .err "free" (mkErr "free identifier") c
        | none, _ => .unmod "bad:empty-stack"
    | other =>
        -- a specialised op code (ADD, SUB, MUL, NUMEQUAL, LTE, CAR, CONS, LIST, NULL, NOT, CALLPRIMITIVE, …): its text
        -- column names the built-in it stands for, the next word (PASS n / FUNC n / TAILCALL n) carries the operand
        -- count: it IS the call of that built-in
        match primOfText ins.name, c.code[c.ip + 1]? with
        | some nm, some w =>
            let tail := other.endsWith "TAIL" || w.op == "TAILCALL"
            callV c c.stack (if nm == "void" then .void else .prim nm) w.p (c.ip + 2) tail tail
        | _, _ => .unmod s!"bad:dispatch:{other}"

inductive XOut where
  | ok (v : Val) (st : XSt)
  | err (kind : String) (st : XSt)
  | timeout
  | unmod (why : String)

/-- Run one top-level instruction sequence; an error goes to the innermost handler mark, if any. -/
def xRun : Nat → XCfg → XOut
  | 0, _ => .timeout
  | fuel + 1, c =>
    match xStep c with
    | .next c' => xRun fuel c'
    | .halt v st => .ok v st
    | .unmod why => .unmod why
    | .err kind payload ce =>
      match dropToHandler ce.frames with
      | none => .err kind ce.st
      | some (h, fr, rest) =>
        match (cloIdx? h).bind (ce.st.clos[·]?) with
        | none => .unmod "handler-non-closure"
        | some k =>
          match enterClo { ce with frames := fr :: rest } (ce.stack.extract 0 fr.sp) k #[payload] 0 true with
          | .next c' => xRun fuel c'
          | _ => .err kind ce.st

def xInitSt (prims : List (Nat × String)) : XSt :=
  { bst := {}, globals := [], clos := #[], limit := ((prims.find? (·.2 == "#builtins")).map (·.1)).getD 0 }

structure XProgRes where
  line : String          -- `ok v…` | `err kind` | `timeout` | `- reason`
  out : String
  st : Option XSt

def xRunProgram (fuel : Nat) (codes : List (Array XI)) (st : XSt) : XProgRes :=
  let out0 := st.bst.out.length
  let newOut (s : XSt) : String := String.join ((s.bst.out.take (s.bst.out.length - out0)).reverse)
  let rec go (cs : List (Array XI)) (st : XSt) (vals : List String) : XProgRes :=
    match cs with
    | [] => { line := "ok " ++ "\u001f".intercalate vals, out := newOut st, st := some st }
    | code :: rest =>
      match xRun fuel { code := code, ip := 0, stack := #[], frames := [], st := st } with
      | .ok v st' => go rest st' (vals ++ [showVal st'.bst.store true v])
      | .err kind st' => { line := "err " ++ kind, out := newOut st', st := none }
      | .timeout => { line := "timeout", out := "", st := none }
      | .unmod why => { line := "- " ++ why, out := "", st := none }
  go codes st []

end SteelVerif.C01BC
