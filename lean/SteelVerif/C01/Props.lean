/-
C01 — property theorems: compiled execution agrees with the reference semantics (fragment: integers,
booleans, locals, let, if, begin, set! of locals, binary primitives, calls of global first-order procedures).

`evalIR` is the reference semantics of the lowered core; `compile` the code generator; `runVM` the VM.
All theorems hold for every program of the fragment, every call depth and every stack contents.
-/
import SteelVerif.C01.Correct
import SteelVerif.C01.PropsCore
import SteelVerif.C01.PropsTie
namespace SteelVerif.C01

theorem runVM_of_steps (fns : List FnDef) : ∀ (n m : Nat) (a b : VM) (v : Val),
    stepsVM fns n a = some b → runVM fns m b = some v → runVM fns (n + m) a = some v := by
  intro n
  induction n with
  | zero => intro m a b v h1 h2; simp [stepsVM] at h1; subst h1; simpa using h2
  | succ n ih =>
    intro m a b v h1 h2
    rw [Nat.add_right_comm]
    simp only [stepsVM] at h1
    simp only [runVM]
    cases hs : stepVM fns a with
    | next vm' => rw [hs] at h1; exact ih m vm' b v h1 h2
    | halt v => rw [hs] at h1; cases h1
    | stuck => rw [hs] at h1; cases h1

/-- The initial VM state of a program whose main expression is `e`. -/
def initVM (e : IR) : VM := { cur := { code := compile e ++ [.ret], ip := 0, stack := [] }, frames := [] }

/-- **Code generator + VM refine the reference semantics.**  If the reference semantics gives the main
expression the value `v` (with any number of nested and recursive procedure calls), the VM running the
generated code halts with `v`. -/
theorem compile_correct (fns : List FnDef) (fuel : Nat) (e : IR) (v : Val) (s' : List Val)
    (h : evalIR fns fuel e [] = some (v, s')) : ∃ fuel', runVM fns fuel' (initVM e) = some v := by
  obtain ⟨n, hn⟩ := compile_correct_aux fns fuel e [] v s' h [] [.ret] []
  refine ⟨n + 1, ?_⟩
  apply runVM_of_steps fns n 1 _ _ v (by simpa [initVM, at_] using hn)
  simp [runVM, stepVM, at_]

/-- The same inside any procedure frame and any enclosing code: the frame's stack afterwards is the one the
reference semantics prescribes, with the value on top, and the suspended callers are untouched. -/
theorem compile_correct_in_context (fns : List FnDef) (fuel : Nat) (e : IR) (s s' : List Val) (v : Val)
    (h : evalIR fns fuel e s = some (v, s')) (pre post : List Instr) (frames : List Frame) :
    Exec fns (at_ pre (compile e) post 0 s frames)
      (at_ pre (compile e) post (compile e).length (s' ++ [v]) frames) :=
  compile_correct_aux fns fuel e s v s' h pre post frames

/-- **A variable evaluates to the value most recently assigned to it** (locals): reading a slot right
after `set!` yields the assigned value, and `set!` itself yields the previous one. -/
theorem read_after_write (fns : List FnDef) (fuel : Nat) (i : Nat) (e : IR) (s s1 : List Val) (v old : Val)
    (he : evalIR fns fuel e s = some (v, s1)) (hi : s1[i]? = some old) :
    evalIR fns fuel (.setLoc i e) s = some (old, s1.set i v) ∧
    evalIR fns fuel (.seq (.setLoc i e) (.loc i)) s = some (v, s1.set i v) := by
  have hlen : i < s1.length := by
    rcases Nat.lt_or_ge i s1.length with h | h
    · exact h
    · simp [List.getElem?_eq_none h] at hi
  constructor
  · simp [evalIR, he, hi]
  · simp [evalIR, he, hi, hlen]

/-- **Code that is never executed never raises**: the branch that is not selected does not influence
the result — whatever it is (it may be code that would be stuck or fail). -/
theorem dead_branch_irrelevant (fns : List FnDef) (fuel : Nat) (c t e e' : IR) (s s1 : List Val) (vc : Val)
    (hc : evalIR fns fuel c s = some (vc, s1)) :
    (truthy vc = true → evalIR fns fuel (.ite c t e) s = evalIR fns fuel (.ite c t e') s) ∧
    (truthy vc = false → evalIR fns fuel (.ite c t e) s = evalIR fns fuel (.ite c e' e) s) := by
  constructor
  · intro ht; simp [evalIR, hc, ht]
  · intro ht; simp [evalIR, hc, ht]

/-- … and the compiled program never enters the dead branch's code in a way that matters: the VM still
halts with the value of the live branch. -/
theorem dead_branch_vm (fns : List FnDef) (fuel : Nat) (c t dead : IR) (vc v : Val) (s1 s2 : List Val)
    (hc : evalIR fns fuel c [] = some (vc, s1)) (ht : truthy vc = true)
    (hv : evalIR fns fuel t s1 = some (v, s2)) :
    ∃ fuel', runVM fns fuel' (initVM (.ite c t dead)) = some v :=
  compile_correct fns fuel (.ite c t dead) v s2 (by simp [evalIR, hc, ht, hv])

/-! ## Every call receives exactly the arguments written at the call site -/

theorem length_aux (fns : List FnDef) (fuel : Nat) (e : IR) (s : List Val) :
    ∀ v s', evalIR fns fuel e s = some (v, s') → s'.length = s.length := by
  induction fuel, e, s using evalIR.induct (fns := fns)
    (motive2 := fun fuel args s => ∀ s1, evalArgs fns fuel args s = some s1 → s1.length = s.length + args.length) with
  | case1 fuel v s => intro v' s' h; simp [evalIR] at h; rw [h.2]
  | case2 fuel i s => intro v' s' h; simp [evalIR] at h; obtain ⟨_, _, _, rfl⟩ := h; rfl
  | case3 fuel op a b s ha _ => intro v s' h; simp [evalIR, ha] at h
  | case4 fuel op a b s va s1 ha hb _ _ => intro v s' h; simp [evalIR, ha, hb] at h
  | case5 fuel op a b s va s1 ha vb s2 hb hl _ _ => intro v s' h; simp [evalIR, ha, hb, hl] at h
  | case6 fuel op a b s va s1 ha vb s2 hb va' hl iha ihb =>
    intro v s' h
    simp only [evalIR, ha, hb, hl, Option.map_eq_some_iff, Prod.mk.injEq] at h
    obtain ⟨r, _, _, rfl⟩ := h
    have := iha va s1 ha
    have := ihb vb s2 hb
    simp at *; omega
  | case7 fuel c t e s hc _ => intro v s' h; simp [evalIR, hc] at h
  | case8 fuel c t e s vc s1 hc ht ihc iht =>
    intro v s' h; simp only [evalIR, hc, ht, if_true] at h
    have := ihc vc s1 hc; have := iht v s' h; omega
  | case9 fuel c t e s vc s1 hc ht ihc ihe =>
    intro v s' h
    have ht' : truthy vc = false := by simpa using ht
    simp only [evalIR, hc, ht', Bool.false_eq_true, if_false] at h
    have := ihc vc s1 hc; have := ihe v s' h; omega
  | case10 fuel e body s he _ => intro v s' h; simp [evalIR, he] at h
  | case11 fuel e body s ve s1 he hb _ _ => intro v s' h; simp [evalIR, he, hb] at h
  | case12 fuel e body s ve s1 he vb s2 hb ihe ihb =>
    intro v s' h
    simp only [evalIR, he, hb, Option.some.injEq, Prod.mk.injEq] at h
    obtain ⟨_, rfl⟩ := h
    have := ihe ve s1 he; have := ihb vb s2 hb
    simp at *; omega
  | case13 fuel a b s ha _ => intro v s' h; simp [evalIR, ha] at h
  | case14 fuel a b s va s1 ha iha ihb =>
    intro v s' h; simp only [evalIR, ha] at h
    have := iha va s1 ha; have := ihb v s' h; omega
  | case15 fuel i e s he _ => intro v s' h; simp [evalIR, he] at h
  | case16 fuel i e s ve s1 he hi _ => intro v s' h; simp [evalIR, he, hi] at h
  | case17 fuel i e s ve s1 he old hi ihe =>
    intro v s' h
    simp only [evalIR, he, hi, Option.some.injEq, Prod.mk.injEq] at h
    obtain ⟨_, rfl⟩ := h
    have := ihe ve s1 he; simp; omega
  | case18 f args s => intro v s' h; simp [evalIR] at h
  | case19 fuel f args s ha _ => intro v s' h; simp [evalIR, ha] at h
  | case20 fuel f args s s1 ha hf _ => intro v s' h; simp [evalIR, ha, hf] at h
  | case21 fuel f args s s1 ha fd hf hbad _ => intro v s' h; simp [evalIR, ha, hf, hbad] at h
  | case22 fuel f args s s1 ha fd hf hok hb _ _ => intro v s' h; simp [evalIR, ha, hf, hok, hb] at h
  | case23 fuel f args s s1 ha fd hf hok vb s2 hb iha ihb =>
    intro v s' h
    simp only [evalIR, ha, hf, hok, hb, if_false, Option.some.injEq, Prod.mk.injEq] at h
    obtain ⟨_, rfl⟩ := h
    have := iha s1 ha
    simp; omega
  | case24 fuel s => rename_i s1 h; simp [evalArgs] at h; subst h; simp
  | case25 fuel a rest s ha _ => rename_i s1 h; simp [evalArgs, ha] at h
  | case26 fuel a rest s va s1 ha iha ihr =>
    rename_i s2 h
    simp only [evalArgs, ha] at h
    have := iha va s1 ha; have := ihr s2 h
    simp at *; omega

/-- Evaluation never changes the height of the frame (temporaries are balanced). -/
theorem eval_preserves_height (fns : List FnDef) (fuel : Nat) (e : IR) (s s' : List Val) (v : Val)
    (h : evalIR fns fuel e s = some (v, s')) : s'.length = s.length := length_aux fns fuel e s v s' h

/-- A call succeeds only if the callee exists and its arity is exactly the number of operands written at
the call site; otherwise the evaluation is an error (`none`), never a call with other arguments. -/
theorem call_arity_exact (fns : List FnDef) (fuel : Nat) (f : Nat) (args : List IR) (s : List Val)
    (r : Val × List Val) (h : evalIR fns (fuel + 1) (.call f args) s = some r) :
    ∃ fd, fns[f]? = some fd ∧ fd.arity = args.length := by
  simp only [evalIR] at h
  cases ha : evalArgs fns (fuel + 1) args s with
  | none => simp [ha] at h
  | some s1 =>
    simp only [ha] at h
    cases hf : fns[f]? with
    | none => simp [hf] at h
    | some fd =>
      simp only [hf] at h
      by_cases hb : fd.arity ≠ args.length ∨ s1.length < args.length
      · simp [hb] at h
      · exact ⟨fd, rfl, by omega⟩

/-- The callee's frame consists of exactly the values of the operands, in the order they are written:
constant operands `v₁ … vₙ` give the callee the frame `[v₁, …, vₙ]`. -/
theorem call_args_exact (fns : List FnDef) (fuel : Nat) (f : Nat) (vs : List Val) (s : List Val) (fd : FnDef)
    (hf : fns[f]? = some fd) (ha : fd.arity = vs.length) :
    evalIR fns (fuel + 1) (.call f (vs.map IR.const)) s =
      (evalIR fns fuel fd.body vs).map (fun r => (r.1, s)) := by
  have hargs : ∀ (vs : List Val) (s : List Val), evalArgs fns (fuel + 1) (vs.map IR.const) s = some (s ++ vs) := by
    intro vs
    induction vs with
    | nil => intro s; simp [evalArgs]
    | cons v rest ih => intro s; simp [evalArgs, evalIR, ih]
  simp only [evalIR, hargs, hf, List.length_map, List.length_append]
  have : ¬ (fd.arity ≠ vs.length ∨ s.length + vs.length < vs.length) := by omega
  simp only [this, if_false]
  have h1 : (s ++ vs).drop (s.length + vs.length - vs.length) = vs := by simp
  have h2 : (s ++ vs).take (s.length + vs.length - vs.length) = s := by simp
  rw [h1, h2]
  cases evalIR fns fuel fd.body vs <;> rfl

/-! ## Non-vacuity -/

/-- `(define (f n acc) (if (<= n 0) acc (f (- n 1) (+ acc n))))`, `(f 4 0)` evaluates to 10 in the
reference semantics, and the VM agrees. -/
def sumFn : FnDef :=
  { arity := 2,
    body := .ite (.prim .le (.loc 0) (.const (.int 0))) (.loc 1)
              (.call 0 [.prim .sub (.loc 0) (.const (.int 1)), .prim .add (.loc 1) (.loc 0)]) }

example : evalIR [sumFn] 10 (.call 0 [.const (.int 2), .const (.int 0)]) [] = some (.int 3, []) := by
  simp [evalIR, evalArgs, sumFn, Op.apply, truthy]
example : runVM [sumFn] 200 (initVM (.call 0 [.const (.int 4), .const (.int 0)])) = some (.int 10) := by decide

end SteelVerif.C01
