/-
C01 stage 2 — property theorems for the core WITH CLOSURES (`Core.lean`): lambda with captures from the stack and
from the enclosing closure, rest arguments, computed / global / self-tail calls, `if`, `let`, `begin`, `set!` of
locals and globals, `define`, the box primitives of captured + assigned variables, with the REAL op codes on ONE
shared operand stack.

`evalC` = reference semantics (environments, closure values, store, globals); `compile` = code generator;
`step`/`run` = the VM; `toV` = value correspondence (a closure value of the semantics, holding a body expression
and captured values, corresponds to the VM closure holding `bodyCode body` and the corresponding captured values).

All theorems hold for every program, every fuel, every initial store and global table, every stack below the frame.
-/
import SteelVerif.C01.CoreSimCall
import SteelVerif.C01.CoreErr
namespace SteelVerif.C01C

/-! ## Compiled execution agrees with the reference semantics -/

/-- **Full statement, all constructs.**  If the reference semantics gives the top-level expression `e` the value `v`
and the final store/globals `σ'`, the VM running `compileTop e` from the corresponding store/globals halts with the
corresponding value and the corresponding store/globals. -/
theorem compile_correct_core (fuel : Nat) (e : Core) (σ σ' : St Core) (v : Val)
    (h : evalTop fuel e σ = .ok (v, σ')) :
    ∃ n, run n (initCfg (compileTop e) (toSt σ)) = .ok (toV v, toSt σ') := by
  unfold evalTop at h
  cases he : evalC fuel none false e [] [] σ with
  | err k => simp [he, Res.map] at h
  | timeout => simp [he, Res.map] at h
  | ok r =>
    obtain ⟨v', env', σ''⟩ := r
    simp only [he, Res.map, Res.ok.injEq, Prod.mk.injEq] at h
    obtain ⟨rfl, rfl⟩ := h
    obtain ⟨c, ⟨n, hn⟩, hp⟩ := (sim_all fuel).1 e none false [] [] σ v' env' σ'' he 0 0 [] [.POPPURE] [] [] rfl
      ⟨rfl, rfl, by intro a r b hh; cases hh⟩ (by simp)
    rw [hp.exact] at hn
    refine ⟨n + 1, ?_⟩
    apply run_of_steps n 1 _ _ _ (by simpa [initCfg, compileTop, at_] using hn)
    have hc : (compile false 0 0 e ++ [Instr.POPPURE])[clen e]? = some .POPPURE := gh (by simp)
    simp [at_, run, step, hc, doRet]

/-- The same inside any frame, at any position of any function body, in or out of tail position, on a shared stack
whose part `base` below the frame is arbitrary: the VM reaches the end of the code of `e` with the frame's slots
as the semantics prescribes and the value on top — or (tail position only) has returned it to the frame's caller. -/
theorem compile_correct_core_in_context (fuel : Nat) (self : Self) (tail : Bool) (e : Core) (env caps : List Val)
    (σ σ' : St Core) (v : Val) (env' : List Val)
    (h : evalC fuel self tail e env caps σ = .ok (v, env', σ'))
    (fin : Nat) (pre post : List Instr) (base : List VVal) (frames : List Frame)
    (hctx : Ctx self caps (pre ++ compile tail pre.length fin e ++ post) base frames)
    (ht : tail = true → frames ≠ []) :
    ∃ c, Exec (at_ pre (compile tail pre.length fin e) post 0 (base ++ env.map toV) frames (toSt σ)) c ∧
      PostAt tail pre (compile tail pre.length fin e) post (clen e) base frames v env' σ' c :=
  (sim_all fuel).1 e self tail env caps σ v env' σ' h fin pre.length pre post base frames rfl hctx ht

/-! ### Whole programs: a sequence of top-level expressions on one state -/

theorem run_mono : ∀ (n m : Nat) (c : Cfg) (r : VVal × St (List Instr)), run n c = .ok r → run (n + m) c = .ok r := by
  intro n
  induction n with
  | zero => intro m c r h; simp [run] at h
  | succ n ih =>
    intro m c r h
    rw [Nat.add_right_comm]
    simp only [run] at h ⊢
    cases hs : step c with
    | next c' => rw [hs] at h; simp only; exact ih m c' r h
    | halt v st => rw [hs] at h; simpa using h
    | err e => rw [hs] at h; cases h

theorem runProgram_mono : ∀ (codes : List (List Instr)) (n m : Nat) (st : St (List Instr))
    (r : List VVal × St (List Instr)), runProgram n codes st = .ok r → runProgram (n + m) codes st = .ok r := by
  intro codes
  induction codes with
  | nil => intro n m st r h; simpa [runProgram] using h
  | cons code rest ih =>
    intro n m st r h
    simp only [runProgram] at h ⊢
    cases h1 : run n (initCfg code st) with
    | err k => simp [h1] at h
    | timeout => simp [h1] at h
    | ok p =>
      obtain ⟨v, st1⟩ := p
      simp only [h1] at h
      rw [run_mono n m _ _ h1]
      simp only
      cases h2 : runProgram n rest st1 with
      | err k => simp [h2, Res.map] at h
      | timeout => simp [h2, Res.map] at h
      | ok q =>
        rw [ih n m st1 q h2]
        simpa [h2] using h

/-- **Programs.**  A sequence of top-level expressions (definitions, assignments of globals, calls) evaluated one after
the other on the same store and global table: the VM running the compiled sequences yields the corresponding values and
the corresponding final state. -/
theorem compile_correct_program (fuel : Nat) : ∀ (es : List Core) (σ σ' : St Core) (vs : List Val),
    evalProgram fuel es σ = .ok (vs, σ') →
    ∃ n, runProgram n (es.map compileTop) (toSt σ) = .ok (vs.map toV, toSt σ') := by
  intro es
  induction es with
  | nil =>
    intro σ σ' vs h
    simp only [evalProgram, Res.ok.injEq, Prod.mk.injEq] at h
    obtain ⟨rfl, rfl⟩ := h
    exact ⟨0, by simp [runProgram]⟩
  | cons e rest ih =>
    intro σ σ' vs h
    simp only [evalProgram] at h
    cases h1 : evalTop fuel e σ with
    | err k => simp [h1] at h
    | timeout => simp [h1] at h
    | ok p =>
      obtain ⟨v, σ1⟩ := p
      simp only [h1] at h
      cases h2 : evalProgram fuel rest σ1 with
      | err k => simp [h2, Res.map] at h
      | timeout => simp [h2, Res.map] at h
      | ok q =>
        obtain ⟨vs', σ2⟩ := q
        simp only [h2, Res.map, Res.ok.injEq, Prod.mk.injEq] at h
        obtain ⟨rfl, rfl⟩ := h
        obtain ⟨n1, hn1⟩ := compile_correct_core fuel e σ σ1 v h1
        obtain ⟨n2, hn2⟩ := ih σ1 σ2 vs' h2
        refine ⟨n1 + n2, ?_⟩
        have hr := runProgram_mono _ n2 n1 _ _ hn2
        rw [Nat.add_comm] at hr
        simp only [List.map_cons, runProgram, run_mono n1 n2 _ _ hn1, hr, Res.map]

/-! ## Captured + assigned variables are shared by reference (the box discipline) -/

/-- The store after `(#%set-box! b v)` holds `v` in `b` (any value representation: semantics and VM). -/
theorem setbox_then_unbox {α : Type} (a : Nat) (vnew old : V α) (σ σ' : St α)
    (hset : BoxOp.apply .set [.box a, vnew] σ = .ok (old, σ')) :
    BoxOp.apply .get [.box a] σ' = .ok (vnew, σ') := by
  simp only [BoxOp.apply] at hset
  cases ho : σ.store[a]? with
  | none => simp [ho] at hset
  | some o =>
    simp only [ho, Res.ok.injEq, Prod.mk.injEq] at hset
    obtain ⟨_, rfl⟩ := hset
    have hlt : a < σ.store.length := by
      rcases Nat.lt_or_ge a σ.store.length with h1 | h1
      · exact h1
      · simp [List.getElem?_eq_none h1] at ho
    simp [BoxOp.apply, hlt]

/-- **After a closure assigns a captured variable, every other closure that captured the same variable, and the
defining scope, read the new value.**  The variable lives in box `a`; one closure executes `(#%set-box! · vnew)` on it
(`hset`).  Then, in the resulting state, for EVERY closure whose capture `j` is that box, `(#%unbox (captured j))`
yields `vnew`; for every frame that holds the box in a local slot `k` (the defining scope), `(#%unbox (local k))`
yields `vnew`; and in the VM, for every closure whose capture `j` is that box, `READCAPTURED j; UNBOX` pushes the
corresponding value. -/
theorem closure_captures_by_reference (a : Nat) (vnew old : Val) (σ σ' : St Core)
    (hset : BoxOp.apply .set [.box a, vnew] σ = .ok (old, σ')) :
    (∀ (self : Self) (tail : Bool) (env caps : List Val) (j n : Nat), caps[j]? = some (.box a) →
      evalC (n + 3) self tail (.boxop .get [.cap j]) env caps σ' = .ok (vnew, env, σ')) ∧
    (∀ (self : Self) (tail : Bool) (env caps : List Val) (k n : Nat), env[k]? = some (.box a) →
      evalC (n + 3) self tail (.boxop .get [.loc k false]) env caps σ' = .ok (vnew, env, σ')) ∧
    (∀ (c : Cfg) (j w : Nat), c.code[c.ip]? = some (.READCAPTURED j) → c.code[c.ip + 1]? = some .UNBOX →
      (capsOf c.frames)[j]? = some (.box a) → c.st = toSt σ' →
      steps 2 c = some { c with ip := c.ip + 1 + 2, stack := c.stack ++ [toV vnew] }) := by
  have hget := setbox_then_unbox a vnew old σ σ' hset
  refine ⟨?_, ?_, ?_⟩
  · intro self tail env caps j n hj
    have hsl : splitLast 1 (env ++ [V.box a]) = some (env, [V.box a]) := splitLast_append 1 env [.box a] rfl
    simp [evalC, evalArgs, hj, BoxOp.arity, hsl, hget]
  · intro self tail env caps k n hk
    have hsl : splitLast 1 (env ++ [V.box a]) = some (env, [V.box a]) := splitLast_append 1 env [.box a] rfl
    simp [evalC, evalArgs, hk, BoxOp.arity, hsl, hget]
  · intro c j w hi hi2 hj hst
    have hget' : BoxOp.apply .get [(.box a : VVal)] (toSt σ') = .ok (toV vnew, toSt σ') := by
      have := BoxOp.apply_map .get [.box a] σ'
      simpa [hget, Res.map] using this
    have hsl : splitLast 1 (c.stack ++ [V.box a]) = some (c.stack, [(V.box a : VVal)]) :=
      splitLast_append 1 c.stack [.box a] rfl
    simp [steps, step, hi, hi2, hj, hst, BoxOp.arity, hsl, hget']

/-! ## Every call receives exactly the arguments written at the call site (computed callee) -/

/-- `FUNC n` on a computed callee: the callee is the closure on top of the stack, the `n` operands are below it.  With
the right number of operands the VM enters the callee's code with a new frame whose locals (the stack from the
frame's `sp`) are EXACTLY the operand values, in order, and everything below is untouched; with any other number of
operands the outcome is the error `arity` (never a call with other arguments).  With a rest parameter the last local
is the list of the surplus operands. -/
theorem call_args_exact_core (c : Cfg) (n a : Nat) (r : Bool) (below args : List VVal) (body : List Instr)
    (caps : List VVal) (hi : c.code[c.ip]? = some (.FUNC n))
    (hs : c.stack = below ++ args ++ [.clo a r body caps]) (hn : args.length = n) :
    (r = false → a = n →
      ∃ c', step c = .next c' ∧ c'.code = body ∧ c'.ip = 0 ∧ c'.stack = below ++ args ∧
        c'.stack.drop (spOf c'.frames) = args ∧ c'.frames.length = c.frames.length + 1 ∧
        capsOf c'.frames = caps) ∧
    (r = false → a ≠ n → step c = .err .arity) ∧
    (r = true → a - 1 ≤ n →
      ∃ c', step c = .next c' ∧ c'.code = body ∧
        c'.stack.drop (spOf c'.frames) = args.take (a - 1) ++ [.list (args.drop (a - 1))]) ∧
    (r = true → n < a - 1 → step c = .err .arity) := by
  have hsl := splitLast_append n below args hn
  refine ⟨?_, ?_, ?_, ?_⟩
  · intro hr ha
    subst hr
    have hb : bindArgs a false args = .ok args := by simp [bindArgs, hn, ha]
    refine ⟨_, by simp [step, hi, hs, callFn, hsl, hb]; rfl, rfl, rfl, rfl, ?_, by simp, by simp [capsOf]⟩
    simp [spOf]
  · intro hr ha
    subst hr
    have hb : bindArgs a false args = .err .arity := by
      simp [bindArgs, hn]; omega
    simp [step, hi, hs, callFn, hsl, hb]
  · intro hr ha
    subst hr
    have hb : bindArgs a true args = .ok (args.take (a - 1) ++ [.list (args.drop (a - 1))]) := by
      have : ¬ (args.length < a - 1) := by omega
      simp [bindArgs, this]
    refine ⟨_, by simp [step, hi, hs, callFn, hsl, hb]; rfl, rfl, ?_⟩
    simp [spOf]
  · intro hr ha
    subst hr
    have hb : bindArgs a true args = .err .arity := by
      have : args.length < a - 1 := by omega
      simp [bindArgs, this]
    simp [step, hi, hs, callFn, hsl, hb]

/-- The reference semantics agrees: applying a closure with `a` parameters to `a` operand values evaluates its body
in the environment that consists of exactly these values. -/
theorem apply_args_exact (ev : Self → Core → List Val → List Val → St Core → Res (Val × List Val × St Core))
    (a : Nat) (body : Core) (cc argv : List Val) (σ : St Core) (h : argv.length = a) :
    applyWith ev (.clo a false body cc) argv σ =
      (ev (some (a, false, body)) body argv cc σ).map (fun r => (r.1, r.2.2)) := by
  simp only [applyWith, bindArgs, h, if_true, Bool.false_eq_true, if_false]
  cases ev (some (a, false, body)) body argv cc σ <;> simp [Res.map]

/-! ## Tail calls reuse the frame (extends C09 to computed callees and real op codes) -/

/-- Executing `TAILCALL n` (callee = whatever value is on top of the stack: a variable, a captured variable, the
result of a call, …) or `TCOJMP n` never changes the number of frames nor the frame's base `sp`. -/
theorem tail_call_constant_frames (c c' : Cfg) (n : Nat)
    (hi : c.code[c.ip]? = some (.TAILCALL n) ∨ c.code[c.ip]? = some (.TCOJMP n))
    (hs : step c = .next c') :
    c'.frames.length = c.frames.length ∧ spOf c'.frames = spOf c.frames := by
  rcases hi with hi | hi
  · simp only [step, hi] at hs
    cases hl : c.stack.getLast? with
    | none => simp [hl] at hs
    | some f =>
      simp only [hl, tailFn] at hs
      cases hsp : splitLast n c.stack.dropLast with
      | none => simp [hsp] at hs
      | some p =>
        obtain ⟨below, args⟩ := p
        simp only [hsp] at hs
        cases f with
        | prim p =>
          simp only at hs
          cases hp : p.apply args with
          | ok r => simp [hp] at hs; subst hs; simp
          | err e => simp [hp] at hs
          | timeout => simp [hp] at hs
        | clo a r body caps =>
          simp only at hs
          cases hb : bindArgs a r args with
          | ok locals =>
            simp only [hb] at hs
            cases hf : c.frames with
            | nil => simp [hf] at hs
            | cons fr rest =>
              simp only [hf] at hs
              split at hs
              · cases hs
              · simp only [StepRes.next.injEq] at hs; subst hs; simp [spOf]
          | err e => simp [hb] at hs
          | timeout => simp [hb] at hs
        | int _ => simp at hs
        | bool _ => simp at hs
        | void => simp at hs
        | box _ => simp at hs
        | list _ => simp at hs
  · simp only [step, hi] at hs
    cases hf : c.frames with
    | nil => simp [hf] at hs
    | cons fr rest =>
      simp only [hf] at hs
      cases hsp : splitLast n c.stack with
      | none => simp [hsp] at hs
      | some p =>
        obtain ⟨below, args⟩ := p
        simp only [hsp] at hs
        cases hb : bindArgs fr.arity fr.rest args with
        | ok locals =>
          simp only [hb] at hs
          split at hs
          · cases hs
          · simp only [StepRes.next.injEq] at hs; subst hs; simp [hf]
        | err e => simp [hb] at hs
        | timeout => simp [hb] at hs

/-- … and the stack height at the entry of the callee is `sp + arity`, whatever the caller had accumulated in its
frame (`junk`: locals, let-bound variables, temporaries): the operands are moved down to the frame's base. -/
theorem tail_call_stack_height (c : Cfg) (n a : Nat) (base junk args : List VVal) (body : List Instr)
    (caps : List VVal) (f : Frame) (rest : List Frame)
    (hi : c.code[c.ip]? = some (.TAILCALL n)) (hs : c.stack = base ++ junk ++ args ++ [.clo a false body caps])
    (hf : c.frames = f :: rest) (hsp : f.sp = base.length) (hn : args.length = n) (ha : a = n) :
    ∃ c', step c = .next c' ∧ c'.code = body ∧ c'.ip = 0 ∧ c'.stack = base ++ args ∧
      c'.stack.length = spOf c'.frames + a ∧ c'.frames.length = c.frames.length := by
  have hsl := splitLast_append3 n base junk args hn
  have hb : bindArgs a false args = .ok args := by simp [bindArgs, hn, ha]
  have hlt : ¬ (base.length + junk.length < base.length) := by omega
  refine ⟨_, by simp [step, hi, hs, tailFn, hsl, hb, hf, hsp, hlt]; rfl, rfl, rfl, by simp, ?_, by simp [hf]⟩
  simp [spOf, hsp, hn, ha]

theorem doRet_frames (c c' : Cfg) (h : doRet c = .next c') : c'.frames.length + 1 = c.frames.length := by
  unfold doRet at h
  cases hl : c.stack.getLast? with
  | none => simp [hl] at h
  | some v =>
    cases hf : c.frames with
    | nil => simp [hl, hf] at h
    | cons f rest =>
      simp only [hl, hf] at h
      split at h
      · cases h
      · simp only [StepRes.next.injEq] at h; subst h; simp

/-- `CALLGLOBALTAIL` never adds a frame either (a primitive callee even pops the frame: it returns at once). -/
theorem tail_call_global_constant_frames (c c' : Cfg) (g : Nat)
    (hi : c.code[c.ip]? = some (.CALLGLOBALTAIL g)) (hs : step c = .next c') :
    c'.frames.length ≤ c.frames.length := by
  simp only [step, hi] at hs
  cases hg : lookupG g c.st.globals with
  | none => simp [hg] at hs
  | some f =>
    simp only [hg] at hs
    cases h2 : c.code[c.ip + 1]? with
    | none => simp [h2] at hs
    | some w =>
      cases w <;> simp only [h2] at hs <;> try (cases hs; done)
      rename_i n
      simp only [tailFn] at hs
      cases hsp : splitLast n c.stack with
      | none => simp [hsp] at hs
      | some p =>
        obtain ⟨below, args⟩ := p
        simp only [hsp] at hs
        cases f with
        | prim p =>
          simp only at hs
          cases hp : p.apply args with
          | ok r =>
            simp only [hp, if_true] at hs
            have := doRet_frames _ _ hs
            simp at this
            omega
          | err e => simp [hp] at hs
          | timeout => simp [hp] at hs
        | clo a r body caps =>
          simp only at hs
          cases hb : bindArgs a r args with
          | ok locals =>
            simp only [hb] at hs
            cases hf : c.frames with
            | nil => simp [hf] at hs
            | cons fr rest =>
              simp only [hf] at hs
              split at hs
              · cases hs
              · simp only [StepRes.next.injEq] at hs; subst hs; simp
          | err e => simp [hb] at hs
          | timeout => simp [hb] at hs
        | int _ => simp at hs
        | bool _ => simp at hs
        | void => simp at hs
        | box _ => simp at hs
        | list _ => simp at hs

/-! ## Code that is not executed never raises -/

/-- Whatever stands in the branch that is not selected — ill-scoped code, a call of a non-procedure, an arity
mismatch — the reference semantics yields the value of the selected branch, and so does the VM running the compiled
program: the dead branch's code is jumped over. -/
theorem dead_code_never_runs_core (fuel : Nat) (c t dead : Core) (σ σ1 σ' : St Core) (vc v : Val)
    (env1 env' : List Val)
    (hc : evalC fuel none false c [] [] σ = .ok (vc, env1, σ1)) (ht : truthy vc = true)
    (hv : evalC fuel none false t env1 [] σ1 = .ok (v, env', σ')) :
    evalTop (fuel + 1) (.ite c t dead) σ = .ok (v, σ') ∧
    ∃ n, run n (initCfg (compileTop (.ite c t dead)) (toSt σ)) = .ok (toV v, toSt σ') := by
  have h : evalTop (fuel + 1) (.ite c t dead) σ = .ok (v, σ') := by
    simp [evalTop, evalC, hc, ht, hv, Res.map]
  exact ⟨h, compile_correct_core (fuel + 1) (.ite c t dead) σ σ' v h⟩

/-- The same for the other branch. -/
theorem dead_code_never_runs_core' (fuel : Nat) (c dead e : Core) (σ σ1 σ' : St Core) (vc v : Val)
    (env1 env' : List Val)
    (hc : evalC fuel none false c [] [] σ = .ok (vc, env1, σ1)) (ht : truthy vc = false)
    (hv : evalC fuel none false e env1 [] σ1 = .ok (v, env', σ')) :
    evalTop (fuel + 1) (.ite c dead e) σ = .ok (v, σ') ∧
    ∃ n, run n (initCfg (compileTop (.ite c dead e)) (toSt σ)) = .ok (toV v, toSt σ') := by
  have h : evalTop (fuel + 1) (.ite c dead e) σ = .ok (v, σ') := by
    simp [evalTop, evalC, hc, ht, hv, Res.map]
  exact ⟨h, compile_correct_core (fuel + 1) (.ite c dead e) σ σ' v h⟩

/-! ## Errors are outcomes of the VM, not stuck states

`compile_correct_core_errors` is the full statement (every construct, every error kind except `bad` = ill-formed
program, where the real VM panics); `vm_outcome_is_semantic_outcome` is the converse direction: whatever the VM reports
(value or error) is what the semantics yields, so an error in the VM implies that the semantics raises it — code that is
not executed never raises.  `call_error_reported`, `call_of_nonprocedure_is_error` are instruction-level instances. -/

theorem run_err_of_steps : ∀ (n : Nat) (a b : Cfg) (k : Err),
    steps n a = some b → step b = .err k → run (n + 1) a = .err k := by
  intro n
  induction n with
  | zero => intro a b k h1 h2; simp [steps] at h1; subst h1; simp [run, h2]
  | succ n ih =>
    intro a b k h1 h2
    simp only [steps] at h1
    simp only [run]
    cases hs : step a with
    | next c' => rw [hs] at h1; exact ih c' b k h1 h2
    | halt v st => rw [hs] at h1; cases h1
    | err e => rw [hs] at h1; cases h1

/-- **Errors, full statement.**  If the reference semantics ends with the error `k` (arity mismatch, type error of a
primitive or box operation, call of a non-procedure, unbound global) — raised anywhere: at top level, inside operands,
inside closure bodies reached by calls, tail calls or self tail calls, at any depth — the VM running the compiled
program reports the same error `k`. -/
theorem compile_correct_core_errors (fuel : Nat) (e : Core) (σ : St Core) (k : Err) (hk : k ≠ .bad)
    (h : evalTop fuel e σ = .err k) :
    ∃ n, run n (initCfg (compileTop e) (toSt σ)) = .err k := by
  unfold evalTop at h
  cases he : evalC fuel none false e [] [] σ with
  | ok r => simp [he, Res.map] at h
  | timeout => simp [he, Res.map] at h
  | err k' =>
    simp only [he, Res.map, Res.err.injEq] at h
    subst h
    obtain ⟨c, ⟨n, hn⟩, hs⟩ := (err_all fuel).1 e none false [] [] σ k' he hk 0 0 [] [.POPPURE] [] [] rfl
      ⟨rfl, rfl, by intro a r b hh; cases hh⟩ (by simp)
    exact ⟨n + 1, run_err_of_steps n _ c k' (by simpa [initCfg, compileTop, at_] using hn) hs⟩

theorem run_mono_gen : ∀ (n m : Nat) (c : Cfg) (r : Res (VVal × St (List Instr))),
    run n c = r → r ≠ .timeout → run (n + m) c = r := by
  intro n
  induction n with
  | zero => intro m c r h hr; simp [run] at h; exact absurd h.symm hr
  | succ n ih =>
    intro m c r h hr
    rw [Nat.add_right_comm]
    simp only [run] at h ⊢
    cases hs : step c with
    | next c' => rw [hs] at h; simp only; exact ih m c' r h hr
    | halt v st => rw [hs] at h; simpa using h
    | err e => rw [hs] at h; simpa using h

/-- `run` is deterministic in the fuel: two runs that both finish agree. -/
theorem run_agree (n m : Nat) (c : Cfg) (hn : run n c ≠ .timeout) (hm : run m c ≠ .timeout) : run n c = run m c := by
  have h1 := run_mono_gen n m c _ rfl hn
  have h2 := run_mono_gen m n c _ rfl hm
  rw [Nat.add_comm] at h2
  rw [← h1, h2]

/-- **The outcome of the VM is the outcome of the semantics** (value or error).  Whenever the semantics finishes
(not out of fuel) with anything but `bad`, every finishing run of the VM yields exactly the corresponding outcome.  In
particular an error reported by the VM is an error raised by the semantics: code the semantics does not execute
(untaken branches, bodies of closures never called, operands after a failing one) never raises in the VM. -/
theorem vm_outcome_is_semantic_outcome (fuel n : Nat) (e : Core) (σ : St Core)
    (hsem : evalTop fuel e σ ≠ .timeout) (hbad : evalTop fuel e σ ≠ .err .bad)
    (hvm : run n (initCfg (compileTop e) (toSt σ)) ≠ .timeout) :
    run n (initCfg (compileTop e) (toSt σ)) = (evalTop fuel e σ).map (fun r => (toV r.1, toSt r.2)) := by
  cases hs : evalTop fuel e σ with
  | timeout => exact absurd hs hsem
  | ok r =>
    obtain ⟨v, σ'⟩ := r
    obtain ⟨m, hm⟩ := compile_correct_core fuel e σ σ' v hs
    rw [run_agree n m _ hvm (by rw [hm]; simp), hm]; rfl
  | err k =>
    have hk : k ≠ .bad := by intro hk; subst hk; exact hbad hs
    obtain ⟨m, hm⟩ := compile_correct_core_errors fuel e σ k hk hs
    rw [run_agree n m _ hvm (by rw [hm]; simp), hm]; rfl

/-- An error in the VM implies that the semantics raises it. -/
theorem vm_error_is_semantic_error (fuel n : Nat) (e : Core) (σ : St Core) (k : Err)
    (hsem : evalTop fuel e σ ≠ .timeout) (hbad : evalTop fuel e σ ≠ .err .bad)
    (hvm : run n (initCfg (compileTop e) (toSt σ)) = .err k) :
    evalTop fuel e σ = .err k := by
  have := vm_outcome_is_semantic_outcome fuel n e σ hsem hbad (by rw [hvm]; simp)
  rw [hvm] at this
  cases hs : evalTop fuel e σ with
  | timeout => exact absurd hs hsem
  | ok r => rw [hs] at this; simp [Res.map] at this
  | err k' => rw [hs] at this; simp only [Res.map, Res.err.injEq] at this; rw [this]

/-- `FUNC n` / `TAILCALL n` with a callee that is not a procedure: the error `notproc`, whatever the operands. -/
theorem call_of_nonprocedure_is_error (c : Cfg) (n : Nat) (below args : List VVal) (f : VVal)
    (hi : c.code[c.ip]? = some (.FUNC n) ∨ c.code[c.ip]? = some (.TAILCALL n))
    (hs : c.stack = below ++ args ++ [f]) (hn : args.length = n)
    (hf : (∀ p, f ≠ .prim p) ∧ (∀ a r b cc, f ≠ .clo a r b cc)) :
    step c = .err .notproc := by
  have hsl := splitLast_append n below args hn
  rcases hi with hi | hi
  · cases f <;> first
      | exact absurd rfl (hf.1 _)
      | exact absurd rfl (hf.2 _ _ _ _)
      | simp [step, hi, hs, callFn, hsl]
  · cases f <;> first
      | exact absurd rfl (hf.1 _)
      | exact absurd rfl (hf.2 _ _ _ _)
      | simp [step, hi, hs, tailFn, hsl]

/-- A top-level call `(f a₁ … aₙ)` whose operands and callee evaluate, but whose callee value is not a procedure, or is
a closure that does not accept `n` operands: the reference semantics yields the error, and the VM running the compiled
program reports the SAME error kind (it neither gets stuck nor calls anything). -/
theorem call_error_reported (fuel : Nat) (f : Core) (args : List Core) (σ σ1 σ2 : St Core)
    (env1 env2 envr argv : List Val) (fv : Val) (k : Err)
    (hargs : evalArgs fuel none args [] [] σ = .ok (env1, σ1))
    (hf : evalC fuel none false f env1 [] σ1 = .ok (fv, env2, σ2))
    (hs : splitLast args.length env2 = some (envr, argv))
    (hbad : ((∀ p, fv ≠ .prim p) ∧ (∀ a r b cc, fv ≠ .clo a r b cc) ∧ k = .notproc) ∨
            (∃ a r b cc, fv = .clo a r b cc ∧ bindArgs a r argv = .err k)) :
    evalTop (fuel + 1) (.app f args) σ = .err k ∧
    ∃ n, run n (initCfg (compileTop (.app f args)) (toSt σ)) = .err k := by
  constructor
  · rcases hbad with ⟨h1, h2, rfl⟩ | ⟨a, r, b, cc, rfl, hb⟩
    · cases fv <;> first
        | exact absurd rfl (h1 _)
        | exact absurd rfl (h2 _ _ _ _)
        | simp [evalTop, evalC, hargs, hf, hs, applyWith, Res.map]
    · simp [evalTop, evalC, hargs, hf, hs, applyWith, hb, Res.map]
  · obtain ⟨ih, ih2⟩ := sim_all fuel
    have hctx : Ctx none [] ([] ++ compile false 0 0 (.app f args) ++ [.POPPURE]) [] [] :=
      ⟨rfl, rfl, by intro a r b hh; cases hh⟩
    have e1 := P2.sub ih2 hargs false [] (compile false 0 0 (.app f args)) [.POPPURE] []
      (compile false (0 + clenL false args) 0 f ++ [.FUNC args.length] ++ [.POPPURE]) 0 0 [] []
      (by simp [compile, List.append_assoc]) rfl hctx 0 rfl
    obtain ⟨c2, e2, p2⟩ := P1.sub ih hf [] (compile false 0 0 (.app f args)) [.POPPURE]
      (compileArgs false 0 0 args) ([.FUNC args.length] ++ [.POPPURE]) 0 (0 + clenL false args) [] []
      (by simp [compile, List.append_assoc]) (by simp) hctx (by simp) (0 + clenL false args) (by simp)
    rw [p2.exact] at e2
    obtain ⟨n, hn⟩ := e1.trans e2
    obtain ⟨henv2, hlen, _⟩ := splitLast_some hs
    refine ⟨n + 1, run_err_of_steps n _
      (at_ [] (compile false 0 0 (.app f args)) [.POPPURE] (0 + clenL false args + clen f)
        ([] ++ env2.map toV ++ [toV fv]) [] (toSt σ2)) k (by simpa [initCfg, compileTop, at_] using hn) ?_⟩
    have hins : (compile false 0 0 (.app f args))[0 + clenL false args + clen f]? = some (.FUNC args.length) := by
      find_ins
    have hc := code_at [] (compile false 0 0 (.app f args)) [.POPPURE] _ _ hins
    have hstk : [] ++ env2.map toV ++ [toV fv] = envr.map toV ++ argv.map toV ++ [toV fv] := by
      rw [henv2]; simp
    have hsl := splitLast_append args.length (envr.map toV) (argv.map toV) (by simpa using hlen)
    simp only [at_] at hc ⊢
    rw [hstk]
    generalize ([] : List Instr) ++ compile false 0 0 (.app f args) ++ [.POPPURE] = code at hc ⊢
    generalize ([] : List Instr).length + (0 + clenL false args + clen f) = ip at hc ⊢
    rcases hbad with ⟨h1, h2, rfl⟩ | ⟨a, r, b, cc, rfl, hb⟩
    · cases fv <;> first
        | exact absurd rfl (h1 _)
        | exact absurd rfl (h2 _ _ _ _)
        | simp [step, hc, callFn, hsl]
    · have hb' : bindArgs a r (argv.map toV) = .err k := by rw [bindArgs_map, hb]; rfl
      simp [step, hc, callFn, hsl, hb']

/-! ## Non-vacuity: a closure over an assigned variable called twice; closures sharing a variable; loops -/

/-- `(define (mk n) (let ((c n)) (lambda (d) (set! c (+ c d)) c)))` as the real pipeline lowers it (the captured +
assigned `c` lives in a box); the code generated here equals the real listing of `vh disasm`. -/
def mkE : Core :=
  .define 10 (.lam 1 false []
    (.let_ 1 [.boxop .new [.loc 0 true]]
      (.lam 1 false [.stack 1]
        (.seq (.boxop .set [.cap 0, .callG 0 [.boxop .get [.cap 0], .loc 0 true]])
              (.boxop .get [.cap 0])))))
/-- `(define k (mk 10))`, `(k 5)` -/
def kE : Core := .define 11 (.callG 10 [.const (.int 10)])
def callK : Core := .callG 11 [.const (.int 5)]

/-- Two closures over the same assigned variable: `(define p (let ((x 0)) (cons-like getter setter)))`, here as two
globals defined inside one `let`: setter `(lambda (v) (set! x v))`, getter `(lambda () x)`. -/
def sharedE : Core :=
  .let_ 0 [.boxop .new [.const (.int 0)]]
    (.seq (.define 20 (.lam 1 false [.stack 0] (.boxop .set [.cap 0, .loc 0 true])))
          (.define 21 (.lam 0 false [.stack 0] (.boxop .get [.cap 0]))))
def setIt : Core := .callG 20 [.const (.int 42)]
def getIt : Core := .callG 21 []

/-- `(define (loop n acc) (if (= n 0) acc (loop (- n 1) (+ acc n))))` with the self tail call (`TCOJMP`). -/
def loopE : Core := .define 12 (.lam 2 false []
  (.ite (.callG 5 [.loc 0 false, .const (.int 0)]) (.loc 1 false)
    (.selfTail [.callG 1 [.loc 0 false, .const (.int 1)], .callG 0 [.loc 1 true, .loc 0 true]])))
/-- Mutual recursion through globals in tail position (`CALLGLOBALTAIL`): `ev`/`od`. -/
def evE : Core := .define 13 (.lam 1 false []
  (.ite (.callG 5 [.loc 0 false, .const (.int 0)]) (.const (.int 1))
    (.callG 14 [.callG 1 [.loc 0 true, .const (.int 1)]])))
def odE : Core := .define 14 (.lam 1 false []
  (.ite (.callG 5 [.loc 0 false, .const (.int 0)]) (.const (.int 0))
    (.callG 13 [.callG 1 [.loc 0 true, .const (.int 1)]])))
/-- A tail call through a variable: `(define (app f x) (f x))`, `(app (lambda (y) (* y y)) 7)`. -/
def appE : Core := .define 15 (.lam 2 false [] (.app (.loc 0 true) [.loc 1 true]))
def sqE : Core := .callG 15 [.lam 1 false [] (.callG 2 [.loc 0 false, .loc 0 true]), .const (.int 7)]

def σ0 : St Core := ⟨[], primGlobals⟩

def ints (r : Res (List (V α) × St α)) : List (Option Int) :=
  match r with
  | .ok (vs, _) => vs.map V.toInt?
  | _ => []

def prog1 : List Core := [mkE, kE, callK, callK, sharedE, setIt, getIt]
def prog2 : List Core := [loopE, .callG 12 [.const (.int 6), .const (.int 0)], evE, odE,
  .callG 13 [.const (.int 5)], appE, sqE]

-- reference semantics: the counter closure called twice yields 15 then 20; the getter sees the setter's assignment
example : ints (evalProgram 40 prog1 σ0) = [none, none, some 15, some 20, none, some 0, some 42] := by decide
-- the VM on the generated code agrees
example : ints (runProgram 400 (prog1.map compileTop) (toSt σ0)) =
    [none, none, some 15, some 20, none, some 0, some 42] := by decide
-- loops: self tail call, mutual tail calls through globals, tail call through a variable
example : ints (evalProgram 60 prog2 σ0) = [none, some 21, none, none, some 0, none, some 49] := by decide
example : ints (runProgram 600 (prog2.map compileTop) (toSt σ0)) =
    [none, some 21, none, none, some 0, none, some 49] := by decide

/-- Largest number of frames seen during `n` steps. -/
def maxFrames : Nat → Cfg → Nat
  | 0, c => c.frames.length
  | n + 1, c =>
    match step c with
    | .next c' => max c.frames.length (maxFrames n c')
    | _ => c.frames.length

def stAfter (fuel : Nat) (p : List Core) : St (List Instr) :=
  match runProgram fuel (p.map compileTop) (toSt σ0) with
  | .ok (_, st) => st
  | _ => toSt σ0

-- the self-tail-recursive loop and the mutually tail-recursive pair run in ONE frame however many iterations
set_option maxRecDepth 8000 in
example : maxFrames 300 (initCfg (compileTop (.callG 12 [.const (.int 8), .const (.int 0)])) (stAfter 100 [loopE])) = 1 := by
  decide
set_option maxRecDepth 8000 in
example : maxFrames 300 (initCfg (compileTop (.callG 13 [.const (.int 7)])) (stAfter 100 [evE, odE])) = 1 := by
  decide

-- errors: `(5 1)` and `((lambda (x) x) 1 2)` are reported as `notproc` / `arity` by the semantics and by the VM
example : (match evalTop 5 (.app (.const (.int 5)) [.const (.int 1)]) σ0 with | .err k => some k | _ => none) = some .notproc := by
  decide
example : (match run 20 (initCfg (compileTop (.app (.const (.int 5)) [.const (.int 1)])) (toSt σ0)) with
    | .err k => some k | _ => none) = some .notproc := by decide
example : (match run 20 (initCfg (compileTop (.app (.lam 1 false [] (.loc 0 true)) [.const (.int 1), .const (.int 2)]))
    (toSt σ0)) with | .err k => some k | _ => none) = some .arity := by decide

-- dead code: the untaken branch calls a non-procedure with the wrong number of operands
example : ints (evalProgram 10 [.ite (.const (.bool true)) (.const (.int 1)) (.app (.const (.int 0)) [.loc 7 false])] σ0)
    = [some 1] := by decide

-- the generated code for `mk` is the real listing (header, box, closure with one stack capture, tail `UNBOX` word)
example : compileTop mkE =
    [.SDEF, .PUREFUNC 30, .PASS 0, .PASS 0, .BEGINSCOPE, .MOVEREADLOCAL 0, .NEWBOX, .FUNC 1, .LETVAR,
     .NEWSCLOSURE 19, .PASS 0, .PASS 0, .NDEFS 1, .COPYCAPTURESTACK 1, .READCAPTURED 0, .READCAPTURED 0, .UNBOX,
     .FUNC 1, .MOVEREADLOCAL 0, .CALLGLOBAL 0, .FUNC 2, .SETBOX, .FUNC 2, .POPSINGLE, .READCAPTURED 0, .UNBOX,
     .TAILCALL 1, .POPPURE, .ECLOSURE 1, .LETENDSCOPE 1, .POPPURE, .ECLOSURE 1, .EDEF, .BIND 10, .VOID,
     .POPPURE] := by decide

/-! ## Two source closures created in the same scope over the same assigned variable -/

theorem capture_get {α : Type} (env caps : List (V α)) : ∀ (cs : List CapSrc) (cv : List (V α)) (i k : Nat),
    capture env caps cs = some cv → cs[i]? = some (.stack k) → cv[i]? = env[k]? := by
  intro cs
  induction cs with
  | nil => intro cv i k _ h; simp at h
  | cons c cs ih =>
    intro cv i k hc hi
    cases c with
    | stack m =>
      simp only [capture] at hc
      cases hm : env[m]? with
      | none => simp [hm] at hc
      | some v =>
        cases hr : capture env caps cs with
        | none => simp [hm, hr] at hc
        | some vs =>
          simp only [hm, hr, Option.some.injEq] at hc
          subst hc
          cases i with
          | zero => simp at hi; subst hi; simp [hm]
          | succ i => simp at hi; simpa using ih vs i k hr hi
    | closure m =>
      simp only [capture] at hc
      cases hm : caps[m]? with
      | none => simp [hm] at hc
      | some v =>
        cases hr : capture env caps cs with
        | none => simp [hm, hr] at hc
        | some vs =>
          simp only [hm, hr, Option.some.injEq] at hc
          subst hc
          cases i with
          | zero => simp at hi
          | succ i => simp at hi; simpa using ih vs i k hr hi

/-- **A write through one closure is read through the other and by the defining scope.**  The scope holds the assigned
variable `x` (a box, as the real compiler lowers a captured + assigned variable) in its slot `k`.  Two closures are
created in that scope by `lambda`s whose capture lists — arbitrary otherwise — take slot `k` as capture `i` resp. `j`:
the setter `(lambda (v) (set! x v))` and the getter `(lambda () x)`.  Then in ANY state in which the box exists,
calling the setter with `vnew` and afterwards the getter yields `vnew`, and so does reading `x` in the defining scope. -/
theorem two_closures_share_variable (env caps : List Val) (k a : Nat) (henv : env[k]? = some (.box a))
    (cs1 cs2 : List CapSrc) (i j : Nat) (h1 : cs1[i]? = some (.stack k)) (h2 : cs2[j]? = some (.stack k))
    (cv1 cv2 : List Val) (hc1 : capture env caps cs1 = some cv1) (hc2 : capture env caps cs2 = some cv2)
    (σ : St Core) (vnew : Val) (hσ : a < σ.store.length) (fuel : Nat) (self : Self) (tail : Bool) :
    ∃ old σ',
      applyWith (fun s => evalC (fuel + 5) s true) (.clo 1 false (.boxop .set [.cap i, .loc 0 true]) cv1) [vnew] σ
        = .ok (old, σ') ∧
      applyWith (fun s => evalC (fuel + 5) s true) (.clo 0 false (.boxop .get [.cap j]) cv2) [] σ' = .ok (vnew, σ') ∧
      evalC (fuel + 5) self tail (.boxop .get [.loc k false]) env caps σ' = .ok (vnew, env, σ') := by
  have g1 : cv1[i]? = some (.box a) := by rw [capture_get env caps cs1 cv1 i k hc1 h1, henv]
  have g2 : cv2[j]? = some (.box a) := by rw [capture_get env caps cs2 cv2 j k hc2 h2, henv]
  have hold : ∃ old, σ.store[a]? = some old := ⟨σ.store[a], by simp [hσ]⟩
  obtain ⟨old, ho⟩ := hold
  have hset : BoxOp.apply .set [.box a, vnew] σ = .ok (old, { σ with store := σ.store.set a vnew }) := by
    simp [BoxOp.apply, ho]
  have hget := setbox_then_unbox a vnew old σ _ hset
  refine ⟨old, { σ with store := σ.store.set a vnew }, ?_, ?_, ?_⟩
  · have hsl : splitLast 2 [V.void, V.box a, vnew] = some ([V.void], [V.box a, vnew]) := by
      simpa using splitLast_append 2 [V.void] [V.box a, vnew] rfl
    simp [applyWith, bindArgs, evalC, evalArgs, g1, BoxOp.arity, hsl, hset]
  · have hsl : splitLast 1 [(V.box a : Val)] = some ([], [V.box a]) := by
      simpa using splitLast_append 1 ([] : List Val) [V.box a] rfl
    simp [applyWith, bindArgs, evalC, evalArgs, g2, BoxOp.arity, hsl, hget]
  · exact (closure_captures_by_reference a vnew old σ _ hset).2.1 self tail env caps k (fuel + 2) henv

/-- The same as a whole source program, for EVERY constant `c`, on the VM: `(define-values (set get) (let ((x 0))
(values (lambda (v) (set! x v)) (lambda () x))))`, `(set c)`, `(get)` — the compiled program run by the VM yields the
old value `0` for the `set!` and then `c` for the read. -/
theorem shared_variable_program (c : Const) :
    ∃ n st, runProgram n ([sharedE, .callG 20 [.const c], .callG 21 []].map compileTop) (toSt σ0) =
      .ok ([.void, .int 0, c.toV], st) := by
  have h : ∃ σ', evalProgram 30 [sharedE, .callG 20 [.const c], .callG 21 []] σ0 =
      .ok ([.void, .int 0, c.toV], σ') := ⟨_, rfl⟩
  obtain ⟨σ', h⟩ := h
  obtain ⟨n, hn⟩ := compile_correct_program 30 _ σ0 σ' _ h
  exact ⟨n, toSt σ', by simpa using hn⟩

end SteelVerif.C01C
