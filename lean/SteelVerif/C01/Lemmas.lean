/-
C01 — lemmas: execution sequences of the VM and the correctness of the code generator.
-/
import SteelVerif.C01.Frag
namespace SteelVerif.C01

/-- `vm` reaches `vm'` in some number of steps. -/
def Exec (fns : List FnDef) (vm vm' : VM) : Prop := ∃ n, stepsVM fns n vm = some vm'

theorem Exec.refl (fns : List FnDef) (vm : VM) : Exec fns vm vm := ⟨0, rfl⟩

theorem stepsVM_add (fns : List FnDef) : ∀ (n m : Nat) (a b c : VM),
    stepsVM fns n a = some b → stepsVM fns m b = some c → stepsVM fns (n + m) a = some c := by
  intro n
  induction n with
  | zero => intro m a b c h1 h2; simp [stepsVM] at h1; subst h1; simpa using h2
  | succ n ih =>
    intro m a b c h1 h2
    rw [Nat.add_right_comm]
    simp only [stepsVM] at h1 ⊢
    cases hs : stepVM fns a with
    | next vm' => rw [hs] at h1; simp only; exact ih m vm' b c h1 h2
    | halt v => rw [hs] at h1; cases h1
    | stuck => rw [hs] at h1; cases h1

theorem Exec.trans {fns : List FnDef} {a b c : VM} (h1 : Exec fns a b) (h2 : Exec fns b c) : Exec fns a c := by
  obtain ⟨n, hn⟩ := h1
  obtain ⟨m, hm⟩ := h2
  exact ⟨n + m, stepsVM_add fns n m a b c hn hm⟩

theorem Exec.step {fns : List FnDef} {a b : VM} (h : stepVM fns a = .next b) : Exec fns a b :=
  ⟨1, by simp [stepsVM, h]⟩

/-- The instruction at position `pre.length + k` of `pre ++ mid ++ post`. -/
theorem code_at (pre mid post : List Instr) (k : Nat) (ins : Instr) (h : mid[k]? = some ins) :
    (pre ++ mid ++ post)[pre.length + k]? = some ins := by
  have hk : k < mid.length := by
    rcases Nat.lt_or_ge k mid.length with h1 | h1
    · exact h1
    · simp [List.getElem?_eq_none h1] at h
  rw [List.append_assoc, List.getElem?_append_right (by omega)]
  simp [List.getElem?_append_left hk, h]

/-- A frame positioned at offset `k` inside `mid`. -/
def at_ (pre mid post : List Instr) (k : Nat) (stack : List Val) (frames : List Frame) : VM :=
  { cur := { code := pre ++ mid ++ post, ip := pre.length + k, stack := stack }, frames := frames }

theorem at_reassoc (pre a b post : List Instr) (k : Nat) (s : List Val) (fr : List Frame) :
    at_ pre (a ++ b) post (a.length + k) s fr = at_ (pre ++ a) b post k s fr := by
  simp [at_, List.append_assoc, Nat.add_assoc]

theorem at_left (pre a b post : List Instr) (k : Nat) (s : List Val) (fr : List Frame) :
    at_ pre (a ++ b) post k s fr = at_ pre a (b ++ post) k s fr := by
  simp [at_, List.append_assoc]

theorem getLast?_append_one (l : List Val) (v : Val) : (l ++ [v]).getLast? = some v := by simp

theorem dropLast_append_one (l : List Val) (v : Val) : (l ++ [v]).dropLast = l := by simp

end SteelVerif.C01

namespace SteelVerif.C01

theorem at_eq {pre mid post pre' mid' post' : List Instr} {k k' : Nat} (s : List Val) (fr : List Frame)
    (h1 : pre ++ mid ++ post = pre' ++ mid' ++ post') (h2 : pre.length + k = pre'.length + k') :
    at_ pre mid post k s fr = at_ pre' mid' post' k' s fr := by
  simp only [at_, h1, h2]

/-- One instruction `ins` executed at offset `k` of `mid`, described by its effect `f` on the stack. -/
theorem step_simple (fns : List FnDef) (pre mid post : List Instr) (k : Nat) (s s2 : List Val) (fr : List Frame)
    (ins : Instr) (h : mid[k]? = some ins) (d : Nat)
    (hstep : ∀ vm : VM, vm.cur.code[vm.cur.ip]? = some ins → vm.cur.stack = s →
      stepVM fns vm = .next { vm with cur := { vm.cur with ip := vm.cur.ip + d, stack := s2 } }) :
    Exec fns (at_ pre mid post k s fr) (at_ pre mid post (k + d) s2 fr) := by
  have hc := code_at pre mid post k ins h
  have := hstep (at_ pre mid post k s fr) (by simpa [at_] using hc) rfl
  refine Exec.step ?_
  rw [this]
  simp [at_, Nat.add_assoc]

theorem exec_push (fns : List FnDef) (pre mid post : List Instr) (k : Nat) (s : List Val) (fr : List Frame)
    (v : Val) (h : mid[k]? = some (.push v)) :
    Exec fns (at_ pre mid post k s fr) (at_ pre mid post (k + 1) (s ++ [v]) fr) :=
  step_simple fns pre mid post k s _ fr _ h 1 (by intro vm hc hs; simp [stepVM, hc, hs])

theorem exec_readLocal (fns : List FnDef) (pre mid post : List Instr) (k : Nat) (s : List Val) (fr : List Frame)
    (i : Nat) (v : Val) (h : mid[k]? = some (.readLocal i)) (hv : s[i]? = some v) :
    Exec fns (at_ pre mid post k s fr) (at_ pre mid post (k + 1) (s ++ [v]) fr) :=
  step_simple fns pre mid post k s _ fr _ h 1 (by intro vm hc hs; simp [stepVM, hc, hs, hv])

theorem exec_prim (fns : List FnDef) (pre mid post : List Instr) (k : Nat) (s : List Val) (fr : List Frame)
    (op : Op) (a b r : Val) (h : mid[k]? = some (.prim op)) (hr : op.apply a b = some r) :
    Exec fns (at_ pre mid post k (s ++ [a] ++ [b]) fr) (at_ pre mid post (k + 1) (s ++ [r]) fr) :=
  step_simple fns pre mid post k _ _ fr _ h 1 (by
    intro vm hc hs
    simp [stepVM, hc, hs, hr, List.dropLast_append_of_ne_nil])

theorem exec_letEnd (fns : List FnDef) (pre mid post : List Instr) (k : Nat) (s : List Val) (fr : List Frame)
    (x v : Val) (h : mid[k]? = some .letEnd) :
    Exec fns (at_ pre mid post k (s ++ [x] ++ [v]) fr) (at_ pre mid post (k + 1) (s ++ [v]) fr) :=
  step_simple fns pre mid post k _ _ fr _ h 1 (by
    intro vm hc hs
    simp [stepVM, hc, hs, List.dropLast_append_of_ne_nil])

theorem exec_pop (fns : List FnDef) (pre mid post : List Instr) (k : Nat) (s : List Val) (fr : List Frame)
    (v : Val) (h : mid[k]? = some .pop) :
    Exec fns (at_ pre mid post k (s ++ [v]) fr) (at_ pre mid post (k + 1) s fr) :=
  step_simple fns pre mid post k _ _ fr _ h 1 (by intro vm hc hs; simp [stepVM, hc, hs])

theorem exec_setLocal (fns : List FnDef) (pre mid post : List Instr) (k : Nat) (s : List Val) (fr : List Frame)
    (i : Nat) (v old : Val) (h : mid[k]? = some (.setLocal i)) (ho : s[i]? = some old) :
    Exec fns (at_ pre mid post k (s ++ [v]) fr) (at_ pre mid post (k + 1) (s.set i v ++ [old]) fr) :=
  step_simple fns pre mid post k _ _ fr _ h 1 (by intro vm hc hs; simp [stepVM, hc, hs, ho])

theorem exec_jmpIfFalse_true (fns : List FnDef) (pre mid post : List Instr) (k : Nat) (s : List Val)
    (fr : List Frame) (off : Nat) (c : Val) (h : mid[k]? = some (.jmpIfFalse off)) (hc : truthy c = true) :
    Exec fns (at_ pre mid post k (s ++ [c]) fr) (at_ pre mid post (k + 1) s fr) :=
  step_simple fns pre mid post k _ _ fr _ h 1 (by intro vm hc' hs; simp [stepVM, hc', hs, hc])

theorem exec_jmpIfFalse_false (fns : List FnDef) (pre mid post : List Instr) (k : Nat) (s : List Val)
    (fr : List Frame) (off : Nat) (c : Val) (h : mid[k]? = some (.jmpIfFalse off)) (hc : truthy c = false) :
    Exec fns (at_ pre mid post k (s ++ [c]) fr) (at_ pre mid post (k + (off + 1)) s fr) :=
  step_simple fns pre mid post k _ _ fr _ h (off + 1) (by intro vm hc' hs; simp [stepVM, hc', hs, hc])

theorem exec_jmp (fns : List FnDef) (pre mid post : List Instr) (k : Nat) (s : List Val)
    (fr : List Frame) (off : Nat) (h : mid[k]? = some (.jmp off)) :
    Exec fns (at_ pre mid post k s fr) (at_ pre mid post (k + (off + 1)) s fr) :=
  step_simple fns pre mid post k _ _ fr _ h (off + 1) (by intro vm hc' hs; simp [stepVM, hc', hs])

end SteelVerif.C01
