/-
C01 driver: evaluates whole programs with the reference semantics S (Base/Eval.lean), in the output
format of harness `c01`: per program `\x1eB`, the script output, then `\x1eV v1\x1fv2…` or `\x1eE err`.
Programs on stdin are separated by a line `;;;===`.
-/
import SteelVerif.Base.Eval
import SteelVerif.C01.Frag
namespace SteelVerif.C01
open SteelVerif.Base

partial def readAll (h : IO.FS.Stream) (acc : String) : IO String := do
  let l ← h.getLine
  if l.isEmpty then return acc else readAll h (acc ++ l)

def runProgram (st0 : St) (src : String) : String :=
  match Reader.read src with
  | none => "\u001eB\n\n\u001eE syntax"
  | some forms =>
    let (vals, outcome, st) := evalProgram 2000000 forms st0
    let out := String.join st.out.reverse
    match outcome with
    | none => s!"\u001eB\n{out}\n\u001eV {"\u001f".intercalate vals}"
    | some o => s!"\u001eB\n{out}\n\u001eE {o}"

/-! ### `frag` mode: the lowered-core fragment — reference semantics `evalIR` and the VM `runVM` on the same
program.  Input: lines `fn <arity> <ir>` … `main <ir>`; output `ref=<value|none> vm=<value|none>`. -/

partial def parseIR : Sexp → Option IR
  | .list [.sym "c", .int n] => some (.const (.int n))
  | .list [.sym "t"] => some (.const (.bool true))
  | .list [.sym "f"] => some (.const (.bool false))
  | .list [.sym "l", .int i] => some (.loc i.toNat)
  | .list [.sym "p", .sym op, a, b] => do
      let o ← match op with
        | "add" => some Op.add | "sub" => some Op.sub | "mul" => some Op.mul
        | "lt" => some Op.lt | "le" => some Op.le | "eq" => some Op.eq | _ => none
      some (.prim o (← parseIR a) (← parseIR b))
  | .list [.sym "if", c, t, e] => do some (.ite (← parseIR c) (← parseIR t) (← parseIR e))
  | .list [.sym "let", e, b] => do some (.let1 (← parseIR e) (← parseIR b))
  | .list [.sym "seq", a, b] => do some (.seq (← parseIR a) (← parseIR b))
  | .list [.sym "set", .int i, e] => do some (.setLoc i.toNat (← parseIR e))
  | .list (.sym "call" :: .int f :: args) => do some (.call f.toNat (← args.mapM parseIR))
  | _ => none

def showFVal : Option C01.Val → String
  | some (.int n) => toString n
  | some (.bool true) => "#true"
  | some (.bool false) => "#false"
  | none => "none"

partial def fragLoop (h : IO.FS.Stream) (fns : List FnDef) : IO Unit := do
  let l ← h.getLine
  if l.isEmpty then return ()
  let l := l.trimAscii.toString
  if l.startsWith "fn " then
    match Reader.read (l.drop 3).toString with
    | some [.int ar, ir] =>
        match parseIR ir with
        | some b => fragLoop h (fns ++ [{ arity := ar.toNat, body := b }])
        | none => IO.println "bad"; fragLoop h fns
    | _ => IO.println "bad"; fragLoop h fns
  else if l.startsWith "main " then
    match (Reader.read (l.drop 5).toString).bind (fun x => x.head?.bind parseIR) with
    | some e =>
        let r := (evalIR fns 200 e []).map (·.1)
        let v := runVM fns 200000 (initVM' e)
        IO.println s!"ref={showFVal r} vm={showFVal v}"
        fragLoop h []
    | none => IO.println "bad"; fragLoop h []
  else fragLoop h fns
where
  initVM' (e : IR) : VM := { cur := { code := compile e ++ [.ret], ip := 0, stack := [] }, frames := [] }

def mainC01 (args : List String) : IO Unit := do
  if args == ["frag"] then
    fragLoop (← IO.getStdin) []
    return ()
  let src ← readAll (← IO.getStdin) ""
  let st0 := initState
  for prog in src.splitOn "\n;;;===\n" do
    if prog.trimAscii.toString ≠ "" then
      IO.println (runProgram st0 prog)

end SteelVerif.C01

def main (args : List String) : IO Unit := SteelVerif.C01.mainC01 args
