/-
C01 driver: evaluates whole programs with the reference semantics S (Base/Eval.lean), in the output
format of harness `c01`: per program `\x1eB`, the script output, then `\x1eV v1\x1fv2…` or `\x1eE err`.
Programs on stdin are separated by a line `;;;===`.
-/
import SteelVerif.Base.Eval
import SteelVerif.C01.Parse
import SteelVerif.C01.BCDriver
namespace SteelVerif.C01
open SteelVerif.Base

partial def readAll (h : IO.FS.Stream) (acc : String) : IO String := do
  let l ← h.getLine
  if l.isEmpty then return acc else readAll h (acc ++ l)

def runProgram (st0 : St) (src : String) : String :=
  match Reader.read src with
  | none => "\u001eB\n\n\u001eE syntax"
  | some forms =>
    let (vals, outcome, st) := evalProgram 2000000 forms st0
    let out := String.join st.out.reverse
    match outcome with
    | none => s!"\u001eB\n{out}\n\u001eV {"\u001f".intercalate vals}"
    | some o => s!"\u001eB\n{out}\n\u001eE {o}"

partial def fragLoop (h : IO.FS.Stream) (fns : List FnDef) : IO Unit := do
  let l ← h.getLine
  if l.isEmpty then return ()
  let l := l.trimAscii.toString
  if l.startsWith "fn " then
    match Reader.read (l.drop 3).toString with
    | some [.int ar, ir] =>
        match parseIR ir with
        | some b => fragLoop h (fns ++ [{ arity := ar.toNat, body := b }])
        | none => IO.println "bad"; fragLoop h fns
    | _ => IO.println "bad"; fragLoop h fns
  else if l.startsWith "main " then
    match (Reader.read (l.drop 5).toString).bind (fun x => x.head?.bind parseIR) with
    | some e =>
        let r := (evalIR fns 200 e []).map (·.1)
        let v := runVM fns 200000 (initVM' e)
        IO.println s!"ref={showFVal r} vm={showFVal v}"
        fragLoop h []
    | none => IO.println "bad"; fragLoop h []
  else fragLoop h fns
where
  initVM' (e : IR) : VM := { cur := { code := compile e ++ [.ret], ip := 0, stack := [] }, frames := [] }

def mainC01 (args : List String) : IO Unit := do
  if args == ["bc"] then
    SteelVerif.C01BC.bcMain
    return ()
  if args == ["frag"] then
    fragLoop (← IO.getStdin) []
    return ()
  let src ← readAll (← IO.getStdin) ""
  let st0 := initState
  for prog in src.splitOn "\n;;;===\n" do
    if prog.trimAscii.toString ≠ "" then
      IO.println (runProgram st0 prog)

end SteelVerif.C01

def main (args : List String) : IO Unit := SteelVerif.C01.mainC01 args
