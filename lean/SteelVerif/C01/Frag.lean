/-
C01 — M: the lowered core, the code generator and the stack VM for a fragment of the language
(integers, booleans, locals by stack offset, let, if, begin, set! of locals, binary primitives, calls of
global first-order procedures with a fixed number of arguments, tail calls).

This mirrors `compiler/code_gen.rs` + `steel_vm/vm.rs` at the level of the generic op codes
(PUSHCONST, READLOCAL, SETLOCAL, IF, JMP, LETENDSCOPE, POPSINGLE, CALLGLOBAL/FUNC, TAILCALL, POPPURE):
one operand stack per frame on which locals and temporaries share offsets (a local's index is its absolute
position in the frame, temporaries included — `analysis.rs` computes exactly these offsets).
-/
namespace SteelVerif.C01

inductive Val where
  | int (n : Int)
  | bool (b : Bool)
deriving DecidableEq, Repr, Inhabited

inductive Op where
  | add | sub | mul | lt | le | eq
deriving DecidableEq, Repr, Inhabited

def Op.apply : Op → Val → Val → Option Val
  | .add, .int a, .int b => some (.int (a + b))
  | .sub, .int a, .int b => some (.int (a - b))
  | .mul, .int a, .int b => some (.int (a * b))
  | .lt, .int a, .int b => some (.bool (a < b))
  | .le, .int a, .int b => some (.bool (a ≤ b))
  | .eq, .int a, .int b => some (.bool (a == b))
  | _, _, _ => none

def truthy : Val → Bool
  | .bool false => false
  | _ => true

/-- Lowered expressions: variables are absolute offsets into the frame. -/
inductive IR where
  | const (v : Val)
  | loc (i : Nat)
  | prim (op : Op) (a b : IR)
  | ite (c t e : IR)
  | let1 (e body : IR)          -- the bound value sits at offset = current stack height
  | seq (a b : IR)
  | setLoc (i : Nat) (e : IR)   -- yields the previous value (Steel's `set!`)
  | call (f : Nat) (args : List IR)
deriving Repr, Inhabited

structure FnDef where
  arity : Nat
  body : IR
deriving Repr, Inhabited

/-! ## Reference big-step semantics of the lowered core (fuel bounds the call depth) -/

mutual
def evalIR (fns : List FnDef) : Nat → IR → List Val → Option (Val × List Val)
  | _, .const v, s => some (v, s)
  | _, .loc i, s => (s[i]?).map (·, s)
  | fuel, .prim op a b, s =>
      match evalIR fns fuel a s with
      | none => none
      | some (va, s1) =>
        -- the value of `a` is a temporary below `b`
        match evalIR fns fuel b (s1 ++ [va]) with
        | none => none
        | some (vb, s2) =>
          -- the first operand is read back from its stack slot
          match s2.getLast? with
          | none => none
          | some va' => (op.apply va' vb).map (·, s2.dropLast)
  | fuel, .ite c t e, s =>
      match evalIR fns fuel c s with
      | none => none
      | some (vc, s1) => if truthy vc then evalIR fns fuel t s1 else evalIR fns fuel e s1
  | fuel, .let1 e body, s =>
      match evalIR fns fuel e s with
      | none => none
      | some (ve, s1) =>
        match evalIR fns fuel body (s1 ++ [ve]) with
        | none => none
        | some (vb, s2) => some (vb, s2.dropLast)
  | fuel, .seq a b, s =>
      match evalIR fns fuel a s with
      | none => none
      | some (_, s1) => evalIR fns fuel b s1
  | fuel, .setLoc i e, s =>
      match evalIR fns fuel e s with
      | none => none
      | some (v, s1) =>
        match s1[i]? with
        | none => none
        | some old => some (old, s1.set i v)
  | 0, .call _ _, _ => none
  | fuel + 1, .call f args, s =>
      match evalArgs fns (fuel + 1) args s with
      | none => none
      | some s1 =>
        match fns[f]? with
        | none => none
        | some fd =>
          if fd.arity ≠ args.length ∨ s1.length < args.length then none
          else
            -- the callee's frame consists of the operands; the caller keeps what is below them
            match evalIR fns fuel fd.body (s1.drop (s1.length - args.length)) with
            | none => none
            | some (v, _) => some (v, s1.take (s1.length - args.length))
/-- Operands left to right, each pushed on the stack (the earlier ones are temporaries below). -/
def evalArgs (fns : List FnDef) : Nat → List IR → List Val → Option (List Val)
  | _, [], s => some s
  | fuel, a :: rest, s =>
      match evalIR fns fuel a s with
      | none => none
      | some (v, s1) => evalArgs fns fuel rest (s1 ++ [v])
end

/-! ## Code generation -/

inductive Instr where
  | push (v : Val)            -- PUSHCONST
  | readLocal (i : Nat)       -- READLOCAL
  | setLocal (i : Nat)        -- SETLOCAL (leaves the previous value)
  | prim (op : Op)            -- primitive call with two operands
  | jmpIfFalse (off : Nat)    -- IF: pop the condition, skip `off` instructions when it is false
  | jmp (off : Nat)           -- JMP
  | letEnd                    -- LETENDSCOPE 1: drop the slot below the top
  | pop                       -- POPSINGLE
  | call (f : Nat) (n : Nat)  -- CALLGLOBAL f + FUNC n
  | tailCall (f : Nat) (n : Nat)  -- CALLGLOBALTAIL f + TAILCALL n
  | ret                       -- POPPURE
deriving DecidableEq, Repr, Inhabited

def compileArgs (compile : IR → List Instr) : List IR → List Instr
  | [] => []
  | a :: rest => compile a ++ compileArgs compile rest

/-- `tail`: the expression is in tail position of a procedure body. -/
def compile : IR → List Instr
  | .const v => [.push v]
  | .loc i => [.readLocal i]
  | .prim op a b => compile a ++ compile b ++ [.prim op]
  | .ite c t e =>
      let ct := compile t
      let ce := compile e
      compile c ++ [.jmpIfFalse (ct.length + 1)] ++ ct ++ [.jmp ce.length] ++ ce
  | .let1 e body => compile e ++ compile body ++ [.letEnd]
  | .seq a b => compile a ++ [.pop] ++ compile b
  | .setLoc i e => compile e ++ [.setLocal i]
  | .call f args => compileArgsL args ++ [.call f args.length]
where
  compileArgsL : List IR → List Instr
    | [] => []
    | a :: rest => compile a ++ compileArgsL rest

/-- Code of a procedure: its body followed by the return. -/
def compileFn (fd : FnDef) : List Instr := compile fd.body ++ [.ret]

/-! ## The VM -/

structure Frame where
  code : List Instr
  ip : Nat
  stack : List Val
deriving DecidableEq, Repr, Inhabited

structure VM where
  cur : Frame
  frames : List Frame        -- suspended callers, innermost first
deriving DecidableEq, Repr, Inhabited

inductive StepRes where
  | next (vm : VM)
  | halt (v : Val)           -- `ret` with no caller: the result of the program
  | stuck
deriving Repr, Inhabited

def stepVM (fns : List FnDef) (vm : VM) : StepRes :=
  let fr := vm.cur
  match fr.code[fr.ip]? with
  | none => .stuck
  | some ins =>
    let adv (stack : List Val) (d : Nat := 1) : StepRes :=
      .next { vm with cur := { fr with ip := fr.ip + d, stack := stack } }
    match ins with
    | .push v => adv (fr.stack ++ [v])
    | .readLocal i =>
        match fr.stack[i]? with
        | some v => adv (fr.stack ++ [v])
        | none => .stuck
    | .setLocal i =>
        match fr.stack.getLast? with
        | none => .stuck
        | some v =>
          let s := fr.stack.dropLast
          match s[i]? with
          | some old => adv (s.set i v ++ [old])
          | none => .stuck
    | .prim op =>
        match fr.stack.dropLast.getLast?, fr.stack.getLast? with
        | some a, some b =>
          match op.apply a b with
          | some r => adv (fr.stack.dropLast.dropLast ++ [r])
          | none => .stuck
        | _, _ => .stuck
    | .jmpIfFalse off =>
        match fr.stack.getLast? with
        | some c => if truthy c then adv fr.stack.dropLast else adv fr.stack.dropLast (off + 1)
        | none => .stuck
    | .jmp off => adv fr.stack (off + 1)
    | .letEnd =>
        match fr.stack.getLast? with
        | some v => adv (fr.stack.dropLast.dropLast ++ [v])
        | none => .stuck
    | .pop => if fr.stack = [] then .stuck else adv fr.stack.dropLast
    | .call f n =>
        match fns[f]? with
        | none => .stuck
        | some fd =>
          if fd.arity ≠ n ∨ fr.stack.length < n then .stuck
          else
            let args := fr.stack.drop (fr.stack.length - n)
            let caller := { fr with ip := fr.ip + 1, stack := fr.stack.take (fr.stack.length - n) }
            .next { cur := { code := compileFn fd, ip := 0, stack := args }, frames := caller :: vm.frames }
    | .tailCall f n =>
        match fns[f]? with
        | none => .stuck
        | some fd =>
          if fd.arity ≠ n ∨ fr.stack.length < n then .stuck
          else
            -- reuse the frame: the caller list is unchanged
            .next { vm with cur := { code := compileFn fd, ip := 0, stack := fr.stack.drop (fr.stack.length - n) } }
    | .ret =>
        match fr.stack.getLast? with
        | none => .stuck
        | some v =>
          match vm.frames with
          | [] => .halt v
          | caller :: rest => .next { cur := { caller with stack := caller.stack ++ [v] }, frames := rest }

def runVM (fns : List FnDef) : Nat → VM → Option Val
  | 0, _ => none
  | fuel + 1, vm =>
    match stepVM fns vm with
    | .next vm' => runVM fns fuel vm'
    | .halt v => some v
    | .stuck => none

/-- `n` steps of the VM. -/
def stepsVM (fns : List FnDef) : Nat → VM → Option VM
  | 0, vm => some vm
  | n + 1, vm =>
    match stepVM fns vm with
    | .next vm' => stepsVM fns n vm'
    | _ => none

end SteelVerif.C01
