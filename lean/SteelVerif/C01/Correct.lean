/-
C01 — the code generator is correct for the fragment: whenever the reference semantics of the lowered
core yields a value, the compiled code run by the VM yields the same value and the same frame contents.
-/
import SteelVerif.C01.Lemmas
namespace SteelVerif.C01

def M1 (fns : List FnDef) (fuel : Nat) (e : IR) (s : List Val) : Prop :=
  ∀ v s', evalIR fns fuel e s = some (v, s') → ∀ pre post frames,
    Exec fns (at_ pre (compile e) post 0 s frames) (at_ pre (compile e) post (compile e).length (s' ++ [v]) frames)

def M2 (fns : List FnDef) (fuel : Nat) (args : List IR) (s : List Val) : Prop :=
  ∀ s1, evalArgs fns fuel args s = some s1 → ∀ pre post frames,
    Exec fns (at_ pre (compile.compileArgsL args) post 0 s frames)
      (at_ pre (compile.compileArgsL args) post (compile.compileArgsL args).length s1 frames)

theorem exec_call (fns : List FnDef) (pre mid post : List Instr) (k : Nat) (s1 : List Val) (fr : List Frame)
    (f n : Nat) (fd : FnDef) (h : mid[k]? = some (.call f n)) (hf : fns[f]? = some fd)
    (ha : fd.arity = n) (hl : n ≤ s1.length) :
    Exec fns (at_ pre mid post k s1 fr)
      { cur := { code := compileFn fd, ip := 0, stack := s1.drop (s1.length - n) },
        frames := { code := pre ++ mid ++ post, ip := pre.length + k + 1, stack := s1.take (s1.length - n) } :: fr } := by
  refine Exec.step ?_
  have hc := code_at pre mid post k _ h
  simp only [stepVM, at_] at hc ⊢
  simp only [hc, hf]
  have : ¬ (fd.arity ≠ n ∨ s1.length < n) := by omega
  simp [this]

theorem exec_ret (fns : List FnDef) (code : List Instr) (ip : Nat) (s : List Val) (v : Val)
    (caller : Frame) (rest : List Frame) (h : code[ip]? = some .ret) :
    Exec fns { cur := { code := code, ip := ip, stack := s ++ [v] }, frames := caller :: rest }
      { cur := { caller with stack := caller.stack ++ [v] }, frames := rest } := by
  refine Exec.step ?_
  simp [stepVM, h]

theorem exec_letEnd' (fns : List FnDef) (pre mid post : List Instr) (k : Nat) (s : List Val) (fr : List Frame)
    (v : Val) (h : mid[k]? = some .letEnd) :
    Exec fns (at_ pre mid post k (s ++ [v]) fr) (at_ pre mid post (k + 1) (s.dropLast ++ [v]) fr) :=
  step_simple fns pre mid post k _ _ fr _ h 1 (by intro vm hc hs; simp [stepVM, hc, hs])

theorem dropLast_getLast (l : List Val) (a : Val) (h : l.getLast? = some a) : l.dropLast ++ [a] = l := by
  induction l with
  | nil => simp at h
  | cons x xs ih =>
    cases xs with
    | nil => simp at h; simp [h]
    | cons y ys =>
      have : (y :: ys).getLast? = some a := by simpa [List.getLast?_cons_cons] using h
      simp [List.dropLast, ih this]

theorem exec_embed {fns : List FnDef} {pre mid post pre' mid' post' : List Instr} (j1 j2 : Nat) {k1 k2 : Nat}
    {s s2 : List Val} {fr : List Frame}
    (h : Exec fns (at_ pre' mid' post' k1 s fr) (at_ pre' mid' post' k2 s2 fr))
    (hc : pre ++ mid ++ post = pre' ++ mid' ++ post')
    (h1 : pre.length + j1 = pre'.length + k1) (h2 : pre.length + j2 = pre'.length + k2) :
    Exec fns (at_ pre mid post j1 s fr) (at_ pre mid post j2 s2 fr) := by
  rw [at_eq s fr hc h1, at_eq s2 fr hc h2]; exact h

theorem compile_correct_aux (fns : List FnDef) (fuel : Nat) (e : IR) (s : List Val) : M1 fns fuel e s := by
  induction fuel, e, s using evalIR.induct (fns := fns) (motive2 := M2 fns) with
  | case1 fuel v s =>
    intro v' s' h pre post frames
    simp only [evalIR, Option.some.injEq, Prod.mk.injEq] at h
    obtain ⟨rfl, rfl⟩ := h
    exact exec_push fns pre _ post 0 s frames v (by simp [compile])
  | case2 fuel i s =>
    intro v' s' h pre post frames
    simp only [evalIR, Option.map_eq_some_iff, Prod.mk.injEq] at h
    obtain ⟨a, ha, rfl, rfl⟩ := h
    exact exec_readLocal fns pre _ post 0 s frames i a (by simp [compile]) ha
  | case3 fuel op a b s ha _ => intro v s' h; simp [evalIR, ha] at h
  | case4 fuel op a b s va s1 ha hb _ _ => intro v s' h; simp [evalIR, ha, hb] at h
  | case5 fuel op a b s va s1 ha vb s2 hb hl _ _ => intro v s' h; simp [evalIR, ha, hb, hl] at h
  | case6 fuel op a b s va s1 ha vb s2 hb va' hl iha ihb =>
    intro v s' h pre post frames
    simp only [evalIR, ha, hb, hl, Option.map_eq_some_iff, Prod.mk.injEq] at h
    obtain ⟨r, hr, rfl, rfl⟩ := h
    have hs2 : s2 = s2.dropLast ++ [va'] := (dropLast_getLast s2 va' hl).symm
    have e1 := iha va s1 ha pre (compile b ++ [.prim op] ++ post) frames
    have e2 := ihb vb s2 hb (pre ++ compile a) ([.prim op] ++ post) frames
    have e3 := exec_prim fns (pre ++ compile a ++ compile b) [.prim op] post 0 s2.dropLast frames op va' vb r
      (by simp) hr
    rw [← hs2] at e3
    refine Exec.trans (exec_embed 0 (compile a).length e1 (by simp [compile, List.append_assoc]) (by simp) (by simp)) ?_
    refine Exec.trans (exec_embed (compile a).length ((compile a).length + (compile b).length) e2
      (by simp [compile, List.append_assoc]) (by simp) (by simp <;> omega)) ?_
    exact exec_embed _ _ e3 (by simp [compile, List.append_assoc]) (by simp <;> omega) (by simp [compile] <;> omega)
  | case7 fuel c t e s hc _ => intro v s' h; simp [evalIR, hc] at h
  | case8 fuel c t e s vc s1 hc ht ihc iht =>
    intro v s' h pre post frames
    simp only [evalIR, hc, ht, if_true] at h
    have e1 := ihc vc s1 hc pre ([.jmpIfFalse ((compile t).length + 1)] ++ compile t ++
      [.jmp (compile e).length] ++ compile e ++ post) frames
    have e2 := exec_jmpIfFalse_true fns (pre ++ compile c) [.jmpIfFalse ((compile t).length + 1)]
      (compile t ++ [.jmp (compile e).length] ++ compile e ++ post) 0 s1 frames ((compile t).length + 1) vc
      (by simp) ht
    have e3 := iht v s' h (pre ++ compile c ++ [.jmpIfFalse ((compile t).length + 1)])
      ([.jmp (compile e).length] ++ compile e ++ post) frames
    have e4 := exec_jmp fns (pre ++ compile c ++ [.jmpIfFalse ((compile t).length + 1)] ++ compile t)
      [.jmp (compile e).length] (compile e ++ post) 0 (s' ++ [v]) frames (compile e).length (by simp)
    refine Exec.trans (exec_embed 0 (compile c).length e1 (by simp [compile, List.append_assoc]) (by simp) (by simp)) ?_
    refine Exec.trans (exec_embed (compile c).length ((compile c).length + 1) e2
      (by simp [compile, List.append_assoc]) (by simp) (by simp <;> omega)) ?_
    refine Exec.trans (exec_embed ((compile c).length + 1) ((compile c).length + 1 + (compile t).length) e3
      (by simp [compile, List.append_assoc]) (by simp <;> omega) (by simp <;> omega)) ?_
    exact exec_embed _ _ e4 (by simp [compile, List.append_assoc]) (by simp <;> omega) (by simp [compile] <;> omega)
  | case9 fuel c t e s vc s1 hc ht ihc ihe =>
    intro v s' h pre post frames
    have ht' : truthy vc = false := by simpa using ht
    simp only [evalIR, hc, ht', Bool.false_eq_true, if_false] at h
    have e1 := ihc vc s1 hc pre ([.jmpIfFalse ((compile t).length + 1)] ++ compile t ++
      [.jmp (compile e).length] ++ compile e ++ post) frames
    have e2 := exec_jmpIfFalse_false fns (pre ++ compile c) [.jmpIfFalse ((compile t).length + 1)]
      (compile t ++ [.jmp (compile e).length] ++ compile e ++ post) 0 s1 frames ((compile t).length + 1) vc
      (by simp) ht'
    have e3 := ihe v s' h (pre ++ compile c ++ [.jmpIfFalse ((compile t).length + 1)] ++ compile t ++
      [.jmp (compile e).length]) post frames
    refine Exec.trans (exec_embed 0 (compile c).length e1 (by simp [compile, List.append_assoc]) (by simp) (by simp)) ?_
    refine Exec.trans (exec_embed (compile c).length ((compile c).length + 1 + (compile t).length + 1) e2
      (by simp [compile, List.append_assoc]) (by simp) (by simp <;> omega)) ?_
    exact exec_embed _ _ e3 (by simp [compile, List.append_assoc]) (by simp <;> omega) (by simp [compile] <;> omega)
  | case10 fuel e body s he _ => intro v s' h; simp [evalIR, he] at h
  | case11 fuel e body s ve s1 he hb _ _ => intro v s' h; simp [evalIR, he, hb] at h
  | case12 fuel e body s ve s1 he vb s2 hb ihe ihb =>
    intro v s' h pre post frames
    simp only [evalIR, he, hb, Option.some.injEq, Prod.mk.injEq] at h
    obtain ⟨rfl, rfl⟩ := h
    have e1 := ihe ve s1 he pre (compile body ++ [.letEnd] ++ post) frames
    have e2 := ihb vb s2 hb (pre ++ compile e) ([.letEnd] ++ post) frames
    have e3 := exec_letEnd' fns (pre ++ compile e ++ compile body) [.letEnd] post 0 s2 frames vb (by simp)
    refine Exec.trans (exec_embed 0 (compile e).length e1 (by simp [compile, List.append_assoc]) (by simp) (by simp)) ?_
    refine Exec.trans (exec_embed (compile e).length ((compile e).length + (compile body).length) e2
      (by simp [compile, List.append_assoc]) (by simp) (by simp <;> omega)) ?_
    exact exec_embed _ _ e3 (by simp [compile, List.append_assoc]) (by simp <;> omega) (by simp [compile] <;> omega)
  | case13 fuel a b s ha _ => intro v s' h; simp [evalIR, ha] at h
  | case14 fuel a b s va s1 ha iha ihb =>
    intro v s' h pre post frames
    simp only [evalIR, ha] at h
    have e1 := iha va s1 ha pre ([.pop] ++ compile b ++ post) frames
    have e2 := exec_pop fns (pre ++ compile a) [.pop] (compile b ++ post) 0 s1 frames va (by simp)
    have e3 := ihb v s' h (pre ++ compile a ++ [.pop]) post frames
    refine Exec.trans (exec_embed 0 (compile a).length e1 (by simp [compile, List.append_assoc]) (by simp) (by simp)) ?_
    refine Exec.trans (exec_embed (compile a).length ((compile a).length + 1) e2
      (by simp [compile, List.append_assoc]) (by simp) (by simp <;> omega)) ?_
    exact exec_embed _ _ e3 (by simp [compile, List.append_assoc]) (by simp <;> omega) (by simp [compile] <;> omega)
  | case15 fuel i e s he _ => intro v s' h; simp [evalIR, he] at h
  | case16 fuel i e s ve s1 he hi _ => intro v s' h; simp [evalIR, he, hi] at h
  | case17 fuel i e s ve s1 he old hi ihe =>
    intro v s' h pre post frames
    simp only [evalIR, he, hi, Option.some.injEq, Prod.mk.injEq] at h
    obtain ⟨rfl, rfl⟩ := h
    have e1 := ihe ve s1 he pre ([.setLocal i] ++ post) frames
    have e2 := exec_setLocal fns (pre ++ compile e) [.setLocal i] post 0 s1 frames i ve old (by simp) hi
    refine Exec.trans (exec_embed 0 (compile e).length e1 (by simp [compile, List.append_assoc]) (by simp) (by simp)) ?_
    exact exec_embed _ _ e2 (by simp [compile, List.append_assoc]) (by simp <;> omega) (by simp [compile] <;> omega)
  | case18 f args s => intro v s' h; simp [evalIR] at h
  | case19 fuel f args s ha _ => intro v s' h; simp [evalIR, ha] at h
  | case20 fuel f args s s1 ha hf _ => intro v s' h; simp [evalIR, ha, hf] at h
  | case21 fuel f args s s1 ha fd hf hbad _ => intro v s' h; simp [evalIR, ha, hf, hbad] at h
  | case22 fuel f args s s1 ha fd hf hok hb _ _ => intro v s' h; simp [evalIR, ha, hf, hok, hb] at h
  | case23 fuel f args s s1 ha fd hf hok vb s2 hb iha ihb =>
    intro v s' h pre post frames
    simp only [evalIR, ha, hf, hok, hb, if_false, Option.some.injEq, Prod.mk.injEq] at h
    obtain ⟨rfl, rfl⟩ := h
    have hok' : fd.arity = args.length ∧ args.length ≤ s1.length := by omega
    have e1 := iha s1 ha pre ([.call f args.length] ++ post) frames
    have e2 := exec_call fns (pre ++ compile.compileArgsL args) [.call f args.length] post 0 s1 frames f
      args.length fd (by simp) hf hok'.1 hok'.2
    have e3 := ihb vb s2 hb [] [.ret]
      ({ code := pre ++ compile.compileArgsL args ++ [.call f args.length] ++ post,
         ip := (pre ++ compile.compileArgsL args).length + 0 + 1,
         stack := s1.take (s1.length - args.length) } :: frames)
    have e4 := exec_ret fns ([] ++ compile fd.body ++ [.ret]) (([] : List Instr).length + (compile fd.body).length) s2 vb
      { code := pre ++ compile.compileArgsL args ++ [.call f args.length] ++ post,
        ip := (pre ++ compile.compileArgsL args).length + 0 + 1,
        stack := s1.take (s1.length - args.length) } frames (by simp)
    refine Exec.trans (exec_embed 0 (compile.compileArgsL args).length e1 (by simp [compile, List.append_assoc])
      (by simp) (by simp)) ?_
    have e2' : Exec fns (at_ pre (compile (IR.call f args)) post (compile.compileArgsL args).length s1 frames)
        (at_ [] (compile fd.body) [.ret] 0 (s1.drop (s1.length - args.length))
          ({ code := pre ++ compile.compileArgsL args ++ [.call f args.length] ++ post,
             ip := (pre ++ compile.compileArgsL args).length + 0 + 1,
             stack := s1.take (s1.length - args.length) } :: frames)) := by
      rw [at_eq s1 frames (pre' := pre ++ compile.compileArgsL args) (mid' := [.call f args.length]) (post' := post)
        (k' := 0) (by simp [compile, List.append_assoc]) (by simp)]
      simpa [at_, compileFn] using e2
    refine Exec.trans e2' ?_
    refine Exec.trans e3 ?_
    have : at_ pre (compile (IR.call f args)) post (compile (IR.call f args)).length
        (s1.take (s1.length - args.length) ++ [vb]) frames =
        { cur := { code := pre ++ compile.compileArgsL args ++ [.call f args.length] ++ post,
                   ip := (pre ++ compile.compileArgsL args).length + 0 + 1,
                   stack := s1.take (s1.length - args.length) ++ [vb] }, frames := frames } := by
      simp [at_, compile, List.append_assoc]; omega
    rw [this]
    simpa [at_] using e4
  | case24 fuel s =>
    intro s1 h pre post frames
    simp only [evalArgs, Option.some.injEq] at h
    subst h
    exact Exec.refl _ _
  | case25 fuel a rest s ha _ => intro s1 h; simp [evalArgs, ha] at h
  | case26 fuel a rest s va s1 ha iha ihr =>
    intro s2 h pre post frames
    simp only [evalArgs, ha] at h
    have e1 := iha va s1 ha pre (compile.compileArgsL rest ++ post) frames
    have e2 := ihr s2 h (pre ++ compile a) post frames
    refine Exec.trans (exec_embed 0 (compile a).length e1 (by simp [compile.compileArgsL, List.append_assoc])
      (by simp) (by simp)) ?_
    exact exec_embed _ _ e2 (by simp [compile.compileArgsL, List.append_assoc]) (by simp <;> omega)
      (by simp [compile.compileArgsL] <;> omega)

end SteelVerif.C01
