import SteelVerif.C01.Props
open SteelVerif.C01
#print axioms compile_correct
#print axioms compile_correct_in_context
#print axioms read_after_write
#print axioms dead_branch_irrelevant
#print axioms dead_branch_vm
#print axioms eval_preserves_height
#print axioms call_arity_exact
#print axioms call_args_exact
#print axioms SteelVerif.C01C.compile_correct_core
#print axioms SteelVerif.C01C.compile_correct_core_in_context
#print axioms SteelVerif.C01C.setbox_then_unbox
#print axioms SteelVerif.C01C.closure_captures_by_reference
#print axioms SteelVerif.C01C.call_args_exact_core
#print axioms SteelVerif.C01C.apply_args_exact
#print axioms SteelVerif.C01C.tail_call_constant_frames
#print axioms SteelVerif.C01C.tail_call_stack_height
#print axioms SteelVerif.C01C.tail_call_global_constant_frames
#print axioms SteelVerif.C01C.dead_code_never_runs_core
#print axioms SteelVerif.C01C.dead_code_never_runs_core'
#print axioms SteelVerif.C01C.call_of_nonprocedure_is_error
#print axioms SteelVerif.C01C.call_error_reported
#print axioms SteelVerif.C01C.compile_correct_program
