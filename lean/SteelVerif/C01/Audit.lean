import SteelVerif.C01.Props
open SteelVerif.C01
#print axioms compile_correct
#print axioms compile_correct_in_context
#print axioms read_after_write
#print axioms dead_branch_irrelevant
#print axioms dead_branch_vm
#print axioms eval_preserves_height
#print axioms call_arity_exact
#print axioms call_args_exact
