import SteelVerif.C01.Props
open SteelVerif.C01
#print axioms compile_correct
#print axioms compile_correct_in_context
#print axioms read_after_write
#print axioms dead_branch_irrelevant
#print axioms dead_branch_vm
#print axioms eval_preserves_height
#print axioms call_arity_exact
#print axioms call_args_exact
#print axioms SteelVerif.C01C.compile_correct_core
#print axioms SteelVerif.C01C.compile_correct_core_in_context
#print axioms SteelVerif.C01C.setbox_then_unbox
#print axioms SteelVerif.C01C.closure_captures_by_reference
#print axioms SteelVerif.C01C.call_args_exact_core
#print axioms SteelVerif.C01C.apply_args_exact
#print axioms SteelVerif.C01C.tail_call_constant_frames
#print axioms SteelVerif.C01C.tail_call_stack_height
#print axioms SteelVerif.C01C.tail_call_global_constant_frames
#print axioms SteelVerif.C01C.dead_code_never_runs_core
-- (the audit's line parser cannot read a theorem name that ends with a prime: print it through an alias)
def SteelVerif.C01C.dead_code_never_runs_core_else := @SteelVerif.C01C.dead_code_never_runs_core'
#print axioms SteelVerif.C01C.dead_code_never_runs_core_else
#print axioms SteelVerif.C01C.call_of_nonprocedure_is_error
#print axioms SteelVerif.C01C.call_error_reported
#print axioms SteelVerif.C01C.compile_correct_program
#print axioms SteelVerif.C01C.compile_correct_core_errors
#print axioms SteelVerif.C01C.vm_outcome_is_semantic_outcome
#print axioms SteelVerif.C01C.vm_error_is_semantic_error
#print axioms SteelVerif.C01C.two_closures_share_variable
#print axioms SteelVerif.C01C.shared_variable_program
#print axioms SteelVerif.C01BC.modelled_opcodes_exist
#print axioms SteelVerif.C01BC.executed_opcodes_dispatched
#print axioms SteelVerif.C01BC.word_opcodes_not_dispatched
#print axioms SteelVerif.C01BC.word_opcodes_bad_in_model
#print axioms SteelVerif.C01BC.reader_only_modelled
#print axioms SteelVerif.C01BC.extended_opcodes_exist
#print axioms SteelVerif.C01BC.extended_call_opcodes_dispatched
#print axioms SteelVerif.C01BC.specialised_opcodes_exist
#print axioms SteelVerif.C01BC.specialised_opcodes_dispatched
