/-
C19 — unreachable mutable storage, including cycles, is eventually reclaimed: the property theorems.
The mechanism model is C04's (`SteelVerif/C04/Model.lean`: free list, collector, combined machine).
-/
import SteelVerif.C04.Props
import SteelVerif.C04.LemmasBound
import SteelVerif.C19.Roots
namespace SteelVerif.C19
open SteelVerif.C04

/-! ## count_inv — `alloc_count` is the number of free slots, after every operation -/

/-- One step of the machine keeps the free-list invariant (no assumption on the program). -/
theorem step_wf (P : Params) (hP : 0 < P.chunk) (E : Edges) (s : MState) (hw : WF s.heap) (op : Op) :
    WF (step P E s op).1.heap := by
  cases op with
  | alloc v =>
    exact (allocate_spec P hP (WF_valueCollection P hP E (v :: s.roots) false hw) v).wf
  | write a o v => exact WF_write a v hw
  | read a o => exact hw
  | addRoot v => exact hw
  | dropRoot i => exact hw
  | gcMinor => exact WF_weakCollect _ hw
  | gcFull => exact WF_valueCollection P hP E s.roots true hw

theorem run_wf (P : Params) (hP : 0 < P.chunk) (E : Edges) (ops : List Op) :
    ∀ s : MState, WF s.heap → WF (run P E s ops).1.heap := by
  induction ops with
  | nil => intro s hw; exact hw
  | cons op rest ih => intro s hw; exact ih _ (step_wf P hP E s hw op)

/-- **count_inv.**  For every operation list (allocations with the collector's own policy, writes, root
changes, minor and full collections anywhere) from the initial heap: `alloc_count` equals the number of
slots whose mark bit is clear, the slot under the cursor is free, and slot addresses are distinct. -/
theorem count_inv (P : Params) (hP : 0 < P.chunk) (hI : 0 < P.init) (E : Edges) (ops : List Op) :
    let h := (run P E (MState.init P) ops).1.heap
    h.allocCount = freeCount h.cells ∧
    (∃ c, h.cells[h.cursor]? = some c ∧ c.reachable = false) ∧ AddrNodup h.cells := by
  have hw := run_wf P hP E ops (MState.init P) (WF_new P hI)
  exact ⟨hw.count, hw.cursorFree, hw.nodup⟩

/-- The individual operations (each keeps the invariant, from any state that has it). -/
theorem count_inv_allocate (P : Params) (hP : 0 < P.chunk) (h : Heap) (hw : WF h) (v : Val) :
    (h.allocate P v).1.allocCount = freeCount (h.allocate P v).1.cells := (allocate_spec P hP hw v).wf.count

theorem count_inv_minor (h : Heap) (hw : WF h) (ext : Addr → Bool) :
    (h.weakCollect ext).allocCount = freeCount (h.weakCollect ext).cells := (WF_weakCollect ext hw).count

theorem count_inv_full (P : Params) (hP : 0 < P.chunk) (E : Edges) (roots : List Val) (h : Heap) (hw : WF h) :
    (h.collect P E roots).allocCount = freeCount (h.collect P E roots).cells :=
  (WF_valueCollection P hP E roots true hw).count

/-! ### several root sets marked one after the other (other threads' stacks, then the collecting thread)

`Heap::mark` first marks the roots of every other thread (`Synchronizer::enumerate_stacks`, sequential copy of
the traversal, counted in `context.stats`) and then hands its own roots to the parallel marker (counted in
the workers' statistics).  `alloc_count := len − reached`. -/

/-- The free count that `Heap::value_collection` computes when the other threads' roots are marked first:
`sumStats = true`: `reached` is the sum of both counters (the code after commit b0ffd538);
`sumStats = false`: the first counter is dropped (the code before). -/
def markTwoPhases (E : Edges) (others roots : List Val) (sumStats : Bool) (cs : List Cell) : List Cell × Nat :=
  let r1 := markLoop E (markAll cs) others 0
  let r2 := markLoop E r1.1 roots 0
  (r2.1, r2.1.length - (if sumStats then r1.2 + r2.2 else r2.2))

theorem count_inv_other_threads (E : Edges) (others roots : List Val) (cs : List Cell) (hnd : AddrNodup cs) :
    (markTwoPhases E others roots true cs).2 = freeCount (markTwoPhases E others roots true cs).1 := by
  have h1 := markLoop_count E (markAll cs) others 0 (AddrNodup_markAll hnd)
  obtain ⟨A, hA⟩ := markLoop_shape E (markAll cs) others 0
  have hnd1 : AddrNodup (markLoop E (markAll cs) others 0).1 := by
    rw [hA]; exact AddrNodup_markSet _ (AddrNodup_markAll hnd)
  have h2 := markLoop_count E (markLoop E (markAll cs) others 0).1 roots 0 hnd1
  obtain ⟨B, hB⟩ := markLoop_shape E (markLoop E (markAll cs) others 0).1 roots 0
  have hlen : (markLoop E (markLoop E (markAll cs) others 0).1 roots 0).1.length = cs.length := by
    rw [hB, markSet_length, hA, markSet_length]; simp [markAll]
  rw [freeCount_markAll] at h1
  have hle := freeCount_le_length (markLoop E (markLoop E (markAll cs) others 0).1 roots 0).1
  simp only [markTwoPhases, if_true]
  omega

/-- With the first counter dropped the invariant fails as soon as another thread holds a slot: one slot,
held by the other thread only, is counted as free although it is marked. -/
theorem count_inv_fails_if_stats_dropped :
    let cs : List Cell := [{ addr := 0, reachable := true, value := .atom 1 }]
    (markTwoPhases allEdges [.ref 0 0] [] false cs).2 ≠ freeCount (markTwoPhases allEdges [.ref 0 0] [] false cs).1 := by
  intro cs
  have h1 : markLoop allEdges (markAll cs) [.ref 0 0] 0 = ([{ addr := 0, reachable := true, value := .atom 1 }], 1) := by
    rw [show markAll cs = [{ addr := 0, reachable := false, value := .atom 1 }] from rfl,
      markLoop_ref_unmarked allEdges 0 _ _ (c := ⟨0, false, .atom 1⟩) rfl rfl, markLoop_atom, markLoop_nil]
    rfl
  simp only [markTwoPhases, h1, markLoop_nil]
  decide

/-! ## sweep_complete — what is not reachable is free after a full collection (cycles included) -/

/-- **sweep_complete.**  After a full collection every slot that is still marked allocated is reachable from
the roots, by graph reachability along the fields the marker follows — so unreachable slots, whether they
form chains, cycles of any length or point into live data, are free. -/
theorem sweep_complete (P : Params) (E : Edges) (roots : List Val) (h : Heap) (d : Cell)
    (hd : d ∈ (h.collect P E roots).cells) (hun : ¬ Reach E h.cells roots d.addr) : d.reachable = false := by
  have hd' : d ∈ ((h.weakCollect (extOf roots)).fullPart P E roots).cells := by
    simpa [Heap.collect, Heap.valueCollection] using hd
  rcases fullPart_only P E roots _ d hd' with ⟨c, _, _, _, hr⟩ | ⟨hfree, _⟩
  · cases hdr : d.reachable with
    | false => rfl
    | true =>
      exfalso
      apply hun
      refine Reach_of_values ?_ (hr hdr)
      intro c' hc'
      obtain ⟨c0, hc0, ha, hv, _⟩ := weakCollect_values' (extOf roots) c' hc'
      exact ⟨c0, hc0, ha.symm, hv.symm⟩
  · exact hfree

/-- The marker follows no more than the specification (proved fields): unreachable in the specification's
sense ⇒ unreachable for the marker ⇒ free after a collection. -/
theorem marker_follows_only_spec_fields :
    ∀ k, k < Gen.steelValVariants.length → ∀ f ∈ implEdgesBoth k, (specEdges k).contains f := by decide

/-- Non-vacuity: a garbage cycle of length 2 (slots 11 ⇄ 12) next to a live slot 10 is swept. -/
example :
    let cs : List Cell := [⟨10, true, .atom 1⟩, ⟨11, true, .ref 12 0⟩, ⟨12, true, .ref 11 0⟩]
    (markLoop allEdges (markAll cs) [.ref 10 0] 0).1.map (·.reachable) = [true, false, false] := by
  intro cs
  rw [show markAll cs = [⟨10, false, .atom 1⟩, ⟨11, false, .ref 12 0⟩, ⟨12, false, .ref 11 0⟩] from rfl,
    markLoop_ref_unmarked allEdges 0 _ _ (c := ⟨10, false, .atom 1⟩) rfl rfl, markLoop_atom, markLoop_nil]
  rfl

/-! ## reuse_before_grow -/

/-- **reuse_before_grow.**  `allocate` always hands out a slot that already exists and was free, and it
extends the list only when that was the last free slot. -/
theorem reuse_before_grow (P : Params) (hP : 0 < P.chunk) (h : Heap) (hw : WF h) (v : Val) :
    (∃ c ∈ h.cells, c.addr = (h.allocate P v).2 ∧ c.reachable = false) ∧
    ((h.allocate P v).1.cells.length ≠ h.cells.length → freeCount h.cells = 1) :=
  ⟨(allocate_spec P hP hw v).wasFree, (allocate_spec P hP hw v).reuse⟩

/-- Hence: while two slots are free, allocating neither grows the list nor changes `grow_count`. -/
theorem no_growth_while_free (P : Params) (hP : 0 < P.chunk) (h : Heap) (hw : WF h) (v : Val)
    (h2 : 2 ≤ freeCount h.cells) : (h.allocate P v).1.cells.length = h.cells.length := by
  by_cases hne : (h.allocate P v).1.cells.length = h.cells.length
  · exact hne
  · have := (allocate_spec P hP hw v).reuse hne
    omega

/-! ## weak_box_cleared -/

/-- **weak_box_cleared.**  A weak box holds the only handle to its private slot `a` (`others = false`).  If,
at a full collection, `a` is not reachable from the roots, then afterwards `weak-box-value` reports the box
as cleared (`HeapRef::maybe_get_from_weak` returns `None`). -/
theorem weak_box_cleared (P : Params) (E : Edges) (roots : List Val) (h : Heap) (a : Addr)
    (hun : ¬ Reach E h.cells roots a) : (h.collect P E roots).weakGet a false = none := by
  unfold Heap.weakGet
  cases hc : readCell (h.collect P E roots).cells a with
  | none => rfl
  | some c =>
    obtain ⟨hcm, hca⟩ := readCell_some hc
    have := sweep_complete P E roots h c hcm (hca ▸ hun)
    simp [this]

/-! ## heap_bounded — bounded live set ⇒ bounded number of slots, for any number of operations -/

/-- The hypothesis "the live set at every full collection is at most `M`": at every step that may run a full
collection (an allocation — policy — or an explicit collection) the number of slots it would mark is ≤ `M`. -/
def LiveOK (M : Nat) (P : Params) (E : Edges) : MState → List Op → Prop
  | _, [] => True
  | s, op :: rest =>
    (match op with
      | .alloc v => markedCount E (v :: s.roots) s.heap ≤ M
      | .gcFull => markedCount E s.roots s.heap ≤ M
      | _ => True) ∧ LiveOK M P E (step P E s op).1 rest

theorem step_bounded (M : Nat) (P : Params) (hc40 : 40 ≤ P.chunk) (hcM : P.chunk ≤ M) (E : Edges) (s : MState)
    (hw : WF s.heap) (hb : BInv M P.resetLimit s.heap) (op : Op)
    (hl : match op with
      | .alloc v => markedCount E (v :: s.roots) s.heap ≤ M
      | .gcFull => markedCount E s.roots s.heap ≤ M
      | _ => True) : BInv M P.resetLimit (step P E s op).1.heap := by
  cases op with
  | alloc v => exact BInv_allocateGC P rfl hc40 hcM E s.roots v hw hb hl
  | write a o v =>
    show BInv M P.resetLimit (s.heap.write a v)
    have : (s.heap.write a v).cells.length = s.heap.cells.length := by simp [Heap.write]
    unfold BInv at *
    rw [this]; exact hb
  | read a o => exact hb
  | addRoot v => exact hb
  | dropRoot i => exact hb
  | gcMinor => exact BInv_weakCollect _ hb
  | gcFull => exact BInv_valueCollection P rfl hc40 hcM E s.roots true hb hl

theorem run_bounded (M : Nat) (P : Params) (hc40 : 40 ≤ P.chunk) (hcM : P.chunk ≤ M) (E : Edges) (ops : List Op) :
    ∀ s : MState, WF s.heap → BInv M P.resetLimit s.heap → LiveOK M P E s ops →
      BInv M P.resetLimit (run P E s ops).1.heap := by
  induction ops with
  | nil => intro s _ hb _; exact hb
  | cons op rest ih =>
    intro s hw hb hl
    exact ih _ (step_wf P (by omega) E s hw op) (step_bounded M P hc40 hcM E s hw hb op hl.1) hl.2

/-- **heap_bounded.**  With `EXTEND_CHUNK ≥ 40` and an initial size between 40 and `2·M`: for EVERY operation
list (allocations with the collector's policy, writes, root changes, explicit minor/full collections anywhere)
in which every full collection finds at most `M ≥ EXTEND_CHUNK` live slots, the number of slots never exceeds
`2·M·2^RESET_LIMIT` — a bound that does not depend on the number of operations — and `grow_count` stays within
`1 … RESET_LIMIT+1`.  (For the constants of the code: `max(L, 25600) · 2^10` slots.) -/
theorem heap_bounded (M : Nat) (P : Params) (hc40 : 40 ≤ P.chunk) (hcM : P.chunk ≤ M) (hi40 : 40 ≤ P.init)
    (hiM : P.init ≤ 2 * M) (E : Edges) (ops : List Op) (hl : LiveOK M P E (MState.init P) ops) :
    (run P E (MState.init P) ops).1.heap.cells.length ≤ 2 * M * 2 ^ P.resetLimit ∧
    (run P E (MState.init P) ops).1.heap.growCount ≤ P.resetLimit + 1 := by
  have hb0 : BInv M P.resetLimit (MState.init P).heap := by
    have hlen : (Heap.new P).cells.length = P.init := by
      simp [Heap.new, growBy_length]
    refine ⟨by simp [MState.init, Heap.new, Heap.growBy], by simp [MState.init, Heap.new, Heap.growBy], ?_, ?_⟩
    · show 40 ≤ (Heap.new P).cells.length; omega
    · show (Heap.new P).cells.length ≤ 2 * M * 2 ^ ((Heap.new P).growCount - 1)
      rw [hlen]
      simp [Heap.new, Heap.growBy]
      exact hiM
  have hb := run_bounded M P hc40 hcM E ops (MState.init P) (WF_new P (by omega)) hb0 hl
  obtain ⟨h1, h2, _, h4⟩ := hb
  refine ⟨?_, h2⟩
  calc (run P E (MState.init P) ops).1.heap.cells.length
      ≤ 2 * M * 2 ^ ((run P E (MState.init P) ops).1.heap.growCount - 1) := h4
    _ ≤ 2 * M * 2 ^ P.resetLimit := Nat.mul_le_mul_left _ (Nat.pow_le_pow_right (by omega) (by omega))

/-- Non-vacuity: the constants of the code satisfy the side conditions (with `L = 1000` live slots), and the
hypothesis is satisfiable for a run that collects. -/
example : (40 ≤ ({} : Params).chunk) ∧ ({} : Params).chunk ≤ max 1000 25600 ∧ 40 ≤ ({} : Params).init ∧
    ({} : Params).init ≤ 2 * max 1000 25600 := by decide

example : LiveOK 100 demoP allEdges (MState.init demoP) [.gcMinor, .dropRoot 0] := ⟨trivial, trivial, trivial⟩

/-- The marked count is what a collection finds live: every counted slot is reachable. -/
theorem markedCount_le_reachable (E : Edges) (roots : List Val) (h : Heap) :
    ∀ d ∈ ((h.weakCollect (extOf roots)).marked E roots).cells, d.reachable = true →
      Reach E (h.weakCollect (extOf roots)).cells roots d.addr := by
  intro d hd hr
  have hcompl := markLoop_complete E (markAll (h.weakCollect (extOf roots)).cells) roots 0 d hd hr
  rcases hcompl with ⟨e, he, _, her⟩ | hreach
  · obtain ⟨e', _, rfl⟩ := List.mem_map.mp he
    cases her
  · exact Reach_markAll.mp hreach

/-! ## root_token_release — a released host root is a root of no later collection -/

/-- Offsets are handed out once: every key in the table was issued before the current offset. -/
def RootTable.WF {α : Type} (t : RootTable α) : Prop := ∀ e ∈ t.roots, e.1.offset < t.offset

theorem RootTable.WF_step {α : Type} (t : RootTable α) (h : t.WF) (op : RootOp α) : (t.step op).WF := by
  cases op with
  | root v =>
    intro e he
    simp only [RootTable.step, RootTable.root, List.mem_cons] at he ⊢
    rcases he with rfl | he
    · show t.offset < t.offset + 1; omega
    · have := h e he; show e.1.offset < t.offset + 1; omega
  | free k =>
    intro e he
    simp only [RootTable.step, RootTable.free, List.mem_filter] at he
    exact h e he.1
  | collect => exact h

/-- A key that is absent and was issued in the past stays absent, whatever happens later. -/
theorem RootTable.absent_forever {α : Type} (k : Token) (ops : List (RootOp α)) :
    ∀ t : RootTable α, t.WF → k.offset < t.offset → (∀ e ∈ t.roots, e.1 ≠ k) →
      ∀ e ∈ (t.run ops).roots, e.1 ≠ k := by
  induction ops with
  | nil => intro t _ _ h; exact h
  | cons op rest ih =>
    intro t hw hk h
    show ∀ e ∈ ((t.step op).run rest).roots, e.1 ≠ k
    refine ih (t.step op) (RootTable.WF_step t hw op) ?_ ?_
    · cases op <;> simp only [RootTable.step, RootTable.root, RootTable.free, RootTable.collect] <;> omega
    · cases op with
      | root v =>
        intro e he
        simp only [RootTable.step, RootTable.root, List.mem_cons] at he
        rcases he with rfl | he
        · intro hc
          have : t.offset = k.offset := by rw [← hc]
          omega
        · exact h e he
      | free k' =>
        intro e he
        simp only [RootTable.step, RootTable.free, List.mem_filter] at he
        exact h e he.1
      | collect => exact h

/-- **root_token_release.**  Take a value rooted at any moment, let any number of roots be taken, tokens be
dropped and full collections happen, then drop its token: from then on — through every later operation and
collection — the entry is gone, so the value is pushed as a host root by no later `Heap::mark`. -/
theorem root_token_release {α : Type} (t : RootTable α) (hw : t.WF) (v : α) (before after : List (RootOp α)) :
    let k := (t.root v).2
    ∀ e ∈ ((((t.root v).1.run before).free k).run after).roots, e.1 ≠ k := by
  intro k
  have hw1 : (t.root v).1.WF := RootTable.WF_step t hw (.root v)
  have hwb : ∀ (ops : List (RootOp α)) (u : RootTable α), u.WF → (u.run ops).WF ∧ u.offset ≤ (u.run ops).offset := by
    intro ops
    induction ops with
    | nil => intro u hu; exact ⟨hu, Nat.le_refl _⟩
    | cons op rest ih =>
      intro u hu
      have := ih (u.step op) (RootTable.WF_step u hu op)
      refine ⟨this.1, Nat.le_trans ?_ this.2⟩
      cases op <;> simp only [RootTable.step, RootTable.root, RootTable.free, RootTable.collect] <;> omega
  obtain ⟨hw2, hle⟩ := hwb before _ hw1
  apply RootTable.absent_forever k after
  · intro e he
    simp only [RootTable.free, List.mem_filter] at he
    exact hw2 e he.1
  · show t.offset < _
    have : (t.root v).1.offset = t.offset + 1 := rfl
    simp only [RootTable.free]
    omega
  · intro e he
    simp only [RootTable.free, List.mem_filter, decide_eq_true_eq] at he
    exact he.2

/-- … and until its token is dropped the value IS a root of every collection (host data keeps it alive). -/
theorem root_token_live {α : Type} (t : RootTable α) (v : α) (ops : List (RootOp α)) :
    (∀ op ∈ ops, ∀ k, op = RootOp.free k → k ≠ (t.root v).2) →
      ((t.root v).2, v) ∈ ((t.root v).1.run ops).roots := by
  intro hfree
  have gen : ∀ (ops : List (RootOp α)) (u : RootTable α), ((t.root v).2, v) ∈ u.roots →
      (∀ op ∈ ops, ∀ k, op = RootOp.free k → k ≠ (t.root v).2) → ((t.root v).2, v) ∈ (u.run ops).roots := by
    intro ops
    induction ops with
    | nil => intro u hu _; exact hu
    | cons op rest ih =>
      intro u hu hf
      refine ih (u.step op) ?_ (fun o ho => hf o (List.mem_cons_of_mem _ ho))
      cases op with
      | root w => exact List.mem_cons_of_mem _ hu
      | free k' =>
        simp only [RootTable.step, RootTable.free, List.mem_filter, decide_eq_true_eq]
        exact ⟨hu, fun hc => hf _ List.mem_cons_self k' rfl hc.symm⟩
      | collect => exact hu
  exact gen ops _ List.mem_cons_self hfree

/-- The variant that releases under the CURRENT generation leaks as soon as one collection separates taking
and dropping the token: the value stays a host root. -/
theorem release_under_current_generation_leaks :
    let t : RootTable Nat := {}
    let r := t.root 7
    ((r.1.collect).freeUnderCurrent r.2).hostRoots = [7] ∧ ((r.1.collect).free r.2).hostRoots = [] := by
  decide

end SteelVerif.C19
