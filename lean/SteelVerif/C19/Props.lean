/-
C19 — unreachable mutable storage, including cycles, is eventually reclaimed: the property theorems.
The mechanism model is C04's (`SteelVerif/C04/Model.lean`: free list, collector, combined machine).
-/
import SteelVerif.C04.Props
import SteelVerif.C04.LemmasBound
import SteelVerif.C19.Roots
namespace SteelVerif.C19
open SteelVerif.C04

/-! ## count_inv — `alloc_count` is the number of free slots, after every operation -/

/-- One step of the machine keeps the free-list invariant (no assumption on the program). -/
theorem step_wf (P : Params) (hP : 0 < P.chunk) (E : Edges) (s : MState) (hw : WF s.heap) (op : Op) :
    WF (step P E s op).1.heap := by
  cases op with
  | alloc v =>
    exact (allocate_spec P hP (WF_valueCollection P hP E (v :: s.roots) false hw) v).wf
  | write a o v => exact WF_write a v hw
  | read a o => exact hw
  | addRoot v => exact hw
  | dropRoot i => exact hw
  | gcMinor => exact WF_weakCollect _ hw
  | gcFull => exact WF_valueCollection P hP E s.roots true hw

theorem run_wf (P : Params) (hP : 0 < P.chunk) (E : Edges) (ops : List Op) :
    ∀ s : MState, WF s.heap → WF (run P E s ops).1.heap := by
  induction ops with
  | nil => intro s hw; exact hw
  | cons op rest ih => intro s hw; exact ih _ (step_wf P hP E s hw op)

/-- **count_inv.**  For every operation list (allocations with the collector's own policy, writes, root
changes, minor and full collections anywhere) from the initial heap: `alloc_count` equals the number of
slots whose mark bit is clear, the slot under the cursor is free, and slot addresses are distinct. -/
theorem count_inv (P : Params) (hP : 0 < P.chunk) (hI : 0 < P.init) (E : Edges) (ops : List Op) :
    let h := (run P E (MState.init P) ops).1.heap
    h.allocCount = freeCount h.cells ∧
    (∃ c, h.cells[h.cursor]? = some c ∧ c.reachable = false) ∧ AddrNodup h.cells := by
  have hw := run_wf P hP E ops (MState.init P) (WF_new P hI)
  exact ⟨hw.count, hw.cursorFree, hw.nodup⟩

/-- Non-vacuity of `count_inv` (its hypotheses are on the parameters only): the constants of the code, and a run
that allocates a self-referential pair of slots, drops them, and collects. -/
example :
    let h := (run {} allEdges (MState.init {}) [.alloc (.atom 1), .alloc (.ref 0 0), .write 0 0 (.ref 1 1),
      .dropRoot 0, .dropRoot 0, .gcFull, .alloc (.atom 2)]).1.heap
    h.allocCount = freeCount h.cells ∧
    (∃ c, h.cells[h.cursor]? = some c ∧ c.reachable = false) ∧ AddrNodup h.cells :=
  count_inv {} (by decide) (by decide) allEdges _

/-- The individual operations (each keeps the invariant, from any state that has it). -/
theorem count_inv_allocate (P : Params) (hP : 0 < P.chunk) (h : Heap) (hw : WF h) (v : Val) :
    (h.allocate P v).1.allocCount = freeCount (h.allocate P v).1.cells := (allocate_spec P hP hw v).wf.count

theorem count_inv_minor (h : Heap) (hw : WF h) (ext : Addr → Bool) :
    (h.weakCollect ext).allocCount = freeCount (h.weakCollect ext).cells := (WF_weakCollect ext hw).count

theorem count_inv_full (P : Params) (hP : 0 < P.chunk) (E : Edges) (roots : List Val) (h : Heap) (hw : WF h) :
    (h.collect P E roots).allocCount = freeCount (h.collect P E roots).cells :=
  (WF_valueCollection P hP E roots true hw).count

/-! ### several root sets marked one after the other (other threads' stacks, then the collecting thread)

`Heap::mark` first marks the roots of every other thread (`Synchronizer::enumerate_stacks`, sequential copy of
the traversal, counted in `context.stats`) and then hands its own roots to the parallel marker (counted in
the workers' statistics).  `alloc_count := len − reached`. -/

/-- The free count that `Heap::value_collection` computes when the other threads' roots are marked first:
`sumStats = true`: `reached` is the sum of both counters (the code after commit b0ffd538);
`sumStats = false`: the first counter is dropped (the code before). -/
def markTwoPhases (E : Edges) (others roots : List Val) (sumStats : Bool) (cs : List Cell) : List Cell × Nat :=
  let r1 := markLoop E (markAll cs) others 0
  let r2 := markLoop E r1.1 roots 0
  (r2.1, r2.1.length - (if sumStats then r1.2 + r2.2 else r2.2))

theorem count_inv_other_threads (E : Edges) (others roots : List Val) (cs : List Cell) (hnd : AddrNodup cs) :
    (markTwoPhases E others roots true cs).2 = freeCount (markTwoPhases E others roots true cs).1 := by
  have h1 := markLoop_count E (markAll cs) others 0 (AddrNodup_markAll hnd)
  obtain ⟨A, hA⟩ := markLoop_shape E (markAll cs) others 0
  have hnd1 : AddrNodup (markLoop E (markAll cs) others 0).1 := by
    rw [hA]; exact AddrNodup_markSet _ (AddrNodup_markAll hnd)
  have h2 := markLoop_count E (markLoop E (markAll cs) others 0).1 roots 0 hnd1
  obtain ⟨B, hB⟩ := markLoop_shape E (markLoop E (markAll cs) others 0).1 roots 0
  have hlen : (markLoop E (markLoop E (markAll cs) others 0).1 roots 0).1.length = cs.length := by
    rw [hB, markSet_length, hA, markSet_length]; simp [markAll]
  rw [freeCount_markAll] at h1
  have hle := freeCount_le_length (markLoop E (markLoop E (markAll cs) others 0).1 roots 0).1
  simp only [markTwoPhases, if_true]
  omega

/-- Non-vacuity of `count_inv_other_threads`: the one-slot heap of the counterexample below (held by another
thread only) satisfies the hypothesis. -/
example :
    let cs : List Cell := [{ addr := 0, reachable := true, value := .atom 1 }]
    (markTwoPhases allEdges [.ref 0 0] [] true cs).2 = freeCount (markTwoPhases allEdges [.ref 0 0] [] true cs).1 :=
  count_inv_other_threads allEdges _ _ _ (by simp [AddrNodup])

/-- With the first counter dropped the invariant fails as soon as another thread holds a slot: one slot,
held by the other thread only, is counted as free although it is marked. -/
theorem count_inv_fails_if_stats_dropped :
    let cs : List Cell := [{ addr := 0, reachable := true, value := .atom 1 }]
    (markTwoPhases allEdges [.ref 0 0] [] false cs).2 ≠ freeCount (markTwoPhases allEdges [.ref 0 0] [] false cs).1 := by
  intro cs
  have h1 : markLoop allEdges (markAll cs) [.ref 0 0] 0 = ([{ addr := 0, reachable := true, value := .atom 1 }], 1) := by
    rw [show markAll cs = [{ addr := 0, reachable := false, value := .atom 1 }] from rfl,
      markLoop_ref_unmarked allEdges 0 _ _ (c := ⟨0, false, .atom 1⟩) rfl rfl, markLoop_atom, markLoop_nil]
    rfl
  simp only [markTwoPhases, h1, markLoop_nil]
  decide

/-! ## sweep_complete — what is not reachable is free after a full collection (cycles included) -/

/-- **sweep_complete.**  After a full collection every slot that is still marked allocated is reachable from
the roots, by graph reachability along the fields the marker follows — so unreachable slots, whether they
form chains, cycles of any length or point into live data, are free. -/
theorem sweep_complete (P : Params) (E : Edges) (roots : List Val) (h : Heap) (d : Cell)
    (hd : d ∈ (h.collect P E roots).cells) (hun : ¬ Reach E h.cells roots d.addr) : d.reachable = false := by
  have hd' : d ∈ ((h.weakCollect (extOf roots)).fullPart P E roots).cells := by
    simpa [Heap.collect, Heap.valueCollection] using hd
  rcases fullPart_only P E roots _ d hd' with ⟨c, _, _, _, hr⟩ | ⟨hfree, _⟩
  · cases hdr : d.reachable with
    | false => rfl
    | true =>
      exfalso
      apply hun
      refine Reach_of_values ?_ (hr hdr)
      intro c' hc'
      obtain ⟨c0, hc0, ha, hv, _⟩ := weakCollect_values' (extOf roots) c' hc'
      exact ⟨c0, hc0, ha.symm, hv.symm⟩
  · exact hfree

/-- A heap for the non-vacuity of `sweep_complete` / `weak_box_cleared`: slot 10 is live (rooted), slots 11 ⇄ 12 are a
garbage cycle of length 2, slot 13 is garbage that points INTO live data. -/
def cycleHeap : Heap :=
  { cells := [⟨10, true, .atom 1⟩, ⟨11, true, .ref 12 0⟩, ⟨12, true, .ref 11 0⟩, ⟨13, true, .ref 10 0⟩],
    cursor := 0, allocCount := 0, growCount := 1, nextAddr := 14 }

/-- Nothing but slot 10 is reachable from the root `(ref 10)`. -/
theorem cycleHeap_reach (a : Addr) (h : Reach allEdges cycleHeap.cells [.ref 10 0] a) : a = 10 := by
  induction h with
  | root hm hi =>
    simp only [List.mem_singleton] at hm
    subst hm
    have := Inside_ref hi
    cases this; rfl
  | cell _ hc hca hi ih =>
    subst ih
    simp only [cycleHeap, List.mem_cons, List.mem_nil_iff, or_false] at hc
    rcases hc with rfl | rfl | rfl | rfl <;> simp at hca
    have := Inside_atom hi
    cases this

/-- Non-vacuity of `sweep_complete`: every slot of the garbage cycle, and the garbage slot pointing into live data,
that is still in the list after the collection is free. -/
example (d : Cell) (hd : d ∈ (cycleHeap.collect {} allEdges [.ref 10 0]).cells)
    (ha : d.addr = 11 ∨ d.addr = 12 ∨ d.addr = 13) : d.reachable = false :=
  sweep_complete {} allEdges [.ref 10 0] cycleHeap d hd (fun hr => by
    have := cycleHeap_reach d.addr hr
    omega)

/-- The marker follows no more than the specification (proved fields): unreachable in the specification's
sense ⇒ unreachable for the marker ⇒ free after a collection. -/
theorem marker_follows_only_spec_fields :
    ∀ k, k < Gen.steelValVariants.length → ∀ f ∈ implEdgesBoth k, (specEdges k).contains f := by decide

/-- Non-vacuity: a garbage cycle of length 2 (slots 11 ⇄ 12) next to a live slot 10 is swept. -/
example :
    let cs : List Cell := [⟨10, true, .atom 1⟩, ⟨11, true, .ref 12 0⟩, ⟨12, true, .ref 11 0⟩]
    (markLoop allEdges (markAll cs) [.ref 10 0] 0).1.map (·.reachable) = [true, false, false] := by
  intro cs
  rw [show markAll cs = [⟨10, false, .atom 1⟩, ⟨11, false, .ref 12 0⟩, ⟨12, false, .ref 11 0⟩] from rfl,
    markLoop_ref_unmarked allEdges 0 _ _ (c := ⟨10, false, .atom 1⟩) rfl rfl, markLoop_atom, markLoop_nil]
  rfl

/-! ## reuse_before_grow -/

/-- **reuse_before_grow.**  `allocate` always hands out a slot that already exists and was free, and it
extends the list only when that was the last free slot. -/
theorem reuse_before_grow (P : Params) (hP : 0 < P.chunk) (h : Heap) (hw : WF h) (v : Val) :
    (∃ c ∈ h.cells, c.addr = (h.allocate P v).2 ∧ c.reachable = false) ∧
    ((h.allocate P v).1.cells.length ≠ h.cells.length → freeCount h.cells = 1) :=
  ⟨(allocate_spec P hP hw v).wasFree, (allocate_spec P hP hw v).reuse⟩

/-- Hence: while two slots are free, allocating neither grows the list nor changes `grow_count`. -/
theorem no_growth_while_free (P : Params) (hP : 0 < P.chunk) (h : Heap) (hw : WF h) (v : Val)
    (h2 : 2 ≤ freeCount h.cells) : (h.allocate P v).1.cells.length = h.cells.length := by
  by_cases hne : (h.allocate P v).1.cells.length = h.cells.length
  · exact hne
  · have := (allocate_spec P hP hw v).reuse hne
    omega

/-- Non-vacuity of `reuse_before_grow` / `no_growth_while_free`: the initial heap of `C04.demoP` (two free slots)
satisfies `WF` and the guard; the allocation takes slot 0 and the list keeps its length. -/
example (v : Val) : ((Heap.new demoP).allocate demoP v).1.cells.length = (Heap.new demoP).cells.length :=
  no_growth_while_free demoP (by decide) (Heap.new demoP) (WF_new demoP (by decide)) v (by decide)

example (v : Val) : ∃ c ∈ (Heap.new demoP).cells, c.addr = ((Heap.new demoP).allocate demoP v).2 ∧ c.reachable = false :=
  (reuse_before_grow demoP (by decide) (Heap.new demoP) (WF_new demoP (by decide)) v).1

/-! ## weak_box_cleared -/

/-- **weak_box_cleared.**  A weak box holds the only handle to its private slot `a` (`others = false`).  If,
at a full collection, `a` is not reachable from the roots, then afterwards `weak-box-value` reports the box
as cleared (`HeapRef::maybe_get_from_weak` returns `None`). -/
theorem weak_box_cleared (P : Params) (E : Edges) (roots : List Val) (h : Heap) (a : Addr)
    (hun : ¬ Reach E h.cells roots a) : (h.collect P E roots).weakGet a false = none := by
  unfold Heap.weakGet
  cases hc : readCell (h.collect P E roots).cells a with
  | none => rfl
  | some c =>
    obtain ⟨hcm, hca⟩ := readCell_some hc
    have := sweep_complete P E roots h c hcm (hca ▸ hun)
    simp [this]

/-- Non-vacuity of `weak_box_cleared`: a weak box on slot 12 (inside the garbage cycle) is cleared. -/
example : (cycleHeap.collect {} allEdges [.ref 10 0]).weakGet 12 false = none :=
  weak_box_cleared {} allEdges [.ref 10 0] cycleHeap 12 (fun hr => by
    have := cycleHeap_reach 12 hr
    omega)

/-! ## heap_bounded — bounded live set ⇒ bounded number of slots, for any number of operations -/

/-- The hypothesis "the live set at every full collection is at most `M`": at every step that may run a full
collection (an allocation — policy — or an explicit collection) the number of slots it would mark is ≤ `M`. -/
def LiveOK (M : Nat) (P : Params) (E : Edges) : MState → List Op → Prop
  | _, [] => True
  | s, op :: rest =>
    (match op with
      | .alloc v => markedCount E (v :: s.roots) s.heap ≤ M
      | .gcFull => markedCount E s.roots s.heap ≤ M
      | _ => True) ∧ LiveOK M P E (step P E s op).1 rest

theorem step_bounded (M : Nat) (P : Params) (hc40 : 40 ≤ P.chunk) (hcM : P.chunk ≤ M) (E : Edges) (s : MState)
    (hw : WF s.heap) (hb : BInv M P.resetLimit s.heap) (op : Op)
    (hl : match op with
      | .alloc v => markedCount E (v :: s.roots) s.heap ≤ M
      | .gcFull => markedCount E s.roots s.heap ≤ M
      | _ => True) : BInv M P.resetLimit (step P E s op).1.heap := by
  cases op with
  | alloc v => exact BInv_allocateGC P rfl hc40 hcM E s.roots v hw hb hl
  | write a o v =>
    show BInv M P.resetLimit (s.heap.write a v)
    have : (s.heap.write a v).cells.length = s.heap.cells.length := by simp [Heap.write]
    unfold BInv at *
    rw [this]; exact hb
  | read a o => exact hb
  | addRoot v => exact hb
  | dropRoot i => exact hb
  | gcMinor => exact BInv_weakCollect _ hb
  | gcFull => exact BInv_valueCollection P rfl hc40 hcM E s.roots true hb hl

theorem run_bounded (M : Nat) (P : Params) (hc40 : 40 ≤ P.chunk) (hcM : P.chunk ≤ M) (E : Edges) (ops : List Op) :
    ∀ s : MState, WF s.heap → BInv M P.resetLimit s.heap → LiveOK M P E s ops →
      BInv M P.resetLimit (run P E s ops).1.heap := by
  induction ops with
  | nil => intro s _ hb _; exact hb
  | cons op rest ih =>
    intro s hw hb hl
    exact ih _ (step_wf P (by omega) E s hw op) (step_bounded M P hc40 hcM E s hw hb op hl.1) hl.2

/-- **heap_bounded.**  With `EXTEND_CHUNK ≥ 40` and an initial size between 40 and `2·M`: for EVERY operation
list (allocations with the collector's policy, writes, root changes, explicit minor/full collections anywhere)
in which every full collection finds at most `M ≥ EXTEND_CHUNK` live slots, the number of slots never exceeds
`2·M·2^RESET_LIMIT` — a bound that does not depend on the number of operations — and `grow_count` stays within
`1 … RESET_LIMIT+1`.  (For the constants of the code: `max(L, 25600) · 2^10` slots.) -/
theorem heap_bounded (M : Nat) (P : Params) (hc40 : 40 ≤ P.chunk) (hcM : P.chunk ≤ M) (hi40 : 40 ≤ P.init)
    (hiM : P.init ≤ 2 * M) (E : Edges) (ops : List Op) (hl : LiveOK M P E (MState.init P) ops) :
    (run P E (MState.init P) ops).1.heap.cells.length ≤ 2 * M * 2 ^ P.resetLimit ∧
    (run P E (MState.init P) ops).1.heap.growCount ≤ P.resetLimit + 1 := by
  have hb0 : BInv M P.resetLimit (MState.init P).heap := by
    have hlen : (Heap.new P).cells.length = P.init := by
      simp [Heap.new, growBy_length]
    refine ⟨by simp [MState.init, Heap.new, Heap.growBy], by simp [MState.init, Heap.new, Heap.growBy], ?_, ?_⟩
    · show 40 ≤ (Heap.new P).cells.length; omega
    · show (Heap.new P).cells.length ≤ 2 * M * 2 ^ ((Heap.new P).growCount - 1)
      rw [hlen]
      simp [Heap.new, Heap.growBy]
      exact hiM
  have hb := run_bounded M P hc40 hcM E ops (MState.init P) (WF_new P (by omega)) hb0 hl
  obtain ⟨h1, h2, _, h4⟩ := hb
  refine ⟨?_, h2⟩
  calc (run P E (MState.init P) ops).1.heap.cells.length
      ≤ 2 * M * 2 ^ ((run P E (MState.init P) ops).1.heap.growCount - 1) := h4
    _ ≤ 2 * M * 2 ^ P.resetLimit := Nat.mul_le_mul_left _ (Nat.pow_le_pow_right (by omega) (by omega))

/-! ### … for the constants and the policy that are in the source

`GenEdges.lean` carries `EXTEND_CHUNK`, `RESET_LIMIT`, the initial `grow_by` of `FreeList::new` and the recognised
statements of the policy, read from `values/closed.rs` on every run. -/

/-- The statements of the growth / compaction policy the model is written after (`Heap.growBy`, `Heap.compact`,
`Heap.over95`, `Heap.fullPart`); the translator emits each of them only if it finds the statement in the source
— in BOTH `impl FreeList` blocks and in all three copies of the collection routine. -/
def policySpec : List String :=
  ["grow_by: adds max(len, amount) free slots, grow_count += 1",
   "grow = grow_by(EXTEND_CHUNK)",
   "compact: keep marked slots, grow_count = 0, extend",
   "is_heap_full = (alloc_count == 0)",
   "percent_full = (len - alloc_count) / len",
   "value_collection: after the mark, compact if grow_count > RESET_LIMIT else grow",
   "value_collection: collects above 0.95",
   "vector_collection: after the mark, compact if grow_count > RESET_LIMIT else grow",
   "vector_collection: collects above 0.95",
   "allocate_vector_iter: after the mark, compact if grow_count > RESET_LIMIT else grow",
   "allocate_vector_iter: collects above 0.95"]

/-- The parameters of the model, taken from the source. -/
def srcParams : Params :=
  { chunk := Gen.srcExtendChunk, init := Gen.srcInitialSlots, resetLimit := Gen.srcResetLimit }

/-- **model_constants_match_source.**  The default parameters of the model are the constants of the source, the
source constants satisfy the side conditions of `heap_bounded`, and every statement of the policy that the
model transcribes is present in the source. -/
theorem model_constants_match_source :
    (({} : Params).chunk = Gen.srcExtendChunk ∧ ({} : Params).init = Gen.srcInitialSlots ∧
      ({} : Params).resetLimit = Gen.srcResetLimit) ∧
    (40 ≤ Gen.srcExtendChunk ∧ 40 ≤ Gen.srcInitialSlots ∧ Gen.srcInitialSlots ≤ 2 * Gen.srcExtendChunk) ∧
    (∀ p ∈ policySpec, Gen.srcPolicy.contains p) := by decide

/-- **heap_bounded for the code's constants.**  For every operation list in which every full collection finds
at most `L` live slots, the free list never has more than `2 · max(L, EXTEND_CHUNK) · 2^RESET_LIMIT` slots
(= `max(L, 25 600) · 1024` for the constants read today) and `grow_count ≤ RESET_LIMIT + 1`, whatever the number
of operations. -/
theorem heap_bounded_source (L : Nat) (E : Edges) (ops : List Op)
    (hl : LiveOK (max L Gen.srcExtendChunk) srcParams E (MState.init srcParams) ops) :
    (run srcParams E (MState.init srcParams) ops).1.heap.cells.length
        ≤ 2 * max L Gen.srcExtendChunk * 2 ^ Gen.srcResetLimit ∧
    (run srcParams E (MState.init srcParams) ops).1.heap.growCount ≤ Gen.srcResetLimit + 1 := by
  have hc := model_constants_match_source.2.1
  exact heap_bounded (max L Gen.srcExtendChunk) srcParams hc.1 (Nat.le_max_right _ _) hc.2.1
    (Nat.le_trans hc.2.2 (Nat.mul_le_mul_left 2 (Nat.le_max_right _ _))) E ops hl

example : 2 * max 1000 Gen.srcExtendChunk * 2 ^ Gen.srcResetLimit = 25600 * 1024 := by decide

/-- Non-vacuity: the constants of the code satisfy the side conditions (with `L = 1000` live slots), and the
hypothesis is satisfiable for a run that collects. -/
example : (40 ≤ ({} : Params).chunk) ∧ ({} : Params).chunk ≤ max 1000 25600 ∧ 40 ≤ ({} : Params).init ∧
    ({} : Params).init ≤ 2 * max 1000 25600 := by decide

example : LiveOK 100 demoP allEdges (MState.init demoP) [.gcMinor, .dropRoot 0] := ⟨trivial, trivial, trivial⟩

/-- What a collection marks is at most the number of slots there are. -/
theorem markedCount_le_length (E : Edges) (roots : List Val) (h : Heap) : markedCount E roots h ≤ h.cells.length := by
  unfold markedCount
  refine Nat.le_trans (List.length_filter_le _ _) ?_
  obtain ⟨A, hA⟩ := markLoop_shape E (markAll (h.weakCollect (extOf roots)).cells) roots 0
  show (markLoop E (markAll (h.weakCollect (extOf roots)).cells) roots 0).1.length ≤ _
  rw [hA, markSet_length]
  simp [markAll, weakCollect_length]

/-- Parameters that satisfy the side conditions of `heap_bounded` with a small heap. -/
def smallP : Params := { chunk := 40, init := 40, resetLimit := 9 }

/-- **Non-vacuity of `LiveOK` / `heap_bounded` with allocations and a full collection** (the example above has
neither, so every conjunct of its `LiveOK` is `True`): for EVERY value `v`, the run "allocate `v`, collect fully,
collect minor" from the initial heap of `smallP` satisfies `LiveOK 40` — both the allocation and the full collection
find at most 40 live slots because the list has 40 slots. -/
theorem liveOK_alloc_gcFull (v : Val) :
    LiveOK 40 smallP allEdges (MState.init smallP) [.alloc v, .gcFull, .gcMinor] := by
  have hw : WF (Heap.new smallP) := WF_new smallP (by decide)
  have hlen : (Heap.new smallP).cells.length = 40 := by decide
  have hno : (Heap.new smallP).valueCollection smallP allEdges [v] false = Heap.new smallP := by
    have : (Heap.new smallP).over95 = false := by decide
    simp [Heap.valueCollection, this]
  refine ⟨?_, ?_, trivial, trivial⟩
  · exact Nat.le_trans (markedCount_le_length _ _ _) (by show (Heap.new smallP).cells.length ≤ 40; omega)
  · refine Nat.le_trans (markedCount_le_length _ _ _) ?_
    show ((Heap.new smallP).allocateGC smallP allEdges [] v).1.cells.length ≤ 40
    unfold Heap.allocateGC
    rw [hno, no_growth_while_free smallP (by decide) (Heap.new smallP) hw v (by decide)]
    omega

example (v : Val) :
    (run smallP allEdges (MState.init smallP) [.alloc v, .gcFull, .gcMinor]).1.heap.cells.length ≤ 2 * 40 * 2 ^ 9 ∧
    (run smallP allEdges (MState.init smallP) [.alloc v, .gcFull, .gcMinor]).1.heap.growCount ≤ 10 :=
  heap_bounded 40 smallP (by decide) (by decide) (by decide) (by decide) allEdges _ (liveOK_alloc_gcFull v)

/-- The marked count is what a collection finds live: every counted slot is reachable. -/
theorem markedCount_le_reachable (E : Edges) (roots : List Val) (h : Heap) :
    ∀ d ∈ ((h.weakCollect (extOf roots)).marked E roots).cells, d.reachable = true →
      Reach E (h.weakCollect (extOf roots)).cells roots d.addr := by
  intro d hd hr
  have hcompl := markLoop_complete E (markAll (h.weakCollect (extOf roots)).cells) roots 0 d hd hr
  rcases hcompl with ⟨e, he, _, her⟩ | hreach
  · obtain ⟨e', _, rfl⟩ := List.mem_map.mp he
    cases her
  · exact Reach_markAll.mp hreach

/-- A list without repetitions whose elements all lie in `L` is not longer than `L`. -/
theorem nodup_subset_length : ∀ (l L : List Nat), l.Nodup → (∀ a ∈ l, a ∈ L) → l.length ≤ L.length := by
  intro l
  induction l with
  | nil => intro L _ _; exact Nat.zero_le _
  | cons a t ih =>
    intro L hnd hsub
    have haL : a ∈ L := hsub a List.mem_cons_self
    have hat : a ∉ t := (List.nodup_cons.mp hnd).1
    have := ih (L.erase a) (List.nodup_cons.mp hnd).2 (fun b hb =>
      (List.mem_erase_of_ne (fun (e : b = a) => hat (by rw [← e]; exact hb))).mpr
        (hsub b (List.mem_cons_of_mem _ hb)))
    rw [List.length_erase_of_mem haL] at this
    have hpos : 0 < L.length := List.length_pos_of_mem haL
    simp only [List.length_cons]
    omega

/-- **The hypothesis of `heap_bounded`, from reachability.**  If every address reachable from the roots (graph
reachability in the heap as the program sees it, along the fields `E`) is in the list `L`, a full collection marks at
most `L.length` slots: "the reachable data stays bounded by `M`" implies the conjunct of `LiveOK M` at that step. -/
theorem markedCount_le_of_reachable (E : Edges) (roots : List Val) (h : Heap) (hw : WF h) (L : List Addr)
    (hL : ∀ a, Reach E h.cells roots a → a ∈ L) : markedCount E roots h ≤ L.length := by
  have hwc := WF_weakCollect (extOf roots) hw
  obtain ⟨A, hA⟩ := markLoop_shape E (markAll (h.weakCollect (extOf roots)).cells) roots 0
  have hcells : ((h.weakCollect (extOf roots)).marked E roots).cells =
      markSet (markAll (h.weakCollect (extOf roots)).cells) A := hA
  have hnd : AddrNodup ((h.weakCollect (extOf roots)).marked E roots).cells := by
    rw [hcells]; exact AddrNodup_markSet A (AddrNodup_markAll hwc.nodup)
  unfold markedCount
  rw [← List.length_map (f := fun c : Cell => c.addr)]
  apply nodup_subset_length
  · exact List.Nodup.sublist (List.Sublist.map _ List.filter_sublist) hnd
  · intro a ha
    obtain ⟨d, hd, rfl⟩ := List.mem_map.mp ha
    obtain ⟨hdm, hdr⟩ := List.mem_filter.mp hd
    apply hL
    refine Reach_of_values ?_ (markedCount_le_reachable E roots h d hdm hdr)
    intro c' hc'
    obtain ⟨c0, hc0, ha', hv, _⟩ := weakCollect_values' (extOf roots) c' hc'
    exact ⟨c0, hc0, ha'.symm, hv.symm⟩

/-- Non-vacuity: in `cycleHeap` only slot 10 is reachable from the root, so a full collection marks at most one
slot (`cycleHeap` is not `WF` — its cursor slot is taken — so the instance is on the well-formed variant with one
more, free, slot under the cursor). -/
def cycleHeapWF : Heap :=
  { cycleHeap with cells := cycleHeap.cells ++ [⟨14, false, .atom 0⟩], cursor := 4, allocCount := 1, nextAddr := 15 }

theorem cycleHeapWF_wf : WF cycleHeapWF :=
  { nodup := by simp [AddrNodup, cycleHeapWF, cycleHeap]
    fresh := by intro c hc; simp [cycleHeapWF, cycleHeap] at hc ⊢; rcases hc with rfl | rfl | rfl | rfl | rfl <;> simp
    count := by simp [cycleHeapWF, cycleHeap, freeCount]
    cursorFree := ⟨⟨14, false, .atom 0⟩, by simp [cycleHeapWF, cycleHeap], rfl⟩ }

example : markedCount allEdges [.ref 10 0] cycleHeapWF ≤ 1 :=
  markedCount_le_of_reachable allEdges [.ref 10 0] cycleHeapWF cycleHeapWF_wf [10] (fun a hr => by
    have : a = 10 := by
      induction hr with
      | root hm hi =>
        simp only [List.mem_singleton] at hm
        subst hm
        have := Inside_ref hi
        cases this; rfl
      | cell _ hc hca hi ih =>
        subst ih
        simp only [cycleHeapWF, cycleHeap, List.cons_append, List.nil_append, List.mem_cons, List.mem_nil_iff,
          or_false] at hc
        rcases hc with rfl | rfl | rfl | rfl | rfl <;> simp at hca
        have := Inside_atom hi
        cases this
    simp [this])

/-! ## root_token_release — a released host root is a root of no later collection -/

/-- Offsets are handed out once: every key in the table was issued before the current offset. -/
def RootTable.WF {α : Type} (t : RootTable α) : Prop := ∀ e ∈ t.roots, e.1.offset < t.offset

theorem RootTable.WF_step {α : Type} (t : RootTable α) (h : t.WF) (op : RootOp α) : (t.step op).WF := by
  cases op with
  | root v =>
    intro e he
    simp only [RootTable.step, RootTable.root, List.mem_cons] at he ⊢
    rcases he with rfl | he
    · show t.offset < t.offset + 1; omega
    · have := h e he; show e.1.offset < t.offset + 1; omega
  | free k =>
    intro e he
    simp only [RootTable.step, RootTable.free, List.mem_filter] at he
    exact h e he.1
  | collect => exact h

/-- A key that is absent and was issued in the past stays absent, whatever happens later. -/
theorem RootTable.absent_forever {α : Type} (k : Token) (ops : List (RootOp α)) :
    ∀ t : RootTable α, t.WF → k.offset < t.offset → (∀ e ∈ t.roots, e.1 ≠ k) →
      ∀ e ∈ (t.run ops).roots, e.1 ≠ k := by
  induction ops with
  | nil => intro t _ _ h; exact h
  | cons op rest ih =>
    intro t hw hk h
    show ∀ e ∈ ((t.step op).run rest).roots, e.1 ≠ k
    refine ih (t.step op) (RootTable.WF_step t hw op) ?_ ?_
    · cases op <;> simp only [RootTable.step, RootTable.root, RootTable.free, RootTable.collect] <;> omega
    · cases op with
      | root v =>
        intro e he
        simp only [RootTable.step, RootTable.root, List.mem_cons] at he
        rcases he with rfl | he
        · intro hc
          have : t.offset = k.offset := by rw [← hc]
          omega
        · exact h e he
      | free k' =>
        intro e he
        simp only [RootTable.step, RootTable.free, List.mem_filter] at he
        exact h e he.1
      | collect => exact h

/-- **root_token_release.**  Take a value rooted at any moment, let any number of roots be taken, tokens be
dropped and full collections happen, then drop its token: from then on — through every later operation and
collection — the entry is gone, so the value is pushed as a host root by no later `Heap::mark`. -/
theorem root_token_release {α : Type} (t : RootTable α) (hw : t.WF) (v : α) (before after : List (RootOp α)) :
    let k := (t.root v).2
    ∀ e ∈ ((((t.root v).1.run before).free k).run after).roots, e.1 ≠ k := by
  intro k
  have hw1 : (t.root v).1.WF := RootTable.WF_step t hw (.root v)
  have hwb : ∀ (ops : List (RootOp α)) (u : RootTable α), u.WF → (u.run ops).WF ∧ u.offset ≤ (u.run ops).offset := by
    intro ops
    induction ops with
    | nil => intro u hu; exact ⟨hu, Nat.le_refl _⟩
    | cons op rest ih =>
      intro u hu
      have := ih (u.step op) (RootTable.WF_step u hu op)
      refine ⟨this.1, Nat.le_trans ?_ this.2⟩
      cases op <;> simp only [RootTable.step, RootTable.root, RootTable.free, RootTable.collect] <;> omega
  obtain ⟨hw2, hle⟩ := hwb before _ hw1
  apply RootTable.absent_forever k after
  · intro e he
    simp only [RootTable.free, List.mem_filter] at he
    exact hw2 e he.1
  · show t.offset < _
    have : (t.root v).1.offset = t.offset + 1 := rfl
    simp only [RootTable.free]
    omega
  · intro e he
    simp only [RootTable.free, List.mem_filter, decide_eq_true_eq] at he
    exact he.2

/-- Non-vacuity of `root_token_release` / `root_token_live`: the empty table is well-formed; a value rooted,
two collections and another root later, stays a host root until its token is dropped, and is none afterwards. -/
example : ∀ e ∈ (((((({} : RootTable Nat).root 7).1.run [.collect, .root 8, .collect]).free ⟨0, 0⟩).run
      [.collect, .root 9])).roots, e.1 ≠ (⟨0, 0⟩ : Token) :=
  root_token_release ({} : RootTable Nat) (fun e he => by cases he) 7 [.collect, .root 8, .collect] [.collect, .root 9]

example : ((((({} : RootTable Nat).root 7).1.run [.collect, .root 8, .collect]).free ⟨0, 0⟩).run
      [.collect, .root 9]).hostRoots = [9, 8] ∧
    ((({} : RootTable Nat).root 7).1.run [.collect, .root 8, .collect]).hostRoots = [8, 7] := by decide

/-- … and until its token is dropped the value IS a root of every collection (host data keeps it alive). -/
theorem root_token_live {α : Type} (t : RootTable α) (v : α) (ops : List (RootOp α)) :
    (∀ op ∈ ops, ∀ k, op = RootOp.free k → k ≠ (t.root v).2) →
      ((t.root v).2, v) ∈ ((t.root v).1.run ops).roots := by
  intro hfree
  have gen : ∀ (ops : List (RootOp α)) (u : RootTable α), ((t.root v).2, v) ∈ u.roots →
      (∀ op ∈ ops, ∀ k, op = RootOp.free k → k ≠ (t.root v).2) → ((t.root v).2, v) ∈ (u.run ops).roots := by
    intro ops
    induction ops with
    | nil => intro u hu _; exact hu
    | cons op rest ih =>
      intro u hu hf
      refine ih (u.step op) ?_ (fun o ho => hf o (List.mem_cons_of_mem _ ho))
      cases op with
      | root w => exact List.mem_cons_of_mem _ hu
      | free k' =>
        simp only [RootTable.step, RootTable.free, List.mem_filter, decide_eq_true_eq]
        exact ⟨hu, fun hc => hf _ List.mem_cons_self k' rfl hc.symm⟩
      | collect => exact hu
  exact gen ops _ List.mem_cons_self hfree

/-- The variant that releases under the CURRENT generation leaks as soon as one collection separates taking
and dropping the token: the value stays a host root. -/
theorem release_under_current_generation_leaks :
    let t : RootTable Nat := {}
    let r := t.root 7
    ((r.1.collect).freeUnderCurrent r.2).hostRoots = [7] ∧ ((r.1.collect).free r.2).hostRoots = [] := by
  decide

/-! ## Clauses of the property not carried by a theorem

* "Storage for boxes, mutable vectors and mutable struct instances": ONE free list of value slots is modelled
  (`Heap::value_collection`); the vector free list (`vector_collection`, `allocate_vector_iter`) is covered only by
  `model_constants_match_source` finding the same policy statements in its copies of the routine.  Mutable struct
  fields and captured variables are value slots.
* "that the program can no longer reach": the roots are an abstract LIST (`MState.roots`, `markTwoPhases.others`,
  `RootTable.hostRoots`).  That the real root set (stacks, globals, continuations, other threads' stacks, host
  tokens) contains nothing the program can no longer reach — "garbage referenced only from dead continuations,
  dead threads or shadowed globals" — is not modelled; only the host-token part has a theorem
  (`root_token_release`).
* "including groups that refer to each other cyclically and closures that capture themselves": `sweep_complete`
  is for every heap graph (cycles included) but relative to the fields the marker FOLLOWS (`E`); that these are
  not more than the fields that hold values is `marker_follows_only_spec_fields` (`decide` over the regenerated
  table).  Cycles through REFERENCE-COUNTED data only (immutable containers, `box-strong`) are never reclaimed by
  this collector and are outside the property's "mutable storage".
* "is reused by later allocations": `reuse_before_grow` (an allocation takes a free slot; the list grows only when
  the last one is taken) and `sweep_complete` (unreachable ⇒ free after a full collection).  WHEN a full collection
  happens is the policy `over95` inside `allocateGC`; "eventually" is not a theorem by itself — it is what
  `heap_bounded` implies.
* "a program whose reachable data stays bounded runs indefinitely in bounded memory": `heap_bounded` bounds the
  NUMBER OF SLOTS by `2·M·2^RESET_LIMIT` under `LiveOK`, whose bound `M` is on the number of slots a full
  collection MARKS at that moment (`markedCount`), not on the size of the reachable set as the program sees it:
  `markedCount_le_of_reachable` gives the step from the one to the other ("every reachable address lies in a list of
  length `M`" ⇒ `markedCount ≤ M`, for a well-formed heap), but it is not threaded through `LiveOK` for a whole
  run: `heap_bounded` still takes the per-step bound as its hypothesis.  Memory held by the VALUES in the
  slots, by immutable data, by the marker's queue and by freed-but-not-yet-dropped contents is not modelled.
* "a weak box whose target has become unreachable reports so after a collection": `weak_box_cleared` for a weak box
  that holds the ONLY handle (`others = false`), after a FULL collection; with another handle alive the value is
  returned whatever the mark bit says (the model's `weakGet`), and a minor collection clears only slots without
  any handle.
* Several threads: only the order of the two mark phases and the sum of their counters
  (`count_inv_other_threads`); concurrent allocation, the stop-the-world handshake (C15/C16) and `Relaxed` counters
  are outside.
`count_inv_fails_if_stats_dropped`, `release_under_current_generation_leaks` and the `example`s are evaluations on
concrete inputs; `model_constants_match_source` and `marker_follows_only_spec_fields` are `decide` over the tables
regenerated from the source on every run. -/

/-- **root_token_drop_always_frees** (table obligation): every `fn drop` of `impl Drop for RootToken` in the
source is one unconditional call of `Roots::free` on the root table — no `try_lock`, no early return, no
condition — which is what `RootOp.free` of the model (and hence `root_token_release`) assumes. -/
def rootDropSpec : List String :=
  ["ROOTS.with(|x|x.borrow_mut().free(self))", "GLOBAL_ROOTS.lock().unwrap().free(self)"]

theorem root_token_drop_always_frees :
    Gen.rootTokenDrop.length = 2 ∧ ∀ b ∈ Gen.rootTokenDrop, rootDropSpec.contains b := by decide

/-- The hypothesis is needed: a `drop` that skips the `free` when another thread holds the table (a `try_lock`
that fails once) leaves the value a host root of every later collection, although its token is gone. -/
theorem release_skipped_when_busy_leaks :
    let t : RootTable Nat := {}
    let r := t.root 7
    ((r.1.freeUnlessBusy true r.2).collect).hostRoots = [7] ∧ ((r.1.freeUnlessBusy false r.2).collect).hostRoots = [] := by
  decide

/-- **recycler_root_walk_skips_candidates** (table obligation, liveness of global slots): the first walk of
`GlobalSlotRecycler::recycle` starts from the globals that are NOT candidates (shadowed slots), so the value
stored in a shadowed slot — e.g. the closure of a recursive function, whose code mentions its own slot — cannot
keep its own slot alive; candidates that an instruction of LIVE code mentions are then walked to a fixed point. -/
theorem recycler_root_walk_skips_candidates :
    ∀ f ∈ ["root walk skips candidate slots", "candidates = drained shadowed slots",
           "live candidates are walked until no further slot becomes live"], Gen.recyclerFacts.contains f := by decide

end SteelVerif.C19
