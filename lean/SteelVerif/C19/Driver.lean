/- C19 uses the C04 machine: same driver. -/
import SteelVerif.C04.Driver
