import SteelVerif.C19.Props
open SteelVerif.C19
#print axioms count_inv
#print axioms count_inv_allocate
#print axioms count_inv_minor
#print axioms count_inv_full
#print axioms count_inv_other_threads
#print axioms count_inv_fails_if_stats_dropped
#print axioms sweep_complete
#print axioms marker_follows_only_spec_fields
#print axioms reuse_before_grow
#print axioms no_growth_while_free
#print axioms weak_box_cleared
#print axioms heap_bounded
#print axioms model_constants_match_source
#print axioms heap_bounded_source
#print axioms run_bounded
#print axioms markedCount_le_reachable
#print axioms root_token_release
#print axioms root_token_live
#print axioms release_under_current_generation_leaks
#print axioms cycleHeap_reach
#print axioms markedCount_le_length
#print axioms liveOK_alloc_gcFull
#print axioms markedCount_le_of_reachable
#print axioms cycleHeapWF_wf
