/-
C19 — the table of host roots (`values/closed.rs`: `Roots {generation, offset, roots}`, `RootToken`,
`SteelVal::as_rooted` / `mark_rooted`, `RootToken::drop` → `Roots::free`, `increment_generation` at the end of
every full collection).  `Heap::mark` pushes every value of the table as a root.

Model M: entries keyed by `(generation, offset)`; `root` takes the key (current generation, next offset);
`free` removes the key recorded IN THE TOKEN; a collection bumps the generation.
`freeUnderCurrent` is the variant that removes `(current generation, token offset)` instead.
-/
namespace SteelVerif.C19

structure Token where
  generation : Nat
  offset : Nat
deriving DecidableEq, Repr

structure RootTable (α : Type) where
  generation : Nat := 0
  offset : Nat := 0
  roots : List (Token × α) := []

variable {α : Type}

/-- `Roots::root`. -/
def RootTable.root (t : RootTable α) (v : α) : RootTable α × Token :=
  let k : Token := ⟨t.generation, t.offset⟩
  ({ t with offset := t.offset + 1, roots := (k, v) :: t.roots }, k)

/-- `Roots::free` (what `RootToken::drop` calls). -/
def RootTable.free (t : RootTable α) (k : Token) : RootTable α :=
  { t with roots := t.roots.filter fun e => e.1 ≠ k }

/-- The variant that looks the entry up under the table's current generation. -/
def RootTable.freeUnderCurrent (t : RootTable α) (k : Token) : RootTable α :=
  { t with roots := t.roots.filter fun e => e.1 ≠ (⟨t.generation, k.offset⟩ : Token) }

/-- The variant whose `drop` gives up when the table's mutex is busy (`try_lock`): `busy` is the scheduler's
choice at that drop. -/
def RootTable.freeUnlessBusy (t : RootTable α) (busy : Bool) (k : Token) : RootTable α :=
  if busy then t else t.free k

/-- `Roots::increment_generation` (end of every full collection). -/
def RootTable.collect (t : RootTable α) : RootTable α := { t with generation := t.generation + 1 }

/-- What `Heap::mark` pushes. -/
def RootTable.hostRoots (t : RootTable α) : List α := t.roots.map (·.2)

inductive RootOp (α : Type) where
  | root (v : α)          -- some host data takes a value (channel send, thread result, callback wrapper …)
  | free (k : Token)      -- some token is dropped
  | collect               -- a full collection happens

def RootTable.step (t : RootTable α) : RootOp α → RootTable α
  | .root v => (t.root v).1
  | .free k => t.free k
  | .collect => t.collect

def RootTable.run (t : RootTable α) (ops : List (RootOp α)) : RootTable α := ops.foldl RootTable.step t

end SteelVerif.C19
