/-
C07 — the hand-reviewed table of potential panic sites.

`Gen.sites` (GenArms.lean, regenerated from /repo on every run) lists every `.unwrap()`, `.expect(`, `unreachable!`,
`todo!`, `unimplemented!`, `panic!`, `assert!`, `debug_assert!`, `as usize`, unchecked accessor, `x[i]` / `x[a..b]` and call of a
method that panics on an out-of-range index / range / size (`split_at`, `split_off`, `swap_remove`, `drain`, `swap`, `remove`,
`insert`, `windows`, `chunks`, `borrow_mut`, ...) inside a function body of
primitives/*.rs and steel_vm/primitives.rs (outside `#[cfg(test)]`).  Every entry below was reviewed in the source
(2026-09-24, brought up to /repo commit dbe72b10 after the fixes of that day); ids are hashes of (file, fn, kind, source line text, occurrence), so an entry stays valid when lines
move and becomes unmatched when the line itself changes: `panic_sites_classified` then fails until the new site is
reviewed.

Verdicts:
  guarded     an earlier check in the same function (or the arity check generated from the registration attribute)
              makes the failing case unreachable from script input;
  benign      cannot fail for a reason that does not depend on script input (total conversion, `Gc::unwrap` = clone, ...);
  reachable   script input reaches the failing case: the finding class is named (replay in findings/C07-*.txt);
  hostEffect  the function belongs to a module whose purpose is an effect on the host (git, tcp, process): not swept;
  dead        the function is not registered anywhere.
The arity attributes were checked against crates/steel-derive/src/lib.rs (`arity_code_injection`: the generated
wrapper returns ArityMismatch before the body runs, unless the arity is AtLeast(0)).
-/
import SteelVerif.C07.GenArms
namespace SteelVerif.C07

inductive Verdict where
  | guarded | benign | reachable | hostEffect | dead | unreviewed
  deriving DecidableEq, Repr

structure Review where
  id : Nat
  verdict : Verdict
  finding : String
  reason : String

def reviewed : List Review := [
  ⟨7683171808965, .benign, "", "HashMap::insert (a map, not a Vec: no index)"⟩,  -- panicking_method hm_construct primitives/hashmaps.rs (kinds debug_assert / panicking_method added 2026-09-24)
  ⟨17433068252082, .benign, "", "HashMap::insert (a map, not a Vec: no index)"⟩,  -- panicking_method hm_construct_keywords primitives/hashmaps.rs (kinds debug_assert / panicking_method added 2026-09-24)
  ⟨16117092615217, .benign, "", "HashMap::remove by key returns an Option"⟩,  -- panicking_method hash_remove primitives/hashmaps.rs (kinds debug_assert / panicking_method added 2026-09-24)
  ⟨9530614185034, .benign, "", "HashMap::remove by key returns an Option"⟩,  -- panicking_method hash_remove primitives/hashmaps.rs (kinds debug_assert / panicking_method added 2026-09-24)
  ⟨1902020403499, .benign, "", "HashMap::insert (a map, not a Vec: no index)"⟩,  -- panicking_method hash_insert primitives/hashmaps.rs (kinds debug_assert / panicking_method added 2026-09-24)
  ⟨3411393193674, .benign, "", "HashSet::insert"⟩,  -- panicking_method hs_construct primitives/hashsets.rs (kinds debug_assert / panicking_method added 2026-09-24)
  ⟨9451370747209, .benign, "", "HashSet::insert"⟩,  -- panicking_method hs_insert primitives/hashsets.rs (kinds debug_assert / panicking_method added 2026-09-24)
  ⟨3749921046496, .guarded, "", "every caller (add_primitive, subtract_primitive, divide, the op code handlers) rejects non-numbers with ensure_args_are_numbers / numberp before the dispatch, and a number that is not real is Complex, matched by the arm above; (+ 1+2i \"abc\"), (apply + (list 1+2i 'x)) answer TypeMismatch (replayed 2026-09-24)"⟩,  -- debug_assert add_two primitives/numbers.rs (kinds debug_assert / panicking_method added 2026-09-24)
  ⟨7017076268432, .guarded, "", "as add_two: BINOPADD checks both operands are numbers before add_two_fallible"⟩,  -- debug_assert add_two_fallible primitives/numbers.rs (kinds debug_assert / panicking_method added 2026-09-24)
  ⟨4786544471127, .hostEffect, "", "steel/polling (blocks on OS events, denied); the RefCell is thread-local and borrowed for one statement"⟩,  -- panicking_method clear_events primitives/polling.rs (kinds debug_assert / panicking_method added 2026-09-24)
  ⟨3708907820919, .hostEffect, "", "steel/polling (blocks on OS events, denied)"⟩,  -- panicking_method poller_wait primitives/polling.rs (kinds debug_assert / panicking_method added 2026-09-24)
  ⟨1382515149886, .guarded, "", "i >= len and j >= len are rejected just above, under the same write guard"⟩,  -- panicking_method mut_vec_swap primitives/vectors.rs (kinds debug_assert / panicking_method added 2026-09-24)
  ⟨13481025140031, .benign, "", "windows(2): the size is the constant 2, never 0"⟩,  -- panicking_method equality_primitive steel_vm/primitives.rs (kinds debug_assert / panicking_method added 2026-09-24)
  ⟨13172183697250, .benign, "", "windows(2): the size is the constant 2, never 0"⟩,  -- panicking_method gte_primitive steel_vm/primitives.rs (kinds debug_assert / panicking_method added 2026-09-24)
  ⟨11742465185040, .benign, "", "windows(2): the size is the constant 2, never 0"⟩,  -- panicking_method lte_primitive steel_vm/primitives.rs (kinds debug_assert / panicking_method added 2026-09-24)
  ⟨4603443406776, .benign, "", "windows(2): the size is the constant 2, never 0"⟩,  -- panicking_method lt_primitive steel_vm/primitives.rs (kinds debug_assert / panicking_method added 2026-09-24)
  ⟨10512750810122, .benign, "", "windows(2): the size is the constant 2, never 0"⟩,  -- panicking_method gt_primitive steel_vm/primitives.rs (kinds debug_assert / panicking_method added 2026-09-24)
  ⟨14299630275091, .benign, "", "cast of the constant isize::BITS"⟩,  -- as_usize arithmetic_shift primitives/numbers.rs (added by /repo commit b3ca2f68)
  ⟨10788040694444, .guarded, "", "index >= guard.len() is rejected two lines above"⟩,  -- index bytes_set primitives/bytevectors.rs:258
  ⟨9866378230485, .guarded, "", "start < 0 / end < 0 rejected above"⟩,  -- as_usize bytes_to_string primitives/bytevectors.rs:391
  ⟨4117134229269, .guarded, "", "start < 0 / end < 0 rejected above"⟩,  -- as_usize bytes_to_string primitives/bytevectors.rs:392
  ⟨14901114606446, .guarded, "", "end > len is rejected just above (since /repo commit 0364671b; was finding bytes-to-string-end-beyond-length)"⟩,  -- index bytes_to_string primitives/bytevectors.rs
  ⟨14262317470725, .benign, "", "RestArgsIter<&SteelVal>: the conversion to &SteelVal is the identity and never fails"⟩,  -- unwrap glob primitives/fs.rs:64
  ⟨8164795002734, .benign, "", "IntoSteelVal of a string / integer / custom struct never fails"⟩,  -- unwrap read_dir_iter_next primitives/fs.rs:199
  ⟨15601235914383, .guarded, "", "path starts with the two ASCII bytes ~/ and is longer than 2 bytes"⟩,  -- index canonicalize_path primitives/fs.rs:574
  ⟨846412016169, .hostEffect, "", "steel/git (network, denied)"⟩,  -- expect git_clone primitives/git.rs:113
  ⟨16779106327967, .hostEffect, "", "steel/git (network, denied)"⟩,  -- expect git_clone primitives/git.rs:116
  ⟨5685179208247, .hostEffect, "", "steel/git (network, denied)"⟩,  -- unwrap git_clone primitives/git.rs:120
  ⟨7230589294562, .hostEffect, "", "steel/git (network, denied)"⟩,  -- expect git_clone primitives/git.rs:124
  ⟨5892831872701, .hostEffect, "", "steel/git (network, denied)"⟩,  -- unwrap do_fetch primitives/git.rs:154
  ⟨7012815253562, .hostEffect, "", "steel/git (network, denied)"⟩,  -- unwrap do_fetch primitives/git.rs:163
  ⟨12744470515370, .hostEffect, "", "steel/git (network, denied)"⟩,  -- expect git_pull primitives/git.rs:331
  ⟨17125674875799, .hostEffect, "", "steel/git (network, denied)"⟩,  -- expect git_pull primitives/git.rs:334
  ⟨14893375435713, .hostEffect, "", "steel/git (network, denied)"⟩,  -- unwrap git_pull primitives/git.rs:338
  ⟨11081643567636, .hostEffect, "", "steel/git (network, denied)"⟩,  -- expect git_pull primitives/git.rs:342
  ⟨575653158482, .benign, "", "IntoSteelVal of a string / integer / custom struct never fails"⟩,  -- unwrap md5_hasher primitives/hashes.rs:26
  ⟨9766267372250, .benign, "", "Gc::unwrap (gc.rs: clones the value out of the Gc; not Option::unwrap)"⟩,  -- unwrap hash_remove primitives/hashmaps.rs:155
  ⟨16424564561635, .benign, "", "Gc::unwrap (gc.rs: clones the value out of the Gc; not Option::unwrap)"⟩,  -- unwrap hm_union primitives/hashmaps.rs:448
  ⟨1265828356232, .benign, "", "Gc::unwrap (gc.rs: clones the value out of the Gc; not Option::unwrap)"⟩,  -- unwrap hm_union primitives/hashmaps.rs:449
  ⟨4822950048846, .benign, "", "Gc::unwrap (gc.rs: clones the value out of the Gc; not Option::unwrap)"⟩,  -- unwrap hm_union primitives/hashmaps.rs:455
  ⟨12738000693381, .benign, "", "Gc::unwrap (gc.rs: clones the value out of the Gc; not Option::unwrap)"⟩,  -- unwrap hm_union primitives/hashmaps.rs:462
  ⟨1623997029501, .benign, "", "Gc::unwrap (gc.rs: clones the value out of the Gc; not Option::unwrap)"⟩,  -- unwrap hashset_union primitives/hashsets.rs:125
  ⟨2926329735481, .benign, "", "Gc::unwrap (gc.rs: clones the value out of the Gc; not Option::unwrap)"⟩,  -- unwrap hashset_union primitives/hashsets.rs:125
  ⟨4784298157333, .benign, "", "Gc::unwrap (gc.rs: clones the value out of the Gc; not Option::unwrap)"⟩,  -- unwrap hashset_intersection primitives/hashsets.rs:137
  ⟨10088828451859, .benign, "", "Gc::unwrap (gc.rs: clones the value out of the Gc; not Option::unwrap)"⟩,  -- unwrap hashset_intersection primitives/hashsets.rs:137
  ⟨13571453322588, .benign, "", "Gc::unwrap (gc.rs: clones the value out of the Gc; not Option::unwrap)"⟩,  -- unwrap hashset_difference primitives/hashsets.rs:151
  ⟨6289911048434, .benign, "", "Gc::unwrap (gc.rs: clones the value out of the Gc; not Option::unwrap)"⟩,  -- unwrap hashset_difference primitives/hashsets.rs:151
  ⟨7903164705350, .benign, "", "Gc::unwrap (gc.rs: clones the value out of the Gc; not Option::unwrap)"⟩,  -- unwrap hashset_difference primitives/hashsets.rs:155
  ⟨9667957616994, .benign, "", "Gc::unwrap (gc.rs: clones the value out of the Gc; not Option::unwrap)"⟩,  -- unwrap hashset_difference primitives/hashsets.rs:155
  ⟨17024891906331, .guarded, "", "inner fn of the context function registered with arity Exact(1)"⟩,  -- index hashset_to_mutable_vector_impl primitives/hashsets.rs:181
  ⟨12763357310111, .guarded, "", "only evaluated when res.is_complete(): httparse has then filled method/path/version/code/reason"⟩,  -- unwrap parse_request primitives/http.rs:182
  ⟨17566355151130, .guarded, "", "only evaluated when res.is_complete(): httparse has then filled method/path/version/code/reason"⟩,  -- unwrap parse_request primitives/http.rs:183
  ⟨5615351668153, .guarded, "", "only evaluated when res.is_complete(): httparse has then filled method/path/version/code/reason"⟩,  -- unwrap parse_request primitives/http.rs:184
  ⟨5509324704810, .guarded, "", "only evaluated when res.is_complete(): httparse has then filled method/path/version/code/reason"⟩,  -- unwrap parse_request primitives/http.rs:185
  ⟨13075551527854, .guarded, "", "only evaluated when res.is_complete(): httparse has then filled method/path/version/code/reason"⟩,  -- unwrap parse_response primitives/http.rs:214
  ⟨3465120443587, .guarded, "", "only evaluated when res.is_complete(): httparse has then filled method/path/version/code/reason"⟩,  -- unwrap parse_response primitives/http.rs:215
  ⟨3432530753817, .guarded, "", "only evaluated when res.is_complete(): httparse has then filled method/path/version/code/reason"⟩,  -- unwrap parse_response primitives/http.rs:216
  ⟨11167542202679, .guarded, "", "only evaluated when res.is_complete(): httparse has then filled method/path/version/code/reason"⟩,  -- unwrap parse_response primitives/http.rs:217
  ⟨15829253654814, .guarded, "", "jit2 only: called from jit-compiled code after a list/pair tag check (the JIT is not modelled: trusted)"⟩,  -- unchecked unchecked_car primitives/lists.rs:654
  ⟨17199902173478, .guarded, "", "jit2 only: called from jit-compiled code after a list/pair tag check (the JIT is not modelled: trusted)"⟩,  -- unchecked unchecked_car primitives/lists.rs:656
  ⟨2183478832209, .guarded, "", "arity attribute of the registration (min 1) is checked by the generated wrapper before the body"⟩,  -- index cdr_is_null primitives/lists.rs:663
  ⟨17353264873271, .guarded, "", "jit2 only: called from jit-compiled code after a list/pair tag check (the JIT is not modelled: trusted)"⟩,  -- unchecked cdr_no_check primitives/lists.rs:724
  ⟨5996512195864, .guarded, "", "n < 0 rejected above"⟩,  -- as_usize take primitives/lists.rs:785
  ⟨9303898679399, .guarded, "", "inside `if let Some((first, rest)) = args.split_first_mut()`: args is not empty"⟩,  -- index append primitives/lists.rs:831
  ⟨14110288658474, .guarded, "", "index < 0 rejected above"⟩,  -- as_usize try_list_ref primitives/lists.rs:852
  ⟨9090197868512, .guarded, "", "index < 0 rejected above"⟩,  -- as_usize list_ref primitives/lists.rs:1104
  ⟨2249196407435, .guarded, "", "arity_check!(push_back, args, 2) first"⟩,  -- index push_back primitives/lists.rs:1142
  ⟨4261760530907, .guarded, "", "arity_check!(push_back, args, 2) first"⟩,  -- index push_back primitives/lists.rs:1144
  ⟨14578169781589, .guarded, "", "arity_check!(push_back, args, 2) first"⟩,  -- index push_back primitives/lists.rs:1147
  ⟨13773756441018, .guarded, "", "args.len() is compared with 1 at the top of the closure"⟩,  -- index inspect_bytecode primitives/meta_ops.rs:21
  ⟨949954895358, .guarded, "", "args.len() is compared with 1 at the top of the closure"⟩,  -- index memory_address primitives/meta_ops.rs:63
  ⟨9362414077891, .guarded, "", "args.len() is compared with 1 at the top of the closure"⟩,  -- index assert_truthy primitives/meta_ops.rs:135
  ⟨14546425288285, .reachable, "assert-builtin-panics", "(assert! #f) panics by design"⟩,  -- panic assert_truthy primitives/meta_ops.rs:138
  ⟨13929617616863, .guarded, "", "args.len() is compared with 1 at the top of the closure"⟩,  -- index poll_value primitives/meta_ops.rs:182
  ⟨17005184427510, .benign, "", "Gc::unwrap (gc.rs: clones the value out of the Gc; not Option::unwrap)"⟩,  -- unwrap poll_value primitives/meta_ops.rs:183
  ⟨15366691937204, .guarded, "", "args.len() is compared with 1 at the top of the closure"⟩,  -- index block_on_with_local_executor primitives/meta_ops.rs:201
  ⟨1725062159911, .benign, "", "Gc::unwrap (gc.rs: clones the value out of the Gc; not Option::unwrap)"⟩,  -- unwrap block_on_with_local_executor primitives/meta_ops.rs:202
  ⟨6196908118112, .guarded, "", "args.len() is compared with 1 at the top of the closure"⟩,  -- index block_on primitives/meta_ops.rs:215
  ⟨1996389543947, .benign, "", "Gc::unwrap (gc.rs: clones the value out of the Gc; not Option::unwrap)"⟩,  -- unwrap block_on primitives/meta_ops.rs:217
  ⟨2774207201014, .benign, "", "Gc::unwrap (gc.rs: clones the value out of the Gc; not Option::unwrap)"⟩,  -- unwrap join_futures primitives/meta_ops.rs:239
  ⟨9441694780876, .guarded, "", "arity attribute of the registration (min 2) is checked by the generated wrapper before the body"⟩,  -- index truncate_slash primitives/numbers.rs:386
  ⟨17159384307468, .guarded, "", "arity attribute of the registration (min 2) is checked by the generated wrapper before the body"⟩,  -- index truncate_slash primitives/numbers.rs:386
  ⟨5136541251606, .benign, "", "ToPrimitive::to_f64 of BigInt / Ratio is total (Some, +-inf on overflow)"⟩,  -- unwrap truncate_slash primitives/numbers.rs:418
  ⟨13516438018127, .benign, "", "ToPrimitive::to_f64 of BigInt / Ratio is total (Some, +-inf on overflow)"⟩,  -- unwrap truncate_slash primitives/numbers.rs:422
  ⟨16320969875182, .guarded, "", "arity attribute of the registration (min 2) is checked by the generated wrapper before the body"⟩,  -- index truncate_quotient primitives/numbers.rs:447
  ⟨13148534667858, .guarded, "", "arity attribute of the registration (min 2) is checked by the generated wrapper before the body"⟩,  -- index truncate_quotient primitives/numbers.rs:447
  ⟨366464217879, .benign, "", "ToPrimitive::to_f64 of BigInt / Ratio is total (Some, +-inf on overflow)"⟩,  -- unwrap truncate_quotient primitives/numbers.rs:472
  ⟨15626578717537, .benign, "", "ToPrimitive::to_f64 of BigInt / Ratio is total (Some, +-inf on overflow)"⟩,  -- unwrap truncate_quotient primitives/numbers.rs:475
  ⟨4221227287354, .guarded, "", "arity attribute of the registration (min 2) is checked by the generated wrapper before the body"⟩,  -- index truncate_remainder primitives/numbers.rs:501
  ⟨5484436562082, .guarded, "", "arity attribute of the registration (min 2) is checked by the generated wrapper before the body"⟩,  -- index truncate_remainder primitives/numbers.rs:501
  ⟨10727494871107, .benign, "", "ToPrimitive::to_f64 of BigInt / Ratio is total (Some, +-inf on overflow)"⟩,  -- unwrap truncate_remainder primitives/numbers.rs:526
  ⟨14866110542865, .benign, "", "ToPrimitive::to_f64 of BigInt / Ratio is total (Some, +-inf on overflow)"⟩,  -- unwrap truncate_remainder primitives/numbers.rs:529
  ⟨11900747973855, .guarded, "", "arity attribute of the registration (min 2) is checked by the generated wrapper before the body"⟩,  -- index floor_slash primitives/numbers.rs:553
  ⟨15761810949554, .guarded, "", "arity attribute of the registration (min 2) is checked by the generated wrapper before the body"⟩,  -- index floor_slash primitives/numbers.rs:553
  ⟨4147034064195, .benign, "", "ToPrimitive::to_f64 of BigInt / Ratio is total (Some, +-inf on overflow)"⟩,  -- unwrap floor_slash primitives/numbers.rs:582
  ⟨12341299560481, .benign, "", "ToPrimitive::to_f64 of BigInt / Ratio is total (Some, +-inf on overflow)"⟩,  -- unwrap floor_slash primitives/numbers.rs:586
  ⟨347428190319, .guarded, "", "arity attribute of the registration (min 2) is checked by the generated wrapper before the body"⟩,  -- index floor_quotient primitives/numbers.rs:614
  ⟨4851324781032, .guarded, "", "arity attribute of the registration (min 2) is checked by the generated wrapper before the body"⟩,  -- index floor_quotient primitives/numbers.rs:614
  ⟨6109239417634, .benign, "", "ToPrimitive::to_f64 of BigInt / Ratio is total (Some, +-inf on overflow)"⟩,  -- unwrap floor_quotient primitives/numbers.rs:639
  ⟨8396434375890, .benign, "", "ToPrimitive::to_f64 of BigInt / Ratio is total (Some, +-inf on overflow)"⟩,  -- unwrap floor_quotient primitives/numbers.rs:642
  ⟨11790451143361, .guarded, "", "arity attribute of the registration (min 2) is checked by the generated wrapper before the body"⟩,  -- index floor_remainder primitives/numbers.rs:679
  ⟨5503986553983, .guarded, "", "arity attribute of the registration (min 2) is checked by the generated wrapper before the body"⟩,  -- index floor_remainder primitives/numbers.rs:679
  ⟨11295038623913, .benign, "", "ToPrimitive::to_f64 of BigInt / Ratio is total (Some, +-inf on overflow)"⟩,  -- unwrap floor_remainder primitives/numbers.rs:704
  ⟨13552613462384, .benign, "", "ToPrimitive::to_f64 of BigInt / Ratio is total (Some, +-inf on overflow)"⟩,  -- unwrap floor_remainder primitives/numbers.rs:707
  ⟨12009339905600, .guarded, "", "arity attribute of the registration (min 2) is checked by the generated wrapper before the body"⟩,  -- index euclidean_slash primitives/numbers.rs:734
  ⟨9658108748932, .guarded, "", "arity attribute of the registration (min 2) is checked by the generated wrapper before the body"⟩,  -- index euclidean_slash primitives/numbers.rs:734
  ⟨184816743982, .benign, "", "ToPrimitive::to_f64 of BigInt / Ratio is total (Some, +-inf on overflow)"⟩,  -- unwrap euclidean_slash primitives/numbers.rs:763
  ⟨15346893370588, .benign, "", "ToPrimitive::to_f64 of BigInt / Ratio is total (Some, +-inf on overflow)"⟩,  -- unwrap euclidean_slash primitives/numbers.rs:766
  ⟨13066819094485, .guarded, "", "arity attribute of the registration (min 2) is checked by the generated wrapper before the body"⟩,  -- index euclidean_quotient primitives/numbers.rs:790
  ⟨14301710841772, .guarded, "", "arity attribute of the registration (min 2) is checked by the generated wrapper before the body"⟩,  -- index euclidean_quotient primitives/numbers.rs:790
  ⟨1573719583851, .benign, "", "ToPrimitive::to_f64 of BigInt / Ratio is total (Some, +-inf on overflow)"⟩,  -- unwrap euclidean_quotient primitives/numbers.rs:815
  ⟨6236016084928, .benign, "", "ToPrimitive::to_f64 of BigInt / Ratio is total (Some, +-inf on overflow)"⟩,  -- unwrap euclidean_quotient primitives/numbers.rs:818
  ⟨9609639251619, .guarded, "", "arity attribute of the registration (min 2) is checked by the generated wrapper before the body"⟩,  -- index euclidean_remainder primitives/numbers.rs:844
  ⟨13105896475074, .guarded, "", "arity attribute of the registration (min 2) is checked by the generated wrapper before the body"⟩,  -- index euclidean_remainder primitives/numbers.rs:844
  ⟨13783498944112, .benign, "", "ToPrimitive::to_f64 of BigInt / Ratio is total (Some, +-inf on overflow)"⟩,  -- unwrap euclidean_remainder primitives/numbers.rs:869
  ⟨6870028764314, .benign, "", "ToPrimitive::to_f64 of BigInt / Ratio is total (Some, +-inf on overflow)"⟩,  -- unwrap euclidean_remainder primitives/numbers.rs:872
  ⟨15461498104119, .benign, "", "ToPrimitive::to_f64 of BigInt / Ratio is total (Some, +-inf on overflow)"⟩,  -- unwrap sin primitives/numbers.rs:968
  ⟨1799617298506, .benign, "", "ToPrimitive::to_f64 of BigInt / Ratio is total (Some, +-inf on overflow)"⟩,  -- unwrap cos primitives/numbers.rs:993
  ⟨2454800935264, .benign, "", "ToPrimitive::to_f64 of BigInt / Ratio is total (Some, +-inf on overflow)"⟩,  -- unwrap tan primitives/numbers.rs:1018
  ⟨12550764939821, .benign, "", "ToPrimitive::to_f64 of BigInt / Ratio is total (Some, +-inf on overflow)"⟩,  -- unwrap asin primitives/numbers.rs:1043
  ⟨10300140352184, .benign, "", "ToPrimitive::to_f64 of BigInt / Ratio is total (Some, +-inf on overflow)"⟩,  -- unwrap acos primitives/numbers.rs:1068
  ⟨366582189699, .benign, "", "ToPrimitive::to_f64 of BigInt / Ratio is total (Some, +-inf on overflow)"⟩,  -- unwrap atan primitives/numbers.rs:1093
  ⟨16777643877218, .benign, "", "ToPrimitive::to_f64 of BigInt / Ratio is total (Some, +-inf on overflow)"⟩,  -- unwrap number_to_float primitives/numbers.rs:1200
  ⟨6606758510750, .benign, "", "ToPrimitive::to_f64 of BigInt / Ratio is total (Some, +-inf on overflow)"⟩,  -- unwrap number_to_float primitives/numbers.rs:1201
  ⟨13799288493046, .benign, "", "ToPrimitive::to_f64 of BigInt / Ratio is total (Some, +-inf on overflow)"⟩,  -- unwrap number_to_float primitives/numbers.rs:1203
  ⟨10961958519327, .benign, "", "ToPrimitive::to_f64 of BigInt / Ratio is total (Some, +-inf on overflow)"⟩,  -- unwrap inexact primitives/numbers.rs:1225
  ⟨17238069667111, .benign, "", "ToPrimitive::to_f64 of BigInt / Ratio is total (Some, +-inf on overflow)"⟩,  -- unwrap inexact primitives/numbers.rs:1226
  ⟨13920508883995, .benign, "", "ToPrimitive::to_f64 of BigInt / Ratio is total (Some, +-inf on overflow)"⟩,  -- unwrap inexact primitives/numbers.rs:1228
  ⟨13370087066535, .guarded, "", "the arm is guarded by r >= 0 (resp. r > 0)"⟩,  -- as_usize expt primitives/numbers.rs:1406
  ⟨12636016864216, .benign, "", "ToPrimitive::to_f64 of BigInt / Ratio is total (Some, +-inf on overflow)"⟩,  -- unwrap expt primitives/numbers.rs:1422
  ⟨16425837111261, .benign, "", "ToPrimitive::to_f64 of BigInt / Ratio is total (Some, +-inf on overflow)"⟩,  -- unwrap expt primitives/numbers.rs:1439
  ⟨11399564109634, .benign, "", "ToPrimitive::to_f64 of BigInt / Ratio is total (Some, +-inf on overflow)"⟩,  -- unwrap expt primitives/numbers.rs:1446
  ⟨11819165780269, .benign, "", "ToPrimitive::to_f64 of BigInt / Ratio is total (Some, +-inf on overflow)"⟩,  -- unwrap expt primitives/numbers.rs:1447
  ⟨3457596131956, .benign, "", "ToPrimitive::to_f64 of BigInt / Ratio is total (Some, +-inf on overflow)"⟩,  -- unwrap expt primitives/numbers.rs:1449
  ⟨601806403997, .benign, "", "`.to_f64()` on the previous line: total for BigInt / Ratio"⟩,  -- unwrap expt primitives/numbers.rs:1453
  ⟨14679922560191, .benign, "", "ToPrimitive::to_f64 of BigInt / Ratio is total (Some, +-inf on overflow)"⟩,  -- unwrap expt primitives/numbers.rs:1454
  ⟨9411555916047, .benign, "", "ToPrimitive::to_f64 of BigInt / Ratio is total (Some, +-inf on overflow)"⟩,  -- unwrap expt primitives/numbers.rs:1456
  ⟨8344582082030, .benign, "", "`.to_f64()` on the previous line: total for BigInt / Ratio"⟩,  -- unwrap expt primitives/numbers.rs:1466
  ⟨4122209741895, .benign, "", "ToPrimitive::to_f64 of BigInt / Ratio is total (Some, +-inf on overflow)"⟩,  -- unwrap expt primitives/numbers.rs:1467
  ⟨202633446654, .benign, "", "`.to_f64()` on the previous line: total for BigInt / Ratio"⟩,  -- unwrap expt primitives/numbers.rs:1471
  ⟨14696542480065, .benign, "", "ToPrimitive::to_f64 of BigInt / Ratio is total (Some, +-inf on overflow)"⟩,  -- unwrap expt primitives/numbers.rs:1472
  ⟨4567654481269, .guarded, "", "the arm is guarded by r >= 0 (resp. r > 0)"⟩,  -- as_usize expt primitives/numbers.rs:1487
  ⟨14330941603723, .benign, "", "ToPrimitive::to_f64 of BigInt / Ratio is total (Some, +-inf on overflow)"⟩,  -- unwrap expt primitives/numbers.rs:1489
  ⟨7284233231962, .benign, "", "`.to_f64()` on the previous line: total for BigInt / Ratio"⟩,  -- unwrap expt primitives/numbers.rs:1492
  ⟨3281906973750, .benign, "", "ToPrimitive::to_f64 of BigInt / Ratio is total (Some, +-inf on overflow)"⟩,  -- unwrap expt primitives/numbers.rs:1493
  ⟨17417535602537, .benign, "", "`.to_f64()` on the previous line: total for BigInt / Ratio"⟩,  -- unwrap expt primitives/numbers.rs:1497
  ⟨11106089846339, .benign, "", "ToPrimitive::to_f64 of BigInt / Ratio is total (Some, +-inf on overflow)"⟩,  -- unwrap expt primitives/numbers.rs:1498
  ⟨10121165568293, .benign, "", "`.to_f64()` on the previous line: total for BigInt / Ratio"⟩,  -- unwrap expt primitives/numbers.rs:1502
  ⟨13984088628714, .benign, "", "ToPrimitive::to_f64 of BigInt / Ratio is total (Some, +-inf on overflow)"⟩,  -- unwrap expt primitives/numbers.rs:1503
  ⟨13566971013386, .benign, "", "ToPrimitive::to_f64 of BigInt / Ratio is total (Some, +-inf on overflow)"⟩,  -- unwrap expt primitives/numbers.rs:1506
  ⟨6161795584416, .benign, "", "`.to_f64()` on the previous line: total for BigInt / Ratio"⟩,  -- unwrap expt primitives/numbers.rs:1517
  ⟨10387882904727, .benign, "", "ToPrimitive::to_f64 of BigInt / Ratio is total (Some, +-inf on overflow)"⟩,  -- unwrap expt primitives/numbers.rs:1518
  ⟨1995355227845, .benign, "", "`.to_f64()` on the previous line: total for BigInt / Ratio"⟩,  -- unwrap expt primitives/numbers.rs:1522
  ⟨13781359691435, .benign, "", "ToPrimitive::to_f64 of BigInt / Ratio is total (Some, +-inf on overflow)"⟩,  -- unwrap expt primitives/numbers.rs:1523
  ⟨7338350736205, .benign, "", "ToPrimitive::to_f64 of BigInt / Ratio is total (Some, +-inf on overflow)"⟩,  -- unwrap sqrt primitives/numbers.rs:1809
  ⟨1181135365655, .benign, "", "ToPrimitive::to_f64 of BigInt / Ratio is total (Some, +-inf on overflow)"⟩,  -- unwrap sqrt primitives/numbers.rs:1817
  ⟨995768524492, .benign, "", "ToPrimitive::to_f64 of BigInt / Ratio is total (Some, +-inf on overflow)"⟩,  -- unwrap atan2 primitives/numbers.rs:1978
  ⟨13403966182203, .guarded, "", "arity attribute of the registration (min 1) is checked by the generated wrapper before the body"⟩,  -- index log primitives/numbers.rs:2008
  ⟨8893739728253, .guarded, "", "arity attribute of the registration (min 2) is checked by the generated wrapper before the body"⟩,  -- index arithmetic_shift primitives/numbers.rs:2093
  ⟨11557037667911, .guarded, "", "arity attribute of the registration (min 2) is checked by the generated wrapper before the body"⟩,  -- index arithmetic_shift primitives/numbers.rs:2093
  ⟨10135851273091, .guarded, "", "arity attribute of the registration (min 1) is checked by the generated wrapper before the body"⟩,  -- index bitwise_xor primitives/numbers.rs:2118
  ⟨10704150302424, .guarded, "", "arity attribute of the registration (min 1) is checked by the generated wrapper before the body"⟩,  -- index bitwise_xor primitives/numbers.rs:2125
  ⟨7632265544050, .guarded, "", "arity attribute of the registration (min 1) is checked by the generated wrapper before the body"⟩,  -- index bitwise_xor primitives/numbers.rs:2128
  ⟨1312783610984, .guarded, "", "arity attribute of the registration (min 1) is checked by the generated wrapper before the body"⟩,  -- index bitwise_ior primitives/numbers.rs:2150
  ⟨5508048159237, .guarded, "", "arity attribute of the registration (min 1) is checked by the generated wrapper before the body"⟩,  -- index bitwise_ior primitives/numbers.rs:2157
  ⟨16840875225986, .guarded, "", "arity attribute of the registration (min 1) is checked by the generated wrapper before the body"⟩,  -- index bitwise_ior primitives/numbers.rs:2160
  ⟨591082645629, .guarded, "", "arity attribute of the registration (min 1) is checked by the generated wrapper before the body"⟩,  -- index bitwise_and primitives/numbers.rs:2182
  ⟨13143180526132, .guarded, "", "arity attribute of the registration (min 1) is checked by the generated wrapper before the body"⟩,  -- index bitwise_and primitives/numbers.rs:2189
  ⟨9983094560913, .guarded, "", "arity attribute of the registration (min 1) is checked by the generated wrapper before the body"⟩,  -- index bitwise_and primitives/numbers.rs:2192
  ⟨9266243210648, .guarded, "", "arity attribute of the registration (min 1) is checked by the generated wrapper before the body"⟩,  -- index bitwise_not primitives/numbers.rs:2214
  ⟨883430455534, .benign, "", "ToPrimitive::to_f64 of BigInt / Ratio is total (Some, +-inf on overflow)"⟩,  -- unwrap multiply_two primitives/numbers.rs:2316
  ⟨1786015527585, .benign, "", "ToPrimitive::to_f64 of BigInt / Ratio is total (Some, +-inf on overflow)"⟩,  -- unwrap multiply_two primitives/numbers.rs:2319
  ⟨4258837699978, .benign, "", "ToPrimitive::to_f64 of BigInt / Ratio is total (Some, +-inf on overflow)"⟩,  -- unwrap multiply_two primitives/numbers.rs:2323
  ⟨10129096522468, .guarded, "", "callers validate with ensure_args_are_numbers / number?; every pair of numeric kinds has an arm (arms_total)"⟩,  -- unreachable multiply_two primitives/numbers.rs:2395
  ⟨12127307327072, .guarded, "", "callers validate number?; every numeric kind has an arm (arms_total_unary)"⟩,  -- unreachable negate primitives/numbers.rs:2447
  ⟨9978237317200, .benign, "", "ToPrimitive::to_f64 of BigInt / Ratio is total (Some, +-inf on overflow)"⟩,  -- unwrap add_two primitives/numbers.rs:2473
  ⟨9164472721930, .benign, "", "ToPrimitive::to_f64 of BigInt / Ratio is total (Some, +-inf on overflow)"⟩,  -- unwrap add_two primitives/numbers.rs:2476
  ⟨16023942750143, .benign, "", "ToPrimitive::to_f64 of BigInt / Ratio is total (Some, +-inf on overflow)"⟩,  -- unwrap add_two primitives/numbers.rs:2480
  ⟨16817630619708, .benign, "", "ToPrimitive::to_f64 of BigInt / Ratio is total (Some, +-inf on overflow)"⟩,  -- unwrap add_two_fallible primitives/numbers.rs:2572
  ⟨12618577914295, .benign, "", "ToPrimitive::to_f64 of BigInt / Ratio is total (Some, +-inf on overflow)"⟩,  -- unwrap add_two_fallible primitives/numbers.rs:2575
  ⟨3284719847268, .benign, "", "ToPrimitive::to_f64 of BigInt / Ratio is total (Some, +-inf on overflow)"⟩,  -- unwrap add_two_fallible primitives/numbers.rs:2579
  ⟨4529737253590, .guarded, "", "arity attribute of the registration (min 1) is checked by the generated wrapper before the body"⟩,  -- index open_output_file primitives/ports.rs:174
  ⟨68615421955, .guarded, "", "arity attribute of the registration (min 1) is checked by the generated wrapper before the body"⟩,  -- index open_output_file primitives/ports.rs:175
  ⟨8855549394244, .hostEffect, "", "steel/process (denied)"⟩,  -- unwrap binary_exists_on_path primitives/process.rs:549
  ⟨1354079582493, .guarded, "", "args.len() is compared with the expected count at the top of each closure"⟩,  -- index stream_cons primitives/streams.rs:15
  ⟨6190460257508, .guarded, "", "args.len() is compared with the expected count at the top of each closure"⟩,  -- index stream_cons primitives/streams.rs:16
  ⟨12884488719156, .guarded, "", "args.len() is compared with the expected count at the top of each closure"⟩,  -- index stream_cons primitives/streams.rs:17
  ⟨3377357312662, .guarded, "", "args.len() is compared with the expected count at the top of each closure"⟩,  -- index stream_empty_huh primitives/streams.rs:38
  ⟨9372417531114, .guarded, "", "args.len() is compared with the expected count at the top of each closure"⟩,  -- index stream_car primitives/streams.rs:51
  ⟨1282324554397, .guarded, "", "args.len() is compared with the expected count at the top of each closure"⟩,  -- index stream_cdr primitives/streams.rs:64
  ⟨16134473053929, .guarded, "", "args.len() is compared with the expected count at the top of each closure"⟩,  -- index stream_cdr primitives/streams.rs:67
  ⟨8771660312167, .guarded, "", "idx = n % radix with 2 <= radix <= 16 (checked in number_to_string); start = acc.len() before the pushes"⟩,  -- index small primitives/strings.rs:125
  ⟨1729495996911, .guarded, "", "idx = n % radix with 2 <= radix <= 16 (checked in number_to_string); start = acc.len() before the pushes"⟩,  -- index small primitives/strings.rs:132
  ⟨11538227362852, .benign, "", "Gc::unwrap (gc.rs: clones the value out of the Gc; not Option::unwrap)"⟩,  -- unwrap format_number primitives/strings.rs:158
  ⟨14287932438006, .benign, "", "the accumulator only receives ASCII digits, signs, `/`, `i`, `.`, `e` and the text of {:?} of an f64"⟩,  -- expect number_to_string_impl primitives/strings.rs:203
  ⟨9419352931563, .guarded, "", "2 <= radix <= 16 checked above"⟩,  -- as_usize number_to_string primitives/strings.rs:234
  ⟨4399720920299, .guarded, "", "range comes from bounds(): byte offsets taken from char_indices, inside the string"⟩,  -- index substring primitives/strings.rs:540
  ⟨8656318404222, .guarded, "", "inside `if let SteelVal::StringV(_) = value`: the taken value is that string"⟩,  -- unchecked string_push primitives/strings.rs:623
  ⟨7294809664348, .benign, "", "Gc::unwrap (gc.rs: clones the value out of the Gc; not Option::unwrap)"⟩,  -- unwrap string_to_uninterned_symbol primitives/strings.rs:662
  ⟨4208106357491, .guarded, "", "arity attribute of the registration (min 1) is checked by the generated wrapper before the body"⟩,  -- index string_to_symbol primitives/strings.rs:679
  ⟨10915331274760, .guarded, "", "range comes from bounds()"⟩,  -- index string_to_list primitives/strings.rs:759
  ⟨10416500145666, .guarded, "", "range comes from bounds()"⟩,  -- index string_to_bytes primitives/strings.rs:1297
  ⟨4482433873304, .guarded, "", "range comes from bounds()"⟩,  -- index string_to_vector primitives/strings.rs:1327
  ⟨11668053948357, .guarded, "", "negative bounds rejected first"⟩,  -- as_usize bounds primitives/strings.rs:1346
  ⟨9968649466261, .guarded, "", "negative bounds rejected first"⟩,  -- as_usize bounds primitives/strings.rs:1357
  ⟨6153550135042, .guarded, "", "negative bounds rejected first"⟩,  -- as_usize bounds primitives/strings.rs:1362
  ⟨15747814775732, .guarded, "", "arity attribute of the registration (min 1) is checked by the generated wrapper before the body"⟩,  -- index symbol_to_string primitives/symbols.rs:122
  ⟨10031278883744, .guarded, "", "arity attribute of the registration (min 1) is checked by the generated wrapper before the body"⟩,  -- index symbol_to_string primitives/symbols.rs:125
  ⟨12781932033823, .guarded, "", "arity attribute of the registration (min 1) is checked by the generated wrapper before the body"⟩,  -- index symbol_to_string primitives/symbols.rs:128
  ⟨8050231100705, .hostEffect, "", "steel/tcp (network, denied)"⟩,  -- unwrap tcp_close primitives/tcp.rs:60
  ⟨13355725049704, .hostEffect, "", "steel/tcp (network, denied)"⟩,  -- unwrap tcp_input_port primitives/tcp.rs:73
  ⟨12431366781138, .hostEffect, "", "steel/tcp (network, denied)"⟩,  -- unwrap tcp_output_port primitives/tcp.rs:85
  ⟨10987073836234, .hostEffect, "", "steel/tcp (network, denied)"⟩,  -- unwrap tcp_buffered_output_port primitives/tcp.rs:99
  ⟨8496856555524, .benign, "", "usize -> u64 never fails on 64 bit targets; negative arguments are rejected by the usize conversion of the wrapper"⟩,  -- unwrap sleep_millis primitives/time.rs:186
  ⟨16918780434358, .benign, "", "only if the system clock is before 1970"⟩,  -- panic current_milliseconds primitives/time.rs:204
  ⟨1380247057615, .benign, "", "only if the system clock is before 1970"⟩,  -- panic current_seconds primitives/time.rs:223
  ⟨12801080582479, .benign, "", "only if the system clock is before 1970"⟩,  -- panic current_inexact_milliseconds primitives/time.rs:236
  ⟨12181934411331, .benign, "", "IntoSteelVal of a string / integer / custom struct never fails"⟩,  -- unwrap system_time_duration_since primitives/time.rs:257
  ⟨2300300743872, .benign, "", "enum discriminant"⟩,  -- as_usize pair primitives/transducers.rs:111
  ⟨9084342250604, .benign, "", "Gc::unwrap (gc.rs: clones the value out of the Gc; not Option::unwrap)"⟩,  -- unwrap compose primitives/transducers.rs:188
  ⟨2829083337572, .guarded, "", "args.len() < 2 rejected at the top"⟩,  -- expect transduce primitives/transducers.rs:219
  ⟨7860047401190, .guarded, "", "args.len() < 2 rejected at the top"⟩,  -- unwrap transduce primitives/transducers.rs:222
  ⟨4427484301122, .benign, "", "Gc::unwrap (gc.rs: clones the value out of the Gc; not Option::unwrap)"⟩,  -- unwrap immutable_vector_rest primitives/vectors.rs:58
  ⟨1639222409782, .guarded, "", "inner fn of the context function registered with arity AtLeast(1): args.iter().next() is Some"⟩,  -- todo vector_copy_impl primitives/vectors.rs:209
  ⟨7676727781944, .guarded, "", "len < 0 rejected above (a huge len exhausts memory: finding unbounded-allocation)"⟩,  -- as_usize make_immutable_vector primitives/vectors.rs:343
  ⟨12446222610964, .benign, "", "Gc::unwrap (gc.rs: clones the value out of the Gc; not Option::unwrap)"⟩,  -- unwrap immutable_vector_push primitives/vectors.rs:370
  ⟨760550797634, .benign, "", "Gc::unwrap (gc.rs: clones the value out of the Gc; not Option::unwrap)"⟩,  -- unwrap vector_push primitives/vectors.rs:392
  ⟨4510811162082, .benign, "", "Gc::unwrap (gc.rs: clones the value out of the Gc; not Option::unwrap)"⟩,  -- unwrap immutable_vector_push_front primitives/vectors.rs:430
  ⟨2655548559374, .benign, "", "Gc::unwrap (gc.rs: clones the value out of the Gc; not Option::unwrap)"⟩,  -- unwrap immutable_vector_set primitives/vectors.rs:476
  ⟨14675323770528, .dead, "", "immutable-vector-pop-back is not registered in any module (TODO: Register function)"⟩,  -- todo immutable_vector_pop_back primitives/vectors.rs:516
  ⟨592970953148, .guarded, "", "slice pattern guarded by `if *i >= 0`"⟩,  -- as_usize make_vector_impl primitives/vectors.rs:740
  ⟨7963797331738, .guarded, "", "slice pattern guarded by `if *i >= 0`"⟩,  -- as_usize make_vector_impl primitives/vectors.rs:744
  ⟨9103563172148, .guarded, "", "src and dest are the same vector here; (src_start, src_end) were validated against it by bounds_mut"⟩,  -- index mut_vector_copy primitives/vectors.rs:801
  ⟨5282050727264, .benign, "", "upgrade of the heap reference of a live value: fails only if the collector freed reachable storage (C04)"⟩,  -- unwrap mut_vec_length primitives/vectors.rs:936
  ⟨6566794319626, .guarded, "", "arity attribute of the registration (min 2) is checked by the generated wrapper before the body"⟩,  -- index vec_range primitives/vectors.rs:1070
  ⟨13051514080163, .guarded, "", "arity attribute of the registration (min 2) is checked by the generated wrapper before the body"⟩,  -- index vec_range primitives/vectors.rs:1070
  ⟨8155224182277, .guarded, "", "negative bounds are rejected by the arm above (since /repo commit dbe72b10; was finding negative-count-becomes-huge)"⟩,  -- as_usize vec_range primitives/vectors.rs
  ⟨17365417754872, .guarded, "", "negative bounds are rejected by the arm above (since /repo commit dbe72b10; was finding negative-count-becomes-huge)"⟩,  -- as_usize vec_range primitives/vectors.rs
  ⟨2144821357372, .guarded, "", "arity attribute of the registration (min 2) is checked by the generated wrapper before the body"⟩,  -- index mut_vec_get primitives/vectors.rs:1097
  ⟨1850706224051, .guarded, "", "arity attribute of the registration (min 2) is checked by the generated wrapper before the body"⟩,  -- index mut_vec_get primitives/vectors.rs:1098
  ⟨9159985708504, .guarded, "", "i < 0 and i >= len rejected above"⟩,  -- as_usize mut_vec_get primitives/vectors.rs:1110
  ⟨2548476576657, .guarded, "", "i < 0 and i >= len rejected above"⟩,  -- as_usize mut_vec_get primitives/vectors.rs:1115
  ⟨1850238458522, .guarded, "", "i < 0 and i >= len rejected above"⟩,  -- index mut_vec_get primitives/vectors.rs:1115
  ⟨9831713348637, .guarded, "", "arity attribute of the registration (min 2) is checked by the generated wrapper before the body"⟩,  -- index mut_vec_push primitives/vectors.rs:1142
  ⟨4654416864208, .guarded, "", "arity attribute of the registration (min 2) is checked by the generated wrapper before the body"⟩,  -- index mut_vec_push primitives/vectors.rs:1151
  ⟨5625590544330, .guarded, "", "arity attribute of the registration (min 2) is checked by the generated wrapper before the body"⟩,  -- index mut_vec_append primitives/vectors.rs:1175
  ⟨13722513523031, .guarded, "", "arity attribute of the registration (min 2) is checked by the generated wrapper before the body"⟩,  -- index mut_vec_append primitives/vectors.rs:1176
  ⟨15584654846805, .guarded, "", "negative index and idx >= len rejected above"⟩,  -- as_usize vec_ref primitives/vectors.rs:1248
  ⟨740877456096, .guarded, "", "negative index and idx >= len rejected above"⟩,  -- index vec_ref primitives/vectors.rs:1269
  ⟨11521346417692, .guarded, "", "negative index and idx >= len rejected above"⟩,  -- index vec_ref primitives/vectors.rs:1275
  ⟨5207043354591, .guarded, "", "arity attribute of the registration (min 2) is checked by the generated wrapper before the body"⟩,  -- index vec_push primitives/vectors.rs:1310
  ⟨10942461974375, .guarded, "", "arity attribute of the registration (min 2) is checked by the generated wrapper before the body"⟩,  -- index vec_push primitives/vectors.rs:1311
  ⟨830237768674, .benign, "", "Gc::unwrap (gc.rs: clones the value out of the Gc; not Option::unwrap)"⟩,  -- unwrap vec_push primitives/vectors.rs:1315
  ⟨16832622101998, .guarded, "", "arity attribute of the registration (min 2) is checked by the generated wrapper before the body"⟩,  -- index vec_cons primitives/vectors.rs:1342
  ⟨14668111643191, .guarded, "", "arity attribute of the registration (min 2) is checked by the generated wrapper before the body"⟩,  -- index vec_cons primitives/vectors.rs:1343
  ⟨359048085643, .benign, "", "Gc::unwrap (gc.rs: clones the value out of the Gc; not Option::unwrap)"⟩,  -- unwrap vec_cons primitives/vectors.rs:1347
  ⟨14589920443676, .guarded, "", "arity attribute of the registration (min 1) is checked by the generated wrapper before the body"⟩,  -- index vec_car primitives/vectors.rs:1373
  ⟨1628550201055, .benign, "", "Gc::unwrap (gc.rs: clones the value out of the Gc; not Option::unwrap)"⟩,  -- unwrap vec_car primitives/vectors.rs:1375
  ⟨9762050155189, .guarded, "", "arity attribute of the registration (min 1) is checked by the generated wrapper before the body"⟩,  -- index vec_cdr primitives/vectors.rs:1398
  ⟨6147642036074, .benign, "", "Gc::unwrap (gc.rs: clones the value out of the Gc; not Option::unwrap)"⟩,  -- unwrap vec_cdr primitives/vectors.rs:1400
  ⟨10376174276985, .guarded, "", "arity attribute of the registration (min 1) is checked by the generated wrapper before the body"⟩,  -- index list_vec_null primitives/vectors.rs:1427
  ⟨1089598794935, .benign, "", "Gc::unwrap (gc.rs: clones the value out of the Gc; not Option::unwrap)"⟩,  -- unwrap unwrap_single_list primitives/vectors.rs:1447
  ⟨16036327709303, .guarded, "", "negative bounds rejected first"⟩,  -- as_usize bounds_mut primitives/vectors.rs:1469
  ⟨13291084555876, .guarded, "", "negative bounds rejected first"⟩,  -- as_usize bounds_mut primitives/vectors.rs:1470
  ⟨11498884777261, .guarded, "", "negative bounds rejected first"⟩,  -- as_usize bounds primitives/vectors.rs:1500
  ⟨8840686463520, .guarded, "", "negative bounds rejected first"⟩,  -- as_usize bounds primitives/vectors.rs:1501
  ⟨90090495585, .benign, "", "IntoSteelVal of a string / integer / custom struct never fails"⟩,  -- unwrap private_prim_module steel_vm/primitives.rs:610
  ⟨13418224477004, .guarded, "", "x is a window of length 2"⟩,  -- index equality_primitive steel_vm/primitives.rs:1386
  ⟨6630140772772, .guarded, "", "x is a window of length 2"⟩,  -- index equality_primitive steel_vm/primitives.rs:1386
  ⟨17324281584460, .guarded, "", "x is a window of length 2"⟩,  -- index gte_primitive steel_vm/primitives.rs:1395
  ⟨3478973536646, .guarded, "", "x is a window of length 2"⟩,  -- index gte_primitive steel_vm/primitives.rs:1395
  ⟨9057427072722, .guarded, "", "x is a window of length 2"⟩,  -- index lte_primitive steel_vm/primitives.rs:1408
  ⟨7110705893036, .guarded, "", "x is a window of length 2"⟩,  -- index lte_primitive steel_vm/primitives.rs:1408
  ⟨7252260325743, .guarded, "", "x is a window of length 2"⟩,  -- index lt_primitive steel_vm/primitives.rs:1421
  ⟨6957019020693, .guarded, "", "x is a window of length 2"⟩,  -- index lt_primitive steel_vm/primitives.rs:1421
  ⟨8791933009563, .guarded, "", "x is a window of length 2"⟩,  -- index gt_primitive steel_vm/primitives.rs:1434
  ⟨14922978526404, .guarded, "", "x is a window of length 2"⟩,  -- index gt_primitive steel_vm/primitives.rs:1434
  ⟨8695533791908, .benign, "", "IntoSteelVal of a string / integer / custom struct never fails"⟩,  -- unwrap get_environment_variable steel_vm/primitives.rs:1655
  ⟨16128241957773, .benign, "", "IntoSteelVal of a string / integer / custom struct never fails"⟩,  -- unwrap lookup_function_name steel_vm/primitives.rs:1781
  ⟨17069918693367, .benign, "", "IntoSteelVal of a string / integer / custom struct never fails"⟩,  -- unwrap lookup_function_name steel_vm/primitives.rs:1782
  ⟨12741866616423, .benign, "", "IntoSteelVal of a string / integer / custom struct never fails"⟩,  -- unwrap lookup_function_name steel_vm/primitives.rs:1785
  ⟨10262046992884, .benign, "", "IntoSteelVal of a string / integer / custom struct never fails"⟩,  -- unwrap lookup_function_name steel_vm/primitives.rs:1789
  ⟨8745240937810, .guarded, "", "arity attribute of the registration (min 1) is checked by the generated wrapper before the body"⟩,  -- index lookup_doc_ctx steel_vm/primitives.rs:1799
  ⟨5442541662024, .benign, "", "IntoSteelVal of a string / integer / custom struct never fails"⟩,  -- unwrap arity_to_list steel_vm/primitives.rs:1869
  ⟨3747332771524, .benign, "", "IntoSteelVal of a string / integer / custom struct never fails"⟩,  -- unwrap arity_to_list steel_vm/primitives.rs:1869
  ⟨14268330241213, .benign, "", "IntoSteelVal of a string / integer / custom struct never fails"⟩,  -- unwrap arity_to_list steel_vm/primitives.rs:1871
  ⟨622982170229, .benign, "", "IntoSteelVal of a string / integer / custom struct never fails"⟩,  -- unwrap arity_to_list steel_vm/primitives.rs:1872
  ⟨17392580476799, .benign, "", "IntoSteelVal of a string / integer / custom struct never fails"⟩,  -- unwrap arity_to_list steel_vm/primitives.rs:1875
  ⟨3474507520516, .benign, "", "IntoSteelVal of a string / integer / custom struct never fails"⟩,  -- unwrap arity_to_list steel_vm/primitives.rs:1876
  ⟨4687549588685, .benign, "", "IntoSteelVal of a string / integer / custom struct never fails"⟩,  -- unwrap arity_to_list steel_vm/primitives.rs:1879
  ⟨4577888170471, .benign, "", "IntoSteelVal of a string / integer / custom struct never fails"⟩,  -- unwrap arity_to_list steel_vm/primitives.rs:1880
  ⟨16843412283098, .benign, "", "IntoSteelVal of a string / integer / custom struct never fails"⟩,  -- unwrap arity_to_list steel_vm/primitives.rs:1881
  ⟨3026422344549, .benign, "", "Vec<SteelVal>::into_steelval never fails"⟩,  -- unwrap arity_to_list steel_vm/primitives.rs:1885
  ⟨8487239073901, .guarded, "", "arity attribute of the registration (min 1) is checked by the generated wrapper before the body"⟩,  -- index intern_symbol steel_vm/primitives.rs:2113
  ⟨1462218336420, .guarded, "", "pattern guard *n >= 0 (verification hook)"⟩,  -- as_usize verif_gc_every steel_vm/primitives.rs:2228
  ⟨1411796099625, .guarded, "", "arity attribute of the registration (min 1) is checked by the generated wrapper before the body"⟩,  -- index make_mutable_box steel_vm/primitives.rs:2274
  ⟨5070513445924, .guarded, "", "inner fn of context functions registered with arity Exact(1)"⟩,  -- index function_to_ffi_impl steel_vm/primitives.rs:2380
  ⟨16585773553332, .guarded, "", "inner fn of the context function registered with arity Exact(1)"⟩,  -- index module_exports_impl steel_vm/primitives.rs:2403
  ⟨8450478872751, .benign, "", "`provides` holds the (provide ...) forms of a compiled module: always lists with a head"⟩,  -- index module_exports_impl steel_vm/primitives.rs:2422
  ⟨11737724912395, .benign, "", "`provides` holds the (provide ...) forms of a compiled module: always lists with a head"⟩,  -- unwrap module_exports_impl steel_vm/primitives.rs:2422
  ⟨9969409228447, .benign, "", "IntoSteelVal of a string / integer / custom struct never fails"⟩,  -- unwrap meta_module steel_vm/primitives.rs:2452
  ⟨8831007827279, .guarded, "", "only called from the context function registered with arity Exact(1)"⟩,  -- index syntax_to_module_impl steel_vm/primitives.rs:2650
  ⟨13235018880349, .benign, "", "paths of sources were registered from Rust strings (valid UTF-8)"⟩,  -- unwrap syntax_to_module_impl steel_vm/primitives.rs:2659
  ⟨2182469018527, .benign, "", "paths of sources were registered from Rust strings (valid UTF-8)"⟩,  -- unwrap syntax_to_module_impl steel_vm/primitives.rs:2663
  ⟨1411810465170, .guarded, "", "inner fn of the context function registered with arity Exact(3)"⟩,  -- index syntax_raw_impl steel_vm/primitives.rs:2680
  ⟨16766825636599, .guarded, "", "inner fn of the context function registered with arity Exact(3)"⟩,  -- index syntax_raw_impl steel_vm/primitives.rs:2681
  ⟨11394134171942, .guarded, "", "inner fn of the context function registered with arity Exact(3)"⟩,  -- index syntax_raw_impl steel_vm/primitives.rs:2682
  ⟨15107750830797, .benign, "", "intern_symbol always returns Some"⟩,  -- unwrap syntax_raw_impl steel_vm/primitives.rs:2682
  ⟨5697059051835, .guarded, "", "inner fn of the context function registered with arity Exact(1)"⟩,  -- index path_to_source_id_impl steel_vm/primitives.rs:2692
  ⟨9444398334605, .guarded, "", "args.len() < 2 rejected at the top"⟩,  -- index error_with_src_loc steel_vm/primitives.rs:2754
  ⟨7556517100129, .guarded, "", "args.len() < 2 rejected at the top"⟩,  -- index error_with_src_loc steel_vm/primitives.rs:2755
  ⟨7981296496084, .guarded, "", "args.len() < 2 rejected at the top"⟩,  -- index error_with_src_loc steel_vm/primitives.rs:2764
  ⟨8100550422453, .guarded, "", "args.len() < 2 rejected at the top"⟩,  -- index error_with_src_loc steel_vm/primitives.rs:2766
  ⟨9865499776771, .guarded, "", "args.len() < 2 rejected at the top"⟩,  -- index error_with_src_loc steel_vm/primitives.rs:2767
  ⟨15693207756456, .guarded, "", "args.len() != 2 rejected at the top"⟩,  -- index error_from_error_with_span steel_vm/primitives.rs:2786
  ⟨4014433439351, .guarded, "", "args.len() != 2 rejected at the top"⟩,  -- index error_from_error_with_span steel_vm/primitives.rs:2794
  ⟨12151792861830, .guarded, "", "args.len() != 1 is rejected at the top (since /repo commit 3bbd20ff; was finding builtin-indexes-args-without-arity-check)"⟩,  -- index raise_error_from_error steel_vm/primitives.rs
  ⟨1391634798742, .dead, "", "never registered, never called"⟩   -- todo _lookup_doc steel_vm/primitives.rs:2816
]

end SteelVerif.C07
