/-
C07 — lemmas about the build model: what `expandOps` touches, and the roll-back of a failed build.
-/
import SteelVerif.C07.Model
namespace SteelVerif.C07

/-- what the symbol map owes the build (C06's obligation about `SymbolMap::roll_back`): rolling back to the length
recorded before a batch of additions gives the map back -/
structure RollBackSpec {SM : Type} (ops : SymMapOps SM) : Prop where
  restores : ∀ (m : SM) (ns : List Name), ops.rollBack (ns.foldl ops.add m) (ops.len m) = m

def BuildOp.isMacro : BuildOp → Bool
  | .defineMacro _ => true
  | _ => false

theorem expandOps_frame {SM : Type} (ops : List BuildOp) (s s' : BuildState SM) (r : BuildResult)
    (h : expandOps ops s = (r, s')) :
    s'.symbols = s.symbols ∧ s'.rollbackMetadata = s.rollbackMetadata ∧ s'.rollbackModules = s.rollbackModules ∧
    s'.sources = s.sources ∧ (ops.all (fun o => !o.isMacro) = true → s'.macros = s.macros) := by
  induction ops generalizing s with
  | nil => simp [expandOps] at h; obtain ⟨_, rfl⟩ := h; simp
  | cons o rest ih =>
    cases o with
    | requireModule m =>
      simp only [expandOps] at h
      have := ih _ h
      simpa [BuildOp.isMacro] using this
    | defineMacro n =>
      simp only [expandOps] at h
      have := ih _ h
      refine ⟨this.1, this.2.1, this.2.2.1, this.2.2.2.1, ?_⟩
      intro hall
      simp [BuildOp.isMacro] at hall
    | failExpand =>
      simp [expandOps] at h
      obtain ⟨_, rfl⟩ := h
      simp

end SteelVerif.C07
