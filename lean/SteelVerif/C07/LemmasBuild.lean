/-
C07 — lemmas about the build model: what `expandOps` touches, and the roll-back of a failed build.
-/
import SteelVerif.C07.Model
namespace SteelVerif.C07

/-- what the symbol map owes the build (C06's obligation about `SymbolMap::roll_back`): rolling back to the length
recorded before a batch of additions gives the map back -/
structure RollBackSpec {SM : Type} (ops : SymMapOps SM) : Prop where
  restores : ∀ (m : SM) (ns : List Name), ops.rollBack (ns.foldl ops.add m) (ops.len m) = m

/-- the macro names an op puts into the global macro map -/
def BuildOp.macros : BuildOp → List Name
  | .defineMacro n => [n]
  | .requireModule _ ms => ms
  | .failExpand => []

def BuildOp.isMacro (o : BuildOp) : Bool := !o.macros.isEmpty

/-- the macro names the ops that are executed (those before the first failure) put into the map -/
def executedMacros : List BuildOp → List Name
  | [] => []
  | .failExpand :: _ => []
  | o :: rest => o.macros ++ executedMacros rest

theorem expandOps_frame {SM : Type} (ops : List BuildOp) (s s' : BuildState SM) (r : BuildResult)
    (h : expandOps ops s = (r, s')) :
    s'.symbols = s.symbols ∧ s'.rollbackMetadata = s.rollbackMetadata ∧ s'.rollbackModules = s.rollbackModules ∧
    s'.sources = s.sources ∧ s'.macros = s.macros ++ executedMacros ops := by
  induction ops generalizing s with
  | nil => simp [expandOps] at h; obtain ⟨_, rfl⟩ := h; simp [executedMacros]
  | cons o rest ih =>
    cases o with
    | requireModule m ms =>
      simp only [expandOps] at h
      have := ih _ h
      simpa [executedMacros, BuildOp.macros, List.append_assoc] using this
    | defineMacro n =>
      simp only [expandOps] at h
      have := ih _ h
      simpa [executedMacros, BuildOp.macros, List.append_assoc] using this
    | failExpand =>
      simp [expandOps] at h
      obtain ⟨_, rfl⟩ := h
      simp [executedMacros]

theorem executedMacros_nil_of_no_macro (ops : List BuildOp) (h : ops.all (fun o => !o.isMacro) = true) :
    executedMacros ops = [] := by
  induction ops with
  | nil => rfl
  | cons o rest ih =>
    simp only [List.all_cons, Bool.and_eq_true] at h
    cases o with
    | failExpand => rfl
    | requireModule m ms =>
      have h1 := h.1
      simp [BuildOp.isMacro, BuildOp.macros] at h1
      simp [executedMacros, BuildOp.macros, h1, ih h.2]
    | defineMacro n =>
      have h1 := h.1
      simp [BuildOp.isMacro, BuildOp.macros] at h1

end SteelVerif.C07
