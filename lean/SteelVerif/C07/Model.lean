/-
C07 — no input can crash the host; errors are returned and leave the engine usable.

`M`, the mechanism model (what the Rust code does, same state components and order of effects):

  * `vmStep` / `vmRun`      — the part of `VmCore::vm()` that matters for recovery: the operand stack (a `Vec`),
                              the frame stack (`stack_frames`), `pop_count`, frame attachments (exception handler,
                              continuation mark), function call / return (`handle_pop_pure`), global definition,
                              a primitive that returns `Err`.
  * `unwind` / `executeLoop` / `execute`
                            — `SteelThread::execute` (steel_vm/vm.rs): `VmCore::new` (pop_count := 1), the `'outer`
                              loop, the unwind loop (`stack_frames.pop()`, the `pop_count == 0` early return,
                              `pop_count -= 1`, closing the continuation mark with `stack.truncate(last.sp)`, the handler
                              search, re-pushing the frame for the handler with `pop_count += 1` (no dummy frame below it
                              since /repo commit 0ad3663d), the replacement of the error when the handler is not a closure
                              (/repo commit f4f0e66b; it used to be a `stop!` that left the loop), `stack.clear()`).
  * `runForms`              — `run_executable`: one `execute` per top-level form, stopping at the first `Err`.
  * `build`                 — `Compiler::compile_raw_program` (snapshot of `compiled_modules`, restored together with
                              `rollback_metadata()` on failure) followed by `Engine::raw_program_to_executable`
                              (`symbol_map.len()` checkpoint, `roll_back` + `rollback_metadata()` on failure).

  * `callbackArity`         — the call paths that push a frame BEFORE it is counted: `call_with_one_arg` /
                              `call_with_two_args` / `call_with_args` (how native higher-order procedures — transducers,
                              reducers — call a closure) push the callee's frame and the arguments and only then check the
                              arity (`adjust_stack_for_multi_arity(..)?`); `pop_count` is never incremented for that frame
                              (the nested instance `call_with_instructions_and_reset_state` that would run the callee starts
                              its own count at 1).  The instruction models the failing check: frame pushed, argument pushed,
                              `Err(ArityMismatch)`.  (Proved in Nested.lean, which models the nested
                              instance itself: a callback of the right arity is, for the counters, a value or a
                              `fail`: the nested instance pops what it pushed before it returns; an arity error of a
                              callback INSIDE a nested instance is consumed by the nested unwind loop, which leaves the
                              nested callee's frame — uncounted in the enclosing instance — behind: the same state.
                              `handle_function_call_closure*`, `call_with_exception_handler`, `call/cc` count the frame
                              right after the push with nothing fallible in between: GenUnwind.countedPaths.)
                              `Thread.lost` is a ghost counter of these events.

The order of the `pop_count == 0` test and the decrement in the unwind loop is read from the source
(`Gen.unwindTestFirst`, translate/c07_unwind.py).

Programs are trees (`Code`): the model has no instruction pointer; a frame keeps the caller's remaining code instead
of `(ip, instructions)`.
-/
import SteelVerif.C07.GenUnwind
namespace SteelVerif.C07

abbrev Val := Nat

/-- the structured byte code the recovery machine runs -/
inductive Code where
  | push (v : Val)                                   -- PUSHCONST and friends
  | pop                                              -- POPN 1
  | define (g : Nat)                                 -- BIND: pops the value into global `g`
  | call (body : List Code)                          -- call of a closure: new frame
  | handle (isClosure : Bool) (handler : List Code) (body : List Code)
                                                     -- (call-with-exception-handler h thunk): frame with a handler
                                                     -- attachment; `isClosure = false`: `h` is some other value
  | callcc (body : List Code)                        -- frame with an open continuation mark
  | fail (e : Val)                                   -- a primitive returns `Err(e)`
  | callbackArity                                    -- a native higher-order procedure calls a closure that takes a
                                                     -- different number of arguments (`call_with_one_arg` & co.)

structure Frame where
  sp : Nat                                           -- `StackFrame.sp`
  handler : Option (Bool × List Code)                -- `attachments.handler`
  mark : Bool                                        -- `attachments.weak_continuation_mark.is_some()`
  ret : List Code                                    -- `(ip, instructions)` of the caller

/-- `SteelThread` as far as recovery is concerned.  `stack` is the `Vec` (push = append at the end),
`frames` has its top at the head. -/
structure Thread where
  stack : List Val := []
  frames : List Frame := []
  popCount : Nat := 1
  globals : List (Nat × Val) := []                   -- definitions executed so far, oldest first
  closed : Nat := 0                                  -- continuation marks closed so far (ghost counter)
  lost : Nat := 0                                    -- frames pushed without being counted whose call then failed
                                                     -- (`callbackArity`), over the life of the thread (ghost counter)

def top (s : List Val) : Val := s.getLast?.getD 0

/-- the `TypeMismatch` raised for an exception handler that is not a function -/
def handlerTypeError : Val := 2989

/-- the `ArityMismatch` raised by `adjust_stack_for_multi_arity` -/
def arityError : Val := 2990

inductive StepOut where
  | next (code : List Code) (t : Thread)
  | done (v : Val) (t : Thread)                      -- `vm()` returns `Ok(v)`
  | raise (e : Val) (t : Thread)                     -- `vm()` returns `Err(e)`
  | panic                                            -- a Rust panic (`last.unwrap()` on `None`, `pop_count` underflow)

def mkFrame (t : Thread) (h : Option (Bool × List Code)) (mark : Bool) (ret : List Code) : Frame :=
  { sp := t.stack.length, handler := h, mark := mark, ret := ret }

/-- is the `callbackArity` window open in the source: some call path pushes a frame without counting it, can fail
after the push and does not take the frame back (regenerated by translate/c07_unwind.py; closed since /repo commit
27b7e09f, which was made for finding K07ai) -/
def windowOpen : Bool := Gen.uncountedPaths.any (fun p => p.2.1 && !p.2.2)

/-- one instruction -/
def vmStep (code : List Code) (t : Thread) : StepOut :=
  match code with
  | [] =>                                            -- POPPURE / `handle_pop_pure`
    if t.popCount = 0 then .panic else
    let pc := t.popCount - 1
    match t.frames with
    | [] =>
      if pc ≠ 0 then .panic                          -- `last.unwrap()` on `None`
      else .done (top t.stack) { t with popCount := 0, stack := [] }
    | f :: rest =>
      let closed := if f.mark then t.closed + 1 else t.closed
      if pc ≠ 0 then
        .next f.ret { t with frames := rest, popCount := pc, closed := closed,
                             stack := t.stack.take f.sp ++ [top t.stack] }
      else
        .done (top t.stack) { t with frames := rest, popCount := 0, closed := closed, stack := t.stack.take f.sp }
  | .push v :: c => .next c { t with stack := t.stack ++ [v] }
  | .pop :: c => .next c { t with stack := t.stack.dropLast }
  | .define g :: c => .next c { t with globals := t.globals ++ [(g, top t.stack)], stack := t.stack.dropLast }
  | .call body :: c =>
    .next body { t with frames := mkFrame t none false c :: t.frames, popCount := t.popCount + 1 }
  | .handle isC h body :: c =>
    -- `call_with_exception_handler` rejects a handler that is not a closure before it pushes the frame
    -- (since /repo commit f4f0e66b)
    if isC then
      .next body { t with frames := mkFrame t (some (isC, h)) false c :: t.frames, popCount := t.popCount + 1 }
    else .raise handlerTypeError t
  | .callcc body :: c =>
    .next body { t with frames := mkFrame t none true c :: t.frames, popCount := t.popCount + 1 }
  | .fail e :: _ => .raise e t
  | .callbackArity :: _ =>
    -- `stack_frames.push(StackFrame::new(prev_length, closure, 0, ..)); stack.push(arg);
    --  adjust_stack_for_multi_arity(closure, 1, &mut 0)?` — the frame stays, `pop_count` was not touched
    if windowOpen then
      .raise arityError { t with frames := mkFrame t none false [] :: t.frames, stack := t.stack ++ [0], lost := t.lost + 1 }
    else
      -- the frame and the argument are taken back before the error is returned (`discard_uncounted_frame`)
      .raise arityError t

inductive VmOut where
  | ok (v : Val) (t : Thread)
  | err (e : Val) (t : Thread)
  | panic
  | outOfFuel

/-- `vm()`: instructions until `Ok`, `Err` or a panic -/
def vmRun : Nat → List Code → Thread → VmOut
  | 0, _, _ => .outOfFuel
  | n + 1, c, t =>
    match vmStep c t with
    | .next c' t' => vmRun n c' t'
    | .done v t' => .ok v t'
    | .raise e t' => .err e t'
    | .panic => .panic

inductive UnwindOut where
  | resume (code : List Code) (t : Thread)           -- `continue 'outer`: a handler takes over
  | fail (e : Val) (t : Thread)                      -- `return Err(e)`

/-- the `while let Some(last) = stack_frames.pop()` loop; `fs` = the frames not yet popped.  The order of the
`pop_count == 0` test and `pop_count -= 1` is the one found in the source (`Gen.unwindTestFirst`). -/
def unwind (e : Val) (t : Thread) : List Frame → UnwindOut
  | [] => .fail e { t with frames := [], stack := [] }                       -- `self.stack.clear(); return Err(e)`
  | f :: rest =>
    -- early `return Err(e)`: nothing cleared
    if Gen.unwindTestFirst = true ∧ t.popCount = 0 then .fail e { t with frames := rest }
    else if Gen.unwindTestFirst = false ∧ t.popCount - 1 = 0 then .fail e { t with frames := rest, popCount := 0 }
    else
      let t1 := { t with popCount := t.popCount - 1 }
      let t2 := if f.mark then { t1 with stack := t1.stack.take f.sp, closed := t1.closed + 1 } else t1
      match f.handler with
      | none => unwind e t2 rest
      | some (true, hbody) =>
        .resume hbody { t2 with stack := t2.stack.take f.sp ++ [e],
                                frames := { f with handler := none, mark := false } :: rest,
                                popCount := t2.popCount + 1 }
      | some (false, _) =>
        -- a handler that is not a closure cannot run: the error is replaced and the loop goes on
        -- (`e = TypeMismatch "expected a function for the exception handler"; continue`, /repo commit f4f0e66b;
        -- before that commit the loop was left here through `stop!`, with `rest` and the operands in place)
        unwind handlerTypeError t2 rest

inductive Outcome where
  | ok (v : Val)
  | error (e : Val)
  | panic
  | outOfFuel
  deriving DecidableEq, Repr

def Outcome.isErr : Outcome → Bool
  | .error _ => true
  | _ => false

/-- marks still open in frames that are left when `vm()` returns `Ok` (`Continuation::close_marks` for each) -/
def openMarks (fs : List Frame) : Nat := (fs.filter (·.mark)).length

/-- the `'outer` loop -/
def executeLoop : Nat → List Code → Thread → Outcome × Thread
  | 0, _, t => (.outOfFuel, t)
  | n + 1, c, t =>
    match vmRun n c t with
    | .ok v t' => (.ok v, { t' with stack := [], closed := t'.closed + openMarks t'.frames })
    | .err e t' =>
      match unwind e t' t'.frames with
      | .resume c' t'' => executeLoop n c' t''
      | .fail e' t'' => (.error e', t'')
    | .panic => (.panic, t)
    | .outOfFuel => (.outOfFuel, t)

/-- `SteelThread::execute`: `VmCore::new` starts with `pop_count = 1`; nothing else is reset on entry. -/
def execute (fuel : Nat) (code : List Code) (t : Thread) : Outcome × Thread :=
  executeLoop fuel code { t with popCount := 1 }

/-- `run_executable`: the forms of a program in order, stopping at the first `Err`. -/
def runForms (fuel : Nat) : List (List Code) → Thread → Outcome × Thread
  | [], t => (.ok 0, t)
  | f :: rest, t =>
    match execute fuel f t with
    | (.ok _, t') => runForms fuel rest t'
    | r => r

/-- a history of evaluations on one engine: each text is evaluated whatever the previous one returned -/
def runHistory (fuel : Nat) : List (List (List Code)) → Thread → List Outcome × Thread
  | [], t => ([], t)
  | p :: rest, t =>
    let (o, t') := runForms fuel p t
    let (os, t'') := runHistory fuel rest t'
    (o :: os, t'')

def Thread.clean (t : Thread) : Prop := t.stack = [] ∧ t.frames = []

/-! ## the build: what a failed compilation leaves behind -/

abbrev Name := String

/-- the parts of `Compiler` / `ModuleManager` that a build touches -/
structure BuildState (SM : Type) where
  symbols : SM                                        -- `Compiler.symbol_map`
  modules : List Name                                 -- `module_manager.compiled_modules` (keys)
  metadata : List Name                                -- `module_manager.file_metadata` (keys)
  rollbackMetadata : List Name                        -- `module_manager.rollback_metadata`
  rollbackModules : Option (List Name)                -- `module_manager.rollback_modules`
  macros : List Name                                  -- the global macro map (`extract_macro_defs` inserts into it)
  sources : Nat                                       -- `Sources`: texts interned so far

/-- the symbol map as an abstract component (its own roll-back is C06's obligation) -/
structure SymMapOps (SM : Type) where
  len : SM → Nat
  add : SM → Name → SM
  rollBack : SM → Nat → SM

/-- what the expansion / code generation of one program does, in order, before it succeeds or fails -/
inductive BuildOp where
  | requireModule (m : Name) (inScope : List Name)    -- a dependency is compiled: table + metadata; the macros it
                                                      -- provides enter the global macro map
                                                      -- (`global_macro_map.extend(in_scope_macros)` in compile_main)
  | defineMacro (n : Name)                            -- `(define-syntax n …)` at the top level of the program
  | failExpand                                        -- expansion / analysis / code generation returns `Err`
  deriving DecidableEq, Repr

inductive BuildResult where
  | ok
  | err
  deriving DecidableEq, Repr

/-- `compile_main` up to the failure (or the end): effects of the ops -/
def expandOps {SM} : List BuildOp → BuildState SM → BuildResult × BuildState SM
  | [], s => (.ok, s)
  | .requireModule m ms :: rest, s =>
    expandOps rest { s with modules := s.modules ++ [m], metadata := s.metadata ++ [m], macros := s.macros ++ ms }
  | .defineMacro n :: rest, s => expandOps rest { s with macros := s.macros ++ [n] }
  | .failExpand :: _, s => (.err, s)

/-- `ModuleManager::rollback_metadata` -/
def rollbackMetadata {SM} (s : BuildState SM) : BuildState SM :=
  match s.rollbackModules with
  | some ms => { s with metadata := s.rollbackMetadata, modules := ms, rollbackModules := none }
  | none => { s with metadata := s.rollbackMetadata }

/-- `compile_executable` + `raw_program_to_executable`: parse (may fail before anything else happens), expand
(`compile_raw_program`: snapshot, `compile_main` records the roll-back copies, failure restores), then `build`
(the defines enter the symbol map; an unresolved reference fails and rolls the map back). -/
def build {SM} (ops : SymMapOps SM) (parseOk : Bool) (expand : List BuildOp) (defines : List Name) (refsResolve : Bool)
    (s : BuildState SM) : BuildResult × BuildState SM :=
  let s := { s with sources := s.sources + 1 }                       -- `sources.add_source`
  if !parseOk then (.err, s) else
  let snapshot := s.modules
  -- `compile_main`: `self.rollback_metadata = self.file_metadata.clone(); self.rollback_modules = Some(..)`
  let s1 := { s with rollbackMetadata := s.metadata, rollbackModules := some s.modules }
  -- what a failed build does with the macro environment is read from the source (`Gen.buildRestoresMacros`,
  -- translate/c07_unwind.py): given back from a snapshot, or left as the failed program made it
  let giveBack (x : BuildState SM) : BuildState SM := if Gen.buildRestoresMacros then { x with macros := s.macros } else x
  match expandOps expand s1 with
  | (.err, s2) => (.err, giveBack (rollbackMetadata { s2 with modules := snapshot }))
  | (.ok, s2) =>
    let offset := ops.len s2.symbols
    let s3 := { s2 with symbols := defines.foldl ops.add s2.symbols }
    if refsResolve then (.ok, s3)
    else (.err, giveBack (rollbackMetadata { s3 with symbols := ops.rollBack s3.symbols offset }))

end SteelVerif.C07
