/-
C07 — lemmas about the recovery machine: the invariant that ties `pop_count` to the frame stack, its preservation
by every instruction, by the unwind loop and by the `'outer` loop.
-/
import SteelVerif.C07.Model
namespace SteelVerif.C07

/-- the bottom frame of a non-empty frame stack carries no handler (it is the dummy frame) -/
def bottomPlain (fs : List Frame) : Prop :=
  match fs.getLast? with
  | some d => d.handler = none
  | none => False

/-- `pop_count` against a frame list: one more than the number of frames (the normal regime), or equal to it with a
handler-less bottom frame (after a handler has run at the top level, on top of the dummy frame) -/
def InvF (fs : List Frame) (pc : Nat) : Prop :=
  pc = fs.length + 1 ∨ (pc = fs.length ∧ bottomPlain fs)

def Inv (t : Thread) : Prop := InvF t.frames t.popCount

theorem bottomPlain_cons (f : Frame) (fs : List Frame) (h : fs ≠ []) : bottomPlain (f :: fs) ↔ bottomPlain fs := by
  unfold bottomPlain
  rw [List.getLast?_cons_of_ne_nil h]

theorem bottomPlain_ne_nil {fs : List Frame} (h : bottomPlain fs) : fs ≠ [] := by
  intro hn
  subst hn
  simp [bottomPlain] at h

theorem bottomPlain_single (f : Frame) : bottomPlain [f] ↔ f.handler = none := by
  simp [bottomPlain]

theorem InvF_pos {fs : List Frame} {pc : Nat} (h : InvF fs pc) : 1 ≤ pc := by
  rcases h with h | ⟨h, hb⟩
  · omega
  · have := bottomPlain_ne_nil hb
    cases fs with
    | nil => exact absurd rfl this
    | cons a l => simp at h; omega

theorem InvF_push (f : Frame) {fs : List Frame} {pc : Nat} (h : InvF fs pc) : InvF (f :: fs) (pc + 1) := by
  rcases h with h | ⟨h, hb⟩
  · left; simp [h]
  · right
    refine ⟨by simp [h], ?_⟩
    exact (bottomPlain_cons f fs (bottomPlain_ne_nil hb)).mpr hb

/-- popping the top frame, when the counter stays positive -/
theorem InvF_pop {f : Frame} {fs : List Frame} {pc : Nat} (h : InvF (f :: fs) pc) (hpc : pc - 1 ≠ 0) :
    InvF fs (pc - 1) := by
  rcases h with h | ⟨h, hb⟩
  · left; simp at h; omega
  · right
    simp at h
    have hne : fs ≠ [] := by
      intro hn; subst hn; simp at h; omega
    exact ⟨by omega, (bottomPlain_cons f fs hne).mp hb⟩

/-- popping the top frame when the counter reaches zero: it was the last one -/
theorem InvF_pop_zero {f : Frame} {fs : List Frame} {pc : Nat} (h : InvF (f :: fs) pc) (hpc : pc - 1 = 0) :
    fs = [] := by
  rcases h with h | ⟨h, _⟩
  · simp at h; omega
  · simp at h
    cases fs with
    | nil => rfl
    | cons a l => simp at h; omega

/-! ### one instruction -/

theorem vmStep_next {c c' : List Code} {t t' : Thread} (hi : Inv t) (h : vmStep c t = .next c' t') :
    Inv t' ∧ t.globals <+: t'.globals := by
  unfold Inv at *
  have hpos := InvF_pos hi
  unfold vmStep at h
  split at h
  · -- return
    split at h
    · cases h
    · simp only at h
      split at h
      · split at h <;> cases h
      · rename_i f rest hf
        split at h
        · rename_i hpc
          cases h
          rw [hf] at hi
          exact ⟨InvF_pop hi hpc, List.prefix_refl _⟩
        · cases h
  · cases h; exact ⟨hi, List.prefix_refl _⟩
  · cases h; exact ⟨hi, List.prefix_refl _⟩
  · cases h; exact ⟨hi, List.prefix_append _ _⟩
  · cases h; exact ⟨InvF_push _ hi, List.prefix_refl _⟩
  · cases h; exact ⟨InvF_push _ hi, List.prefix_refl _⟩
  · cases h; exact ⟨InvF_push _ hi, List.prefix_refl _⟩
  · cases h

theorem vmStep_done {c : List Code} {t t' : Thread} {v : Val} (hi : Inv t) (h : vmStep c t = .done v t') :
    t'.frames = [] ∧ t'.popCount = 0 ∧ t'.globals = t.globals := by
  unfold Inv at *
  unfold vmStep at h
  split at h
  · split at h
    · cases h
    · simp only at h
      split at h
      · split at h
        · cases h
        · cases h; simp_all
      · rename_i f rest hf
        split at h
        · cases h
        · rename_i hpc
          cases h
          rw [hf] at hi
          have : rest = [] := InvF_pop_zero hi (by omega)
          simp [this]
  all_goals cases h

theorem vmStep_raise {c : List Code} {t t' : Thread} {e : Val} (h : vmStep c t = .raise e t') : t' = t := by
  unfold vmStep at h
  split at h
  · split at h
    · cases h
    · simp only at h
      split at h
      · split at h <;> cases h
      · split at h <;> cases h
  all_goals first | (cases h; rfl) | cases h

theorem vmStep_no_panic {c : List Code} {t : Thread} (hi : Inv t) : vmStep c t ≠ .panic := by
  unfold Inv at *
  have hpos := InvF_pos hi
  intro h
  unfold vmStep at h
  split at h
  · split at h
    · omega
    · simp only at h
      split at h
      · rename_i hf
        split at h
        · rename_i hpc
          rw [hf] at hi
          rcases hi with hi | ⟨_, hb⟩
          · simp at hi; omega
          · exact absurd rfl (bottomPlain_ne_nil hb)
        · cases h
      · split at h <;> cases h
  all_goals cases h

/-! ### `vm()` -/

theorem vmRun_ok {n : Nat} {c : List Code} {t t' : Thread} {v : Val} (hi : Inv t) (h : vmRun n c t = .ok v t') :
    t'.frames = [] ∧ t'.popCount = 0 ∧ t.globals <+: t'.globals := by
  induction n generalizing c t with
  | zero => simp [vmRun] at h
  | succ n ih =>
    unfold vmRun at h
    split at h
    · rename_i c1 t1 hs
      have := vmStep_next hi hs
      have r := ih this.1 h
      exact ⟨r.1, r.2.1, List.IsPrefix.trans this.2 r.2.2⟩
    · rename_i v1 t1 hs
      cases h
      have := vmStep_done hi hs
      exact ⟨this.1, this.2.1, by rw [this.2.2]; exact List.prefix_refl _⟩
    · cases h
    · cases h

theorem vmRun_err {n : Nat} {c : List Code} {t t' : Thread} {e : Val} (hi : Inv t) (h : vmRun n c t = .err e t') :
    Inv t' ∧ t.globals <+: t'.globals := by
  induction n generalizing c t with
  | zero => simp [vmRun] at h
  | succ n ih =>
    unfold vmRun at h
    split at h
    · rename_i c1 t1 hs
      have := vmStep_next hi hs
      have r := ih this.1 h
      exact ⟨r.1, List.IsPrefix.trans this.2 r.2⟩
    · cases h
    · rename_i e1 t1 hs
      cases h
      have := vmStep_raise hs
      subst this
      exact ⟨hi, List.prefix_refl _⟩
    · cases h

theorem vmRun_no_panic {n : Nat} {c : List Code} {t : Thread} (hi : Inv t) : vmRun n c t ≠ .panic := by
  induction n generalizing c t with
  | zero => simp [vmRun]
  | succ n ih =>
    unfold vmRun
    split
    · rename_i c1 t1 hs
      exact ih (vmStep_next hi hs).1
    · simp
    · simp
    · rename_i hs
      exact absurd hs (vmStep_no_panic hi)

/-! ### the unwind loop -/

theorem unwind_fail {e e' : Val} {fs : List Frame} {t t' : Thread} (hi : InvF fs t.popCount)
    (h : unwind e t fs = .fail e' t') :
    e' = e ∧ t'.stack = [] ∧ t'.frames = [] ∧ t'.globals = t.globals := by
  induction fs generalizing t with
  | nil =>
    unfold unwind at h
    cases h
    simp
  | cons f rest ih =>
    have hpos := InvF_pos hi
    unfold unwind at h
    split at h
    · omega
    · simp only at h
      have hne : t.popCount - 1 ≠ 0 ∨ rest = [] := by
        by_cases hz : t.popCount - 1 = 0
        · right; exact InvF_pop_zero hi hz
        · left; exact hz
      split at h
      · -- no handler: go on with the rest
        rename_i hh
        rcases hne with hne | hnil
        · have hi' : InvF rest (t.popCount - 1) := InvF_pop hi hne
          split at h
          · have r := ih (t := { t with popCount := t.popCount - 1, stack := List.take f.sp t.stack, closed := t.closed + 1 })
              (by simpa using hi') h
            simpa using r
          · have r := ih (t := { t with popCount := t.popCount - 1 }) (by simpa using hi') h
            simpa using r
        · subst hnil
          split at h
          · unfold unwind at h; cases h; simp
          · unfold unwind at h; cases h; simp
      · cases h
      · cases h

theorem unwind_resume {e : Val} {fs : List Frame} {t t' : Thread} {c : List Code} (hi : InvF fs t.popCount)
    (h : unwind e t fs = .resume c t') : Inv t' ∧ t'.globals = t.globals := by
  induction fs generalizing t with
  | nil =>
    unfold unwind at h
    cases h
  | cons f rest ih =>
    have hpos := InvF_pos hi
    unfold unwind at h
    split at h
    · cases h
    · simp only at h
      split at h
      · -- no handler
        by_cases hz : t.popCount - 1 = 0
        · have hnil := InvF_pop_zero hi hz
          subst hnil
          split at h <;> (unfold unwind at h; cases h)
        · have hi' : InvF rest (t.popCount - 1) := InvF_pop hi hz
          split at h
          · have r := ih (t := { t with popCount := t.popCount - 1, stack := List.take f.sp t.stack, closed := t.closed + 1 })
              (by simpa using hi') h
            simpa using r
          · have r := ih (t := { t with popCount := t.popCount - 1 }) (by simpa using hi') h
            simpa using r
      · -- a closure handler takes over
        rename_i hbody hh
        have key : InvF ({ f with handler := none, mark := false } :: (if rest.isEmpty then [dummyFrame f.sp] else rest))
            (t.popCount - 1 + 1) := by
          have hpc : t.popCount - 1 + 1 = t.popCount := by omega
          rw [hpc]
          cases rest with
          | nil =>
            -- the handler runs at the top: dummy frame below, the counter now equals the number of frames
            rcases hi with hi | ⟨hi, hb⟩
            · right
              simp at hi
              refine ⟨by simp [hi], ?_⟩
              simp [bottomPlain, dummyFrame]
            · exfalso
              rw [bottomPlain_single] at hb
              rw [hb] at hh
              cases hh
          | cons g gs =>
            simp only [List.isEmpty_cons, Bool.false_eq_true, if_false]
            rcases hi with hi | ⟨hi, hb⟩
            · left; simpa using hi
            · right
              refine ⟨by simpa using hi, ?_⟩
              rw [bottomPlain_cons _ _ (by simp)]
              exact (bottomPlain_cons f _ (by simp)).mp hb
        split at h
        · cases h
          exact ⟨by simpa [Inv] using key, rfl⟩
        · cases h
          exact ⟨by simpa [Inv] using key, rfl⟩
      · cases h

theorem unwind_bad_globals (e : Val) : ∀ (fs : List Frame) (t1 t2 : Thread),
    unwind e t1 fs = .badHandler t2 → t2.globals = t1.globals := by
  intro fs
  induction fs with
  | nil => intro t1 t2 h; unfold unwind at h; cases h
  | cons f rest ih =>
    intro t1 t2 h
    unfold unwind at h
    split at h
    · cases h
    · simp only at h
      split at h
      · split at h
        · have := ih _ _ h; simpa using this
        · have := ih _ _ h; simpa using this
      · cases h
      · split at h <;> (cases h; rfl)

/-! ### the `'outer` loop -/

theorem executeLoop_spec {n : Nat} {c : List Code} {t t' : Thread} {o : Outcome} (hi : Inv t)
    (h : executeLoop n c t = (o, t')) :
    o ≠ .panic ∧ t.globals <+: t'.globals ∧
    ((∃ v, o = .ok v) ∨ (∃ e, o = .error e) → t'.stack = [] ∧ t'.frames = []) := by
  induction n generalizing c t with
  | zero =>
    simp [executeLoop] at h
    obtain ⟨rfl, rfl⟩ := h
    exact ⟨by simp, List.prefix_refl _, by rintro (⟨v, hv⟩ | ⟨e, he⟩) <;> cases ‹_›⟩
  | succ n ih =>
    unfold executeLoop at h
    split at h
    · rename_i v t1 hv
      cases h
      have r := vmRun_ok hi hv
      exact ⟨by simp, by simpa using r.2.2, fun _ => ⟨rfl, r.1⟩⟩
    · rename_i e t1 he
      have r := vmRun_err hi he
      split at h
      · rename_i c2 t2 hu
        have u := unwind_resume (by simpa [Inv] using r.1) hu
        have rr := ih u.1 h
        refine ⟨rr.1, ?_, rr.2.2⟩
        exact List.IsPrefix.trans r.2 (by rw [← u.2]; exact rr.2.1)
      · rename_i e2 t2 hu
        cases h
        have u := unwind_fail (by simpa [Inv] using r.1) hu
        exact ⟨by simp, by rw [u.2.2.2]; exact r.2, fun _ => ⟨u.2.1, u.2.2.1⟩⟩
      · rename_i t2 hu
        -- the globals are not touched by the unwind loop either
        have hg : t2.globals = t1.globals := unwind_bad_globals _ _ _ _ hu
        cases h
        exact ⟨by simp, by rw [hg]; exact r.2, by rintro (⟨v, hv⟩ | ⟨e, he⟩) <;> cases ‹_›⟩
    · rename_i hp
      exact absurd hp (vmRun_no_panic hi)
    · cases h
      exact ⟨by simp, List.prefix_refl _, by rintro (⟨v, hv⟩ | ⟨e, he⟩) <;> cases ‹_›⟩

theorem inv_of_clean_entry (t : Thread) (hc : t.clean) : Inv { t with popCount := 1 } := by
  left
  simp [hc.2]

end SteelVerif.C07
