/-
C07 — lemmas about the recovery machine: the invariant that ties `pop_count` to the frame stack, its preservation
by every instruction, by the unwind loop and by the `'outer` loop.

`pop_count` is one more than the number of frames (`VmCore::new` starts with 1 and no frame; call and return move both
together; so do the unwind loop and the handler dispatch) — EXCEPT for the frames that `call_with_one_arg` & co. pushed
without counting them and left behind when the arity check failed (`callbackArity`; counted by the ghost `lost`): each of
them makes `pop_count` one smaller than that.  `b` is the value of `lost` when the evaluation started.
-/
import SteelVerif.C07.Model
namespace SteelVerif.C07

def InvF (fs : List Frame) (pc x : Nat) : Prop := 1 ≤ pc ∧ pc + x = fs.length + 1

/-- `k`: frames below this instance that are not its own (0 for `execute`; for a nested instance — Nested.lean — the
frames of the enclosing instances plus one) -/
def Inv (b k : Nat) (t : Thread) : Prop := b ≤ t.lost ∧ InvF t.frames t.popCount (t.lost - b + k)

/-- the order found in the source (regenerated on every run): the test precedes the decrement -/
theorem gen_unwind_order : Gen.unwindTestFirst = true := by decide

/-! ### one instruction -/

theorem vmStep_next {b k : Nat} {c c' : List Code} {t t' : Thread} (hi : Inv b k t) (h : vmStep c t = .next c' t') :
    Inv b k t' ∧ t.globals <+: t'.globals ∧ t'.lost = t.lost := by
  unfold Inv InvF at *
  unfold vmStep at h
  split at h
  · -- return
    split at h
    · cases h
    · simp only at h
      split at h
      · split at h <;> cases h
      · rename_i f rest hf
        split at h
        · rename_i hpc
          cases h
          rw [hf] at hi
          simp at hi
          refine ⟨⟨hi.1, ?_, ?_⟩, List.prefix_refl _, rfl⟩ <;> simp <;> omega
        · cases h
  · cases h; exact ⟨hi, List.prefix_refl _, rfl⟩
  · cases h; exact ⟨hi, List.prefix_refl _, rfl⟩
  · cases h; exact ⟨hi, List.prefix_append _ _, rfl⟩
  · cases h
    refine ⟨⟨hi.1, ?_, ?_⟩, List.prefix_refl _, rfl⟩ <;> simp <;> omega
  · split at h
    · cases h
      refine ⟨⟨hi.1, ?_, ?_⟩, List.prefix_refl _, rfl⟩ <;> simp <;> omega
    · cases h
  · cases h
    refine ⟨⟨hi.1, ?_, ?_⟩, List.prefix_refl _, rfl⟩ <;> simp <;> omega
  · cases h
  · split at h <;> cases h

/-- `vm()` returns `Ok`: the frames that are left are exactly the uncounted ones but one -/
theorem vmStep_done {b k : Nat} {c : List Code} {t t' : Thread} {v : Val} (hi : Inv b k t) (h : vmStep c t = .done v t') :
    t'.frames.length = (t.lost - b + k) - 1 ∧ t'.lost = t.lost ∧ t'.globals = t.globals := by
  unfold Inv InvF at *
  unfold vmStep at h
  split at h
  · split at h
    · cases h
    · simp only at h
      split at h
      · rename_i hf
        split at h
        · cases h
        · cases h
          rw [hf] at hi
          simp [hf] at hi ⊢
          omega
      · rename_i f rest hf
        split at h
        · cases h
        · rename_i hpc
          cases h
          rw [hf] at hi
          simp at hi ⊢
          omega
  all_goals first | cases h | (split at h <;> cases h)

theorem vmStep_raise {b k : Nat} {c : List Code} {t t' : Thread} {e : Val} (hi : Inv b k t) (h : vmStep c t = .raise e t') :
    Inv b k t' ∧ t'.globals = t.globals ∧ t.lost ≤ t'.lost := by
  unfold Inv InvF at *
  unfold vmStep at h
  split at h
  · split at h
    · cases h
    · simp only at h
      split at h
      · split at h <;> cases h
      · split at h <;> cases h
  · cases h
  · cases h
  · cases h
  · cases h
  · split at h
    · cases h
    · cases h; exact ⟨hi, rfl, Nat.le_refl _⟩
  · cases h
  · cases h; exact ⟨hi, rfl, Nat.le_refl _⟩
  · split at h
    · cases h
      refine ⟨⟨?_, ?_, ?_⟩, rfl, ?_⟩ <;> simp [mkFrame] <;> omega
    · cases h; exact ⟨hi, rfl, Nat.le_refl _⟩

theorem vmStep_no_panic {b k : Nat} {c : List Code} {t : Thread} (hi : Inv b k t) : vmStep c t ≠ .panic := by
  unfold Inv InvF at *
  intro h
  unfold vmStep at h
  split at h
  · split at h
    · omega
    · simp only at h
      split at h
      · rename_i hf
        split at h
        · rename_i hpc
          rw [hf] at hi
          simp at hi
          omega
        · cases h
      · split at h <;> cases h
  all_goals first | cases h | (split at h <;> cases h)

/-! ### `vm()` -/

theorem vmRun_ok {b k n : Nat} {c : List Code} {t t' : Thread} {v : Val} (hi : Inv b k t) (h : vmRun n c t = .ok v t') :
    t'.frames.length = (t'.lost - b + k) - 1 ∧ t.lost ≤ t'.lost ∧ t.globals <+: t'.globals := by
  induction n generalizing c t with
  | zero => simp [vmRun] at h
  | succ n ih =>
    unfold vmRun at h
    split at h
    · rename_i c1 t1 hs
      have := vmStep_next hi hs
      have r := ih this.1 h
      exact ⟨r.1, by rw [← this.2.2]; exact r.2.1, List.IsPrefix.trans this.2.1 r.2.2⟩
    · rename_i v1 t1 hs
      cases h
      have := vmStep_done hi hs
      exact ⟨by rw [this.2.1]; exact this.1, by rw [this.2.1]; exact Nat.le_refl _, by rw [this.2.2]; exact List.prefix_refl _⟩
    · cases h
    · cases h

theorem vmRun_err {b k n : Nat} {c : List Code} {t t' : Thread} {e : Val} (hi : Inv b k t) (h : vmRun n c t = .err e t') :
    Inv b k t' ∧ t.lost ≤ t'.lost ∧ t.globals <+: t'.globals := by
  induction n generalizing c t with
  | zero => simp [vmRun] at h
  | succ n ih =>
    unfold vmRun at h
    split at h
    · rename_i c1 t1 hs
      have := vmStep_next hi hs
      have r := ih this.1 h
      exact ⟨r.1, by rw [← this.2.2]; exact r.2.1, List.IsPrefix.trans this.2.1 r.2.2⟩
    · cases h
    · rename_i e1 t1 hs
      cases h
      have := vmStep_raise hi hs
      exact ⟨this.1, this.2.2, by rw [this.2.1]; exact List.prefix_refl _⟩
    · cases h

theorem vmRun_no_panic {b k n : Nat} {c : List Code} {t : Thread} (hi : Inv b k t) : vmRun n c t ≠ .panic := by
  induction n generalizing c t with
  | zero => simp [vmRun]
  | succ n ih =>
    unfold vmRun
    split
    · rename_i c1 t1 hs
      exact ih (vmStep_next hi hs).1
    · simp
    · simp
    · rename_i hs
      exact absurd hs (vmStep_no_panic hi)

/-! ### the unwind loop -/

/-- the loop touches neither the globals nor the ghost counter -/
theorem unwind_keeps {e : Val} {fs : List Frame} {t : Thread} :
    (∀ e' t', unwind e t fs = .fail e' t' → t'.globals = t.globals ∧ t'.lost = t.lost) ∧
    (∀ c t', unwind e t fs = .resume c t' → t'.globals = t.globals ∧ t'.lost = t.lost) := by
  induction fs generalizing t e with
  | nil => constructor <;> intro a t' h <;> unfold unwind at h <;> cases h <;> simp
  | cons f rest ih =>
    constructor
    · intro e' t' h
      unfold unwind at h
      split at h
      · cases h; simp
      · split at h
        · cases h; simp
        · simp only at h
          split at h
          · split at h
            · simpa using (ih (t := { t with popCount := t.popCount - 1, stack := List.take f.sp t.stack, closed := t.closed + 1 })).1 _ _ h
            · simpa using (ih (t := { t with popCount := t.popCount - 1 })).1 _ _ h
          · cases h
          · split at h
            · simpa using (ih (t := { t with popCount := t.popCount - 1, stack := List.take f.sp t.stack, closed := t.closed + 1 })).1 _ _ h
            · simpa using (ih (t := { t with popCount := t.popCount - 1 })).1 _ _ h
    · intro c t' h
      unfold unwind at h
      split at h
      · cases h
      · split at h
        · cases h
        · simp only at h
          split at h
          · split at h
            · simpa using (ih (t := { t with popCount := t.popCount - 1, stack := List.take f.sp t.stack, closed := t.closed + 1 })).2 _ _ h
            · simpa using (ih (t := { t with popCount := t.popCount - 1 })).2 _ _ h
          · split at h <;> (cases h; simp)
          · split at h
            · simpa using (ih (t := { t with popCount := t.popCount - 1, stack := List.take f.sp t.stack, closed := t.closed + 1 })).2 _ _ h
            · simpa using (ih (t := { t with popCount := t.popCount - 1 })).2 _ _ h

/-- with at most one uncounted frame the `pop_count == 0` test never fires before the frames are exhausted: the loop
runs to its end and clears the operand stack.  (This is the lemma that needs the test to PRECEDE the decrement.) -/
theorem unwind_fail {e e' : Val} {fs : List Frame} {t t' : Thread} {x : Nat} (hx : x ≤ 1)
    (hi : t.popCount + x = fs.length + 1) (h : unwind e t fs = .fail e' t') :
    t'.stack = [] ∧ t'.frames = [] := by
  have hg := gen_unwind_order
  induction fs generalizing t e with
  | nil =>
    unfold unwind at h
    cases h
    simp
  | cons f rest ih =>
    simp at hi
    unfold unwind at h
    split at h
    · rename_i hc; omega
    · split at h
      · rename_i hc; rw [hg] at hc; simp at hc
      · simp only at h
        split at h
        · split at h
          · exact ih (t := { t with popCount := t.popCount - 1, stack := List.take f.sp t.stack, closed := t.closed + 1 })
              (by simp; omega) h
          · exact ih (t := { t with popCount := t.popCount - 1 }) (by simp; omega) h
        · cases h
        · split at h
          · exact ih (t := { t with popCount := t.popCount - 1, stack := List.take f.sp t.stack, closed := t.closed + 1 })
              (by simp; omega) h
          · exact ih (t := { t with popCount := t.popCount - 1 }) (by simp; omega) h

/-- a closure handler takes over: the frame goes back, the counter with it; what was lost stays lost -/
theorem unwind_resume {e : Val} {fs : List Frame} {t t' : Thread} {c : List Code} {x : Nat}
    (hi : t.popCount + x = fs.length + 1) (h : unwind e t fs = .resume c t') :
    InvF t'.frames t'.popCount x := by
  have hg := gen_unwind_order
  induction fs generalizing t e with
  | nil =>
    unfold unwind at h
    cases h
  | cons f rest ih =>
    simp at hi
    unfold unwind at h
    split at h
    · cases h
    · rename_i hne
      split at h
      · cases h
      · simp only at h
        have hpos : t.popCount ≠ 0 := by
          intro h0
          exact hne ⟨hg, h0⟩
        split at h
        · split at h
          · exact ih (t := { t with popCount := t.popCount - 1, stack := List.take f.sp t.stack, closed := t.closed + 1 })
              (by simp; omega) h
          · exact ih (t := { t with popCount := t.popCount - 1 }) (by simp; omega) h
        · split at h <;> (cases h; unfold InvF; simp; omega)
        · split at h
          · exact ih (t := { t with popCount := t.popCount - 1, stack := List.take f.sp t.stack, closed := t.closed + 1 })
              (by simp; omega) h
          · exact ih (t := { t with popCount := t.popCount - 1 }) (by simp; omega) h

/-! ### the `'outer` loop -/

theorem executeLoop_spec {b n : Nat} {c : List Code} {t t' : Thread} {o : Outcome} (hi : Inv b 0 t)
    (h : executeLoop n c t = (o, t')) :
    o ≠ .panic ∧ t.globals <+: t'.globals ∧ t.lost ≤ t'.lost ∧
    ((∃ v, o = .ok v) ∨ (∃ e, o = .error e) → t'.lost ≤ b + 1 → t'.stack = [] ∧ t'.frames = []) := by
  induction n generalizing c t with
  | zero =>
    simp [executeLoop] at h
    obtain ⟨rfl, rfl⟩ := h
    exact ⟨by simp, List.prefix_refl _, Nat.le_refl _, by rintro (⟨v, hv⟩ | ⟨e, he⟩) <;> cases ‹_›⟩
  | succ n ih =>
    unfold executeLoop at h
    split at h
    · rename_i v t1 hv
      cases h
      have r := vmRun_ok hi hv
      refine ⟨by simp, by simpa using r.2.2, by simpa using r.2.1, fun _ hl => ⟨rfl, ?_⟩⟩
      simp at hl ⊢
      have : t1.frames.length = 0 := by rw [r.1]; omega
      exact List.eq_nil_of_length_eq_zero this
    · rename_i e t1 he
      have r := vmRun_err hi he
      split at h
      · rename_i c2 t2 hu
        have k := (unwind_keeps (e := e) (fs := t1.frames) (t := t1)).2 _ _ hu
        have u := unwind_resume (x := t1.lost - b + 0) r.1.2.2 hu
        have hi2 : Inv b 0 t2 := ⟨by rw [k.2]; exact r.1.1, by rw [k.2]; exact u⟩
        have rr := ih hi2 h
        refine ⟨rr.1, ?_, ?_, rr.2.2.2⟩
        · exact List.IsPrefix.trans r.2.2 (by rw [← k.1]; exact rr.2.1)
        · exact Nat.le_trans r.2.1 (by rw [← k.2]; exact rr.2.2.1)
      · rename_i e2 t2 hu
        cases h
        have k := (unwind_keeps (e := e) (fs := t1.frames) (t := t1)).1 _ _ hu
        refine ⟨by simp, by rw [k.1]; exact r.2.2, by rw [k.2]; exact r.2.1, fun _ hl => ?_⟩
        exact unwind_fail (x := t1.lost - b + 0) (by rw [k.2] at hl; omega) r.1.2.2 hu
    · rename_i hp
      exact absurd hp (vmRun_no_panic hi)
    · cases h
      exact ⟨by simp, List.prefix_refl _, Nat.le_refl _, by rintro (⟨v, hv⟩ | ⟨e, he⟩) <;> cases ‹_›⟩

theorem inv_of_clean_entry (t : Thread) (hc : t.clean) : Inv t.lost 0 { t with popCount := 1 } := by
  unfold Inv InvF
  simp [hc.2]

/-! ### the ghost counter only grows (no invariant needed) -/

theorem vmStep_lost (c : List Code) (t : Thread) :
    (∀ c' t', vmStep c t = .next c' t' → t.lost ≤ t'.lost) ∧ (∀ v t', vmStep c t = .done v t' → t.lost ≤ t'.lost) ∧
    (∀ e t', vmStep c t = .raise e t' → t.lost ≤ t'.lost) := by
  refine ⟨?_, ?_, ?_⟩ <;> intro a t' h <;> unfold vmStep at h <;> split at h
  all_goals first
    | (cases h <;> simp)
    | (split at h <;> first | (cases h <;> simp) | (simp only at h; split at h <;> split at h <;> cases h <;> simp))

theorem vmRun_lost {n : Nat} {c : List Code} {t : Thread} :
    (∀ v t', vmRun n c t = .ok v t' → t.lost ≤ t'.lost) ∧ (∀ e t', vmRun n c t = .err e t' → t.lost ≤ t'.lost) := by
  induction n generalizing c t with
  | zero => constructor <;> intro a t' h <;> simp [vmRun] at h
  | succ n ih =>
    constructor <;> intro a t' h <;> unfold vmRun at h <;> split at h
    · rename_i c1 t1 hs; exact Nat.le_trans ((vmStep_lost c t).1 _ _ hs) (ih.1 _ _ h)
    · rename_i v1 t1 hs; cases h; exact (vmStep_lost c t).2.1 _ _ hs
    · cases h
    · cases h
    · rename_i c1 t1 hs; exact Nat.le_trans ((vmStep_lost c t).1 _ _ hs) (ih.2 _ _ h)
    · cases h
    · rename_i e1 t1 hs; cases h; exact (vmStep_lost c t).2.2 _ _ hs
    · cases h

theorem executeLoop_lost {n : Nat} {c : List Code} {t : Thread} : t.lost ≤ (executeLoop n c t).2.lost := by
  induction n generalizing c t with
  | zero => simp [executeLoop]
  | succ n ih =>
    unfold executeLoop
    split
    · rename_i v t1 hv; simpa using vmRun_lost.1 _ _ hv
    · rename_i e t1 he
      have r := vmRun_lost.2 _ _ he
      split
      · rename_i c2 t2 hu
        have k := (unwind_keeps (e := e) (fs := t1.frames) (t := t1)).2 _ _ hu
        exact Nat.le_trans r (by rw [← k.2]; exact ih)
      · rename_i e2 t2 hu
        have k := (unwind_keeps (e := e) (fs := t1.frames) (t := t1)).1 _ _ hu
        simpa [k.2] using r
    · simp
    · simp

theorem execute_lost (fuel : Nat) (code : List Code) (t : Thread) : t.lost ≤ (execute fuel code t).2.lost := by
  unfold execute
  simpa using executeLoop_lost (n := fuel) (c := code) (t := { t with popCount := 1 })

theorem runForms_lost (fuel : Nat) (forms : List (List Code)) (t : Thread) : t.lost ≤ (runForms fuel forms t).2.lost := by
  induction forms generalizing t with
  | nil => simp [runForms]
  | cons f rest ih =>
    unfold runForms
    have e := execute_lost fuel f t
    split
    · rename_i v t1 he
      rw [he] at e
      exact Nat.le_trans e (ih t1)
    · exact e

theorem runHistory_lost (fuel : Nat) (hist : List (List (List Code))) (t : Thread) :
    t.lost ≤ (runHistory fuel hist t).2.lost := by
  induction hist generalizing t with
  | nil => simp [runHistory]
  | cons p rest ih =>
    unfold runHistory
    exact Nat.le_trans (runForms_lost fuel p t) (ih _)

/-! ### with the window closed (the code since /repo commit 27b7e09f) nothing is ever lost -/

theorem vmStep_lost_eq (hw : windowOpen = false) (c : List Code) (t : Thread) :
    (∀ c' t', vmStep c t = .next c' t' → t'.lost = t.lost) ∧ (∀ v t', vmStep c t = .done v t' → t'.lost = t.lost) ∧
    (∀ e t', vmStep c t = .raise e t' → t'.lost = t.lost) := by
  refine ⟨?_, ?_, ?_⟩ <;> intro a t' h <;> unfold vmStep at h <;> split at h
  all_goals first
    | (cases h <;> (simp; done))
    | (split at h <;> first
        | (cases h <;> first | (simp_all; done) | (exfalso; revert hw; decide))
        | (simp only at h; split at h <;> split at h <;> cases h <;> simp))

theorem vmRun_lost_eq (hw : windowOpen = false) {n : Nat} {c : List Code} {t : Thread} :
    (∀ v t', vmRun n c t = .ok v t' → t'.lost = t.lost) ∧ (∀ e t', vmRun n c t = .err e t' → t'.lost = t.lost) := by
  induction n generalizing c t with
  | zero => constructor <;> intro a t' h <;> simp [vmRun] at h
  | succ n ih =>
    constructor <;> intro a t' h <;> unfold vmRun at h <;> split at h
    · rename_i c1 t1 hs; rw [ih.1 _ _ h]; exact (vmStep_lost_eq hw c t).1 _ _ hs
    · rename_i v1 t1 hs; cases h; exact (vmStep_lost_eq hw c t).2.1 _ _ hs
    · cases h
    · cases h
    · rename_i c1 t1 hs; rw [ih.2 _ _ h]; exact (vmStep_lost_eq hw c t).1 _ _ hs
    · cases h
    · rename_i e1 t1 hs; cases h; exact (vmStep_lost_eq hw c t).2.2 _ _ hs
    · cases h

theorem executeLoop_lost_eq (hw : windowOpen = false) {n : Nat} {c : List Code} {t : Thread} :
    (executeLoop n c t).2.lost = t.lost := by
  induction n generalizing c t with
  | zero => simp [executeLoop]
  | succ n ih =>
    unfold executeLoop
    split
    · rename_i v t1 hv; simpa using (vmRun_lost_eq hw).1 _ _ hv
    · rename_i e t1 he
      have r := (vmRun_lost_eq hw).2 _ _ he
      split
      · rename_i c2 t2 hu
        have k := (unwind_keeps (e := e) (fs := t1.frames) (t := t1)).2 _ _ hu
        rw [ih, k.2, r]
      · rename_i e2 t2 hu
        have k := (unwind_keeps (e := e) (fs := t1.frames) (t := t1)).1 _ _ hu
        simp [k.2, r]
    · simp
    · simp

theorem execute_lost_eq (hw : windowOpen = false) (fuel : Nat) (code : List Code) (t : Thread) :
    (execute fuel code t).2.lost = t.lost := by
  unfold execute
  simpa using executeLoop_lost_eq hw (n := fuel) (c := code) (t := { t with popCount := 1 })

end SteelVerif.C07
