/-
C07 — lemmas about the recovery machine: the invariant that ties `pop_count` to the frame stack, its preservation
by every instruction, by the unwind loop and by the `'outer` loop.
-/
import SteelVerif.C07.Model
namespace SteelVerif.C07

/-- `pop_count` against a frame list: always one more than the number of frames (`VmCore::new` starts with 1 and
no frame; call and return move both together; so do the unwind loop and the handler dispatch) -/
def InvF (fs : List Frame) (pc : Nat) : Prop := pc = fs.length + 1

def Inv (t : Thread) : Prop := InvF t.frames t.popCount

theorem InvF_pos {fs : List Frame} {pc : Nat} (h : InvF fs pc) : 1 ≤ pc := by
  unfold InvF at h; omega

theorem InvF_push (f : Frame) {fs : List Frame} {pc : Nat} (h : InvF fs pc) : InvF (f :: fs) (pc + 1) := by
  unfold InvF at *; simp [h]

/-- popping the top frame -/
theorem InvF_pop {f : Frame} {fs : List Frame} {pc : Nat} (h : InvF (f :: fs) pc) : InvF fs (pc - 1) := by
  unfold InvF at *; simp at h; omega

/-- with a frame on the stack the counter cannot reach zero by one decrement -/
theorem InvF_pop_ne {f : Frame} {fs : List Frame} {pc : Nat} (h : InvF (f :: fs) pc) : pc - 1 ≠ 0 := by
  unfold InvF at h; simp at h; omega

/-! ### one instruction -/

theorem vmStep_next {c c' : List Code} {t t' : Thread} (hi : Inv t) (h : vmStep c t = .next c' t') :
    Inv t' ∧ t.globals <+: t'.globals := by
  unfold Inv at *
  unfold vmStep at h
  split at h
  · -- return
    split at h
    · cases h
    · simp only at h
      split at h
      · split at h <;> cases h
      · rename_i f rest hf
        split at h
        · cases h
          rw [hf] at hi
          exact ⟨InvF_pop hi, List.prefix_refl _⟩
        · cases h
  · cases h; exact ⟨hi, List.prefix_refl _⟩
  · cases h; exact ⟨hi, List.prefix_refl _⟩
  · cases h; exact ⟨hi, List.prefix_append _ _⟩
  · cases h; exact ⟨InvF_push _ hi, List.prefix_refl _⟩
  · split at h
    · cases h; exact ⟨InvF_push _ hi, List.prefix_refl _⟩
    · cases h
  · cases h; exact ⟨InvF_push _ hi, List.prefix_refl _⟩
  · cases h

theorem vmStep_done {c : List Code} {t t' : Thread} {v : Val} (hi : Inv t) (h : vmStep c t = .done v t') :
    t'.frames = [] ∧ t'.popCount = 0 ∧ t'.globals = t.globals := by
  unfold Inv at *
  unfold vmStep at h
  split at h
  · split at h
    · cases h
    · simp only at h
      split at h
      · split at h
        · cases h
        · cases h; simp_all
      · rename_i f rest hf
        split at h
        · cases h
        · rename_i hpc
          rw [hf] at hi
          exact absurd (by omega) (InvF_pop_ne hi)
  all_goals first | cases h | (split at h <;> cases h)

theorem vmStep_raise {c : List Code} {t t' : Thread} {e : Val} (h : vmStep c t = .raise e t') : t' = t := by
  unfold vmStep at h
  split at h
  · split at h
    · cases h
    · simp only at h
      split at h
      · split at h <;> cases h
      · split at h <;> cases h
  all_goals first | (cases h; rfl) | cases h | (split at h <;> first | (cases h; rfl) | cases h)

theorem vmStep_no_panic {c : List Code} {t : Thread} (hi : Inv t) : vmStep c t ≠ .panic := by
  unfold Inv at *
  have hpos := InvF_pos hi
  intro h
  unfold vmStep at h
  split at h
  · split at h
    · omega
    · simp only at h
      split at h
      · rename_i hf
        split at h
        · rename_i hpc
          rw [hf] at hi
          unfold InvF at hi
          simp at hi
          omega
        · cases h
      · split at h <;> cases h
  all_goals first | cases h | (split at h <;> cases h)

/-! ### `vm()` -/

theorem vmRun_ok {n : Nat} {c : List Code} {t t' : Thread} {v : Val} (hi : Inv t) (h : vmRun n c t = .ok v t') :
    t'.frames = [] ∧ t'.popCount = 0 ∧ t.globals <+: t'.globals := by
  induction n generalizing c t with
  | zero => simp [vmRun] at h
  | succ n ih =>
    unfold vmRun at h
    split at h
    · rename_i c1 t1 hs
      have := vmStep_next hi hs
      have r := ih this.1 h
      exact ⟨r.1, r.2.1, List.IsPrefix.trans this.2 r.2.2⟩
    · rename_i v1 t1 hs
      cases h
      have := vmStep_done hi hs
      exact ⟨this.1, this.2.1, by rw [this.2.2]; exact List.prefix_refl _⟩
    · cases h
    · cases h

theorem vmRun_err {n : Nat} {c : List Code} {t t' : Thread} {e : Val} (hi : Inv t) (h : vmRun n c t = .err e t') :
    Inv t' ∧ t.globals <+: t'.globals := by
  induction n generalizing c t with
  | zero => simp [vmRun] at h
  | succ n ih =>
    unfold vmRun at h
    split at h
    · rename_i c1 t1 hs
      have := vmStep_next hi hs
      have r := ih this.1 h
      exact ⟨r.1, List.IsPrefix.trans this.2 r.2⟩
    · cases h
    · rename_i e1 t1 hs
      cases h
      have := vmStep_raise hs
      subst this
      exact ⟨hi, List.prefix_refl _⟩
    · cases h

theorem vmRun_no_panic {n : Nat} {c : List Code} {t : Thread} (hi : Inv t) : vmRun n c t ≠ .panic := by
  induction n generalizing c t with
  | zero => simp [vmRun]
  | succ n ih =>
    unfold vmRun
    split
    · rename_i c1 t1 hs
      exact ih (vmStep_next hi hs).1
    · simp
    · simp
    · rename_i hs
      exact absurd hs (vmStep_no_panic hi)

/-! ### the unwind loop -/

theorem unwind_fail {e e' : Val} {fs : List Frame} {t t' : Thread} (hi : InvF fs t.popCount)
    (h : unwind e t fs = .fail e' t') :
    t'.stack = [] ∧ t'.frames = [] ∧ t'.globals = t.globals := by
  induction fs generalizing t e with
  | nil =>
    unfold unwind at h
    cases h
    simp
  | cons f rest ih =>
    have hpos := InvF_pos hi
    have hi' : InvF rest (t.popCount - 1) := InvF_pop hi
    unfold unwind at h
    split at h
    · omega
    · simp only at h
      split at h
      · -- no handler: go on with the rest
        split at h
        · have r := ih (t := { t with popCount := t.popCount - 1, stack := List.take f.sp t.stack, closed := t.closed + 1 })
            (by simpa using hi') h
          simpa using r
        · have r := ih (t := { t with popCount := t.popCount - 1 }) (by simpa using hi') h
          simpa using r
      · cases h
      · -- a handler that is not a closure: the error is replaced, the loop goes on
        split at h
        · have r := ih (t := { t with popCount := t.popCount - 1, stack := List.take f.sp t.stack, closed := t.closed + 1 })
            (by simpa using hi') h
          simpa using r
        · have r := ih (t := { t with popCount := t.popCount - 1 }) (by simpa using hi') h
          simpa using r

theorem unwind_resume {e : Val} {fs : List Frame} {t t' : Thread} {c : List Code} (hi : InvF fs t.popCount)
    (h : unwind e t fs = .resume c t') : Inv t' ∧ t'.globals = t.globals := by
  induction fs generalizing t e with
  | nil =>
    unfold unwind at h
    cases h
  | cons f rest ih =>
    have hpos := InvF_pos hi
    have hi' : InvF rest (t.popCount - 1) := InvF_pop hi
    unfold unwind at h
    split at h
    · cases h
    · simp only at h
      split at h
      · -- no handler
        split at h
        · have r := ih (t := { t with popCount := t.popCount - 1, stack := List.take f.sp t.stack, closed := t.closed + 1 })
            (by simpa using hi') h
          simpa using r
        · have r := ih (t := { t with popCount := t.popCount - 1 }) (by simpa using hi') h
          simpa using r
      · -- a closure handler takes over: the frame goes back, the counter with it
        have key : InvF ({ f with handler := none, mark := false } :: rest) (t.popCount - 1 + 1) := by
          unfold InvF at *
          simp at hi ⊢
          omega
        split at h
        · cases h
          exact ⟨by simpa [Inv] using key, rfl⟩
        · cases h
          exact ⟨by simpa [Inv] using key, rfl⟩
      · -- not a closure: skipped
        split at h
        · have r := ih (t := { t with popCount := t.popCount - 1, stack := List.take f.sp t.stack, closed := t.closed + 1 })
            (by simpa using hi') h
          simpa using r
        · have r := ih (t := { t with popCount := t.popCount - 1 }) (by simpa using hi') h
          simpa using r

/-! ### the `'outer` loop -/

theorem executeLoop_spec {n : Nat} {c : List Code} {t t' : Thread} {o : Outcome} (hi : Inv t)
    (h : executeLoop n c t = (o, t')) :
    o ≠ .panic ∧ t.globals <+: t'.globals ∧
    ((∃ v, o = .ok v) ∨ (∃ e, o = .error e) → t'.stack = [] ∧ t'.frames = []) := by
  induction n generalizing c t with
  | zero =>
    simp [executeLoop] at h
    obtain ⟨rfl, rfl⟩ := h
    exact ⟨by simp, List.prefix_refl _, by rintro (⟨v, hv⟩ | ⟨e, he⟩) <;> cases ‹_›⟩
  | succ n ih =>
    unfold executeLoop at h
    split at h
    · rename_i v t1 hv
      cases h
      have r := vmRun_ok hi hv
      exact ⟨by simp, by simpa using r.2.2, fun _ => ⟨rfl, r.1⟩⟩
    · rename_i e t1 he
      have r := vmRun_err hi he
      split at h
      · rename_i c2 t2 hu
        have u := unwind_resume (by simpa [Inv] using r.1) hu
        have rr := ih u.1 h
        refine ⟨rr.1, ?_, rr.2.2⟩
        exact List.IsPrefix.trans r.2 (by rw [← u.2]; exact rr.2.1)
      · rename_i e2 t2 hu
        cases h
        have u := unwind_fail (by simpa [Inv] using r.1) hu
        exact ⟨by simp, by rw [u.2.2]; exact r.2, fun _ => ⟨u.1, u.2.1⟩⟩
    · rename_i hp
      exact absurd hp (vmRun_no_panic hi)
    · cases h
      exact ⟨by simp, List.prefix_refl _, by rintro (⟨v, hv⟩ | ⟨e, he⟩) <;> cases ‹_›⟩

theorem inv_of_clean_entry (t : Thread) (hc : t.clean) : Inv { t with popCount := 1 } := by
  unfold Inv InvF
  simp [hc.2]

end SteelVerif.C07
