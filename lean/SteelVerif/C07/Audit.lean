import SteelVerif.C07.Props
open SteelVerif.C07
#print axioms frontend_total
#print axioms frontend_spans
#print axioms arms_total
#print axioms arms_total_unary
#print axioms panic_sites_classified
#print axioms reachable_sites_named
#print axioms failed_run_leaves_clean
#print axioms failed_run_leaves_clean_partial
#print axioms handler_run_resumes_clean
#print axioms run_never_panics
#print axioms execute_clean
#print axioms failed_forms_keep_completed
#print axioms history_stays_clean
#print axioms regression_bad_handler
#print axioms failed_build_is_noop_partial
#print axioms listOps_spec
#print axioms counter_macro_survives
#print axioms not_FailedBuildIsNoop
