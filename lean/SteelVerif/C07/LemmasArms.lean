/-
C07 — coverage of the match arms extracted into GenArms.lean, and the classification of the extracted panic sites.
-/
import SteelVerif.C07.LemmasSites
namespace SteelVerif.C07
open Gen

/-- the numeric value kinds (`SteelVal` variants that `number?` accepts) -/
inductive NumKind where
  | IntV | BigNum | Rational | BigRational | NumV | Complex
  deriving DecidableEq, Repr

def numKinds : List NumKind := [.IntV, .BigNum, .Rational, .BigRational, .NumV, .Complex]

def PK.matches : PK → NumKind → Bool
  | .Any, _ => true
  | .IntV, .IntV => true
  | .BigNum, .BigNum => true
  | .Rational, .Rational => true
  | .BigRational, .BigRational => true
  | .NumV, .NumV => true
  | .Complex, .Complex => true
  | _, _ => false

/-- the body of the first unconditional arm that matches the pair (arms with a guard or a literal sub-pattern may be
skipped at run time, so they do not count as coverage) -/
def firstArm2 (arms : List Arm2) (a b : NumKind) : Option Body :=
  (arms.find? (fun x => !x.conditional && PK.matches x.l a && PK.matches x.r b)).map (·.body)

def firstArm1 (arms : List Arm1) (a : NumKind) : Option Body :=
  (arms.find? (fun x => !x.conditional && PK.matches x.k a)).map (·.body)

def okBody : Option Body → Bool
  | some .panic => false
  | some _ => true
  | none => false

/-- every pair of numeric kinds reaches an unconditional arm that does not panic -/
def covers2 (arms : List Arm2) : Bool :=
  numKinds.all (fun a => numKinds.all (fun b => okBody (firstArm2 arms a b)))

def covers1 (arms : List Arm1) : Bool :=
  numKinds.all (fun a => okBody (firstArm1 arms a))

/-- the pairs that are NOT covered (for the driver / the search when the obligation fails) -/
def uncovered2 (arms : List Arm2) : List (NumKind × NumKind) :=
  numKinds.flatMap (fun a => (numKinds.filter (fun b => !okBody (firstArm2 arms a b))).map (fun b => (a, b)))

def uncovered1 (arms : List Arm1) : List NumKind :=
  numKinds.filter (fun a => !okBody (firstArm1 arms a))

/-! ### exemptions: kinds that a dispatch cannot be handed, with the reason (hand-reviewed, like the site table) -/

/-- (table, kind, why the kind cannot reach this `match`) -/
def armExemptions1 : List (String × NumKind × String) := [
  ("imaginary_is_negative", .Complex,
    "the scrutinee is the imaginary component of a SteelComplex: make-rectangular / make-polar check both components with ensure_arg_is_real, the arithmetic builds components with real operations (internal invariant; the sweep applies make-rectangular and make-polar to complex arguments on every run)"),
  ("imaginary_is_finite", .Complex, "as imaginary_is_negative")
]

def armExemptions2 : List (String × NumKind × NumKind × String) := []

def exempt1 (t : String) (k : NumKind) : Bool := armExemptions1.any (fun e => e.1 == t && e.2.1 == k)
def exempt2 (t : String) (a b : NumKind) : Bool := armExemptions2.any (fun e => e.1 == t && e.2.1 == a && e.2.2.1 == b)

/-- every numeric kind reaches a non-panicking arm, except the exempted ones -/
def covers1x (t : String × List Arm1) : Bool := (uncovered1 t.2).all (fun k => exempt1 t.1 k)
def covers2x (t : String × List Arm2) : Bool := (uncovered2 t.2).all (fun p => exempt2 t.1 p.1 p.2)

/-- an exemption that is not needed (the table covers the kind, or the table is gone) is stale: the obligation below
fails, so that the review list cannot silently outlive the code it was written for -/
def exemptionsNeeded : Bool :=
  armExemptions1.all (fun e => unaryTables.any (fun t => t.1 == e.1 && (uncovered1 t.2).contains e.2.1)) &&
  armExemptions2.all (fun e => binaryTables.any (fun t => t.1 == e.1 && (uncovered2 t.2).contains (e.2.1, e.2.2.1)))

/-- the tables a function of `entryReach` reaches are all present and covered -/
def reachCovered (names : List String) : Bool :=
  names.all (fun n =>
    (binaryTables.any (fun t => t.1 == n && covers2x t)) || (unaryTables.any (fun t => t.1 == n && covers1x t)))

/-! ### the site table -/

def reviewedIds : List Nat := reviewed.map (·.id)

def siteReviewed (s : Site) : Bool :=
  reviewed.any (fun r => r.id == s.id && r.verdict != .unreviewed)

/-- sites of the current sources that the table does not know -/
def unclassifiedSites : List Site := sites.filter (fun s => !siteReviewed s)

/-- a `reachable` verdict must name its finding class -/
def reachableNamed : Bool :=
  reviewed.all (fun r => r.verdict != .reachable || r.finding.length != 0)

/-- entries of the table whose site no longer exists (stale reviews: reported, not an error) -/
def staleReviews : List Review := reviewed.filter (fun r => !sites.any (fun s => s.id == r.id))

end SteelVerif.C07
