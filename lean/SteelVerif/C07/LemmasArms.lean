/-
C07 — coverage of the match arms extracted into GenArms.lean, and the classification of the extracted panic sites.
-/
import SteelVerif.C07.LemmasSites
namespace SteelVerif.C07
open Gen

/-- the numeric value kinds (`SteelVal` variants that `number?` accepts) -/
inductive NumKind where
  | IntV | BigNum | Rational | BigRational | NumV | Complex
  deriving DecidableEq, Repr

def numKinds : List NumKind := [.IntV, .BigNum, .Rational, .BigRational, .NumV, .Complex]

def PK.matches : PK → NumKind → Bool
  | .Any, _ => true
  | .IntV, .IntV => true
  | .BigNum, .BigNum => true
  | .Rational, .Rational => true
  | .BigRational, .BigRational => true
  | .NumV, .NumV => true
  | .Complex, .Complex => true
  | _, _ => false

/-- the body of the first unconditional arm that matches the pair (arms with a guard or a literal sub-pattern may be
skipped at run time, so they do not count as coverage) -/
def firstArm2 (arms : List Arm2) (a b : NumKind) : Option Body :=
  (arms.find? (fun x => !x.conditional && PK.matches x.l a && PK.matches x.r b)).map (·.body)

def firstArm1 (arms : List Arm1) (a : NumKind) : Option Body :=
  (arms.find? (fun x => !x.conditional && PK.matches x.k a)).map (·.body)

def okBody : Option Body → Bool
  | some .panic => false
  | some _ => true
  | none => false

/-- every pair of numeric kinds reaches an unconditional arm that does not panic -/
def covers2 (arms : List Arm2) : Bool :=
  numKinds.all (fun a => numKinds.all (fun b => okBody (firstArm2 arms a b)))

def covers1 (arms : List Arm1) : Bool :=
  numKinds.all (fun a => okBody (firstArm1 arms a))

/-- the pairs that are NOT covered (for the driver / the search when the obligation fails) -/
def uncovered2 (arms : List Arm2) : List (NumKind × NumKind) :=
  numKinds.flatMap (fun a => (numKinds.filter (fun b => !okBody (firstArm2 arms a b))).map (fun b => (a, b)))

def uncovered1 (arms : List Arm1) : List NumKind :=
  numKinds.filter (fun a => !okBody (firstArm1 arms a))

/-! ### the site table -/

def reviewedIds : List Nat := reviewed.map (·.id)

def siteReviewed (s : Site) : Bool :=
  reviewed.any (fun r => r.id == s.id && r.verdict != .unreviewed)

/-- sites of the current sources that the table does not know -/
def unclassifiedSites : List Site := sites.filter (fun s => !siteReviewed s)

/-- a `reachable` verdict must name its finding class -/
def reachableNamed : Bool :=
  reviewed.all (fun r => r.verdict != .reachable || r.finding.length != 0)

/-- entries of the table whose site no longer exists (stale reviews: reported, not an error) -/
def staleReviews : List Review := reviewed.filter (fun r => !sites.any (fun s => s.id == r.id))

end SteelVerif.C07
