/-
C07 driver.

  c07driver tables        prints, for the tables regenerated from /repo: the pairs of numeric kinds that no
                          non-panicking arm covers (per function), the extracted panic sites that the review table
                          does not know, the stale entries of the review table, and the reachable sites with their
                          finding classes.  Used by checks/c07.py for the evidence and, when `arms_total` /
                          `panic_sites_classified` stop checking, to direct the search for a failing input.
  c07driver               line protocol on stdin: one program of the recovery model per line, forms separated by `|`:
                            P<n> push   O pop   D<g> define   C[ .. ] call   H[ handler ][ body ] closure handler
                            B[ body ] handler that is not a closure   K[ body ] call/cc frame   F<e> failing primitive
                            A callback of the wrong arity called by a native higher-order procedure
                          answer: `<outcome> frames=<n> stack=<n> globals=<g>:<v>,...` after `runForms` on a fresh thread.
-/
import SteelVerif.C07.LemmasArms
import SteelVerif.C07.Model
namespace SteelVerif.C07

def showKind : NumKind → String
  | .IntV => "IntV" | .BigNum => "BigNum" | .Rational => "Rational" | .BigRational => "BigRational"
  | .NumV => "NumV" | .Complex => "Complex"

def showVerdict : Verdict → String
  | .guarded => "guarded" | .benign => "benign" | .reachable => "reachable" | .hostEffect => "hostEffect"
  | .dead => "dead" | .unreviewed => "unreviewed"

def tablesReport : List String :=
  let b := Gen.binaryTables.map fun (n, arms) =>
    s!"arms2 {n} arms={arms.length} uncovered=" ++ " ".intercalate ((uncovered2 arms).map fun (a, c) => s!"({showKind a},{showKind c})")
  let u := Gen.unaryTables.map fun (n, arms) =>
    s!"arms1 {n} arms={arms.length} uncovered=" ++ " ".intercalate ((uncovered1 arms).map showKind)
  let un := unclassifiedSites.map fun s => s!"unclassified {s.id} {s.kind} {s.fn} {s.file}:{s.line} {s.snippet}"
  let st := staleReviews.map fun r => s!"stale {r.id} {showVerdict r.verdict} {r.reason}"
  let re := (reviewed.filter (fun r => r.verdict == .reachable)).map fun r =>
    let site := Gen.sites.find? (fun s => s.id == r.id)
    match site with
    | some s => s!"reachable {r.finding} {s.file} {s.fn} {s.line} {s.kind}"
    | none => s!"reachable {r.finding} ? ? 0 ?"
  let counts := [.guarded, .benign, .reachable, .hostEffect, .dead].map fun v =>
    s!"{showVerdict v}={(Gen.sites.filter (fun s => reviewed.any (fun r => r.id == s.id && r.verdict == v))).length}"
  let all := Gen.sites.map fun s =>
    let v := match reviewed.find? (fun r => r.id == s.id) with
      | some r => showVerdict r.verdict
      | none => "unclassified"
    s!"site {v} {s.file} {s.line} {s.fn} {s.kind}"
  b ++ u ++ un ++ st ++ re ++ all ++ [s!"sites {Gen.sites.length} " ++ " ".intercalate counts,
    s!"unwind testFirst={Gen.unwindTestFirst} nestedTestFirst={Gen.nestedTestFirst} clears={Gen.unwindClears} windowOpen={windowOpen}"]

/-! ### parsing programs of the recovery model -/

def takeNat : List Char → Nat × List Char
  | cs =>
    let ds := cs.takeWhile Char.isDigit
    ((String.ofList ds).toNat!, cs.drop ds.length)

/-- parses a code sequence up to `]` or the end; fuel bounds the recursion -/
def parseSeq : Nat → List Char → Option (List Code × List Char)
  | 0, _ => none
  | fuel + 1, cs =>
    match cs with
    | [] => some ([], [])
    | ']' :: rest => some ([], ']' :: rest)
    | ' ' :: rest => parseSeq fuel rest
    | 'P' :: rest => let (n, r) := takeNat rest; (parseSeq fuel r).map fun (c, r') => (.push n :: c, r')
    | 'O' :: rest => (parseSeq fuel rest).map fun (c, r') => (.pop :: c, r')
    | 'D' :: rest => let (n, r) := takeNat rest; (parseSeq fuel r).map fun (c, r') => (.define n :: c, r')
    | 'F' :: rest => let (n, r) := takeNat rest; (parseSeq fuel r).map fun (c, r') => (.fail n :: c, r')
    | 'A' :: rest => (parseSeq fuel rest).map fun (c, r') => (.callbackArity :: c, r')
    | 'C' :: '[' :: rest =>
      match parseSeq fuel rest with
      | some (body, ']' :: r) => (parseSeq fuel r).map fun (c, r') => (.call body :: c, r')
      | _ => none
    | 'K' :: '[' :: rest =>
      match parseSeq fuel rest with
      | some (body, ']' :: r) => (parseSeq fuel r).map fun (c, r') => (.callcc body :: c, r')
      | _ => none
    | 'B' :: '[' :: rest =>
      match parseSeq fuel rest with
      | some (body, ']' :: r) => (parseSeq fuel r).map fun (c, r') => (.handle false [] body :: c, r')
      | _ => none
    | 'H' :: '[' :: rest =>
      match parseSeq fuel rest with
      | some (h, ']' :: '[' :: r) =>
        match parseSeq fuel r with
        | some (body, ']' :: r2) => (parseSeq fuel r2).map fun (c, r') => (.handle true h body :: c, r')
        | _ => none
      | _ => none
    | _ => none

def parseProgram (s : String) : Option (List (List Code)) :=
  let forms := s.splitOn "|"
  forms.mapM fun f =>
    match parseSeq (f.length * 2 + 8) f.toList with
    | some (c, []) => some c
    | _ => none

def showOutcome : Outcome → String
  | .ok v => s!"ok {v}"
  | .error e => s!"error {e}"
  | .panic => "panic"
  | .outOfFuel => "out-of-fuel"

def runLine (line : String) : String :=
  match parseProgram line with
  | none => "parse-error"
  | some forms =>
    let (o, t) := runForms 100000 forms {}
    let gs := ",".intercalate (t.globals.map fun (g, v) => s!"{g}:{v}")
    s!"{showOutcome o} frames={t.frames.length} stack={t.stack.length} lost={t.lost} globals={gs}"

partial def loop (h : IO.FS.Stream) : IO Unit := do
  let line ← h.getLine
  if line.isEmpty then return
  IO.println (runLine (String.ofList (line.toList.filter (fun c => c != '\n' && c != '\r'))))
  loop h

end SteelVerif.C07

def main (args : List String) : IO Unit := do
  match args with
  | ["tables"] => for l in SteelVerif.C07.tablesReport do IO.println l
  | _ => SteelVerif.C07.loop (← IO.getStdin)
