/-
C07 — nested VM instances: `call_with_one_arg` / `call_with_two_args` / `call_with_args` +
`call_with_instructions_and_reset_state` (how a native higher-order procedure runs a closure).

Model.lean represents a callback of the right arity by its effect on the counters (a value, or a failing primitive) and
one of the wrong arity by `callbackArity`.  This file models the nested instance itself and proves that representation
sound: whatever the callback does — calls, handlers, errors, callback arity errors of its own — after
`callWithOneArg` the enclosing instance is exactly where a value / a failing primitive / `callbackArity` would have
left it: its `pop_count` is unchanged and the invariant that ties it to the frame stack still holds
(`nested_instance_keeps_invariant`); in particular, with nothing lost the frame stack is as long as before
(`nested_instance_restores_frames`).

  * `unwindNested`   the unwind loop of `call_with_instructions_and_reset_state`: when `pop_count` reaches 0 the popped
                     frame belongs to the enclosing instance and is pushed back (`Gen.nestedTestFirst`: the test comes
                     before the decrement); the operand stack is not cleared.
  * `nestedLoop`     its `'outer` loop: a handler inside the callback takes over and the nested `vm()` runs again.
  * `callWithOneArg` frame pushed (not counted), argument pushed, arity check, nested instance with `pop_count = 1`,
                     `pop_count` of the enclosing instance restored afterwards.
The callback's body is `Code` of Model.lean (a further native call inside it is again a value / `fail` / `callbackArity`).
-/
import SteelVerif.C07.Lemmas
namespace SteelVerif.C07

def unwindNested (e : Val) (t : Thread) : List Frame → UnwindOut
  | [] => .fail e { t with frames := [] }
  | f :: rest =>
    if t.popCount = 0 then .fail e { t with frames := f :: rest }       -- `stack_frames.push(last); break`
    else
      let t1 := { t with popCount := t.popCount - 1 }
      let t2 := if f.mark then { t1 with stack := t1.stack.take f.sp, closed := t1.closed + 1 } else t1
      match f.handler with
      | none => unwindNested e t2 rest
      | some (true, hbody) =>
        .resume hbody { t2 with stack := t2.stack.take f.sp ++ [e],
                                frames := { f with handler := none, mark := false } :: rest,
                                popCount := t2.popCount + 1 }
      | some (false, _) => unwindNested handlerTypeError t2 rest

def nestedLoop : Nat → List Code → Thread → Outcome × Thread
  | 0, _, t => (.outOfFuel, t)
  | n + 1, c, t =>
    match vmRun n c t with
    | .ok v t' => (.ok v, t')
    | .err e t' =>
      match unwindNested e t' t'.frames with
      | .resume c' t'' => nestedLoop n c' t''
      | .fail e' t'' => (.error e', t'')
    | .panic => (.panic, t)
    | .outOfFuel => (.outOfFuel, t)

/-- `call_with_one_arg(closure, arg)` -/
def callWithOneArg (fuel : Nat) (arityOk : Bool) (body : List Code) (t : Thread) : Outcome × Thread :=
  let t1 := { t with frames := mkFrame t none false [] :: t.frames, stack := t.stack ++ [0] }
  if !arityOk then
    -- `adjust_stack_for_multi_arity(..)?` fails: what `callbackArity` does
    if windowOpen then (.error arityError, { t1 with lost := t.lost + 1 }) else (.error arityError, t)
  else
    let r := nestedLoop fuel body { t1 with popCount := 1 }
    (r.1, { r.2 with popCount := t.popCount })

/-! ### the nested unwind loop -/

theorem unwindNested_keeps {e : Val} {fs : List Frame} {t : Thread} :
    (∀ e' t', unwindNested e t fs = .fail e' t' → t'.globals = t.globals ∧ t'.lost = t.lost) ∧
    (∀ c t', unwindNested e t fs = .resume c t' → t'.globals = t.globals ∧ t'.lost = t.lost) := by
  induction fs generalizing t e with
  | nil => constructor <;> intro a t' h <;> unfold unwindNested at h <;> cases h <;> simp
  | cons f rest ih =>
    constructor
    · intro e' t' h
      unfold unwindNested at h
      split at h
      · cases h; simp
      · simp only at h
        split at h
        · split at h
          · simpa using (ih (t := { t with popCount := t.popCount - 1, stack := List.take f.sp t.stack, closed := t.closed + 1 })).1 _ _ h
          · simpa using (ih (t := { t with popCount := t.popCount - 1 })).1 _ _ h
        · cases h
        · split at h
          · simpa using (ih (t := { t with popCount := t.popCount - 1, stack := List.take f.sp t.stack, closed := t.closed + 1 })).1 _ _ h
          · simpa using (ih (t := { t with popCount := t.popCount - 1 })).1 _ _ h
    · intro c t' h
      unfold unwindNested at h
      split at h
      · cases h
      · simp only at h
        split at h
        · split at h
          · simpa using (ih (t := { t with popCount := t.popCount - 1, stack := List.take f.sp t.stack, closed := t.closed + 1 })).2 _ _ h
          · simpa using (ih (t := { t with popCount := t.popCount - 1 })).2 _ _ h
        · split at h <;> (cases h; simp)
        · split at h
          · simpa using (ih (t := { t with popCount := t.popCount - 1, stack := List.take f.sp t.stack, closed := t.closed + 1 })).2 _ _ h
          · simpa using (ih (t := { t with popCount := t.popCount - 1 })).2 _ _ h

/-- the loop pops exactly the frames this instance counted: `x - 1` frames are left, the ones that are not its own -/
theorem unwindNested_fail {e e' : Val} {fs : List Frame} {t t' : Thread} {x : Nat} (hx : 1 ≤ x)
    (hi : t.popCount + x = fs.length + 1) (h : unwindNested e t fs = .fail e' t') :
    t'.frames.length = x - 1 := by
  induction fs generalizing t e with
  | nil =>
    unfold unwindNested at h
    cases h
    simp at hi ⊢
    omega
  | cons f rest ih =>
    simp at hi
    unfold unwindNested at h
    split at h
    · rename_i hc
      cases h
      simp
      omega
    · rename_i hc
      simp only at h
      split at h
      · split at h
        · exact ih (t := { t with popCount := t.popCount - 1, stack := List.take f.sp t.stack, closed := t.closed + 1 })
            (by simp; omega) h
        · exact ih (t := { t with popCount := t.popCount - 1 }) (by simp; omega) h
      · cases h
      · split at h
        · exact ih (t := { t with popCount := t.popCount - 1, stack := List.take f.sp t.stack, closed := t.closed + 1 })
            (by simp; omega) h
        · exact ih (t := { t with popCount := t.popCount - 1 }) (by simp; omega) h

theorem unwindNested_resume {e : Val} {fs : List Frame} {t t' : Thread} {c : List Code} {x : Nat}
    (hi : t.popCount + x = fs.length + 1) (h : unwindNested e t fs = .resume c t') :
    InvF t'.frames t'.popCount x := by
  induction fs generalizing t e with
  | nil =>
    unfold unwindNested at h
    cases h
  | cons f rest ih =>
    simp at hi
    unfold unwindNested at h
    split at h
    · cases h
    · rename_i hpos
      simp only at h
      split at h
      · split at h
        · exact ih (t := { t with popCount := t.popCount - 1, stack := List.take f.sp t.stack, closed := t.closed + 1 })
            (by simp; omega) h
        · exact ih (t := { t with popCount := t.popCount - 1 }) (by simp; omega) h
      · split at h <;> (cases h; unfold InvF; simp; omega)
      · split at h
        · exact ih (t := { t with popCount := t.popCount - 1, stack := List.take f.sp t.stack, closed := t.closed + 1 })
            (by simp; omega) h
        · exact ih (t := { t with popCount := t.popCount - 1 }) (by simp; omega) h

/-! ### the nested `'outer` loop -/

theorem nestedLoop_spec {b k n : Nat} {c : List Code} {t t' : Thread} {o : Outcome} (hk : 1 ≤ k) (hi : Inv b k t)
    (h : nestedLoop n c t = (o, t')) :
    o ≠ .panic ∧ t.globals <+: t'.globals ∧ t.lost ≤ t'.lost ∧
    ((∃ v, o = .ok v) ∨ (∃ e, o = .error e) → t'.frames.length = (t'.lost - b + k) - 1) := by
  induction n generalizing c t with
  | zero =>
    simp [nestedLoop] at h
    obtain ⟨rfl, rfl⟩ := h
    exact ⟨by simp, List.prefix_refl _, Nat.le_refl _, by rintro (⟨v, hv⟩ | ⟨e, he⟩) <;> cases ‹_›⟩
  | succ n ih =>
    unfold nestedLoop at h
    split at h
    · rename_i v t1 hv
      cases h
      have r := vmRun_ok hi hv
      exact ⟨by simp, r.2.2, r.2.1, fun _ => r.1⟩
    · rename_i e t1 he
      have r := vmRun_err hi he
      split at h
      · rename_i c2 t2 hu
        have kk := (unwindNested_keeps (e := e) (fs := t1.frames) (t := t1)).2 _ _ hu
        have u := unwindNested_resume (x := t1.lost - b + k) r.1.2.2 hu
        have hi2 : Inv b k t2 := ⟨by rw [kk.2]; exact r.1.1, by rw [kk.2]; exact u⟩
        have rr := ih hi2 h
        refine ⟨rr.1, ?_, ?_, rr.2.2.2⟩
        · exact List.IsPrefix.trans r.2.2 (by rw [← kk.1]; exact rr.2.1)
        · exact Nat.le_trans r.2.1 (by rw [← kk.2]; exact rr.2.2.1)
      · rename_i e2 t2 hu
        cases h
        have kk := (unwindNested_keeps (e := e) (fs := t1.frames) (t := t1)).1 _ _ hu
        refine ⟨by simp, by rw [kk.1]; exact r.2.2, by rw [kk.2]; exact r.2.1, fun _ => ?_⟩
        rw [kk.2]
        exact unwindNested_fail (x := t1.lost - b + k) (by omega) r.1.2.2 hu
    · rename_i hp
      exact absurd hp (vmRun_no_panic hi)
    · cases h
      exact ⟨by simp, List.prefix_refl _, Nat.le_refl _, by rintro (⟨v, hv⟩ | ⟨e, he⟩) <;> cases ‹_›⟩

/-! ### the call of a closure from native code -/

/-- Soundness of Model.lean's representation of native callbacks: whatever the callback's body does, after
`call_with_one_arg` returned a value or an error the enclosing instance's `pop_count` is what it was and its invariant
holds again, with the ghost counter accounting for every uncounted frame that was left behind (none when the window is
closed). -/
theorem nested_instance_keeps_invariant {b k fuel : Nat} {arityOk : Bool} {body : List Code} {t t' : Thread} {o : Outcome}
    (hi : Inv b k t) (h : callWithOneArg fuel arityOk body t = (o, t')) (hb : (∃ v, o = .ok v) ∨ (∃ e, o = .error e)) :
    Inv b k t' ∧ t'.popCount = t.popCount ∧ t.lost ≤ t'.lost ∧ t.globals <+: t'.globals := by
  unfold callWithOneArg at h
  simp only at h
  split at h
  · -- the arity check fails
    split at h
    · cases h
      refine ⟨?_, rfl, by simp, List.prefix_refl _⟩
      unfold Inv InvF at *
      simp [mkFrame]
      omega
    · cases h
      exact ⟨hi, rfl, Nat.le_refl _, List.prefix_refl _⟩
  · -- the nested instance runs the callback
    cases hr : nestedLoop fuel body
        { t with frames := mkFrame t none false [] :: t.frames, stack := t.stack ++ [0], popCount := 1 } with
    | mk o2 t2 =>
      rw [hr] at h
      cases h
      -- the nested instance: nothing lost so far relative to now (b := t.lost), k := frames of the enclosing
      -- instances + its own first frame
      have hin : Inv t.lost (t.frames.length + 1)
          { t with frames := mkFrame t none false [] :: t.frames, stack := t.stack ++ [0], popCount := 1 } := by
        unfold Inv InvF
        simp
        omega
      have r := nestedLoop_spec (by omega) hin hr
      have fl := r.2.2.2 hb
      simp at fl
      have hl : t.lost ≤ t2.lost := by simpa using r.2.2.1
      refine ⟨?_, rfl, hl, by simpa using r.2.1⟩
      unfold Inv InvF at *
      simp
      omega

/-- with nothing lost (always, when the window is closed) the frame stack is exactly as long as before the call -/
theorem nested_instance_restores_frames {b k fuel : Nat} {body : List Code} {t t' : Thread} {o : Outcome}
    (hi : Inv b k t) (h : callWithOneArg fuel true body t = (o, t')) (hb : (∃ v, o = .ok v) ∨ (∃ e, o = .error e))
    (hl : t'.lost = t.lost) : t'.frames.length = t.frames.length := by
  have r := nested_instance_keeps_invariant hi h hb
  unfold Inv InvF at *
  have := r.1.2.2
  have h0 := hi.2.2
  rw [r.2.1, hl] at this
  omega

end SteelVerif.C07
