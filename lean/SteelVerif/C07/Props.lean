/-
C07 — property theorems: no input can crash the host; errors are returned and leave the engine usable.

What is decided here (everything else about C07 is explored on the real engine by checks/c07.py, whose oracle is the
property itself):

  (a) front end     `frontend_total`, `frontend_spans`: the reader is a total function and every token / error span lies
                    inside the text (the theorems of C12, restated as obligations of C07).
  (b) arms          `arms_total`, `arms_total_unary`: in each numeric primitive that dispatches on operand kinds, every
                    pair (every single kind) of numeric kinds reaches an arm that does not panic — over the tables
                    regenerated from numbers.rs / rvals.rs on every run;
                    `panic_sites_classified`: every potential panic site extracted from the primitives is in the
                    hand-reviewed table (LemmasSites.lean); `reachable_sites_named`: every site judged reachable names
                    its finding class.
  (c) recovery      `failed_run_leaves_clean_partial`, `handler_run_resumes_clean_partial`, `run_never_panics`,
                    `failed_forms_keep_completed`, `history_stays_clean`: the model of `SteelThread::execute`, including
                    the call paths that push a frame before it is counted (`callbackArity`).  Guard of the partial
                    theorems: at most one callback arity error per evaluation / program / history (ghost counter `lost`).
                    The full statements `FailedRunLeavesClean` / `HandledRunLeavesClean` are refuted by witnesses that
                    are replayed on the engine (`not_FailedRunLeavesClean`, `not_HandledRunLeavesClean`,
                    `counter_*`: finding K07ai, found by this extension of the model).  `gen_unwind_order_both`,
                    `gen_counted_paths`, `gen_uncounted_paths_as_modelled`: what translate/c07_unwind.py reads from vm.rs.
                    Until /repo commit f4f0e66b the full statement was refuted by a handler that is not a closure
                    (finding K07a, found here, replayed on the engine, repaired); the witness stays as
                    `regression_bad_handler`.
                    `failed_build_is_noop_iff` (exact decidable guard), `failed_build_is_noop_partial`,
                    `failed_build_is_noop` (full, for a compiler that gives the macro environment back),
                    `not_FailedBuildIsNoop`, `counter_macro_survives` (K07z), `counter_required_macro_survives` (K14f).
-/
import SteelVerif.C12.Props
import SteelVerif.C07.Lemmas
import SteelVerif.C07.Nested
import SteelVerif.C07.LemmasBuild
import SteelVerif.C07.LemmasArms
import SteelVerif.C10.GenOps
namespace SteelVerif.C07

/-! ## (a) the front end never fails to answer -/

/-- every text is read to data or to an error whose span lies inside the text -/
theorem frontend_total (src : C12.Text) :
    (∃ ds, C12.read src = .ok ds) ∨
    (∃ e, C12.read src = .error e ∧ e.s ≤ e.e ∧ e.e ≤ C12.utf8Len src) :=
  C12.read_total_partial src

/-- every token and lexer error of every text has `start ≤ end ≤ length` -/
theorem frontend_spans (src : C12.Text) : ∀ it ∈ C12.lex src, it.s ≤ it.e ∧ it.e ≤ C12.utf8Len src :=
  C12.spans_in_bounds src

/-- non-vacuity: malformed text is answered with an error value -/
example : ∃ e, C12.read t!"(car '(1 2" = .error e := ⟨_, rfl⟩

/-! ## (b) dispatch on value kinds -/

/-- every pair of numeric kinds is handled by a non-panicking arm of EVERY binary numeric dispatch — every `match` of
numbers.rs / rvals.rs / strings.rs that dispatches on numeric variants, found by scanning the sources (not a list of
names): + - * (add_two, add_two_fallible, multiply_two), the nine integer divisions, expt, log, `=` and the order -/
theorem arms_total : Gen.binaryTables.all (fun t => covers2 t.2) = true := by decide +kernel

/-- every numeric kind is handled by a non-panicking arm of every unary numeric dispatch (negate, the reciprocal of `/`,
abs, sqrt, exact-integer-sqrt, the rounding functions, the predicates, the trigonometric functions, exact / inexact,
number->string's format_number, ...), except the kinds exempted in LemmasArms.lean with a reason -/
theorem arms_total_unary : Gen.unaryTables.all covers1x = true := by decide +kernel

/-- no exemption is stale -/
theorem arm_exemptions_needed : exemptionsNeeded = true := by decide +kernel

/-- the scan found the dispatches of the entry points named by the property's design, and it found many -/
theorem arm_tables_present :
    (["add_two", "add_two_fallible", "multiply_two", "truncate_quotient", "floor_remainder", "expt", "number_equality",
      "partial_cmp"].all (fun n => Gen.binaryTables.any (fun t => t.1 == n))) = true ∧
    (["negate", "recip", "abs", "sqrt", "exact_integer_sqrt", "format_number", "numerator", "denominator"].all
      (fun n => Gen.unaryTables.any (fun t => t.1 == n))) = true := by decide +kernel

/-- the functions behind the VM's arithmetic / comparison op codes and behind the registered primitives
`+ - * / = < > <= >=` (the names are C10's extraction, translate/c10_ops.py -> C10/GenOps.lean) reach only dispatch
tables that are present and covered; the ones that dispatch on no numeric kind are named -/
def nonDispatching : List String := ["checked_sub", "partial_le", "equality_primitive"]

def opFunctions : List String :=
  (C10.Gen.opDispatch.flatMap (fun o => o.2.1) ++ C10.Gen.registered.map (·.2)).eraseDups

theorem op_entry_points_covered :
    opFunctions.all (fun f =>
      nonDispatching.contains f ||
      Gen.entryReach.any (fun e => e.1 == f && e.2.length != 0 && reachCovered e.2)) = true := by decide +kernel

/-- non-vacuity: the coverage test does fail on the table `multiply_two` had before /repo commit f0377ee5
(no `(Rational, BigRational)` arm in front of `_ => unreachable!()`) -/
example : covers2 [⟨.IntV, .IntV, false, .compute⟩, ⟨.BigRational, .Rational, false, .compute⟩,
    ⟨.Any, .Any, false, .panic⟩] = false := by decide
example : uncovered2 Gen.arms_multiply_two = [] := by decide

/-- every potential panic site of the primitives is in the reviewed table -/
theorem panic_sites_classified : unclassifiedSites = [] := by decide +kernel

/-- every site judged reachable names the finding class that reports it -/
theorem reachable_sites_named : reachableNamed = true := by decide +kernel

/-- non-vacuity: the table is not empty and does contain reachable sites -/
example : (reviewed.filter (fun r => r.verdict == .reachable)).length ≠ 0 := by decide +kernel

/-! ## (c) recovery -/

/-- what ties the recovery model to the source, regenerated on every run (translate/c07_unwind.py): the order of the
`pop_count == 0` test and the decrement in both unwind loops, and the `stack.clear()` after the outer one -/
theorem gen_unwind_order_both : Gen.unwindTestFirst = true ∧ Gen.nestedTestFirst = true ∧ Gen.unwindClears = true := by decide

/-- every call path that counts its frame does so right after the push, with nothing fallible in between
(`handle_function_call_closure*` since /repo commit 968df9dd, `call_with_exception_handler`, `call/cc`): the model's
`call` / `handle` / `callcc` move `frames` and `popCount` in one step -/
theorem gen_counted_paths : Gen.countedPaths.all (fun p => !p.2) = true ∧ Gen.countedPaths.length ≠ 0 := by decide

/-- the call paths that leave the counting to a nested instance are as modelled by `callbackArity`: either a fallible
step follows the push and the frame is NOT taken back (finding K07ai), or nothing can fail between push and nested run.
A path that is fallible after the push in some other way breaks this obligation. -/
theorem gen_uncounted_paths_as_modelled :
    Gen.uncountedPaths.all (fun p => (p.2.1 && !p.2.2) || (!p.2.1)) = true ∧ Gen.uncountedPaths.length ≠ 0 := by decide

/-- C07, as stated for one evaluation on a clean thread: whenever the evaluation returns an error, the operand stack
and the frame stack are empty, the definitions executed before the failure are kept, and nothing else of the thread
that the model tracks has changed (the globals only grew). -/
def FailedRunLeavesClean : Prop :=
  ∀ (fuel : Nat) (code : List Code) (t t' : Thread) (o : Outcome),
    t.clean → execute fuel code t = (o, t') → o.isErr = true →
    t'.stack = [] ∧ t'.frames = [] ∧ t.globals <+: t'.globals

/-- the same for an evaluation that succeeds, possibly after errors were caught by handlers -/
def HandledRunLeavesClean : Prop :=
  ∀ (fuel : Nat) (code : List Code) (t t' : Thread) (v : Val),
    t.clean → execute fuel code t = (.ok v, t') → t'.stack = [] ∧ t'.frames = [] ∧ t.globals <+: t'.globals

/-- the part that holds for the code that exists: evaluations in which at most ONE callback arity error was raised
(`lost` counts them), handled or not.  The guard is decidable on the run; `t'.lost = t.lost` (no such error) implies it.
This is the theorem that needs the `pop_count == 0` test to precede the decrement: with one uncounted frame the counter
reaches 0 exactly when the last frame is popped. -/
theorem failed_run_leaves_clean_partial (fuel : Nat) (code : List Code) (t t' : Thread) (e : Val)
    (hc : t.clean) (h : execute fuel code t = (.error e, t')) (hg : t'.lost ≤ t.lost + 1) :
    t'.stack = [] ∧ t'.frames = [] ∧ t.globals <+: t'.globals := by
  unfold execute at h
  have r := executeLoop_spec (inv_of_clean_entry t hc) h
  have c := r.2.2.2 (Or.inr ⟨e, rfl⟩) (by simpa using hg)
  exact ⟨c.1, c.2, by simpa using r.2.1⟩

/-- an evaluation that succeeds ends with both stacks empty, under the same guard -/
theorem handler_run_resumes_clean_partial (fuel : Nat) (code : List Code) (t t' : Thread) (v : Val)
    (hc : t.clean) (h : execute fuel code t = (.ok v, t')) (hg : t'.lost ≤ t.lost + 1) :
    t'.stack = [] ∧ t'.frames = [] ∧ t.globals <+: t'.globals := by
  unfold execute at h
  have r := executeLoop_spec (inv_of_clean_entry t hc) h
  have c := r.2.2.2 (Or.inl ⟨v, rfl⟩) (by simpa using hg)
  exact ⟨c.1, c.2, by simpa using r.2.1⟩

/-- the FULL statement, for the code since /repo commit 27b7e09f (no call path leaves an uncounted frame behind:
`windowOpen = false`, read from vm.rs on every run) -/
theorem failed_run_leaves_clean (hw : windowOpen = false) : FailedRunLeavesClean := by
  intro fuel code t t' o hc h ho
  cases o with
  | error e =>
    have hl : t'.lost = t.lost := by simpa [h] using execute_lost_eq hw fuel code t
    exact failed_run_leaves_clean_partial fuel code t t' e hc h (by omega)
  | ok v => cases ho
  | panic => cases ho
  | outOfFuel => cases ho

theorem handled_run_leaves_clean (hw : windowOpen = false) : HandledRunLeavesClean := by
  intro fuel code t t' v hc h
  have hl : t'.lost = t.lost := by simpa [h] using execute_lost_eq hw fuel code t
  exact handler_run_resumes_clean_partial fuel code t t' v hc h (by omega)

/-- the recovery machine itself never panics — with any number of uncounted frames: `last.unwrap()` in
`handle_pop_pure` and the `pop_count` arithmetic are safe on every run from a clean thread -/
theorem run_never_panics (fuel : Nat) (code : List Code) (t t' : Thread) (o : Outcome)
    (hc : t.clean) (h : execute fuel code t = (o, t')) : o ≠ .panic := by
  unfold execute at h
  exact (executeLoop_spec (inv_of_clean_entry t hc) h).1

/-- the outcomes after which a thread is known to be clean (everything but running out of fuel) -/
def Outcome.benign : Outcome → Bool
  | .ok _ => true
  | .error _ => true
  | _ => false

theorem execute_clean (fuel : Nat) (code : List Code) (t t' : Thread) (o : Outcome)
    (hc : t.clean) (h : execute fuel code t = (o, t')) (hb : o.benign = true) (hg : t'.lost ≤ t.lost + 1) :
    t'.clean ∧ t.globals <+: t'.globals := by
  cases o with
  | ok v => have r := handler_run_resumes_clean_partial fuel code t t' v hc h hg; exact ⟨⟨r.1, r.2.1⟩, r.2.2⟩
  | error e => have r := failed_run_leaves_clean_partial fuel code t t' e hc h hg; exact ⟨⟨r.1, r.2.1⟩, r.2.2⟩
  | panic => cases hb
  | outOfFuel => cases hb

/-- a program (`run_executable`): if it fails, the forms before the failing one completed, their definitions are
kept, and both stacks are empty (guard: at most one callback arity error in the whole program) -/
theorem failed_forms_keep_completed (fuel : Nat) (forms : List (List Code)) (t t' : Thread) (o : Outcome)
    (hc : t.clean) (h : runForms fuel forms t = (o, t')) (hb : o.benign = true) (hg : t'.lost ≤ t.lost + 1) :
    t'.clean ∧ t.globals <+: t'.globals := by
  induction forms generalizing t with
  | nil =>
    simp [runForms] at h
    obtain ⟨_, rfl⟩ := h
    exact ⟨hc, List.prefix_refl _⟩
  | cons f rest ih =>
    unfold runForms at h
    split at h
    · rename_i v t1 he
      have m1 : t.lost ≤ t1.lost := by simpa [he] using execute_lost fuel f t
      have m2 : t1.lost ≤ t'.lost := by simpa [h] using runForms_lost fuel rest t1
      have r := execute_clean fuel f t t1 (.ok v) hc he rfl (by omega)
      have rr := ih (t := t1) r.1 h (by omega)
      exact ⟨rr.1, List.IsPrefix.trans r.2 rr.2⟩
    · rename_i r hne
      cases hr : execute fuel f t with
      | mk o1 t1 =>
        rw [hr] at h
        cases h
        exact execute_clean fuel f t t' o hc hr hb hg

/-- a whole history of evaluations on one engine, failing and succeeding ones interleaved: as long as no evaluation
runs out of fuel and at most one callback arity error is raised in the whole history, the thread is clean after the
history and every definition that was executed is still there -/
theorem history_stays_clean (fuel : Nat) (hist : List (List (List Code))) (t t' : Thread) (os : List Outcome)
    (hc : t.clean) (h : runHistory fuel hist t = (os, t')) (hb : os.all Outcome.benign = true) (hg : t'.lost ≤ t.lost + 1) :
    t'.clean ∧ t.globals <+: t'.globals := by
  induction hist generalizing t os with
  | nil =>
    simp [runHistory] at h
    obtain ⟨_, rfl⟩ := h
    exact ⟨hc, List.prefix_refl _⟩
  | cons p rest ih =>
    unfold runHistory at h
    cases hp : runForms fuel p t with
    | mk o1 t1 =>
      cases hr : runHistory fuel rest t1 with
      | mk os1 t2 =>
        rw [hp] at h
        simp only [hr] at h
        cases h
        simp only [List.all_cons, Bool.and_eq_true] at hb
        have m1 : t.lost ≤ t1.lost := by simpa [hp] using runForms_lost fuel p t
        have m2 : t1.lost ≤ t'.lost := by simpa [hr] using runHistory_lost fuel rest t1
        have r1 := failed_forms_keep_completed fuel p t t1 o1 hc hp hb.1 (by omega)
        have r2 := ih (t := t1) (os := os1) r1.1 hr hb.2 (by omega)
        exact ⟨r2.1, List.IsPrefix.trans r1.2 r2.2⟩

/-! ### nested instances: a closure called from native code -/

/-- Soundness of the way the recovery model represents native callbacks (a value, a failing primitive, or
`callbackArity`): `call_with_one_arg` + `call_with_instructions_and_reset_state`, modelled in Nested.lean with the
callback's body as arbitrary code (calls, handlers, errors, callback arity errors of its own), leave the enclosing
instance — at any nesting depth `k` — with its `pop_count` unchanged and its invariant intact, whatever the outcome. -/
theorem native_callback_keeps_invariant {b k fuel : Nat} {arityOk : Bool} {body : List Code} {t t' : Thread} {o : Outcome}
    (hi : Inv b k t) (h : callWithOneArg fuel arityOk body t = (o, t')) (hb : (∃ v, o = .ok v) ∨ (∃ e, o = .error e)) :
    Inv b k t' ∧ t'.popCount = t.popCount ∧ t.lost ≤ t'.lost ∧ t.globals <+: t'.globals :=
  nested_instance_keeps_invariant hi h hb

/-- … and, when no uncounted frame was left behind (always, for the code since /repo commit 27b7e09f), with exactly the
frames it had: the callback's own frames are gone, also when it failed -/
theorem native_callback_restores_frames {b k fuel : Nat} {body : List Code} {t t' : Thread} {o : Outcome}
    (hi : Inv b k t) (h : callWithOneArg fuel true body t = (o, t')) (hb : (∃ v, o = .ok v) ∨ (∃ e, o = .error e))
    (hl : t'.lost = t.lost) : t'.frames.length = t.frames.length :=
  nested_instance_restores_frames hi h hb hl

/-- non-vacuity: a callback that calls a procedure which fails two frames deep, from inside a procedure of the
enclosing instance (one frame, `pop_count = 2`): the error comes back, the enclosing frame is still there, alone -/
def enclosing : Thread := { frames := [{ sp := 0, handler := none, mark := false, ret := [] }], popCount := 2 }

example : (callWithOneArg 100 true [.push 1, .call [.push 2, .call [.fail 7]]] enclosing).1 = .error 7 := by decide
example : ((callWithOneArg 100 true [.push 1, .call [.push 2, .call [.fail 7]]] enclosing).2.frames.length,
    (callWithOneArg 100 true [.push 1, .call [.push 2, .call [.fail 7]]] enclosing).2.popCount) = (1, 2) := by decide
/-- a handler inside the callback catches the error: the callback returns a value -/
example : (callWithOneArg 100 true [.handle true [.pop, .push 5] [.push 1, .fail 7]] enclosing).1 = .ok 5 ∧
    (callWithOneArg 100 true [.handle true [.pop, .push 5] [.push 1, .fail 7]] enclosing).2.frames.length = 1 := by decide

/-! ### non-vacuity of the recovery theorems -/

/-- `(define g0 1) (+ 1 (car 5))`-like: a definition, then an error two frames deep with operands on the stack -/
def progFail : List (List Code) :=
  [[.push 1, .define 0], [.push 7, .call [.push 8, .call [.push 9, .fail 42]]]]

example : (runForms 100 progFail {}).1 = .error 42 := by decide
example : (runForms 100 progFail {}).2.globals = [(0, 1)] := by decide
example : ((runForms 100 progFail {}).2.stack, (runForms 100 progFail {}).2.frames.length) = ([], 0) := by decide

/-- an error caught by a handler at the top level, then a second error that is not caught -/
def progHandled : List Code :=
  [.handle true [.pop, .push 5] [.push 1, .fail 3], .define 1, .push 2, .callcc [.push 3, .fail 4]]

example : (execute 100 progHandled {}).1 = .error 4 := by decide
example : (execute 100 progHandled {}).2.globals = [(1, 5)] := by decide
example : (execute 100 [.handle true [.pop, .push 5] [.push 1, .fail 3], .define 1] {}).1 = .ok 0 := by decide

/-- ONE callback arity error that reaches the top (`(transduce (list 1 2) (filtering (lambda (x y) #t)) (into-list))`
two calls deep): the guard holds, the thread is clean.  (With the decrement before the test — seeded change C07-n2 —
this very run leaves its operands behind: `unwind_fail` does not check then.) -/
def progCallbackArity : List Code := [.push 7, .call [.push 8, .call [.push 9, .callbackArity]]]

example : (execute 100 progCallbackArity {}).1 = .error arityError := by decide
example : ((execute 100 progCallbackArity {}).2.stack, (execute 100 progCallbackArity {}).2.frames.length) = ([], 0) := by decide

/-! ### with the window open (the code before /repo commit 27b7e09f) the full statements were refuted: finding K07ai.
The witnesses are kept for that configuration (`windowOpen = true →`); they are vacuous for the repaired code. -/

/-- `(define (hf) (+ 0 (call-with-exception-handler (lambda (e) 100) (lambda () <callback arity error>))))` -/
def hfCall : Code := .call [.push 0, .handle true [.pop, .push 100] [.callbackArity], .pop, .pop, .push 0]

/-- a handled callback arity error ends the enclosing evaluation one return early: the `define` after the call is
never executed, although the evaluation "succeeds" -/
theorem counter_handled_callback_arity_error_ends_early : windowOpen = true →
    (execute 100 [hfCall, .define 1] {}).1 = .ok 0 ∧ (execute 100 [hfCall, .define 1] {}).2.globals = [] ∧
    (execute 100 [.call [.push 0, .handle true [.pop, .push 100] [.push 3], .pop, .pop, .push 0], .define 1] {}).2.globals = [(1, 0)] := by
  decide

/-- `(list 0 (hg) 3)` with `(define (hg) (list 1 (hf) (hf) 2))` — the shape the check evaluates on the engine: the
evaluation ends inside `hg` and the frame of `hg` stays on the frame stack (the engine: value 100, depth (1 0)) -/
def progTwoHandled : List Code :=
  [.push 0, .call [.push 1, hfCall, hfCall, .push 2, .pop, .pop, .pop, .pop, .push 0], .push 3, .pop, .pop, .pop, .push 0]

theorem counter_two_handled_leave_a_frame : windowOpen = true →
    (execute 200 progTwoHandled {}).1 = .ok 0 ∧ (execute 200 progTwoHandled {}).2.frames.length = 1 ∧
    (execute 200 progTwoHandled {}).2.lost = 2 := by decide

/-- `(list 0 (hm) 3)`, `(define (hm) (list 7 8 (hk)))`, `(define (hk) (list 1 (hf) (hf) (car 5)))`: after two handled
callback arity errors an unhandled error leaves `execute` through the `pop_count == 0` early return, which does not
clear the operand stack (the engine: depth (0 7)) -/
def progTwoHandledThenFail : List Code :=
  [.push 0, .call [.push 7, .push 8, .call [.push 1, hfCall, hfCall, .fail 9]]]

theorem counter_two_handled_then_error_leaves_operands : windowOpen = true →
    (execute 200 progTwoHandledThenFail {}).1 = .error 9 ∧ (execute 200 progTwoHandledThenFail {}).2.frames.length = 0 ∧
    (execute 200 progTwoHandledThenFail {}).2.stack.length ≠ 0 := by decide

/-- the same three programs on the repaired code: every form is executed, nothing stays behind -/
theorem regression_handled_callback_arity_errors : windowOpen = false →
    (execute 100 [hfCall, .define 1] {}).2.globals = [(1, 0)] ∧
    (execute 200 progTwoHandled {}).2.frames.length = 0 ∧
    (execute 200 progTwoHandledThenFail {}).1 = .error 9 ∧ (execute 200 progTwoHandledThenFail {}).2.stack = [] := by decide

/-! ### regression: the witness that refuted the full statement before /repo commit f4f0e66b -/

/-- `(list 1 (call-with-exception-handler list (lambda () (error "x"))))`: the handler is a built-in, not a closure.
It is rejected when it is installed. -/
def progBadHandler : List Code :=
  [.push 1, .call [.push 2, .push 3, .handle false [] [.push 4, .fail 9]]]

theorem regression_bad_handler :
    (execute 100 progBadHandler {}).1 = .error handlerTypeError ∧
    (execute 100 progBadHandler {}).2.frames.length = 0 ∧
    (execute 100 progBadHandler {}).2.stack = [] := by decide

/-- a frame that carries a non-closure handler all the same (installed by other means) is skipped by the unwind loop,
which then runs to its end: nothing stays behind -/
example : ((unwind 9 { stack := [1, 2, 3, 4], popCount := 3 }
    [{ sp := 3, handler := some (false, []), mark := false, ret := [] }, { sp := 1, handler := none, mark := false, ret := [] }]) matches
    .fail 2989 { stack := [], frames := [], popCount := 1, .. }) = true := by decide

/-! ## the build -/

/-- what a script can observe of the compiler state -/
def sameObservables {SM : Type} (s s' : BuildState SM) : Prop :=
  s'.symbols = s.symbols ∧ s'.modules = s.modules ∧ s'.metadata = s.metadata ∧ s'.macros = s.macros

/-- C07/C06 as stated: a program that fails to build changes nothing -/
def FailedBuildIsNoop : Prop :=
  ∀ {SM : Type} (ops : SymMapOps SM), RollBackSpec ops →
    ∀ (parseOk : Bool) (expand : List BuildOp) (defines : List Name) (refsResolve : Bool) (s s' : BuildState SM),
      build ops parseOk expand defines refsResolve s = (.err, s') → sameObservables s s'

/-- EXACT: a failing build is a no-op if and only if the macro environment is given back by the roll-back
(`Gen.buildRestoresMacros`, read from compile_raw_program / raw_program_to_executable on every run), or the failure is
in the parser, or no op that was executed before the failure put a macro into the global macro map (a top-level
`define-syntax`: finding K07z; the macros a required module provides: finding K14f) — whatever modules the program
required, whatever it defined, wherever it failed (expander, symbol resolution) -/
theorem failed_build_is_noop_iff {SM : Type} (ops : SymMapOps SM) (spec : RollBackSpec ops)
    (parseOk : Bool) (expand : List BuildOp) (defines : List Name) (refsResolve : Bool) (s s' : BuildState SM)
    (h : build ops parseOk expand defines refsResolve s = (.err, s')) :
    sameObservables s s' ↔ (Gen.buildRestoresMacros = true ∨ parseOk = false ∨ executedMacros expand = []) := by
  unfold build at h
  simp only at h
  split at h
  · rename_i hp
    cases h
    simp at hp
    exact ⟨fun _ => Or.inr (Or.inl hp), fun _ => ⟨rfl, rfl, rfl, rfl⟩⟩
  · rename_i hp
    simp at hp
    split at h
    · rename_i s2 he
      have f := expandOps_frame _ _ _ _ he
      cases h
      cases hr : Gen.buildRestoresMacros <;>
        simp [sameObservables, rollbackMetadata, f.2.2.1, f.2.1, f.1, f.2.2.2.2, hp]
    · rename_i s2 he
      have f := expandOps_frame _ _ _ _ he
      split at h
      · cases h
      · cases h
        have hs := spec.restores s.symbols defines
        cases hr : Gen.buildRestoresMacros <;>
          simp [sameObservables, rollbackMetadata, f.2.2.1, f.2.1, f.1, f.2.2.2.2, hp, hs]

/-- the part that holds in either configuration: programs that neither define macros at their top level nor bring
macros of a module into scope -/
theorem failed_build_is_noop_partial {SM : Type} (ops : SymMapOps SM) (spec : RollBackSpec ops)
    (parseOk : Bool) (expand : List BuildOp) (defines : List Name) (refsResolve : Bool) (s s' : BuildState SM)
    (hm : expand.all (fun o => !o.isMacro) = true)
    (h : build ops parseOk expand defines refsResolve s = (.err, s')) : sameObservables s s' :=
  (failed_build_is_noop_iff ops spec parseOk expand defines refsResolve s s' h).2
    (Or.inr (Or.inr (executedMacros_nil_of_no_macro expand hm)))

/-- the FULL statement, for a compiler whose failed builds give the macro environment back -/
theorem failed_build_is_noop (hg : Gen.buildRestoresMacros = true) : FailedBuildIsNoop := by
  intro SM ops spec parseOk expand defines refsResolve s s' h
  exact (failed_build_is_noop_iff ops spec parseOk expand defines refsResolve s s' h).2 (Or.inl hg)

/-- the list model of the symbol map used for the examples (`roll_back` = truncate) -/
def listOps : SymMapOps (List Name) :=
  { len := List.length, add := fun m n => m ++ [n], rollBack := fun m k => m.take k }

theorem listOps_spec : RollBackSpec listOps := by
  constructor
  intro m ns
  have key : ∀ (ns : List Name) (m : List Name), ns.foldl listOps.add m = m ++ ns := by
    intro ns
    induction ns with
    | nil => intro m; simp
    | cons n rest ih =>
      intro m
      rw [List.foldl_cons, ih]
      simp [listOps, List.append_assoc]
  rw [key]
  simp [listOps]

def emptyBuild : BuildState (List Name) :=
  { symbols := ["car"], modules := ["m0"], metadata := ["m0"], rollbackMetadata := [], rollbackModules := none,
    macros := ["cond"], sources := 0 }

/-- non-vacuity: a program that requires a module, defines two names and then fails to resolve a reference -/
example : (build listOps true [.requireModule "m1" []] ["a", "b"] false emptyBuild).1 = .err := by decide
example : (build listOps true [.requireModule "m1" []] ["a", "b"] false emptyBuild).2.symbols = ["car"] := by decide
example : (build listOps true [.requireModule "m1" []] ["a", "b"] false emptyBuild).2.modules = ["m0"] := by decide

/-- `(define-syntax foo …) (undefined-thing 1)` on the code that does not give the macros back: the build fails, `foo`
stays defined (K07z; replayed on the real engine: `(foo 1)` evaluates afterwards) -/
theorem counter_macro_survives : Gen.buildRestoresMacros = false →
    (build listOps true [.defineMacro "foo", .failExpand] [] true emptyBuild).1 = .err ∧
    (build listOps true [.defineMacro "foo", .failExpand] [] true emptyBuild).2.macros = ["cond", "foo"] := by decide

/-- `(require "m.scm") (undefined-thing 1)` where m provides the macro `mq`: the module table is rolled back, `mq`
stays in scope (K14f; replayed: `(mq 1)` expands afterwards) — also when the failure is in symbol resolution -/
theorem counter_required_macro_survives : Gen.buildRestoresMacros = false →
    (build listOps true [.requireModule "m" ["mq"]] [] false emptyBuild).1 = .err ∧
    (build listOps true [.requireModule "m" ["mq"]] [] false emptyBuild).2.modules = ["m0"] ∧
    (build listOps true [.requireModule "m" ["mq"]] [] false emptyBuild).2.macros = ["cond", "mq"] := by decide

/-- the same two programs on a compiler that gives the macros back -/
theorem regression_macros_given_back : Gen.buildRestoresMacros = true →
    (build listOps true [.defineMacro "foo", .failExpand] [] true emptyBuild).2.macros = ["cond"] ∧
    (build listOps true [.requireModule "m" ["mq"]] [] false emptyBuild).2.macros = ["cond"] := by decide

theorem not_FailedBuildIsNoop (hg : Gen.buildRestoresMacros = false) : ¬ FailedBuildIsNoop := by
  intro h
  have w := counter_macro_survives hg
  have := h listOps listOps_spec true [.defineMacro "foo", .failExpand] [] true emptyBuild
    (build listOps true [.defineMacro "foo", .failExpand] [] true emptyBuild).2 (Prod.ext w.1 rfl)
  have hm := this.2.2.2
  rw [w.2] at hm
  revert hm
  decide

end SteelVerif.C07
