/-
C07 — property theorems: no input can crash the host; errors are returned and leave the engine usable.

What is decided here (everything else about C07 is explored on the real engine by checks/c07.py, whose oracle is the
property itself):

  (a) front end     `frontend_total`, `frontend_spans`: the reader is a total function and every token / error span lies
                    inside the text (the theorems of C12, restated as obligations of C07).
  (b) arms          `arms_total`, `arms_total_unary`: in each numeric primitive that dispatches on operand kinds, every
                    pair (every single kind) of numeric kinds reaches an arm that does not panic — over the tables
                    regenerated from numbers.rs / rvals.rs on every run;
                    `panic_sites_classified`: every potential panic site extracted from the primitives is in the
                    hand-reviewed table (LemmasSites.lean); `reachable_sites_named`: every site judged reachable names
                    its finding class.
  (c) recovery      `failed_run_leaves_clean` (the full statement `FailedRunLeavesClean`), `handler_run_resumes_clean`,
                    `run_never_panics`, `failed_forms_keep_completed`, `history_stays_clean`: the model of
                    `SteelThread::execute`.  Until /repo commit f4f0e66b the full statement was refuted for the model by a
                    handler that is not a closure (finding K07a, found here, replayed on the engine, repaired); the
                    witness stays as `regression_bad_handler`.
                    `failed_build_is_noop_partial`, `not_FailedBuildIsNoop` (macros of a failed program stay defined).
-/
import SteelVerif.C12.Props
import SteelVerif.C07.Lemmas
import SteelVerif.C07.LemmasBuild
import SteelVerif.C07.LemmasArms
namespace SteelVerif.C07

/-! ## (a) the front end never fails to answer -/

/-- every text is read to data or to an error whose span lies inside the text -/
theorem frontend_total (src : C12.Text) :
    (∃ ds, C12.read src = .ok ds) ∨
    (∃ e, C12.read src = .error e ∧ e.s ≤ e.e ∧ e.e ≤ C12.utf8Len src) :=
  C12.read_total src

/-- every token and lexer error of every text has `start ≤ end ≤ length` -/
theorem frontend_spans (src : C12.Text) : ∀ it ∈ C12.lex src, it.s ≤ it.e ∧ it.e ≤ C12.utf8Len src :=
  C12.spans_in_bounds src

/-- non-vacuity: malformed text is answered with an error value -/
example : ∃ e, C12.read t!"(car '(1 2" = .error e := ⟨_, rfl⟩

/-! ## (b) dispatch on value kinds -/

/-- every pair of numeric kinds is handled by a non-panicking arm of every binary numeric primitive -/
theorem arms_total : Gen.binaryTables.all (fun t => covers2 t.2) = true := by decide

/-- every numeric kind is handled by a non-panicking arm of every unary numeric primitive -/
theorem arms_total_unary : Gen.unaryTables.all (fun t => covers1 t.2) = true := by decide

/-- non-vacuity: the coverage test does fail on the table `multiply_two` had before /repo commit f0377ee5
(no `(Rational, BigRational)` arm in front of `_ => unreachable!()`) -/
example : covers2 [⟨.IntV, .IntV, false, .compute⟩, ⟨.BigRational, .Rational, false, .compute⟩,
    ⟨.Any, .Any, false, .panic⟩] = false := by decide
example : uncovered2 Gen.arms_multiply_two = [] := by decide

/-- every potential panic site of the primitives is in the reviewed table -/
theorem panic_sites_classified : unclassifiedSites = [] := by decide +kernel

/-- every site judged reachable names the finding class that reports it -/
theorem reachable_sites_named : reachableNamed = true := by decide +kernel

/-- non-vacuity: the table is not empty and does contain reachable sites -/
example : (reviewed.filter (fun r => r.verdict == .reachable)).length ≠ 0 := by decide +kernel

/-! ## (c) recovery -/

/-- C07, as stated for one evaluation on a clean thread: whenever the evaluation returns an error, the operand stack
and the frame stack are empty, the definitions executed before the failure are kept, and nothing else of the thread
that the model tracks has changed (the globals only grew). -/
def FailedRunLeavesClean : Prop :=
  ∀ (fuel : Nat) (code : List Code) (t t' : Thread) (o : Outcome),
    t.clean → execute fuel code t = (o, t') → o.isErr = true →
    t'.stack = [] ∧ t'.frames = [] ∧ t.globals <+: t'.globals

/-- the full statement holds for the code that exists (since /repo commit f4f0e66b) -/
theorem failed_run_leaves_clean : FailedRunLeavesClean := by
  intro fuel code t t' o hc h ho
  unfold execute at h
  have r := executeLoop_spec (inv_of_clean_entry t hc) h
  cases o with
  | error e =>
    have c := r.2.2 (Or.inr ⟨e, rfl⟩)
    exact ⟨c.1, c.2, by simpa using r.2.1⟩
  | ok v => cases ho
  | panic => cases ho
  | outOfFuel => cases ho

theorem failed_run_leaves_clean_partial (fuel : Nat) (code : List Code) (t t' : Thread) (e : Val)
    (hc : t.clean) (h : execute fuel code t = (.error e, t')) :
    t'.stack = [] ∧ t'.frames = [] ∧ t.globals <+: t'.globals :=
  failed_run_leaves_clean fuel code t t' (.error e) hc h rfl

/-- an evaluation that succeeds — possibly after errors were caught by handlers — ends with both stacks empty -/
theorem handler_run_resumes_clean (fuel : Nat) (code : List Code) (t t' : Thread) (v : Val)
    (hc : t.clean) (h : execute fuel code t = (.ok v, t')) :
    t'.stack = [] ∧ t'.frames = [] ∧ t.globals <+: t'.globals := by
  unfold execute at h
  have r := executeLoop_spec (inv_of_clean_entry t hc) h
  have c := r.2.2 (Or.inl ⟨v, rfl⟩)
  exact ⟨c.1, c.2, by simpa using r.2.1⟩

/-- the recovery machine itself never panics: `last.unwrap()` in `handle_pop_pure` and the `pop_count` arithmetic
are safe on every run from a clean thread (the early `return Err(e)` of the unwind loop is dead code) -/
theorem run_never_panics (fuel : Nat) (code : List Code) (t t' : Thread) (o : Outcome)
    (hc : t.clean) (h : execute fuel code t = (o, t')) : o ≠ .panic := by
  unfold execute at h
  exact (executeLoop_spec (inv_of_clean_entry t hc) h).1

/-- the outcomes after which a thread is known to be clean (everything but running out of fuel) -/
def Outcome.benign : Outcome → Bool
  | .ok _ => true
  | .error _ => true
  | _ => false

theorem execute_clean (fuel : Nat) (code : List Code) (t t' : Thread) (o : Outcome)
    (hc : t.clean) (h : execute fuel code t = (o, t')) (hb : o.benign = true) :
    t'.clean ∧ t.globals <+: t'.globals := by
  cases o with
  | ok v => have r := handler_run_resumes_clean fuel code t t' v hc h; exact ⟨⟨r.1, r.2.1⟩, r.2.2⟩
  | error e => have r := failed_run_leaves_clean_partial fuel code t t' e hc h; exact ⟨⟨r.1, r.2.1⟩, r.2.2⟩
  | panic => cases hb
  | outOfFuel => cases hb

/-- a program (`run_executable`): if it fails, the forms before the failing one completed, their definitions are
kept, and both stacks are empty -/
theorem failed_forms_keep_completed (fuel : Nat) (forms : List (List Code)) (t t' : Thread) (o : Outcome)
    (hc : t.clean) (h : runForms fuel forms t = (o, t')) (hb : o.benign = true) :
    t'.clean ∧ t.globals <+: t'.globals := by
  induction forms generalizing t with
  | nil =>
    simp [runForms] at h
    obtain ⟨_, rfl⟩ := h
    exact ⟨hc, List.prefix_refl _⟩
  | cons f rest ih =>
    unfold runForms at h
    split at h
    · rename_i v t1 he
      have r := execute_clean fuel f t t1 (.ok v) hc he rfl
      have rr := ih (t := t1) r.1 h
      exact ⟨rr.1, List.IsPrefix.trans r.2 rr.2⟩
    · rename_i r hne
      cases hr : execute fuel f t with
      | mk o1 t1 =>
        rw [hr] at h
        cases h
        exact execute_clean fuel f t t' o hc hr hb

/-- a whole history of evaluations on one engine, failing and succeeding ones interleaved: as long as no evaluation
ends in the bad-handler error (or runs out of fuel), the thread is clean after the history and every definition that
was executed is still there -/
theorem history_stays_clean (fuel : Nat) (hist : List (List (List Code))) (t t' : Thread) (os : List Outcome)
    (hc : t.clean) (h : runHistory fuel hist t = (os, t')) (hb : os.all Outcome.benign = true) :
    t'.clean ∧ t.globals <+: t'.globals := by
  induction hist generalizing t os with
  | nil =>
    simp [runHistory] at h
    obtain ⟨_, rfl⟩ := h
    exact ⟨hc, List.prefix_refl _⟩
  | cons p rest ih =>
    unfold runHistory at h
    cases hp : runForms fuel p t with
    | mk o1 t1 =>
      cases hr : runHistory fuel rest t1 with
      | mk os1 t2 =>
        rw [hp] at h
        simp only [hr] at h
        cases h
        simp only [List.all_cons, Bool.and_eq_true] at hb
        have r1 := failed_forms_keep_completed fuel p t t1 o1 hc hp hb.1
        have r2 := ih (t := t1) (os := os1) r1.1 hr hb.2
        exact ⟨r2.1, List.IsPrefix.trans r1.2 r2.2⟩

/-! ### non-vacuity of the recovery theorems -/

/-- `(define g0 1) (+ 1 (car 5))`-like: a definition, then an error two frames deep with operands on the stack -/
def progFail : List (List Code) :=
  [[.push 1, .define 0], [.push 7, .call [.push 8, .call [.push 9, .fail 42]]]]

example : (runForms 100 progFail {}).1 = .error 42 := by decide
example : (runForms 100 progFail {}).2.globals = [(0, 1)] := by decide
example : ((runForms 100 progFail {}).2.stack, (runForms 100 progFail {}).2.frames.length) = ([], 0) := by decide

/-- an error caught by a handler at the top level, then a second error that is not caught -/
def progHandled : List Code :=
  [.handle true [.pop, .push 5] [.push 1, .fail 3], .define 1, .push 2, .callcc [.push 3, .fail 4]]

example : (execute 100 progHandled {}).1 = .error 4 := by decide
example : (execute 100 progHandled {}).2.globals = [(1, 5)] := by decide
example : (execute 100 [.handle true [.pop, .push 5] [.push 1, .fail 3], .define 1] {}).1 = .ok 0 := by decide

/-! ### regression: the witness that refuted the full statement before /repo commit f4f0e66b -/

/-- `(list 1 (call-with-exception-handler list (lambda () (error "x"))))`: the handler is a built-in, not a closure.
It is rejected when it is installed. -/
def progBadHandler : List Code :=
  [.push 1, .call [.push 2, .push 3, .handle false [] [.push 4, .fail 9]]]

theorem regression_bad_handler :
    (execute 100 progBadHandler {}).1 = .error handlerTypeError ∧
    (execute 100 progBadHandler {}).2.frames.length = 0 ∧
    (execute 100 progBadHandler {}).2.stack = [] := by decide

/-- a frame that carries a non-closure handler all the same (installed by other means) is skipped by the unwind loop,
which then runs to its end: nothing stays behind -/
example : (unwind 9 { stack := [1, 2, 3, 4], popCount := 3 }
    [{ sp := 3, handler := some (false, []), mark := false, ret := [] }, { sp := 1, handler := none, mark := false, ret := [] }]) =
    .fail handlerTypeError { stack := [], frames := [], popCount := 1 } := rfl

/-! ## the build -/

/-- what a script can observe of the compiler state -/
def sameObservables {SM : Type} (s s' : BuildState SM) : Prop :=
  s'.symbols = s.symbols ∧ s'.modules = s.modules ∧ s'.metadata = s.metadata ∧ s'.macros = s.macros

/-- C07/C06 as stated: a program that fails to build changes nothing -/
def FailedBuildIsNoop : Prop :=
  ∀ {SM : Type} (ops : SymMapOps SM), RollBackSpec ops →
    ∀ (parseOk : Bool) (expand : List BuildOp) (defines : List Name) (refsResolve : Bool) (s s' : BuildState SM),
      build ops parseOk expand defines refsResolve s = (.err, s') → sameObservables s s'

/-- the part that holds: programs that do not define macros at their top level — whatever modules they required,
whatever they defined, wherever they failed (parser, expander, symbol resolution) -/
theorem failed_build_is_noop_partial {SM : Type} (ops : SymMapOps SM) (spec : RollBackSpec ops)
    (parseOk : Bool) (expand : List BuildOp) (defines : List Name) (refsResolve : Bool) (s s' : BuildState SM)
    (hm : expand.all (fun o => !o.isMacro) = true)
    (h : build ops parseOk expand defines refsResolve s = (.err, s')) : sameObservables s s' := by
  unfold build at h
  simp only at h
  split at h
  · cases h; exact ⟨rfl, rfl, rfl, rfl⟩
  · split at h
    · rename_i s2 he
      have f := expandOps_frame _ _ _ _ he
      cases h
      simp only [rollbackMetadata, f.2.2.1, f.2.1]
      exact ⟨f.1, rfl, rfl, f.2.2.2.2 hm⟩
    · rename_i s2 he
      have f := expandOps_frame _ _ _ _ he
      split at h
      · cases h
      · cases h
        simp only [rollbackMetadata, f.2.2.1, f.2.1]
        refine ⟨?_, rfl, rfl, f.2.2.2.2 hm⟩
        simp only [f.1]
        exact spec.restores _ _

/-- the list model of the symbol map used for the examples (`roll_back` = truncate) -/
def listOps : SymMapOps (List Name) :=
  { len := List.length, add := fun m n => m ++ [n], rollBack := fun m k => m.take k }

theorem listOps_spec : RollBackSpec listOps := by
  constructor
  intro m ns
  have key : ∀ (ns : List Name) (m : List Name), ns.foldl listOps.add m = m ++ ns := by
    intro ns
    induction ns with
    | nil => intro m; simp
    | cons n rest ih =>
      intro m
      rw [List.foldl_cons, ih]
      simp [listOps, List.append_assoc]
  rw [key]
  simp [listOps]

def emptyBuild : BuildState (List Name) :=
  { symbols := ["car"], modules := ["m0"], metadata := ["m0"], rollbackMetadata := [], rollbackModules := none,
    macros := ["cond"], sources := 0 }

/-- non-vacuity: a program that requires a module, defines two names and then fails to resolve a reference -/
example : (build listOps true [.requireModule "m1"] ["a", "b"] false emptyBuild).1 = .err := by decide
example : (build listOps true [.requireModule "m1"] ["a", "b"] false emptyBuild).2.symbols = ["car"] := by decide
example : (build listOps true [.requireModule "m1"] ["a", "b"] false emptyBuild).2.modules = ["m0"] := by decide

/-- `(define-syntax foo …) (undefined-thing 1)`: the build fails, `foo` stays defined (replayed on the real engine:
`(foo 1)` evaluates afterwards) -/
theorem counter_macro_survives :
    (build listOps true [.defineMacro "foo", .failExpand] [] true emptyBuild).1 = .err ∧
    (build listOps true [.defineMacro "foo", .failExpand] [] true emptyBuild).2.macros = ["cond", "foo"] := by decide

theorem not_FailedBuildIsNoop : ¬ FailedBuildIsNoop := by
  intro h
  have := h listOps listOps_spec true [.defineMacro "foo", .failExpand] [] true emptyBuild
    (build listOps true [.defineMacro "foo", .failExpand] [] true emptyBuild).2 (Prod.ext (by decide) rfl)
  have hm := this.2.2.2
  revert hm
  decide

end SteelVerif.C07
