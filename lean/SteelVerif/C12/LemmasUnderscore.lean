/-
C12 — the digit-separator leniency of `IntLiteral::from_str_radix` (its BigInt fallback is num-bigint's parser,
which skips `_`): it is inert on texts without `_`, and the reader never hands a slice with a `_` to the number
parser - only `string->number` can reach it.
-/
import SteelVerif.C12.LemmasSpan
namespace SteelVerif.C12

theorem filter_no_underscore (s : Text) (h : '_' ∉ s) : s.filter (· != '_') = s := by
  apply List.filter_eq_self.mpr
  intro c hc
  simp only [bne_iff_ne, ne_eq]
  intro hcu; subst hcu; exact h hc

theorem parseDigits_plus (r a : Nat) (cs : Text) : parseDigits r a ('+' :: cs) = none := by
  simp [parseDigits, digitVal]

theorem dropPlus_plain (s : Text) (hp : s.head? ≠ some '+') : dropPlus s = s := by
  unfold dropPlus
  split
  · simp at hp
  · rfl

theorem bigUintRadix_plain (r : Nat) (s : Text) (h : '_' ∉ s) (hp : s.head? ≠ some '+') :
    bigUintRadix r s = if s.isEmpty then none else parseDigits r 0 s := by
  unfold bigUintRadix
  rw [dropPlus_plain s hp, filter_no_underscore s h]
  cases s with
  | nil => rfl
  | cons c cs =>
    have : c ≠ '_' := by intro hc; subst hc; exact h (by simp)
    simp [this]

theorem bigUintRadix_pp (r : Nat) (cs : Text) : bigUintRadix r ('+' :: '+' :: cs) = none := by
  simp [bigUintRadix, dropPlus, parseDigits, digitVal]

theorem bigUintRadix_p (r : Nat) (cs : Text) (hp : cs.head? ≠ some '+') :
    bigUintRadix r ('+' :: cs) = bigUintRadix r cs := by
  have h1 : dropPlus ('+' :: cs) = cs := by
    have : (cs.head? == some '+') = false := by simpa using hp
    simp [dropPlus, this]
  unfold bigUintRadix
  rw [h1, dropPlus_plain cs hp]

/-- what the strict syntax rejects and holds no `_`, the fallback rejects too (unsigned part) -/
theorem bigUint_none (r : Nat) (cs : Text) (h : '_' ∉ cs) (hp : cs.head? ≠ some '+')
    (hst : (if cs.isEmpty then none else parseDigits r 0 cs) = none) : bigUintRadix r cs = none := by
  rw [bigUintRadix_plain r cs h hp]; exact hst

theorem parseIntStrict_other (r : Nat) (c : Char) (cs : Text) (h1 : c ≠ '+') (h2 : c ≠ '-') :
    parseIntStrict r (c :: cs) = (parseDigits r 0 (c :: cs)).map Int.ofNat := by
  unfold parseIntStrict
  split
  · rename_i heq; cases heq
  · rename_i heq; injection heq with a b; exact absurd a h1
  · rename_i heq; injection heq with a b; exact absurd a h2
  · rfl

theorem bigIntRadix_other (r : Nat) (c : Char) (cs : Text) (h2 : c ≠ '-') :
    bigIntRadix r (c :: cs) = (bigUintRadix r (c :: cs)).map Int.ofNat := by
  unfold bigIntRadix
  split
  · rename_i heq; injection heq with a b; exact absurd a h2
  · rfl

theorem ite_parse_none {r : Nat} {cs : Text} {f : Nat → Int}
    (hst : (if cs.isEmpty = true then none else (parseDigits r 0 cs).map f) = none) :
    (if cs.isEmpty = true then none else parseDigits r 0 cs) = none := by
  cases cs with
  | nil => rfl
  | cons d ds =>
    simp only [List.isEmpty_cons, Bool.false_eq_true, if_false] at hst ⊢
    cases hpd : parseDigits r 0 (d :: ds) with
    | none => rfl
    | some n => rw [hpd] at hst; simp at hst

/-- without a `_` the BigInt fallback accepts nothing the strict syntax rejects -/
theorem parseIntRadix_no_underscore (r : Nat) (s : Text) (h : '_' ∉ s) :
    parseIntRadix r s = parseIntStrict r s := by
  unfold parseIntRadix
  cases hst : parseIntStrict r s with
  | some i => rfl
  | none =>
    simp only
    split
    case isFalse => rfl
    case isTrue =>
    cases s with
    | nil => simp [bigIntRadix, bigUintRadix, dropPlus]
    | cons c cs =>
      have hcs : '_' ∉ cs := fun hm => h (List.mem_cons_of_mem _ hm)
      by_cases hc1 : c = '+'
      · subst hc1
        simp only [parseIntStrict] at hst
        rw [bigIntRadix_other r '+' cs (by decide)]
        by_cases hpp : cs.head? = some '+'
        · cases cs with
          | nil => simp at hpp
          | cons d ds =>
            simp only [List.head?_cons, Option.some.injEq] at hpp
            subst hpp
            rw [bigUintRadix_pp]; rfl
        · rw [bigUintRadix_p r cs hpp, bigUint_none r cs hcs hpp (ite_parse_none hst)]; rfl
      · by_cases hc2 : c = '-'
        · subst hc2
          simp only [parseIntStrict] at hst
          simp only [bigIntRadix]
          by_cases hpp : cs.head? = some '+'
          · simp [hpp]
          · have : (cs.head? == some '+') = false := by simpa using hpp
            simp only [this, Bool.false_eq_true, if_false]
            rw [bigUint_none r cs hcs hpp (ite_parse_none hst)]; rfl
        · rw [parseIntStrict_other r c cs hc1 hc2] at hst
          rw [bigIntRadix_other r c cs hc2]
          have hp : (c :: cs).head? ≠ some '+' := by simpa using hc1
          rw [bigUintRadix_plain r (c :: cs) h hp]
          simp only [List.isEmpty_cons, Bool.false_eq_true, if_false]
          cases hpd : parseDigits r 0 (c :: cs) with
          | none => rfl
          | some n => rw [hpd] at hst; simp at hst

theorem scanNum_numChars : ∀ (cs : Text), ∀ c ∈ (scanNum cs).1, isNumChar c = true := by
  intro cs
  induction cs with
  | nil => intro c hc; simp [scanNum] at hc
  | cons d ds ih =>
    intro c hc
    unfold scanNum at hc
    split at hc
    · rename_i hd
      simp only [List.mem_cons] at hc
      rcases hc with h | h
      · subst h; exact hd
      · exact ih c h
    · simp at hc

/-- the slice `read_number` hands to the number parser never contains a `_` (the scan stops at it): the
    digit-separator leniency of the BigInt fallback cannot be reached from the reader, only from `string->number` -/
theorem reader_number_slice_no_underscore (acc cs : Text) (h : '_' ∉ acc) : '_' ∉ acc ++ (scanNum cs).1 := by
  intro hm
  rcases List.mem_append.mp hm with h1 | h1
  · exact h h1
  · have := scanNum_numChars cs '_' h1
    simp [isNumChar, isDigit] at this

end SteelVerif.C12
