import SteelVerif.C12.Props
open SteelVerif.C12
#print axioms read_defined
