import SteelVerif.C12.Props
open SteelVerif.C12
#print axioms read_total_partial
#print axioms spans_in_bounds
#print axioms tokens_in_order
#print axioms read_write_partial
#print axioms read_write_partial_i
#print axioms read_write_partial_ii
#print axioms read_write_partial_iii
#print axioms read_write_partial_iv
#print axioms read_write_partial_v
#print axioms read_write_quote
#print axioms write_depth_balanced
#print axioms write_depth_balanced_seq
#print axioms sampleDatum_wfd
#print axioms counter_symbol_needs_quoting
#print axioms counter_empty_symbol
#print axioms counter_numeric_symbol
#print axioms counter_plus_symbol
#print axioms counter_alias
#print axioms counter_unquote
#print axioms not_ReadWrite
