/-
C12 — what `lexOne` makes of each written atom (followed by a delimiter).
-/
import SteelVerif.C12.LemmasNum
namespace SteelVerif.C12

/-- `lexOne` reads the token `t` from `text` followed by a delimiter, leaving the rest untouched -/
def LexesTo (text : Text) (t : Tok) : Prop :=
  ∀ rest p, delimStart rest = true → ∃ c cs, text ++ rest = c :: cs ∧ isWs c = false ∧
    (lexOne p c cs).res = .ok t ∧ (lexOne p c cs).rest = rest ∧ (lexOne p c cs).queued = none

theorem readNumber_ok (acc w rest : Text) (pos : Nat) (n : NumLit)
    (hw : ∀ c ∈ w, isNumChar c = true) (hr : delimStart rest = true)
    (hp : tryParseNumber (acc ++ w) = some (.ok n)) :
    readNumber acc pos (w ++ rest) = { res := .ok (.num n), pos := pos + utf8Len w, rest := rest } := by
  unfold readNumber
  rw [scanNum_append w rest hw hr]
  simp only [hp]
  cases rest with
  | nil => rfl
  | cons c r => simp [delimStart_numStop hr]

theorem lexOne_digit (p : Nat) (c : Char) (cs : Text) (hc : isDigit c = true) :
    lexOne p c cs = readNumber [] p (c :: cs) := by
  rcases isDigit_cases hc with h | h | h | h | h | h | h | h | h | h <;> subst h <;> rfl

theorem digit_not_ws {c : Char} (hc : isDigit c = true) : isWs c = false := by
  digit_cases hc

theorem lexesTo_int (i : Int) : LexesTo (writeInt i) (.num (.real (.int i))) := by
  intro rest p hr
  have hnum := writeInt_numChars i
  have htry := tryParseNumber_writeInt i
  obtain ⟨w, n, hw, hne, hp, h | h⟩ := writeInt_shape i
  · cases w with
    | nil => exact absurd rfl hne
    | cons c cs =>
      have hc := hw c (by simp)
      refine ⟨c, cs ++ rest, by rw [h.1]; rfl, digit_not_ws hc, ?_⟩
      rw [lexOne_digit p c _ hc]
      have := readNumber_ok [] (c :: cs) rest p _ (by rw [← h.1]; exact hnum) hr (by rw [← h.1]; exact htry)
      rw [show c :: (cs ++ rest) = (c :: cs) ++ rest from rfl, this]
      exact ⟨rfl, rfl, rfl⟩
  · refine ⟨'-', w ++ rest, by rw [h.1]; rfl, by decide, ?_⟩
    have hw' : ∀ c ∈ w, isNumChar c = true := fun c hc => digit_isNumChar (hw c hc)
    have : lexOne p '-' (w ++ rest) = readNumber ['-'] (p + 1) (w ++ rest) := rfl
    rw [this, readNumber_ok ['-'] w rest (p + 1) _ hw' hr
      (by show tryParseNumber ('-' :: w) = _; rw [← h.1]; exact htry)]
    exact ⟨rfl, rfl, rfl⟩

theorem lexesTo_rat (n : Int) (d : Nat) (hd : d ≠ 0) :
    LexesTo (writeInt n ++ '/' :: decDigits d) (.num (.real (.rat n (Int.ofNat d)))) := by
  intro rest p hr
  have hnum := rat_numChars n d
  have htry := tryParseNumber_rat n d hd
  obtain ⟨w, m, hw, hne, hp, h | h⟩ := writeInt_shape n
  · cases w with
    | nil => exact absurd rfl hne
    | cons c cs =>
      have hc := hw c (by simp)
      rw [h.1] at hnum htry ⊢
      refine ⟨c, cs ++ '/' :: decDigits d ++ rest, by simp, digit_not_ws hc, ?_⟩
      rw [lexOne_digit p c _ hc]
      have := readNumber_ok [] ((c :: cs) ++ '/' :: decDigits d) rest p _ hnum hr htry
      rw [show c :: (cs ++ '/' :: decDigits d ++ rest) = ((c :: cs) ++ '/' :: decDigits d) ++ rest by simp, this]
      exact ⟨rfl, rfl, rfl⟩
  · rw [h.1] at hnum htry ⊢
    refine ⟨'-', w ++ '/' :: decDigits d ++ rest, by simp, by decide, ?_⟩
    have hw' : ∀ c ∈ w ++ '/' :: decDigits d, isNumChar c = true := by
      intro c hc; exact hnum c (by simp at hc ⊢; right; exact hc)
    have : lexOne p '-' (w ++ '/' :: decDigits d ++ rest)
        = readNumber ['-'] (p + 1) ((w ++ '/' :: decDigits d) ++ rest) := by simp; rfl
    rw [this, readNumber_ok ['-'] (w ++ '/' :: decDigits d) rest (p + 1) _ hw' hr (by simpa using htry)]
    exact ⟨rfl, rfl, rfl⟩

end SteelVerif.C12

namespace SteelVerif.C12

/-! ## punctuation -/

theorem lexOne_open (p : Nat) (cs : Text) :
    lexOne p '(' cs = { res := .ok (.open_ .round none), pos := p + 1, rest := cs } := rfl

theorem lexOne_close (p : Nat) (cs : Text) :
    lexOne p ')' cs = { res := .ok (.close .round), pos := p + 1, rest := cs } := rfl

theorem lexOne_vecOpen (p : Nat) (cs : Text) :
    lexOne p '#' ('(' :: cs) = { res := .ok (.open_ .round (some .vector)), pos := p + 1 + 1, rest := cs } := rfl

theorem lexOne_bytesOpen (p : Nat) (cs : Text) :
    lexOne p '#' ('u' :: '8' :: '(' :: cs)
      = { res := .ok (.open_ .round (some .bytes)), pos := p + 1 + 2 + 1, rest := cs } := rfl

theorem lexOne_dot (p : Nat) (cs : Text) :
    lexOne p '.' (' ' :: cs) = { res := .ok .dot, pos := p + 1, rest := ' ' :: cs } := rfl

/-! ## byte vector elements `#xHH` -/

def isIntTok (r : Option (Except LexErrKind NumLit)) (i : Int) : Bool :=
  match r with
  | some (.ok (.real (.int j))) => j == i
  | _ => false

theorem isIntTok_eq {r : Option (Except LexErrKind NumLit)} {i : Int} (h : isIntTok r i = true) :
    r = some (.ok (.real (.int i))) := by
  unfold isIntTok at h
  split at h
  · simp at h; subst h; rfl
  · cases h

set_option maxRecDepth 100000 in
theorem bytesTok_all : ∀ b : Fin 256,
    isIntTok (tryParseNumber ('#' :: 'x' :: hexByte b.val)) (Int.ofNat b.val) = true := by
  decide

set_option maxRecDepth 100000 in
theorem hexByte_numChars_all : ∀ b : Fin 256, (hexByte b.val).all isNumChar = true := by
  decide

theorem lexesTo_byte (b : Nat) (hb : b < 256) :
    LexesTo ('#' :: 'x' :: hexByte b) (.num (.real (.int (Int.ofNat b)))) := by
  intro rest p hr
  refine ⟨'#', 'x' :: hexByte b ++ rest, rfl, by decide, ?_⟩
  have h1 : lexOne p '#' ('x' :: hexByte b ++ rest) = readNumber ['#', 'x'] (p + 1 + 1) (hexByte b ++ rest) := rfl
  have hn : ∀ c ∈ hexByte b, isNumChar c = true := by
    have := hexByte_numChars_all ⟨b, hb⟩
    simpa [List.all_eq_true] using this
  have ht := isIntTok_eq (bytesTok_all ⟨b, hb⟩)
  rw [h1, readNumber_ok ['#', 'x'] (hexByte b) rest _ _ hn hr ht]
  exact ⟨rfl, rfl, rfl⟩

/-! ## booleans -/

theorem scanHashAux_delim (rest : Text) (hr : delimStart rest = true) : scanHashAux false rest = ([], rest) := by
  cases rest with
  | nil => rfl
  | cons c r =>
    simp only [delimStart, Bool.or_eq_true, beq_iff_eq] at hr
    rcases hr with h | h <;> subst h <;> rfl

theorem lexesTo_true : LexesTo t!"#true" (.bool true) := by
  intro rest p hr
  refine ⟨'#', t!"true" ++ rest, rfl, by decide, ?_⟩
  have h1 : lexOne p '#' (t!"true" ++ rest) = readHash p (p + 1) (t!"true" ++ rest) := rfl
  have h2 : scanHash (t!"true" ++ rest) = (t!"true", rest) := by
    simp [scanHash, scanHashAux, isWs, scanHashAux_delim rest hr]
  rw [h1]
  unfold readHash
  rw [h2]
  exact ⟨rfl, rfl, rfl⟩

theorem lexesTo_false : LexesTo t!"#false" (.bool false) := by
  intro rest p hr
  refine ⟨'#', t!"false" ++ rest, rfl, by decide, ?_⟩
  have h1 : lexOne p '#' (t!"false" ++ rest) = readHash p (p + 1) (t!"false" ++ rest) := rfl
  have h2 : scanHash (t!"false" ++ rest) = (t!"false", rest) := by
    simp [scanHash, scanHashAux, isWs, scanHashAux_delim rest hr]
  rw [h1]
  unfold readHash
  rw [h2]
  exact ⟨rfl, rfl, rfl⟩

end SteelVerif.C12
