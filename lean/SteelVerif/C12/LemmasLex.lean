/-
C12 — what `lexOne` makes of each written atom (followed by a delimiter).
-/
import SteelVerif.C12.LemmasNum
namespace SteelVerif.C12

/-- `lexOne` reads the token `t` from `text` followed by a delimiter, leaving the rest untouched -/
def LexesTo (text : Text) (t : Tok) : Prop :=
  ∀ rest p, delimStart rest = true → ∃ c cs, text ++ rest = c :: cs ∧ isWs c = false ∧
    (lexOne p c cs).res = .ok t ∧ (lexOne p c cs).rest = rest ∧ (lexOne p c cs).queued = none

theorem readNumber_tok (acc w rest : Text) (pos : Nat) (n : NumLit)
    (hw : ∀ c ∈ w, isNumChar c = true) (hr : delimStart rest = true)
    (hp : tryParseNumber (acc ++ w) = some (.ok n)) :
    readNumber acc pos (w ++ rest) = { res := .ok (.num n), pos := pos + utf8Len w, rest := rest } := by
  unfold readNumber
  rw [scanNum_append w rest hw hr]
  simp only [hp]
  cases rest with
  | nil => rfl
  | cons c r => simp [delimStart_numStop hr]

theorem lexOne_digit (p : Nat) (c : Char) (cs : Text) (hc : isDigit c = true) :
    lexOne p c cs = readNumber [] p (c :: cs) := by
  rcases isDigit_cases hc with h | h | h | h | h | h | h | h | h | h <;> subst h <;> rfl

theorem digit_not_ws {c : Char} (hc : isDigit c = true) : isWs c = false := by
  digit_cases hc

theorem lexesTo_int (i : Int) : LexesTo (writeInt i) (.num (.real (.int i))) := by
  intro rest p hr
  have hnum := writeInt_numChars i
  have htry := tryParseNumber_writeInt i
  obtain ⟨w, n, hw, hne, hp, h | h⟩ := writeInt_shape i
  · cases w with
    | nil => exact absurd rfl hne
    | cons c cs =>
      have hc := hw c (by simp)
      refine ⟨c, cs ++ rest, by rw [h.1]; rfl, digit_not_ws hc, ?_⟩
      rw [lexOne_digit p c _ hc]
      have := readNumber_tok [] (c :: cs) rest p _ (by rw [← h.1]; exact hnum) hr (by rw [← h.1]; exact htry)
      rw [show c :: (cs ++ rest) = (c :: cs) ++ rest from rfl, this]
      exact ⟨rfl, rfl, rfl⟩
  · refine ⟨'-', w ++ rest, by rw [h.1]; rfl, by decide, ?_⟩
    have hw' : ∀ c ∈ w, isNumChar c = true := fun c hc => digit_isNumChar (hw c hc)
    have : lexOne p '-' (w ++ rest) = readNumber ['-'] (p + 1) (w ++ rest) := rfl
    rw [this, readNumber_tok ['-'] w rest (p + 1) _ hw' hr
      (by show tryParseNumber ('-' :: w) = _; rw [← h.1]; exact htry)]
    exact ⟨rfl, rfl, rfl⟩

theorem lexesTo_rat (n : Int) (d : Nat) (hd : d ≠ 0) :
    LexesTo (writeInt n ++ '/' :: decDigits d) (.num (.real (.rat n (Int.ofNat d)))) := by
  intro rest p hr
  have hnum := rat_numChars n d
  have htry := tryParseNumber_rat n d hd
  obtain ⟨w, m, hw, hne, hp, h | h⟩ := writeInt_shape n
  · cases w with
    | nil => exact absurd rfl hne
    | cons c cs =>
      have hc := hw c (by simp)
      rw [h.1] at hnum htry ⊢
      refine ⟨c, cs ++ '/' :: decDigits d ++ rest, by simp, digit_not_ws hc, ?_⟩
      rw [lexOne_digit p c _ hc]
      have := readNumber_tok [] ((c :: cs) ++ '/' :: decDigits d) rest p _ hnum hr htry
      rw [show c :: (cs ++ '/' :: decDigits d ++ rest) = ((c :: cs) ++ '/' :: decDigits d) ++ rest by simp, this]
      exact ⟨rfl, rfl, rfl⟩
  · rw [h.1] at hnum htry ⊢
    refine ⟨'-', w ++ '/' :: decDigits d ++ rest, by simp, by decide, ?_⟩
    have hw' : ∀ c ∈ w ++ '/' :: decDigits d, isNumChar c = true := by
      intro c hc; exact hnum c (by simp at hc ⊢; right; exact hc)
    have : lexOne p '-' (w ++ '/' :: decDigits d ++ rest)
        = readNumber ['-'] (p + 1) ((w ++ '/' :: decDigits d) ++ rest) := by simp; rfl
    rw [this, readNumber_tok ['-'] (w ++ '/' :: decDigits d) rest (p + 1) _ hw' hr (by simpa using htry)]
    exact ⟨rfl, rfl, rfl⟩

end SteelVerif.C12

namespace SteelVerif.C12

/-! ## punctuation -/

theorem lexOne_open (p : Nat) (cs : Text) :
    lexOne p '(' cs = { res := .ok (.open_ .round none), pos := p + 1, rest := cs } := rfl

theorem lexOne_close (p : Nat) (cs : Text) :
    lexOne p ')' cs = { res := .ok (.close .round), pos := p + 1, rest := cs } := rfl

theorem lexOne_vecOpen (p : Nat) (cs : Text) :
    lexOne p '#' ('(' :: cs) = { res := .ok (.open_ .round (some .vector)), pos := p + 1 + 1, rest := cs } := rfl

theorem lexOne_bytesOpen (p : Nat) (cs : Text) :
    lexOne p '#' ('u' :: '8' :: '(' :: cs)
      = { res := .ok (.open_ .round (some .bytes)), pos := p + 1 + 2 + 1, rest := cs } := rfl

theorem lexOne_dot (p : Nat) (cs : Text) :
    lexOne p '.' (' ' :: cs) = { res := .ok .dot, pos := p + 1, rest := ' ' :: cs } := rfl

/-! ## byte vector elements `#xHH` -/

def isIntTok (r : Option (Except LexErrKind NumLit)) (i : Int) : Bool :=
  match r with
  | some (.ok (.real (.int j))) => j == i
  | _ => false

theorem isIntTok_eq {r : Option (Except LexErrKind NumLit)} {i : Int} (h : isIntTok r i = true) :
    r = some (.ok (.real (.int i))) := by
  unfold isIntTok at h
  split at h
  · simp at h; subst h; rfl
  · cases h

set_option maxRecDepth 100000 in
theorem bytesTok_all : ∀ b : Fin 256,
    isIntTok (tryParseNumber ('#' :: 'x' :: hexByte b.val)) (Int.ofNat b.val) = true := by
  decide

set_option maxRecDepth 100000 in
theorem hexByte_numChars_all : ∀ b : Fin 256, (hexByte b.val).all isNumChar = true := by
  decide

theorem lexesTo_byte (b : Nat) (hb : b < 256) :
    LexesTo ('#' :: 'x' :: hexByte b) (.num (.real (.int (Int.ofNat b)))) := by
  intro rest p hr
  refine ⟨'#', 'x' :: hexByte b ++ rest, rfl, by decide, ?_⟩
  have h1 : lexOne p '#' ('x' :: hexByte b ++ rest) = readNumber ['#', 'x'] (p + 1 + 1) (hexByte b ++ rest) := rfl
  have hn : ∀ c ∈ hexByte b, isNumChar c = true := by
    have := hexByte_numChars_all ⟨b, hb⟩
    simpa [List.all_eq_true] using this
  have ht := isIntTok_eq (bytesTok_all ⟨b, hb⟩)
  rw [h1, readNumber_tok ['#', 'x'] (hexByte b) rest _ _ hn hr ht]
  exact ⟨rfl, rfl, rfl⟩

/-! ## booleans -/

theorem scanHashAux_delim (rest : Text) (hr : delimStart rest = true) : scanHashAux false rest = ([], rest) := by
  cases rest with
  | nil => rfl
  | cons c r =>
    simp only [delimStart, Bool.or_eq_true, beq_iff_eq] at hr
    rcases hr with h | h <;> subst h <;> rfl

theorem lexesTo_true : LexesTo t!"#true" (.bool true) := by
  intro rest p hr
  refine ⟨'#', t!"true" ++ rest, rfl, by decide, ?_⟩
  have h1 : lexOne p '#' (t!"true" ++ rest) = readHash p (p + 1) (t!"true" ++ rest) := rfl
  have h2 : scanHash (t!"true" ++ rest) = (t!"true", rest) := by
    simp [scanHash, scanHashAux, isWs, scanHashAux_delim rest hr]
  rw [h1]
  unfold readHash
  rw [h2]
  exact ⟨rfl, rfl, rfl⟩

theorem lexesTo_false : LexesTo t!"#false" (.bool false) := by
  intro rest p hr
  refine ⟨'#', t!"false" ++ rest, rfl, by decide, ?_⟩
  have h1 : lexOne p '#' (t!"false" ++ rest) = readHash p (p + 1) (t!"false" ++ rest) := rfl
  have h2 : scanHash (t!"false" ++ rest) = (t!"false", rest) := by
    simp [scanHash, scanHashAux, isWs, scanHashAux_delim rest hr]
  rw [h1]
  unfold readHash
  rw [h2]
  exact ⟨rfl, rfl, rfl⟩

end SteelVerif.C12

namespace SteelVerif.C12

/-! ## characters -/

def isHashPlain (c : Char) : Bool :=
  !(c == '\\' || c == '\'' || c == '`' || c == ',' || c == '(' || c == '[' || c == ')' || c == ']' || isWs c)

theorem scanHashAux_plain (w rest : Text) (hw : ∀ c ∈ w, isHashPlain c = true)
    (hr : delimStart rest = true) : scanHashAux false (w ++ rest) = (w, rest) := by
  induction w with
  | nil => exact scanHashAux_delim rest hr
  | cons c cs ih =>
    have hc := hw c (by simp)
    simp only [isHashPlain, Bool.not_eq_true', Bool.or_eq_false_iff] at hc
    obtain ⟨⟨⟨⟨⟨⟨⟨⟨h1, h2⟩, h3⟩, h4⟩, h5⟩, h6⟩, h7⟩, h8⟩, h9⟩ := hc
    have := ih (fun x hx => hw x (by simp [hx]))
    simp [scanHashAux, h1, h2, h3, h4, h5, h6, h7, h8, h9, this]

/-- `#\` followed by a name whose characters after the first are plain -/
theorem scanHash_charName (n0 : Char) (ntl rest : Text) (hw : ∀ c ∈ ntl, isHashPlain c = true)
    (hr : delimStart rest = true) :
    scanHash ('\\' :: n0 :: (ntl ++ rest)) = ('\\' :: n0 :: ntl, rest) := by
  simp [scanHash, scanHashAux, scanHashAux_plain ntl rest hw hr]

/-- the shape of `read_hash_value` on a character literal -/
theorem lexOne_char (p : Nat) (n0 : Char) (ntl rest : Text) (c : Char)
    (hw : ∀ x ∈ ntl, isHashPlain x = true) (hr : delimStart rest = true)
    (hname : parseCharName (n0 :: ntl) = .ok c) :
    (lexOne p '#' ('\\' :: n0 :: (ntl ++ rest))).res = .ok (.chr c) ∧
    (lexOne p '#' ('\\' :: n0 :: (ntl ++ rest))).rest = rest ∧
    (lexOne p '#' ('\\' :: n0 :: (ntl ++ rest))).queued = none := by
  have h1 : lexOne p '#' ('\\' :: n0 :: (ntl ++ rest)) = readHash p (p + 1) ('\\' :: n0 :: (ntl ++ rest)) := rfl
  rw [h1]
  unfold readHash
  rw [scanHash_charName n0 ntl rest hw hr]
  simp [hname]

theorem parseDigits_zeros (k : Nat) (ds : Text) : parseDigits 16 0 (List.replicate k '0' ++ ds) = parseDigits 16 0 ds := by
  induction k with
  | zero => simp
  | succ k ih =>
    rw [List.replicate_succ, List.cons_append]
    simp only [parseDigits]
    rw [show digitVal '0' = some 0 by decide]
    simpa using ih

theorem hexLower_mem (n : Nat) (c : Char) (h : c ∈ hexLower n) : ∃ k, k < 16 ∧ c = hexDigitLower k :=
  natDigits_mem 16 _ (by omega) n c h

theorem hex4_mem (n : Nat) (c : Char) (h : c ∈ hex4 n) : ∃ k, k < 16 ∧ c = hexDigitLower k := by
  unfold hex4 at h
  rcases List.mem_append.mp h with h | h
  · have := List.eq_of_mem_replicate h
    exact ⟨0, by omega, by rw [this]; rfl⟩
  · exact hexLower_mem n c h

theorem hexDigitLower_plain : ∀ k, k < 16 → isHashPlain (hexDigitLower k) = true := by decide

theorem hexDigitLower_ne : ∀ k, k < 16 →
    hexDigitLower k ≠ '{' ∧ hexDigitLower k ≠ '+' ∧ hexDigitLower k ≠ '}' ∧ hexStop (hexDigitLower k) = false ∧
    hexDigitLower k ≠ '"' ∧ hexDigitLower k ≠ '|' := by decide

theorem hex4_ne_nil (n : Nat) : hex4 n ≠ [] := by
  unfold hex4
  intro h
  have := (List.append_eq_nil_iff.mp h).2
  exact natDigits_ne_nil _ _ _ this

theorem parse_hex4 (n : Nat) : parseDigits 16 0 (hex4 n) = some n := by
  unfold hex4
  rw [parseDigits_zeros]
  exact parse_hexLower n

theorem parseHexU32_of (ds : Text) (n : Nat) (hne : ds ≠ []) (hplus : ds.head? ≠ some '+')
    (hp : parseDigits 16 0 ds = some n) (hn : n < 4294967296) : parseHexU32 ds = some n := by
  cases ds with
  | nil => exact absurd rfl hne
  | cons c cs =>
    have hc : c ≠ '+' := by intro h; subst h; simp at hplus
    unfold parseHexU32
    split
    · rename_i r heq; injection heq with a _; exact absurd a hc
    · simp [hp, hn]

theorem char_valid (c : Char) : validScalar c.toNat = true := by
  have h : c.toNat < 0xd800 ∨ (0xdfff < c.toNat ∧ c.toNat < 0x110000) := c.valid
  unfold validScalar
  simp only [Bool.or_eq_true, decide_eq_true_eq, Bool.and_eq_true]
  rcases h with h | h
  · left; exact h
  · right; exact ⟨by omega, h.2⟩

theorem char_lt (c : Char) : c.toNat < 4294967296 := by
  have h : c.toNat < 0xd800 ∨ (0xdfff < c.toNat ∧ c.toNat < 0x110000) := c.valid
  omega

theorem hexCharOf_of (ds : Text) (c : Char) (hne : ds ≠ []) (hplus : ds.head? ≠ some '+')
    (hp : parseDigits 16 0 ds = some c.toNat) : hexCharOf ds = .ok c := by
  unfold hexCharOf
  rw [parseHexU32_of ds c.toNat hne hplus hp (char_lt c)]
  simp [char_valid c, Char.ofNat_toNat]

theorem namedChar_u (h : Text) : namedChar ('u' :: h) = none := by
  simp [namedChar, eqIgnoreAsciiCase]

theorem namedChar_single (c : Char) : namedChar [c] = none := by
  simp [namedChar, eqIgnoreAsciiCase]

theorem parseCharName_hex (c : Char) : parseCharName ('u' :: hex4 c.toNat) = .ok c := by
  have hne := hex4_ne_nil c.toNat
  cases hh : hex4 c.toNat with
  | nil => exact absurd hh hne
  | cons h0 htl =>
    obtain ⟨k, hk, hk'⟩ := hex4_mem c.toNat h0 (by rw [hh]; simp)
    obtain ⟨e1, e2, _⟩ := hexDigitLower_ne k hk
    rw [← hk'] at e1 e2
    have hlen : utf8Len ('u' :: h0 :: htl) > 1 := by
      have h1 := length_le_utf8Len (h0 :: htl)
      have h2 := utf8Size_pos 'u'
      simp only [utf8Len, List.length_cons] at h1 ⊢
      omega
    have hpay : charPayload 'u' (h0 :: htl) ('u' :: h0 :: htl) = .ok (h0 :: htl) := by
      unfold charPayload
      split
      · rename_i body heq; injection heq with a _; exact absurd a e1
      · rfl
    have hhex : hexCharOf (h0 :: htl) = .ok c := by
      apply hexCharOf_of _ _ (by simp)
      · simp; exact e2
      · rw [← hh]; exact parse_hex4 _
    unfold parseCharName
    rw [namedChar_u]
    simp only [beq_self_eq_true, Bool.true_or, Bool.true_and, decide_eq_true_eq]
    rw [if_pos hlen, hpay]
    exact hhex

theorem parseCharName_single (c : Char) : parseCharName [c] = .ok c := by
  unfold parseCharName
  rw [namedChar_single]
  have : ((c == 'u' || c == 'x') && decide (utf8Len [c] > 1)) = false := by
    by_cases h1 : c = 'u'
    · subst h1; decide
    · by_cases h2 : c = 'x'
      · subst h2; decide
      · simp [h1, h2]
  simp [this]

end SteelVerif.C12

namespace SteelVerif.C12

theorem lexesTo_char (c : Char) : LexesTo (writeChar c) (.chr c) := by
  intro rest p hr
  -- every written form is `#\` n0 ntl with ntl plain and `parseCharName (n0 :: ntl) = ok c`
  suffices h : ∃ n0 ntl, writeChar c = '#' :: '\\' :: n0 :: ntl ∧ (∀ x ∈ ntl, isHashPlain x = true) ∧
      parseCharName (n0 :: ntl) = .ok c by
    obtain ⟨n0, ntl, hw, hpl, hname⟩ := h
    refine ⟨'#', '\\' :: n0 :: (ntl ++ rest), by rw [hw]; rfl, by decide, ?_⟩
    exact lexOne_char p n0 ntl rest c hpl hr hname
  unfold writeChar
  by_cases h1 : c = ' '
  · subst h1; exact ⟨'s', t!"pace", rfl, by decide, rfl⟩
  by_cases h2 : c.toNat = 0
  · have : c = Char.ofNat 0 := by rw [← h2]; exact (Char.ofNat_toNat c).symm
    subst this
    exact ⟨'n', t!"ull", rfl, by decide, rfl⟩
  by_cases h3 : c = '\t'
  · subst h3; exact ⟨'t', t!"ab", rfl, by decide, rfl⟩
  by_cases h4 : c = '\n'
  · subst h4; exact ⟨'n', t!"ewline", rfl, by decide, rfl⟩
  by_cases h5 : c = '\r'
  · subst h5; exact ⟨'r', t!"eturn", rfl, by decide, rfl⟩
  by_cases h6 : needsEsc c = true
  · refine ⟨'u', hex4 c.toNat, by simp [h1, h2, h3, h4, h5, h6], ?_, parseCharName_hex c⟩
    intro x hx
    obtain ⟨k, hk, rfl⟩ := hex4_mem _ _ hx
    exact hexDigitLower_plain k hk
  · refine ⟨c, [], by simp [h1, h2, h3, h4, h5, h6], by simp, parseCharName_single c⟩

end SteelVerif.C12

namespace SteelVerif.C12

/-! ## strings -/

theorem scanHex_digits (endCh delim : Char) (ds tail : Text)
    (hd : ∀ c ∈ ds, c ≠ endCh ∧ hexStop c = false ∧ c ≠ delim) :
    scanHex endCh delim (ds ++ endCh :: tail) = .done ds tail := by
  induction ds with
  | nil => simp [scanHex]
  | cons c cs ih =>
    obtain ⟨h1, h2, h3⟩ := hd c (by simp)
    have := ih (fun x hx => hd x (by simp [hx]))
    simp [scanHex, h1, h2, h3, this]

theorem hexLower_ne_nil (n : Nat) : hexLower n ≠ [] := natDigits_ne_nil _ _ _

/-- `\u{hex}` is read back as the character -/
theorem readEscape_unicode (c : Char) (pos : Nat) (tail : Text) :
    ∃ pos', readEscape .incompleteString '"' pos ('u' :: '{' :: (hexLower c.toNat ++ '}' :: tail))
      = { res := .ok (some c), pos := pos', rest := tail } := by
  have hscan : scanHex '}' '"' (hexLower c.toNat ++ '}' :: tail) = .done (hexLower c.toNat) tail := by
    apply scanHex_digits
    intro x hx
    obtain ⟨k, hk, rfl⟩ := hexLower_mem _ _ hx
    obtain ⟨_, _, e3, e4, e5, _⟩ := hexDigitLower_ne k hk
    exact ⟨e3, e4, e5⟩
  have hne := hexLower_ne_nil c.toNat
  have hplus : (hexLower c.toNat).head? ≠ some '+' := by
    cases hh : hexLower c.toNat with
    | nil => exact absurd hh hne
    | cons h0 htl =>
      obtain ⟨k, hk, hk'⟩ := hexLower_mem c.toNat h0 (by rw [hh]; simp)
      obtain ⟨_, e2, _⟩ := hexDigitLower_ne k hk
      simp; rw [hk']; exact e2
  have hp := parseHexU32_of _ _ hne hplus (parse_hexLower c.toNat) (char_lt c)
  refine ⟨pos + 1 + 1 + utf8Len (hexLower c.toNat) + 1, ?_⟩
  simp only [readEscape]
  simp [hexOpen, readHexEscape, hscan, hp, char_valid c, Char.ofNat_toNat]

/-- one written character of a string is read back as that character -/
theorem readStr_step (c : Char) (f pos : Nat) (buf tail : Text) :
    ∃ pos', readStr (f + 1) pos buf (escStrChar c ++ tail) = readStr f pos' (c :: buf) tail := by
  unfold escStrChar
  by_cases h1 : c = '"'
  · subst h1; exact ⟨_, by simp [readStr, readEscape]; rfl⟩
  by_cases h2 : c = '\\'
  · subst h2; exact ⟨_, by simp [readStr, readEscape]; rfl⟩
  by_cases h3 : c = '\n'
  · subst h3; exact ⟨_, by simp [readStr, readEscape]; rfl⟩
  by_cases h4 : c = '\r'
  · subst h4; exact ⟨_, by simp [readStr, readEscape]; rfl⟩
  by_cases h5 : c = '\t'
  · subst h5; exact ⟨_, by simp [readStr, readEscape]; rfl⟩
  by_cases h6 : c.toNat = 0
  · have : c = Char.ofNat 0 := by rw [← h6]; exact (Char.ofNat_toNat c).symm
    subst this; exact ⟨_, by simp [readStr, readEscape]; rfl⟩
  by_cases h7 : needsEsc c = true
  · obtain ⟨pos', hesc⟩ := readEscape_unicode c (pos + '\\'.utf8Size) tail
    refine ⟨pos', ?_⟩
    simp only [h1, h2, h3, h4, h5, h6, h7, beq_iff_eq, if_false, if_true, List.cons_append,
      List.append_assoc, readStr]
    simp [hesc]
  · refine ⟨pos + c.utf8Size, ?_⟩
    simp [h1, h2, h3, h4, h5, h6, h7, readStr]

theorem readStr_body (s : Text) : ∀ (f pos : Nat) (buf more : Text), s.length < f →
    ∃ pos', readStr f pos buf (writeStrBody s ++ '"' :: more)
      = { res := .ok (.str (buf.reverse ++ s)), pos := pos', rest := more } := by
  induction s with
  | nil =>
    intro f pos buf more hf
    cases f with
    | zero => omega
    | succ f => exact ⟨_, by simp [writeStrBody, readStr]; rfl⟩
  | cons c cs ih =>
    intro f pos buf more hf
    cases f with
    | zero => omega
    | succ f =>
      obtain ⟨pos1, h1⟩ := readStr_step c f pos buf (writeStrBody cs ++ '"' :: more)
      obtain ⟨pos2, h2⟩ := ih f pos1 (c :: buf) more (by simp at hf; omega)
      refine ⟨pos2, ?_⟩
      simp only [writeStrBody, List.append_assoc]
      rw [h1, h2]
      simp

theorem writeStrBody_length (s : Text) : s.length ≤ (writeStrBody s).length := by
  induction s with
  | nil => simp [writeStrBody]
  | cons c cs ih =>
    have : 1 ≤ (escStrChar c).length := by
      unfold escStrChar
      repeat (first | split | simp)
    simp only [writeStrBody, List.length_append, List.length_cons]
    omega

theorem lexesTo_str (s : Text) : LexesTo (writeStr s) (.str s) := by
  intro rest p hr
  refine ⟨'"', writeStrBody s ++ '"' :: rest, by simp [writeStr], by decide, ?_⟩
  have h1 : lexOne p '"' (writeStrBody s ++ '"' :: rest)
      = readStr ((writeStrBody s ++ '"' :: rest).length + 1) (p + 1) [] (writeStrBody s ++ '"' :: rest) := rfl
  have hlen : s.length < (writeStrBody s ++ '"' :: rest).length + 1 := by
    have := writeStrBody_length s
    simp only [List.length_append, List.length_cons]
    omega
  obtain ⟨pos', h2⟩ := readStr_body s _ (p + 1) [] rest hlen
  rw [h1, h2]
  exact ⟨by simp, rfl, rfl⟩

end SteelVerif.C12

namespace SteelVerif.C12

/-! ## symbols -/

/-- the token the lexer makes of a plain identifier -/
def symTok (s : Text) : Tok :=
  match kwOf s with
  | some t => t
  | none => .ident s

theorem plain_not_stop {c : Char} (h : isPlainChar c = true) :
    isWordStop c = false ∧ c ≠ '\\' ∧ c ≠ '|' := by
  simp only [isPlainChar, Bool.and_eq_true, Bool.not_eq_true', bne_iff_ne, ne_eq] at h
  exact ⟨h.1.1, h.1.2, h.2⟩

theorem scanWordAux_plain (w rest : Text) (hw : ∀ c ∈ w, isPlainChar c = true)
    (hr : delimStart rest = true) : scanWordAux false (w ++ rest) = (w, rest) := by
  induction w with
  | nil =>
    cases rest with
    | nil => rfl
    | cons c r =>
      simp only [delimStart, Bool.or_eq_true, beq_iff_eq] at hr
      rcases hr with h | h <;> subst h <;> rfl
  | cons c cs ih =>
    obtain ⟨h1, h2, _⟩ := plain_not_stop (hw c (by simp))
    have := ih (fun x hx => hw x (by simp [hx]))
    simp [scanWordAux, h1, h2, this]

theorem symOK_cons {s : Text} (h : symOK s = true) :
    ∃ c cs, s = c :: cs ∧ symStartOK c = true ∧ (∀ x ∈ cs, isPlainChar x = true) ∧ isAliased s = false := by
  cases s with
  | nil => simp [symOK] at h
  | cons c cs =>
    simp only [symOK, Bool.and_eq_true, List.all_eq_true, Bool.not_eq_true'] at h
    exact ⟨c, cs, rfl, h.1.1, h.1.2, h.2⟩

theorem symStart_facts {c : Char} (h : symStartOK c = true) :
    isPlainChar c = true ∧ c ≠ '#' ∧ c ≠ '+' ∧ c ≠ '-' ∧ c ≠ '.' ∧ isDigit c = false := by
  simp only [symStartOK, Bool.and_eq_true, bne_iff_ne, ne_eq, Bool.not_eq_true'] at h
  exact ⟨h.1.1.1.1.1, h.1.1.1.1.2, h.1.1.1.2, h.1.1.2, h.1.2, h.2⟩

theorem lexOne_symStart (p : Nat) (c : Char) (cs : Text) (h : symStartOK c = true) :
    lexOne p c cs = readWord [] p (c :: cs) := by
  obtain ⟨hp, h0, h1, h2, h3, h4⟩ := symStart_facts h
  obtain ⟨hs, _, _⟩ := plain_not_stop hp
  simp only [isWordStop, Bool.or_eq_false_iff, beq_eq_false_iff_ne, ne_eq] at hs
  obtain ⟨⟨⟨⟨⟨⟨⟨⟨⟨⟨⟨s1, s2⟩, s3⟩, s4⟩, s5⟩, s6⟩, _⟩, s8⟩, s9⟩, s10⟩, s11⟩, s12⟩ := hs
  simp [lexOne, s1, s2, s3, s4, s5, s6, s8, s9, s10, s11, s12, h0, h1, h2, h3, h4]

theorem symStart_not_ws {c : Char} (h : symStartOK c = true) : isWs c = false := by
  obtain ⟨hp, _⟩ := symStart_facts h
  obtain ⟨hs, _, _⟩ := plain_not_stop hp
  simp only [isWordStop, Bool.or_eq_false_iff] at hs
  exact hs.1.1.1.1.1.2

theorem lexesTo_sym (s : Text) (h : symOK s = true) : LexesTo s (symTok s) := by
  intro rest p hr
  obtain ⟨c, cs, rfl, hc, hcs, _⟩ := symOK_cons h
  refine ⟨c, cs ++ rest, rfl, symStart_not_ws hc, ?_⟩
  rw [lexOne_symStart p c _ hc]
  obtain ⟨hcp, _, hplus, _⟩ := symStart_facts hc
  obtain ⟨_, _, hbar⟩ := plain_not_stop hcp
  have hscan : scanWord ((c :: cs) ++ rest) = (c :: cs, rest) :=
    scanWordAux_plain (c :: cs) rest (by intro x hx; rcases List.mem_cons.mp hx with h | h; (subst h; exact hcp); exact hcs x h) hr
  have hw : readWord [] p (c :: (cs ++ rest)) =
      (match wordToken (c :: cs) false [] with
       | .ok (t, q) => { res := .ok t, pos := p + utf8Len (c :: cs), rest := rest, queued := q }
       | .error k => { res := .error k, pos := p + utf8Len (c :: cs), rest := rest }) := by
    unfold readWord
    split
    · rename_i cs1 heq; injection heq with a _; exact absurd a hbar
    · rw [show c :: (cs ++ rest) = (c :: cs) ++ rest from rfl, hscan]
      rfl
  rw [hw]
  unfold wordToken symTok
  cases kwOf (c :: cs) with
  | some t => exact ⟨rfl, rfl, rfl⟩
  | none =>
    simp [hplus]

/-- every keyword spelling converts back to the symbol of that spelling, except the aliases -/
def kwEntryOK (e : Text × Tok) : Bool :=
  (match atomToDatum e.2 with
   | .sym n => n == e.1
   | _ => false) || isAliased e.1 || e.1.head? == some '#' || e.1.head? == some '.'

theorem kwTable_ok : ∀ e ∈ kwTable, kwEntryOK e = true := by decide

theorem atomToDatum_symTok (s : Text) (h : symOK s = true) : atomToDatum (symTok s) = .sym s := by
  obtain ⟨c, cs, rfl, hc, _, hal⟩ := symOK_cons h
  obtain ⟨_, hhash, _, _, hdot, _⟩ := symStart_facts hc
  unfold symTok
  cases hk : kwOf (c :: cs) with
  | none => rfl
  | some t =>
    unfold kwOf at hk
    cases hf : kwTable.find? (fun e => e.1 == c :: cs) with
    | none => rw [hf] at hk; cases hk
    | some e =>
      rw [hf] at hk
      simp only [Option.map_some, Option.some.injEq] at hk
      have hmem := List.mem_of_find?_eq_some hf
      have hname : e.1 = c :: cs := by
        have := List.find?_some hf
        exact eq_of_beq this
      have hok := kwTable_ok e hmem
      unfold kwEntryOK at hok
      rw [hname] at hok
      simp only [hal, List.head?_cons, Option.some.injEq, Bool.or_false, Bool.or_eq_true,
        beq_iff_eq, hhash, hdot] at hok
      rw [← hk]
      revert hok
      cases atomToDatum e.2 <;> simp

end SteelVerif.C12
