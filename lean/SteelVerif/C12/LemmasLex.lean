/-
C12 — what `lexOne` makes of each written atom (followed by a delimiter).
-/
import SteelVerif.C12.LemmasNum
namespace SteelVerif.C12

/-- `lexOne` reads the token `t` from `text` followed by a delimiter, leaving the rest untouched -/
def LexesTo (text : Text) (t : Tok) : Prop :=
  ∀ rest p, delimStart rest = true → ∃ c cs, text ++ rest = c :: cs ∧ isWs c = false ∧
    (lexOne p c cs).res = .ok t ∧ (lexOne p c cs).rest = rest ∧ (lexOne p c cs).queued = none

theorem readNumber_ok (acc w rest : Text) (pos : Nat) (n : NumLit)
    (hw : ∀ c ∈ w, isNumChar c = true) (hr : delimStart rest = true)
    (hp : tryParseNumber (acc ++ w) = some (.ok n)) :
    readNumber acc pos (w ++ rest) = { res := .ok (.num n), pos := pos + utf8Len w, rest := rest } := by
  unfold readNumber
  rw [scanNum_append w rest hw hr]
  simp only [hp]
  cases rest with
  | nil => rfl
  | cons c r => simp [delimStart_numStop hr]

theorem lexOne_digit (p : Nat) (c : Char) (cs : Text) (hc : isDigit c = true) :
    lexOne p c cs = readNumber [] p (c :: cs) := by
  rcases isDigit_cases hc with h | h | h | h | h | h | h | h | h | h <;> subst h <;> rfl

theorem digit_not_ws {c : Char} (hc : isDigit c = true) : isWs c = false := by
  digit_cases hc

theorem lexesTo_int (i : Int) : LexesTo (writeInt i) (.num (.real (.int i))) := by
  intro rest p hr
  have hnum := writeInt_numChars i
  have htry := tryParseNumber_writeInt i
  obtain ⟨w, n, hw, hne, hp, h | h⟩ := writeInt_shape i
  · cases w with
    | nil => exact absurd rfl hne
    | cons c cs =>
      have hc := hw c (by simp)
      refine ⟨c, cs ++ rest, by rw [h.1]; rfl, digit_not_ws hc, ?_⟩
      rw [lexOne_digit p c _ hc]
      have := readNumber_ok [] (c :: cs) rest p _ (by rw [← h.1]; exact hnum) hr (by rw [← h.1]; exact htry)
      rw [show c :: (cs ++ rest) = (c :: cs) ++ rest from rfl, this]
      exact ⟨rfl, rfl, rfl⟩
  · refine ⟨'-', w ++ rest, by rw [h.1]; rfl, by decide, ?_⟩
    have hw' : ∀ c ∈ w, isNumChar c = true := fun c hc => digit_isNumChar (hw c hc)
    have : lexOne p '-' (w ++ rest) = readNumber ['-'] (p + 1) (w ++ rest) := rfl
    rw [this, readNumber_ok ['-'] w rest (p + 1) _ hw' hr
      (by show tryParseNumber ('-' :: w) = _; rw [← h.1]; exact htry)]
    exact ⟨rfl, rfl, rfl⟩

theorem lexesTo_rat (n : Int) (d : Nat) (hd : d ≠ 0) :
    LexesTo (writeInt n ++ '/' :: decDigits d) (.num (.real (.rat n (Int.ofNat d)))) := by
  intro rest p hr
  have hnum := rat_numChars n d
  have htry := tryParseNumber_rat n d hd
  obtain ⟨w, m, hw, hne, hp, h | h⟩ := writeInt_shape n
  · cases w with
    | nil => exact absurd rfl hne
    | cons c cs =>
      have hc := hw c (by simp)
      rw [h.1] at hnum htry ⊢
      refine ⟨c, cs ++ '/' :: decDigits d ++ rest, by simp, digit_not_ws hc, ?_⟩
      rw [lexOne_digit p c _ hc]
      have := readNumber_ok [] ((c :: cs) ++ '/' :: decDigits d) rest p _ hnum hr htry
      rw [show c :: (cs ++ '/' :: decDigits d ++ rest) = ((c :: cs) ++ '/' :: decDigits d) ++ rest by simp, this]
      exact ⟨rfl, rfl, rfl⟩
  · rw [h.1] at hnum htry ⊢
    refine ⟨'-', w ++ '/' :: decDigits d ++ rest, by simp, by decide, ?_⟩
    have hw' : ∀ c ∈ w ++ '/' :: decDigits d, isNumChar c = true := by
      intro c hc; exact hnum c (by simp at hc ⊢; right; exact hc)
    have : lexOne p '-' (w ++ '/' :: decDigits d ++ rest)
        = readNumber ['-'] (p + 1) ((w ++ '/' :: decDigits d) ++ rest) := by simp; rfl
    rw [this, readNumber_ok ['-'] (w ++ '/' :: decDigits d) rest (p + 1) _ hw' hr (by simpa using htry)]
    exact ⟨rfl, rfl, rfl⟩

end SteelVerif.C12

namespace SteelVerif.C12

/-! ## punctuation -/

theorem lexOne_open (p : Nat) (cs : Text) :
    lexOne p '(' cs = { res := .ok (.open_ .round none), pos := p + 1, rest := cs } := rfl

theorem lexOne_close (p : Nat) (cs : Text) :
    lexOne p ')' cs = { res := .ok (.close .round), pos := p + 1, rest := cs } := rfl

theorem lexOne_vecOpen (p : Nat) (cs : Text) :
    lexOne p '#' ('(' :: cs) = { res := .ok (.open_ .round (some .vector)), pos := p + 1 + 1, rest := cs } := rfl

theorem lexOne_bytesOpen (p : Nat) (cs : Text) :
    lexOne p '#' ('u' :: '8' :: '(' :: cs)
      = { res := .ok (.open_ .round (some .bytes)), pos := p + 1 + 2 + 1, rest := cs } := rfl

theorem lexOne_dot (p : Nat) (cs : Text) :
    lexOne p '.' (' ' :: cs) = { res := .ok .dot, pos := p + 1, rest := ' ' :: cs } := rfl

/-! ## byte vector elements `#xHH` -/

def isIntTok (r : Option (Except LexErrKind NumLit)) (i : Int) : Bool :=
  match r with
  | some (.ok (.real (.int j))) => j == i
  | _ => false

theorem isIntTok_eq {r : Option (Except LexErrKind NumLit)} {i : Int} (h : isIntTok r i = true) :
    r = some (.ok (.real (.int i))) := by
  unfold isIntTok at h
  split at h
  · simp at h; subst h; rfl
  · cases h

set_option maxRecDepth 100000 in
theorem bytesTok_all : ∀ b : Fin 256,
    isIntTok (tryParseNumber ('#' :: 'x' :: hexByte b.val)) (Int.ofNat b.val) = true := by
  decide

set_option maxRecDepth 100000 in
theorem hexByte_numChars_all : ∀ b : Fin 256, (hexByte b.val).all isNumChar = true := by
  decide

theorem lexesTo_byte (b : Nat) (hb : b < 256) :
    LexesTo ('#' :: 'x' :: hexByte b) (.num (.real (.int (Int.ofNat b)))) := by
  intro rest p hr
  refine ⟨'#', 'x' :: hexByte b ++ rest, rfl, by decide, ?_⟩
  have h1 : lexOne p '#' ('x' :: hexByte b ++ rest) = readNumber ['#', 'x'] (p + 1 + 1) (hexByte b ++ rest) := rfl
  have hn : ∀ c ∈ hexByte b, isNumChar c = true := by
    have := hexByte_numChars_all ⟨b, hb⟩
    simpa [List.all_eq_true] using this
  have ht := isIntTok_eq (bytesTok_all ⟨b, hb⟩)
  rw [h1, readNumber_ok ['#', 'x'] (hexByte b) rest _ _ hn hr ht]
  exact ⟨rfl, rfl, rfl⟩

/-! ## booleans -/

theorem scanHashAux_delim (rest : Text) (hr : delimStart rest = true) : scanHashAux false rest = ([], rest) := by
  cases rest with
  | nil => rfl
  | cons c r =>
    simp only [delimStart, Bool.or_eq_true, beq_iff_eq] at hr
    rcases hr with h | h <;> subst h <;> rfl

theorem lexesTo_true : LexesTo t!"#true" (.bool true) := by
  intro rest p hr
  refine ⟨'#', t!"true" ++ rest, rfl, by decide, ?_⟩
  have h1 : lexOne p '#' (t!"true" ++ rest) = readHash p (p + 1) (t!"true" ++ rest) := rfl
  have h2 : scanHash (t!"true" ++ rest) = (t!"true", rest) := by
    simp [scanHash, scanHashAux, isWs, scanHashAux_delim rest hr]
  rw [h1]
  unfold readHash
  rw [h2]
  exact ⟨rfl, rfl, rfl⟩

theorem lexesTo_false : LexesTo t!"#false" (.bool false) := by
  intro rest p hr
  refine ⟨'#', t!"false" ++ rest, rfl, by decide, ?_⟩
  have h1 : lexOne p '#' (t!"false" ++ rest) = readHash p (p + 1) (t!"false" ++ rest) := rfl
  have h2 : scanHash (t!"false" ++ rest) = (t!"false", rest) := by
    simp [scanHash, scanHashAux, isWs, scanHashAux_delim rest hr]
  rw [h1]
  unfold readHash
  rw [h2]
  exact ⟨rfl, rfl, rfl⟩

end SteelVerif.C12

namespace SteelVerif.C12

/-! ## characters -/

def isHashPlain (c : Char) : Bool :=
  !(c == '\\' || c == '\'' || c == '`' || c == ',' || c == '(' || c == '[' || c == ')' || c == ']' || isWs c)

theorem scanHashAux_plain (w rest : Text) (hw : ∀ c ∈ w, isHashPlain c = true)
    (hr : delimStart rest = true) : scanHashAux false (w ++ rest) = (w, rest) := by
  induction w with
  | nil => exact scanHashAux_delim rest hr
  | cons c cs ih =>
    have hc := hw c (by simp)
    simp only [isHashPlain, Bool.not_eq_true', Bool.or_eq_false_iff] at hc
    obtain ⟨⟨⟨⟨⟨⟨⟨⟨h1, h2⟩, h3⟩, h4⟩, h5⟩, h6⟩, h7⟩, h8⟩, h9⟩ := hc
    have := ih (fun x hx => hw x (by simp [hx]))
    simp [scanHashAux, h1, h2, h3, h4, h5, h6, h7, h8, h9, this]

/-- `#\` followed by a name whose characters after the first are plain -/
theorem scanHash_charName (n0 : Char) (ntl rest : Text) (hw : ∀ c ∈ ntl, isHashPlain c = true)
    (hr : delimStart rest = true) :
    scanHash ('\\' :: n0 :: (ntl ++ rest)) = ('\\' :: n0 :: ntl, rest) := by
  simp [scanHash, scanHashAux, scanHashAux_plain ntl rest hw hr]

/-- the shape of `read_hash_value` on a character literal -/
theorem lexOne_char (p : Nat) (n0 : Char) (ntl rest : Text) (c : Char)
    (hw : ∀ x ∈ ntl, isHashPlain x = true) (hr : delimStart rest = true)
    (hname : parseCharName (n0 :: ntl) = .ok c) :
    (lexOne p '#' ('\\' :: n0 :: (ntl ++ rest))).res = .ok (.chr c) ∧
    (lexOne p '#' ('\\' :: n0 :: (ntl ++ rest))).rest = rest ∧
    (lexOne p '#' ('\\' :: n0 :: (ntl ++ rest))).queued = none := by
  have h1 : lexOne p '#' ('\\' :: n0 :: (ntl ++ rest)) = readHash p (p + 1) ('\\' :: n0 :: (ntl ++ rest)) := rfl
  rw [h1]
  unfold readHash
  rw [scanHash_charName n0 ntl rest hw hr]
  simp [hname]

theorem parseDigits_zeros (k : Nat) (ds : Text) : parseDigits 16 0 (List.replicate k '0' ++ ds) = parseDigits 16 0 ds := by
  induction k with
  | zero => simp
  | succ k ih =>
    rw [List.replicate_succ, List.cons_append]
    simp only [parseDigits]
    rw [show digitVal '0' = some 0 by decide]
    simpa using ih

theorem hexLower_mem (n : Nat) (c : Char) (h : c ∈ hexLower n) : ∃ k, k < 16 ∧ c = hexDigitLower k :=
  natDigits_mem 16 _ (by omega) n c h

theorem hex4_mem (n : Nat) (c : Char) (h : c ∈ hex4 n) : ∃ k, k < 16 ∧ c = hexDigitLower k := by
  unfold hex4 at h
  rcases List.mem_append.mp h with h | h
  · have := List.eq_of_mem_replicate h
    exact ⟨0, by omega, by rw [this]; rfl⟩
  · exact hexLower_mem n c h

theorem hexDigitLower_plain : ∀ k, k < 16 → isHashPlain (hexDigitLower k) = true := by decide

theorem hexDigitLower_ne : ∀ k, k < 16 →
    hexDigitLower k ≠ '{' ∧ hexDigitLower k ≠ '+' ∧ hexDigitLower k ≠ '}' ∧ hexStop (hexDigitLower k) = false ∧
    hexDigitLower k ≠ '"' ∧ hexDigitLower k ≠ '|' := by decide

theorem hex4_ne_nil (n : Nat) : hex4 n ≠ [] := by
  unfold hex4
  intro h
  have := (List.append_eq_nil_iff.mp h).2
  exact natDigits_ne_nil _ _ _ this

theorem parse_hex4 (n : Nat) : parseDigits 16 0 (hex4 n) = some n := by
  unfold hex4
  rw [parseDigits_zeros]
  exact parse_hexLower n

theorem parseHexU32_of (ds : Text) (n : Nat) (hne : ds ≠ []) (hplus : ds.head? ≠ some '+')
    (hp : parseDigits 16 0 ds = some n) (hn : n < 4294967296) : parseHexU32 ds = some n := by
  cases ds with
  | nil => exact absurd rfl hne
  | cons c cs =>
    have hc : c ≠ '+' := by intro h; subst h; simp at hplus
    unfold parseHexU32
    split
    · rename_i r heq; injection heq with a _; exact absurd a hc
    · simp [hp, hn]

theorem char_valid (c : Char) : validScalar c.toNat = true := by
  have h : c.toNat < 0xd800 ∨ (0xdfff < c.toNat ∧ c.toNat < 0x110000) := c.valid
  unfold validScalar
  simp only [Bool.or_eq_true, decide_eq_true_eq, Bool.and_eq_true]
  rcases h with h | h
  · left; exact h
  · right; exact ⟨by omega, h.2⟩

theorem char_lt (c : Char) : c.toNat < 4294967296 := by
  have h : c.toNat < 0xd800 ∨ (0xdfff < c.toNat ∧ c.toNat < 0x110000) := c.valid
  omega

theorem hexCharOf_of (ds : Text) (c : Char) (hne : ds ≠ []) (hplus : ds.head? ≠ some '+')
    (hp : parseDigits 16 0 ds = some c.toNat) : hexCharOf ds = .ok c := by
  unfold hexCharOf
  rw [parseHexU32_of ds c.toNat hne hplus hp (char_lt c)]
  simp [char_valid c, Char.ofNat_toNat]

theorem namedChar_u (h : Text) : namedChar ('u' :: h) = none := by
  simp [namedChar, eqIgnoreAsciiCase]

theorem namedChar_single (c : Char) : namedChar [c] = none := by
  simp [namedChar, eqIgnoreAsciiCase]

theorem parseCharName_hex (c : Char) : parseCharName ('u' :: hex4 c.toNat) = .ok c := by
  have hne := hex4_ne_nil c.toNat
  cases hh : hex4 c.toNat with
  | nil => exact absurd hh hne
  | cons h0 htl =>
    obtain ⟨k, hk, hk'⟩ := hex4_mem c.toNat h0 (by rw [hh]; simp)
    obtain ⟨e1, e2, _⟩ := hexDigitLower_ne k hk
    rw [← hk'] at e1 e2
    have hlen : utf8Len ('u' :: h0 :: htl) > 1 := by
      have h1 := length_le_utf8Len (h0 :: htl)
      have h2 := utf8Size_pos 'u'
      simp only [utf8Len, List.length_cons] at h1 ⊢
      omega
    have hpay : charPayload 'u' (h0 :: htl) ('u' :: h0 :: htl) = .ok (h0 :: htl) := by
      unfold charPayload
      split
      · rename_i body heq; injection heq with a _; exact absurd a e1
      · rfl
    have hhex : hexCharOf (h0 :: htl) = .ok c := by
      apply hexCharOf_of _ _ (by simp)
      · simp; exact e2
      · rw [← hh]; exact parse_hex4 _
    unfold parseCharName
    rw [namedChar_u]
    simp only [beq_self_eq_true, Bool.true_or, Bool.true_and, decide_eq_true_eq]
    rw [if_pos hlen, hpay]
    exact hhex

theorem parseCharName_single (c : Char) : parseCharName [c] = .ok c := by
  unfold parseCharName
  rw [namedChar_single]
  have : ((c == 'u' || c == 'x') && decide (utf8Len [c] > 1)) = false := by
    by_cases h1 : c = 'u'
    · subst h1; decide
    · by_cases h2 : c = 'x'
      · subst h2; decide
      · simp [h1, h2]
  simp [this]

end SteelVerif.C12
