/-
C12 driver: the model (`Lex`/`Parse`/`Write`) on the line protocol of the Rust harness `c12`.

  lex <hex>          -> tokens <kind>@<s>-<e> ... | E:<error>@<s>-<e>
  read <hex>         -> ok <n> <datum>... | err <kind> <s> <e>
  write <datum>      -> text=<hex>   (or `unmodelled` when the datum contains an inexact number)
  roundtrip <datum>  -> text=<hex> back=<ok n datum.. | err ..> equal=<true|false>
  printrt <datum>    -> the same for `(print d)` (text `'d`; equal = the datum read back is `(quote d)`)
  wstable            -> the code point ranges on which the model's `isWs` holds
Payload text is hex-encoded UTF-8.  Datum notation as in the harness:
  i<dec> | r<n>/<d> | t | f | c<hex code point> | s<hex utf8> | y<hex utf8> | F.. (inexact)
  L<n> d1..dn | V<n> d1..dn | B<hex bytes> | P car cdr | O<hex> (other)
Floats are printed as `F?<hex of the decimal text>` (the orchestrator converts them to bits).
-/
import SteelVerif.C12.Model
import SteelVerif.C12.Ast
namespace SteelVerif.C12

def hexNibble (n : Nat) : Char := hexDigitLower (n % 16)

def hexOfBytes (b : ByteArray) : String :=
  String.ofList (b.toList.foldr (fun x acc => hexNibble (x.toNat / 16) :: hexNibble x.toNat :: acc) [])

def hexOfText (t : Text) : String := hexOfBytes (String.ofList t).toUTF8

def nibbleVal (c : Char) : Option Nat :=
  match digitVal c with
  | some d => if d < 16 then some d else none
  | none => none

def unhexAux : List Char → ByteArray → Option ByteArray
  | [], acc => some acc
  | [_], _ => none
  | a :: b :: r, acc =>
    match nibbleVal a, nibbleVal b with
    | some x, some y => unhexAux r (acc.push (UInt8.ofNat (x * 16 + y)))
    | _, _ => none

def unhex (cs : List Char) : Option ByteArray := unhexAux cs ByteArray.empty

def textOfHex (cs : List Char) : Option Text :=
  match unhex cs with
  | none => none
  | some b => (String.fromUTF8? b).map String.toList

def natHex (n : Nat) : String := String.ofList (hexLower n)

/-! ### tokens -/

def showParen : Paren → String
  | .round => "round" | .square => "square" | .curly => "curly"

def showReal : RealLit → String
  | .int i => s!"int:{i}"
  | .rat n d => s!"rat:{n}/{d}"
  | .flo t => s!"flt?{hexOfText t}"
  | .inf neg => if neg then "flt:fff0000000000000" else "flt:7ff0000000000000"
  | .nan => "flt:nan"

def showNum : NumLit → String
  | .real r => showReal r
  | .complex a b => s!"cplx({showReal a},{showReal b})"
  | .polar a b => s!"polar({showReal a},{showReal b})"

def showTok : Tok → String
  | .open_ p none => s!"open:{showParen p}"
  | .open_ p (some .vector) => s!"open:{showParen p}:vec"
  | .open_ p (some .bytes) => s!"open:{showParen p}:bytes"
  | .close p => s!"close:{showParen p}"
  | .tick => "tick" | .quasi => "quasi" | .unquote => "unquote" | .splice => "splice"
  | .synQuote => "syn-quote" | .synQuasi => "syn-quasi" | .synUnquote => "syn-unquote"
  | .synSplice => "syn-splice"
  | .kw k => s!"kw:{String.ofList (kwName k)}"
  | .chr c => s!"char:{natHex c.toNat}"
  | .dcomment => "dcomment"
  | .comment _ => "comment"
  | .bool b => if b then "bool:t" else "bool:f"
  | .ident s => s!"id:{hexOfText s}"
  | .keyword s => s!"key:{hexOfText s}"
  | .num n => s!"num:{showNum n}"
  | .str s => s!"str:{hexOfText s}"
  | .dot => "dot"

def showLexErr : LexErrKind → String
  | .unexpectedChar c => s!"unexpected-char:{natHex c.toNat}"
  | .incompleteString => "incomplete-string"
  | .incompleteIdent => "incomplete-ident"
  | .incompleteComment => "incomplete-comment"
  | .invalidWs => "invalid-ws"
  | .invalidEscape c => s!"invalid-escape:{natHex c.toNat}"
  | .invalidChar => "invalid-char"
  | .zeroDenom => "zero-denom"
  | .unclosedHex c => s!"unclosed-hex:{natHex c.toNat}"
  | .invalidCharName => "invalid-char-name"
  | .invalidHexLiteral => "invalid-hex-literal"
  | .invalidCodePoint n => s!"invalid-codepoint:{natHex n}"
  | .outOfFuel => "MODEL-OUT-OF-FUEL"

def lexErrCode : LexErrKind → String
  | .unexpectedChar _ => "unexpected-char"
  | .invalidEscape _ => "invalid-escape"
  | .unclosedHex _ => "unclosed-hex"
  | .invalidCodePoint _ => "invalid-codepoint"
  | k => showLexErr k

def showItem : LexItem → String
  | .tok t s e => s!"{showTok t}@{s}-{e}"
  | .err k s e => s!"E:{showLexErr k}@{s}-{e}"

def doLex (src : Text) : String :=
  (lex src).foldl (fun acc it => acc ++ " " ++ showItem it) "tokens"

/-! ### data -/

mutual
partial def dumpDatum : Datum → String
  | .int i => s!"i{i}"
  | .rat n d => s!"r{n}/{d}"
  | .bool b => if b then "t" else "f"
  | .chr c => s!"c{natHex c.toNat}"
  | .str s => s!"s{hexOfText s}"
  | .sym s => s!"y{hexOfText s}"
  | .list xs => s!"L{xs.length}" ++ dumpSeq xs
  | .vec xs => s!"V{xs.length}" ++ dumpSeq xs
  | .pair a d => "P " ++ dumpDatum a ++ " " ++ dumpDatum d
  | .bytes bs => "B" ++ String.ofList (bs.foldr (fun b acc => hexNibble (b / 16) :: hexNibble b :: acc) [])
  | .flo (.flo t) => s!"F?{hexOfText t}"
  | .flo (.inf neg) => if neg then "Ffff0000000000000" else "F7ff0000000000000"
  | .flo _ => "Fnan"
  | .other w => s!"O{hexOfText w}"
partial def dumpSeq : List Datum → String
  | [] => ""
  | x :: xs => " " ++ dumpDatum x ++ dumpSeq xs
end

def showSyn : SynCode → String
  | .dotTwice => "dot-twice" | .dotFirst => "dot-first" | .dotInVector => "dot-in-vector"
  | .dotInBytes => "dot-in-bytes" | .dotAfterComment => "dot-after-comment" | .dotCdr => "dot-cdr"
  | .bytesRange => "bytes-range" | .badDatumComment => "bad-datum-comment"
  | .unfinishedComment => "unfinished-comment"
  | .lex k => lexErrCode k

def showReadErr (e : ReadErr) : String :=
  let k := match e.kind with
    | .eof => "eof"
    | .mismatched p => s!"mismatched:{showParen p}"
    | .unexpectedClose p =>
      let c := match p with
        | .round => ')' | .square => ']' | .curly => '}'
      s!"unexpected-close:{natHex c.toNat}"
    | .syntax c => s!"syntax:{showSyn c}"
    | .convert => "convert"
    | .unmodelled => "unmodelled"
    | .assertFailed => "panic:assert"
    | .outOfFuel => "MODEL-OUT-OF-FUEL"
  s!"err {k} {e.s} {e.e}"

def showRead : Except ReadErr (List Datum) → String
  | .ok ds => s!"ok {ds.length}" ++ dumpSeq ds
  | .error e => showReadErr e

def splitBlankAux : List Char → List Char → List (List Char) → List (List Char)
  | [], cur, acc => (if cur.isEmpty then acc else cur.reverse :: acc).reverse
  | c :: cs, cur, acc =>
    if c == ' ' then splitBlankAux cs [] (if cur.isEmpty then acc else cur.reverse :: acc)
    else splitBlankAux cs (c :: cur) acc

def splitBlank (cs : List Char) : List (List Char) := splitBlankAux cs [] []

def parseNatDec (cs : List Char) : Option Nat :=
  if cs.isEmpty then none else parseDigits 10 0 cs

def parseIntDec (cs : List Char) : Option Int :=
  match cs with
  | '-' :: r => (parseNatDec r).map (fun n => - Int.ofNat n)
  | r => (parseNatDec r).map Int.ofNat

def bytesOfHex (cs : List Char) : Option (List Nat) := (unhex cs).map (fun b => b.toList.map UInt8.toNat)

mutual
partial def buildDatum : List (List Char) → Option (Datum × List (List Char))
  | [] => none
  | tok :: rest =>
    match tok with
    | [] => none
    | tag :: body =>
      match tag with
      | 'i' => (parseIntDec body).map (fun i => (.int i, rest))
      | 'r' =>
        let (n, d) := body.span (· != '/')
        match parseIntDec n, parseIntDec (d.drop 1) with
        | some n, some d => some (normRat n d, rest)
        | _, _ => none
      | 't' => if body.isEmpty then some (.bool true, rest) else none
      | 'f' => if body.isEmpty then some (.bool false, rest) else none
      | 'c' =>
        match parseDigits 16 0 body with
        | some n => if validScalar n && !body.isEmpty then some (.chr (Char.ofNat n), rest) else none
        | none => none
      | 's' => (textOfHex body).map (fun t => (.str t, rest))
      | 'y' => (textOfHex body).map (fun t => (.sym t, rest))
      | 'F' => some (.flo .nan, rest)
      | 'B' => (bytesOfHex body).map (fun b => (.bytes b, rest))
      | 'L' => (parseNatDec body).bind (fun n => (buildSeq n rest).map (fun (xs, r) => (.list xs, r)))
      | 'V' => (parseNatDec body).bind (fun n => (buildSeq n rest).map (fun (xs, r) => (.vec xs, r)))
      | 'P' =>
        if !body.isEmpty then none else
        match buildDatum rest with
        | none => none
        | some (a, r1) =>
          match buildDatum r1 with
          | none => none
          | some (d, r2) =>
            -- `(cons a d)`: a list when `d` is a list
            match d with
            | .list xs => some (.list (a :: xs), r2)
            | _ => some (.pair a d, r2)
      | _ => none
partial def buildSeq : Nat → List (List Char) → Option (List Datum × List (List Char))
  | 0, toks => some ([], toks)
  | n + 1, toks =>
    match buildDatum toks with
    | none => none
    | some (d, r) => (buildSeq n r).map (fun (ds, r') => (d :: ds, r'))
end

mutual
partial def hasFloat : Datum → Bool
  | .flo _ => true
  | .other _ => true
  | .list xs => xs.any hasFloat
  | .vec xs => xs.any hasFloat
  | .pair a d => hasFloat a || hasFloat d
  | _ => false
end

mutual
partial def datumBeq : Datum → Datum → Bool
  | .int a, .int b => a == b
  | .rat a b, .rat c d => a == c && b == d
  | .bool a, .bool b => a == b
  | .chr a, .chr b => a == b
  | .str a, .str b => a == b
  | .sym a, .sym b => a == b
  | .list a, .list b => seqBeq a b
  | .vec a, .vec b => seqBeq a b
  | .pair a b, .pair c d => datumBeq a c && datumBeq b d
  | .bytes a, .bytes b => a == b
  | _, _ => false
partial def seqBeq : List Datum → List Datum → Bool
  | [], [] => true
  | x :: xs, y :: ys => datumBeq x y && seqBeq xs ys
  | _, _ => false
end

def doDatum (cs : List Char) (round : Bool) : String :=
  match buildDatum (splitBlank cs) with
  | some (d, []) =>
    if hasFloat d then "unmodelled"
    else
      -- the writer with its mutable nesting counter (equal to `write d` by `write_depth_balanced`)
      let text := (writeSt d 0).1
      if !round then s!"text={hexOfText text}"
      else
        let back := read text
        let eq := match back with
          | .ok [b] => datumBeq d b
          | _ => false
        s!"text={hexOfText text} back={(showRead back).replace " " "_"} equal={eq}"
  | _ => "bad datum"

/-- `printrt <datum>`: the model of `(print d)` and what the model reader makes of that text -/
def doPrint (cs : List Char) : String :=
  match buildDatum (splitBlank cs) with
  | some (d, []) =>
    if hasFloat d then "unmodelled"
    else
      let text := print d
      let back := read text
      let eq := match back with
        | .ok [.list [.sym q, b]] => q == t!"quote" && datumBeq d b
        | .ok [b] =>
          (match d with
            | .sym _ | .list _ | .pair _ _ => false
            | _ => datumBeq d b)
        | _ => false
      s!"text={hexOfText text} back={(showRead back).replace " " "_"} equal={eq}"
  | _ => "bad datum"

/-! ### programs: `ast <hex>` -/

def dumpAtomTok : Datum → String
  | .int i => s!"anum:int:{i}"
  | .rat n d => s!"anum:rat:{n}/{d}"
  | .bool b => if b then "abool:t" else "abool:f"
  | .chr c => s!"achar:{natHex c.toNat}"
  | .str s => s!"astr:{hexOfText s}"
  | .sym s =>
    if isKwName s then s!"akw:{String.ofList s}"
    else if (t!"#:").isPrefixOf s then s!"akey:{hexOfText s}"
    else s!"aid:{hexOfText s}"
  | .flo (.flo t) => s!"anum:flt?{hexOfText t}"
  | _ => "a?"

/-- the elements of a quoted improper list, flattened as `List::make_improper` does -/
partial def pairElems : Datum → List Datum
  | .pair a d => a :: pairElems d
  | d => [d]

mutual
/-- a quoted datum (an unlowered expression tree: lists, improper lists, vectors, atoms) -/
partial def dumpQuoted : Datum → List String
  | .list xs => s!"L{xs.length}" :: dumpQuoteds xs
  | .pair a d => let es := a :: pairElems d; s!"L{es.length}i" :: dumpQuoteds es
  | .vec xs => s!"V{xs.length}" :: dumpQuoteds xs
  | .bytes bs => s!"V{bs.length}b" :: bs.map (fun b => s!"anum:int:{b}")
  | d => [dumpAtomTok d]
partial def dumpQuoteds : List Datum → List String
  | [] => []
  | x :: xs => dumpQuoted x ++ dumpQuoteds xs
end

mutual
partial def dumpAst : Ast → List String
  | .atom d => [dumpAtomTok d]
  | .ifE c t e => "I" :: (dumpAst c ++ dumpAst t ++ dumpAst e)
  | .define n b => "D" :: s!"aid:{hexOfText n}" :: dumpAst b
  | .lambda args r b =>
    (s!"F{args.length}" ++ (if r then "r" else "")) :: (args.map (fun a => s!"aid:{hexOfText a}") ++ dumpAst b)
  | .begin es => s!"G{es.length}" :: dumpAsts es
  | .quote d => "Q" :: dumpQuoted d
  | .set v e => "S" :: (dumpAst v ++ dumpAst e)
  | .app es => s!"L{es.length}" :: dumpAsts es
partial def dumpAsts : List Ast → List String
  | [] => []
  | x :: xs => dumpAst x ++ dumpAsts xs
end

def joinWith (sep : String) : List String → String
  | [] => ""
  | [x] => x
  | x :: r => x ++ sep ++ joinWith sep r

def nlJoin : List Text → Text
  | [] => []
  | [x] => x
  | x :: r => x ++ '\n' :: nlJoin r

def doAst (src : Text) : String :=
  match parseM src with
  | .readErr e => showReadErr e
  | .lowerErr .syntax => "err lower-syntax 0 0"
  | .lowerErr .unmodelled => "unmodelled"
  | .ok as =>
    s!"ok {as.length} ast={joinWith "_" (dumpAsts as)} text={hexOfText (nlJoin (as.map prettyM))}"

def wsTable : String := Id.run do
  let mut out := ""
  let mut start : Option Nat := none
  for n in [0:0x110001] do
    let ws := n < 0x110000 && validScalar n && isWs (Char.ofNat n)
    match start, ws with
    | none, true => start := some n
    | some a, false =>
      out := out ++ s!"{natHex a} {natHex (n - 1)}\n"
      start := none
    | _, _ => pure ()
  return out

def handle (line : String) : String :=
  let cs := line.toList
  let (op, arg) := cs.span (· != ' ')
  let arg := arg.drop 1
  let opS := String.ofList op
  if opS == "lex" || opS == "read" then
    match textOfHex arg with
    | none => "bad hex"
    | some src => if opS == "lex" then doLex src else showRead (read src)
  else if opS == "ast" then
    match textOfHex arg with
    | none => "bad hex"
    | some src => doAst src
  else if opS == "write" then doDatum arg false
  else if opS == "roundtrip" then doDatum arg true
  else if opS == "printrt" then doPrint arg
  else "bad op"

partial def loop (stdin : IO.FS.Stream) (stdout : IO.FS.Stream) : IO Unit := do
  let line ← stdin.getLine
  if line.isEmpty then return
  let l := (line.toList.filter (fun c => c != '\n' && c != '\r'))
  let l := l.dropWhile (· == ' ')
  if !l.isEmpty && l.head? != some '#' then
    stdout.putStrLn (handle (String.ofList l))
    stdout.flush
  loop stdin stdout

end SteelVerif.C12

def main (args : List String) : IO Unit := do
  match args with
  | ["wstable"] => IO.print SteelVerif.C12.wsTable
  | _ =>
    let stdin ← IO.getStdin
    let stdout ← IO.getStdout
    SteelVerif.C12.loop stdin stdout
