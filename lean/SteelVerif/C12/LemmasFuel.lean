/-
C12 — fuel adequacy of the datum reader: with the fuel `read` gives them, the four mutually recursive parser
functions never answer `outOfFuel`; and the only ways to `unmodelled` are a `@doc` comment token and a polar
number literal.

The fuel of `pNext`/`pShort`/`pTop`/`pList` bounds the DEPTH of the call chain, not the number of steps (after a
nested call returns, the caller continues with its own fuel).  Each token consumed costs at most three nested
calls (`pTop` → `pShort` → `pNext` → `pTop`), so `3·(tokens left) + 3` is enough.
-/
import SteelVerif.C12.LemmasTotal
namespace SteelVerif.C12

/-- the artificial outcomes of the model: the fuel ran out (in the parser or, passed on, in the lexer), or the
    input uses something the model does not cover -/
def GaveUp (k : ReadErrKind) : Prop :=
  k = .outOfFuel ∨ k = .syntax (.lex .outOfFuel) ∨ k = .unmodelled

/-- a token-stream item that cannot make the parser give up: not the lexer's `outOfFuel`, not a `@doc` comment -/
def LexItem.plain : LexItem → Bool
  | .err .outOfFuel _ _ => false
  | .tok (.comment true) _ _ => false
  | _ => true

def ItemsPlain (toks : List LexItem) : Prop := ∀ it ∈ toks, it.plain = true

theorem itemsPlain_tail {it : LexItem} {l : List LexItem} (h : ItemsPlain (it :: l)) : ItemsPlain l :=
  fun x hx => h x (List.mem_cons_of_mem _ hx)

theorem itemsPlain_suffix {a b : List LexItem} (hs : a <:+ b) (h : ItemsPlain b) : ItemsPlain a :=
  fun x hx => h x (hs.subset hx)

/-- what a parser function started on `toks` guarantees: it leaves a suffix of its input, an error it reports is
    a genuine one, and (`strict`) a value costs at least one token -/
structure FuelOK (toks : List LexItem) (strict : Bool) (r : PRes) : Prop where
  suffix : r.rest <:+ toks
  genuine : ∀ e, r.val = some (.error e) → ¬ GaveUp e.kind
  progress : strict = true → ∀ v, r.val = some (.ok v) → r.rest.length < toks.length

theorem FuelOK.cons {toks : List LexItem} {item : LexItem} {b : Bool} {r : PRes} (h : FuelOK toks b r) :
    FuelOK (item :: toks) true r :=
  ⟨h.suffix.trans (List.suffix_cons _ _), h.genuine,
   fun _ _ _ => by have := h.suffix.length_le; simp only [List.length_cons]; omega⟩

theorem FuelOK.mono {a b : List LexItem} {s : Bool} {r : PRes} (hs : a <:+ b) (h : FuelOK a s r) : FuelOK b s r :=
  ⟨h.suffix.trans hs, h.genuine,
   fun hb v hv => by have := h.progress hb v hv; have := hs.length_le; omega⟩

theorem FuelOK.weak {a : List LexItem} {s : Bool} {r : PRes} (h : FuelOK a s r) : FuelOK a false r :=
  ⟨h.suffix, h.genuine, fun hb => by cases hb⟩

theorem fuelOK_err (toks : List LexItem) (b : Bool) (k : ReadErrKind) (s e : Nat) (st : PSt) (hk : ¬ GaveUp k) :
    FuelOK toks b ⟨some (.error ⟨k, s, e⟩), st, toks⟩ :=
  ⟨List.suffix_refl _, by intro e' h; cases h; exact hk, by intro _ v h; cases h⟩

theorem fuelOK_val (toks : List LexItem) (v : Except ReadErr PVal) (st : PSt)
    (hv : ∀ e, v = .error e → ¬ GaveUp e.kind) : FuelOK toks false ⟨some v, st, toks⟩ :=
  ⟨List.suffix_refl _, by intro e' h; cases h; exact hv _ rfl, by intro h; cases h⟩

theorem push_genuine (f : Frame) (d : Datum) (sp : Span) (b : Bool) (info : Option (List Datum × Bool))
    (e : ReadErr) (h : f.push d sp b info = .error e) : ¬ GaveUp e.kind := by
  unfold Frame.push at h
  split at h
  · cases h; intro hg; rcases hg with hg | hg | hg <;> cases hg
  · split at h
    · cases h; intro hg; rcases hg with hg | hg | hg <;> cases hg
    · split at h
      · cases h
      · split at h <;> cases h

theorem build_genuine (f : Frame) (close : Span) (e : ReadErr) (h : f.build close = .error e) : ¬ GaveUp e.kind := by
  unfold Frame.build at h
  split at h
  · cases h; intro hg; rcases hg with hg | hg | hg <;> cases hg
  · simp only at h
    split at h
    · cases h
    · cases h
    · split at h
      · unfold listVal at h; cases h
      · split at h
        · split at h <;> (unfold listVal at h; cases h)
        · cases h; intro hg; rcases hg with hg | hg | hg <;> cases hg

theorem lexErr_genuine (k : LexErrKind) (s e : Nat) (h : (LexItem.err k s e).plain = true) :
    ¬ GaveUp (lexErrToRead k s e).kind := by
  cases k <;> first
    | (simp [LexItem.plain] at h; done)
    | (intro hg; rcases hg with hg | hg | hg <;> simp [lexErrToRead] at hg)

theorem notGaveUp_simple {k : ReadErrKind} (h1 : k ≠ .outOfFuel) (h2 : k ≠ .syntax (.lex .outOfFuel))
    (h3 : k ≠ .unmodelled) : ¬ GaveUp k := by
  intro hg; rcases hg with hg | hg | hg
  · exact h1 hg
  · exact h2 hg
  · exact h3 hg

theorem wrapNext_genuine (r : Option (Except ReadErr PVal)) (sp : Span) (wrap : Datum → PVal)
    (hr : ∀ e, r = some (.error e) → ¬ GaveUp e.kind) :
    ∀ e, wrapNext r sp wrap = .error e → ¬ GaveUp e.kind := by
  intro e h
  unfold wrapNext at h
  split at h
  · unfold eofErr at h; cases h
    exact notGaveUp_simple (by simp) (by simp) (by simp)
  · cases h; exact hr _ rfl
  · cases h

/-- statement of fuel adequacy for the four parser functions at fuel `f` -/
def ParserFuel (f : Nat) : Prop :=
  (∀ st toks, ItemsPlain toks → 3 * toks.length + 2 ≤ f → FuelOK toks true (pNext f st toks)) ∧
  (∀ st kind n top sp toks, ItemsPlain toks → 3 * toks.length + 3 ≤ f →
      FuelOK toks false (pShort f st kind n top sp toks)) ∧
  (∀ st dcs toks, ItemsPlain toks → 3 * toks.length + 1 ≤ f → FuelOK toks true (pTop f st dcs toks)) ∧
  (∀ st stack cur last toks, ItemsPlain toks → 3 * toks.length + 1 ≤ f →
      FuelOK toks false (pList f st stack cur last toks))

theorem finishTick_fuel {toks : List LexItem} (kind : Nat) (r : PRes) (v : Except ReadErr PVal) (sp : Span)
    (fixSt : PSt → PSt) (hr : r.rest <:+ toks) (hv : ∀ e, v = .error e → ¬ GaveUp e.kind) :
    FuelOK toks false (finishTick kind r v sp fixSt) := by
  unfold finishTick
  simp only
  split
  · exact ⟨hr, by intro e h; cases h; exact hv _ rfl, by intro h; cases h⟩
  · exact ⟨hr, by intro e h; cases h; exact notGaveUp_simple (by simp) (by simp) (by simp), by intro h; cases h⟩

theorem pShort_fuel (f : Nat) (ih : ParserFuel f) :
    ∀ st kind n top sp toks, ItemsPlain toks → 3 * toks.length + 3 ≤ f + 1 →
      FuelOK toks false (pShort (f + 1) st kind n top sp toks) := by
  intro st kind n top sp toks hp hf
  obtain ⟨ihN, _, _, _⟩ := ih
  have hN : ∀ st', FuelOK toks true (pNext f st' toks) := fun st' => ihN st' toks hp (by omega)
  unfold pShort
  split
  · exact ⟨(hN _).suffix, fun e h => wrapNext_genuine _ sp _ (hN _).genuine e (Option.some.inj h),
      by intro h; cases h⟩
  · split
    · simp only
      exact finishTick_fuel 0 _ _ sp _ (hN _).suffix (wrapNext_genuine _ sp _ (hN _).genuine)
    · split
      · simp only
        exact finishTick_fuel 2 _ _ sp _ (hN _).suffix (wrapNext_genuine _ sp _ (hN _).genuine)
      · simp only
        exact finishTick_fuel kind _ _ sp _ (hN _).suffix (wrapNext_genuine _ sp _ (hN _).genuine)

/-- `maybe_return!` -/
theorem finish_fuel {toks : List LexItem} (f : Nat) (dcs : List Span) (r : PRes) (b : Bool)
    (ihT : ∀ st dcs toks, ItemsPlain toks → 3 * toks.length + 1 ≤ f → FuelOK toks true (pTop f st dcs toks))
    (hp : ItemsPlain toks) (hf : 3 * toks.length + 1 ≤ f) (hr : FuelOK toks b r) :
    FuelOK toks false (match r.val with
      | some (.ok _) =>
        match dcs with
        | _ :: dcs' => pTop f r.st dcs' r.rest
        | [] => r
      | _ => r) := by
  split
  · split
    · have hl := hr.suffix.length_le
      exact ((ihT r.st _ r.rest (itemsPlain_suffix hr.suffix hp) (by omega)).mono hr.suffix).weak
    · exact hr.weak
  · exact hr.weak

theorem pTop_fuel (f : Nat) (ih : ParserFuel f) :
    ∀ st dcs toks, ItemsPlain toks → 3 * toks.length + 1 ≤ f + 1 → FuelOK toks true (pTop (f + 1) st dcs toks) := by
  intro st dcs toks hp hf
  obtain ⟨ihN, ihS, ihT, ihL⟩ := ih
  cases toks with
  | nil =>
    cases dcs with
    | nil =>
      simp only [pTop]
      exact ⟨List.suffix_refl _, (by intro e h; cases h), (by intro _ v h; cases h)⟩
    | cons sp dcs' =>
      simp only [pTop]
      exact fuelOK_err _ _ _ _ _ _ (notGaveUp_simple (by simp) (by simp) (by simp))
  | cons item toks =>
    have hp' := itemsPlain_tail hp
    have hpl := hp item (List.mem_cons_self ..)
    simp only [List.length_cons] at hf
    cases item with
    | err k s e =>
      simp only [pTop]
      exact (fuelOK_err toks false _ _ _ _ (lexErr_genuine k s e hpl)).cons
    | tok t s e =>
      have hfin := fun (r : PRes) (b : Bool) (hr : FuelOK toks b r) =>
        (finish_fuel f dcs r b ihT hp' (by omega) hr).cons (item := .tok t s e)
      have hS := fun st kind n top sp => ihS st kind n top sp toks hp' (by omega)
      have hatom : ∀ (d : Datum), FuelOK toks false ⟨some (.ok { d := d, sp := (s, e) }), st, toks⟩ :=
        fun d => fuelOK_val _ _ _ (by intro e h; cases h)
      cases t with
      | comment doc =>
        cases doc with
        | true => simp [LexItem.plain] at hpl
        | false =>
          simp only [pTop]
          exact (ihT _ _ _ hp' (by omega)).cons
      | dcomment =>
        simp only [pTop]
        exact (ihT _ _ _ hp' (by omega)).cons
      | synQuote => simp only [pTop]; exact hfin _ _ (hS _ _ _ _ _)
      | synQuasi => simp only [pTop]; exact hfin _ _ (hS _ _ _ _ _)
      | synUnquote => simp only [pTop]; exact hfin _ _ (hS _ _ _ _ _)
      | synSplice => simp only [pTop]; exact hfin _ _ (hS _ _ _ _ _)
      | tick => simp only [pTop]; exact hfin _ _ (hS _ _ _ _ _)
      | unquote => simp only [pTop]; exact hfin _ _ (hS _ _ _ _ _)
      | quasi => simp only [pTop]; exact hfin _ _ (hS _ _ _ _ _)
      | splice => simp only [pTop]; exact hfin _ _ (hS _ _ _ _ _)
      | open_ p m =>
        simp only [pTop]
        exact hfin _ _ (ihL _ _ _ _ _ hp' (by omega))
      | close p =>
        simp only [pTop]
        exact (fuelOK_err toks false _ _ _ _ (notGaveUp_simple (by simp) (by simp) (by simp))).cons
      | kw k => simp only [pTop]; exact hfin _ _ (hatom _)
      | chr c => simp only [pTop]; exact hfin _ _ (hatom _)
      | bool b => simp only [pTop]; exact hfin _ _ (hatom _)
      | ident x => simp only [pTop]; exact hfin _ _ (hatom _)
      | keyword x => simp only [pTop]; exact hfin _ _ (hatom _)
      | num x => simp only [pTop]; exact hfin _ _ (hatom _)
      | str x => simp only [pTop]; exact hfin _ _ (hatom _)
      | dot => simp only [pTop]; exact hfin _ _ (hatom _)

/-- pushing a value into a frame: a genuine error, or the continuation -/
theorem push_then_fuel {toks : List LexItem} (cur : Frame) (d : Datum) (sp : Span) (b : Bool)
    (info : Option (List Datum × Bool)) (k : Frame → PRes) (st : PSt)
    (hk : ∀ cur', FuelOK toks false (k cur')) :
    FuelOK toks false (match cur.push d sp b info with
      | .error e => ⟨some (.error e), st, toks⟩
      | .ok cur' => k cur') := by
  cases hpush : cur.push d sp b info with
  | error e => exact fuelOK_val _ _ _ (by intro e' h; cases h; exact push_genuine _ _ _ _ _ _ hpush)
  | ok cur' => exact hk cur'

theorem pList_fuel (f : Nat) (ih : ParserFuel f) :
    ∀ st stack cur last toks, ItemsPlain toks → 3 * toks.length + 1 ≤ f + 1 →
      FuelOK toks false (pList (f + 1) st stack cur last toks) := by
  intro st stack cur last toks hp hf
  obtain ⟨ihN, ihS, ihT, ihL⟩ := ih
  have hsimple : ∀ {k : ReadErrKind}, k ≠ .outOfFuel → k ≠ .syntax (.lex .outOfFuel) → k ≠ .unmodelled → ¬ GaveUp k :=
    fun h1 h2 h3 => notGaveUp_simple h1 h2 h3
  cases toks with
  | nil =>
    simp only [pList]
    exact fuelOK_val _ _ _ (by intro e h; unfold eofErr at h; cases h; exact hsimple (by simp) (by simp) (by simp))
  | cons item toks =>
    have hp' := itemsPlain_tail hp
    have hpl := hp item (List.mem_cons_self ..)
    simp only [List.length_cons] at hf
    cases item with
    | err k s e =>
      simp only [pList]
      exact (fuelOK_err toks false _ _ _ _ (lexErr_genuine k s e hpl)).cons.weak
    | tok t s e =>
      have hL := fun st stack cur last => ihL st stack cur last toks hp' (by omega)
      have hfail : ∀ (k : ReadErrKind), ¬ GaveUp k →
          FuelOK (.tok t s e :: toks) false ⟨some (.error ⟨k, s, e⟩), st, toks⟩ :=
        fun k hk => (fuelOK_err toks false _ _ _ _ hk).cons.weak
      have hshort : ∀ kind, FuelOK (.tok t s e :: toks) false
          (match (pShort f st kind stack.length false (s, e) toks).val with
           | some (.ok v) =>
             match cur.push v.d v.sp false v.info with
             | .error er => ⟨some (.error er), (pShort f st kind stack.length false (s, e) toks).st,
                            (pShort f st kind stack.length false (s, e) toks).rest⟩
             | .ok cur' => pList f (pShort f st kind stack.length false (s, e) toks).st stack cur' (s, e)
                            (pShort f st kind stack.length false (s, e) toks).rest
           | _ => pShort f st kind stack.length false (s, e) toks) := by
        intro kind
        have hr := ihS st kind stack.length false (s, e) toks hp' (by omega)
        have hl := hr.suffix.length_le
        refine FuelOK.weak (FuelOK.cons (b := false) ?_)
        split
        · refine FuelOK.mono hr.suffix ?_
          exact push_then_fuel cur _ _ false _ _ _
            (fun cur' => ihL _ _ _ _ _ (itemsPlain_suffix hr.suffix hp') (by omega))
        · exact hr
      cases t with
      | dot =>
        simp only [pList]
        split
        · exact hfail _ (hsimple (by simp) (by simp) (by simp))
        · split
          · exact hfail _ (hsimple (by simp) (by simp) (by simp))
          · split
            · exact hfail _ (hsimple (by simp) (by simp) (by simp))
            · exact hfail _ (hsimple (by simp) (by simp) (by simp))
            · split
              · exact hfail _ (hsimple (by simp) (by simp) (by simp))
              · exact (hL _ _ _ _).cons.weak
      | comment doc =>
        simp only [pList]
        exact (hL _ _ _ _).cons.weak
      | dcomment =>
        simp only [pList]
        exact (hL _ _ _ _).cons.weak
      | synQuote => simp only [pList]; exact hshort 4
      | synQuasi => simp only [pList]; exact hshort 5
      | synUnquote => simp only [pList]; exact hshort 6
      | synSplice => simp only [pList]; exact hshort 7
      | tick => simp only [pList]; exact hshort 0
      | unquote => simp only [pList]; exact hshort 1
      | quasi => simp only [pList]; exact hshort 2
      | splice => simp only [pList]; exact hshort 3
      | open_ p m =>
        simp only [pList]
        exact (hL _ _ _ _).cons.weak
      | close p =>
        simp only [pList]
        split
        · exact hfail _ (hsimple (by simp) (by simp) (by simp))
        · cases stack with
          | nil =>
            simp only
            exact (fuelOK_val toks _ _ (fun e h => build_genuine _ _ _ h)).cons.weak
          | cons prev stack' =>
            simp only
            refine FuelOK.weak (FuelOK.cons (b := false) ?_)
            cases hbuild : cur.build (s, e) with
            | error er =>
              exact fuelOK_val _ _ _ (by intro e' h; cases h; exact build_genuine _ _ _ hbuild)
            | ok v =>
              simp only
              exact push_then_fuel _ _ _ false _ _ _ (fun cur' => hL _ _ _ _)
      | kw k =>
        simp only [pList]
        exact FuelOK.weak (FuelOK.cons (b := false) (push_then_fuel cur _ _ _ none _ _ (fun cur' => hL _ _ _ _)))
      | chr c =>
        simp only [pList]
        exact FuelOK.weak (FuelOK.cons (b := false) (push_then_fuel cur _ _ _ none _ _ (fun cur' => hL _ _ _ _)))
      | bool b =>
        simp only [pList]
        exact FuelOK.weak (FuelOK.cons (b := false) (push_then_fuel cur _ _ _ none _ _ (fun cur' => hL _ _ _ _)))
      | ident x =>
        simp only [pList]
        exact FuelOK.weak (FuelOK.cons (b := false) (push_then_fuel cur _ _ _ none _ _ (fun cur' => hL _ _ _ _)))
      | keyword x =>
        simp only [pList]
        exact FuelOK.weak (FuelOK.cons (b := false) (push_then_fuel cur _ _ _ none _ _ (fun cur' => hL _ _ _ _)))
      | num x =>
        simp only [pList]
        exact FuelOK.weak (FuelOK.cons (b := false) (push_then_fuel cur _ _ _ none _ _ (fun cur' => hL _ _ _ _)))
      | str x =>
        simp only [pList]
        exact FuelOK.weak (FuelOK.cons (b := false) (push_then_fuel cur _ _ _ none _ _ (fun cur' => hL _ _ _ _)))

/-- with fuel `3·tokens + 3` the four parser functions never run out of fuel -/
theorem parserFuel : ∀ f, ParserFuel f := by
  intro f
  induction f with
  | zero =>
    refine ⟨?_, ?_, ?_, ?_⟩
    · intro st toks _ h; omega
    · intro st kind n top sp toks _ h; omega
    · intro st dcs toks _ h; omega
    · intro st stack cur last toks _ h; omega
  | succ f ih =>
    refine ⟨?_, pShort_fuel f ih, pTop_fuel f ih, pList_fuel f ih⟩
    intro st toks hp hf
    simp only [pNext]
    exact ih.2.2.1 _ _ _ hp (by omega)

/-- `readLoop` with more fuel than tokens: it ends with data or with a genuine error - or with `unmodelled`
    for a datum that holds a polar number -/
theorem readLoop_fuel : ∀ (f : Nat) (st : PSt) (acc : List Datum) (toks : List LexItem),
    ItemsPlain toks → toks.length < f →
    match readLoop f st acc toks with
    | .ok _ => True
    | .error e => ¬ GaveUp e.kind ∨ (e.kind = .unmodelled ∧ ∃ d : Datum, d.hasPolar = true) := by
  intro f
  induction f with
  | zero => intro st acc toks _ h; omega
  | succ f ih =>
    intro st acc toks hp hf
    have hr := (parserFuel (4 * toks.length + 4)).1 st toks hp (by omega)
    unfold readLoop
    simp only
    cases hv : (pNext (4 * toks.length + 4) st toks).val with
    | none => trivial
    | some v =>
      cases v with
      | error e => exact Or.inl (hr.genuine e hv)
      | ok v =>
        simp only
        by_cases h1 : v.d.hasBadAtom = true
        · rw [if_pos h1]; exact Or.inl (notGaveUp_simple (by simp) (by simp) (by simp))
        rw [if_neg h1]
        by_cases h2 : v.d.hasPolar = true
        · rw [if_pos h2]; exact Or.inr ⟨rfl, v.d, h2⟩
        rw [if_neg h2]
        have hlt := hr.progress rfl v hv
        exact ih _ _ _ (itemsPlain_suffix hr.suffix hp) (by omega)

end SteelVerif.C12
