/-
C12 — basic lemmas: UTF-8 length, digit strings and their parsers.
-/
import SteelVerif.C12.Model
namespace SteelVerif.C12

theorem utf8Len_append (a b : Text) : utf8Len (a ++ b) = utf8Len a + utf8Len b := by
  induction a with
  | nil => simp [utf8Len]
  | cons c cs ih => simp [utf8Len, ih, Nat.add_assoc]

theorem utf8Size_pos (c : Char) : 0 < c.utf8Size := Char.utf8Size_pos c

theorem utf8Size_le (c : Char) : c.utf8Size ≤ 4 := Char.utf8Size_le_four c

theorem length_le_utf8Len (cs : Text) : cs.length ≤ utf8Len cs := by
  induction cs with
  | nil => simp [utf8Len]
  | cons c cs ih => have := utf8Size_pos c; simp [utf8Len]; omega

/-! ## digit strings -/

theorem parseDigits_append (b : Nat) (xs ys : Text) : ∀ a,
    parseDigits b a (xs ++ ys) = (parseDigits b a xs).bind (fun a' => parseDigits b a' ys) := by
  induction xs with
  | nil => intro a; simp [parseDigits]
  | cons c cs ih =>
    intro a
    simp only [List.cons_append, parseDigits]
    cases digitVal c with
    | none => simp
    | some d =>
      by_cases h : d < b
      · simp [h, ih]
      · simp [h]

theorem digitsAux_acc (b : Nat) (dig : Nat → Char) : ∀ f n acc,
    digitsAux b dig f n acc = digitsAux b dig f n [] ++ acc := by
  intro f
  induction f with
  | zero => intro n acc; simp [digitsAux]
  | succ f ih =>
    intro n acc
    simp only [digitsAux]
    by_cases h : n < b
    · simp [h]
    · simp only [h, if_false]
      rw [ih (n / b) (dig (n % b) :: acc), ih (n / b) [dig (n % b)]]
      simp

/-- the digit function `dig` is inverted by `digitVal` below the base -/
def DigOK (b : Nat) (dig : Nat → Char) : Prop := ∀ k, k < b → digitVal (dig k) = some k

theorem parseDigits_digitsAux (b : Nat) (dig : Nat → Char) (hb : 2 ≤ b) (hd : DigOK b dig) :
    ∀ f n, n < f → parseDigits b 0 (digitsAux b dig f n []) = some n := by
  intro f
  induction f with
  | zero => intro n h; omega
  | succ f ih =>
    intro n hn
    simp only [digitsAux]
    by_cases h : n < b
    · simp [h, parseDigits, hd n h]
    · simp only [h, if_false]
      rw [digitsAux_acc, parseDigits_append]
      have hlt : n / b < f := by
        have : n / b < n := Nat.div_lt_self (by omega) (by omega)
        omega
      rw [ih (n / b) hlt]
      have hm : n % b < b := Nat.mod_lt _ (by omega)
      simp [parseDigits, hd _ hm, hm]
      exact Nat.div_add_mod' n b

theorem parseDigits_natDigits (b : Nat) (dig : Nat → Char) (hb : 2 ≤ b) (hd : DigOK b dig) (n : Nat) :
    parseDigits b 0 (natDigits b dig n) = some n :=
  parseDigits_digitsAux b dig hb hd (n + 1) n (by omega)

theorem digitsAux_ne_nil (b : Nat) (dig : Nat → Char) : ∀ f n, n < f → digitsAux b dig f n [] ≠ [] := by
  intro f
  induction f with
  | zero => intro n h; omega
  | succ f ih =>
    intro n _
    simp only [digitsAux]
    by_cases h : n < b
    · simp [h]
    · simp only [h, if_false]; rw [digitsAux_acc]; simp

theorem natDigits_ne_nil (b : Nat) (dig : Nat → Char) (n : Nat) : natDigits b dig n ≠ [] :=
  digitsAux_ne_nil b dig (n + 1) n (by omega)

/-- every character of the digit string is a digit character of `dig` -/
theorem digitsAux_mem (b : Nat) (dig : Nat → Char) (hb : 0 < b) : ∀ f n acc c,
    c ∈ digitsAux b dig f n acc → c ∈ acc ∨ ∃ k, k < b ∧ c = dig k := by
  intro f
  induction f with
  | zero => intro n acc c h; simp [digitsAux] at h; exact Or.inl h
  | succ f ih =>
    intro n acc c h
    simp only [digitsAux] at h
    by_cases hlt : n < b
    · simp [hlt] at h
      rcases h with h | h
      · exact Or.inr ⟨n, hlt, h⟩
      · exact Or.inl h
    · simp only [hlt, if_false] at h
      rcases ih _ _ _ h with h | h
      · simp at h
        rcases h with h | h
        · exact Or.inr ⟨n % b, Nat.mod_lt _ hb, h⟩
        · exact Or.inl h
      · exact Or.inr h

theorem natDigits_mem (b : Nat) (dig : Nat → Char) (hb : 0 < b) (n : Nat) (c : Char)
    (h : c ∈ natDigits b dig n) : ∃ k, k < b ∧ c = dig k := by
  rcases digitsAux_mem b dig hb _ _ _ _ h with h | h
  · simp at h
  · exact h

theorem digOK_dec : DigOK 10 hexDigitLower := by
  intro k hk
  have : k = 0 ∨ k = 1 ∨ k = 2 ∨ k = 3 ∨ k = 4 ∨ k = 5 ∨ k = 6 ∨ k = 7 ∨ k = 8 ∨ k = 9 := by omega
  rcases this with h | h | h | h | h | h | h | h | h | h <;> subst h <;> decide

theorem digOK_hexLower : DigOK 16 hexDigitLower := by
  intro k hk
  have : k = 0 ∨ k = 1 ∨ k = 2 ∨ k = 3 ∨ k = 4 ∨ k = 5 ∨ k = 6 ∨ k = 7 ∨ k = 8 ∨ k = 9 ∨
      k = 10 ∨ k = 11 ∨ k = 12 ∨ k = 13 ∨ k = 14 ∨ k = 15 := by omega
  rcases this with h | h | h | h | h | h | h | h | h | h | h | h | h | h | h | h <;> subst h <;> decide

theorem digOK_hexUpper : DigOK 16 hexDigitUpper := by
  intro k hk
  have : k = 0 ∨ k = 1 ∨ k = 2 ∨ k = 3 ∨ k = 4 ∨ k = 5 ∨ k = 6 ∨ k = 7 ∨ k = 8 ∨ k = 9 ∨
      k = 10 ∨ k = 11 ∨ k = 12 ∨ k = 13 ∨ k = 14 ∨ k = 15 := by omega
  rcases this with h | h | h | h | h | h | h | h | h | h | h | h | h | h | h | h <;> subst h <;> decide

theorem parse_decDigits (n : Nat) : parseDigits 10 0 (decDigits n) = some n :=
  parseDigits_natDigits 10 _ (by omega) digOK_dec n

theorem parse_hexLower (n : Nat) : parseDigits 16 0 (hexLower n) = some n :=
  parseDigits_natDigits 16 _ (by omega) digOK_hexLower n

/-- a decimal digit character -/
theorem decDigits_isDigit (n : Nat) (c : Char) (h : c ∈ decDigits n) : isDigit c = true := by
  obtain ⟨k, hk, rfl⟩ := natDigits_mem 10 _ (by omega) n c h
  have : k = 0 ∨ k = 1 ∨ k = 2 ∨ k = 3 ∨ k = 4 ∨ k = 5 ∨ k = 6 ∨ k = 7 ∨ k = 8 ∨ k = 9 := by omega
  rcases this with h | h | h | h | h | h | h | h | h | h <;> subst h <;> decide

end SteelVerif.C12
