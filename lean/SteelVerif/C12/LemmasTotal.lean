/-
C12 — every error the datum reader reports carries a span inside the text.
-/
import SteelVerif.C12.LemmasSpan
namespace SteelVerif.C12

def SpanOK (total : Nat) (sp : Span) : Prop := sp.1 ≤ sp.2 ∧ sp.2 ≤ total

def ItemsOK (total : Nat) (toks : List LexItem) : Prop := ∀ it ∈ toks, it.s ≤ it.e ∧ it.e ≤ total

def ErrOK (total : Nat) (e : ReadErr) : Prop := e.s ≤ e.e ∧ e.e ≤ total

def ValOK (total : Nat) : Except ReadErr PVal → Prop
  | .error e => ErrOK total e
  | .ok v => SpanOK total v.sp

def ResOK (total : Nat) (r : PRes) : Prop :=
  match r.val with
  | none => True
  | some v => ValOK total v

/-- a frame whose spans are inside the text and whose opening bracket starts at or before `lb` -/
def FrameOK (total lb : Nat) (f : Frame) : Prop :=
  SpanOK total f.openS ∧ f.openS.1 ≤ lb ∧ ∀ i sp, f.dot = some (i, sp) → SpanOK total sp

/-- what every parser function guarantees about its result -/
def Inv (total lb : Nat) (r : PRes) : Prop :=
  ResOK total r ∧ ItemsOK total r.rest ∧ TokSorted lb r.rest

theorem itemsOK_tail {total : Nat} {it : LexItem} {l : List LexItem} (h : ItemsOK total (it :: l)) :
    ItemsOK total l := fun x hx => h x (List.mem_cons_of_mem _ hx)

theorem spanOK_zero (total : Nat) : SpanOK total (0, 0) := ⟨Nat.le_refl _, Nat.zero_le _⟩

theorem FrameOK.weaken {total lb lb' : Nat} {f : Frame} (h : FrameOK total lb f) (hl : lb ≤ lb') :
    FrameOK total lb' f := ⟨h.1, by have := h.2.1; omega, h.2.2⟩

theorem push_spans {total lb : Nat} (f : Frame) (d : Datum) (sp : Span) (b : Bool)
    (info : Option (List Datum × Bool)) (hf : FrameOK total lb f) (hs : SpanOK total sp) :
    match f.push d sp b info with
    | .error e => ErrOK total e
    | .ok f' => FrameOK total lb f' := by
  unfold Frame.push
  by_cases h1 : f.dotBad = true
  · rw [if_pos h1]; exact hs
  rw [if_neg h1]
  by_cases h2 : (f.pmod == some PMod.bytes && !b) = true
  · rw [if_pos h2]; exact hs
  rw [if_neg h2]
  by_cases h3 : f.comment > 0
  · rw [if_pos h3]; exact hf
  rw [if_neg h3]
  cases f.first <;> exact hf

theorem build_spans {total lb : Nat} (f : Frame) (close : Span) (hf : FrameOK total lb f)
    (hc : SpanOK total close) (hlb : lb ≤ close.1) : ValOK total (f.build close) := by
  have hm : SpanOK total (f.openS.1, close.2) := by
    have := hf.2.1; have := hc.1; have := hc.2
    exact ⟨by simp; omega, by simp; omega⟩
  unfold Frame.build
  by_cases h1 : f.comment > 0
  · rw [if_pos h1]; exact hf.1
  rw [if_neg h1]
  simp only
  cases hp : f.pmod with
  | some m => cases m <;> exact hm
  | none =>
    simp only
    cases hd : f.dot with
    | none => exact hm
    | some p =>
      obtain ⟨idx, dsp⟩ := p
      simp only
      by_cases h2 : idx + 1 = f.len
      · simp only [h2, beq_self_eq_true, if_true]
        cases f.lastList with
        | none => exact hm
        | some q => exact hm
      · have : (idx + 1 == f.len) = false := by simpa using h2
        simp only [this, Bool.false_eq_true, if_false]
        exact hf.2.2 idx dsp hd

theorem childClose_frame {total lb : Nat} (st : PSt) (prev : Frame) (h : FrameOK total lb prev) :
    FrameOK total lb (childClose st prev).2 := by
  unfold childClose
  split
  · split
    · split <;> exact h
    · split
      · exact h
      · split
        · split <;> exact h
        · exact h
  · exact h

theorem wrapNext_ok {total : Nat} (r : Option (Except ReadErr PVal)) (sp : Span) (wrap : Datum → PVal)
    (hr : match r with | none => True | some v => ValOK total v) (hs : SpanOK total sp)
    (hw : ∀ d, SpanOK total (wrap d).sp) : ValOK total (wrapNext r sp wrap) := by
  unfold wrapNext
  cases r with
  | none => exact hs
  | some v =>
    cases v with
    | error e => exact hr
    | ok v => exact hw v.d

end SteelVerif.C12

namespace SteelVerif.C12

theorem Inv.weaken {total lb lb' : Nat} {r : PRes} (h : Inv total lb' r) (hl : lb ≤ lb') : Inv total lb r :=
  ⟨h.1, h.2.1, TokSorted.weaken hl h.2.2⟩

theorem inv_err {total lb : Nat} (k : ReadErrKind) (sp : Span) (st : PSt) (toks : List LexItem)
    (hs : SpanOK total sp) (hi : ItemsOK total toks) (ht : TokSorted lb toks) :
    Inv total lb ⟨some (.error ⟨k, sp.1, sp.2⟩), st, toks⟩ := ⟨hs, hi, ht⟩

theorem inv_val {total lb : Nat} (v : Except ReadErr PVal) (st : PSt) (toks : List LexItem)
    (hv : ValOK total v) (hi : ItemsOK total toks) (ht : TokSorted lb toks) :
    Inv total lb ⟨some v, st, toks⟩ := ⟨hv, hi, ht⟩

theorem inv_atom {total lb : Nat} (d : Datum) (sp : Span) (st : PSt) (toks : List LexItem)
    (hs : SpanOK total sp) (hi : ItemsOK total toks) (ht : TokSorted lb toks) :
    Inv total lb ⟨some (.ok { d := d, sp := sp }), st, toks⟩ := ⟨hs, hi, ht⟩

theorem itemsOK_head_tok {total : Nat} {t : Tok} {s e : Nat} {l : List LexItem}
    (h : ItemsOK total (.tok t s e :: l)) : SpanOK total (s, e) := h _ (List.mem_cons_self ..)

theorem itemsOK_head_err {total : Nat} {k : LexErrKind} {s e : Nat} {l : List LexItem}
    (h : ItemsOK total (.err k s e :: l)) : ErrOK total (lexErrToRead k s e) := by
  have := h _ (List.mem_cons_self ..)
  unfold lexErrToRead
  split <;> exact this

/-- statement of the invariant for the four mutually recursive parser functions at fuel `f` -/
def ParserInv (total f : Nat) : Prop :=
  (∀ st toks lb, ItemsOK total toks → TokSorted lb toks → Inv total lb (pNext f st toks)) ∧
  (∀ st kind n top sp toks lb, SpanOK total sp → ItemsOK total toks → TokSorted lb toks →
      Inv total lb (pShort f st kind n top sp toks)) ∧
  (∀ st dcs toks lb, (∀ sp ∈ dcs, SpanOK total sp) → ItemsOK total toks → TokSorted lb toks →
      Inv total lb (pTop f st dcs toks)) ∧
  (∀ st stack cur last toks lb, (∀ fr ∈ cur :: stack, FrameOK total lb fr) → SpanOK total last →
      ItemsOK total toks → TokSorted lb toks → Inv total lb (pList f st stack cur last toks))

theorem parserInv_zero (total : Nat) : ParserInv total 0 := by
  refine ⟨?_, ?_, ?_, ?_⟩
  · intro st toks lb hi ht; exact inv_err _ (0, 0) _ _ (spanOK_zero _) hi ht
  · intro st kind n top sp toks lb _ hi ht; exact inv_err _ (0, 0) _ _ (spanOK_zero _) hi ht
  · intro st dcs toks lb _ hi ht; exact inv_err _ (0, 0) _ _ (spanOK_zero _) hi ht
  · intro st stack cur last toks lb _ _ hi ht; exact inv_err _ (0, 0) _ _ (spanOK_zero _) hi ht

theorem finishTick_inv {total lb : Nat} (kind : Nat) (r : PRes) (v : Except ReadErr PVal) (sp : Span)
    (fixSt : PSt → PSt) (hr : Inv total lb r) (hv : ValOK total v) (hs : SpanOK total sp) :
    Inv total lb (finishTick kind r v sp fixSt) := by
  unfold finishTick
  simp only
  split
  · exact inv_val _ _ _ hv hr.2.1 hr.2.2
  · exact inv_err _ sp _ _ hs hr.2.1 hr.2.2

/-- the shorthand handlers -/
theorem pShort_inv (total f : Nat) (ih : ParserInv total f) :
    ∀ st kind n top sp toks lb, SpanOK total sp → ItemsOK total toks → TokSorted lb toks →
      Inv total lb (pShort (f + 1) st kind n top sp toks) := by
  intro st kind n top sp toks lb hs hi ht
  obtain ⟨ihN, _, _, _⟩ := ih
  have hq : ∀ name d, SpanOK total (quoteList name d).sp := fun _ _ => spanOK_zero _
  unfold pShort
  split
  · have hr := ihN st toks lb hi ht
    exact inv_val _ _ _ (wrapNext_ok _ sp _ hr.1 hs (hq _)) hr.2.1 hr.2.2
  · split
    · simp only
      apply finishTick_inv _ _ _ _ _ (ihN _ toks lb hi ht) _ hs
      apply wrapNext_ok _ sp _ (ihN _ toks lb hi ht).1 hs
      intro d
      split
      · exact spanOK_zero _
      · exact hs
    · split
      · simp only
        exact finishTick_inv _ _ _ _ _ (ihN _ toks lb hi ht)
          (wrapNext_ok _ sp _ (ihN _ toks lb hi ht).1 hs (hq _)) hs
      · simp only
        exact finishTick_inv _ _ _ _ _ (ihN _ toks lb hi ht)
          (wrapNext_ok _ sp _ (ihN _ toks lb hi ht).1 hs (hq _)) hs

end SteelVerif.C12

namespace SteelVerif.C12

/-- `maybe_return!` -/
theorem finish_inv {total lb : Nat} (f : Nat) (dcs : List Span) (r : PRes) :
    (∀ st dcs toks lb, (∀ sp ∈ dcs, SpanOK total sp) → ItemsOK total toks → TokSorted lb toks →
      Inv total lb (pTop f st dcs toks)) →
    (∀ sp ∈ dcs, SpanOK total sp) → Inv total lb r →
    Inv total lb (match r.val with
      | some (.ok _) =>
        match dcs with
        | _ :: dcs' => pTop f r.st dcs' r.rest
        | [] => r
      | _ => r) := by
  intro ihT hd hr
  split
  · split
    · exact ihT _ _ _ _ (fun sp h => hd sp (List.mem_cons_of_mem _ h)) hr.2.1 hr.2.2
    · exact hr
  · exact hr

theorem pTop_inv (total f : Nat) (ih : ParserInv total f) :
    ∀ st dcs toks lb, (∀ sp ∈ dcs, SpanOK total sp) → ItemsOK total toks → TokSorted lb toks →
      Inv total lb (pTop (f + 1) st dcs toks) := by
  intro st dcs toks lb hd hi ht
  obtain ⟨ihN, ihS, ihT, ihL⟩ := ih
  cases toks with
  | nil =>
    unfold pTop
    cases dcs with
    | nil => exact ⟨trivial, hi, ht⟩
    | cons sp dcs' => exact inv_err _ sp _ _ (hd sp (List.mem_cons_self ..)) hi ht
  | cons item toks =>
    have hi' := itemsOK_tail hi
    cases item with
    | err k s e =>
      simp only [pTop]
      exact ⟨itemsOK_head_err hi, hi', ht⟩
    | tok t s e =>
      have hsp : SpanOK total (s, e) := itemsOK_head_tok hi
      have hlb : lb ≤ s := ht.1
      have ht' : TokSorted s toks := ht.2
      have hfin := fun (r : PRes) (hr : Inv total s r) => (finish_inv f dcs r ihT hd hr).weaken hlb
      cases t with
      | comment doc =>
        simp only [pTop]
        split
        · exact inv_err _ (s, e) _ _ hsp hi' (TokSorted.weaken hlb ht')
        · exact (ihT _ _ _ _ hd hi' ht').weaken hlb
      | dcomment =>
        simp only [pTop]
        exact (ihT _ _ _ _ (by intro sp h; rcases List.mem_cons.mp h with h | h; (subst h; exact hsp); exact hd sp h)
          hi' ht').weaken hlb
      | synQuote =>
        simp only [pTop]
        exact hfin _ (ihS _ _ _ _ _ _ _ hsp hi' ht')
      | synQuasi =>
        simp only [pTop]
        exact hfin _ (ihS _ _ _ _ _ _ _ hsp hi' ht')
      | synUnquote =>
        simp only [pTop]
        exact hfin _ (ihS _ _ _ _ _ _ _ hsp hi' ht')
      | synSplice =>
        simp only [pTop]
        exact hfin _ (ihS _ _ _ _ _ _ _ hsp hi' ht')
      | tick =>
        simp only [pTop]
        exact hfin _ (ihS _ _ _ _ _ _ _ hsp hi' ht')
      | unquote =>
        simp only [pTop]
        exact hfin _ (ihS _ _ _ _ _ _ _ hsp hi' ht')
      | quasi =>
        simp only [pTop]
        exact hfin _ (ihS _ _ _ _ _ _ _ hsp hi' ht')
      | splice =>
        simp only [pTop]
        exact hfin _ (ihS _ _ _ _ _ _ _ hsp hi' ht')
      | open_ p m =>
        simp only [pTop]
        refine hfin _ (ihL _ _ _ _ _ _ ?_ hsp hi' ht')
        intro fr hfr
        simp at hfr
        subst hfr
        exact ⟨hsp, Nat.le_refl _, by intro i sp h; cases h⟩
      | close p =>
        simp only [pTop]
        exact inv_err _ (s, e) _ _ hsp hi' (TokSorted.weaken hlb ht')
      | kw k =>
        simp only [pTop]
        exact hfin _ (inv_atom _ _ _ _ hsp hi' ht')
      | chr c =>
        simp only [pTop]
        exact hfin _ (inv_atom _ _ _ _ hsp hi' ht')
      | bool b =>
        simp only [pTop]
        exact hfin _ (inv_atom _ _ _ _ hsp hi' ht')
      | ident x =>
        simp only [pTop]
        exact hfin _ (inv_atom _ _ _ _ hsp hi' ht')
      | keyword x =>
        simp only [pTop]
        exact hfin _ (inv_atom _ _ _ _ hsp hi' ht')
      | num x =>
        simp only [pTop]
        exact hfin _ (inv_atom _ _ _ _ hsp hi' ht')
      | str x =>
        simp only [pTop]
        exact hfin _ (inv_atom _ _ _ _ hsp hi' ht')
      | dot =>
        simp only [pTop]
        exact hfin _ (inv_atom _ _ _ _ hsp hi' ht')

end SteelVerif.C12

namespace SteelVerif.C12

/-- pushing a value into a frame: an error with the value's span, or the continuation -/
theorem push_then {total lb : Nat} (cur : Frame) (d : Datum) (sp : Span) (b : Bool)
    (info : Option (List Datum × Bool)) (k : Frame → PRes) (st : PSt) (toks : List LexItem) :
    FrameOK total lb cur → SpanOK total sp → ItemsOK total toks → TokSorted lb toks →
    (∀ cur', FrameOK total lb cur' → Inv total lb (k cur')) →
    Inv total lb (match cur.push d sp b info with
      | .error e => ⟨some (.error e), st, toks⟩
      | .ok cur' => k cur') := by
  intro hc hs hi ht hk
  have := push_spans (total := total) (lb := lb) cur d sp b info hc hs
  cases hp : cur.push d sp b info with
  | error e => rw [hp] at this; exact ⟨this, hi, ht⟩
  | ok cur' => rw [hp] at this; exact hk cur' this

theorem frames_weaken {total lb lb' : Nat} {l : List Frame} (h : ∀ fr ∈ l, FrameOK total lb fr) (hl : lb ≤ lb') :
    ∀ fr ∈ l, FrameOK total lb' fr := fun fr hfr => (h fr hfr).weaken hl

theorem frames_cons {total lb : Nat} {x : Frame} {l : List Frame} (hx : FrameOK total lb x)
    (h : ∀ fr ∈ l, FrameOK total lb fr) : ∀ fr ∈ x :: l, FrameOK total lb fr := by
  intro fr hfr
  rcases List.mem_cons.mp hfr with h1 | h1
  · subst h1; exact hx
  · exact h fr h1

theorem pList_inv (total f : Nat) (ih : ParserInv total f) :
    ∀ st stack cur last toks lb, (∀ fr ∈ cur :: stack, FrameOK total lb fr) → SpanOK total last →
      ItemsOK total toks → TokSorted lb toks → Inv total lb (pList (f + 1) st stack cur last toks) := by
  intro st stack cur last toks lb hfr hlast hi ht
  obtain ⟨ihN, ihS, ihT, ihL⟩ := ih
  cases toks with
  | nil =>
    simp only [pList]
    exact ⟨hlast, hi, ht⟩
  | cons item toks =>
    have hi' := itemsOK_tail hi
    cases item with
    | err k s e =>
      simp only [pList]
      exact ⟨itemsOK_head_err hi, hi', ht⟩
    | tok t s e =>
      have hsp : SpanOK total (s, e) := itemsOK_head_tok hi
      have hlb : lb ≤ s := ht.1
      have ht' : TokSorted s toks := ht.2
      have hfr' : ∀ fr ∈ cur :: stack, FrameOK total s fr := frames_weaken hfr hlb
      have hcur : FrameOK total s cur := hfr' cur (List.mem_cons_self ..)
      have hstack : ∀ fr ∈ stack, FrameOK total s fr := fun fr h => hfr' fr (List.mem_cons_of_mem _ h)
      have hfail : ∀ (k : ReadErrKind), Inv total lb ⟨some (.error ⟨k, s, e⟩), st, toks⟩ :=
        fun k => inv_err k (s, e) _ _ hsp hi' (TokSorted.weaken hlb ht')
      -- a shorthand form inside the list
      have hshort : ∀ kind, Inv total lb
          (match (pShort f st kind stack.length false (s, e) toks).val with
           | some (.ok v) =>
             match cur.push v.d v.sp false v.info with
             | .error er => ⟨some (.error er), (pShort f st kind stack.length false (s, e) toks).st,
                            (pShort f st kind stack.length false (s, e) toks).rest⟩
             | .ok cur' => pList f (pShort f st kind stack.length false (s, e) toks).st stack cur' (s, e)
                            (pShort f st kind stack.length false (s, e) toks).rest
           | _ => pShort f st kind stack.length false (s, e) toks) := by
        intro kind
        have hr := ihS st kind stack.length false (s, e) toks s hsp hi' ht'
        refine Inv.weaken ?_ hlb
        split
        · rename_i v hv
          have hvs : SpanOK total v.sp := by
            have := hr.1
            unfold ResOK at this
            rw [hv] at this
            exact this
          exact push_then cur v.d v.sp false v.info _ _ _ hcur hvs hr.2.1 hr.2.2
            (fun cur' hc' => ihL _ _ _ _ _ _ (frames_cons hc' hstack) hsp hr.2.1 hr.2.2)
        · exact hr
      cases t with
      | dot =>
        simp only [pList]
        split
        · exact hfail _
        · split
          · exact hfail _
          · split
            · exact hfail _
            · exact hfail _
            · split
              · exact hfail _
              · refine (ihL _ _ _ _ _ _ (frames_cons ?_ hstack) hsp hi' ht').weaken hlb
                exact ⟨hcur.1, hcur.2.1, by intro i sp h; simp at h; rw [← h.2]; exact hsp⟩
      | comment doc =>
        simp only [pList]
        exact (ihL _ _ _ _ _ _ hfr' hsp hi' ht').weaken hlb
      | dcomment =>
        simp only [pList]
        refine (ihL _ _ { cur with comment := cur.comment + 1 } _ _ _ (frames_cons ?_ hstack) hsp hi' ht').weaken hlb
        exact ⟨hcur.1, hcur.2.1, hcur.2.2⟩
      | synQuote => simp only [pList]; exact hshort 4
      | synQuasi => simp only [pList]; exact hshort 5
      | synUnquote => simp only [pList]; exact hshort 6
      | synSplice => simp only [pList]; exact hshort 7
      | tick => simp only [pList]; exact hshort 0
      | unquote => simp only [pList]; exact hshort 1
      | quasi => simp only [pList]; exact hshort 2
      | splice => simp only [pList]; exact hshort 3
      | open_ p m =>
        simp only [pList]
        refine (ihL _ _ _ _ _ _ (frames_cons ?_ hfr') hsp hi' ht').weaken hlb
        exact ⟨hsp, Nat.le_refl _, by intro i sp h; cases h⟩
      | close p =>
        simp only [pList]
        split
        · exact hfail _
        · cases stack with
          | nil =>
            simp only
            exact inv_val _ _ _ (build_spans cur (s, e) hcur hsp (Nat.le_refl _)) hi' (TokSorted.weaken hlb ht')
          | cons prev stack' =>
            simp only
            have hprev : FrameOK total s prev := hstack prev (List.mem_cons_self ..)
            have hstack' : ∀ fr ∈ stack', FrameOK total s fr := fun fr h => hstack fr (List.mem_cons_of_mem _ h)
            have hprev1 := childClose_frame st prev hprev
            have hb := build_spans cur (s, e) hcur hsp (Nat.le_refl _)
            refine Inv.weaken ?_ hlb
            cases hbuild : cur.build (s, e) with
            | error er =>
              rw [hbuild] at hb
              exact ⟨hb, hi', ht'⟩
            | ok v =>
              rw [hbuild] at hb
              simp only
              exact push_then _ v.d v.sp false v.info _ _ _ hprev1 hb hi' ht'
                (fun cur' hc' => ihL _ _ _ _ _ _ (frames_cons hc' hstack') hsp hi' ht')
      | kw k =>
        simp only [pList]
        exact (push_then cur _ (s, e) _ none _ _ _ hcur hsp hi' ht'
          (fun cur' hc' => ihL _ _ _ _ _ _ (frames_cons hc' hstack) hsp hi' ht')).weaken hlb
      | chr c =>
        simp only [pList]
        exact (push_then cur _ (s, e) _ none _ _ _ hcur hsp hi' ht'
          (fun cur' hc' => ihL _ _ _ _ _ _ (frames_cons hc' hstack) hsp hi' ht')).weaken hlb
      | bool b =>
        simp only [pList]
        exact (push_then cur _ (s, e) _ none _ _ _ hcur hsp hi' ht'
          (fun cur' hc' => ihL _ _ _ _ _ _ (frames_cons hc' hstack) hsp hi' ht')).weaken hlb
      | ident x =>
        simp only [pList]
        exact (push_then cur _ (s, e) _ none _ _ _ hcur hsp hi' ht'
          (fun cur' hc' => ihL _ _ _ _ _ _ (frames_cons hc' hstack) hsp hi' ht')).weaken hlb
      | keyword x =>
        simp only [pList]
        exact (push_then cur _ (s, e) _ none _ _ _ hcur hsp hi' ht'
          (fun cur' hc' => ihL _ _ _ _ _ _ (frames_cons hc' hstack) hsp hi' ht')).weaken hlb
      | num x =>
        simp only [pList]
        exact (push_then cur _ (s, e) _ none _ _ _ hcur hsp hi' ht'
          (fun cur' hc' => ihL _ _ _ _ _ _ (frames_cons hc' hstack) hsp hi' ht')).weaken hlb
      | str x =>
        simp only [pList]
        exact (push_then cur _ (s, e) _ none _ _ _ hcur hsp hi' ht'
          (fun cur' hc' => ihL _ _ _ _ _ _ (frames_cons hc' hstack) hsp hi' ht')).weaken hlb

/-- the four parser functions keep every reported span inside the text, at every fuel -/
theorem parserInv (total : Nat) : ∀ f, ParserInv total f := by
  intro f
  induction f with
  | zero => exact parserInv_zero total
  | succ f ih =>
    refine ⟨?_, pShort_inv total f ih, pTop_inv total f ih, pList_inv total f ih⟩
    intro st toks lb hi ht
    simp only [pNext]
    exact ih.2.2.1 _ _ _ _ (by intro sp h; cases h) hi ht

end SteelVerif.C12

namespace SteelVerif.C12

theorem readLoop_total (total : Nat) : ∀ (f : Nat) (st : PSt) (acc : List Datum) (toks : List LexItem) (lb : Nat),
    ItemsOK total toks → TokSorted lb toks →
    match readLoop f st acc toks with
    | .ok _ => True
    | .error e => ErrOK total e := by
  intro f
  induction f with
  | zero => intro st acc toks lb _ _; exact spanOK_zero total
  | succ f ih =>
    intro st acc toks lb hi ht
    have hr := (parserInv total (4 * toks.length + 4)).1 st toks lb hi ht
    unfold readLoop
    simp only
    cases hv : (pNext (4 * toks.length + 4) st toks).val with
    | none => trivial
    | some v =>
      have hres := hr.1
      unfold ResOK at hres
      rw [hv] at hres
      cases v with
      | error e => exact hres
      | ok v =>
        simp only
        by_cases h1 : v.d.hasBadAtom = true
        · rw [if_pos h1]; exact spanOK_zero total
        rw [if_neg h1]
        by_cases h2 : v.d.hasPolar = true
        · rw [if_pos h2]; exact hres
        rw [if_neg h2]
        exact ih _ _ _ lb hr.2.1 hr.2.2

theorem lex_itemsOK (src : Text) : ItemsOK (utf8Len src) (lex src) := lex_spans src

end SteelVerif.C12
