/-
C12 — every error the datum reader reports carries a span inside the text.
-/
import SteelVerif.C12.LemmasSpan
namespace SteelVerif.C12

def SpanOK (total : Nat) (sp : Span) : Prop := sp.1 ≤ sp.2 ∧ sp.2 ≤ total

def ItemsOK (total : Nat) (toks : List LexItem) : Prop := ∀ it ∈ toks, it.s ≤ it.e ∧ it.e ≤ total

def ErrOK (total : Nat) (e : ReadErr) : Prop := e.s ≤ e.e ∧ e.e ≤ total

def ValOK (total : Nat) : Except ReadErr PVal → Prop
  | .error e => ErrOK total e
  | .ok v => SpanOK total v.sp

def ResOK (total : Nat) (r : PRes) : Prop :=
  match r.val with
  | none => True
  | some v => ValOK total v

/-- a frame whose spans are inside the text and whose opening bracket starts at or before `lb` -/
def FrameOK (total lb : Nat) (f : Frame) : Prop :=
  SpanOK total f.openS ∧ f.openS.1 ≤ lb ∧ ∀ i sp, f.dot = some (i, sp) → SpanOK total sp

/-- what every parser function guarantees about its result -/
def Inv (total lb : Nat) (r : PRes) : Prop :=
  ResOK total r ∧ ItemsOK total r.rest ∧ TokSorted lb r.rest

theorem itemsOK_tail {total : Nat} {it : LexItem} {l : List LexItem} (h : ItemsOK total (it :: l)) :
    ItemsOK total l := fun x hx => h x (List.mem_cons_of_mem _ hx)

theorem spanOK_zero (total : Nat) : SpanOK total (0, 0) := ⟨Nat.le_refl _, Nat.zero_le _⟩

theorem FrameOK.weaken {total lb lb' : Nat} {f : Frame} (h : FrameOK total lb f) (hl : lb ≤ lb') :
    FrameOK total lb' f := ⟨h.1, by have := h.2.1; omega, h.2.2⟩

theorem push_spans {total lb : Nat} (f : Frame) (d : Datum) (sp : Span) (b : Bool)
    (info : Option (List Datum × Bool)) (hf : FrameOK total lb f) (hs : SpanOK total sp) :
    match f.push d sp b info with
    | .error e => ErrOK total e
    | .ok f' => FrameOK total lb f' := by
  unfold Frame.push
  by_cases h1 : f.dotBad = true
  · rw [if_pos h1]; exact hs
  rw [if_neg h1]
  by_cases h2 : (f.pmod == some PMod.bytes && !b) = true
  · rw [if_pos h2]; exact hs
  rw [if_neg h2]
  by_cases h3 : f.comment > 0
  · rw [if_pos h3]; exact hf
  rw [if_neg h3]
  cases f.first <;> exact hf

theorem build_spans {total lb : Nat} (f : Frame) (close : Span) (hf : FrameOK total lb f)
    (hc : SpanOK total close) (hlb : lb ≤ close.1) : ValOK total (f.build close) := by
  have hm : SpanOK total (f.openS.1, close.2) := by
    have := hf.2.1; have := hc.1; have := hc.2
    exact ⟨by simp; omega, by simp; omega⟩
  unfold Frame.build
  by_cases h1 : f.comment > 0
  · rw [if_pos h1]; exact hf.1
  rw [if_neg h1]
  simp only
  cases hp : f.pmod with
  | some m => cases m <;> exact hm
  | none =>
    simp only
    cases hd : f.dot with
    | none => exact hm
    | some p =>
      obtain ⟨idx, dsp⟩ := p
      simp only
      by_cases h2 : idx + 1 = f.len
      · simp only [h2, beq_self_eq_true, if_true]
        cases f.lastList with
        | none => exact hm
        | some q => exact hm
      · have : (idx + 1 == f.len) = false := by simpa using h2
        simp only [this, Bool.false_eq_true, if_false]
        exact hf.2.2 idx dsp hd

theorem childClose_frame {total lb : Nat} (st : PSt) (prev : Frame) (h : FrameOK total lb prev) :
    FrameOK total lb (childClose st prev).2 := by
  unfold childClose
  split
  · split
    · split <;> exact h
    · split
      · exact h
      · split
        · split <;> exact h
        · exact h
  · exact h

theorem wrapNext_ok {total : Nat} (r : Option (Except ReadErr PVal)) (sp : Span) (wrap : Datum → PVal)
    (hr : match r with | none => True | some v => ValOK total v) (hs : SpanOK total sp)
    (hw : ∀ d, SpanOK total (wrap d).sp) : ValOK total (wrapNext r sp wrap) := by
  unfold wrapNext
  cases r with
  | none => exact hs
  | some v =>
    cases v with
    | error e => exact hr
    | ok v => exact hw v.d

end SteelVerif.C12
