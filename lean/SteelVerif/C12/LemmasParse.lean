/-
C12 — the parser on the token stream of a written datum.
-/
import SteelVerif.C12.LemmasRun
namespace SteelVerif.C12

/-- (historical) the round trip used to be proved only for parser states whose quasi-quotation bookkeeping is
    idle.  Nothing the parser builds from the tokens of a written datum depends on `quasiquote_depth` /
    `quote_context` / `context` except the renaming in `childClose`, which `FirstOK` excludes - so every state
    is good, and lists headed by `quasiquote` (which move the depth) are covered. -/
def Good (_st : PSt) : Prop := True

/-- the frame after a successful push -/
def Frame.pushed (f : Frame) (d : Datum) (info : Option (List Datum × Bool)) : Frame :=
  match f.first with
  | none => { f with first := some d, len := 1, lastList := info }
  | some _ => { f with restRev := d :: f.restRev, len := f.len + 1, lastList := info }

/-- the frame accepts one more general datum -/
def PushOK (cur : Frame) : Prop :=
  cur.comment = 0 ∧ cur.pmod ≠ some .bytes ∧ (cur.dot = none ∨ ∃ sp, cur.dot = some (cur.len, sp))

/-- the head of the frame does not steer the quasi-quotation bookkeeping -/
def FirstOK (cur : Frame) : Prop := ∀ x, cur.first = some x → isQQ x = false

/-- `len` counts the expressions -/
def LenOK (cur : Frame) : Prop := cur.len = cur.exprs.length ∧ (cur.first = none → cur.restRev = [])

theorem dotBad_false (cur : Frame) (hd : cur.dot = none ∨ ∃ sp, cur.dot = some (cur.len, sp)) :
    cur.dotBad = false := by
  unfold Frame.dotBad
  rcases hd with h | ⟨sp', h⟩ <;> rw [h] <;> simp

theorem push_ok (cur : Frame) (d : Datum) (sp : Span) (isByte : Bool) (info : Option (List Datum × Bool))
    (h : PushOK cur) : cur.push d sp isByte info = .ok (cur.pushed d info) := by
  obtain ⟨hc, hm, hd⟩ := h
  unfold Frame.push Frame.pushed
  have hdot : cur.dotBad = false := dotBad_false cur hd
  have hb : (cur.pmod == some PMod.bytes) = false := by
    cases hp : cur.pmod with
    | none => rfl
    | some m => cases m with
      | vector => rfl
      | bytes => exact absurd hp hm
  simp only [hdot, hb, hc]
  cases cur.first <;> simp

theorem exprs_pushed (cur : Frame) (d : Datum) (info : Option (List Datum × Bool)) (h : LenOK cur) :
    (cur.pushed d info).exprs = cur.exprs ++ [d] ∧ LenOK (cur.pushed d info) := by
  unfold Frame.pushed Frame.exprs LenOK at *
  cases hf : cur.first with
  | none =>
    have := h.2 hf
    simp [this, Frame.exprs]
  | some x =>
    obtain ⟨h1, _⟩ := h
    have he : cur.exprs = x :: cur.restRev.reverse := by simp [Frame.exprs, hf]
    rw [he] at h1
    refine ⟨by simp [Frame.exprs], ?_, by simp⟩
    simp [Frame.exprs] at h1 ⊢
    omega

theorem firstOK_pushed (cur : Frame) (d : Datum) (info : Option (List Datum × Bool)) (h : FirstOK cur)
    (hl : LenOK cur) (hd : cur.len = 0 → isQQ d = false) : FirstOK (cur.pushed d info) := by
  unfold FirstOK Frame.pushed at *
  cases hf : cur.first with
  | none =>
    intro x hx
    simp at hx
    subst hx
    apply hd
    have := hl.1
    simp [Frame.exprs, hf] at this
    exact this
  | some y =>
    intro x hx
    simp at hx
    exact h x (by rw [hf]; simp [hx])

def isAtomTok : Tok → Bool
  | .num _ | .bool _ | .chr _ | .str _ | .ident _ | .kw _ | .keyword _ => true
  | _ => false

theorem headAtom_good (st : PSt) (n : Nat) (t : Tok) (_hg : Good st) (_hq : isQQ (atomToDatum t) = false) :
    Good (headAtom st n t) := trivial

/-- an atom token inside a list, whatever the head of the frame and the parser state -/
theorem pList_atom' (t : Tok) (hatom : isAtomTok t = true) (pf : Nat) (st : PSt) (stack : List Frame)
    (cur : Frame) (last : Span) (s e : Nat) (more : List LexItem) (isB : (tokByte t).isSome = true ∨ cur.pmod ≠ some .bytes)
    (hc : cur.comment = 0) (hd : cur.dot = none ∨ ∃ sp, cur.dot = some (cur.len, sp)) :
    ∃ st', Good st' ∧ pList (pf + 1) st stack cur last (.tok t s e :: more)
      = pList pf st' stack (cur.pushed (atomToDatum t) none) (s, e) more := by
  have hdot : cur.dotBad = false := dotBad_false cur hd
  have hpush : cur.push (atomToDatum t) (s, e) (tokByte t).isSome none = .ok (cur.pushed (atomToDatum t) none) := by
    unfold Frame.push Frame.pushed
    have hb : (cur.pmod == some PMod.bytes && !(tokByte t).isSome) = false := by
      rcases isB with h | h
      · simp [h]
      · cases hp : cur.pmod with
        | none => rfl
        | some m => cases m with
          | vector => rfl
          | bytes => exact absurd hp h
    simp only [hdot, hb, hc]
    cases cur.first <;> simp
  let st1 : PSt := if t == .kw .quote then { st with quoteStackEmpty := false } else st
  let st2 : PSt := if cur.len == 0 then headAtom st1 stack.length t else st1
  refine ⟨st2, trivial, ?_⟩
  cases t <;> simp [isAtomTok] at hatom <;>
    (rw [pList] <;> first | (simp only [hpush]; rfl) | (intros; simp_all) | (intro h; cases h))


/-- an atom token inside a list -/
theorem pList_atom (t : Tok) (hatom : isAtomTok t = true) (pf : Nat) (st : PSt) (stack : List Frame)
    (cur : Frame) (last : Span) (s e : Nat) (more : List LexItem) (isB : (tokByte t).isSome = true ∨ cur.pmod ≠ some .bytes)
    (hg : Good st) (hc : cur.comment = 0) (hd : cur.dot = none ∨ ∃ sp, cur.dot = some (cur.len, sp))
    (hhead : cur.len = 0 → isQQ (atomToDatum t) = false) :
    ∃ st', Good st' ∧ pList (pf + 1) st stack cur last (.tok t s e :: more)
      = pList pf st' stack (cur.pushed (atomToDatum t) none) (s, e) more := by
  have hdot : cur.dotBad = false := dotBad_false cur hd
  have hpush : cur.push (atomToDatum t) (s, e) (tokByte t).isSome none = .ok (cur.pushed (atomToDatum t) none) := by
    unfold Frame.push Frame.pushed
    have hb : (cur.pmod == some PMod.bytes && !(tokByte t).isSome) = false := by
      rcases isB with h | h
      · simp [h]
      · cases hp : cur.pmod with
        | none => rfl
        | some m => cases m with
          | vector => rfl
          | bytes => exact absurd hp h
    simp only [hdot, hb, hc]
    cases cur.first <;> simp
  let st1 : PSt := if t == .kw .quote then { st with quoteStackEmpty := false } else st
  have hg1 : Good st1 := by
    show Good (if t == .kw .quote then _ else _)
    split <;> exact hg
  let st2 : PSt := if cur.len == 0 then headAtom st1 stack.length t else st1
  have hg2 : Good st2 := by
    show Good (if cur.len == 0 then _ else _)
    split
    · rename_i h; exact headAtom_good _ _ _ hg1 (hhead (by simpa using h))
    · exact hg1
  refine ⟨st2, hg2, ?_⟩
  cases t <;> simp [isAtomTok] at hatom <;>
    (rw [pList] <;> first | (simp only [hpush]; rfl) | (intros; simp_all) | (intro h; cases h))

end SteelVerif.C12

namespace SteelVerif.C12

/-! ## steps of `read_from_tokens` -/

theorem pList_open (pf : Nat) (st : PSt) (stack : List Frame) (cur : Frame) (last : Span) (p : Paren)
    (m : Option PMod) (s e : Nat) (more : List LexItem) :
    pList (pf + 1) st stack cur last (.tok (.open_ p m) s e :: more)
      = pList pf st (cur :: stack) { openS := (s, e), paren := p, pmod := m } (s, e) more := by
  rw [pList]

theorem pList_dot (pf : Nat) (st : PSt) (stack : List Frame) (cur : Frame) (last : Span)
    (s e : Nat) (more : List LexItem) (h1 : cur.dot = none) (h2 : cur.len ≠ 0) (h3 : cur.pmod = none)
    (h4 : cur.comment = 0) :
    pList (pf + 1) st stack cur last (.tok .dot s e :: more)
      = pList pf st stack { cur with dot := some (cur.len, (s, e)) } (s, e) more := by
  rw [pList]
  simp [h1, h2, h3, h4]

/-- a frame whose head is neither `unquote` nor `unquote-splicing` is not renamed when a child closes (the
    state may change: `quasiquote` heads move the depth) -/
theorem childClose_snd (st : PSt) (prev : Frame) (h : FirstOK prev) : (childClose st prev).2 = prev := by
  unfold childClose
  cases hf : prev.first with
  | none => rfl
  | some x =>
    have hq := h x hf
    cases x <;> try rfl
    rename_i s
    simp only [isQQ, Bool.or_eq_false_iff] at hq
    obtain ⟨h1, h3⟩ := hq
    simp only [h1, h3, Bool.false_eq_true, if_false]
    split <;> rfl

theorem ctxAfterChild_good (st : PSt) (n : Nat) (h : Good st) : Good (ctxAfterChild st n) := by
  unfold ctxAfterChild
  split <;> (try split) <;> exact h

theorem ctxAfterTop_good (st : PSt) (h : Good st) : Good (ctxAfterTop st) := by
  unfold ctxAfterTop
  split <;> exact h

/-- closing a list that has a parent frame -/
theorem pList_close_child (pf : Nat) (st : PSt) (prev : Frame) (stack : List Frame) (cur : Frame)
    (last : Span) (s e : Nat) (more : List LexItem) (v : PVal)
    (hp : cur.paren = .round) (hg : Good st) (hf : FirstOK prev) (hpush : PushOK prev)
    (hb : cur.build (s, e) = .ok v) :
    ∃ st', Good st' ∧ pList (pf + 1) st (prev :: stack) cur last (.tok (.close .round) s e :: more)
      = pList pf st' stack (prev.pushed v.d v.info) (s, e) more := by
  refine ⟨ctxAfterChild (childClose st prev).1 stack.length, trivial, ?_⟩
  have hsnd := childClose_snd st prev hf
  rw [pList]
  rcases hcc : childClose st prev with ⟨st1, prev1⟩
  rw [hcc] at hsnd
  simp only at hsnd
  subst hsnd
  simp only [hp, bne_self_eq_false, Bool.false_eq_true, if_false, hcc, hb,
    push_ok prev1 v.d v.sp false v.info hpush]

/-- closing the outermost list -/
theorem pList_close_top (pf : Nat) (st : PSt) (cur : Frame) (last : Span) (s e : Nat)
    (more : List LexItem) (hp : cur.paren = .round) :
    pList (pf + 1) st [] cur last (.tok (.close .round) s e :: more)
      = ⟨some (cur.build (s, e)), ctxAfterTop st, more⟩ := by
  rw [pList]
  simp [hp]

/-! ## what `Frame::build_expr` makes of a finished frame -/

theorem build_list (cur : Frame) (sp : Span) (h1 : cur.comment = 0) (h2 : cur.pmod = none)
    (h3 : cur.dot = none) : cur.build sp = .ok (listVal cur.exprs false (cur.openS.1, sp.2)) := by
  unfold Frame.build
  simp [h1, h2, h3]

theorem build_vec (cur : Frame) (sp : Span) (h1 : cur.comment = 0) (h2 : cur.pmod = some .vector) :
    cur.build sp = .ok { d := .vec cur.exprs, sp := (cur.openS.1, sp.2) } := by
  unfold Frame.build
  simp [h1, h2]

theorem build_bytes (cur : Frame) (sp : Span) (h1 : cur.comment = 0) (h2 : cur.pmod = some .bytes) :
    cur.build sp = .ok { d := .bytes (bytesOf cur.exprs), sp := (cur.openS.1, sp.2) } := by
  unfold Frame.build
  simp [h1, h2]

theorem build_pair (cur : Frame) (sp dsp : Span) (idx : Nat) (h1 : cur.comment = 0) (h2 : cur.pmod = none)
    (h3 : cur.dot = some (idx, dsp)) (h4 : idx + 1 = cur.len) :
    cur.build sp = .ok (match cur.lastList with
      | some (largs, limp) => listVal (cur.exprs.dropLast ++ largs) limp (cur.openS.1, sp.2)
      | none => listVal cur.exprs true (cur.openS.1, sp.2)) := by
  unfold Frame.build
  simp only [h1, h2, h3, h4]
  simp
  cases cur.lastList with
  | none => rfl
  | some p => rfl

/-! ## the list-expression information of a datum (what `List::make_improper` splices) -/

/-- the elements a datum contributes when it follows the dot of an improper list -/
def tailArgs : Datum → List Datum
  | .pair a d => a :: tailArgs d
  | d => [d]

def infoOf : Datum → Option (List Datum × Bool)
  | .list xs => some (xs, false)
  | .pair a d => some (a :: tailArgs d, true)
  | _ => none

theorem tailArgs_ne_nil (d : Datum) : tailArgs d ≠ [] := by
  cases d <;> simp [tailArgs]

theorem improperDatum_cons (a : Datum) (l : List Datum) (h : l ≠ []) :
    improperDatum (a :: l) = .pair a (improperDatum l) := by
  unfold improperDatum
  have : (a :: l).reverse = l.reverse ++ [a] := by simp
  rw [this]
  cases hl : l.reverse with
  | nil => simp at hl; exact absurd hl h
  | cons t initRev => simp [mkPairs]

theorem improperDatum_tailArgs : (d : Datum) → improperDatum (tailArgs d) = d
  | .pair a d => by
    rw [tailArgs, improperDatum_cons a _ (tailArgs_ne_nil d), improperDatum_tailArgs d]
  | .int _ => rfl | .rat _ _ => rfl | .bool _ => rfl | .chr _ => rfl | .str _ => rfl | .sym _ => rfl
  | .list _ => rfl | .vec _ => rfl | .bytes _ => rfl | .flo _ => rfl | .other _ => rfl

end SteelVerif.C12

namespace SteelVerif.C12

/-! ## decomposition of token lists -/

theorem allTok_nil_inv {items : List LexItem} (h : AllTok items []) : items = [] := by
  unfold AllTok at h
  simpa using h

theorem allTok_cons_inv {items : List LexItem} {t : Tok} {ts : List Tok} (h : AllTok items (t :: ts)) :
    ∃ s e items', items = .tok t s e :: items' ∧ AllTok items' ts := by
  unfold AllTok at *
  cases items with
  | nil => simp at h
  | cons it rest =>
    simp only [List.map_cons, List.cons.injEq] at h
    obtain ⟨h1, h2⟩ := h
    cases it with
    | tok t' s e =>
      simp only [LexItem.tok?, Option.some.injEq] at h1
      subst h1
      exact ⟨s, e, rest, rfl, h2⟩
    | err k s e => simp [LexItem.tok?] at h1

theorem allTok_append_inv {items : List LexItem} {a b : List Tok} (h : AllTok items (a ++ b)) :
    ∃ i1 i2, items = i1 ++ i2 ∧ AllTok i1 a ∧ AllTok i2 b := by
  unfold AllTok at *
  rw [List.map_append] at h
  obtain ⟨i1, i2, h1, h2, h3⟩ := List.map_eq_append_iff.mp h
  exact ⟨i1, i2, h1, h2, h3⟩

/-! ## frames growing by pushes -/

structure Ext (cur cur' : Frame) (xs : List Datum) : Prop where
  exprs : cur'.exprs = cur.exprs ++ xs
  openS : cur'.openS = cur.openS
  paren : cur'.paren = cur.paren
  pmod : cur'.pmod = cur.pmod
  dot : cur'.dot = cur.dot
  comment : cur'.comment = cur.comment
  lenOK : LenOK cur'
  firstOK : FirstOK cur'

theorem pushed_fields (cur : Frame) (d : Datum) (info : Option (List Datum × Bool)) :
    (cur.pushed d info).openS = cur.openS ∧ (cur.pushed d info).paren = cur.paren ∧
    (cur.pushed d info).pmod = cur.pmod ∧ (cur.pushed d info).dot = cur.dot ∧
    (cur.pushed d info).comment = cur.comment ∧ (cur.pushed d info).lastList = info := by
  unfold Frame.pushed
  cases cur.first <;> simp

theorem ext_pushed (cur : Frame) (d : Datum) (info : Option (List Datum × Bool)) (hl : LenOK cur)
    (hf : FirstOK cur) (hd : cur.len = 0 → isQQ d = false) : Ext cur (cur.pushed d info) [d] := by
  obtain ⟨h1, h2, h3, h4, h5, _⟩ := pushed_fields cur d info
  obtain ⟨e1, e2⟩ := exprs_pushed cur d info hl
  exact ⟨e1, h1, h2, h3, h4, h5, e2, firstOK_pushed cur d info hf hl hd⟩

theorem Ext.trans {a b c : Frame} {xs ys : List Datum} (h1 : Ext a b xs) (h2 : Ext b c ys) :
    Ext a c (xs ++ ys) :=
  ⟨by rw [h2.exprs, h1.exprs, List.append_assoc], h2.openS.trans h1.openS, h2.paren.trans h1.paren,
   h2.pmod.trans h1.pmod, h2.dot.trans h1.dot, h2.comment.trans h1.comment, h2.lenOK, h2.firstOK⟩

theorem ext_len_ne_zero {a b : Frame} {x : Datum} {xs : List Datum} (h : Ext a b (x :: xs)) : b.len ≠ 0 := by
  have := h.lenOK.1
  rw [h.exprs] at this
  simp at this
  omega

/-! ## byte vector elements -/

theorem parse_bytes : (bs : List Nat) → (∀ b ∈ bs, b < 256) → ∀ (items : List LexItem),
    AllTok items (bs.map (fun b => Tok.num (.real (.int (Int.ofNat b))))) →
    ∀ (more : List LexItem) (pf : Nat) (st : PSt) (stack : List Frame) (cur : Frame) (last : Span),
    Good st → cur.comment = 0 → cur.dot = none → LenOK cur → FirstOK cur →
    ∃ st' last' cur', Good st' ∧ Ext cur cur' (bs.map (fun b => Datum.int (Int.ofNat b))) ∧
      pList (pf + bs.length) st stack cur last (items ++ more) = pList pf st' stack cur' last' more
  | [], _, items, hi, more, pf, st, stack, cur, last, hg, hc, hd, hl, hf => by
    have := allTok_nil_inv hi
    subst this
    exact ⟨st, last, cur, hg, ⟨by simp, rfl, rfl, rfl, rfl, rfl, hl, hf⟩, by simp⟩
  | b :: bs, hb, items, hi, more, pf, st, stack, cur, last, hg, hc, hd, hl, hf => by
    obtain ⟨s, e, items', rfl, hi'⟩ := allTok_cons_inv hi
    have hb0 : b < 256 := hb b (by simp)
    have hbyte : (tokByte (Tok.num (.real (.int (Int.ofNat b))))).isSome = true := by
      simp [tokByte]; omega
    obtain ⟨st1, hg1, h1⟩ := pList_atom (Tok.num (.real (.int (Int.ofNat b)))) rfl (pf + bs.length) st stack cur
      last s e (items' ++ more) (Or.inl hbyte) hg hc (Or.inl hd) (fun _ => rfl)
    have hext := ext_pushed cur (Datum.int (Int.ofNat b)) none hl hf (fun _ => rfl)
    obtain ⟨st2, last2, cur2, hg2, hext2, h2⟩ := parse_bytes bs (fun x hx => hb x (by simp [hx])) items' hi' more pf
      st1 stack _ (s, e) hg1 (hext.comment.trans hc) (hext.dot.trans hd) hext.lenOK hext.firstOK
    refine ⟨st2, last2, cur2, hg2, ?_, ?_⟩
    · simpa using hext.trans hext2
    · have e1 : pf + (b :: bs).length = pf + bs.length + 1 := by simp; omega
      rw [e1, List.cons_append, h1]
      exact h2

theorem bytesOf_ints (bs : List Nat) : bytesOf (bs.map (fun b => Datum.int (Int.ofNat b))) = bs := by
  induction bs with
  | nil => rfl
  | cons b bs ih =>
    unfold bytesOf at ih ⊢
    rw [List.map_cons, List.filterMap_cons]
    simp only [Int.toNat_natCast, Int.ofNat_eq_natCast] at ih ⊢
    rw [ih]

end SteelVerif.C12

namespace SteelVerif.C12

theorem normRat_lowest (n : Int) (d : Nat) (h2 : 2 ≤ d) (hg : Nat.gcd n.natAbs d = 1) :
    normRat n (Int.ofNat d) = .rat n d := by
  have hd0 : (Int.ofNat d == 0) = false := by simp; omega
  have hneg : ¬ ((Int.ofNat d) < 0) := by simp
  unfold normRat
  simp only [hd0, Bool.false_eq_true, if_false, hneg]
  have e1 : (Int.ofNat d).natAbs = d := by simp
  simp only [e1, hg]
  simp
  omega

theorem isAtomTok_symTok (s : Text) (h : symOK s = true) : isAtomTok (symTok s) = true := by
  have := atomToDatum_symTok s h
  cases hs : symTok s <;> rw [hs] at this <;> simp [atomToDatum] at this <;> rfl

theorem headOK_cons {x : Datum} {xs : List Datum} (h : headOK (x :: xs) = true) : isQQ x = false := by
  simpa [headOK] using h

theorem newFrame_props (s e : Nat) (m : Option PMod) :
    let nf : Frame := { openS := (s, e), paren := .round, pmod := m }
    nf.comment = 0 ∧ nf.dot = none ∧ LenOK nf ∧ FirstOK nf ∧ nf.len = 0 ∧ nf.exprs = [] := by
  refine ⟨rfl, rfl, ⟨rfl, fun _ => rfl⟩, ?_, rfl, rfl⟩
  intro x hx
  cases hx

/-! ## lists whose elements are all atoms (the `(unquote x)` family: no `FirstOK` needed) -/

theorem toks_atom (d : Datum) (hw : WF d = true) (hc : isCompound d = false) :
    ∃ t, toks d = [t] ∧ isAtomTok t = true ∧ atomToDatum t = d := by
  cases d with
  | int i => exact ⟨_, rfl, rfl, rfl⟩
  | rat n d =>
    refine ⟨_, rfl, rfl, ?_⟩
    simp only [WF, Bool.and_eq_true, decide_eq_true_eq, beq_iff_eq] at hw
    exact normRat_lowest n d hw.1 hw.2
  | bool b => exact ⟨_, rfl, rfl, rfl⟩
  | chr c => exact ⟨_, rfl, rfl, rfl⟩
  | str s => exact ⟨_, rfl, rfl, rfl⟩
  | sym s =>
    have hok : symOK s = true := by simpa [WF] using hw
    exact ⟨_, rfl, isAtomTok_symTok s hok, atomToDatum_symTok s hok⟩
  | flo _ => simp [WF] at hw
  | other _ => simp [WF] at hw
  | list _ => simp [isCompound] at hc
  | vec _ => simp [isCompound] at hc
  | bytes _ => simp [isCompound] at hc
  | pair _ _ => simp [isCompound] at hc


theorem infoOf_atomic (d : Datum) (hc : isCompound d = false) : infoOf d = none := by
  cases d <;> simp [isCompound] at hc <;> rfl

/-- a frame grown by pushes, without any claim about its head -/
structure ExtA (cur cur' : Frame) (xs : List Datum) : Prop where
  exprs : cur'.exprs = cur.exprs ++ xs
  openS : cur'.openS = cur.openS
  paren : cur'.paren = cur.paren
  pmod : cur'.pmod = cur.pmod
  dot : cur'.dot = cur.dot
  comment : cur'.comment = cur.comment
  lenOK : LenOK cur'

theorem Ext.toA {a b : Frame} {xs : List Datum} (h : Ext a b xs) : ExtA a b xs :=
  ⟨h.exprs, h.openS, h.paren, h.pmod, h.dot, h.comment, h.lenOK⟩

theorem extA_pushed (cur : Frame) (d : Datum) (info : Option (List Datum × Bool)) (hl : LenOK cur) :
    ExtA cur (cur.pushed d info) [d] := by
  obtain ⟨h1, h2, h3, h4, h5, _⟩ := pushed_fields cur d info
  obtain ⟨e1, e2⟩ := exprs_pushed cur d info hl
  exact ⟨e1, h1, h2, h3, h4, h5, e2⟩

theorem ExtA.trans {a b c : Frame} {xs ys : List Datum} (h1 : ExtA a b xs) (h2 : ExtA b c ys) :
    ExtA a c (xs ++ ys) :=
  ⟨by rw [h2.exprs, h1.exprs, List.append_assoc], h2.openS.trans h1.openS, h2.paren.trans h1.paren,
   h2.pmod.trans h1.pmod, h2.dot.trans h1.dot, h2.comment.trans h1.comment, h2.lenOK⟩

/-- one written atom inside a list: it is pushed, whatever heads the frame -/
theorem parse_atomic (d : Datum) (hw : WF d = true) (hc : isCompound d = false) (items : List LexItem)
    (hi : AllTok items (toks d)) (more : List LexItem) (pf : Nat) (st : PSt) (stack : List Frame) (cur : Frame)
    (last : Span) (hp : PushOK cur) :
    ∃ st' last', pList (pf + 1) st stack cur last (items ++ more)
        = pList pf st' stack (cur.pushed d none) last' more := by
  obtain ⟨t, ht, hat, hconv⟩ := toks_atom d hw hc
  rw [ht] at hi
  obtain ⟨s, e, items', rfl, hi'⟩ := allTok_cons_inv hi
  have := allTok_nil_inv hi'; subst this
  obtain ⟨st1, _, h1⟩ := pList_atom' t hat pf st stack cur last s e more (Or.inr hp.2.1) hp.1 hp.2.2
  rw [hconv] at h1
  exact ⟨st1, (s, e), by simpa using h1⟩

theorem toksSeq_atoms_length : (xs : List Datum) → WFs xs = true → (∀ x ∈ xs, isCompound x = false) →
    (toksSeq xs).length = xs.length
  | [], _, _ => by simp [toksSeq]
  | x :: xs, hw, ha => by
    simp only [WFs, Bool.and_eq_true] at hw
    obtain ⟨t, ht, _, _⟩ := toks_atom x hw.1 (ha x (by simp))
    simp [toksSeq, ht, toksSeq_atoms_length xs hw.2 (fun y hy => ha y (by simp [hy]))]

/-- a written sequence of atoms inside a list -/
theorem parse_atoms : (xs : List Datum) → WFs xs = true → (∀ x ∈ xs, isCompound x = false) →
    ∀ (items : List LexItem), AllTok items (toksSeq xs) →
    ∀ (more : List LexItem) (pf : Nat) (st : PSt) (stack : List Frame) (cur : Frame) (last : Span),
    cur.comment = 0 → cur.pmod ≠ some .bytes → cur.dot = none → LenOK cur →
    ∃ st' last' cur', ExtA cur cur' xs ∧
      pList (pf + (toksSeq xs).length) st stack cur last (items ++ more) = pList pf st' stack cur' last' more
  | [], _, _, items, hi, more, pf, st, stack, cur, last, hc, hm, hd, hl => by
    have := allTok_nil_inv hi
    subst this
    exact ⟨st, last, cur, ⟨by simp, rfl, rfl, rfl, rfl, rfl, hl⟩, by simp [toksSeq]⟩
  | x :: xs, hw, ha, items, hi, more, pf, st, stack, cur, last, hc, hm, hd, hl => by
    simp only [WFs, Bool.and_eq_true] at hw
    obtain ⟨ix, ixs, rfl, hix, hixs⟩ := allTok_append_inv hi
    have hax := ha x (by simp)
    obtain ⟨st1, last1, h1⟩ := parse_atomic x hw.1 hax ix hix (ixs ++ more) (pf + (toksSeq xs).length)
      st stack cur last ⟨hc, hm, Or.inl hd⟩
    have hext := extA_pushed cur x none hl
    obtain ⟨st2, last2, cur2, hext2, h2⟩ := parse_atoms xs hw.2 (fun y hy => ha y (by simp [hy])) ixs hixs more pf
      st1 stack _ last1 (hext.comment.trans hc) (by rw [hext.pmod]; exact hm) (hext.dot.trans hd) hext.lenOK
    refine ⟨st2, last2, cur2, by simpa using hext.trans hext2, ?_⟩
    obtain ⟨t, ht, _, _⟩ := toks_atom x hw.1 hax
    have e1 : pf + (toksSeq (x :: xs)).length = pf + (toksSeq xs).length + 1 := by
      simp [toksSeq, ht]; omega
    rw [e1, List.append_assoc, h1]
    exact h2

/-- the two ways a list / vector can be in the class: its head is not renamed, or nothing but atoms follows it
    (then all its elements are atoms when the head is one of the renamed symbols) -/
theorem atoms_of_rest {xs : List Datum} (hh : ¬ headOK xs = true) (hr : restAtomic xs = true) :
    ∀ x ∈ xs, isCompound x = false := by
  cases xs with
  | nil => intro x hx; cases hx
  | cons y ys =>
    intro x hx
    rcases List.mem_cons.mp hx with h | h
    · subst h
      have : isQQ x = true := by simpa [headOK] using hh
      cases x <;> simp [isQQ] at this <;> rfl
    · simp only [restAtomic, List.all_eq_true, Bool.not_eq_true'] at hr
      exact hr x h

/-- the elements of a list / vector of the class: through `parse_seq` when the head is not renamed (given as a
    hypothesis, so that this lemma stays outside the mutual recursion), through `parse_atoms` otherwise -/
theorem elems_dispatch (xs : List Datum) (hw1 : WFs xs = true) (hw2 : (headOK xs || restAtomic xs) = true)
    (items : List LexItem) (hi : AllTok items (toksSeq xs))
    (more : List LexItem) (pf : Nat) (st : PSt) (stack : List Frame) (cur : Frame) (last : Span)
    (hc : cur.comment = 0) (hm : cur.pmod ≠ some .bytes) (hd : cur.dot = none) (hl : LenOK cur)
    (hseq : headOK xs = true → ∃ st' last' cur', Good st' ∧ Ext cur cur' xs ∧
      pList (pf + (toksSeq xs).length) st stack cur last (items ++ more) = pList pf st' stack cur' last' more) :
    ∃ st' last' cur', ExtA cur cur' xs ∧
      pList (pf + (toksSeq xs).length) st stack cur last (items ++ more) = pList pf st' stack cur' last' more := by
  by_cases hh : headOK xs = true
  · obtain ⟨st2, last2, cur2, _, hext, h2⟩ := hseq hh
    exact ⟨st2, last2, cur2, hext.toA, h2⟩
  · have hr : restAtomic xs = true := by
      simp only [Bool.or_eq_true] at hw2
      rcases hw2 with h | h
      · exact absurd h hh
      · exact h
    exact parse_atoms xs hw1 (atoms_of_rest hh hr) items hi more pf st stack cur last hc hm hd hl

mutual
/-- the parser, inside a list, on the tokens of one written datum: the datum is pushed -/
theorem parse_datum : (d : Datum) → WF d = true → ∀ (items : List LexItem), AllTok items (toks d) →
    ∀ (more : List LexItem) (pf : Nat) (st : PSt) (stack : List Frame) (cur : Frame) (last : Span),
    Good st → PushOK cur → LenOK cur → FirstOK cur → (cur.len = 0 → isQQ d = false) →
    ∃ st' last', Good st' ∧
      pList (pf + (toks d).length) st stack cur last (items ++ more)
        = pList pf st' stack (cur.pushed d (infoOf d)) last' more
  | .int i, _, items, hi, more, pf, st, stack, cur, last, hg, hp, _, _, hh => by
    obtain ⟨s, e, items', rfl, hi'⟩ := allTok_cons_inv hi
    have := allTok_nil_inv hi'; subst this
    obtain ⟨st1, hg1, h1⟩ := pList_atom (.num (.real (.int i))) rfl pf st stack cur last s e more
      (Or.inr hp.2.1) hg hp.1 hp.2.2 (fun _ => rfl)
    exact ⟨st1, (s, e), hg1, by simpa [toks, infoOf, atomToDatum, numToDatum, realToDatum] using h1⟩
  | .rat n d, hw, items, hi, more, pf, st, stack, cur, last, hg, hp, _, _, hh => by
    obtain ⟨s, e, items', rfl, hi'⟩ := allTok_cons_inv hi
    have := allTok_nil_inv hi'; subst this
    have hconv : atomToDatum (.num (.real (.rat n (Int.ofNat d)))) = .rat n d := by
      simp only [WF, Bool.and_eq_true, decide_eq_true_eq, beq_iff_eq] at hw
      exact normRat_lowest n d hw.1 hw.2
    obtain ⟨st1, hg1, h1⟩ := pList_atom (.num (.real (.rat n (Int.ofNat d)))) rfl pf st stack cur last s e more
      (Or.inr hp.2.1) hg hp.1 hp.2.2 (fun _ => by rw [hconv]; rfl)
    rw [hconv] at h1
    exact ⟨st1, (s, e), hg1, by simpa [toks, infoOf, atomToDatum, numToDatum, realToDatum] using h1⟩
  | .bool b, _, items, hi, more, pf, st, stack, cur, last, hg, hp, _, _, hh => by
    obtain ⟨s, e, items', rfl, hi'⟩ := allTok_cons_inv hi
    have := allTok_nil_inv hi'; subst this
    obtain ⟨st1, hg1, h1⟩ := pList_atom (.bool b) rfl pf st stack cur last s e more
      (Or.inr hp.2.1) hg hp.1 hp.2.2 (fun _ => rfl)
    exact ⟨st1, (s, e), hg1, by simpa [toks, infoOf, atomToDatum, numToDatum, realToDatum] using h1⟩
  | .chr c, _, items, hi, more, pf, st, stack, cur, last, hg, hp, _, _, hh => by
    obtain ⟨s, e, items', rfl, hi'⟩ := allTok_cons_inv hi
    have := allTok_nil_inv hi'; subst this
    obtain ⟨st1, hg1, h1⟩ := pList_atom (.chr c) rfl pf st stack cur last s e more
      (Or.inr hp.2.1) hg hp.1 hp.2.2 (fun _ => rfl)
    exact ⟨st1, (s, e), hg1, by simpa [toks, infoOf, atomToDatum, numToDatum, realToDatum] using h1⟩
  | .str x, _, items, hi, more, pf, st, stack, cur, last, hg, hp, _, _, hh => by
    obtain ⟨s, e, items', rfl, hi'⟩ := allTok_cons_inv hi
    have := allTok_nil_inv hi'; subst this
    obtain ⟨st1, hg1, h1⟩ := pList_atom (.str x) rfl pf st stack cur last s e more
      (Or.inr hp.2.1) hg hp.1 hp.2.2 (fun _ => rfl)
    exact ⟨st1, (s, e), hg1, by simpa [toks, infoOf, atomToDatum, numToDatum, realToDatum] using h1⟩
  | .sym x, hw, items, hi, more, pf, st, stack, cur, last, hg, hp, _, _, hh => by
    obtain ⟨s, e, items', rfl, hi'⟩ := allTok_cons_inv hi
    have := allTok_nil_inv hi'; subst this
    have hok : symOK x = true := by simpa [WF] using hw
    have hconv := atomToDatum_symTok x hok
    obtain ⟨st1, hg1, h1⟩ := pList_atom (symTok x) (isAtomTok_symTok x hok) pf st stack cur last s e more
      (Or.inr hp.2.1) hg hp.1 hp.2.2 (fun h0 => by rw [hconv]; exact hh h0)
    rw [hconv] at h1
    exact ⟨st1, (s, e), hg1, by simpa [toks, infoOf, atomToDatum, numToDatum, realToDatum] using h1⟩
  | .list xs, hw, items, hi, more, pf, st, stack, cur, last, hg, hp, hl, hf, hh => by
    simp only [WF, Bool.and_eq_true] at hw
    obtain ⟨s, e, items1, rfl, hi1⟩ := allTok_cons_inv hi
    obtain ⟨iseq, iclose, rfl, hiseq, hiclose⟩ := allTok_append_inv hi1
    obtain ⟨s', e', ir, rfl, hir⟩ := allTok_cons_inv hiclose
    have := allTok_nil_inv hir; subst this
    obtain ⟨n1, n2, n3, n4, n5, n6⟩ := newFrame_props s e none
    obtain ⟨st2, last2, cur2, hext, h2⟩ := elems_dispatch xs hw.1 hw.2 iseq hiseq
      (.tok (.close .round) s' e' :: more) (pf + 1) st (cur :: stack) _ (s, e) n1 (by simp) n2 n3
      (fun hh => parse_seq xs hw.1 iseq hiseq
        (.tok (.close .round) s' e' :: more) (pf + 1) st (cur :: stack) _ (s, e) hg n1 (by simp) n2 n3 n4
        (fun _ => hh))
    have hg2 : Good st2 := trivial
    have hb := build_list cur2 (s', e') (hext.comment.trans n1) hext.pmod (hext.dot.trans n2)
    obtain ⟨st3, hg3, h3⟩ := pList_close_child pf st2 cur stack cur2 last2 s' e' more _ hext.paren hg2 hf hp hb
    refine ⟨st3, (s', e'), hg3, ?_⟩
    have e1 : pf + (toks (.list xs)).length = pf + 1 + (toksSeq xs).length + 1 := by simp [toks]; omega
    rw [e1, List.cons_append, pList_open]
    rw [show (iseq ++ [LexItem.tok (Tok.close .round) s' e']) ++ more = iseq ++ (.tok (.close .round) s' e' :: more) by simp]
    rw [h2, h3, hext.exprs, n6]
    simp [listVal, infoOf]
  | .vec xs, hw, items, hi, more, pf, st, stack, cur, last, hg, hp, hl, hf, hh => by
    simp only [WF, Bool.and_eq_true] at hw
    obtain ⟨s, e, items1, rfl, hi1⟩ := allTok_cons_inv hi
    obtain ⟨iseq, iclose, rfl, hiseq, hiclose⟩ := allTok_append_inv hi1
    obtain ⟨s', e', ir, rfl, hir⟩ := allTok_cons_inv hiclose
    have := allTok_nil_inv hir; subst this
    obtain ⟨n1, n2, n3, n4, n5, n6⟩ := newFrame_props s e (some .vector)
    obtain ⟨st2, last2, cur2, hext, h2⟩ := elems_dispatch xs hw.1 hw.2 iseq hiseq
      (.tok (.close .round) s' e' :: more) (pf + 1) st (cur :: stack) _ (s, e) n1 (by simp) n2 n3
      (fun hh => parse_seq xs hw.1 iseq hiseq
        (.tok (.close .round) s' e' :: more) (pf + 1) st (cur :: stack) _ (s, e) hg n1 (by simp) n2 n3 n4
        (fun _ => hh))
    have hg2 : Good st2 := trivial
    have hb := build_vec cur2 (s', e') (hext.comment.trans n1) hext.pmod
    obtain ⟨st3, hg3, h3⟩ := pList_close_child pf st2 cur stack cur2 last2 s' e' more _ hext.paren hg2 hf hp hb
    refine ⟨st3, (s', e'), hg3, ?_⟩
    have e1 : pf + (toks (.vec xs)).length = pf + 1 + (toksSeq xs).length + 1 := by simp [toks]; omega
    rw [e1, List.cons_append, pList_open]
    rw [show (iseq ++ [LexItem.tok (Tok.close .round) s' e']) ++ more = iseq ++ (.tok (.close .round) s' e' :: more) by simp]
    rw [h2, h3, hext.exprs, n6]
    simp [infoOf]
  | .bytes bs, hw, items, hi, more, pf, st, stack, cur, last, hg, hp, hl, hf, hh => by
    have hb256 : ∀ b ∈ bs, b < 256 := by
      simp only [WF, List.all_eq_true, decide_eq_true_eq] at hw; exact hw
    obtain ⟨s, e, items1, rfl, hi1⟩ := allTok_cons_inv hi
    obtain ⟨iseq, iclose, rfl, hiseq, hiclose⟩ := allTok_append_inv hi1
    obtain ⟨s', e', ir, rfl, hir⟩ := allTok_cons_inv hiclose
    have := allTok_nil_inv hir; subst this
    obtain ⟨n1, n2, n3, n4, n5, n6⟩ := newFrame_props s e (some .bytes)
    obtain ⟨st2, last2, cur2, hg2, hext, h2⟩ := parse_bytes bs hb256 iseq hiseq
      (.tok (.close .round) s' e' :: more) (pf + 1) st (cur :: stack) _ (s, e) hg n1 n2 n3 n4
    have hb := build_bytes cur2 (s', e') (hext.comment.trans n1) hext.pmod
    obtain ⟨st3, hg3, h3⟩ := pList_close_child pf st2 cur stack cur2 last2 s' e' more _ hext.paren hg2 hf hp hb
    refine ⟨st3, (s', e'), hg3, ?_⟩
    have e1 : pf + (toks (.bytes bs)).length = pf + 1 + bs.length + 1 := by simp [toks]; omega
    rw [e1, List.cons_append, pList_open]
    rw [show (iseq ++ [LexItem.tok (Tok.close .round) s' e']) ++ more = iseq ++ (.tok (.close .round) s' e' :: more) by simp]
    rw [h2, h3, hext.exprs, n6]
    simp only [List.nil_append, bytesOf_ints]
    rfl
  | .pair a d, hw, items, hi, more, pf, st, stack, cur, last, hg, hp, hl, hf, hh => by
    simp only [WF, Bool.and_eq_true, Bool.not_eq_true'] at hw
    obtain ⟨⟨⟨hwa, hwd⟩, hqa⟩, hnl⟩ := hw
    obtain ⟨s, e, items1, rfl, hi1⟩ := allTok_cons_inv hi
    obtain ⟨ia, irest, rfl, hia, hirest⟩ := allTok_append_inv hi1
    obtain ⟨sd, ed, irest2, rfl, hirest2⟩ := allTok_cons_inv hirest
    obtain ⟨id, iclose, rfl, hid, hiclose⟩ := allTok_append_inv hirest2
    obtain ⟨s', e', ir, rfl, hir⟩ := allTok_cons_inv hiclose
    have := allTok_nil_inv hir; subst this
    obtain ⟨n1, n2, n3, n4, n5, n6⟩ := newFrame_props s e none
    -- the car
    obtain ⟨st1, last1, hg1, h1⟩ := parse_datum a hwa ia hia
      (.tok .dot sd ed :: (id ++ (.tok (.close .round) s' e' :: more))) (pf + 1 + (toks d).length + 1)
      st (cur :: stack) { openS := (s, e), paren := .round, pmod := none } (s, e) hg
      ⟨n1, by simp, Or.inl n2⟩ n3 n4 (fun _ => hqa)
    have hexta := ext_pushed { openS := (s, e), paren := .round, pmod := none } a (infoOf a) n3 n4 (fun _ => hqa)
    have hlen1 := ext_len_ne_zero hexta
    -- the dot
    have hdot := pList_dot (pf + 1 + (toks d).length) st1 (cur :: stack) _ last1 sd ed
      (id ++ (.tok (.close .round) s' e' :: more)) (hexta.dot.trans n2) hlen1 hexta.pmod (hexta.comment.trans n1)
    -- the cdr
    let cur1 := ({ openS := (s, e), paren := Paren.round, pmod := none } : Frame).pushed a (infoOf a)
    let cur2 : Frame := { cur1 with dot := some (cur1.len, (sd, ed)) }
    have hl2 : LenOK cur2 := hexta.lenOK
    have hf2 : FirstOK cur2 := hexta.firstOK
    obtain ⟨st3, last3, hg3, h3⟩ := parse_datum d hwd id hid (.tok (.close .round) s' e' :: more) (pf + 1)
      st1 (cur :: stack) cur2 (sd, ed) hg1
      ⟨hexta.comment.trans n1, by show cur1.pmod ≠ _; rw [hexta.pmod]; simp, Or.inr ⟨_, rfl⟩⟩ hl2 hf2
      (fun h0 => absurd h0 hlen1)
    have hextd := ext_pushed cur2 d (infoOf d) hl2 hf2 (fun h0 => absurd h0 hlen1)
    obtain ⟨_, _, _, _, _, hlast⟩ := pushed_fields cur2 d (infoOf d)
    -- the close
    have hlen3 : cur1.len + 1 = (cur2.pushed d (infoOf d)).len := by
      have e1 := hextd.lenOK.1
      have e2 : cur1.len = cur1.exprs.length := hexta.lenOK.1
      rw [hextd.exprs] at e1
      simp at e1
      show cur1.len + 1 = _
      have : cur2.exprs = cur1.exprs := rfl
      rw [this] at e1
      omega
    have hb := build_pair (cur2.pushed d (infoOf d)) (s', e') (sd, ed) cur1.len
      (hextd.comment.trans (hexta.comment.trans n1)) (hextd.pmod.trans hexta.pmod) hextd.dot hlen3
    obtain ⟨st4, hg4, h4⟩ := pList_close_child pf st3 cur stack (cur2.pushed d (infoOf d)) last3 s' e' more _
      (hextd.paren.trans hexta.paren) hg3 hf hp hb
    refine ⟨st4, (s', e'), hg4, ?_⟩
    have e1 : pf + (toks (.pair a d)).length
        = pf + 1 + (toks d).length + 1 + (toks a).length + 1 := by simp [toks]; omega
    rw [e1, List.cons_append, pList_open]
    rw [show (ia ++ LexItem.tok Tok.dot sd ed :: (id ++ [LexItem.tok (Tok.close .round) s' e'])) ++ more
        = ia ++ (.tok .dot sd ed :: (id ++ (.tok (.close .round) s' e' :: more))) by simp]
    rw [h1, hdot, h3, h4]
    -- the value that was built
    have hex : (cur2.pushed d (infoOf d)).exprs = [a, d] := by
      rw [hextd.exprs]
      have : cur2.exprs = cur1.exprs := rfl
      rw [this, hexta.exprs, n6]
      rfl
    rw [hlast, hex]
    have hres : (match infoOf d with
        | some (largs, limp) => listVal ([a, d].dropLast ++ largs) limp ((cur2.pushed d (infoOf d)).openS.1, (s', e').2)
        | none => listVal [a, d] true ((cur2.pushed d (infoOf d)).openS.1, (s', e').2)).d = .pair a d ∧
        (match infoOf d with
        | some (largs, limp) => listVal ([a, d].dropLast ++ largs) limp ((cur2.pushed d (infoOf d)).openS.1, (s', e').2)
        | none => listVal [a, d] true ((cur2.pushed d (infoOf d)).openS.1, (s', e').2)).info = infoOf (.pair a d) := by
      cases d with
      | list xs => simp [isListDatum] at hnl
      | pair x y =>
        simp only [infoOf, listVal, List.dropLast, List.singleton_append, if_true]
        refine ⟨?_, by simp [tailArgs]⟩
        rw [improperDatum_cons a _ (by simp), improperDatum_cons x _ (tailArgs_ne_nil y), improperDatum_tailArgs]
      | _ => exact ⟨rfl, rfl⟩
    rw [hres.1, hres.2]
  | .flo _, h, _, _, _, _, _, _, _, _, _, _, _, _, _ => by simp [WF] at h
  | .other _, h, _, _, _, _, _, _, _, _, _, _, _, _, _ => by simp [WF] at h
/-- the parser on the tokens of a written sequence of data -/
theorem parse_seq : (xs : List Datum) → WFs xs = true → ∀ (items : List LexItem), AllTok items (toksSeq xs) →
    ∀ (more : List LexItem) (pf : Nat) (st : PSt) (stack : List Frame) (cur : Frame) (last : Span),
    Good st → cur.comment = 0 → cur.pmod ≠ some .bytes → cur.dot = none → LenOK cur → FirstOK cur →
    (cur.len = 0 → headOK xs = true) →
    ∃ st' last' cur', Good st' ∧ Ext cur cur' xs ∧
      pList (pf + (toksSeq xs).length) st stack cur last (items ++ more) = pList pf st' stack cur' last' more
  | [], _, items, hi, more, pf, st, stack, cur, last, hg, hc, hm, hd, hl, hf, _ => by
    have := allTok_nil_inv hi
    subst this
    exact ⟨st, last, cur, hg, ⟨by simp, rfl, rfl, rfl, rfl, rfl, hl, hf⟩, by simp [toksSeq]⟩
  | x :: xs, hw, items, hi, more, pf, st, stack, cur, last, hg, hc, hm, hd, hl, hf, hh => by
    simp only [WFs, Bool.and_eq_true] at hw
    obtain ⟨ix, ixs, rfl, hix, hixs⟩ := allTok_append_inv hi
    have hq : cur.len = 0 → isQQ x = false := fun h0 => headOK_cons (hh h0)
    obtain ⟨st1, last1, hg1, h1⟩ := parse_datum x hw.1 ix hix (ixs ++ more) (pf + (toksSeq xs).length)
      st stack cur last hg ⟨hc, hm, Or.inl hd⟩ hl hf hq
    have hext := ext_pushed cur x (infoOf x) hl hf hq
    have hlen := ext_len_ne_zero hext
    obtain ⟨st2, last2, cur2, hg2, hext2, h2⟩ := parse_seq xs hw.2 ixs hixs more pf st1 stack _ last1 hg1
      (hext.comment.trans hc) (by rw [hext.pmod]; exact hm) (hext.dot.trans hd) hext.lenOK hext.firstOK
      (fun h0 => absurd h0 hlen)
    refine ⟨st2, last2, cur2, hg2, by simpa using hext.trans hext2, ?_⟩
    have e1 : pf + (toksSeq (x :: xs)).length = pf + (toksSeq xs).length + (toks x).length := by
      simp [toksSeq]; omega
    rw [e1, List.append_assoc, h1]
    exact h2
end

end SteelVerif.C12
