/-
C12 — token spans fall on character boundaries: every reader leaves a SUFFIX of the text it was given, so (with
the byte accounting of LemmasSpan) every `token_start` / `token_end` is the UTF-8 length of a prefix of the text.
-/
import SteelVerif.C12.LemmasSpan
namespace SteelVerif.C12

theorem split_suffix {w r cs : Text} (h : w ++ r = cs) : r <:+ cs := ⟨w, h⟩

theorem suffix_cons_of {r cs : Text} (c : Char) (h : r <:+ cs) : r <:+ c :: cs := h.trans (List.suffix_cons _ _)

theorem escWs_suf (inc : LexErrKind) : ∀ (cs : Text) (tr : Bool) (pos : Nat), (escWs inc tr pos cs).rest <:+ cs := by
  intro cs
  induction cs with
  | nil => intro tr pos; exact List.suffix_refl _
  | cons c cs ih =>
    intro tr pos
    unfold escWs
    split
    · exact suffix_cons_of c (ih tr (pos + 1))
    · split
      · exact suffix_cons_of c (ih true (pos + 1))
      · split
        · exact List.suffix_refl _
        · exact List.suffix_refl _

theorem scanHex_suf (endCh delim : Char) : ∀ cs : Text,
    match scanHex endCh delim cs with
    | .eof _ => True
    | .done _ r => r <:+ cs
    | .bad _ _ r => r <:+ cs := by
  intro cs
  induction cs with
  | nil => simp [scanHex]
  | cons c cs ih =>
    unfold scanHex
    by_cases h1 : (c == endCh) = true
    · simp only [h1, if_true]; exact List.suffix_cons _ _
    · simp only [h1, Bool.false_eq_true, if_false]
      by_cases h2 : (hexStop c || c == delim) = true
      · simp only [h2, if_true]; exact List.suffix_cons _ _
      · simp only [h2, Bool.false_eq_true, if_false]
        cases hsc : scanHex endCh delim cs with
        | eof ds => trivial
        | done ds r => rw [hsc] at ih; exact suffix_cons_of c ih
        | bad ds s r => rw [hsc] at ih; exact suffix_cons_of c ih

theorem hexOpen_suf (code : Char) (pos : Nat) (cs : Text) : (hexOpen code pos cs).2.2 <:+ cs := by
  unfold hexOpen
  split
  · split
    · exact List.suffix_cons _ _
    · exact List.suffix_refl _
  · exact List.suffix_refl _

theorem readHexEscape_suf (inc : LexErrKind) (delim : Char) (start pos1 : Nat)
    (endCh : Char) (cs1 : Text) : (readHexEscape inc delim start pos1 endCh cs1).rest <:+ cs1 := by
  have hsc := scanHex_suf endCh delim cs1
  unfold readHexEscape
  cases hh : scanHex endCh delim cs1 with
  | eof ds => exact List.nil_suffix
  | bad ds st r => rw [hh] at hsc; exact hsc
  | done ds r =>
    rw [hh] at hsc
    simp only
    cases parseHexU32 ds with
    | none => exact hsc
    | some n =>
      simp only
      split
      · exact hsc
      · exact hsc

theorem readEscape_suf (inc : LexErrKind) (delim : Char) :
    ∀ (cs : Text) (pos : Nat), (readEscape inc delim pos cs).rest <:+ cs := by
  intro cs pos
  cases cs with
  | nil => exact List.suffix_refl _
  | cons c cs =>
    have hone : cs <:+ c :: cs := List.suffix_cons _ _
    unfold readEscape
    simp only
    by_cases h1 : (c == '"') = true
    · rw [if_pos h1]; exact hone
    rw [if_neg h1]
    by_cases h2 : (c == 'a') = true
    · rw [if_pos h2]; exact hone
    rw [if_neg h2]
    by_cases h3 : (c == 'b') = true
    · rw [if_pos h3]; exact hone
    rw [if_neg h3]
    by_cases h4 : (c == '\\') = true
    · rw [if_pos h4]; exact hone
    rw [if_neg h4]
    by_cases h5 : (c == '|') = true
    · rw [if_pos h5]; exact hone
    rw [if_neg h5]
    by_cases h6 : (c == 't') = true
    · rw [if_pos h6]; exact hone
    rw [if_neg h6]
    by_cases h7 : (c == 'n') = true
    · rw [if_pos h7]; exact hone
    rw [if_neg h7]
    by_cases h8 : (c == 'r') = true
    · rw [if_pos h8]; exact hone
    rw [if_neg h8]
    by_cases h9 : (c == '0') = true
    · rw [if_pos h9]; exact hone
    rw [if_neg h9]
    by_cases hx : (c == 'x' || c == 'u') = true
    · rw [if_pos hx]
      exact suffix_cons_of c ((readHexEscape_suf inc delim _ _ _ _).trans (hexOpen_suf c (pos + 1) cs))
    rw [if_neg hx]
    by_cases hw : (c == ' ' || c == '\t' || c == '\n') = true
    · rw [if_pos hw]
      exact suffix_cons_of c (escWs_suf inc cs (c == '\n') (pos + 1))
    rw [if_neg hw]
    exact List.suffix_refl _

theorem readStr_suf : ∀ (f pos : Nat) (buf cs : Text), (readStr f pos buf cs).rest <:+ cs := by
  intro f
  induction f with
  | zero => intro pos buf cs; exact List.suffix_refl _
  | succ f ih =>
    intro pos buf cs
    cases cs with
    | nil => exact List.suffix_refl _
    | cons c cs =>
      unfold readStr
      simp only
      split
      · exact List.suffix_cons _ _
      · split
        · have he := readEscape_suf .incompleteString '"' cs (pos + c.utf8Size)
          cases hr : (readEscape .incompleteString '"' (pos + c.utf8Size) cs).res with
          | error k => simp only; exact suffix_cons_of c he
          | ok o =>
            cases o with
            | none => simp only; exact suffix_cons_of c ((ih _ buf _).trans he)
            | some ch => simp only; exact suffix_cons_of c ((ih _ (ch :: buf) _).trans he)
        · exact suffix_cons_of c (ih _ (c :: buf) cs)

theorem scanBar_suf : ∀ (f pos : Nat) (raw ident cs : Text),
    match scanBar f pos raw ident cs with
    | .ok (_, _, _, r) => r <:+ cs
    | .error (_, _, _, r) => r <:+ cs := by
  intro f
  induction f with
  | zero => intro pos raw ident cs; simp [scanBar]
  | succ f ih =>
    intro pos raw ident cs
    cases cs with
    | nil => simp [scanBar]
    | cons c cs =>
      unfold scanBar
      simp only
      by_cases h1 : (c == '|') = true
      · simp only [h1, if_true]; exact List.suffix_cons _ _
      · simp only [h1, Bool.false_eq_true, if_false]
        by_cases h2 : (c == '\\') = true
        · simp only [h2, if_true]
          have he := readEscape_suf .incompleteIdent '|' cs (pos + c.utf8Size)
          cases hr : (readEscape .incompleteIdent '|' (pos + c.utf8Size) cs).res with
          | error k => simp only; exact suffix_cons_of c he
          | ok o =>
            cases o with
            | none =>
              simp only
              have := ih (readEscape .incompleteIdent '|' (pos + c.utf8Size) cs).pos
                ((cs.take (cs.length - (readEscape .incompleteIdent '|' (pos + c.utf8Size) cs).rest.length)).reverse ++ c :: raw)
                ident (readEscape .incompleteIdent '|' (pos + c.utf8Size) cs).rest
              revert this
              cases scanBar f _ _ ident _ with
              | ok v => obtain ⟨_, _, p, r⟩ := v; intro this; exact suffix_cons_of c (this.trans he)
              | error v => obtain ⟨k, e, p, r⟩ := v; intro this; exact suffix_cons_of c (this.trans he)
            | some ch =>
              simp only
              have := ih (readEscape .incompleteIdent '|' (pos + c.utf8Size) cs).pos
                ((cs.take (cs.length - (readEscape .incompleteIdent '|' (pos + c.utf8Size) cs).rest.length)).reverse ++ c :: raw)
                (ch :: ident) (readEscape .incompleteIdent '|' (pos + c.utf8Size) cs).rest
              revert this
              cases scanBar f _ _ (ch :: ident) _ with
              | ok v => obtain ⟨_, _, p, r⟩ := v; intro this; exact suffix_cons_of c (this.trans he)
              | error v => obtain ⟨k, e, p, r⟩ := v; intro this; exact suffix_cons_of c (this.trans he)
        · simp only [h2, Bool.false_eq_true, if_false]
          have := ih (pos + c.utf8Size) (c :: raw) (c :: ident) cs
          revert this
          cases scanBar f (pos + c.utf8Size) (c :: raw) (c :: ident) cs with
          | ok v => obtain ⟨_, _, p, r⟩ := v; intro this; exact suffix_cons_of c this
          | error v => obtain ⟨k, e, p, r⟩ := v; intro this; exact suffix_cons_of c this

theorem hereDelim_suf : ∀ (cs : Text) (pos : Nat) (acc : Text),
    match hereDelim pos acc cs with
    | .ok (_, _, r) => r <:+ cs
    | .error (_, _, r) => r <:+ cs := by
  intro cs
  induction cs with
  | nil => intro pos acc; simp [hereDelim]
  | cons c cs ih =>
    intro pos acc
    unfold hereDelim
    simp only
    by_cases h1 : (c == '\n') = true
    · simp only [h1, if_true]; exact List.suffix_cons _ _
    · simp only [h1, Bool.false_eq_true, if_false]
      by_cases h2 : (c == '\r') = true
      · simp only [h2, if_true]
        have := ih (pos + c.utf8Size) acc
        cases hh : hereDelim (pos + c.utf8Size) acc cs with
        | ok v => rw [hh] at this; obtain ⟨_, p, r⟩ := v; exact suffix_cons_of c this
        | error v => rw [hh] at this; obtain ⟨k, p, r⟩ := v; exact suffix_cons_of c this
      · simp only [h2, Bool.false_eq_true, if_false]
        by_cases h3 : isWs c = true
        · simp only [h3, if_true]; exact List.suffix_cons _ _
        · simp only [h3, Bool.false_eq_true, if_false]
          have := ih (pos + c.utf8Size) (c :: acc)
          cases hh : hereDelim (pos + c.utf8Size) (c :: acc) cs with
          | ok v => rw [hh] at this; obtain ⟨_, p, r⟩ := v; exact suffix_cons_of c this
          | error v => rw [hh] at this; obtain ⟨k, p, r⟩ := v; exact suffix_cons_of c this

theorem hereBody_suf (dl : Text) : ∀ (cs : Text) (pos : Nat) (buf : Text), (hereBody dl pos buf cs).rest <:+ cs := by
  intro cs
  induction cs with
  | nil => intro pos buf; exact List.suffix_refl _
  | cons c cs ih =>
    intro pos buf
    unfold hereBody
    simp only
    split
    · exact List.suffix_cons _ _
    · exact suffix_cons_of c (ih _ _)

theorem readHere_suf (pos : Nat) (cs : Text) : (readHere pos cs).rest <:+ cs := by
  unfold readHere
  have := hereDelim_suf cs pos []
  cases hh : hereDelim pos [] cs with
  | error v => rw [hh] at this; obtain ⟨k, p, r⟩ := v; exact this
  | ok v => rw [hh] at this; obtain ⟨dl, p, r⟩ := v; exact (hereBody_suf _ r p []).trans this

theorem readWord_suf (acc : Text) (pos : Nat) (cs : Text) : (readWord acc pos cs).rest <:+ cs := by
  unfold readWord
  split
  · rename_i cs1
    have hb := scanBar_suf (cs1.length + 1) (pos + 1) [] [] cs1
    cases hh : scanBar (cs1.length + 1) (pos + 1) [] [] cs1 with
    | error v => rw [hh] at hb; obtain ⟨k, e, p, r⟩ := v; exact suffix_cons_of _ hb
    | ok v =>
      rw [hh] at hb
      obtain ⟨raw, ident, p, r⟩ := v
      simp only
      split <;> exact suffix_cons_of _ hb
  · have hs := split_suffix (scanWordAux_split cs false)
    show (match wordToken (acc ++ (scanWord cs).1) false [] with
      | .ok (t, q) => ({ res := .ok t, pos := pos + utf8Len (scanWord cs).1, rest := (scanWord cs).2, queued := q } : Step)
      | .error k => { res := .error k, pos := pos + utf8Len (scanWord cs).1, rest := (scanWord cs).2 }).rest <:+ cs
    unfold scanWord
    split <;> exact hs

theorem readNumber_suf (acc : Text) (pos : Nat) (cs : Text) : (readNumber acc pos cs).rest <:+ cs := by
  have hs := split_suffix (scanNum_split cs)
  have hw := (readWord_suf (acc ++ (scanNum cs).1) (pos + utf8Len (scanNum cs).1) (scanNum cs).2).trans hs
  have htry :
      (match tryParseNumber (acc ++ (scanNum cs).1) with
       | some (.ok n) => ({ res := .ok (.num n), pos := pos + utf8Len (scanNum cs).1, rest := (scanNum cs).2 } : Step)
       | some (.error k) => { res := .error k, pos := pos + utf8Len (scanNum cs).1, rest := (scanNum cs).2 }
       | none => readWord (acc ++ (scanNum cs).1) (pos + utf8Len (scanNum cs).1) (scanNum cs).2).rest <:+ cs := by
    split
    · exact hs
    · exact hs
    · exact hw
  unfold readNumber
  simp only
  split
  · exact htry
  · split
    · exact htry
    · exact hw

theorem readHash_suf (tokStart pos : Nat) (cs : Text) : (readHash tokStart pos cs).rest <:+ cs := by
  have hs := split_suffix (scanHashAux_split cs false)
  have hplain : (scanHash cs).2 <:+ cs := by unfold scanHash; exact hs
  have hw : (readWord ('#' :: (scanHash cs).1) (pos + utf8Len (scanHash cs).1) (scanHash cs).2).rest <:+ cs :=
    (readWord_suf _ _ _).trans hplain
  have hopen : ∀ (r' : Text), (scanHash cs).2 = '(' :: r' → r' <:+ cs := by
    intro r' heq
    rw [heq] at hplain
    exact (List.suffix_cons _ _).trans hplain
  unfold readHash
  simp only
  split
  · exact hplain
  split
  · exact hplain
  split
  · exact hplain
  split
  · exact hplain
  split
  · exact hplain
  split
  · exact hplain
  split
  · exact hplain
  · split
    · exact hplain
    · split
      · exact hplain
      · exact hplain
  · split
    · rename_i r' heq
      split
      · exact hopen r' heq
      · split
        · exact hopen r' heq
        · exact hw
    · exact hw

theorem nestComment_suf : ∀ (cs : Text) (prev depth pos : Nat), (nestComment prev depth pos cs).rest <:+ cs := by
  intro cs
  induction cs with
  | nil => intro prev depth pos; exact List.suffix_refl _
  | cons c cs ih =>
    intro prev depth pos
    unfold nestComment
    simp only
    have hsh : ∀ (p d : Nat), (nestComment p d (pos + c.utf8Size) cs).rest <:+ c :: cs :=
      fun p d => suffix_cons_of c (ih p d _)
    split
    · split
      · exact List.suffix_cons _ _
      · exact hsh _ _
    · split
      · exact hsh _ _
      · split
        · exact hsh _ _
        · split
          · exact hsh _ _
          · exact hsh _ _

/-- one token: what is left is a suffix of the text the token started on -/
theorem lexOne_suf (pos : Nat) (c : Char) (cs : Text) : (lexOne pos c cs).rest <:+ c :: cs := by
  have hsimple : cs <:+ c :: cs := List.suffix_cons _ _
  unfold lexOne
  by_cases h1 : (c == ';') = true
  · rw [if_pos h1]; exact suffix_cons_of c (split_suffix (restOfLine_split cs))
  rw [if_neg h1]
  by_cases h2 : (c == '"') = true
  · rw [if_pos h2]; exact suffix_cons_of c (readStr_suf _ _ _ _)
  rw [if_neg h2]
  by_cases h3 : (c == '(') = true
  · rw [if_pos h3]; exact hsimple
  rw [if_neg h3]
  by_cases h4 : (c == '[') = true
  · rw [if_pos h4]; exact hsimple
  rw [if_neg h4]
  by_cases h5 : (c == '{') = true
  · rw [if_pos h5]; exact hsimple
  rw [if_neg h5]
  by_cases h6 : (c == ')') = true
  · rw [if_pos h6]; exact hsimple
  rw [if_neg h6]
  by_cases h7 : (c == ']') = true
  · rw [if_pos h7]; exact hsimple
  rw [if_neg h7]
  by_cases h8 : (c == '}') = true
  · rw [if_pos h8]; exact hsimple
  rw [if_neg h8]
  by_cases h9 : (c == '\'') = true
  · rw [if_pos h9]; exact hsimple
  rw [if_neg h9]
  by_cases h10 : (c == '`') = true
  · rw [if_pos h10]; exact hsimple
  rw [if_neg h10]
  by_cases h11 : (c == ',') = true
  · rw [if_pos h11]
    split
    · exact suffix_cons_of c (List.suffix_cons _ _)
    · exact hsimple
  rw [if_neg h11]
  by_cases h12 : (c == '+' || c == '-' || c == '.') = true
  · rw [if_pos h12]; exact suffix_cons_of c (readNumber_suf _ _ _)
  rw [if_neg h12]
  by_cases h13 : (c == '#') = true
  · rw [if_pos h13]
    cases cs with
    | nil => exact suffix_cons_of c (readHash_suf _ _ _)
    | cons d cs' =>
      simp only
      by_cases g1 : (d == 'x' || d == 'X' || d == 'd' || d == 'D' || d == 'o' || d == 'O' || d == 'b' || d == 'B') = true
      · rw [if_pos g1]; exact suffix_cons_of c (suffix_cons_of d (readNumber_suf _ _ _))
      rw [if_neg g1]
      by_cases g2 : (d == '|') = true
      · rw [if_pos g2]; exact suffix_cons_of c (suffix_cons_of d (nestComment_suf _ _ _ _))
      rw [if_neg g2]
      by_cases g3 : (d == ';') = true
      · rw [if_pos g3]; exact suffix_cons_of c (List.suffix_cons _ _)
      rw [if_neg g3]
      by_cases g4 : (d == '#') = true
      · rw [if_pos g4]; exact suffix_cons_of c (List.suffix_cons _ _)
      rw [if_neg g4]
      by_cases g5 : (d == '<') = true
      · rw [if_pos g5]
        split
        · exact suffix_cons_of c (suffix_cons_of d (suffix_cons_of _ (readHere_suf _ _)))
        · exact suffix_cons_of c (suffix_cons_of d (readWord_suf _ _ _))
      rw [if_neg g5]
      exact suffix_cons_of c (readHash_suf _ _ _)
  rw [if_neg h13]
  by_cases h14 : (isDigit c && c != '_') = true
  · rw [if_pos h14]; exact readNumber_suf _ _ _
  rw [if_neg h14]
  exact readWord_suf _ _ _

/-! ## boundaries -/

/-- `p` is a character boundary of `src`: the UTF-8 length of a prefix -/
def Boundary (src : Text) (p : Nat) : Prop := ∃ pre suf, src = pre ++ suf ∧ p = utf8Len pre

theorem boundary_zero (src : Text) : Boundary src 0 := ⟨[], src, rfl, rfl⟩
theorem boundary_end (src : Text) : Boundary src (utf8Len src) := ⟨src, [], by simp, rfl⟩

/-- a reader that started at a boundary, accounts for its bytes and leaves a suffix, stops at a boundary -/
theorem boundary_step {src pre cs rest : Text} {p q : Nat} (hsrc : src = pre ++ cs) (hp : p = utf8Len pre)
    (hsuf : rest <:+ cs) (hacct : q + utf8Len rest = p + utf8Len cs) :
    ∃ pre', src = pre' ++ rest ∧ q = utf8Len pre' := by
  obtain ⟨mid, hmid⟩ := hsuf
  refine ⟨pre ++ mid, by rw [hsrc, ← hmid, List.append_assoc], ?_⟩
  rw [← hmid, utf8Len_append] at hacct
  rw [utf8Len_append]
  omega

def IsTok : LexItem → Bool
  | .tok _ _ _ => true
  | .err _ _ _ => false

/-- every TOKEN of the stream starts and ends on a character boundary of the text -/
theorem lexLoop_boundaries (src : Text) : ∀ (f : Nat) (st : LexSt) (cs : Text) (pre : Text),
    src = pre ++ cs → st.pos = utf8Len pre → Boundary src st.tokStart →
    ∀ it ∈ lexLoop f st cs, IsTok it = true → Boundary src it.s ∧ Boundary src it.e := by
  intro f
  induction f with
  | zero =>
    intro st cs pre _ _ _ it hit htok
    simp [lexLoop] at hit
    subst hit
    simp [IsTok] at htok
  | succ f ih =>
    intro st cs pre hsrc hpos hts
    unfold lexLoop
    cases hq : st.queued with
    | some t =>
      simp only
      intro it hit htok
      rcases List.mem_cons.mp hit with h | h
      · subst h
        exact ⟨hts, ⟨pre, cs, hsrc, hpos⟩⟩
      · exact ih { st with queued := none } cs pre hsrc hpos hts it h htok
    | none =>
      simp only
      cases hcs1 : (skipWs cs).2 with
      | nil => intro it hit; simp at hit
      | cons c rest =>
        simp only
        have hsplit := skipWs_split cs
        rw [hcs1] at hsplit
        -- the token starts after the blanks
        have hsrc1 : src = (pre ++ (skipWs cs).1) ++ (c :: rest) := by
          rw [List.append_assoc, hsplit]; exact hsrc
        generalize hstart : st.pos + utf8Len (skipWs cs).1 = start
        have hstartB : start = utf8Len (pre ++ (skipWs cs).1) := by
          rw [utf8Len_append]; omega
        have hone := lexOne_ok start c rest
        have hsuf := lexOne_suf start c rest
        generalize hs1 : lexOne start c rest = s1 at hone hsuf
        obtain ⟨pre', hsrc', hpos'⟩ := boundary_step hsrc1 hstartB hsuf hone.acct
        have hstartBd : Boundary src start := ⟨_, _, hsrc1, hstartB⟩
        have hrec := ih { pos := s1.pos, tokStart := start, errSpan := newErrSpan s1.err st.errSpan,
                          queued := s1.queued } s1.rest pre' hsrc' hpos' hstartBd
        cases hres : s1.res with
        | ok t =>
          simp only
          intro it hit htok
          rcases List.mem_cons.mp hit with h | h
          · subst h
            exact ⟨hstartBd, ⟨pre', s1.rest, hsrc', hpos'⟩⟩
          · exact hrec it h htok
        | error k =>
          simp only
          intro it hit htok
          rcases List.mem_cons.mp hit with h | h
          · subst h; simp [IsTok] at htok
          · exact hrec it h htok

/-- `spans_on_char_boundaries` for tokens -/
theorem lex_boundaries (src : Text) : ∀ it ∈ lex src, IsTok it = true → Boundary src it.s ∧ Boundary src it.e := by
  unfold lex
  have hs := shebang_split src
  simp only
  exact lexLoop_boundaries src _ _ _ (shebang src).1 hs.symm rfl ⟨_, _, hs.symm, rfl⟩

end SteelVerif.C12
