/-
C12 — the token stream of a written datum: `lexLoop` on `writeP d ++ rest`.
-/
import SteelVerif.C12.LemmasLex
namespace SteelVerif.C12

mutual
/-- the writer without the depth cut-off -/
def writeP : Datum → Text
  | .int i => writeInt i
  | .rat n d => writeInt n ++ '/' :: decDigits d
  | .bool b => if b then t!"#true" else t!"#false"
  | .chr c => writeChar c
  | .str s => writeStr s
  | .sym s => s
  | .list xs => '(' :: (writePSeq xs ++ [')'])
  | .pair a d => '(' :: (writeP a ++ ' ' :: '.' :: ' ' :: (writeP d ++ [')']))
  | .vec xs => '#' :: '(' :: (writePSeq xs ++ [')'])
  | .bytes bs => '#' :: 'u' :: '8' :: '(' :: (writeBytes bs ++ [')'])
  | .flo r => writeReal r
  | .other w => w
def writePSeq : List Datum → Text
  | [] => []
  | [x] => writeP x
  | x :: y :: r => writeP x ++ ' ' :: writePSeq (y :: r)
end

mutual
/-- the tokens of a written datum -/
def toks : Datum → List Tok
  | .int i => [.num (.real (.int i))]
  | .rat n d => [.num (.real (.rat n (Int.ofNat d)))]
  | .bool b => [.bool b]
  | .chr c => [.chr c]
  | .str s => [.str s]
  | .sym s => [symTok s]
  | .list xs => .open_ .round none :: (toksSeq xs ++ [.close .round])
  | .pair a d => .open_ .round none :: (toks a ++ .dot :: (toks d ++ [.close .round]))
  | .vec xs => .open_ .round (some .vector) :: (toksSeq xs ++ [.close .round])
  | .bytes bs =>
    .open_ .round (some .bytes) :: (bs.map (fun b => Tok.num (.real (.int (Int.ofNat b)))) ++ [.close .round])
  | .flo _ => []
  | .other _ => []
def toksSeq : List Datum → List Tok
  | [] => []
  | x :: xs => toks x ++ toksSeq xs
end

def LexItem.tok? : LexItem → Option Tok
  | .tok t _ _ => some t
  | .err _ _ _ => none

/-- `items` are exactly the tokens `ts` (with whatever spans) -/
def AllTok (items : List LexItem) (ts : List Tok) : Prop := items.map LexItem.tok? = ts.map some

/-- lexing `text` (followed by a delimiter) yields the tokens `ts` and continues with the rest -/
def LexRun (text : Text) (ts : List Tok) : Prop :=
  ∀ rest f st, delimStart rest = true → st.queued = none →
    ∃ items st', st'.queued = none ∧ AllTok items ts ∧
      lexLoop (f + ts.length) st (text ++ rest) = items ++ lexLoop f st' rest

def AllWs (ws : Text) : Prop := ∀ c ∈ ws, isWs c = true

theorem skipWs_append (ws cs : Text) (h : AllWs ws) :
    skipWs (ws ++ cs) = (ws ++ (skipWs cs).1, (skipWs cs).2) := by
  induction ws with
  | nil => simp
  | cons c w ih =>
    have hc := h c (by simp)
    have := ih (fun x hx => h x (by simp [hx]))
    simp [skipWs, hc, this]

/-- leading whitespace only moves the position -/
theorem lexLoop_skip_ws (ws cs : Text) (f : Nat) (st : LexSt) (h : AllWs ws) (hq : st.queued = none) :
    lexLoop f st (ws ++ cs) = lexLoop f { st with pos := st.pos + utf8Len ws } cs := by
  cases f with
  | zero => rfl
  | succ f =>
    simp only [lexLoop, hq]
    rw [skipWs_append ws cs h]
    simp only [utf8Len_append, Nat.add_assoc]

/-- one token step of the loop -/
theorem lexLoop_tok (c : Char) (cs : Text) (f : Nat) (st : LexSt) (t : Tok) (hq : st.queued = none)
    (hc : isWs c = false) (hres : (lexOne st.pos c cs).res = .ok t)
    (hqd : (lexOne st.pos c cs).queued = none) :
    ∃ st', st'.queued = none ∧
      lexLoop (f + 1) st (c :: cs) = .tok t st.pos (lexOne st.pos c cs).pos :: lexLoop f st' (lexOne st.pos c cs).rest := by
  refine ⟨{ pos := (lexOne st.pos c cs).pos, tokStart := st.pos,
            errSpan := match (lexOne st.pos c cs).err with | some e => e | none => st.errSpan,
            queued := none }, rfl, ?_⟩
  have hsk : skipWs (c :: cs) = ([], c :: cs) := by simp [skipWs, hc]
  rw [lexLoop]
  simp only [hq, hsk, utf8Len, Nat.add_zero, hres, hqd]
  rfl

theorem lexRun_of_lexesTo (text : Text) (t : Tok) (h : LexesTo text t) : LexRun text [t] := by
  intro rest f st hr hq
  obtain ⟨c, cs, hcs, hws, hres, hrest, hqd⟩ := h rest st.pos hr
  obtain ⟨st', hq', hstep⟩ := lexLoop_tok c cs f st t hq hws hres hqd
  refine ⟨[.tok t st.pos (lexOne st.pos c cs).pos], st', hq', rfl, ?_⟩
  rw [hcs]
  simp only [List.length_singleton, hstep, hrest]
  rfl

theorem allTok_append {a b : List LexItem} {ta tb : List Tok} (ha : AllTok a ta) (hb : AllTok b tb) :
    AllTok (a ++ b) (ta ++ tb) := by
  unfold AllTok at *
  simp [ha, hb]

/-- sequential composition, when the second text starts with a blank -/
theorem lexRun_blank (a b : Text) (ta tb : List Tok) (ha : LexRun a ta) (hb : LexRun b tb) :
    LexRun (a ++ ' ' :: b) (ta ++ tb) := by
  intro rest f st hr hq
  obtain ⟨i1, st1, hq1, ht1, h1⟩ := ha (' ' :: (b ++ rest)) (f + tb.length) st rfl hq
  have hskip := lexLoop_skip_ws [' '] (b ++ rest) (f + tb.length) st1 (by intro c hc; simp at hc; subst hc; rfl) hq1
  obtain ⟨i2, st2, hq2, ht2, h2⟩ := hb rest f { st1 with pos := st1.pos + utf8Len [' '] } hr hq1
  refine ⟨i1 ++ i2, st2, hq2, allTok_append ht1 ht2, ?_⟩
  have e1 : f + (ta ++ tb).length = f + tb.length + ta.length := by simp; omega
  have e2 : (a ++ ' ' :: b) ++ rest = a ++ (' ' :: (b ++ rest)) := by simp
  rw [e1, e2, h1]
  rw [show ' ' :: (b ++ rest) = [' '] ++ (b ++ rest) from rfl, hskip, h2]
  simp

end SteelVerif.C12

namespace SteelVerif.C12

/-- an opening bracket text: lexed as one token whatever follows -/
def Opener (opn : Text) (t : Tok) : Prop :=
  ∀ p cs, ∃ c0 cs0, opn ++ cs = c0 :: cs0 ∧ isWs c0 = false ∧
    (lexOne p c0 cs0).res = .ok t ∧ (lexOne p c0 cs0).rest = cs ∧ (lexOne p c0 cs0).queued = none

theorem opener_round : Opener ['('] (.open_ .round none) :=
  fun p cs => ⟨'(', cs, rfl, by decide, rfl, rfl, rfl⟩

theorem opener_vec : Opener ['#', '('] (.open_ .round (some .vector)) :=
  fun p cs => ⟨'#', '(' :: cs, rfl, by decide, rfl, rfl, rfl⟩

theorem opener_bytes : Opener ['#', 'u', '8', '('] (.open_ .round (some .bytes)) :=
  fun p cs => ⟨'#', 'u' :: '8' :: '(' :: cs, rfl, by decide, rfl, rfl, rfl⟩

/-- `opn body )` -/
theorem lexRun_wrap (opn body : Text) (topen : Tok) (ts : List Tok) (ho : Opener opn topen)
    (hb : LexRun body ts) : LexRun (opn ++ body ++ [')']) (topen :: (ts ++ [.close .round])) := by
  intro rest f st hr hq
  obtain ⟨c0, cs0, hcs, hws, hres, hrest, hqd⟩ := ho st.pos (body ++ ')' :: rest)
  obtain ⟨st1, hq1, h1⟩ := lexLoop_tok c0 cs0 (f + 1 + ts.length) st topen hq hws hres hqd
  obtain ⟨i2, st2, hq2, ht2, h2⟩ := hb (')' :: rest) (f + 1) st1 rfl hq1
  obtain ⟨st3, hq3, h3⟩ := lexLoop_tok ')' rest f st2 (.close .round) hq2 (by decide) rfl rfl
  refine ⟨.tok topen st.pos (lexOne st.pos c0 cs0).pos :: (i2 ++ [.tok (.close .round) st2.pos (lexOne st2.pos ')' rest).pos]),
    st3, hq3, ?_, ?_⟩
  · unfold AllTok at *
    simp [LexItem.tok?, ht2]
  · have e1 : f + (topen :: (ts ++ [Tok.close .round])).length = f + 1 + ts.length + 1 := by simp; omega
    have e2 : (opn ++ body ++ [')']) ++ rest = opn ++ (body ++ ')' :: rest) := by simp
    rw [e1, e2, hcs, h1, hrest, h2, h3]
    simp [lexOne_close]

/-- ` . b` after the car of a pair (the blank before the dot is consumed by the caller) -/
theorem lexRun_dot (b : Text) (tb : List Tok) (hb : LexRun b tb) : LexRun ('.' :: ' ' :: b) (.dot :: tb) := by
  intro rest f st hr hq
  obtain ⟨st1, hq1, h1⟩ := lexLoop_tok '.' (' ' :: (b ++ rest)) (f + tb.length) st .dot hq (by decide) rfl rfl
  have hskip := lexLoop_skip_ws [' '] (b ++ rest) (f + tb.length) st1
    (by intro c hc; simp at hc; subst hc; rfl) hq1
  obtain ⟨i2, st2, hq2, ht2, h2⟩ := hb rest f { st1 with pos := st1.pos + utf8Len [' '] } hr hq1
  refine ⟨.tok .dot st.pos (lexOne st.pos '.' (' ' :: (b ++ rest))).pos :: i2, st2, hq2, ?_, ?_⟩
  · unfold AllTok at *
    simp [LexItem.tok?, ht2]
  · have e1 : f + (Tok.dot :: tb).length = f + tb.length + 1 := by simp; omega
    rw [e1, show ('.' :: ' ' :: b) ++ rest = '.' :: ' ' :: (b ++ rest) from rfl, h1]
    rw [show (lexOne st.pos '.' (' ' :: (b ++ rest))).rest = [' '] ++ (b ++ rest) from rfl, hskip, h2]
    simp

theorem lexRun_nil : LexRun [] [] := by
  intro rest f st _ hq
  exact ⟨[], st, hq, rfl, by simp⟩

/-- the elements of a byte vector -/
theorem lexRun_bytes : (bs : List Nat) → (∀ b ∈ bs, b < 256) →
    LexRun (writeBytes bs) (bs.map (fun b => Tok.num (.real (.int (Int.ofNat b)))))
  | [], _ => lexRun_nil
  | [b], h => by
    simpa [writeBytes] using lexRun_of_lexesTo _ _ (lexesTo_byte b (h b (by simp)))
  | b :: c :: r, h => by
    have h1 := lexRun_of_lexesTo _ _ (lexesTo_byte b (h b (by simp)))
    have h2 := lexRun_bytes (c :: r) (fun x hx => h x (by simp [hx]))
    have := lexRun_blank _ _ _ _ h1 h2
    simpa [writeBytes] using this

mutual
theorem lexRun_datum : (d : Datum) → WF d = true → LexRun (writeP d) (toks d)
  | .int i, _ => lexRun_of_lexesTo _ _ (lexesTo_int i)
  | .rat n d, h => by
    have hd : d ≠ 0 := by
      simp only [WF, Bool.and_eq_true, decide_eq_true_eq] at h; omega
    exact lexRun_of_lexesTo _ _ (lexesTo_rat n d hd)
  | .bool true, _ => lexRun_of_lexesTo _ _ lexesTo_true
  | .bool false, _ => lexRun_of_lexesTo _ _ lexesTo_false
  | .chr c, _ => lexRun_of_lexesTo _ _ (lexesTo_char c)
  | .str s, _ => lexRun_of_lexesTo _ _ (lexesTo_str s)
  | .sym s, h => lexRun_of_lexesTo _ _ (lexesTo_sym s (by simpa [WF] using h))
  | .list xs, h => by
    have hs : WFs xs = true := by simp only [WF, Bool.and_eq_true] at h; exact h.1
    have := lexRun_wrap ['('] (writePSeq xs) _ _ opener_round (lexRun_seq xs hs)
    simpa [writeP, toks] using this
  | .pair a d, h => by
    simp only [WF, Bool.and_eq_true] at h
    have ha := lexRun_datum a h.1.1.1
    have hd := lexRun_datum d h.1.1.2
    have hbody := lexRun_blank _ _ _ _ ha (lexRun_dot _ _ hd)
    have := lexRun_wrap ['('] _ _ _ opener_round hbody
    simpa [writeP, toks] using this
  | .vec xs, h => by
    have hs : WFs xs = true := by simp only [WF, Bool.and_eq_true] at h; exact h.1
    have := lexRun_wrap ['#', '('] (writePSeq xs) _ _ opener_vec (lexRun_seq xs hs)
    simpa [writeP, toks] using this
  | .bytes bs, h => by
    have hb : ∀ b ∈ bs, b < 256 := by
      simp only [WF, List.all_eq_true, decide_eq_true_eq] at h; exact h
    have := lexRun_wrap ['#', 'u', '8', '('] (writeBytes bs) _ _ opener_bytes (lexRun_bytes bs hb)
    simpa [writeP, toks] using this
  | .flo _, h => by simp [WF] at h
  | .other _, h => by simp [WF] at h
theorem lexRun_seq : (xs : List Datum) → WFs xs = true → LexRun (writePSeq xs) (toksSeq xs)
  | [], _ => lexRun_nil
  | [x], h => by
    simp only [WFs, Bool.and_eq_true] at h
    simpa [writePSeq, toksSeq] using lexRun_datum x h.1
  | x :: y :: r, h => by
    simp only [WFs, Bool.and_eq_true] at h
    have h1 := lexRun_datum x h.1
    have h2 := lexRun_seq (y :: r) (by simp only [WFs, Bool.and_eq_true]; exact h.2)
    have := lexRun_blank _ _ _ _ h1 h2
    simpa [writePSeq, toksSeq] using this
end

end SteelVerif.C12
