/-
C12 — from the parser lemmas to `read (writeP d) = ok [d]`.
-/
import SteelVerif.C12.LemmasParse
namespace SteelVerif.C12

/-- the bracket modifier and the tokens between the brackets of a compound datum -/
def pmodOf : Datum → Option PMod
  | .vec _ => some .vector
  | .bytes _ => some .bytes
  | _ => none

def bodyToks : Datum → List Tok
  | .list xs => toksSeq xs
  | .vec xs => toksSeq xs
  | .bytes bs => bs.map (fun b => Tok.num (.real (.int (Int.ofNat b))))
  | .pair a d => toks a ++ .dot :: toks d
  | _ => []

theorem toks_compound (d : Datum) (h : isCompound d = true) :
    toks d = .open_ .round (pmodOf d) :: (bodyToks d ++ [.close .round]) := by
  cases d <;> simp [isCompound] at h <;> simp [toks, pmodOf, bodyToks]

/-- the parser on the tokens between the brackets of a compound datum, whatever the enclosing frames:
    the frame is filled and `build` will return the datum -/
theorem parse_body (d : Datum) (hw : WF d = true) (hc : isCompound d = true) (ibody : List LexItem)
    (hi : AllTok ibody (bodyToks d)) (more : List LexItem) (pf : Nat) (st : PSt) (stack : List Frame)
    (s e : Nat) (hg : Good st) :
    ∃ st' last' curF, Good st' ∧ curF.paren = .round ∧
      (∀ sp, ∃ v, curF.build sp = .ok v ∧ v.d = d ∧ v.info = infoOf d) ∧
      pList (pf + (bodyToks d).length) st stack { openS := (s, e), paren := .round, pmod := pmodOf d } (s, e)
          (ibody ++ more) = pList pf st' stack curF last' more := by
  cases d with
  | list xs =>
    simp only [WF, Bool.and_eq_true] at hw
    obtain ⟨n1, n2, n3, n4, n5, n6⟩ := newFrame_props s e none
    obtain ⟨st2, last2, cur2, hext, h2⟩ := elems_dispatch xs hw.1 hw.2 ibody hi more pf st stack _ (s, e) n1
      (by simp) n2 n3 (fun hh => parse_seq xs hw.1 ibody hi more pf st stack _ (s, e) hg n1
        (by simp) n2 n3 n4 (fun _ => hh))
    have hg2 : Good st2 := trivial
    refine ⟨st2, last2, cur2, hg2, hext.paren, ?_, h2⟩
    intro sp
    refine ⟨_, build_list cur2 sp (hext.comment.trans n1) hext.pmod (hext.dot.trans n2), ?_, ?_⟩ <;>
      simp [listVal, hext.exprs, n6, infoOf]
  | vec xs =>
    simp only [WF, Bool.and_eq_true] at hw
    obtain ⟨n1, n2, n3, n4, n5, n6⟩ := newFrame_props s e (some .vector)
    obtain ⟨st2, last2, cur2, hext, h2⟩ := elems_dispatch xs hw.1 hw.2 ibody hi more pf st stack _ (s, e) n1
      (by simp) n2 n3 (fun hh => parse_seq xs hw.1 ibody hi more pf st stack _ (s, e) hg n1
        (by simp) n2 n3 n4 (fun _ => hh))
    have hg2 : Good st2 := trivial
    refine ⟨st2, last2, cur2, hg2, hext.paren, ?_, h2⟩
    intro sp
    refine ⟨_, build_vec cur2 sp (hext.comment.trans n1) hext.pmod, ?_, ?_⟩ <;>
      simp [hext.exprs, n6, infoOf]
  | bytes bs =>
    have hb256 : ∀ b ∈ bs, b < 256 := by
      simp only [WF, List.all_eq_true, decide_eq_true_eq] at hw; exact hw
    obtain ⟨n1, n2, n3, n4, n5, n6⟩ := newFrame_props s e (some .bytes)
    obtain ⟨st2, last2, cur2, hg2, hext, h2⟩ := parse_bytes bs hb256 ibody hi more pf st stack _ (s, e) hg n1 n2 n3 n4
    refine ⟨st2, last2, cur2, hg2, hext.paren, ?_, by simpa [bodyToks, pmodOf] using h2⟩
    intro sp
    refine ⟨_, build_bytes cur2 sp (hext.comment.trans n1) hext.pmod, ?_, rfl⟩
    simp only [hext.exprs, n6, List.nil_append, bytesOf_ints]
  | pair a d =>
    simp only [WF, Bool.and_eq_true, Bool.not_eq_true'] at hw
    obtain ⟨⟨⟨hwa, hwd⟩, hqa⟩, hnl⟩ := hw
    obtain ⟨ia, irest, rfl, hia, hirest⟩ := allTok_append_inv hi
    obtain ⟨sd, ed, id, rfl, hid⟩ := allTok_cons_inv hirest
    obtain ⟨n1, n2, n3, n4, n5, n6⟩ := newFrame_props s e none
    obtain ⟨st1, last1, hg1, h1⟩ := parse_datum a hwa ia hia
      (.tok .dot sd ed :: (id ++ more)) (pf + (toks d).length + 1)
      st stack { openS := (s, e), paren := .round, pmod := none } (s, e) hg
      ⟨n1, by simp, Or.inl n2⟩ n3 n4 (fun _ => hqa)
    have hexta := ext_pushed { openS := (s, e), paren := .round, pmod := none } a (infoOf a) n3 n4 (fun _ => hqa)
    have hlen1 := ext_len_ne_zero hexta
    have hdot := pList_dot (pf + (toks d).length) st1 stack _ last1 sd ed
      (id ++ more) (hexta.dot.trans n2) hlen1 hexta.pmod (hexta.comment.trans n1)
    let cur1 := ({ openS := (s, e), paren := Paren.round, pmod := none } : Frame).pushed a (infoOf a)
    let cur2 : Frame := { cur1 with dot := some (cur1.len, (sd, ed)) }
    have hl2 : LenOK cur2 := hexta.lenOK
    have hf2 : FirstOK cur2 := hexta.firstOK
    obtain ⟨st3, last3, hg3, h3⟩ := parse_datum d hwd id hid more pf
      st1 stack cur2 (sd, ed) hg1
      ⟨hexta.comment.trans n1, by show cur1.pmod ≠ _; rw [hexta.pmod]; simp, Or.inr ⟨_, rfl⟩⟩ hl2 hf2
      (fun h0 => absurd h0 hlen1)
    have hextd := ext_pushed cur2 d (infoOf d) hl2 hf2 (fun h0 => absurd h0 hlen1)
    obtain ⟨_, _, _, _, _, hlast⟩ := pushed_fields cur2 d (infoOf d)
    have hlen3 : cur1.len + 1 = (cur2.pushed d (infoOf d)).len := by
      have e1 := hextd.lenOK.1
      have e2 : cur1.len = cur1.exprs.length := hexta.lenOK.1
      rw [hextd.exprs] at e1
      simp at e1
      show cur1.len + 1 = _
      have : cur2.exprs = cur1.exprs := rfl
      rw [this] at e1
      omega
    have hex : (cur2.pushed d (infoOf d)).exprs = [a, d] := by
      rw [hextd.exprs]
      have : cur2.exprs = cur1.exprs := rfl
      rw [this, hexta.exprs, n6]
      rfl
    refine ⟨st3, last3, cur2.pushed d (infoOf d), hg3, hextd.paren.trans hexta.paren, ?_, ?_⟩
    · intro sp
      have hb := build_pair (cur2.pushed d (infoOf d)) sp (sd, ed) cur1.len
        (hextd.comment.trans (hexta.comment.trans n1)) (hextd.pmod.trans hexta.pmod) hextd.dot hlen3
      refine ⟨_, hb, ?_⟩
      rw [hlast, hex]
      cases d with
      | list xs => simp [isListDatum] at hnl
      | pair x y =>
        simp only [infoOf, listVal, List.dropLast, List.singleton_append, if_true]
        refine ⟨?_, by simp [tailArgs]⟩
        rw [improperDatum_cons a _ (by simp), improperDatum_cons x _ (tailArgs_ne_nil y), improperDatum_tailArgs]
      | _ => exact ⟨rfl, rfl⟩
    · have e1 : pf + (bodyToks (.pair a d)).length = pf + (toks d).length + 1 + (toks a).length := by
        simp [bodyToks]; omega
      rw [e1]
      rw [show (ia ++ LexItem.tok Tok.dot sd ed :: id) ++ more = ia ++ (.tok .dot sd ed :: (id ++ more)) by simp]
      show pList _ st stack { openS := (s, e), paren := .round, pmod := none } _ _ = _
      rw [h1, hdot, h3]
  | _ => simp [isCompound] at hc

end SteelVerif.C12

namespace SteelVerif.C12

/-- an atom token at top level -/
theorem pTop_atom (t : Tok) (hatom : isAtomTok t = true) (pf : Nat) (st : PSt) (s e : Nat)
    (more : List LexItem) :
    pTop (pf + 1) st [] (.tok t s e :: more) = ⟨some (.ok { d := atomToDatum t, sp := (s, e) }), st, more⟩ := by
  cases t <;> simp [isAtomTok] at hatom <;>
    (rw [pTop] <;> first | rfl | (intros; simp_all) | (intro h; cases h))

/-- the parser, at top level, on the tokens of one written datum -/
theorem pTop_datum (d : Datum) (hw : WF d = true) (items : List LexItem) (hi : AllTok items (toks d))
    (more : List LexItem) (pf : Nat) (st : PSt) (hg : Good st) :
    ∃ st' v, Good st' ∧ v.d = d ∧
      pTop (pf + (toks d).length) st [] (items ++ more) = ⟨some (.ok v), st', more⟩ := by
  cases hc : isCompound d with
  | false =>
    obtain ⟨t, ht, hat, hconv⟩ := toks_atom d hw hc
    rw [ht] at hi ⊢
    obtain ⟨s, e, items', rfl, hi'⟩ := allTok_cons_inv hi
    have := allTok_nil_inv hi'; subst this
    exact ⟨st, _, hg, hconv, by simpa using pTop_atom t hat pf st s e more⟩
  | true =>
    rw [toks_compound d hc] at hi ⊢
    obtain ⟨s, e, items1, rfl, hi1⟩ := allTok_cons_inv hi
    obtain ⟨ibody, iclose, rfl, hib, hiclose⟩ := allTok_append_inv hi1
    obtain ⟨s', e', ir, rfl, hir⟩ := allTok_cons_inv hiclose
    have := allTok_nil_inv hir; subst this
    have hg0 : Good { st with quoteStackEmpty := true } := hg
    obtain ⟨st2, last2, curF, hg2, hpar, hbuild, h2⟩ := parse_body d hw hc ibody hib
      (.tok (.close .round) s' e' :: more) (pf + 1) { st with quoteStackEmpty := true } [] s e hg0
    obtain ⟨v, hb, hvd, _⟩ := hbuild (s', e')
    refine ⟨ctxAfterTop st2, v, ctxAfterTop_good _ hg2, hvd, ?_⟩
    have e1 : pf + (Tok.open_ .round (pmodOf d) :: (bodyToks d ++ [Tok.close .round])).length
        = pf + 1 + (bodyToks d).length + 1 := by simp; omega
    rw [e1, List.cons_append, pTop]
    simp only
    rw [show (ibody ++ [LexItem.tok (Tok.close .round) s' e']) ++ more
        = ibody ++ (.tok (.close .round) s' e' :: more) by simp]
    rw [h2, pList_close_top (pf) st2 curF last2 s' e' more hpar, hb]

end SteelVerif.C12

namespace SteelVerif.C12

/-! ## bookkeeping: token count, conversion, depth -/

theorem writeInt_ne_nil (i : Int) : writeInt i ≠ [] := by
  obtain ⟨w, n, _, hne, _, h | h⟩ := writeInt_shape i
  · rw [h.1]; exact hne
  · rw [h.1]; simp

theorem writeBytes_length (bs : List Nat) : bs.length ≤ (writeBytes bs).length := by
  match bs with
  | [] => simp [writeBytes]
  | [b] => simp [writeBytes, hexByte]
  | b :: c :: r =>
    have := writeBytes_length (c :: r)
    simp only [writeBytes, List.length_cons, List.length_append] at this ⊢
    omega

mutual
theorem toks_len : (d : Datum) → WF d = true → (toks d).length ≤ (writeP d).length ∧ 1 ≤ (toks d).length
  | .int i, _ => by
    have := List.length_pos_iff.mpr (writeInt_ne_nil i)
    simp [toks, writeP]; omega
  | .rat n d, _ => by simp [toks, writeP]; omega
  | .bool b, _ => by cases b <;> simp [toks, writeP]
  | .chr c, _ => by simp [toks, writeP, writeChar]
  | .str s, _ => by simp [toks, writeP, writeStr]
  | .sym s, h => by
    have hok : symOK s = true := by simpa [WF] using h
    obtain ⟨c, cs, rfl, _⟩ := symOK_cons hok
    simp [toks, writeP]
  | .list xs, h => by
    simp only [WF, Bool.and_eq_true] at h
    have := toksSeq_len xs h.1
    simp [toks, writeP]; omega
  | .vec xs, h => by
    simp only [WF, Bool.and_eq_true] at h
    have := toksSeq_len xs h.1
    simp [toks, writeP]; omega
  | .bytes bs, _ => by
    have := writeBytes_length bs
    simp [toks, writeP]; omega
  | .pair a d, h => by
    simp only [WF, Bool.and_eq_true] at h
    have h1 := toks_len a h.1.1.1
    have h2 := toks_len d h.1.1.2
    simp [toks, writeP]; omega
  | .flo _, h => by simp [WF] at h
  | .other _, h => by simp [WF] at h
theorem toksSeq_len : (xs : List Datum) → WFs xs = true → (toksSeq xs).length ≤ (writePSeq xs).length
  | [], _ => by simp [toksSeq, writePSeq]
  | [x], h => by
    simp only [WFs, Bool.and_eq_true] at h
    have := toks_len x h.1
    simp [toksSeq, writePSeq]; omega
  | x :: y :: r, h => by
    simp only [WFs, Bool.and_eq_true] at h
    have h1 := toks_len x h.1
    have h2 := toksSeq_len (y :: r) (by simp only [WFs, Bool.and_eq_true]; exact h.2)
    simp only [toksSeq, writePSeq, List.length_append, List.length_cons] at h2 ⊢
    omega
end

mutual
theorem wf_convertible : (d : Datum) → WF d = true → d.hasBadAtom = false ∧ d.hasPolar = false
  | .int _, _ => ⟨rfl, rfl⟩ | .rat _ _, _ => ⟨rfl, rfl⟩ | .bool _, _ => ⟨rfl, rfl⟩
  | .chr _, _ => ⟨rfl, rfl⟩ | .str _, _ => ⟨rfl, rfl⟩ | .sym _, _ => ⟨rfl, rfl⟩
  | .bytes _, _ => ⟨rfl, rfl⟩
  | .list xs, h => by
    simp only [WF, Bool.and_eq_true] at h
    simpa [Datum.hasBadAtom, Datum.hasPolar] using wfs_convertible xs h.1
  | .vec xs, h => by
    simp only [WF, Bool.and_eq_true] at h
    simpa [Datum.hasBadAtom, Datum.hasPolar] using wfs_convertible xs h.1
  | .pair a d, h => by
    simp only [WF, Bool.and_eq_true] at h
    have h1 := wf_convertible a h.1.1.1
    have h2 := wf_convertible d h.1.1.2
    simp [Datum.hasBadAtom, Datum.hasPolar, h1, h2]
  | .flo _, h => by simp [WF] at h
  | .other _, h => by simp [WF] at h
theorem wfs_convertible : (xs : List Datum) → WFs xs = true → hasBadAtoms xs = false ∧ hasPolars xs = false
  | [], _ => ⟨rfl, rfl⟩
  | x :: xs, h => by
    simp only [WFs, Bool.and_eq_true] at h
    have h1 := wf_convertible x h.1
    have h2 := wfs_convertible xs h.2
    simp [hasBadAtoms, hasPolars, h1, h2]
end

/-- written data never start with the shebang `#!` -/
theorem shebang_writeP (d : Datum) (hw : WF d = true) : shebang (writeP d) = ([], writeP d) := by
  unfold shebang
  split
  · rename_i r heq
    exfalso
    cases d with
    | int i =>
      obtain ⟨w, n, hwd, hne, _, h | h⟩ := writeInt_shape i
      · simp only [writeP] at heq
        rw [h.1] at heq
        cases w with
        | nil => exact hne rfl
        | cons c cs =>
          injection heq with a _
          have := hwd c (by simp)
          rw [a] at this; simp [isDigit] at this
      · simp only [writeP] at heq; rw [h.1] at heq; injection heq with a _; simp at a
    | rat n dd =>
      obtain ⟨w, m, hwd, hne, _, h | h⟩ := writeInt_shape n
      · simp only [writeP] at heq
        rw [h.1] at heq
        cases w with
        | nil => exact hne rfl
        | cons c cs =>
          injection heq with a _
          have := hwd c (by simp)
          rw [a] at this; simp [isDigit] at this
      · simp only [writeP] at heq; rw [h.1] at heq; injection heq with a _; simp at a
    | bool b => cases b <;> simp [writeP] at heq
    | chr c => simp [writeP, writeChar] at heq
    | str s => simp [writeP, writeStr] at heq
    | sym s =>
      have hok : symOK s = true := by simpa [WF] using hw
      obtain ⟨c, cs, rfl, hc, _⟩ := symOK_cons hok
      obtain ⟨_, hh, _⟩ := symStart_facts hc
      simp only [writeP] at heq
      injection heq with a _
      exact hh a
    | list xs => simp [writeP] at heq
    | pair a b => simp [writeP] at heq
    | vec xs => simp [writeP] at heq
    | bytes bs => simp [writeP] at heq
    | flo _ => simp [WF] at hw
    | other _ => simp [WF] at hw
  · rfl

theorem allTok_length {items : List LexItem} {ts : List Tok} (h : AllTok items ts) : items.length = ts.length := by
  unfold AllTok at h
  have := congrArg List.length h
  simpa using this

/-- the round trip for the writer without the depth cut-off -/
theorem read_writeP (d : Datum) (hw : WF d = true) : read (writeP d) = .ok [d] := by
  obtain ⟨hlen, hpos⟩ := toks_len d hw
  -- lexing
  have hlex : ∃ items, AllTok items (toks d) ∧ lex (writeP d) = items := by
    unfold lex
    rw [shebang_writeP d hw]
    simp only [utf8Len]
    have hf : 2 * (writeP d).length + 2 = (2 * (writeP d).length + 1 - (toks d).length + 1) + (toks d).length := by
      omega
    obtain ⟨items, st', _, hall, hrun⟩ := lexRun_datum d hw [] (2 * (writeP d).length + 1 - (toks d).length + 1)
      { pos := 0, tokStart := 0 } rfl rfl
    rw [List.append_nil] at hrun
    rw [hf, hrun]
    refine ⟨items, hall, ?_⟩
    simp [lexLoop, ‹st'.queued = none›, skipWs]
  obtain ⟨items, hall, hlexeq⟩ := hlex
  have hn := allTok_length hall
  unfold read
  rw [hlexeq]
  -- parsing
  have hg0 : Good ({} : PSt).enterNext := by
    simp [PSt.enterNext, Good]
  obtain ⟨st1, v, hg1, hvd, hp⟩ := pTop_datum d hw items hall [] (4 * items.length + 3 - (toks d).length)
    ({} : PSt).enterNext hg0
  rw [List.append_nil] at hp
  obtain ⟨hb, hpo⟩ := wf_convertible d hw
  have hlen1 : items.length + 1 = (items.length - 1 + 1) + 1 := by omega
  show readLoop (items.length + 1) {} [] items = _
  have hp' : pTop (4 * items.length + 3) ({} : PSt).enterNext [] items
      = ⟨some (.ok v), st1, []⟩ := by
    rw [show 4 * items.length + 3 = 4 * items.length + 3 - (toks d).length + (toks d).length by omega]
    exact hp
  rw [hlen1, readLoop]
  simp only [pNext, hp', hvd, hb, hpo, Bool.false_eq_true, if_false]
  rw [readLoop]
  simp [pNext, pTop]

end SteelVerif.C12

namespace SteelVerif.C12

/-! ## the depth cut-off of the writer -/

theorem cut_id (k : Nat) (t : Text) (h : k + 1 ≤ 128) : cut k t = t := by
  unfold cut
  have : ¬ (k + 1 > 128) := by omega
  simp [this]

mutual
theorem writeAt_eq_writeP : (d : Datum) → (k : Nat) → k + d.depth ≤ 128 → writeAt k d = writeP d
  | .int _, k, h => by simp only [Datum.depth] at h; simp [writeAt, writeP, cut_id k _ h]
  | .rat _ _, k, h => by simp only [Datum.depth] at h; simp [writeAt, writeP, cut_id k _ h]
  | .bool _, k, h => by simp only [Datum.depth] at h; simp [writeAt, writeP, cut_id k _ h]
  | .chr _, k, h => by simp only [Datum.depth] at h; simp [writeAt, writeP, cut_id k _ h]
  | .str _, k, h => by simp only [Datum.depth] at h; simp [writeAt, writeP, cut_id k _ h]
  | .sym _, k, h => by simp only [Datum.depth] at h; simp [writeAt, writeP, cut_id k _ h]
  | .bytes _, k, h => by simp only [Datum.depth] at h; simp [writeAt, writeP, cut_id k _ h]
  | .flo _, k, h => by simp only [Datum.depth] at h; simp [writeAt, writeP, cut_id k _ h]
  | .other _, k, h => by simp only [Datum.depth] at h; simp [writeAt, writeP, cut_id k _ h]
  | .list xs, k, h => by
    simp only [Datum.depth] at h
    have := writeSeq_eq_writePSeq xs (k + 1) (by omega)
    simp [writeAt, writeP, cut_id k _ (by omega), this]
  | .vec xs, k, h => by
    simp only [Datum.depth] at h
    have := writeSeq_eq_writePSeq xs (k + 1) (by omega)
    simp [writeAt, writeP, cut_id k _ (by omega), this]
  | .pair a d, k, h => by
    simp only [Datum.depth] at h
    have h1 := writeAt_eq_writeP a (k + 1) (by omega)
    have h2 := writeAt_eq_writeP d (k + 1) (by omega)
    simp [writeAt, writeP, cut_id k _ (by omega), h1, h2]
theorem writeSeq_eq_writePSeq : (xs : List Datum) → (k : Nat) → k + depths xs ≤ 128 → writeSeq k xs = writePSeq xs
  | [], _, _ => rfl
  | [x], k, h => by
    simp only [depths] at h
    simp [writeSeq, writePSeq, writeAt_eq_writeP x k (by omega)]
  | x :: y :: r, k, h => by
    simp only [depths] at h
    have h1 := writeAt_eq_writeP x k (by omega)
    have h2 := writeSeq_eq_writePSeq (y :: r) k (by simp only [depths]; omega)
    simp [writeSeq, writePSeq, h1, h2]
end

theorem write_eq_writeP (d : Datum) (h : d.depth ≤ 128) : write d = writeP d :=
  writeAt_eq_writeP d 0 (by omega)

end SteelVerif.C12

namespace SteelVerif.C12

/-! ## the writer's nesting counter is balanced -/

theorem leaveSt_eq (dep : Nat) (t : Text) : leaveSt dep (t, dep + 1) = (cut dep t, dep) := by
  unfold leaveSt cut
  split <;> simp

mutual
theorem writeSt_eq : (d : Datum) → (dep : Nat) → writeSt d dep = (writeAt dep d, dep)
  | .int _, dep => by simp [writeSt, writeAt, leaveSt_eq]
  | .rat _ _, dep => by simp [writeSt, writeAt, leaveSt_eq]
  | .bool _, dep => by simp [writeSt, writeAt, leaveSt_eq]
  | .chr _, dep => by simp [writeSt, writeAt, leaveSt_eq]
  | .str _, dep => by simp [writeSt, writeAt, leaveSt_eq]
  | .sym _, dep => by simp [writeSt, writeAt, leaveSt_eq]
  | .bytes _, dep => by simp [writeSt, writeAt, leaveSt_eq]
  | .flo _, dep => by simp [writeSt, writeAt, leaveSt_eq]
  | .other _, dep => by simp [writeSt, writeAt, leaveSt_eq]
  | .list xs, dep => by
    have := writeSeqSt_eq xs (dep + 1)
    simp [writeSt, writeAt, this, leaveSt_eq]
  | .vec xs, dep => by
    have := writeSeqSt_eq xs (dep + 1)
    simp [writeSt, writeAt, this, leaveSt_eq]
  | .pair a d, dep => by
    have h1 := writeSt_eq a (dep + 1)
    have h2 := writeSt_eq d (dep + 1)
    simp [writeSt, writeAt, h1, h2, leaveSt_eq]
theorem writeSeqSt_eq : (xs : List Datum) → (dep : Nat) → writeSeqSt xs dep = (writeSeq dep xs, dep)
  | [], dep => rfl
  | [x], dep => by simp [writeSeqSt, writeSeq, writeSt_eq x dep]
  | x :: y :: r, dep => by
    have h1 := writeSt_eq x dep
    have h2 := writeSeqSt_eq (y :: r) dep
    simp [writeSeqSt, writeSeq, h1, h2]
end

end SteelVerif.C12
