/-
C12 — model of Steel's reader and writer (entry point of the model files).

  `Lex.lean`    the lexer of crates/steel-parser/src/lexer.rs            `lex  : Text → List LexItem`
  `Parse.lean`  the datum parser `(read)` uses + conversion to values     `read : Text → Except ReadErr (List Datum)`
  `Write.lean`  `Display for SteelVal` as used by `(write d)`             `write : Datum → Text`
  `GenUnicode.lean` (generated) the escape table of Rust's `{:?}`

This file adds the *well-formedness class* `WF` of the round-trip theorem: the data for which the
code that exists does satisfy `read (write d) = [d]`.  Each restriction corresponds to a way in
which the real writer / reader pair fails (replayed on the real code, see KNOWN_FINDINGS):

  * symbols: the writer prints the bare name, so the name must lex as one plain identifier:
    non-empty, made of characters that `read_word` keeps, not starting like a number, `#` form or
    `|`, and not one of the spellings the lexer maps to another symbol (`defn`, `fn`, `λ`)   [K12a, K12b];
  * lists, vectors: the first element is not the symbol `unquote` or `unquote-splicing` (the reader's
    quasi-quotation bookkeeping renames such heads when a child list closes at depth 0) - unless every other
    element is an atom (then no child closes): `(unquote x)`, `(unquote-splicing x)` with atomic `x` are inside
    the class, and so is `(quasiquote d)` / any list headed by `quasiquote`; pairs: the car is not one of the
    two renamed symbols                                                                       [K12c];
  * pairs: the cdr is not a list (`cons` onto a list gives a list - an invariant of Steel values);
  * rationals in lowest terms with denominator ≥ 2, bytes < 256 (invariants of Steel values);
  * no inexact / complex numbers (outside the model);
  * nesting depth ≤ 128 (the writer prints `...` below that)                                  [K12d].
Strings and characters are unrestricted: every sequence of Unicode scalar values.
-/
import SteelVerif.C12.Write
namespace SteelVerif.C12

/-- a character that `read_word` keeps and that starts no other token inside a word -/
def isPlainChar (c : Char) : Bool := !isWordStop c && c != '\\' && c != '|'

def symStartOK (c : Char) : Bool :=
  isPlainChar c && c != '#' && c != '+' && c != '-' && c != '.' && !isDigit c

/-- spellings that the lexer turns into the tokens `define` / `lambda` -/
def isAliased (s : Text) : Bool := s == t!"defn" || s == t!"fn" || s == t!"λ"

/-- symbol names that the writer prints readably -/
def symOK : Text → Bool
  | [] => false
  | c :: cs => symStartOK c && cs.all isPlainChar && !isAliased (c :: cs)

/-- the symbols that make the reader RENAME the head of a list (`unquote` → `#%unquote` when a child list closes
    at quasi-quotation depth 0).  `quasiquote` also steers the bookkeeping (it moves `quasiquote_depth`), but a
    list headed by it is never renamed, and no datum the reader builds from written text depends on the depth
    except through that renaming - so `quasiquote` heads are inside the class. -/
def isQQ : Datum → Bool
  | .sym s => s == symUnquote || s == symSplicing
  | _ => false

def headOK : List Datum → Bool
  | [] => true
  | x :: _ => !isQQ x

def isCompound : Datum → Bool
  | .list _ | .vec _ | .bytes _ | .pair _ _ => true
  | _ => false

/-- every element after the first is an atom: no child list closes inside such a list, so the reader has no
    occasion to rename its head -/
def restAtomic : List Datum → Bool
  | [] => true
  | _ :: xs => xs.all (fun d => !isCompound d)

def isListDatum : Datum → Bool
  | .list _ => true
  | _ => false

mutual
def WF : Datum → Bool
  | .int _ => true
  | .rat n d => decide (2 ≤ d) && Nat.gcd n.natAbs d == 1
  | .bool _ => true
  | .chr _ => true
  | .str _ => true
  | .sym s => symOK s
  | .list xs => WFs xs && (headOK xs || restAtomic xs)
  | .pair a d => WF a && WF d && !isQQ a && !isListDatum d
  | .vec xs => WFs xs && (headOK xs || restAtomic xs)
  | .bytes bs => bs.all (fun b => decide (b < 256))
  | .flo _ => false
  | .other _ => false
def WFs : List Datum → Bool
  | [] => true
  | x :: xs => WF x && WFs xs
end

mutual
/-- nesting depth as the writer counts it (an atom at the root has depth 1) -/
def Datum.depth : Datum → Nat
  | .list xs => 1 + depths xs
  | .pair a d => 1 + max a.depth d.depth
  | .vec xs => 1 + depths xs
  | _ => 1
def depths : List Datum → Nat
  | [] => 0
  | x :: xs => max x.depth (depths xs)
end

/-- the guard of the round-trip theorem -/
def WFD (d : Datum) : Prop := WF d = true ∧ d.depth ≤ 128

instance (d : Datum) : Decidable (WFD d) := by unfold WFD; exact inferInstance

/-- the quotation forms are ordinary two-element lists (that is how Steel represents and prints them) -/
def Datum.quote (d : Datum) : Datum := .list [.sym t!"quote", d]
def Datum.quasiquote (d : Datum) : Datum := .list [.sym t!"quasiquote", d]
def Datum.unquote (d : Datum) : Datum := .list [.sym t!"unquote", d]
def Datum.unquoteSplicing (d : Datum) : Datum := .list [.sym t!"unquote-splicing", d]

end SteelVerif.C12
