/-
C12 — model of Steel's reader and writer (entry point of the model files).

  `Lex.lean`    the lexer of crates/steel-parser/src/lexer.rs            `lex  : Text → List LexItem`
  `Parse.lean`  the datum parser `(read)` uses + conversion to values     `read : Text → Except ReadErr (List Datum)`
  `Write.lean`  `Display for SteelVal` as used by `(write d)`             `write : Datum → Text`
  `GenUnicode.lean` (generated) the escape table of Rust's `{:?}`
-/
import SteelVerif.C12.Write
