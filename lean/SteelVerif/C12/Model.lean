/-
C12 — model of Steel's reader and writer (entry point of the model files).

  `Lex.lean`    the lexer of crates/steel-parser/src/lexer.rs            `lex  : Text → List LexItem`
  `Parse.lean`  the datum parser `(read)` uses + conversion to values     `read : Text → Except ReadErr (List Datum)`
  `Write.lean`  `Display for SteelVal` as used by `(write d)`             `write : Datum → Text`
  `GenUnicode.lean` (generated) the escape table of Rust's `{:?}`

This file adds the *well-formedness class* `WF` of the round-trip theorem: the data for which the
code that exists does satisfy `read (write d) = [d]`.  Each restriction corresponds to a way in
which the real writer / reader pair fails (replayed on the real code, see KNOWN_FINDINGS):

  * symbols: the writer prints the bare name, so the name must lex as one plain identifier:
    non-empty, made of characters that `read_word` keeps, not starting like a number, `#` form or
    `|`, and not one of the spellings the lexer maps to another symbol (`defn`, `fn`, `λ`)   [K12a, K12b];
  * lists, pairs, vectors: the first element is not the symbol `unquote`, `unquote-splicing` or
    `quasiquote` (the reader's quasi-quotation bookkeeping renames such heads)               [K12c];
  * pairs: the cdr is not a list (`cons` onto a list gives a list - an invariant of Steel values);
  * rationals in lowest terms with denominator ≥ 2, bytes < 256 (invariants of Steel values);
  * no inexact / complex numbers (outside the model);
  * nesting depth ≤ 128 (the writer prints `...` below that)                                  [K12d].
Strings and characters are unrestricted: every sequence of Unicode scalar values.
-/
import SteelVerif.C12.Write
namespace SteelVerif.C12

/-- a character that `read_word` keeps and that starts no other token inside a word -/
def isPlainChar (c : Char) : Bool := !isWordStop c && c != '\\' && c != '|'

def symStartOK (c : Char) : Bool :=
  isPlainChar c && c != '#' && c != '+' && c != '-' && c != '.' && !isDigit c

/-- spellings that the lexer turns into the tokens `define` / `lambda` -/
def isAliased (s : Text) : Bool := s == t!"defn" || s == t!"fn" || s == t!"λ"

/-- symbol names that the writer prints readably -/
def symOK : Text → Bool
  | [] => false
  | c :: cs => symStartOK c && cs.all isPlainChar && !isAliased (c :: cs)

/-- the symbols that steer the reader's quasi-quotation bookkeeping when they head a list -/
def isQQ : Datum → Bool
  | .sym s => s == symUnquote || s == symQuasi || s == symSplicing
  | _ => false

def headOK : List Datum → Bool
  | [] => true
  | x :: _ => !isQQ x

def isListDatum : Datum → Bool
  | .list _ => true
  | _ => false

mutual
def WF : Datum → Bool
  | .int _ => true
  | .rat n d => decide (2 ≤ d) && Nat.gcd n.natAbs d == 1
  | .bool _ => true
  | .chr _ => true
  | .str _ => true
  | .sym s => symOK s
  | .list xs => WFs xs && headOK xs
  | .pair a d => WF a && WF d && !isQQ a && !isListDatum d
  | .vec xs => WFs xs && headOK xs
  | .bytes bs => bs.all (fun b => decide (b < 256))
  | .flo _ => false
  | .other _ => false
def WFs : List Datum → Bool
  | [] => true
  | x :: xs => WF x && WFs xs
end

mutual
/-- nesting depth as the writer counts it (an atom at the root has depth 1) -/
def Datum.depth : Datum → Nat
  | .list xs => 1 + depths xs
  | .pair a d => 1 + max a.depth d.depth
  | .vec xs => 1 + depths xs
  | _ => 1
def depths : List Datum → Nat
  | [] => 0
  | x :: xs => max x.depth (depths xs)
end

/-- the guard of the round-trip theorem -/
def WFD (d : Datum) : Prop := WF d = true ∧ d.depth ≤ 128

instance (d : Datum) : Decidable (WFD d) := by unfold WFD; exact inferInstance

/-- the quotation forms are ordinary two-element lists (that is how Steel represents and prints them) -/
def Datum.quote (d : Datum) : Datum := .list [.sym t!"quote", d]
def Datum.quasiquote (d : Datum) : Datum := .list [.sym t!"quasiquote", d]
def Datum.unquote (d : Datum) : Datum := .list [.sym t!"unquote", d]
def Datum.unquoteSplicing (d : Datum) : Datum := .list [.sym t!"unquote-splicing", d]

end SteelVerif.C12
