/-
C12 — model of the writer: `impl Display for SteelVal` (`CycleDetector::format_with_cycles` with
`external = true`, crates/steel-core/src/rvals/cycles.rs), which is what `(write d port)` prints
(`#%raw-write` = `to_string()`).

  * strings: Rust's `{:?}` — `\" \\ \n \r \t \0`, `\u{hex}` for the code points of `Gen.escRanges`;
  * characters: `#\space #\null #\tab #\newline #\return`, `#\uXXXX` (at least 4 hex digits) for the
    code points of `Gen.escRanges`, otherwise the character itself;
  * symbols: the name as it is — no `|..|` quoting whatsoever;
  * lists `(a b)`, pairs `(a . d)`, vectors `#(a b)`, byte vectors `#u8(#x01 #xFF)`;
  * beyond nesting depth 128 the writer prints `...`.
-/
import SteelVerif.C12.Parse
import SteelVerif.C12.GenUnicode
namespace SteelVerif.C12

def inRanges (rs : Array (Nat × Nat)) (n : Nat) : Bool := rs.toList.any (fun r => r.1 ≤ n && n ≤ r.2)

/-- printed as `\u{..}` inside strings and as `#\u....` as a character -/
def needsEsc (c : Char) : Bool := inRanges Gen.escRanges c.toNat

def hexDigitLower (d : Nat) : Char :=
  if d < 10 then Char.ofNat ('0'.toNat + d) else Char.ofNat ('a'.toNat + (d - 10))

def hexDigitUpper (d : Nat) : Char :=
  if d < 10 then Char.ofNat ('0'.toNat + d) else Char.ofNat ('A'.toNat + (d - 10))

/-- digits of `n` in base `b` (most significant first), `fuel` ≥ number of digits -/
def digitsAux (b : Nat) (dig : Nat → Char) : Nat → Nat → Text → Text
  | 0, _, acc => acc
  | f + 1, n, acc =>
    if n < b then dig n :: acc else digitsAux b dig f (n / b) (dig (n % b) :: acc)

def natDigits (b : Nat) (dig : Nat → Char) (n : Nat) : Text := digitsAux b dig (n + 1) n []

def decDigits (n : Nat) : Text := natDigits 10 hexDigitLower n
def hexLower (n : Nat) : Text := natDigits 16 hexDigitLower n

/-- `{:04x}` -/
def hex4 (n : Nat) : Text :=
  let ds := hexLower n
  List.replicate (4 - ds.length) '0' ++ ds

/-- `{:02X}` of a byte -/
def hexByte (n : Nat) : Text := [hexDigitUpper (n / 16 % 16), hexDigitUpper (n % 16)]

def writeInt (i : Int) : Text :=
  match i with
  | .ofNat n => decDigits n
  | .negSucc n => '-' :: decDigits (n + 1)

def escStrChar (c : Char) : Text :=
  if c == '"' then ['\\', '"']
  else if c == '\\' then ['\\', '\\']
  else if c == '\n' then ['\\', 'n']
  else if c == '\r' then ['\\', 'r']
  else if c == '\t' then ['\\', 't']
  else if c.toNat == 0 then ['\\', '0']
  else if needsEsc c then '\\' :: 'u' :: '{' :: (hexLower c.toNat ++ ['}'])
  else [c]

def writeStrBody : Text → Text
  | [] => []
  | c :: cs => escStrChar c ++ writeStrBody cs

def writeStr (s : Text) : Text := '"' :: (writeStrBody s ++ ['"'])

def writeChar (c : Char) : Text :=
  '#' :: '\\' ::
    (if c == ' ' then t!"space"
     else if c.toNat == 0 then t!"null"
     else if c == '\t' then t!"tab"
     else if c == '\n' then t!"newline"
     else if c == '\r' then t!"return"
     else if needsEsc c then 'u' :: hex4 c.toNat
     else [c])

def writeBytes : List Nat → Text
  | [] => []
  | [b] => '#' :: 'x' :: hexByte b
  | b :: bs => '#' :: 'x' :: (hexByte b ++ ' ' :: writeBytes bs)

def writeReal : RealLit → Text
  | .int i => writeInt i
  | .rat n d => writeInt n ++ '/' :: writeInt d
  | .flo t => t                      -- not what Rust prints; floats are outside the model
  | .inf neg => if neg then t!"-inf.0" else t!"+inf.0"
  | .nan => t!"+nan.0"

/-- `if self.depth > 128 { return write!(f, "...") }` -/
def cut (k : Nat) (t : Text) : Text := if k + 1 > 128 then t!"..." else t

mutual
/-- `format_with_cycles` at recursion depth `k` (the root is written at `k = 0`) -/
def writeAt (k : Nat) : Datum → Text
  | .int i => cut k (writeInt i)
  | .rat n d => cut k (writeInt n ++ '/' :: decDigits d)
  | .bool b => cut k (if b then t!"#true" else t!"#false")
  | .chr c => cut k (writeChar c)
  | .str s => cut k (writeStr s)
  | .sym s => cut k s
  | .list xs => cut k ('(' :: (writeSeq (k + 1) xs ++ [')']))
  | .pair a d =>
    cut k ('(' :: (writeAt (k + 1) a ++ ' ' :: '.' :: ' ' :: (writeAt (k + 1) d ++ [')'])))
  | .vec xs => cut k ('#' :: '(' :: (writeSeq (k + 1) xs ++ [')']))
  | .bytes bs => cut k ('#' :: 'u' :: '8' :: '(' :: (writeBytes bs ++ [')']))
  | .flo r => cut k (writeReal r)
  | .other w => cut k w
/-- elements separated by one blank -/
def writeSeq (k : Nat) : List Datum → Text
  | [] => []
  | [x] => writeAt k x
  | x :: y :: r => writeAt k x ++ ' ' :: writeSeq k (y :: r)
end

/-- `(write d)` -/
def write (d : Datum) : Text := writeAt 0 d

/-! ### `print` (`#%print` / `#%top-level-print` of crates/steel-core/src/scheme/print.scm)

The second writer of the tree, and the only one that quotes symbols: a symbol whose name contains a whitespace
character (`char-whitespace?` = Rust's `char::is_whitespace`) is printed between bars, every `|` of the name
and every backslash preceded by a backslash (the backslash since /repo e9628a79: finding K12m); any other symbol is printed
bare.  Strings and characters go through `write`; lists, vectors and pairs are printed structurally; the whole
datum is preceded by a quote mark.  Modelled for the fragment the check generates (no nesting limit, no cycles,
a pair's cdr is not a pair). -/

def printSymBody : Text → Text
  | [] => []
  | c :: cs => if c == '|' || c == '\\' then '\\' :: c :: printSymBody cs else c :: printSymBody cs

def printSym (s : Text) : Text :=
  if s.any isWs then '|' :: (printSymBody s ++ ['|']) else s

mutual
def printAt : Datum → Text
  | .sym s => printSym s
  | .list xs => '(' :: (printSeq xs ++ [')'])
  | .vec xs => '#' :: '(' :: (printSeq xs ++ [')'])
  | .pair a d => '(' :: (printAt a ++ ' ' :: '.' :: ' ' :: (printAt d ++ [')']))
  | .int i => writeInt i
  | .rat n d => writeInt n ++ '/' :: decDigits d
  | .bool b => if b then t!"#true" else t!"#false"
  | .chr c => writeChar c
  | .str s => writeStr s
  | .bytes bs => '#' :: 'u' :: '8' :: '(' :: (writeBytes bs ++ [')'])
  | .flo r => writeReal r
  | .other w => w
def printSeq : List Datum → Text
  | [] => []
  | [x] => printAt x
  | x :: y :: r => printAt x ++ ' ' :: printSeq (y :: r)
end

/-- `(print d port)`: symbols, lists, pairs and vectors are preceded by a quote mark, other atoms are not -/
def print (d : Datum) : Text :=
  match d with
  | .sym _ | .list _ | .pair _ _ | .vec _ => '\'' :: printAt d
  | _ => printAt d

/-! ### the mechanism as it is in the Rust: one mutable nesting counter

`format_with_cycles` does `self.depth += 1` on entry, prints `...` (after undoing the increment) when the
counter exceeds 128, and does `self.depth -= 1` after the `match`.  `writeSt d depth` returns the text and
the value of the counter afterwards; siblings are printed one after the other with the counter threaded
through.  `write_depth_balanced` (Props) shows that the counter comes back to its value, which is why the
functional `writeAt` above (depth as a parameter) describes the same writer. -/

/-- leave one call of `format_with_cycles`: the `...` branch or the `self.depth -= 1` at the end -/
def leaveSt (depth : Nat) (body : Text × Nat) : Text × Nat :=
  if depth + 1 > 128 then (t!"...", depth + 1 - 1) else (body.1, body.2 - 1)

mutual
/-- `format_with_cycles` with the counter: `depth` before the call ↦ (text, counter after the call) -/
def writeSt : Datum → Nat → Text × Nat
  | .int i, dep => leaveSt dep (writeInt i, dep + 1)
  | .rat n d, dep => leaveSt dep (writeInt n ++ '/' :: decDigits d, dep + 1)
  | .bool b, dep => leaveSt dep (if b then t!"#true" else t!"#false", dep + 1)
  | .chr c, dep => leaveSt dep (writeChar c, dep + 1)
  | .str s, dep => leaveSt dep (writeStr s, dep + 1)
  | .sym s, dep => leaveSt dep (s, dep + 1)
  | .list xs, dep => leaveSt dep ('(' :: ((writeSeqSt xs (dep + 1)).1 ++ [')']), (writeSeqSt xs (dep + 1)).2)
  | .pair a d, dep =>
    leaveSt dep ('(' :: ((writeSt a (dep + 1)).1 ++ ' ' :: '.' :: ' ' ::
        ((writeSt d (writeSt a (dep + 1)).2).1 ++ [')'])), (writeSt d (writeSt a (dep + 1)).2).2)
  | .vec xs, dep => leaveSt dep ('#' :: '(' :: ((writeSeqSt xs (dep + 1)).1 ++ [')']), (writeSeqSt xs (dep + 1)).2)
  | .bytes bs, dep => leaveSt dep ('#' :: 'u' :: '8' :: '(' :: (writeBytes bs ++ [')']), dep + 1)
  | .flo r, dep => leaveSt dep (writeReal r, dep + 1)
  | .other w, dep => leaveSt dep (w, dep + 1)
/-- the elements of a list / vector, the counter threaded from one element to the next -/
def writeSeqSt : List Datum → Nat → Text × Nat
  | [], dep => ([], dep)
  | [x], dep => writeSt x dep
  | x :: y :: r, dep =>
    ((writeSt x dep).1 ++ ' ' :: (writeSeqSt (y :: r) (writeSt x dep).2).1, (writeSeqSt (y :: r) (writeSt x dep).2).2)
end

end SteelVerif.C12
