/-
C12 — lexing of written exact numbers: `lexOne` on `writeInt i ++ rest` and `n/d ++ rest`.
-/
import SteelVerif.C12.Lemmas
namespace SteelVerif.C12

/-- what may follow a written datum: end of text, a blank, or a closing parenthesis -/
def delimStart : Text → Bool
  | [] => true
  | c :: _ => c == ' ' || c == ')'

theorem isDigit_cases {c : Char} (h : isDigit c = true) :
    c = '0' ∨ c = '1' ∨ c = '2' ∨ c = '3' ∨ c = '4' ∨ c = '5' ∨ c = '6' ∨ c = '7' ∨ c = '8' ∨ c = '9' := by
  simp only [isDigit, Bool.and_eq_true, decide_eq_true_eq] at h
  have h1 : 48 ≤ c.toNat := by
    have := h.1; exact this
  have h2 : c.toNat ≤ 57 := by
    have := h.2; exact this
  have key : ∀ n, c.toNat = n → c = Char.ofNat n := by
    intro n hn; rw [← hn]; exact (Char.ofNat_toNat c).symm
  have : c.toNat = 48 ∨ c.toNat = 49 ∨ c.toNat = 50 ∨ c.toNat = 51 ∨ c.toNat = 52 ∨ c.toNat = 53 ∨
      c.toNat = 54 ∨ c.toNat = 55 ∨ c.toNat = 56 ∨ c.toNat = 57 := by omega
  rcases this with h | h | h | h | h | h | h | h | h | h
  · exact Or.inl (key _ h)
  · exact Or.inr (Or.inl (key _ h))
  · exact Or.inr (Or.inr (Or.inl (key _ h)))
  · exact Or.inr (Or.inr (Or.inr (Or.inl (key _ h))))
  · exact Or.inr (Or.inr (Or.inr (Or.inr (Or.inl (key _ h)))))
  · exact Or.inr (Or.inr (Or.inr (Or.inr (Or.inr (Or.inl (key _ h))))))
  · exact Or.inr (Or.inr (Or.inr (Or.inr (Or.inr (Or.inr (Or.inl (key _ h)))))))
  · exact Or.inr (Or.inr (Or.inr (Or.inr (Or.inr (Or.inr (Or.inr (Or.inl (key _ h))))))))
  · exact Or.inr (Or.inr (Or.inr (Or.inr (Or.inr (Or.inr (Or.inr (Or.inr (Or.inl (key _ h)))))))))
  · exact Or.inr (Or.inr (Or.inr (Or.inr (Or.inr (Or.inr (Or.inr (Or.inr (Or.inr (key _ h)))))))))

/-- run a closed check for each of the ten digit characters -/
macro "digit_cases " h:ident : tactic =>
  `(tactic| (rcases isDigit_cases $h with h | h | h | h | h | h | h | h | h | h <;> subst h <;> decide))

def DigitStr (w : Text) : Prop := ∀ c ∈ w, isDigit c = true

theorem decDigits_digitStr (n : Nat) : DigitStr (decDigits n) := fun c h => decDigits_isDigit n c h

theorem digit_isNumChar {c : Char} (h : isDigit c = true) : isNumChar c = true := by
  simp [isNumChar, h]

theorem scanNum_append (w rest : Text) (hw : ∀ c ∈ w, isNumChar c = true)
    (hr : delimStart rest = true) : scanNum (w ++ rest) = (w, rest) := by
  induction w with
  | nil =>
    cases rest with
    | nil => simp [scanNum]
    | cons c r =>
      simp only [delimStart, Bool.or_eq_true, beq_iff_eq] at hr
      rcases hr with h | h <;> subst h <;> simp [scanNum, isNumChar, isDigit]
  | cons c cs ih =>
    have hc := hw c (by simp)
    have := ih (fun x hx => hw x (by simp [hx]))
    simp [scanNum, hc, this]

theorem delimStart_numStop {c : Char} {r : Text} (h : delimStart (c :: r) = true) : isNumStop c = true := by
  simp only [delimStart, Bool.or_eq_true, beq_iff_eq] at h
  rcases h with h | h <;> subst h <;> decide

/-! ### facts about strings of digits (no sign, exponent, slash, dot, at) -/

theorem digitStr_contains_at (w : Text) (hw : DigitStr w) : w.contains '@' = false := by
  induction w with
  | nil => rfl
  | cons c cs ih =>
    have hc := hw c (by simp)
    have h1 : c ≠ '@' := by intro h; subst h; simp [isDigit] at hc
    have := ih (fun x hx => hw x (by simp [hx]))
    simp at this ⊢
    exact ⟨fun h => h1 h.symm, this⟩

theorem signIdxs_digitStr (w : Text) (hw : DigitStr w) : ∀ i acc, signIdxs i acc w = some acc.reverse := by
  induction w with
  | nil => intro i acc; simp [signIdxs]
  | cons c cs ih =>
    intro i acc
    have hc := hw c (by simp)
    have h1 : (c == '+' || c == '-') = false := by digit_cases hc
    have h2 : (c == 'e' || c == 'E') = false := by digit_cases hc
    rw [signIdxs.eq_def]
    simp only [h1, h2]
    exact ih (fun x hx => hw x (by simp [hx])) _ _

theorem scanReal_digitStr (radix : Nat) (w : Text) (hw : DigitStr w) : ∀ i st, scanReal radix i st w = st := by
  induction w with
  | nil => intro i st; simp [scanReal]
  | cons c cs ih =>
    intro i st
    have hc := hw c (by simp)
    have h1 : (c == 'e' || c == 'E') = false := by digit_cases hc
    have h2 : (c == '/') = false := by digit_cases hc
    have h3 : (c == '.') = false := by digit_cases hc
    simp only [scanReal, h1, h2, h3, Bool.false_and]
    exact ih (fun x hx => hw x (by simp [hx])) _ _

theorem digitStr_getLast_ne_i (w : Text) (hw : DigitStr w) : w.getLast? ≠ some 'i' := by
  intro h
  have hm : 'i' ∈ w := List.mem_of_getLast? h
  have := hw 'i' hm
  simp [isDigit] at this

theorem parseIntRadix_digits (w : Text) (hw : DigitStr w) (n : Nat) (hp : parseDigits 10 0 w = some n)
    (hne : w ≠ []) : parseIntRadix 10 w = some (Int.ofNat n) := by
  cases w with
  | nil => exact absurd rfl hne
  | cons c cs =>
    have hc := hw c (by simp)
    have h1 : c ≠ '+' := by intro h; subst h; simp [isDigit] at hc
    have h2 : c ≠ '-' := by intro h; subst h; simp [isDigit] at hc
    unfold parseIntRadix
    split
    · rename_i heq; cases heq
    · rename_i heq; injection heq with a b; exact absurd a h1
    · rename_i heq; injection heq with a b; exact absurd a h2
    · simp [hp]

end SteelVerif.C12
