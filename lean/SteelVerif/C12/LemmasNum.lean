/-
C12 — lexing of written exact numbers: `lexOne` on `writeInt i ++ rest` and `n/d ++ rest`.
-/
import SteelVerif.C12.Lemmas
namespace SteelVerif.C12

/-- what may follow a written datum: end of text, a blank, or a closing parenthesis -/
def delimStart : Text → Bool
  | [] => true
  | c :: _ => c == ' ' || c == ')'

theorem isDigit_cases {c : Char} (h : isDigit c = true) :
    c = '0' ∨ c = '1' ∨ c = '2' ∨ c = '3' ∨ c = '4' ∨ c = '5' ∨ c = '6' ∨ c = '7' ∨ c = '8' ∨ c = '9' := by
  simp only [isDigit, Bool.and_eq_true, decide_eq_true_eq] at h
  have h1 : 48 ≤ c.toNat := by
    have := h.1; exact this
  have h2 : c.toNat ≤ 57 := by
    have := h.2; exact this
  have key : ∀ n, c.toNat = n → c = Char.ofNat n := by
    intro n hn; rw [← hn]; exact (Char.ofNat_toNat c).symm
  have : c.toNat = 48 ∨ c.toNat = 49 ∨ c.toNat = 50 ∨ c.toNat = 51 ∨ c.toNat = 52 ∨ c.toNat = 53 ∨
      c.toNat = 54 ∨ c.toNat = 55 ∨ c.toNat = 56 ∨ c.toNat = 57 := by omega
  rcases this with h | h | h | h | h | h | h | h | h | h
  · exact Or.inl (key _ h)
  · exact Or.inr (Or.inl (key _ h))
  · exact Or.inr (Or.inr (Or.inl (key _ h)))
  · exact Or.inr (Or.inr (Or.inr (Or.inl (key _ h))))
  · exact Or.inr (Or.inr (Or.inr (Or.inr (Or.inl (key _ h)))))
  · exact Or.inr (Or.inr (Or.inr (Or.inr (Or.inr (Or.inl (key _ h))))))
  · exact Or.inr (Or.inr (Or.inr (Or.inr (Or.inr (Or.inr (Or.inl (key _ h)))))))
  · exact Or.inr (Or.inr (Or.inr (Or.inr (Or.inr (Or.inr (Or.inr (Or.inl (key _ h))))))))
  · exact Or.inr (Or.inr (Or.inr (Or.inr (Or.inr (Or.inr (Or.inr (Or.inr (Or.inl (key _ h)))))))))
  · exact Or.inr (Or.inr (Or.inr (Or.inr (Or.inr (Or.inr (Or.inr (Or.inr (Or.inr (key _ h)))))))))

/-- run a closed check for each of the ten digit characters -/
macro "digit_cases " h:ident : tactic =>
  `(tactic| (rcases isDigit_cases $h with h | h | h | h | h | h | h | h | h | h <;> subst h <;> decide))

def DigitStr (w : Text) : Prop := ∀ c ∈ w, isDigit c = true

theorem decDigits_digitStr (n : Nat) : DigitStr (decDigits n) := fun c h => decDigits_isDigit n c h

theorem digit_isNumChar {c : Char} (h : isDigit c = true) : isNumChar c = true := by
  simp [isNumChar, h]

theorem scanNum_append (w rest : Text) (hw : ∀ c ∈ w, isNumChar c = true)
    (hr : delimStart rest = true) : scanNum (w ++ rest) = (w, rest) := by
  induction w with
  | nil =>
    cases rest with
    | nil => simp [scanNum]
    | cons c r =>
      simp only [delimStart, Bool.or_eq_true, beq_iff_eq] at hr
      rcases hr with h | h <;> subst h <;> simp [scanNum, isNumChar, isDigit]
  | cons c cs ih =>
    have hc := hw c (by simp)
    have := ih (fun x hx => hw x (by simp [hx]))
    simp [scanNum, hc, this]

theorem delimStart_numStop {c : Char} {r : Text} (h : delimStart (c :: r) = true) : isNumStop c = true := by
  simp only [delimStart, Bool.or_eq_true, beq_iff_eq] at h
  rcases h with h | h <;> subst h <;> decide

/-! ### facts about strings of digits (no sign, exponent, slash, dot, at) -/

theorem digitStr_contains_at (w : Text) (hw : DigitStr w) : w.contains '@' = false := by
  induction w with
  | nil => rfl
  | cons c cs ih =>
    have hc := hw c (by simp)
    have h1 : c ≠ '@' := by intro h; subst h; simp [isDigit] at hc
    have := ih (fun x hx => hw x (by simp [hx]))
    simp at this ⊢
    exact ⟨fun h => h1 h.symm, this⟩

theorem signIdxs_digitStr (w : Text) (hw : DigitStr w) : ∀ i acc, signIdxs false i acc w = some acc.reverse := by
  induction w with
  | nil => intro i acc; simp [signIdxs]
  | cons c cs ih =>
    intro i acc
    have hc := hw c (by simp)
    have h1 : (c == '+' || c == '-') = false := by digit_cases hc
    have h2 : (c == 'e' || c == 'E') = false := by digit_cases hc
    simp only [signIdxs, h1, h2, Bool.false_eq_true, if_false]
    exact ih (fun x hx => hw x (by simp [hx])) _ _

theorem scanReal_digitStr (radix : Nat) (w : Text) (hw : DigitStr w) : ∀ i st, scanReal radix i st w = st := by
  induction w with
  | nil => intro i st; simp [scanReal]
  | cons c cs ih =>
    intro i st
    have hc := hw c (by simp)
    have h1 : (c == 'e' || c == 'E') = false := by digit_cases hc
    have h2 : (c == '/') = false := by digit_cases hc
    have h3 : (c == '.') = false := by digit_cases hc
    simp only [scanReal, h1, h2, h3, Bool.false_and]
    exact ih (fun x hx => hw x (by simp [hx])) _ _

theorem digitStr_getLast_ne_i (w : Text) (hw : DigitStr w) : w.getLast? ≠ some 'i' := by
  intro h
  have hm : 'i' ∈ w := List.mem_of_getLast? h
  have := hw 'i' hm
  simp [isDigit] at this

theorem parseIntRadix_digits (w : Text) (hw : DigitStr w) (n : Nat) (hp : parseDigits 10 0 w = some n)
    (hne : w ≠ []) : parseIntRadix 10 w = some (Int.ofNat n) := by
  cases w with
  | nil => exact absurd rfl hne
  | cons c cs =>
    have hc := hw c (by simp)
    have h1 : c ≠ '+' := by intro h; subst h; simp [isDigit] at hc
    have h2 : c ≠ '-' := by intro h; subst h; simp [isDigit] at hc
    apply parseIntRadix_of_strict
    unfold parseIntStrict
    split
    · rename_i heq; cases heq
    · rename_i heq; injection heq with a b; exact absurd a h1
    · rename_i heq; injection heq with a b; exact absurd a h2
    · simp [hp]

end SteelVerif.C12

namespace SteelVerif.C12

theorem radixPrefix_noHash (c : Char) (cs : Text) (h : c ≠ '#') : radixPrefix (c :: cs) = (c :: cs, 10) := by
  unfold radixPrefix
  split <;> first | rfl | (rename_i heq; injection heq with a _; exact absurd a h)

theorem specialReal_digit (c : Char) (cs : Text) (hc : isDigit c = true) : specialReal (c :: cs) = none := by
  have h1 : c ≠ '-' := by intro h; subst h; simp [isDigit] at hc
  have h2 : c ≠ '+' := by intro h; subst h; simp [isDigit] at hc
  simp [specialReal, h1, h2]

theorem specialReal_neg_digit (c : Char) (cs : Text) (hc : isDigit c = true) :
    specialReal ('-' :: c :: cs) = none := by
  have h1 : c ≠ 'i' := by intro h; subst h; simp [isDigit] at hc
  have h2 : c ≠ 'n' := by intro h; subst h; simp [isDigit] at hc
  simp [specialReal, h1, h2]

theorem signIdxs_append_digits (w rest : Text) (hw : DigitStr w) : ∀ i acc,
    signIdxs false i acc (w ++ rest) = signIdxs false (i + w.length) acc rest := by
  induction w with
  | nil => intro i acc; simp
  | cons c cs ih =>
    intro i acc
    have hc := hw c (by simp)
    have h1 : (c == '+' || c == '-') = false := by digit_cases hc
    have h2 : (c == 'e' || c == 'E') = false := by digit_cases hc
    simp only [List.cons_append, signIdxs, h1, h2, Bool.false_eq_true, if_false]
    rw [ih (fun x hx => hw x (by simp [hx]))]
    have : i + 1 + cs.length = i + (c :: cs).length := by simp only [List.length_cons]; omega
    rw [this]

theorem scanReal_append_digits (radix : Nat) (w rest : Text) (hw : DigitStr w) : ∀ i st,
    scanReal radix i st (w ++ rest) = scanReal radix (i + w.length) st rest := by
  induction w with
  | nil => intro i st; simp
  | cons c cs ih =>
    intro i st
    have hc := hw c (by simp)
    have h1 : (c == 'e' || c == 'E') = false := by digit_cases hc
    have h2 : (c == '/') = false := by digit_cases hc
    have h3 : (c == '.') = false := by digit_cases hc
    simp only [List.cons_append, scanReal, h1, h2, h3, Bool.false_and, Bool.false_eq_true, if_false]
    rw [ih (fun x hx => hw x (by simp [hx]))]
    have : i + 1 + cs.length = i + (c :: cs).length := by simp only [List.length_cons]; omega
    rw [this]

theorem scanReal_minus (radix : Nat) (w : Text) (i : Nat) (st : RealScan) :
    scanReal radix i st ('-' :: w) = scanReal radix (i + 1) st w := by
  simp [scanReal]

theorem scanReal_slash (radix : Nat) (w : Text) (i : Nat) :
    scanReal radix i {} ('/' :: w) = scanReal radix (i + 1) { frac := some i } w := by
  simp [scanReal]

theorem signIdxs_minus (w : Text) (i : Nat) :
    signIdxs false i [] ('-' :: w) = signIdxs false (i + 1) [i] w := by
  simp [signIdxs]

theorem signIdxs_slash (w : Text) (i : Nat) (acc : List Nat) :
    signIdxs false i acc ('/' :: w) = signIdxs false (i + 1) acc w := by
  simp [signIdxs]

/-- the last character of a nonempty digit string (after any prefix) is not `i` -/
theorem getLast_append_digits (pre w : Text) (hw : DigitStr w) (hne : w ≠ []) :
    (pre ++ w).getLast? ≠ some 'i' := by
  intro h
  rw [List.getLast?_append] at h
  cases hl : w.getLast? with
  | none => exact hne (List.getLast?_eq_none_iff.mp hl)
  | some x =>
    rw [hl] at h
    simp at h
    subst h
    exact digitStr_getLast_ne_i w hw hl

theorem parseIntRadix_neg_digits (w : Text) (n : Nat) (hp : parseDigits 10 0 w = some n)
    (hne : w ≠ []) : parseIntRadix 10 ('-' :: w) = some (- Int.ofNat n) := by
  apply parseIntRadix_of_strict
  unfold parseIntStrict
  split
  · rename_i heq; cases heq
  · rename_i heq; injection heq with a b; simp at a
  · rename_i cs heq
    injection heq with a b
    subst b
    cases w with
    | nil => exact absurd rfl hne
    | cons c cs => simp [hp]
  · rename_i h1 h2 h3; exact absurd rfl (h3 w)

/-- shape of a written integer -/
theorem writeInt_shape (i : Int) :
    ∃ w n, DigitStr w ∧ w ≠ [] ∧ parseDigits 10 0 w = some n ∧
      ((writeInt i = w ∧ i = Int.ofNat n) ∨ (writeInt i = '-' :: w ∧ i = - Int.ofNat n)) := by
  cases i with
  | ofNat n =>
    exact ⟨decDigits n, n, decDigits_digitStr n, natDigits_ne_nil _ _ _, parse_decDigits n, Or.inl ⟨rfl, rfl⟩⟩
  | negSucc n =>
    refine ⟨decDigits (n + 1), n + 1, decDigits_digitStr _, natDigits_ne_nil _ _ _, parse_decDigits _, Or.inr ⟨rfl, ?_⟩⟩
    rfl

theorem parseIntRadix_writeInt (i : Int) : parseIntRadix 10 (writeInt i) = some i := by
  obtain ⟨w, n, hw, hne, hp, h | h⟩ := writeInt_shape i
  · rw [h.1, h.2]; exact parseIntRadix_digits w hw n hp hne
  · rw [h.1, h.2]; exact parseIntRadix_neg_digits w n hp hne

theorem writeInt_numChars (i : Int) : ∀ c ∈ writeInt i, isNumChar c = true := by
  obtain ⟨w, n, hw, _, _, h | h⟩ := writeInt_shape i
  · rw [h.1]; intro c hc; exact digit_isNumChar (hw c hc)
  · rw [h.1]; intro c hc
    rcases List.mem_cons.mp hc with h | h
    · subst h; decide
    · exact digit_isNumChar (hw c h)

theorem contains_at_append (a b : Text) : (a ++ b).contains '@' = (a.contains '@' || b.contains '@') := by
  induction a with
  | nil => simp
  | cons c cs ih => simp [Bool.or_assoc]

/-- facts about the text of a written integer (optionally followed by `/digits`) -/
structure NumText (s : Text) : Prop where
  first : ∃ c tl, s = c :: tl ∧ c ≠ '#'
  noAt : s.contains '@' = false
  split : splitComplex s = some [.real s]
  special : specialReal s = none

theorem tryParseNumber_of (s : Text) (h : NumText s) (r : RealLit)
    (hreal : parseRealPlain 10 s = some r) (hz : zeroDen r = false) :
    tryParseNumber s = some (.ok (.real r)) := by
  obtain ⟨c, tl, hs, hc⟩ := h.first
  have hp : parseReal 10 s = some r := by
    unfold parseReal; rw [h.special]; exact hreal
  unfold tryParseNumber parseNumber
  have : radixPrefix s = (s, 10) := by rw [hs]; exact radixPrefix_noHash c tl hc
  rw [this]
  unfold parseNumberBody
  simp only [h.noAt, Bool.false_eq_true, if_false, h.split, hp]
  simp [hz]

/-- `sign? digits rest'` where rest' is empty or `/digits` -/
theorem numText_int (i : Int) : NumText (writeInt i) := by
  obtain ⟨w, n, hw, hne, hp, h | h⟩ := writeInt_shape i
  · rw [h.1]
    cases w with
    | nil => exact absurd rfl hne
    | cons c cs =>
      have hc := hw c (by simp)
      refine ⟨⟨c, cs, rfl, ?_⟩, digitStr_contains_at _ hw, ?_, specialReal_digit c cs hc⟩
      · intro h; subst h; simp [isDigit] at hc
      · unfold splitComplex
        rw [signIdxs_digitStr _ hw]
        simp only [List.reverse_nil]
        unfold classifyPart
        split
        · rename_i h; exact absurd h (digitStr_getLast_ne_i _ hw)
        · rfl
  · rw [h.1]
    cases w with
    | nil => exact absurd rfl hne
    | cons c cs =>
      have hc := hw c (by simp)
      refine ⟨⟨'-', c :: cs, rfl, by decide⟩, ?_, ?_, specialReal_neg_digit c cs hc⟩
      · have := digitStr_contains_at _ hw
        simp at this ⊢
        exact this
      · unfold splitComplex
        rw [signIdxs_minus, signIdxs_digitStr _ hw]
        simp only [List.reverse_cons, List.reverse_nil, List.nil_append]
        unfold classifyPart
        split
        · rename_i h; exact absurd h (getLast_append_digits ['-'] (c :: cs) hw (by simp))
        · rfl

theorem tryParseNumber_writeInt (i : Int) :
    tryParseNumber (writeInt i) = some (.ok (.real (.int i))) := by
  apply tryParseNumber_of _ (numText_int i)
  · unfold parseRealPlain
    have hs : scanReal 10 0 {} (writeInt i) = {} := by
      obtain ⟨w, n, hw, hne, hp, h | h⟩ := writeInt_shape i
      · rw [h.1]; exact scanReal_digitStr 10 _ hw _ _
      · rw [h.1, scanReal_minus]; exact scanReal_digitStr 10 _ hw _ _
    rw [hs]
    simp [parseIntRadix_writeInt]
  · rfl

theorem numText_rat (n : Int) (d : Nat) : NumText (writeInt n ++ '/' :: decDigits d) := by
  have hwd := decDigits_digitStr d
  have hdne : decDigits d ≠ [] := natDigits_ne_nil _ _ _
  have hlast : ∀ pre : Text, (pre ++ '/' :: decDigits d).getLast? ≠ some 'i' := by
    intro pre
    have := getLast_append_digits (pre ++ ['/']) (decDigits d) hwd hdne
    simpa using this
  have hat2 : ('/' :: decDigits d).contains '@' = false := by
    have := digitStr_contains_at _ hwd
    simp at this ⊢
    exact this
  obtain ⟨w, m, hw, hne, hp, h | h⟩ := writeInt_shape n
  · rw [h.1]
    cases w with
    | nil => exact absurd rfl hne
    | cons c cs =>
      have hc := hw c (by simp)
      refine ⟨⟨c, cs ++ '/' :: decDigits d, rfl, ?_⟩, ?_, ?_, specialReal_digit c _ hc⟩
      · intro h; subst h; simp [isDigit] at hc
      · rw [contains_at_append, digitStr_contains_at _ hw, hat2]; rfl
      · unfold splitComplex
        rw [signIdxs_append_digits _ _ hw, signIdxs_slash, signIdxs_digitStr _ hwd]
        simp only [List.reverse_nil]
        unfold classifyPart
        split
        · rename_i h; exact absurd h (hlast _)
        · rfl
  · rw [h.1]
    cases w with
    | nil => exact absurd rfl hne
    | cons c cs =>
      have hc := hw c (by simp)
      refine ⟨⟨'-', (c :: cs) ++ '/' :: decDigits d, rfl, by decide⟩, ?_, ?_, specialReal_neg_digit c _ hc⟩
      · rw [contains_at_append, hat2]
        have := digitStr_contains_at _ hw
        simp at this ⊢
        exact this
      · unfold splitComplex
        rw [List.cons_append, signIdxs_minus, signIdxs_append_digits _ _ hw, signIdxs_slash,
          signIdxs_digitStr _ hwd]
        simp only [List.reverse_cons, List.reverse_nil, List.nil_append]
        unfold classifyPart
        split
        · rename_i h; exact absurd h (hlast ('-' :: c :: cs))
        · rfl

theorem scanReal_rat (n : Int) (d : Nat) :
    scanReal 10 0 {} (writeInt n ++ '/' :: decDigits d) = { frac := some (writeInt n).length } := by
  have hwd := decDigits_digitStr d
  obtain ⟨w, m, hw, hne, hp, h | h⟩ := writeInt_shape n
  · rw [h.1, scanReal_append_digits _ _ _ hw, scanReal_slash, scanReal_digitStr _ _ hwd]
    simp
  · rw [h.1, List.cons_append, scanReal_minus, scanReal_append_digits _ _ _ hw, scanReal_slash,
      scanReal_digitStr _ _ hwd]
    simp
    omega

/-- the rational literal `n/d` -/
theorem tryParseNumber_rat (n : Int) (d : Nat) (hd : d ≠ 0) :
    tryParseNumber (writeInt n ++ '/' :: decDigits d) = some (.ok (.real (.rat n (Int.ofNat d)))) := by
  have hwd := decDigits_digitStr d
  have hdne : decDigits d ≠ [] := natDigits_ne_nil _ _ _
  apply tryParseNumber_of _ (numText_rat n d)
  · unfold parseRealPlain
    rw [scanReal_rat]
    have ht : (writeInt n ++ '/' :: decDigits d).take (writeInt n).length = writeInt n := by simp
    have hdr : (writeInt n ++ '/' :: decDigits d).drop ((writeInt n).length + 1) = decDigits d := by
      rw [← List.drop_drop]; simp
    simp only [Bool.false_eq_true, if_false, Bool.or_self]
    have hsign : ((decDigits d).head? == some '+' || (decDigits d).head? == some '-') = false := by
      cases hh : decDigits d with
      | nil => exact absurd hh hdne
      | cons c cs =>
        have hc : isDigit c = true := hwd c (by rw [hh]; simp)
        have h1 : c ≠ '+' := by intro h; subst h; simp [isDigit] at hc
        have h2 : c ≠ '-' := by intro h; subst h; simp [isDigit] at hc
        simp [h1, h2]
    rw [ht, hdr, hsign]
    simp only [Bool.false_eq_true, if_false]
    rw [parseIntRadix_writeInt, parseIntRadix_digits _ hwd d (parse_decDigits d) hdne]
  · simp [zeroDen]; exact hd

theorem rat_numChars (n : Int) (d : Nat) : ∀ c ∈ writeInt n ++ '/' :: decDigits d, isNumChar c = true := by
  intro c hc
  rcases List.mem_append.mp hc with h | h
  · exact writeInt_numChars n c h
  · rcases List.mem_cons.mp h with h | h
    · subst h; decide
    · exact digit_isNumChar (decDigits_isDigit d c h)

end SteelVerif.C12
