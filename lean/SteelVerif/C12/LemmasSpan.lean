/-
C12 — every span the lexer reports lies inside the text: position accounting of every reader.
-/
import SteelVerif.C12.Lemmas
namespace SteelVerif.C12

/-- a reader started at byte `pos` on text `cs` stops at `s.pos` with `s.rest` left:
    it moves forward, accounts for every byte, and any error span it sets ends inside the text -/
structure StepOK (pos : Nat) (cs : Text) (s : Step) : Prop where
  mono : pos ≤ s.pos
  acct : s.pos + utf8Len s.rest = pos + utf8Len cs
  err : ∀ a b, s.err = some (a, b) → b ≤ pos + utf8Len cs

structure EscOK (pos : Nat) (cs : Text) (s : EscOut) : Prop where
  mono : pos ≤ s.pos
  acct : s.pos + utf8Len s.rest = pos + utf8Len cs
  err : ∀ a b, s.err = some (a, b) → b ≤ pos + utf8Len cs

theorem escWs_ok (inc : LexErrKind) : ∀ (cs : Text) (tr : Bool) (pos : Nat), EscOK pos cs (escWs inc tr pos cs) := by
  intro cs
  induction cs with
  | nil => intro tr pos; exact ⟨Nat.le_refl _, rfl, by intro a b h; cases h⟩
  | cons c cs ih =>
    intro tr pos
    unfold escWs
    by_cases h1 : (c == ' ' || c == '\t') = true
    · simp only [h1, if_true]
      have hs : c.utf8Size = 1 := by
        simp only [Bool.or_eq_true, beq_iff_eq] at h1
        rcases h1 with h | h <;> subst h <;> rfl
      have := ih tr (pos + 1)
      exact ⟨by have := this.mono; omega, by have := this.acct; simp [utf8Len, hs] at *; omega,
        by intro a b h; have := this.err a b h; simp [utf8Len, hs] at *; omega⟩
    · simp only [h1, Bool.false_eq_true, if_false]
      by_cases h2 : (c == '\n' && !tr) = true
      · simp only [h2, if_true]
        have hs : c.utf8Size = 1 := by
          simp only [Bool.and_eq_true, beq_iff_eq] at h2
          rw [h2.1]; rfl
        have := ih true (pos + 1)
        exact ⟨by have := this.mono; omega, by have := this.acct; simp [utf8Len, hs] at *; omega,
          by intro a b h; have := this.err a b h; simp [utf8Len, hs] at *; omega⟩
      · simp only [h2, Bool.false_eq_true, if_false]
        cases tr with
        | true => exact ⟨Nat.le_refl _, rfl, by intro a b h; cases h⟩
        | false =>
          refine ⟨Nat.le_refl _, rfl, ?_⟩
          intro a b h
          simp at h
          simp [utf8Len]
          omega

theorem hexStop_size {c : Char} (h : hexStop c = true) : c.utf8Size = 1 := by
  simp only [hexStop, Bool.or_eq_true, beq_iff_eq] at h
  rcases h with ((((((((h | h) | h) | h) | h) | h) | h) | h) | h) <;> subst h <;> rfl

/-- byte accounting of `scanHex` (terminator and delimiter are one byte long) -/
theorem scanHex_acct (endCh delim : Char) (he : endCh.utf8Size = 1) (hd : delim.utf8Size = 1) :
    ∀ cs : Text, match scanHex endCh delim cs with
      | .eof ds => utf8Len ds = utf8Len cs
      | .done ds r => utf8Len ds + 1 + utf8Len r = utf8Len cs
      | .bad ds _ r => utf8Len ds + 1 + utf8Len r = utf8Len cs := by
  intro cs
  induction cs with
  | nil => simp [scanHex]
  | cons c cs ih =>
    unfold scanHex
    by_cases h1 : (c == endCh) = true
    · have : c = endCh := by simpa using h1
      simp [h1, utf8Len, this, he]
    · simp only [h1, Bool.false_eq_true, if_false]
      by_cases h2 : (hexStop c || c == delim) = true
      · have hs : c.utf8Size = 1 := by
          simp only [Bool.or_eq_true, beq_iff_eq] at h2
          rcases h2 with h | h
          · exact hexStop_size h
          · rw [h]; exact hd
        simp [h2, utf8Len, hs]
      · simp only [h2, Bool.false_eq_true, if_false]
        cases hsc : scanHex endCh delim cs with
        | eof ds => rw [hsc] at ih; simp [utf8Len] at ih ⊢; omega
        | done ds r => rw [hsc] at ih; simp [utf8Len] at ih ⊢; omega
        | bad ds s r => rw [hsc] at ih; simp [utf8Len] at ih ⊢; omega

end SteelVerif.C12

namespace SteelVerif.C12

theorem escOne (c r : Char) (cs : Text) (pos : Nat) (hs : c.utf8Size = 1) :
    EscOK pos (c :: cs) { res := .ok (some r), pos := pos + 1, rest := cs } :=
  ⟨by simp, by simp [utf8Len, hs]; omega, by intro a b h; cases h⟩

theorem hexOpen_ok (code : Char) (pos : Nat) (cs : Text) :
    (hexOpen code pos cs).1.utf8Size = 1 ∧ pos ≤ (hexOpen code pos cs).2.1 ∧
    (hexOpen code pos cs).2.1 + utf8Len (hexOpen code pos cs).2.2 = pos + utf8Len cs := by
  unfold hexOpen
  split
  · split
    · have h1 : '{'.utf8Size = 1 := rfl
      exact ⟨rfl, by simp, by simp [utf8Len, h1]; omega⟩
    · exact ⟨rfl, Nat.le_refl _, rfl⟩
  · exact ⟨rfl, Nat.le_refl _, rfl⟩

/-- `pos0`/`cs0`: where the whole escape started; the hex part starts at `pos1` on `cs1` -/
theorem readHexEscape_ok (inc : LexErrKind) (delim : Char) (hd : delim.utf8Size = 1) (start pos0 pos1 : Nat)
    (endCh : Char) (cs0 cs1 : Text) (he : endCh.utf8Size = 1) (hp1 : pos0 ≤ pos1)
    (hacc : pos1 + utf8Len cs1 = pos0 + utf8Len cs0) :
    EscOK pos0 cs0 (readHexEscape inc delim start pos1 endCh cs1) := by
  have hsc := scanHex_acct endCh delim he hd cs1
  unfold readHexEscape
  cases hh : scanHex endCh delim cs1 with
  | eof ds =>
    rw [hh] at hsc
    exact ⟨by simp; omega, by simp [utf8Len] at *; omega, by intro a b h; cases h⟩
  | bad ds st r =>
    rw [hh] at hsc
    refine ⟨by simp; omega, by simp at *; omega, ?_⟩
    intro a b h
    simp at h
    omega
  | done ds r =>
    rw [hh] at hsc
    simp only
    cases parseHexU32 ds with
    | none =>
      refine ⟨by simp; omega, by simp at *; omega, ?_⟩
      intro a b h; simp at h; omega
    | some n =>
      simp only
      split
      · exact ⟨by simp; omega, by simp at *; omega, by intro a b h; cases h⟩
      · refine ⟨by simp; omega, by simp at *; omega, ?_⟩
        intro a b h; simp at h; omega

theorem readEscape_ok (inc : LexErrKind) (delim : Char) (hd : delim.utf8Size = 1) :
    ∀ (cs : Text) (pos : Nat), EscOK pos cs (readEscape inc delim pos cs) := by
  intro cs pos
  cases cs with
  | nil => exact ⟨Nat.le_refl _, rfl, by intro a b h; cases h⟩
  | cons c cs =>
    unfold readEscape
    simp only
    by_cases h1 : c = '"'
    · subst h1; simpa using escOne '"' '"' cs pos rfl
    by_cases h2 : c = 'a'
    · subst h2; simpa using escOne 'a' (Char.ofNat 7) cs pos rfl
    by_cases h3 : c = 'b'
    · subst h3; simpa using escOne 'b' (Char.ofNat 8) cs pos rfl
    by_cases h4 : c = '\\'
    · subst h4; simpa using escOne '\\' '\\' cs pos rfl
    by_cases h5 : c = '|'
    · subst h5; simpa using escOne '|' '|' cs pos rfl
    by_cases h6 : c = 't'
    · subst h6; simpa using escOne 't' '\t' cs pos rfl
    by_cases h7 : c = 'n'
    · subst h7; simpa using escOne 'n' '\n' cs pos rfl
    by_cases h8 : c = 'r'
    · subst h8; simpa using escOne 'r' '\r' cs pos rfl
    by_cases h9 : c = '0'
    · subst h9; simpa using escOne '0' (Char.ofNat 0) cs pos rfl
    simp only [beq_iff_eq, h1, h2, h3, h4, h5, h6, h7, h8, h9, if_false]
    by_cases hx : (c = 'x' ∨ c = 'u')
    · have hs : c.utf8Size = 1 := by rcases hx with h | h <;> subst h <;> rfl
      simp only [Bool.or_eq_true, beq_iff_eq, hx, if_true]
      obtain ⟨o1, o2, o3⟩ := hexOpen_ok c (pos + 1) cs
      exact readHexEscape_ok inc delim hd _ pos _ _ (c :: cs) _ o1 (by omega) (by simp [utf8Len, hs] at *; omega)
    · have hx' : ¬ ((c == 'x' || c == 'u') = true) := by simpa using hx
      rw [if_neg hx']
      by_cases hw : (c == ' ' || c == '\t' || c == '\n') = true
      · simp only [hw, if_true]
        have hs : c.utf8Size = 1 := by
          simp only [Bool.or_eq_true, beq_iff_eq] at hw
          rcases hw with (h | h) | h <;> subst h <;> rfl
        have := escWs_ok inc cs (c == '\n') (pos + 1)
        exact ⟨by have := this.mono; omega, by have := this.acct; simp [utf8Len, hs] at *; omega,
          by intro a b h; have := this.err a b h; simp [utf8Len, hs] at *; omega⟩
      · simp only [hw, Bool.false_eq_true, if_false]
        refine ⟨Nat.le_refl _, rfl, ?_⟩
        intro a b h
        simp at h
        simp [utf8Len]
        omega

end SteelVerif.C12

namespace SteelVerif.C12

theorem StepOK.shift {pos p1 : Nat} {cs cs1 : Text} {s : Step} (h : StepOK p1 cs1 s) (hp : pos ≤ p1)
    (ha : p1 + utf8Len cs1 = pos + utf8Len cs) : StepOK pos cs s :=
  ⟨by have := h.mono; omega, by have := h.acct; omega, by intro a b hh; have := h.err a b hh; omega⟩

theorem stepOK_plain (pos p : Nat) (cs r : Text) (res : Except LexErrKind Tok) (q : Option Tok)
    (hp : pos ≤ p) (ha : p + utf8Len r = pos + utf8Len cs) :
    StepOK pos cs { res := res, pos := p, rest := r, queued := q } :=
  ⟨hp, ha, by intro a b h; cases h⟩

theorem readStr_ok : ∀ (f pos : Nat) (buf cs : Text), StepOK pos cs (readStr f pos buf cs) := by
  intro f
  induction f with
  | zero => intro pos buf cs; exact stepOK_plain _ _ _ _ _ _ (Nat.le_refl _) rfl
  | succ f ih =>
    intro pos buf cs
    cases cs with
    | nil => exact stepOK_plain _ _ _ _ _ _ (Nat.le_refl _) rfl
    | cons c cs =>
      unfold readStr
      simp only
      by_cases h1 : (c == '"') = true
      · simp only [h1, if_true]
        exact stepOK_plain _ _ _ _ _ _ (by omega) (by simp [utf8Len]; omega)
      · simp only [h1, Bool.false_eq_true, if_false]
        by_cases h2 : (c == '\\') = true
        · simp only [h2, if_true]
          have hs : c.utf8Size = 1 := by
            have : c = '\\' := by simpa using h2
            subst this; rfl
          have he := readEscape_ok .incompleteString '"' rfl cs (pos + c.utf8Size)
          cases hr : (readEscape .incompleteString '"' (pos + c.utf8Size) cs).res with
          | error k =>
            simp only
            refine ⟨by have := he.mono; simp; omega, by have := he.acct; simp [utf8Len] at *; omega, ?_⟩
            intro a b h
            have := he.err a b h
            simp [utf8Len] at *; omega
          | ok o =>
            cases o with
            | none =>
              simp only
              exact (ih _ buf _).shift (by have := he.mono; omega) (by have := he.acct; simp [utf8Len] at *; omega)
            | some ch =>
              simp only
              exact (ih _ (ch :: buf) _).shift (by have := he.mono; omega)
                (by have := he.acct; simp [utf8Len] at *; omega)
        · simp only [h2, Bool.false_eq_true, if_false]
          exact (ih _ (c :: buf) cs).shift (by omega) (by simp [utf8Len]; omega)

theorem hereDelim_ok : ∀ (cs : Text) (pos : Nat) (acc : Text),
    match hereDelim pos acc cs with
    | .ok (_, p, r) => pos ≤ p ∧ p + utf8Len r = pos + utf8Len cs
    | .error (_, p, r) => pos ≤ p ∧ p + utf8Len r = pos + utf8Len cs := by
  intro cs
  induction cs with
  | nil => intro pos acc; simp [hereDelim, utf8Len]
  | cons c cs ih =>
    intro pos acc
    unfold hereDelim
    simp only
    by_cases h1 : (c == '\n') = true
    · simp [h1, utf8Len]; omega
    · simp only [h1, Bool.false_eq_true, if_false]
      by_cases h2 : (c == '\r') = true
      · simp only [h2, if_true]
        have := ih (pos + c.utf8Size) acc
        cases hh : hereDelim (pos + c.utf8Size) acc cs with
        | ok v => rw [hh] at this; obtain ⟨_, p, r⟩ := v; simp [utf8Len] at *; omega
        | error v => rw [hh] at this; obtain ⟨_, p, r⟩ := v; simp [utf8Len] at *; omega
      · simp only [h2, Bool.false_eq_true, if_false]
        by_cases h3 : isWs c = true
        · simp [h3, utf8Len]; omega
        · simp only [h3, Bool.false_eq_true, if_false]
          have := ih (pos + c.utf8Size) (c :: acc)
          cases hh : hereDelim (pos + c.utf8Size) (c :: acc) cs with
          | ok v => rw [hh] at this; obtain ⟨_, p, r⟩ := v; simp [utf8Len] at *; omega
          | error v => rw [hh] at this; obtain ⟨_, p, r⟩ := v; simp [utf8Len] at *; omega

theorem hereBody_ok (dl : Text) : ∀ (cs : Text) (pos : Nat) (buf : Text), StepOK pos cs (hereBody dl pos buf cs) := by
  intro cs
  induction cs with
  | nil => intro pos buf; exact stepOK_plain _ _ _ _ _ _ (Nat.le_refl _) rfl
  | cons c cs ih =>
    intro pos buf
    unfold hereBody
    simp only
    split
    · exact stepOK_plain _ _ _ _ _ _ (by omega) (by simp [utf8Len]; omega)
    · exact (ih _ _).shift (by omega) (by simp [utf8Len]; omega)

theorem readHere_ok (pos : Nat) (cs : Text) : StepOK pos cs (readHere pos cs) := by
  unfold readHere
  have := hereDelim_ok cs pos []
  cases hh : hereDelim pos [] cs with
  | error v =>
    rw [hh] at this
    obtain ⟨k, p, r⟩ := v
    exact stepOK_plain _ _ _ _ _ _ this.1 this.2
  | ok v =>
    rw [hh] at this
    obtain ⟨dl, p, r⟩ := v
    exact (hereBody_ok _ r p []).shift this.1 this.2

/-! ### scanners return a split of their input -/

theorem scanWordAux_split : ∀ (cs : Text) (b : Bool), (scanWordAux b cs).1 ++ (scanWordAux b cs).2 = cs := by
  intro cs
  induction cs with
  | nil => intro b; cases b <;> rfl
  | cons c cs ih =>
    intro b
    cases b with
    | true => simp [scanWordAux, ih false]
    | false =>
      simp only [scanWordAux]
      split
      · rfl
      · split
        · simp [ih true]
        · simp [ih false]

theorem scanNum_split : ∀ (cs : Text), (scanNum cs).1 ++ (scanNum cs).2 = cs := by
  intro cs
  induction cs with
  | nil => rfl
  | cons c cs ih =>
    simp only [scanNum]
    split
    · simp [ih]
    · rfl

theorem scanHashAux_split : ∀ (cs : Text) (b : Bool), (scanHashAux b cs).1 ++ (scanHashAux b cs).2 = cs := by
  intro cs
  induction cs with
  | nil => intro b; cases b <;> rfl
  | cons c cs ih =>
    intro b
    cases b with
    | true => simp [scanHashAux, ih false]
    | false =>
      simp only [scanHashAux]
      by_cases h1 : (c == '\\') = true
      · simp [h1, ih true]
      · simp only [h1, Bool.false_eq_true, if_false]
        by_cases h2 : (c == '\'' || c == '`') = true
        · simp [h2]
        · simp only [h2, Bool.false_eq_true, if_false]
          by_cases h3 : (c == ',') = true
          · have hc : c = ',' := by simpa using h3
            subst hc
            simp only [beq_self_eq_true, if_true]
            cases cs with
            | nil => rfl
            | cons d cs' =>
              by_cases h4 : d = '@'
              · subst h4; rfl
              · simp [h4]
          · simp only [h3, Bool.false_eq_true, if_false]
            split
            · rfl
            · simp [ih false]

theorem restOfLine_split : ∀ (cs : Text), (restOfLine cs).1 ++ (restOfLine cs).2 = cs := by
  intro cs
  induction cs with
  | nil => rfl
  | cons c cs ih =>
    simp only [restOfLine]
    split
    · rfl
    · simp [ih]

theorem skipWs_split : ∀ (cs : Text), (skipWs cs).1 ++ (skipWs cs).2 = cs := by
  intro cs
  induction cs with
  | nil => rfl
  | cons c cs ih =>
    simp only [skipWs]
    split
    · simp [ih]
    · rfl

theorem split_acct {w r cs : Text} (h : w ++ r = cs) : utf8Len w + utf8Len r = utf8Len cs := by
  rw [← h, utf8Len_append]

end SteelVerif.C12

namespace SteelVerif.C12

theorem scanBar_ok : ∀ (f pos : Nat) (raw ident cs : Text),
    match scanBar f pos raw ident cs with
    | .ok (_, _, p, r) => pos ≤ p ∧ p + utf8Len r = pos + utf8Len cs
    | .error (_, e, p, r) => pos ≤ p ∧ p + utf8Len r = pos + utf8Len cs ∧
        ∀ a b, e = some (a, b) → b ≤ pos + utf8Len cs := by
  intro f
  induction f with
  | zero => intro pos raw ident cs; simp [scanBar]
  | succ f ih =>
    intro pos raw ident cs
    cases cs with
    | nil => simp [scanBar]
    | cons c cs =>
      unfold scanBar
      simp only
      by_cases h1 : (c == '|') = true
      · simp [h1, utf8Len]; omega
      · simp only [h1, Bool.false_eq_true, if_false]
        by_cases h2 : (c == '\\') = true
        · simp only [h2, if_true]
          have he := readEscape_ok .incompleteIdent '|' rfl cs (pos + c.utf8Size)
          cases hr : (readEscape .incompleteIdent '|' (pos + c.utf8Size) cs).res with
          | error k =>
            simp only
            refine ⟨by have := he.mono; omega, by have := he.acct; simp [utf8Len] at *; omega, ?_⟩
            intro a b h
            have := he.err a b h
            simp [utf8Len] at *; omega
          | ok o =>
            cases o with
            | none =>
              simp only
              have := ih (readEscape .incompleteIdent '|' (pos + c.utf8Size) cs).pos
                ((cs.take (cs.length - (readEscape .incompleteIdent '|' (pos + c.utf8Size) cs).rest.length)).reverse ++ c :: raw)
                ident (readEscape .incompleteIdent '|' (pos + c.utf8Size) cs).rest
              revert this
              cases scanBar f _ _ ident _ with
              | ok v =>
                obtain ⟨_, _, p, r⟩ := v
                intro this
                have := he.mono; have := he.acct
                simp [utf8Len] at *; omega
              | error v =>
                obtain ⟨_, e, p, r⟩ := v
                intro this
                have h1 := he.mono; have h2 := he.acct
                refine ⟨by omega, by simp [utf8Len] at *; omega, ?_⟩
                intro a b hab
                have := this.2.2 a b hab
                simp [utf8Len] at *; omega
            | some ch =>
              simp only
              have := ih (readEscape .incompleteIdent '|' (pos + c.utf8Size) cs).pos
                ((cs.take (cs.length - (readEscape .incompleteIdent '|' (pos + c.utf8Size) cs).rest.length)).reverse ++ c :: raw)
                (ch :: ident) (readEscape .incompleteIdent '|' (pos + c.utf8Size) cs).rest
              revert this
              cases scanBar f _ _ (ch :: ident) _ with
              | ok v =>
                obtain ⟨_, _, p, r⟩ := v
                intro this
                have := he.mono; have := he.acct
                simp [utf8Len] at *; omega
              | error v =>
                obtain ⟨_, e, p, r⟩ := v
                intro this
                have h1 := he.mono; have h2 := he.acct
                refine ⟨by omega, by simp [utf8Len] at *; omega, ?_⟩
                intro a b hab
                have := this.2.2 a b hab
                simp [utf8Len] at *; omega
        · simp only [h2, Bool.false_eq_true, if_false]
          have := ih (pos + c.utf8Size) (c :: raw) (c :: ident) cs
          revert this
          cases scanBar f (pos + c.utf8Size) (c :: raw) (c :: ident) cs with
          | ok v =>
            obtain ⟨_, _, p, r⟩ := v
            intro this
            simp [utf8Len] at *; omega
          | error v =>
            obtain ⟨_, e, p, r⟩ := v
            intro this
            refine ⟨by omega, by simp [utf8Len] at *; omega, ?_⟩
            intro a b hab
            have := this.2.2 a b hab
            simp [utf8Len] at *; omega

theorem readWord_ok (acc : Text) (pos : Nat) (cs : Text) : StepOK pos cs (readWord acc pos cs) := by
  unfold readWord
  split
  · rename_i cs1
    have hb := scanBar_ok (cs1.length + 1) (pos + 1) [] [] cs1
    have h1 : '|'.utf8Size = 1 := rfl
    cases hh : scanBar (cs1.length + 1) (pos + 1) [] [] cs1 with
    | error v =>
      rw [hh] at hb
      obtain ⟨k, e, p, r⟩ := v
      refine ⟨by simp; omega, by simp [utf8Len, h1] at *; omega, ?_⟩
      intro a b hab
      have := hb.2.2 a b hab
      simp [utf8Len, h1] at *; omega
    | ok v =>
      rw [hh] at hb
      obtain ⟨raw, ident, p, r⟩ := v
      simp only
      split <;> exact stepOK_plain _ _ _ _ _ _ (by omega) (by simp [utf8Len, h1] at *; omega)
  · have hs := split_acct (scanWordAux_split cs false)
    show StepOK pos cs (match wordToken (acc ++ (scanWord cs).1) false [] with
      | .ok (t, q) => { res := .ok t, pos := pos + utf8Len (scanWord cs).1, rest := (scanWord cs).2, queued := q }
      | .error k => { res := .error k, pos := pos + utf8Len (scanWord cs).1, rest := (scanWord cs).2 })
    unfold scanWord
    split <;> exact stepOK_plain _ _ _ _ _ _ (by omega) (by omega)

theorem readNumber_ok (acc : Text) (pos : Nat) (cs : Text) : StepOK pos cs (readNumber acc pos cs) := by
  have hs := split_acct (scanNum_split cs)
  have hw := readWord_ok (acc ++ (scanNum cs).1) (pos + utf8Len (scanNum cs).1) (scanNum cs).2
  have hw' : StepOK pos cs (readWord (acc ++ (scanNum cs).1) (pos + utf8Len (scanNum cs).1) (scanNum cs).2) :=
    hw.shift (by omega) (by omega)
  have htry : StepOK pos cs
      (match tryParseNumber (acc ++ (scanNum cs).1) with
       | some (.ok n) => { res := .ok (.num n), pos := pos + utf8Len (scanNum cs).1, rest := (scanNum cs).2 }
       | some (.error k) => { res := .error k, pos := pos + utf8Len (scanNum cs).1, rest := (scanNum cs).2 }
       | none => readWord (acc ++ (scanNum cs).1) (pos + utf8Len (scanNum cs).1) (scanNum cs).2) := by
    split
    · exact stepOK_plain _ _ _ _ _ _ (by omega) (by omega)
    · exact stepOK_plain _ _ _ _ _ _ (by omega) (by omega)
    · exact hw'
  unfold readNumber
  simp only
  split
  · exact htry
  · split
    · exact htry
    · exact hw'

theorem readHash_ok (tokStart pos : Nat) (cs : Text) : StepOK pos cs (readHash tokStart pos cs) := by
  have hs := split_acct (scanHashAux_split cs false)
  have hplain : ∀ (res : Except LexErrKind Tok),
      StepOK pos cs { res := res, pos := pos + utf8Len (scanHash cs).1, rest := (scanHash cs).2 } := by
    intro res
    unfold scanHash
    exact stepOK_plain _ _ _ _ _ _ (by omega) (by omega)
  have hw : StepOK pos cs (readWord ('#' :: (scanHash cs).1) (pos + utf8Len (scanHash cs).1) (scanHash cs).2) := by
    unfold scanHash
    exact (readWord_ok _ _ _).shift (by omega) (by omega)
  have herr : ∀ (res : Except LexErrKind Tok),
      StepOK pos cs { res := res, err := some (tokStart, pos + utf8Len (scanHash cs).1),
                      pos := pos + utf8Len (scanHash cs).1, rest := (scanHash cs).2 } := by
    intro res
    unfold scanHash
    refine ⟨by simp, by simp; omega, ?_⟩
    intro a b h
    simp at h
    omega
  have hopen : ∀ (res : Except LexErrKind Tok) (r' : Text), (scanHash cs).2 = '(' :: r' →
      StepOK pos cs { res := res, pos := pos + utf8Len (scanHash cs).1 + 1, rest := r' } := by
    intro res r' heq
    unfold scanHash at *
    rw [heq] at hs
    have h1 : '('.utf8Size = 1 := rfl
    exact stepOK_plain _ _ _ _ _ _ (by omega) (by simp [utf8Len, h1] at *; omega)
  unfold readHash
  simp only
  split
  · exact hplain _
  split
  · exact hplain _
  split
  · exact hplain _
  split
  · exact hplain _
  split
  · exact hplain _
  split
  · exact hplain _
  split
  · exact hplain _
  · split
    · exact hplain _
    · split
      · exact hplain _
      · exact herr _
  · split
    · rename_i r' heq
      split
      · exact hopen _ r' heq
      · split
        · exact hopen _ r' heq
        · exact hw
    · exact hw

end SteelVerif.C12

namespace SteelVerif.C12

theorem nestComment_ok : ∀ (cs : Text) (prev depth pos : Nat), StepOK pos cs (nestComment prev depth pos cs) := by
  intro cs
  induction cs with
  | nil => intro prev depth pos; exact stepOK_plain _ _ _ _ _ _ (Nat.le_refl _) rfl
  | cons c cs ih =>
    intro prev depth pos
    unfold nestComment
    simp only
    have hsh : ∀ (p d : Nat), StepOK pos (c :: cs) (nestComment p d (pos + c.utf8Size) cs) :=
      fun p d => (ih p d _).shift (by omega) (by simp [utf8Len]; omega)
    split
    · split
      · exact stepOK_plain _ _ _ _ _ _ (by omega) (by simp [utf8Len]; omega)
      · exact hsh _ _
    · split
      · exact hsh _ _
      · split
        · exact hsh _ _
        · split
          · exact hsh _ _
          · exact hsh _ _

theorem lexOne_ok (pos : Nat) (c : Char) (cs : Text) : StepOK pos (c :: cs) (lexOne pos c cs) := by
  have hsimple : ∀ (res : Except LexErrKind Tok),
      StepOK pos (c :: cs) { res := res, pos := pos + c.utf8Size, rest := cs } :=
    fun res => stepOK_plain _ _ _ _ _ _ (by omega) (by simp [utf8Len]; omega)
  have hshift : ∀ {s : Step} {cs1 : Text} {k : Nat}, StepOK (pos + c.utf8Size + k) cs1 s →
      pos + c.utf8Size + k + utf8Len cs1 = pos + utf8Len (c :: cs) → StepOK pos (c :: cs) s :=
    fun h ha => h.shift (by omega) ha
  unfold lexOne
  by_cases h1 : (c == ';') = true
  · rw [if_pos h1]
    have hs := split_acct (restOfLine_split cs)
    exact stepOK_plain _ _ _ _ _ _ (by omega) (by simp [utf8Len] at *; omega)
  rw [if_neg h1]
  by_cases h2 : (c == '"') = true
  · rw [if_pos h2]
    exact (readStr_ok _ _ _ _).shift (by omega) (by simp [utf8Len]; omega)
  rw [if_neg h2]
  by_cases h3 : (c == '(') = true
  · rw [if_pos h3]; exact hsimple _
  rw [if_neg h3]
  by_cases h4 : (c == '[') = true
  · rw [if_pos h4]; exact hsimple _
  rw [if_neg h4]
  by_cases h5 : (c == '{') = true
  · rw [if_pos h5]; exact hsimple _
  rw [if_neg h5]
  by_cases h6 : (c == ')') = true
  · rw [if_pos h6]; exact hsimple _
  rw [if_neg h6]
  by_cases h7 : (c == ']') = true
  · rw [if_pos h7]; exact hsimple _
  rw [if_neg h7]
  by_cases h8 : (c == '}') = true
  · rw [if_pos h8]; exact hsimple _
  rw [if_neg h8]
  by_cases h9 : (c == '\'') = true
  · rw [if_pos h9]; exact hsimple _
  rw [if_neg h9]
  by_cases h10 : (c == '`') = true
  · rw [if_pos h10]; exact hsimple _
  rw [if_neg h10]
  by_cases h11 : (c == ',') = true
  · rw [if_pos h11]
    split
    · have h1 : '@'.utf8Size = 1 := rfl
      exact stepOK_plain _ _ _ _ _ _ (by omega) (by simp [utf8Len, h1]; omega)
    · exact hsimple _
  rw [if_neg h11]
  by_cases h12 : (c == '+' || c == '-' || c == '.') = true
  · rw [if_pos h12]
    exact (readNumber_ok _ _ _).shift (by omega) (by simp [utf8Len]; omega)
  rw [if_neg h12]
  by_cases h13 : (c == '#') = true
  · rw [if_pos h13]
    cases cs with
    | nil => exact (readHash_ok _ _ _).shift (by omega) (by simp [utf8Len])
    | cons d cs' =>
      simp only
      by_cases g1 : (d == 'x' || d == 'X' || d == 'd' || d == 'D' || d == 'o' || d == 'O' || d == 'b' || d == 'B') = true
      · rw [if_pos g1]
        have hs : d.utf8Size = 1 := by
          simp only [Bool.or_eq_true, beq_iff_eq] at g1
          rcases g1 with ((((((h | h) | h) | h) | h) | h) | h) | h <;> subst h <;> rfl
        exact (readNumber_ok _ _ _).shift (by omega) (by simp [utf8Len, hs]; omega)
      rw [if_neg g1]
      by_cases g2 : (d == '|') = true
      · rw [if_pos g2]
        have hs : d.utf8Size = 1 := by
          have : d = '|' := by simpa using g2
          subst this; rfl
        exact (nestComment_ok _ _ _ _).shift (by omega) (by simp [utf8Len, hs]; omega)
      rw [if_neg g2]
      by_cases g3 : (d == ';') = true
      · rw [if_pos g3]
        have hs : d.utf8Size = 1 := by
          have : d = ';' := by simpa using g3
          subst this; rfl
        exact stepOK_plain _ _ _ _ _ _ (by omega) (by simp [utf8Len, hs]; omega)
      rw [if_neg g3]
      by_cases g4 : (d == '#') = true
      · rw [if_pos g4]
        have hs : d.utf8Size = 1 := by
          have : d = '#' := by simpa using g4
          subst this; rfl
        exact stepOK_plain _ _ _ _ _ _ (by omega) (by simp [utf8Len, hs]; omega)
      rw [if_neg g4]
      by_cases g5 : (d == '<') = true
      · rw [if_pos g5]
        have hs : d.utf8Size = 1 := by
          have : d = '<' := by simpa using g5
          subst this; rfl
        split
        · have h1 : '<'.utf8Size = 1 := rfl
          exact (readHere_ok _ _).shift (by omega) (by simp [utf8Len, hs, h1]; omega)
        · exact (readWord_ok _ _ _).shift (by omega) (by simp [utf8Len, hs]; omega)
      rw [if_neg g5]
      exact (readHash_ok _ _ _).shift (by omega) (by simp [utf8Len]; omega)
  rw [if_neg h13]
  by_cases h14 : (isDigit c && c != '_') = true
  · rw [if_pos h14]; exact readNumber_ok _ _ _
  rw [if_neg h14]
  exact readWord_ok _ _ _

/-! ## the token stream -/

def LexItem.s : LexItem → Nat
  | .tok _ s _ => s
  | .err _ s _ => s
def LexItem.e : LexItem → Nat
  | .tok _ _ e => e
  | .err _ _ e => e

/-- tokens are reported in order of their start offsets (error items are not constrained) -/
def TokSorted : Nat → List LexItem → Prop
  | _, [] => True
  | lb, .tok _ s _ :: rest => lb ≤ s ∧ TokSorted s rest
  | lb, .err _ _ _ :: rest => TokSorted lb rest

theorem TokSorted.weaken {lb lb' : Nat} (h : lb ≤ lb') {l : List LexItem} (hs : TokSorted lb' l) :
    TokSorted lb l := by
  induction l generalizing lb lb' with
  | nil => trivial
  | cons it rest ih =>
    cases it with
    | tok t s e => exact ⟨by have := hs.1; omega, hs.2⟩
    | err k s e => exact ih h hs

theorem errReport_ok (es : Nat × Nat) (start pos total : Nat) (h1 : start ≤ pos) (h2 : pos ≤ total)
    (h3 : es.2 ≤ total) : (errReport es start pos).1 ≤ (errReport es start pos).2 ∧ (errReport es start pos).2 ≤ total := by
  unfold errReport
  split
  · rename_i h; exact ⟨by omega, h3⟩
  · exact ⟨h1, h2⟩

/-- every item of the token stream has `s ≤ e ≤ total`; tokens are sorted by start offset -/
theorem lexLoop_spans (total : Nat) : ∀ (f : Nat) (st : LexSt) (cs : Text),
    st.pos + utf8Len cs = total → st.tokStart ≤ st.pos → st.errSpan.2 ≤ total →
    (∀ it ∈ lexLoop f st cs, it.s ≤ it.e ∧ it.e ≤ total) ∧ TokSorted st.tokStart (lexLoop f st cs) := by
  intro f
  induction f with
  | zero =>
    intro st cs _ _ _
    refine ⟨?_, trivial⟩
    intro it hit
    simp [lexLoop] at hit
    subst hit
    simp [LexItem.s, LexItem.e]
  | succ f ih =>
    intro st cs hacc hts herr
    unfold lexLoop
    cases hq : st.queued with
    | some t =>
      simp only
      have := ih { st with queued := none } cs hacc hts herr
      refine ⟨?_, ⟨Nat.le_refl _, this.2⟩⟩
      intro it hit
      rcases List.mem_cons.mp hit with h | h
      · subst h; simp [LexItem.s, LexItem.e]; omega
      · exact this.1 it h
    | none =>
      simp only
      have hsp := split_acct (skipWs_split cs)
      cases hcs1 : (skipWs cs).2 with
      | nil => exact ⟨by intro it hit; simp at hit, trivial⟩
      | cons c rest =>
        simp only
        rw [hcs1] at hsp
        generalize hstart : st.pos + utf8Len (skipWs cs).1 = start
        have hone := lexOne_ok start c rest
        generalize hs1 : lexOne start c rest = s1 at hone
        have htot : start + utf8Len (c :: rest) = total := by omega
        have h1 := hone.mono
        have h2 := hone.acct
        have herr' : (newErrSpan s1.err st.errSpan).2 ≤ total := by
          unfold newErrSpan
          cases he : s1.err with
          | none => exact herr
          | some e =>
            obtain ⟨a, b⟩ := e
            have := hone.err a b he
            simp only; omega
        have hrec := ih { pos := s1.pos, tokStart := start, errSpan := newErrSpan s1.err st.errSpan,
                          queued := s1.queued } s1.rest (by simp only; omega) (by simp only; omega) herr'
        simp only at hrec
        cases hres : s1.res with
        | ok t =>
          simp only
          refine ⟨?_, ⟨by omega, hrec.2⟩⟩
          intro it hit
          rcases List.mem_cons.mp hit with h | h
          · subst h
            simp [LexItem.s, LexItem.e]; omega
          · exact hrec.1 it h
        | error k =>
          simp only
          refine ⟨?_, TokSorted.weaken (by omega) hrec.2⟩
          intro it hit
          rcases List.mem_cons.mp hit with h | h
          · subst h
            have := errReport_ok (newErrSpan s1.err st.errSpan) start s1.pos total h1 (by omega) herr'
            simpa [LexItem.s, LexItem.e] using this
          · exact hrec.1 it h

theorem splitAtNewline_split : ∀ (cs : Text), (splitAtNewline cs).1 ++ (splitAtNewline cs).2 = cs := by
  intro cs
  induction cs with
  | nil => rfl
  | cons c cs ih =>
    simp only [splitAtNewline]
    split
    · rfl
    · simp [ih]

theorem shebang_split (cs : Text) : (shebang cs).1 ++ (shebang cs).2 = cs := by
  unfold shebang
  split
  · exact splitAtNewline_split _
  · rfl

/-- `spans_in_bounds`: every token and every lexer error of a text lies inside the text -/
theorem lex_spans (src : Text) : ∀ it ∈ lex src, it.s ≤ it.e ∧ it.e ≤ utf8Len src := by
  unfold lex
  have hs := split_acct (shebang_split src)
  simp only
  exact (lexLoop_spans (utf8Len src) _ _ _ (by simp only; omega) (Nat.le_refl _) (by simp)).1

theorem lex_sorted (src : Text) : TokSorted 0 (lex src) := by
  unfold lex
  have hs := split_acct (shebang_split src)
  simp only
  exact TokSorted.weaken (Nat.zero_le _)
    (lexLoop_spans (utf8Len src) _ _ _ (by simp only; omega) (Nat.le_refl _) (by simp)).2

end SteelVerif.C12
