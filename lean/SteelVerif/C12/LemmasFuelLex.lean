/-
C12 — fuel adequacy of the lexer: every reader leaves a text that is not longer than the one it was given, one
token costs at least one character, and with the fuel `lex` gives it (`2·characters + 2`; the string and `|..|`
readers get `characters + 1`) no reader ever answers `outOfFuel`.
-/
import SteelVerif.C12.LemmasSpan
namespace SteelVerif.C12

/-- a reader started on `cs`: what it leaves is not longer, and it did not run out of fuel -/
structure StepLen (cs : Text) (s : Step) : Prop where
  len : s.rest.length ≤ cs.length
  nofuel : s.res ≠ .error .outOfFuel

structure EscLen (cs : Text) (s : EscOut) : Prop where
  len : s.rest.length ≤ cs.length
  nofuel : s.res ≠ .error .outOfFuel

theorem StepLen.shift {cs cs1 : Text} {s : Step} (h : StepLen cs1 s) (hl : cs1.length ≤ cs.length) : StepLen cs s :=
  ⟨by have := h.len; omega, h.nofuel⟩

theorem stepLen_plain (cs r : Text) (res : Except LexErrKind Tok) (e : Option (Nat × Nat)) (p : Nat)
    (q : Option Tok) (hl : r.length ≤ cs.length) (hr : res ≠ .error .outOfFuel) :
    StepLen cs { res := res, err := e, pos := p, rest := r, queued := q } := ⟨hl, hr⟩

theorem split_len {w r cs : Text} (h : w ++ r = cs) : r.length ≤ cs.length := by
  rw [← h, List.length_append]; omega

theorem escWs_len (inc : LexErrKind) (hinc : inc ≠ .outOfFuel) :
    ∀ (cs : Text) (tr : Bool) (pos : Nat), EscLen cs (escWs inc tr pos cs) := by
  intro cs
  induction cs with
  | nil => intro tr pos; exact ⟨Nat.le_refl _, by simpa [escWs] using hinc⟩
  | cons c cs ih =>
    intro tr pos
    unfold escWs
    split
    · have := ih tr (pos + 1)
      exact ⟨by have := this.len; simp only [List.length_cons]; omega, this.nofuel⟩
    · split
      · have := ih true (pos + 1)
        exact ⟨by have := this.len; simp only [List.length_cons]; omega, this.nofuel⟩
      · split
        · exact ⟨Nat.le_refl _, by simp⟩
        · exact ⟨Nat.le_refl _, by simp⟩

theorem scanHex_len (endCh delim : Char) : ∀ cs : Text,
    match scanHex endCh delim cs with
    | .eof _ => True
    | .done _ r => r.length ≤ cs.length
    | .bad _ _ r => r.length ≤ cs.length := by
  intro cs
  induction cs with
  | nil => simp [scanHex]
  | cons c cs ih =>
    unfold scanHex
    by_cases h1 : (c == endCh) = true
    · simp [h1]
    · simp only [h1, Bool.false_eq_true, if_false]
      by_cases h2 : (hexStop c || c == delim) = true
      · simp [h2]
      · simp only [h2, Bool.false_eq_true, if_false]
        cases hsc : scanHex endCh delim cs with
        | eof ds => simp
        | done ds r => rw [hsc] at ih; simp only [List.length_cons] at ih ⊢; omega
        | bad ds s r => rw [hsc] at ih; simp only [List.length_cons] at ih ⊢; omega

theorem hexOpen_len (code : Char) (pos : Nat) (cs : Text) : (hexOpen code pos cs).2.2.length ≤ cs.length := by
  unfold hexOpen
  split
  · split
    · simp
    · simp
  · simp

theorem readHexEscape_len (inc : LexErrKind) (hinc : inc ≠ .outOfFuel) (delim : Char) (start pos1 : Nat)
    (endCh : Char) (cs1 : Text) : EscLen cs1 (readHexEscape inc delim start pos1 endCh cs1) := by
  have hsc := scanHex_len endCh delim cs1
  unfold readHexEscape
  cases hh : scanHex endCh delim cs1 with
  | eof ds => exact ⟨by simp, by simpa using hinc⟩
  | bad ds st r =>
    rw [hh] at hsc
    exact ⟨hsc, by simp⟩
  | done ds r =>
    rw [hh] at hsc
    simp only
    cases parseHexU32 ds with
    | none => exact ⟨hsc, by simp⟩
    | some n =>
      simp only
      split
      · exact ⟨hsc, by simp⟩
      · exact ⟨hsc, by simp⟩

theorem readEscape_len (inc : LexErrKind) (hinc : inc ≠ .outOfFuel) (delim : Char) :
    ∀ (cs : Text) (pos : Nat), EscLen cs (readEscape inc delim pos cs) := by
  intro cs pos
  cases cs with
  | nil => exact ⟨Nat.le_refl _, by simpa [readEscape] using hinc⟩
  | cons c cs =>
    have hone : ∀ (r : Char) (p : Nat),
        EscLen (c :: cs) ({ res := .ok (some r), pos := p, rest := cs } : EscOut) :=
      fun r p => ⟨by simp, by simp⟩
    unfold readEscape
    simp only
    by_cases h1 : (c == '"') = true
    · rw [if_pos h1]; exact hone _ _
    rw [if_neg h1]
    by_cases h2 : (c == 'a') = true
    · rw [if_pos h2]; exact hone _ _
    rw [if_neg h2]
    by_cases h3 : (c == 'b') = true
    · rw [if_pos h3]; exact hone _ _
    rw [if_neg h3]
    by_cases h4 : (c == '\\') = true
    · rw [if_pos h4]; exact hone _ _
    rw [if_neg h4]
    by_cases h5 : (c == '|') = true
    · rw [if_pos h5]; exact hone _ _
    rw [if_neg h5]
    by_cases h6 : (c == 't') = true
    · rw [if_pos h6]; exact hone _ _
    rw [if_neg h6]
    by_cases h7 : (c == 'n') = true
    · rw [if_pos h7]; exact hone _ _
    rw [if_neg h7]
    by_cases h8 : (c == 'r') = true
    · rw [if_pos h8]; exact hone _ _
    rw [if_neg h8]
    by_cases h9 : (c == '0') = true
    · rw [if_pos h9]; exact hone _ _
    rw [if_neg h9]
    by_cases hx : (c == 'x' || c == 'u') = true
    · rw [if_pos hx]
      have h1 := hexOpen_len c (pos + 1) cs
      have h2 := readHexEscape_len inc hinc delim (pos + 1 - 2) (hexOpen c (pos + 1) cs).2.1
        (hexOpen c (pos + 1) cs).1 (hexOpen c (pos + 1) cs).2.2
      exact ⟨by have := h2.len; simp only [List.length_cons]; omega, h2.nofuel⟩
    rw [if_neg hx]
    by_cases hw : (c == ' ' || c == '\t' || c == '\n') = true
    · rw [if_pos hw]
      have := escWs_len inc hinc cs (c == '\n') (pos + 1)
      exact ⟨by have := this.len; simp only [List.length_cons]; omega, this.nofuel⟩
    rw [if_neg hw]
    exact ⟨Nat.le_refl _, by simp⟩

theorem readStr_len : ∀ (f pos : Nat) (buf cs : Text), cs.length < f → StepLen cs (readStr f pos buf cs) := by
  intro f
  induction f with
  | zero => intro pos buf cs h; omega
  | succ f ih =>
    intro pos buf cs hf
    cases cs with
    | nil => exact ⟨Nat.le_refl _, by simp [readStr]⟩
    | cons c cs =>
      simp only [List.length_cons] at hf
      unfold readStr
      simp only
      split
      · exact ⟨by simp, by simp⟩
      · split
        · have he := readEscape_len .incompleteString (by simp) '"' cs (pos + c.utf8Size)
          have hl := he.len
          cases hr : (readEscape .incompleteString '"' (pos + c.utf8Size) cs).res with
          | error k =>
            simp only
            exact ⟨by simp only [List.length_cons]; omega, by
              intro h
              have : k = .outOfFuel := Except.error.inj h
              subst this
              exact he.nofuel hr⟩
          | ok o =>
            cases o with
            | none =>
              simp only
              exact (ih _ buf _ (by omega)).shift (by simp only [List.length_cons]; omega)
            | some ch =>
              simp only
              exact (ih _ (ch :: buf) _ (by omega)).shift (by simp only [List.length_cons]; omega)
        · exact (ih _ (c :: buf) cs (by omega)).shift (by simp)

theorem scanBar_len : ∀ (f pos : Nat) (raw ident cs : Text), cs.length < f →
    match scanBar f pos raw ident cs with
    | .ok (_, _, _, r) => r.length ≤ cs.length
    | .error (k, _, _, r) => r.length ≤ cs.length ∧ k ≠ .outOfFuel := by
  intro f
  induction f with
  | zero => intro pos raw ident cs h; omega
  | succ f ih =>
    intro pos raw ident cs hf
    cases cs with
    | nil => simp [scanBar]
    | cons c cs =>
      simp only [List.length_cons] at hf
      unfold scanBar
      simp only
      by_cases h1 : (c == '|') = true
      · simp [h1]
      · simp only [h1, Bool.false_eq_true, if_false]
        by_cases h2 : (c == '\\') = true
        · simp only [h2, if_true]
          have he := readEscape_len .incompleteIdent (by simp) '|' cs (pos + c.utf8Size)
          have hl := he.len
          cases hr : (readEscape .incompleteIdent '|' (pos + c.utf8Size) cs).res with
          | error k =>
            simp only
            refine ⟨by simp only [List.length_cons]; omega, ?_⟩
            intro h
            subst h
            exact he.nofuel hr
          | ok o =>
            cases o with
            | none =>
              simp only
              have := ih (readEscape .incompleteIdent '|' (pos + c.utf8Size) cs).pos
                ((cs.take (cs.length - (readEscape .incompleteIdent '|' (pos + c.utf8Size) cs).rest.length)).reverse ++ c :: raw)
                ident (readEscape .incompleteIdent '|' (pos + c.utf8Size) cs).rest (by omega)
              revert this
              cases scanBar f _ _ ident _ with
              | ok v =>
                obtain ⟨_, _, p, r⟩ := v
                intro this
                simp only [List.length_cons] at *; omega
              | error v =>
                obtain ⟨k, e, p, r⟩ := v
                intro this
                exact ⟨by have := this.1; simp only [List.length_cons]; omega, this.2⟩
            | some ch =>
              simp only
              have := ih (readEscape .incompleteIdent '|' (pos + c.utf8Size) cs).pos
                ((cs.take (cs.length - (readEscape .incompleteIdent '|' (pos + c.utf8Size) cs).rest.length)).reverse ++ c :: raw)
                (ch :: ident) (readEscape .incompleteIdent '|' (pos + c.utf8Size) cs).rest (by omega)
              revert this
              cases scanBar f _ _ (ch :: ident) _ with
              | ok v =>
                obtain ⟨_, _, p, r⟩ := v
                intro this
                simp only [List.length_cons] at *; omega
              | error v =>
                obtain ⟨k, e, p, r⟩ := v
                intro this
                exact ⟨by have := this.1; simp only [List.length_cons]; omega, this.2⟩
        · simp only [h2, Bool.false_eq_true, if_false]
          have := ih (pos + c.utf8Size) (c :: raw) (c :: ident) cs (by omega)
          revert this
          cases scanBar f (pos + c.utf8Size) (c :: raw) (c :: ident) cs with
          | ok v =>
            obtain ⟨_, _, p, r⟩ := v
            intro this
            simp only [List.length_cons] at *; omega
          | error v =>
            obtain ⟨k, e, p, r⟩ := v
            intro this
            exact ⟨by have := this.1; simp only [List.length_cons]; omega, this.2⟩

theorem hereDelim_len : ∀ (cs : Text) (pos : Nat) (acc : Text),
    match hereDelim pos acc cs with
    | .ok (_, _, r) => r.length ≤ cs.length
    | .error (k, _, r) => r.length ≤ cs.length ∧ k ≠ .outOfFuel := by
  intro cs
  induction cs with
  | nil => intro pos acc; simp [hereDelim]
  | cons c cs ih =>
    intro pos acc
    unfold hereDelim
    simp only
    by_cases h1 : (c == '\n') = true
    · simp [h1]
    · simp only [h1, Bool.false_eq_true, if_false]
      by_cases h2 : (c == '\r') = true
      · simp only [h2, if_true]
        have := ih (pos + c.utf8Size) acc
        cases hh : hereDelim (pos + c.utf8Size) acc cs with
        | ok v => rw [hh] at this; obtain ⟨_, p, r⟩ := v; simp only [List.length_cons] at *; omega
        | error v =>
          rw [hh] at this; obtain ⟨k, p, r⟩ := v
          exact ⟨by have := this.1; simp only [List.length_cons]; omega, this.2⟩
      · simp only [h2, Bool.false_eq_true, if_false]
        by_cases h3 : isWs c = true
        · simp [h3]
        · simp only [h3, Bool.false_eq_true, if_false]
          have := ih (pos + c.utf8Size) (c :: acc)
          cases hh : hereDelim (pos + c.utf8Size) (c :: acc) cs with
          | ok v => rw [hh] at this; obtain ⟨_, p, r⟩ := v; simp only [List.length_cons] at *; omega
          | error v =>
            rw [hh] at this; obtain ⟨k, p, r⟩ := v
            exact ⟨by have := this.1; simp only [List.length_cons]; omega, this.2⟩

theorem hereBody_len (dl : Text) : ∀ (cs : Text) (pos : Nat) (buf : Text), StepLen cs (hereBody dl pos buf cs) := by
  intro cs
  induction cs with
  | nil => intro pos buf; exact ⟨Nat.le_refl _, by simp [hereBody]⟩
  | cons c cs ih =>
    intro pos buf
    unfold hereBody
    simp only
    split
    · exact ⟨by simp, by simp⟩
    · exact (ih _ _).shift (by simp)

theorem readHere_len (pos : Nat) (cs : Text) : StepLen cs (readHere pos cs) := by
  unfold readHere
  have := hereDelim_len cs pos []
  cases hh : hereDelim pos [] cs with
  | error v =>
    rw [hh] at this
    obtain ⟨k, p, r⟩ := v
    exact ⟨this.1, by intro h; exact this.2 (Except.error.inj h)⟩
  | ok v =>
    rw [hh] at this
    obtain ⟨dl, p, r⟩ := v
    exact (hereBody_len _ r p []).shift this

theorem wordToken_nofuel (slice : Text) (esc : Bool) (ident : Text) :
    ∀ k, wordToken slice esc ident = .error k → k ≠ .outOfFuel := by
  intro k h
  unfold wordToken at h
  split at h
  · cases h
  · split at h
    · cases h
    · split at h
      · split at h
        · split at h <;> cases h
        · cases h; simp
      · cases h

/-- `read_word`: what is left is not longer; `scanWord`'s remainder when the word is not a `|..|` identifier -/
theorem readWord_len (acc : Text) (pos : Nat) (cs : Text) : StepLen cs (readWord acc pos cs) := by
  unfold readWord
  split
  · rename_i cs1
    have hb := scanBar_len (cs1.length + 1) (pos + 1) [] [] cs1 (by omega)
    cases hh : scanBar (cs1.length + 1) (pos + 1) [] [] cs1 with
    | error v =>
      rw [hh] at hb
      obtain ⟨k, e, p, r⟩ := v
      exact ⟨by have := hb.1; simp only [List.length_cons]; omega, by intro h; exact hb.2 (Except.error.inj h)⟩
    | ok v =>
      rw [hh] at hb
      obtain ⟨raw, ident, p, r⟩ := v
      simp only
      split
      · exact ⟨by simp only [List.length_cons]; omega, by simp⟩
      · rename_i k hk
        exact ⟨by simp only [List.length_cons]; omega, by
          intro h; exact wordToken_nofuel _ _ _ k hk (Except.error.inj h)⟩
  · have hs := split_len (scanWordAux_split cs false)
    show StepLen cs (match wordToken (acc ++ (scanWord cs).1) false [] with
      | .ok (t, q) => { res := .ok t, pos := pos + utf8Len (scanWord cs).1, rest := (scanWord cs).2, queued := q }
      | .error k => { res := .error k, pos := pos + utf8Len (scanWord cs).1, rest := (scanWord cs).2 })
    unfold scanWord
    split
    · exact ⟨hs, by simp⟩
    · rename_i k hk
      exact ⟨hs, by intro h; exact wordToken_nofuel _ _ _ k hk (Except.error.inj h)⟩

/-- the `|..|` reader eats the opening bar -/
theorem readWord_bar_len (acc : Text) (pos : Nat) (cs : Text) :
    (readWord acc pos ('|' :: cs)).rest.length ≤ cs.length := by
  have hb := scanBar_len (cs.length + 1) (pos + 1) [] [] cs (by omega)
  simp only [readWord]
  cases hh : scanBar (cs.length + 1) (pos + 1) [] [] cs with
  | error v =>
    rw [hh] at hb
    obtain ⟨k, e, p, r⟩ := v
    exact hb.1
  | ok v =>
    rw [hh] at hb
    obtain ⟨raw, ident, p, r⟩ := v
    simp only
    split <;> exact hb

/-- the same, measured against `scanWord`'s remainder: an ordinary word ends where `scanWord` stops -/
theorem readWord_rest (acc : Text) (pos : Nat) (cs : Text) (h : cs.head? ≠ some '|') :
    (readWord acc pos cs).rest = (scanWord cs).2 := by
  unfold readWord
  split
  · rename_i cs1; simp at h
  · show (match wordToken (acc ++ (scanWord cs).1) false [] with
      | .ok (t, q) => ({ res := .ok t, pos := pos + utf8Len (scanWord cs).1, rest := (scanWord cs).2, queued := q } : Step)
      | .error k => { res := .error k, pos := pos + utf8Len (scanWord cs).1, rest := (scanWord cs).2 }).rest = _
    split <;> rfl

theorem tryParseNumber_nofuel (s : Text) : tryParseNumber s ≠ some (.error .outOfFuel) := by
  unfold tryParseNumber
  cases parseNumber s with
  | none => simp
  | some n =>
    cases n <;> simp only <;> split <;> simp

/-- `read_number`: what is left is not longer than what `scanNum` leaves -/
theorem readNumber_len (acc : Text) (pos : Nat) (cs : Text) :
    (readNumber acc pos cs).rest.length ≤ (scanNum cs).2.length ∧ (readNumber acc pos cs).res ≠ .error .outOfFuel := by
  have hw := readWord_len (acc ++ (scanNum cs).1) (pos + utf8Len (scanNum cs).1) (scanNum cs).2
  have htry :
      (match tryParseNumber (acc ++ (scanNum cs).1) with
       | some (.ok n) => ({ res := .ok (.num n), pos := pos + utf8Len (scanNum cs).1, rest := (scanNum cs).2 } : Step)
       | some (.error k) => { res := .error k, pos := pos + utf8Len (scanNum cs).1, rest := (scanNum cs).2 }
       | none => readWord (acc ++ (scanNum cs).1) (pos + utf8Len (scanNum cs).1) (scanNum cs).2).rest.length
        ≤ (scanNum cs).2.length ∧
      (match tryParseNumber (acc ++ (scanNum cs).1) with
       | some (.ok n) => ({ res := .ok (.num n), pos := pos + utf8Len (scanNum cs).1, rest := (scanNum cs).2 } : Step)
       | some (.error k) => { res := .error k, pos := pos + utf8Len (scanNum cs).1, rest := (scanNum cs).2 }
       | none => readWord (acc ++ (scanNum cs).1) (pos + utf8Len (scanNum cs).1) (scanNum cs).2).res
        ≠ .error .outOfFuel := by
    have hn := tryParseNumber_nofuel (acc ++ (scanNum cs).1)
    split
    · exact ⟨Nat.le_refl _, by simp⟩
    · rename_i k hk
      refine ⟨Nat.le_refl _, ?_⟩
      intro h
      have : k = .outOfFuel := Except.error.inj h
      subst this
      exact hn hk
    · exact ⟨hw.len, hw.nofuel⟩
  unfold readNumber
  simp only
  split
  · exact htry
  · split
    · exact htry
    · exact ⟨hw.len, hw.nofuel⟩

theorem hexCharOf_nofuel (p : Text) : hexCharOf p ≠ .error .outOfFuel := by
  unfold hexCharOf
  split
  · simp
  · split <;> simp

theorem charPayload_nofuel (first : Char) (more s : Text) : charPayload first more s ≠ .error .outOfFuel := by
  unfold charPayload
  split
  · split
    · split <;> simp
    · simp
  · simp

theorem parseCharName_nofuel (s : Text) : parseCharName s ≠ .error .outOfFuel := by
  unfold parseCharName
  cases namedChar s with
  | some c => simp
  | none =>
    simp only
    cases s with
    | nil => simp
    | cons first more =>
      simp only
      split
      · cases hp : charPayload first more (first :: more) with
        | error k =>
          simp only
          intro h
          have : k = .outOfFuel := Except.error.inj h
          subst this
          exact charPayload_nofuel _ _ _ hp
        | ok p => simp only; exact hexCharOf_nofuel _
      · split <;> simp

theorem readHash_len (tokStart pos : Nat) (cs : Text) : StepLen cs (readHash tokStart pos cs) := by
  have hs := split_len (scanHashAux_split cs false)
  have hplain : ∀ (res : Except LexErrKind Tok) (e : Option (Nat × Nat)), res ≠ .error .outOfFuel →
      StepLen cs { res := res, err := e, pos := pos + utf8Len (scanHash cs).1, rest := (scanHash cs).2 } := by
    intro res e hr
    unfold scanHash
    exact ⟨hs, hr⟩
  have hw : StepLen cs (readWord ('#' :: (scanHash cs).1) (pos + utf8Len (scanHash cs).1) (scanHash cs).2) := by
    unfold scanHash
    exact (readWord_len _ _ _).shift hs
  have hopen : ∀ (res : Except LexErrKind Tok) (r' : Text), (scanHash cs).2 = '(' :: r' → res ≠ .error .outOfFuel →
      StepLen cs { res := res, pos := pos + utf8Len (scanHash cs).1 + 1, rest := r' } := by
    intro res r' heq hr
    unfold scanHash at *
    rw [heq] at hs
    exact ⟨by show r'.length ≤ cs.length; simp only [List.length_cons] at hs; omega, hr⟩
  unfold readHash
  simp only
  split
  · exact hplain _ _ (by simp)
  split
  · exact hplain _ _ (by simp)
  split
  · exact hplain _ _ (by simp)
  split
  · exact hplain _ _ (by simp)
  split
  · exact hplain _ _ (by simp)
  split
  · exact hplain _ _ (by simp)
  split
  · exact hplain _ _ (by simp)
  · split
    · exact hplain _ _ (by simp)
    · split
      · exact hplain _ _ (by simp)
      · rename_i k hk
        refine hplain _ _ ?_
        intro h
        have : k = .outOfFuel := Except.error.inj h
        subst this
        exact parseCharName_nofuel _ hk
  · split
    · rename_i r' heq
      split
      · exact hopen _ r' heq (by simp)
      · split
        · exact hopen _ r' heq (by simp)
        · exact hw
    · exact hw

theorem nestComment_len : ∀ (cs : Text) (prev depth pos : Nat), StepLen cs (nestComment prev depth pos cs) := by
  intro cs
  induction cs with
  | nil => intro prev depth pos; exact ⟨Nat.le_refl _, by simp [nestComment]⟩
  | cons c cs ih =>
    intro prev depth pos
    unfold nestComment
    simp only
    have hsh : ∀ (p d : Nat), StepLen (c :: cs) (nestComment p d (pos + c.utf8Size) cs) :=
      fun p d => (ih p d _).shift (by simp)
    split
    · split
      · exact ⟨by simp, by simp⟩
      · exact hsh _ _
    · split
      · exact hsh _ _
      · split
        · exact hsh _ _
        · split
          · exact hsh _ _
          · exact hsh _ _

theorem scanNum_digit (c : Char) (cs : Text) (h : isDigit c = true) : (scanNum (c :: cs)).2.length ≤ cs.length := by
  have hn : isNumChar c = true := by simp [isNumChar, h]
  simp only [scanNum, hn, if_true]
  exact split_len (scanNum_split cs)

theorem scanWord_first (c : Char) (cs : Text) (h : isWordStop c = false) :
    (scanWord (c :: cs)).2.length ≤ cs.length := by
  unfold scanWord
  simp only [scanWordAux, h, Bool.false_eq_true, if_false]
  split
  · exact split_len (scanWordAux_split cs true)
  · exact split_len (scanWordAux_split cs false)

/-- one token costs at least one character, and the fuel of the string / `|..|` readers suffices -/
theorem lexOne_len (pos : Nat) (c : Char) (cs : Text) (hws : isWs c = false) :
    (lexOne pos c cs).rest.length ≤ cs.length ∧ (lexOne pos c cs).res ≠ .error .outOfFuel := by
  have hsimple : ∀ (res : Except LexErrKind Tok) (p : Nat), res ≠ .error .outOfFuel →
      ({ res := res, pos := p, rest := cs } : Step).rest.length ≤ cs.length ∧
      ({ res := res, pos := p, rest := cs } : Step).res ≠ .error .outOfFuel :=
    fun res p hr => ⟨Nat.le_refl _, hr⟩
  have hstep : ∀ {s : Step} {cs1 : Text}, StepLen cs1 s → cs1.length ≤ cs.length →
      s.rest.length ≤ cs.length ∧ s.res ≠ .error .outOfFuel :=
    fun h hl => ⟨by have := h.len; omega, h.nofuel⟩
  unfold lexOne
  by_cases h1 : (c == ';') = true
  · rw [if_pos h1]
    exact ⟨split_len (restOfLine_split cs), by simp⟩
  rw [if_neg h1]
  by_cases h2 : (c == '"') = true
  · rw [if_pos h2]
    exact hstep (readStr_len _ _ _ _ (by omega)) (Nat.le_refl _)
  rw [if_neg h2]
  by_cases h3 : (c == '(') = true
  · rw [if_pos h3]; exact hsimple _ _ (by simp)
  rw [if_neg h3]
  by_cases h4 : (c == '[') = true
  · rw [if_pos h4]; exact hsimple _ _ (by simp)
  rw [if_neg h4]
  by_cases h5 : (c == '{') = true
  · rw [if_pos h5]; exact hsimple _ _ (by simp)
  rw [if_neg h5]
  by_cases h6 : (c == ')') = true
  · rw [if_pos h6]; exact hsimple _ _ (by simp)
  rw [if_neg h6]
  by_cases h7 : (c == ']') = true
  · rw [if_pos h7]; exact hsimple _ _ (by simp)
  rw [if_neg h7]
  by_cases h8 : (c == '}') = true
  · rw [if_pos h8]; exact hsimple _ _ (by simp)
  rw [if_neg h8]
  by_cases h9 : (c == '\'') = true
  · rw [if_pos h9]; exact hsimple _ _ (by simp)
  rw [if_neg h9]
  by_cases h10 : (c == '`') = true
  · rw [if_pos h10]; exact hsimple _ _ (by simp)
  rw [if_neg h10]
  by_cases h11 : (c == ',') = true
  · rw [if_pos h11]
    split
    · exact ⟨by simp, by simp⟩
    · exact hsimple _ _ (by simp)
  rw [if_neg h11]
  by_cases h12 : (c == '+' || c == '-' || c == '.') = true
  · rw [if_pos h12]
    have := readNumber_len [c] (pos + c.utf8Size) cs
    have hs := split_len (scanNum_split cs)
    exact ⟨by omega, this.2⟩
  rw [if_neg h12]
  by_cases h13 : (c == '#') = true
  · rw [if_pos h13]
    cases cs with
    | nil => exact hstep (readHash_len _ _ _) (Nat.le_refl _)
    | cons d cs' =>
      simp only
      by_cases g1 : (d == 'x' || d == 'X' || d == 'd' || d == 'D' || d == 'o' || d == 'O' || d == 'b' || d == 'B') = true
      · rw [if_pos g1]
        have := readNumber_len [c, d] (pos + c.utf8Size + 1) cs'
        have hs := split_len (scanNum_split cs')
        exact ⟨by simp only [List.length_cons]; omega, this.2⟩
      rw [if_neg g1]
      by_cases g2 : (d == '|') = true
      · rw [if_pos g2]
        exact hstep (nestComment_len _ _ _ _) (by simp)
      rw [if_neg g2]
      by_cases g3 : (d == ';') = true
      · rw [if_pos g3]
        exact ⟨by simp, by simp⟩
      rw [if_neg g3]
      by_cases g4 : (d == '#') = true
      · rw [if_pos g4]
        exact ⟨by simp, by simp⟩
      rw [if_neg g4]
      by_cases g5 : (d == '<') = true
      · rw [if_pos g5]
        split
        · exact hstep (readHere_len _ _) (by simp only [List.length_cons]; omega)
        · exact hstep (readWord_len _ _ _) (by simp only [List.length_cons]; omega)
      rw [if_neg g5]
      exact hstep (readHash_len _ _ _) (Nat.le_refl _)
  rw [if_neg h13]
  by_cases h14 : (isDigit c && c != '_') = true
  · rw [if_pos h14]
    have hd : isDigit c = true := by
      simp only [Bool.and_eq_true] at h14; exact h14.1
    have := readNumber_len [] pos (c :: cs)
    have hs := scanNum_digit c cs hd
    exact ⟨by omega, this.2⟩
  rw [if_neg h14]
  have hstop : isWordStop c = false := by
    simp only [isWordStop, hws, Bool.or_false]
    simp only [Bool.or_eq_true, not_or, Bool.not_eq_true] at *
    simp [h1, h2, h3, h4, h5, h6, h7, h8, h9, h10, h11]
  by_cases hbar : c = '|'
  · subst hbar
    exact ⟨readWord_bar_len [] pos cs, (readWord_len [] pos ('|' :: cs)).nofuel⟩
  · have hrest := readWord_rest [] pos (c :: cs) (by simpa using hbar)
    have hw := readWord_len [] pos (c :: cs)
    refine ⟨?_, hw.nofuel⟩
    rw [hrest]
    exact scanWord_first c cs hstop

/-! ## the token stream -/

def qcost : Option Tok → Nat
  | none => 0
  | some _ => 1

theorem skipWs_head : ∀ (cs : Text) (c : Char) (rest : Text), (skipWs cs).2 = c :: rest →
    isWs c = false ∧ rest.length + 1 ≤ cs.length := by
  intro cs
  induction cs with
  | nil => intro c rest h; simp [skipWs] at h
  | cons d cs ih =>
    intro c rest h
    unfold skipWs at h
    split at h
    · rename_i hd
      have := ih c rest h
      exact ⟨this.1, by simp only [List.length_cons]; omega⟩
    · rename_i hd
      cases h
      exact ⟨by simpa using hd, by simp⟩

/-- with fuel `2·characters + 1` (+1 when a token is queued) the token stream has no `outOfFuel` item -/
theorem lexLoop_nofuel : ∀ (f : Nat) (st : LexSt) (cs : Text), 2 * cs.length + qcost st.queued + 1 ≤ f →
    ∀ it ∈ lexLoop f st cs, ∀ s e, it ≠ .err .outOfFuel s e := by
  intro f
  induction f with
  | zero => intro st cs h; omega
  | succ f ih =>
    intro st cs hf
    unfold lexLoop
    cases hq : st.queued with
    | some t =>
      simp only
      rw [hq] at hf
      simp only [qcost] at hf
      intro it hit s e
      rcases List.mem_cons.mp hit with h | h
      · subst h; simp
      · exact ih { st with queued := none } cs (by simp only [qcost]; omega) it h s e
    | none =>
      simp only
      rw [hq] at hf
      simp only [qcost] at hf
      cases hcs1 : (skipWs cs).2 with
      | nil => intro it hit; simp at hit
      | cons c rest =>
        simp only
        obtain ⟨hws, hlen⟩ := skipWs_head cs c rest hcs1
        generalize hstart : st.pos + utf8Len (skipWs cs).1 = start
        have hone := lexOne_len start c rest hws
        generalize hs1 : lexOne start c rest = s1 at hone
        have hq1 : qcost s1.queued ≤ 1 := by cases s1.queued <;> simp [qcost]
        have hrec := ih { pos := s1.pos, tokStart := start, errSpan := newErrSpan s1.err st.errSpan,
                          queued := s1.queued } s1.rest (by simp only; omega)
        cases hres : s1.res with
        | ok t =>
          simp only
          intro it hit s e
          rcases List.mem_cons.mp hit with h | h
          · subst h; simp
          · exact hrec it h s e
        | error k =>
          simp only
          intro it hit s e
          rcases List.mem_cons.mp hit with h | h
          · subst h
            intro heq
            have : k = .outOfFuel := by injection heq
            subst this
            exact hone.2 hres
          · exact hrec it h s e

/-- the lexer never runs out of fuel -/
theorem lex_nofuel (src : Text) : ∀ it ∈ lex src, ∀ s e, it ≠ .err .outOfFuel s e := by
  unfold lex
  simp only
  exact lexLoop_nofuel _ _ _ (by simp only [qcost]; omega)

end SteelVerif.C12
