/-
C12 — the polar check of `readLoop` is reached only by a polar number literal: when no token of the stream is a
polar literal `r@θ`, no datum the parser builds contains one (`Datum.hasPolar`), whatever the frames hold.
-/
import SteelVerif.C12.LemmasFuel
namespace SteelVerif.C12

def LexItem.noPolar : LexItem → Bool
  | .tok (.num (.polar _ _)) _ _ => false
  | _ => true

def ItemsNoPolar (toks : List LexItem) : Prop := ∀ it ∈ toks, it.noPolar = true

theorem itemsNoPolar_tail {it : LexItem} {l : List LexItem} (h : ItemsNoPolar (it :: l)) : ItemsNoPolar l :=
  fun x hx => h x (List.mem_cons_of_mem _ hx)

theorem hasPolars_cons (x : Datum) (xs : List Datum) : hasPolars (x :: xs) = (x.hasPolar || hasPolars xs) := by
  simp [hasPolars]

theorem hasPolars_append (a b : List Datum) : hasPolars (a ++ b) = (hasPolars a || hasPolars b) := by
  induction a with
  | nil => simp [hasPolars]
  | cons x xs ih => simp [hasPolars_cons, ih, Bool.or_assoc]

theorem hasPolars_reverse (a : List Datum) : hasPolars a.reverse = hasPolars a := by
  induction a with
  | nil => rfl
  | cons x xs ih => simp [hasPolars_append, hasPolars_cons, ih, hasPolars, Bool.or_comm]

theorem hasPolars_dropLast (a : List Datum) (h : hasPolars a = false) : hasPolars a.dropLast = false := by
  induction a with
  | nil => rfl
  | cons x xs ih =>
    cases xs with
    | nil => rfl
    | cons y ys =>
      simp only [hasPolars_cons, Bool.or_eq_false_iff] at h
      simp only [List.dropLast, hasPolars_cons, Bool.or_eq_false_iff]
      exact ⟨h.1, ih (by simp only [hasPolars_cons, Bool.or_eq_false_iff]; exact h.2)⟩

theorem mkPairs_polar (xs : List Datum) (t : Datum) (h1 : hasPolars xs = false) (h2 : t.hasPolar = false) :
    (mkPairs xs t).hasPolar = false := by
  induction xs with
  | nil => exact h2
  | cons x xs ih =>
    simp only [hasPolars_cons, Bool.or_eq_false_iff] at h1
    simp only [mkPairs, Datum.hasPolar, Bool.or_eq_false_iff]
    exact ⟨h1.1, ih h1.2⟩

theorem improper_polar (xs : List Datum) (h : hasPolars xs = false) : (improperDatum xs).hasPolar = false := by
  unfold improperDatum
  have hr := hasPolars_reverse xs
  rw [h] at hr
  cases hx : xs.reverse with
  | nil => rfl
  | cons t initRev =>
    rw [hx, hasPolars_cons, Bool.or_eq_false_iff] at hr
    simp only
    exact mkPairs_polar _ _ (by rw [hasPolars_reverse]; exact hr.2) hr.1

/-- polar-free values, frames, results -/
def PValPF (v : PVal) : Prop := v.d.hasPolar = false ∧ ∀ a i, v.info = some (a, i) → hasPolars a = false

def FramePF (f : Frame) : Prop :=
  (∀ d, f.first = some d → d.hasPolar = false) ∧ hasPolars f.restRev = false ∧
  (∀ a i, f.lastList = some (a, i) → hasPolars a = false)

def InvPF (r : PRes) : Prop := (∀ v, r.val = some (.ok v) → PValPF v) ∧ ItemsNoPolar r.rest

theorem listVal_pf (args : List Datum) (imp : Bool) (sp : Span) (h : hasPolars args = false) :
    PValPF (listVal args imp sp) := by
  unfold listVal
  refine ⟨?_, ?_⟩
  · simp only
    split
    · exact improper_polar _ h
    · simpa [Datum.hasPolar] using h
  · intro a i hi
    simp only [Option.some.injEq, Prod.mk.injEq] at hi
    rw [← hi.1]; exact h

theorem exprs_pf (f : Frame) (h : FramePF f) : hasPolars f.exprs = false := by
  unfold Frame.exprs
  cases hf : f.first with
  | none => rfl
  | some d =>
    simp only [hasPolars_cons, hasPolars_reverse, Bool.or_eq_false_iff]
    exact ⟨h.1 d hf, h.2.1⟩

theorem push_pf (f : Frame) (d : Datum) (sp : Span) (b : Bool) (info : Option (List Datum × Bool))
    (hf : FramePF f) (hd : d.hasPolar = false) (hi : ∀ a i, info = some (a, i) → hasPolars a = false) :
    ∀ f', f.push d sp b info = .ok f' → FramePF f' := by
  intro f' h
  unfold Frame.push at h
  split at h
  · cases h
  · split at h
    · cases h
    · split at h
      · cases h; exact hf
      · split at h
        · cases h
          exact ⟨by intro d' hd'; simp only [Option.some.injEq] at hd'; rw [← hd']; exact hd, hf.2.1, hi⟩
        · cases h
          exact ⟨hf.1, by simp only [hasPolars_cons, Bool.or_eq_false_iff]; exact ⟨hd, hf.2.1⟩, hi⟩

theorem build_pf (f : Frame) (close : Span) (hf : FramePF f) : ∀ v, f.build close = .ok v → PValPF v := by
  intro v h
  have he := exprs_pf f hf
  unfold Frame.build at h
  split at h
  · cases h
  · split at h
    · cases h; exact ⟨rfl, by intro a i hi; cases hi⟩
    · cases h; exact ⟨by simpa [Datum.hasPolar] using he, by intro a i hi; cases hi⟩
    · split at h
      · cases h; exact listVal_pf _ _ _ he
      · split at h
        · split at h
          · rename_i largs limp hl
            cases h
            refine listVal_pf _ _ _ ?_
            rw [hasPolars_append, hasPolars_dropLast _ he, hf.2.2 _ _ hl]; rfl
          · cases h; exact listVal_pf _ _ _ he
        · cases h

theorem childClose_pf (st : PSt) (prev : Frame) (h : FramePF prev) : FramePF (childClose st prev).2 := by
  have hsym : ∀ s : Text, FramePF { prev with first := some (.sym s) } :=
    fun s => ⟨by intro d hd; simp only [Option.some.injEq] at hd; rw [← hd]; rfl, h.2.1, h.2.2⟩
  unfold childClose
  split
  · split
    · split
      · exact hsym _
      · exact h
    · split
      · exact h
      · split
        · split
          · exact hsym _
          · exact h
        · exact h
  · exact h

theorem normRat_pf (n d : Int) : (normRat n d).hasPolar = false := by
  unfold normRat
  split
  · rfl
  · split
    simp only
    split <;> rfl

theorem realToDatum_pf (r : RealLit) : (realToDatum r).hasPolar = false := by
  cases r <;> simp only [realToDatum] <;> first | rfl | exact normRat_pf _ _

theorem atom_pf (t : Tok) (s e : Nat) (h : (LexItem.tok t s e).noPolar = true) : (atomToDatum t).hasPolar = false := by
  cases t with
  | num n =>
    cases n with
    | polar a b => simp [LexItem.noPolar] at h
    | real r => exact realToDatum_pf r
    | complex re im =>
      simp only [atomToDatum, numToDatum]
      split
      · exact realToDatum_pf re
      · rfl
  | _ => rfl

def ParserPF (f : Nat) : Prop :=
  (∀ st toks, ItemsNoPolar toks → InvPF (pNext f st toks)) ∧
  (∀ st kind n top sp toks, ItemsNoPolar toks → InvPF (pShort f st kind n top sp toks)) ∧
  (∀ st dcs toks, ItemsNoPolar toks → InvPF (pTop f st dcs toks)) ∧
  (∀ st stack cur last toks, (∀ fr ∈ cur :: stack, FramePF fr) → ItemsNoPolar toks →
      InvPF (pList f st stack cur last toks))

theorem invPF_err (e : ReadErr) (st : PSt) (toks : List LexItem) (h : ItemsNoPolar toks) :
    InvPF ⟨some (.error e), st, toks⟩ := ⟨(by intro v hv; cases hv), h⟩

theorem invPF_ok (v : PVal) (st : PSt) (toks : List LexItem) (hv : PValPF v) (h : ItemsNoPolar toks) :
    InvPF ⟨some (.ok v), st, toks⟩ := ⟨by intro v' hv'; cases hv'; exact hv, h⟩

theorem quoteList_pf (name : Text) (d : Datum) (h : d.hasPolar = false) : PValPF (quoteList name d) := by
  unfold quoteList
  exact listVal_pf _ _ _ (by simp [hasPolars, Datum.hasPolar, h])

theorem wrapNext_pf (r : Option (Except ReadErr PVal)) (sp : Span) (wrap : Datum → PVal)
    (hr : ∀ v, r = some (.ok v) → PValPF v) (hw : ∀ d, d.hasPolar = false → PValPF (wrap d)) :
    ∀ v, wrapNext r sp wrap = .ok v → PValPF v := by
  intro v h
  unfold wrapNext at h
  split at h
  · unfold eofErr at h; cases h
  · cases h
  · cases h; rename_i v0; exact hw _ (hr v0 rfl).1

theorem finishTick_pf (kind : Nat) (r : PRes) (v : Except ReadErr PVal) (sp : Span) (fixSt : PSt → PSt)
    (hr : ItemsNoPolar r.rest) (hv : ∀ v', v = .ok v' → PValPF v') : InvPF (finishTick kind r v sp fixSt) := by
  unfold finishTick
  simp only
  split
  · exact ⟨by intro v' h; cases h; exact hv _ rfl, hr⟩
  · exact invPF_err _ _ _ hr

theorem pShort_pf (f : Nat) (ih : ParserPF f) :
    ∀ st kind n top sp toks, ItemsNoPolar toks → InvPF (pShort (f + 1) st kind n top sp toks) := by
  intro st kind n top sp toks hp
  obtain ⟨ihN, _, _, _⟩ := ih
  have hN := fun st' => ihN st' toks hp
  have hq : ∀ name d, d.hasPolar = false → PValPF (quoteList name d) := quoteList_pf
  unfold pShort
  split
  · exact ⟨fun v h => wrapNext_pf _ sp _ (hN _).1 (hq _) v (Option.some.inj h), (hN _).2⟩
  · split
    · simp only
      refine finishTick_pf 0 _ _ sp _ (hN _).2 (wrapNext_pf _ sp _ (hN _).1 ?_)
      intro d hd
      split
      · exact hq _ d hd
      · exact ⟨by simp [Datum.hasPolar, hasPolars, hd], by intro a i hi; cases hi⟩
    · split
      · simp only
        exact finishTick_pf 2 _ _ sp _ (hN _).2 (wrapNext_pf _ sp _ (hN _).1 (hq _))
      · simp only
        exact finishTick_pf kind _ _ sp _ (hN _).2 (wrapNext_pf _ sp _ (hN _).1 (hq _))

theorem finish_pf (f : Nat) (dcs : List Span) (r : PRes)
    (ihT : ∀ st dcs toks, ItemsNoPolar toks → InvPF (pTop f st dcs toks)) (hr : InvPF r) :
    InvPF (match r.val with
      | some (.ok _) =>
        match dcs with
        | _ :: dcs' => pTop f r.st dcs' r.rest
        | [] => r
      | _ => r) := by
  split
  · split
    · exact ihT _ _ _ hr.2
    · exact hr
  · exact hr

theorem pTop_pf (f : Nat) (ih : ParserPF f) :
    ∀ st dcs toks, ItemsNoPolar toks → InvPF (pTop (f + 1) st dcs toks) := by
  intro st dcs toks hp
  obtain ⟨ihN, ihS, ihT, ihL⟩ := ih
  cases toks with
  | nil =>
    cases dcs with
    | nil => simp only [pTop]; exact ⟨(by intro v h; cases h), hp⟩
    | cons sp dcs' => simp only [pTop]; exact invPF_err _ _ _ hp
  | cons item toks =>
    have hp' := itemsNoPolar_tail hp
    have hpl := hp item (List.mem_cons_self ..)
    cases item with
    | err k s e => simp only [pTop]; exact invPF_err _ _ _ hp'
    | tok t s e =>
      have hfin := fun (r : PRes) (hr : InvPF r) => finish_pf f dcs r ihT hr
      have hatom : InvPF ⟨some (.ok { d := atomToDatum t, sp := (s, e) }), st, toks⟩ :=
        invPF_ok _ _ _ ⟨atom_pf t s e hpl, by intro a i hi; cases hi⟩ hp'
      cases t with
      | comment doc =>
        simp only [pTop]
        split
        · exact invPF_err _ _ _ hp'
        · exact ihT _ _ _ hp'
      | dcomment => simp only [pTop]; exact ihT _ _ _ hp'
      | synQuote => simp only [pTop]; exact hfin _ (ihS _ _ _ _ _ _ hp')
      | synQuasi => simp only [pTop]; exact hfin _ (ihS _ _ _ _ _ _ hp')
      | synUnquote => simp only [pTop]; exact hfin _ (ihS _ _ _ _ _ _ hp')
      | synSplice => simp only [pTop]; exact hfin _ (ihS _ _ _ _ _ _ hp')
      | tick => simp only [pTop]; exact hfin _ (ihS _ _ _ _ _ _ hp')
      | unquote => simp only [pTop]; exact hfin _ (ihS _ _ _ _ _ _ hp')
      | quasi => simp only [pTop]; exact hfin _ (ihS _ _ _ _ _ _ hp')
      | splice => simp only [pTop]; exact hfin _ (ihS _ _ _ _ _ _ hp')
      | open_ p m =>
        simp only [pTop]
        refine hfin _ (ihL _ _ _ _ _ ?_ hp')
        intro fr hfr
        simp at hfr
        subst hfr
        exact ⟨(by intro d hd; cases hd), rfl, by intro a i hi; cases hi⟩
      | close p => simp only [pTop]; exact invPF_err _ _ _ hp'
      | kw k => simp only [pTop]; exact hfin _ hatom
      | chr c => simp only [pTop]; exact hfin _ hatom
      | bool b => simp only [pTop]; exact hfin _ hatom
      | ident x => simp only [pTop]; exact hfin _ hatom
      | keyword x => simp only [pTop]; exact hfin _ hatom
      | num x => simp only [pTop]; exact hfin _ hatom
      | str x => simp only [pTop]; exact hfin _ hatom
      | dot => simp only [pTop]; exact hfin _ hatom

theorem push_then_pf (cur : Frame) (d : Datum) (sp : Span) (b : Bool) (info : Option (List Datum × Bool))
    (k : Frame → PRes) (st : PSt) (toks : List LexItem) (hc : FramePF cur) (hd : d.hasPolar = false)
    (hi : ∀ a i, info = some (a, i) → hasPolars a = false) (ht : ItemsNoPolar toks)
    (hk : ∀ cur', FramePF cur' → InvPF (k cur')) :
    InvPF (match cur.push d sp b info with
      | .error e => ⟨some (.error e), st, toks⟩
      | .ok cur' => k cur') := by
  cases hp : cur.push d sp b info with
  | error e => exact invPF_err _ _ _ ht
  | ok cur' => exact hk cur' (push_pf cur d sp b info hc hd hi cur' hp)

theorem framesPF_cons {x : Frame} {l : List Frame} (hx : FramePF x) (h : ∀ fr ∈ l, FramePF fr) :
    ∀ fr ∈ x :: l, FramePF fr := by
  intro fr hfr
  rcases List.mem_cons.mp hfr with h1 | h1
  · subst h1; exact hx
  · exact h fr h1

theorem pList_pf (f : Nat) (ih : ParserPF f) :
    ∀ st stack cur last toks, (∀ fr ∈ cur :: stack, FramePF fr) → ItemsNoPolar toks →
      InvPF (pList (f + 1) st stack cur last toks) := by
  intro st stack cur last toks hfr hp
  obtain ⟨ihN, ihS, ihT, ihL⟩ := ih
  cases toks with
  | nil => simp only [pList]; exact ⟨(by intro v h; unfold eofErr at h; cases h), hp⟩
  | cons item toks =>
    have hp' := itemsNoPolar_tail hp
    have hpl := hp item (List.mem_cons_self ..)
    cases item with
    | err k s e => simp only [pList]; exact invPF_err _ _ _ hp'
    | tok t s e =>
      have hcur : FramePF cur := hfr cur (List.mem_cons_self ..)
      have hstack : ∀ fr ∈ stack, FramePF fr := fun fr h => hfr fr (List.mem_cons_of_mem _ h)
      have hfail : ∀ (er : ReadErr), InvPF ⟨some (.error er), st, toks⟩ := fun er => invPF_err _ _ _ hp'
      have hshort : ∀ kind, InvPF
          (match (pShort f st kind stack.length false (s, e) toks).val with
           | some (.ok v) =>
             match cur.push v.d v.sp false v.info with
             | .error er => ⟨some (.error er), (pShort f st kind stack.length false (s, e) toks).st,
                            (pShort f st kind stack.length false (s, e) toks).rest⟩
             | .ok cur' => pList f (pShort f st kind stack.length false (s, e) toks).st stack cur' (s, e)
                            (pShort f st kind stack.length false (s, e) toks).rest
           | _ => pShort f st kind stack.length false (s, e) toks) := by
        intro kind
        have hr := ihS st kind stack.length false (s, e) toks hp'
        split
        · rename_i v hv
          have hvp := hr.1 v hv
          exact push_then_pf cur v.d v.sp false v.info _ _ _ hcur hvp.1 hvp.2 hr.2
            (fun cur' hc' => ihL _ _ _ _ _ (framesPF_cons hc' hstack) hr.2)
        · exact hr
      have hatom : InvPF (match cur.push (atomToDatum t) (s, e) (tokByte t).isSome with
          | .error er => ⟨some (.error er), st, toks⟩   -- placeholder state, overwritten below
          | .ok cur' => pList f st stack cur' (s, e) toks) :=
        push_then_pf cur _ (s, e) _ none _ _ _ hcur (atom_pf t s e hpl) (by intro a i hi; cases hi) hp'
          (fun cur' hc' => ihL _ _ _ _ _ (framesPF_cons hc' hstack) hp')
      have hatom' : ∀ st', InvPF (match cur.push (atomToDatum t) (s, e) (tokByte t).isSome with
          | .error er => ⟨some (.error er), st', toks⟩
          | .ok cur' => pList f st' stack cur' (s, e) toks) := fun st' =>
        push_then_pf cur _ (s, e) _ none _ _ _ hcur (atom_pf t s e hpl) (by intro a i hi; cases hi) hp'
          (fun cur' hc' => ihL _ _ _ _ _ (framesPF_cons hc' hstack) hp')
      cases t with
      | dot =>
        simp only [pList]
        split
        · exact hfail _
        · split
          · exact hfail _
          · split
            · exact hfail _
            · exact hfail _
            · split
              · exact hfail _
              · exact ihL _ _ _ _ _ (framesPF_cons ⟨hcur.1, hcur.2.1, hcur.2.2⟩ hstack) hp'
      | comment doc => simp only [pList]; exact ihL _ _ _ _ _ hfr hp'
      | dcomment =>
        simp only [pList]
        exact ihL _ _ { cur with comment := cur.comment + 1 } _ _ (framesPF_cons ⟨hcur.1, hcur.2.1, hcur.2.2⟩ hstack) hp'
      | synQuote => simp only [pList]; exact hshort 4
      | synQuasi => simp only [pList]; exact hshort 5
      | synUnquote => simp only [pList]; exact hshort 6
      | synSplice => simp only [pList]; exact hshort 7
      | tick => simp only [pList]; exact hshort 0
      | unquote => simp only [pList]; exact hshort 1
      | quasi => simp only [pList]; exact hshort 2
      | splice => simp only [pList]; exact hshort 3
      | open_ p m =>
        simp only [pList]
        exact ihL _ _ _ _ _ (framesPF_cons ⟨(by intro d hd; cases hd), rfl, by intro a i hi; cases hi⟩ hfr) hp'
      | close p =>
        simp only [pList]
        split
        · exact hfail _
        · cases stack with
          | nil =>
            simp only
            cases hb : cur.build (s, e) with
            | error er => exact invPF_err _ _ _ hp'
            | ok v => exact invPF_ok _ _ _ (build_pf cur (s, e) hcur v hb) hp'
          | cons prev stack' =>
            simp only
            have hprev : FramePF prev := hstack prev (List.mem_cons_self ..)
            have hstack' : ∀ fr ∈ stack', FramePF fr := fun fr h => hstack fr (List.mem_cons_of_mem _ h)
            have hprev1 := childClose_pf st prev hprev
            cases hbuild : cur.build (s, e) with
            | error er => exact invPF_err _ _ _ hp'
            | ok v =>
              simp only
              have hvp := build_pf cur (s, e) hcur v hbuild
              exact push_then_pf _ v.d v.sp false v.info _ _ _ hprev1 hvp.1 hvp.2 hp'
                (fun cur' hc' => ihL _ _ _ _ _ (framesPF_cons hc' hstack') hp')
      | kw k => simp only [pList]; exact hatom' _
      | chr c => simp only [pList]; exact hatom' _
      | bool b => simp only [pList]; exact hatom' _
      | ident x => simp only [pList]; exact hatom' _
      | keyword x => simp only [pList]; exact hatom' _
      | num x => simp only [pList]; exact hatom' _
      | str x => simp only [pList]; exact hatom' _

theorem parserPF : ∀ f, ParserPF f := by
  intro f
  induction f with
  | zero =>
    refine ⟨?_, ?_, ?_, ?_⟩
    · intro st toks h; exact invPF_err _ _ _ h
    · intro st kind n top sp toks h; exact invPF_err _ _ _ h
    · intro st dcs toks h; exact invPF_err _ _ _ h
    · intro st stack cur last toks _ h; exact invPF_err _ _ _ h
  | succ f ih =>
    refine ⟨?_, pShort_pf f ih, pTop_pf f ih, pList_pf f ih⟩
    intro st toks hp
    simp only [pNext]
    exact ih.2.2.1 _ _ _ hp

/-- without a polar literal token `readLoop` never answers `unmodelled` through its polar check -/
theorem readLoop_nopolar : ∀ (f : Nat) (st : PSt) (acc : List Datum) (toks : List LexItem),
    ItemsPlain toks → ItemsNoPolar toks → toks.length < f →
    match readLoop f st acc toks with
    | .ok _ => True
    | .error e => ¬ GaveUp e.kind := by
  intro f
  induction f with
  | zero => intro st acc toks _ _ h; omega
  | succ f ih =>
    intro st acc toks hp hnp hf
    have hr := (parserFuel (4 * toks.length + 4)).1 st toks hp (by omega)
    have hpf := (parserPF (4 * toks.length + 4)).1 st toks hnp
    unfold readLoop
    simp only
    cases hv : (pNext (4 * toks.length + 4) st toks).val with
    | none => trivial
    | some v =>
      cases v with
      | error e => exact hr.genuine e hv
      | ok v =>
        simp only
        by_cases h1 : v.d.hasBadAtom = true
        · rw [if_pos h1]; exact notGaveUp_simple (by simp) (by simp) (by simp)
        rw [if_neg h1]
        have h2 : ¬ v.d.hasPolar = true := by rw [(hpf.1 v hv).1]; simp
        rw [if_neg h2]
        have hlt := hr.progress rfl v hv
        exact ih _ _ _ (itemsPlain_suffix hr.suffix hp) hpf.2 (by omega)

end SteelVerif.C12
