/-
C12 — model of the datum reader: `Parser::new_flat` of `crates/steel-parser/src/parser.rs` (the
parser `(read)` uses: no lowering, every compound is a list) followed by the conversion
`TryFromExprKindForSteelVal::try_from_expr_kind_quoted` of steel-core.

The model builds the datum directly (the conversion is compositional), but keeps everything of the
parser state that can influence the result:
  * `depth` (`quasiquote_depth`), `qctx` (`quote_context`): they decide whether `,x` / a list headed
    by `unquote` is renamed to `#%unquote` (`#%unquote-splicing`);
  * `ctx` (`context`), `shorthand` (`shorthand_quote_stack`), `quoteStackEmpty` (`quote_stack`):
    they decide when `depth` is reset between top-level data, and `ctx` is also where the
    `debug_assert!(matches!(popped, ..Tick(_)))` of the shorthand handlers can fail;
  * the `@doc` comment machinery is not modelled (`unmodelled`).
All recursion is on an explicit fuel bounded by the number of tokens.
-/
import SteelVerif.C12.Lex
namespace SteelVerif.C12

inductive Datum
  | int (i : Int)
  | rat (n : Int) (d : Nat)        -- in lowest terms, d ≥ 2 (as Steel holds exact rationals)
  | bool (b : Bool)
  | chr (c : Char)
  | str (s : Text)
  | sym (s : Text)
  | list (xs : List Datum)         -- proper list (`ListV`)
  | pair (a d : Datum)             -- `Pair`: cons cell whose cdr is not a list
  | vec (xs : List Datum)
  | bytes (bs : List Nat)
  | flo (r : RealLit)              -- inexact real: kept as text, outside every theorem
  | other (what : Text)            -- complex / polar numbers, the unconvertible `.` atom
  deriving Repr, Inhabited

abbrev Span := Nat × Nat

inductive SynCode
  | dotTwice | dotFirst | dotInVector | dotInBytes | dotAfterComment | dotCdr | bytesRange
  | badDatumComment | unfinishedComment
  | lex (k : LexErrKind)
  deriving DecidableEq, Repr

inductive ReadErrKind
  | eof
  | mismatched (expected : Paren)
  | unexpectedClose (p : Paren)
  | syntax (c : SynCode)
  | convert
  | unmodelled                      -- `@doc` comments
  | assertFailed                    -- a `debug_assert!` of the parser fails (panic in debug builds)
  | outOfFuel                       -- never produced
  deriving DecidableEq, Repr

structure ReadErr where
  kind : ReadErrKind
  s : Nat
  e : Nat
  deriving DecidableEq, Repr

/-- `impl From<TokenLike<TokenError>> for ParseError` -/
def lexErrToRead (k : LexErrKind) (s e : Nat) : ReadErr :=
  match k with
  | .incompleteString | .incompleteIdent | .incompleteComment => ⟨.eof, s, e⟩
  | k => ⟨.syntax (.lex k), s, e⟩

/-! ## token → datum -/

def normRat (n d : Int) : Datum :=
  if d == 0 then .other t!"div0"
  else
    let (n, d) := if d < 0 then (-n, -d) else (n, d)
    let g := Nat.gcd n.natAbs d.natAbs
    let n' := n / (g : Int)
    let d' := d.natAbs / g
    if d' == 1 then .int n' else .rat n' d'

def realToDatum : RealLit → Datum
  | .int i => .int i
  | .rat n d => normRat n d
  | r => .flo r

/-- `SteelComplex::into_steelval`: an exact-zero imaginary part gives the real part.  (An inexact
    imaginary part that *evaluates* to zero does too; floats are not evaluated here, the
    orchestrator treats `other complex` as "some number".) -/
def numToDatum : NumLit → Datum
  | .real r => realToDatum r
  | .complex re im =>
    match realToDatum im with
    | .int 0 => realToDatum re
    | _ => .other t!"complex"
  | .polar _ _ => .other t!"polar"

def kwName : Kw → Text
  | .if_ => t!"if" | .define => t!"define" | .let_ => t!"let" | .testLet => t!"%plain-let"
  | .return_ => t!"return!" | .begin_ => t!"begin" | .lambda => t!"lambda" | .quote => t!"quote"
  | .syntaxRules => t!"syntax-rules" | .defineSyntax => t!"define-syntax" | .ellipses => t!"..."
  | .set_ => t!"set!" | .require => t!"require"

/-- `SteelVal::try_from(SyntaxObject)` for the tokens that reach an atom -/
def atomToDatum : Tok → Datum
  | .chr c => .chr c
  | .bool b => .bool b
  | .ident s => .sym s
  | .keyword s => .sym s
  | .num n => numToDatum n
  | .str s => .str s
  | .kw k => .sym (kwName k)
  | _ => .other t!"."                 -- only `Tok.dot` reaches here: `UnexpectedToken`

/-- `Atom::byte` -/
def tokByte : Tok → Option Nat
  | .num (.real (.int i)) => if 0 ≤ i && i ≤ 255 then some i.toNat else none
  | _ => none

/-! ## parser state -/

inductive Ctx
  | quote (n : Nat) | quoteTick (n : Nat)
  | unquote (n : Nat) | unquoteTick (n : Nat)
  | quasi (n : Nat) | quasiTick (n : Nat)
  | splicing (n : Nat) | splicingTick (n : Nat)
  deriving DecidableEq, Repr

structure PSt where
  depth : Int := 0
  qctx : Bool := false
  ctx : List Ctx := []               -- head = top of the stack
  quoteStackEmpty : Bool := true
  shorthand : Nat := 0
  deriving Repr

def PSt.incr (st : PSt) : PSt := if st.qctx then st else { st with depth := st.depth + 1 }
def PSt.decr (st : PSt) : PSt := if st.qctx then st else { st with depth := st.depth - 1 }
def PSt.raw (st : PSt) : Bool := st.depth == 0 && !st.qctx

def symUnquote : Text := t!"unquote"
def symQuasi : Text := t!"quasiquote"
def symSplicing : Text := t!"unquote-splicing"
def symRawUnquote : Text := t!"#%unquote"
def symRawSplicing : Text := t!"#%unquote-splicing"

structure Frame where
  openS : Span
  paren : Paren
  pmod : Option PMod
  first : Option Datum := none
  restRev : List Datum := []
  len : Nat := 0
  dot : Option (Nat × Span) := none
  comment : Nat := 0
  /-- `some (args, improper)` when the most recently pushed expression is an `ExprKind::List`
      (what `List::make_improper` splices into a dotted list) -/
  lastList : Option (List Datum × Bool) := none

def Frame.exprs (f : Frame) : List Datum :=
  match f.first with
  | none => []
  | some d => d :: f.restRev.reverse

/-- a push after the dotted tail has been read: "improper list must have a single cdr" -/
def Frame.dotBad (f : Frame) : Bool :=
  match f.dot with
  | some (idx, _) => idx != f.len
  | none => false

/-- `Frame::push`; `isByte` = the expression is an atom with `byte().is_some()`;
    `info` = `some (args, improper)` when the expression is an `ExprKind::List` -/
def Frame.push (f : Frame) (d : Datum) (sp : Span) (isByte : Bool)
    (info : Option (List Datum × Bool) := none) : Except ReadErr Frame :=
  if f.dotBad then .error ⟨.syntax .dotCdr, sp.1, sp.2⟩
  else if f.pmod == some .bytes && !isByte then .error ⟨.syntax .bytesRange, sp.1, sp.2⟩
  else if f.comment > 0 then .ok { f with comment := f.comment - 1 }
  else match f.first with
    | none => .ok { f with first := some d, len := 1, lastList := info }
    | some _ => .ok { f with restRev := d :: f.restRev, len := f.len + 1, lastList := info }

def mkPairs : List Datum → Datum → Datum
  | [], t => t
  | x :: xs, t => .pair x (mkPairs xs t)

/-- conversion of an improper list: `Pair::cons` folded from the right; `cons` onto a list stays
    a `Pair` here (the parser never produces a list in the cdr position of an improper list
    written with a dot, except through `( a . (b c))`, where Steel's `Pair` keeps the list cdr). -/
def improperDatum (xs : List Datum) : Datum :=
  match xs.reverse with
  | [] => .list []
  | t :: initRev => mkPairs initRev.reverse t

def bytesOf (xs : List Datum) : List Nat :=
  xs.filterMap (fun d => match d with
    | .int i => some i.toNat
    | _ => none)

/-- a parsed expression: its value, its span, and - when it is an `ExprKind::List` - the list's
    elements and `improper` flag (needed by `List::make_improper`, which splices a list that
    follows the dot: `(a . (b c))` is `(a b c)`, `(a . (b . c))` is `(a b . c)`) -/
structure PVal where
  d : Datum
  sp : Span
  info : Option (List Datum × Bool) := none

def listVal (args : List Datum) (improper : Bool) (sp : Span) : PVal :=
  { d := if improper then improperDatum args else .list args, sp, info := some (args, improper) }

/-- `Frame::build_expr` (flat mode) followed by the conversion of the result -/
def Frame.build (f : Frame) (close : Span) : Except ReadErr PVal :=
  if f.comment > 0 then .error ⟨.syntax .badDatumComment, f.openS.1, f.openS.2⟩
  else
    let sp : Span := (f.openS.1, close.2)
    match f.pmod with
    | some .bytes => .ok { d := .bytes (bytesOf f.exprs), sp }
    | some .vector => .ok { d := .vec f.exprs, sp }
    | none =>
      match f.dot with
      | none => .ok (listVal f.exprs false sp)
      | some (idx, dsp) =>
        if idx + 1 == f.len then
          -- `List::make_improper`
          match f.lastList with
          | some (largs, limp) => .ok (listVal (f.exprs.dropLast ++ largs) limp sp)
          | none => .ok (listVal f.exprs true sp)
        else .error ⟨.syntax .dotCdr, dsp.1, dsp.2⟩

/-- result of reading one expression: `none` = end of input -/
structure PRes where
  val : Option (Except ReadErr PVal)
  st : PSt
  rest : List LexItem

/-- `(name d)` built by a reader shorthand with `List::new` (a list expression, no location) -/
def quoteList (name : Text) (d : Datum) : PVal :=
  listVal [.sym name, d] false (0, 0)

/-- the bookkeeping done when the first element of a frame is pushed as an atom -/
def headAtom (st : PSt) (stackLen : Nat) (t : Tok) : PSt :=
  match t with
  | .kw .quote =>
    if st.ctx == [.quoteTick 0] then { st with ctx := .quote 1 :: st.ctx }
    else { st with ctx := .quote stackLen :: st.ctx }
  | .ident s =>
    if s == symUnquote then ({ st with ctx := .unquote stackLen :: st.ctx }).decr
    else if s == symQuasi then ({ st with ctx := .quasi stackLen :: st.ctx }).incr
    else if s == symSplicing then ({ st with ctx := .splicing stackLen :: st.ctx }).decr
    else st
  | _ => st

/-- closing a child list whose parent frame is `prev`: renaming of the parent's head and the
    `quasiquote_depth` bookkeeping -/
def childClose (st : PSt) (prev : Frame) : PSt × Frame :=
  match prev.first with
  | some (.sym s) =>
    if s == symUnquote then
      let prev' := if st.raw then { prev with first := some (.sym symRawUnquote) } else prev
      (st.incr, prev')
    else if s == symQuasi then (st.decr, prev)
    else if s == symSplicing then
      let prev' := if st.raw then { prev with first := some (.sym symRawSplicing) } else prev
      (st.incr, prev')
    else (st, prev)
  | _ => (st, prev)

/-- the context pop done when a child list closes (`stackLen` = stack length after the pop) -/
def ctxAfterChild (st : PSt) (stackLen : Nat) : PSt :=
  match st.ctx with
  | .quote i :: r | .quasi i :: r | .unquote i :: r | .splicing i :: r =>
    if stackLen ≤ i then { st with ctx := r } else st
  | _ => st

/-- the context pop done when the outermost list closes -/
def ctxAfterTop (st : PSt) : PSt :=
  match st.ctx with
  | .quoteTick _ :: _ | .quasiTick _ :: _ => st
  | .quote _ :: r => { st with ctx := r }
  | _ => st

def isTickCtx (kind : Nat) : Ctx → Bool
  | .quoteTick _ => kind == 0
  | .unquoteTick _ => kind == 1
  | .quasiTick _ => kind == 2
  | .splicingTick _ => kind == 3
  | _ => false

/-- `Iterator::next`: the reset of `quasiquote_depth` -/
def PSt.enterNext (st : PSt) : PSt :=
  if st.quoteStackEmpty && st.shorthand == 0 && st.ctx.isEmpty then { st with depth := 0 } else st

def eofErr (sp : Span) : Except ReadErr PVal := .error ⟨.eof, sp.1, sp.2⟩

/-- `self.next().unwrap_or(Err(EOF(sp))).map(wrap)` -/
def wrapNext (r : Option (Except ReadErr PVal)) (sp : Span) (wrap : Datum → PVal) : Except ReadErr PVal :=
  match r with
  | none => eofErr sp
  | some (.error e) => .error e
  | some (.ok v) => .ok (wrap v.d)

/-- pop the context pushed by a shorthand handler; `false` = `debug_assert!(matches!(..))` fails -/
def popTick (kind : Nat) (ctx : List Ctx) : Bool × List Ctx :=
  match ctx with
  | [] => (true, [])
  | c :: cs => (isTickCtx kind c, cs)

/-- the end of a shorthand handler: pop the context it pushed (checking the `debug_assert!`),
    restore the bookkeeping with `fixSt`, and return the wrapped value -/
def finishTick (kind : Nat) (r : PRes) (v : Except ReadErr PVal) (sp : Span) (fixSt : PSt → PSt) : PRes :=
  let st3 := fixSt { r.st with ctx := (popTick kind r.st.ctx).2 }
  if (popTick kind r.st.ctx).1 then ⟨some v, st3, r.rest⟩
  else ⟨some (.error ⟨.assertFailed, sp.1, sp.2⟩), st3, r.rest⟩

mutual

/-- `Parser::next` -/
def pNext : Nat → PSt → List LexItem → PRes
  | 0, st, toks => ⟨some (.error ⟨.outOfFuel, 0, 0⟩), st, toks⟩
  | f + 1, st, toks => pTop f st.enterNext [] toks

/-- the shorthand forms `'x` `` `x`` `,x` `,@x` `#'x` ...: read the next expression and wrap it.
    `kind`: 0 quote, 1 unquote, 2 quasiquote, 3 unquote-splicing, 4.. the `#'` family;
    `top` = at top level (otherwise inside a list whose frame stack has length `stackLen`). -/
def pShort : Nat → PSt → (kind : Nat) → (stackLen : Nat) → (top : Bool) → Span → List LexItem → PRes
  | 0, st, _, _, _, _, toks => ⟨some (.error ⟨.outOfFuel, 0, 0⟩), st, toks⟩
  | f + 1, st, kind, stackLen, top, sp, toks =>
    if kind ≥ 4 then
      let name := if kind == 4 then t!"syntax" else if kind == 5 then t!"quasisyntax"
        else if kind == 6 then t!"#%unsyntax" else t!"#%unsyntax-splicing"
      let r := pNext f st toks
      ⟨some (wrapNext r.val sp (quoteList name)), r.st, r.rest⟩
    else if kind == 0 then
      let last := st.qctx
      let r := pNext f { st with shorthand := st.shorthand + 1,
                                 qctx := if st.depth == 0 then true else st.qctx,
                                 ctx := .quoteTick stackLen :: st.ctx } toks
      -- top level: `construct_quote_vec` + `maybe_lower` = a list expression;
      -- inside a list: `construct_quote` = `ExprKind::Quote` located at the tick (not a list expression)
      finishTick 0 r
        (wrapNext r.val sp (fun d =>
          if top then quoteList t!"quote" d else { d := .list [.sym t!"quote", d], sp }))
        sp (fun s => { s with shorthand := s.shorthand - 1, qctx := last })
    else if kind == 2 then
      let r := pNext f (({ st with ctx := .quasiTick stackLen :: st.ctx } : PSt).incr) toks
      finishTick 2 r (wrapNext r.val sp (quoteList symQuasi)) sp PSt.decr
    else
      -- unquote (1) / unquote-splicing (3).  Inside a list the depth is decremented before the
      -- context push, at top level after it: the order is not observable.
      let tickCtx := if kind == 1 then Ctx.unquoteTick stackLen else Ctx.splicingTick stackLen
      let r := pNext f (({ st with ctx := tickCtx :: st.ctx } : PSt).decr) toks
      let name := if r.st.raw then (if kind == 1 then symRawUnquote else symRawSplicing)
                  else (if kind == 1 then symUnquote else symSplicing)
      finishTick kind r (wrapNext r.val sp (quoteList name)) sp PSt.incr

/-- `get_next_and_maybe_wrap_in_doc`: `dcs` = spans of the pending top-level `#;` -/
def pTop : Nat → PSt → List Span → List LexItem → PRes
  | 0, st, _, toks => ⟨some (.error ⟨.outOfFuel, 0, 0⟩), st, toks⟩
  | _ + 1, st, dcs, [] =>
    match dcs with
    | sp :: _ => ⟨some (.error ⟨.syntax .unfinishedComment, sp.1, sp.2⟩), st, []⟩
    | [] => ⟨none, st, []⟩
  | f + 1, st, dcs, item :: toks =>
    match item with
    | .err k s e => ⟨some (.error (lexErrToRead k s e)), st, toks⟩
    | .tok t s e =>
      let sp : Span := (s, e)
      -- `maybe_return!`
      let finish (r : PRes) : PRes :=
        match r.val with
        | some (.ok _) =>
          match dcs with
          | _ :: dcs' => pTop f r.st dcs' r.rest
          | [] => r
        | _ => r
      match t with
      | .comment doc =>
        if doc then ⟨some (.error ⟨.unmodelled, s, e⟩), st, toks⟩ else pTop f st dcs toks
      | .dcomment => pTop f st (sp :: dcs) toks
      | .synQuote => finish (pShort f st 4 0 true sp toks)
      | .synQuasi => finish (pShort f st 5 0 true sp toks)
      | .synUnquote => finish (pShort f st 6 0 true sp toks)
      | .synSplice => finish (pShort f st 7 0 true sp toks)
      | .tick => finish (pShort f st 0 0 true sp toks)
      | .unquote => finish (pShort f st 1 0 true sp toks)
      | .quasi => finish (pShort f st 2 0 true sp toks)
      | .splice => finish (pShort f st 3 0 true sp toks)
      | .open_ p m =>
        finish (pList f { st with quoteStackEmpty := true } []
          { openS := sp, paren := p, pmod := m } sp toks)
      | .close p => ⟨some (.error ⟨.unexpectedClose p, s, e⟩), st, toks⟩
      | t => finish ⟨some (.ok { d := atomToDatum t, sp }), st, toks⟩

/-- `read_from_tokens`: `stack` = enclosing frames (head = innermost), `cur` = current frame -/
def pList : Nat → PSt → List Frame → Frame → Span → List LexItem → PRes
  | 0, st, _, _, _, toks => ⟨some (.error ⟨.outOfFuel, 0, 0⟩), st, toks⟩
  | _ + 1, st, _, _, last, [] => ⟨some (eofErr last), st, []⟩
  | f + 1, st, stack, cur, _, item :: toks =>
    match item with
    | .err k s e => ⟨some (.error (lexErrToRead k s e)), st, toks⟩
    | .tok t s e =>
      let sp : Span := (s, e)
      let fail (k : ReadErrKind) (at_ : Span) : PRes := ⟨some (.error ⟨k, at_.1, at_.2⟩), st, toks⟩
      let short (kind : Nat) : PRes :=
        let r := pShort f st kind stack.length false sp toks
        match r.val with
        | some (.ok v) =>
          match cur.push v.d v.sp false v.info with
          | .error e => ⟨some (.error e), r.st, r.rest⟩
          | .ok cur' => pList f r.st stack cur' sp r.rest
        | _ => r
      match t with
      | .dot =>
        if cur.dot.isSome then fail (.syntax .dotTwice) sp
        else if cur.len == 0 then fail (.syntax .dotFirst) sp
        else match cur.pmod with
          | some .vector => fail (.syntax .dotInVector) sp
          | some .bytes => fail (.syntax .dotInBytes) sp
          | none =>
            if cur.comment > 0 then fail (.syntax .dotAfterComment) sp
            else pList f st stack { cur with dot := some (cur.len, sp) } sp toks
      | .comment _ => pList f st stack cur sp toks
      | .dcomment => pList f st stack { cur with comment := cur.comment + 1 } sp toks
      | .synQuote => short 4
      | .synQuasi => short 5
      | .synUnquote => short 6
      | .synSplice => short 7
      | .tick => short 0
      | .unquote => short 1
      | .quasi => short 2
      | .splice => short 3
      | .open_ p m =>
        pList f st (cur :: stack) { openS := sp, paren := p, pmod := m } sp toks
      | .close p =>
        if p != cur.paren then fail (.mismatched cur.paren) sp
        else match stack with
          | prev :: stack' =>
            let (st1, prev1) := childClose st prev
            let st2 := ctxAfterChild st1 stack'.length
            match cur.build sp with
            | .error e => ⟨some (.error e), st2, toks⟩
            | .ok v =>
              match prev1.push v.d v.sp false v.info with
              | .error e => ⟨some (.error e), st2, toks⟩
              | .ok prev2 => pList f st2 stack' prev2 sp toks
          | [] => ⟨some (cur.build sp), ctxAfterTop st, toks⟩
      | t =>
        let st1 := if t == .kw .quote then { st with quoteStackEmpty := false } else st
        let st2 := if cur.len == 0 then headAtom st1 stack.length t else st1
        match cur.push (atomToDatum t) sp (tokByte t).isSome with
        | .error e => ⟨some (.error e), st2, toks⟩
        | .ok cur' => pList f st2 stack cur' sp toks

end

mutual
/-- does the datum contain an atom that the conversion to a value rejects? -/
def Datum.hasBadAtom : Datum → Bool
  | .other w => w == t!"."
  | .list xs => hasBadAtoms xs
  | .vec xs => hasBadAtoms xs
  | .pair a d => a.hasBadAtom || d.hasBadAtom
  | _ => false
def hasBadAtoms : List Datum → Bool
  | [] => false
  | x :: xs => x.hasBadAtom || hasBadAtoms xs
end

mutual
/-- polar literals: their conversion (`make_polar`) is floating point and can fail; not modelled -/
def Datum.hasPolar : Datum → Bool
  | .other w => w == t!"polar"
  | .list xs => hasPolars xs
  | .vec xs => hasPolars xs
  | .pair a d => a.hasPolar || d.hasPolar
  | _ => false
def hasPolars : List Datum → Bool
  | [] => false
  | x :: xs => x.hasPolar || hasPolars xs
end

/-- every datum of the token stream -/
def readLoop : Nat → PSt → List Datum → List LexItem → Except ReadErr (List Datum)
  | 0, _, _, _ => .error ⟨.outOfFuel, 0, 0⟩
  | f + 1, st, acc, toks =>
    let r := pNext (4 * toks.length + 4) st toks
    match r.val with
    | none => .ok acc.reverse
    | some (.error e) => .error e
    | some (.ok v) =>
      if v.d.hasBadAtom then .error ⟨.convert, 0, 0⟩
      else if v.d.hasPolar then .error ⟨.unmodelled, v.sp.1, v.sp.2⟩
      else readLoop f r.st (v.d :: acc) r.rest

/-- `read`: all data of a text -/
def read (src : Text) : Except ReadErr (List Datum) :=
  let toks := lex src
  readLoop (toks.length + 1) {} [] toks

end SteelVerif.C12
