/-
C12 — property theorems (work in progress: filled in below).
-/
import SteelVerif.C12.Model
namespace SteelVerif.C12

/-- placeholder while the pipeline is brought up -/
theorem read_defined (src : Text) : (∃ ds, read src = .ok ds) ∨ (∃ e, read src = .error e) := by
  cases h : read src with
  | ok ds => exact Or.inl ⟨ds, rfl⟩
  | error e => exact Or.inr ⟨e, rfl⟩

end SteelVerif.C12
