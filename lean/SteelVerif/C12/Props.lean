/-
C12 — property theorems: reading is total and inverse to writing.

Model: `Lex.lean` / `Parse.lean` / `Write.lean` (Steel's lexer, the datum parser `(read)` uses, the
writer `(write)` uses), tied to /repo on every run by the differential check.

  * `read_total_partial`, `spans_in_bounds`, `tokens_in_order` — every token / error span of the model
                                       reader satisfies start ≤ end ≤ utf8Len src;
  * `read_total`, `lex_fuel_adequate`, `token_consumes`, `read_unmodelled_only_polar` — fuel adequacy: the
                                       model reader never answers `outOfFuel` (lexer and parser), so its
                                       totality is a theorem; `unmodelled` only for `@doc` comments (excluded
                                       by the decidable hypothesis `NoDocComment`) and polar literals;
  * `spans_on_char_boundaries`       — every token span starts and ends on a character boundary (`Boundary`);
  * `read_total_modelled`            — … and never `unmodelled` either when the token stream has no `@doc`
                                       comment and no polar literal (the two inputs that reach it);
  * `write_beyond_limit`, `write_deep`, `depth_guard_tight`, `counter_depth_129` — what the writer does
                                       beyond depth 128 and that `depth ≤ 128` is exactly the guard;
  * `ReadWrite`                      — the full statement of the property (all representable data);
  * `read_write_partial`             — `ReadWrite` restricted to the decidable class `WFD`
                                       (`Model.lean`), proved by induction over ALL such data: any
                                       nesting, any Unicode scalar values in strings and characters;
  * `read_write_partial_i … _v`      — the stages (integers/booleans, + strings/characters,
                                       + symbols, + lists/vectors/byte vectors, + pairs/quote forms);
  * `not_ReadWrite` and the `counter_*` theorems — the full statement is false for the code that
    exists; each witness is replayed on the real reader/writer (open findings K12a–K12d).

Not proved (checked on the real code by the differential run only): that ERROR spans fall on
character boundaries; inexact numbers; the program-level printer (`parse ∘ pretty`); the quotation
forms other than `quote`; the `|..|` quoting of `print` (model `printSym` in Write.lean, compared with
the real `print` and read back on every run, no theorem).
-/
import SteelVerif.C12.LemmasTop
import SteelVerif.C12.LemmasTotal
import SteelVerif.C12.LemmasFuel
import SteelVerif.C12.LemmasFuelLex
import SteelVerif.C12.LemmasBoundary
import SteelVerif.C12.LemmasPolar
import SteelVerif.C12.LemmasUnderscore
import SteelVerif.C12.Ast
namespace SteelVerif.C12

/-! ## reading is total, and every reported location lies inside the text -/

/-- `lex_total` / `spans_in_bounds`: the lexer is a total function (it is defined by structural
    recursion), and every token and every lexer error of a text has `start ≤ end ≤ utf8Len src`
    (byte offsets). -/
theorem spans_in_bounds (src : Text) : ∀ it ∈ lex src, it.s ≤ it.e ∧ it.e ≤ utf8Len src :=
  lex_spans src

/-- non-vacuity: a text with multi-byte characters; four tokens, byte (not character) offsets, the last one
    ends at `utf8Len` = 9 (the text has 7 characters) -/
example : (lex t!"(é \"λ\")").map (fun it => (it.s, it.e)) = [(0, 1), (1, 3), (4, 8), (8, 9)] ∧
    utf8Len t!"(é \"λ\")" = 9 := by decide
/-- … and a lexer error item with its span -/
example : lex t!"a #\\foo" = [.tok (.ident t!"a") 0 1, .err .invalidCharName 2 7] := by decide

/-- tokens are reported in the order of their start offsets -/
theorem tokens_in_order (src : Text) : TokSorted 0 (lex src) := lex_sorted src

example : TokSorted 0 (lex t!"(é \"λ\")") ∧ (lex t!"(é \"λ\")").length = 4 := ⟨tokens_in_order _, by decide⟩

/-- `spans_on_char_boundaries` (tokens): the start and the end of every TOKEN of a text are character boundaries
    of the text - each is the UTF-8 length of a prefix (`Boundary`).  This is what makes `Lexer::slice()`
    (`source.get(span).unwrap()`) and every later slicing of the source by a token span safe; byte/character
    confusions in the lexer (the `#!` line, the `|..|` prefix copy) break exactly this.
    PARTIAL: error spans (`self.error`, set from positions like `pos - 1` next to one-byte characters, never
    reset) are not covered; they are checked on the real code by the differential run (oracle B). -/
theorem spans_on_char_boundaries (src : Text) :
    ∀ it ∈ lex src, IsTok it = true → Boundary src it.s ∧ Boundary src it.e := lex_boundaries src

/-- non-vacuity (applied): the identifier `é` after a three-byte character: bytes 4..6, prefixes `漢 ` and `漢 é` -/
example : Boundary t!"漢 é" 4 ∧ Boundary t!"漢 é" 6 :=
  spans_on_char_boundaries t!"漢 é" (.tok (.ident t!"é") 4 6) (by decide) rfl
/-- … and a position inside a character is not a boundary -/
example : ¬ Boundary t!"é" 1 := by
  intro ⟨pre, suf, h, hp⟩
  match pre, h with
  | [], _ => simp [utf8Len] at hp
  | [c], h =>
    have hc : c = 'é' := by
      have := congrArg List.head? h; simp at this; exact this.symm
    subst hc
    have : utf8Len ['é'] = 2 := by decide
    omega
  | c :: d :: r, h => have := congrArg List.length h; simp at this

/-- PARTIAL.  On every text the model reader returns data or an error whose span satisfies
    `start ≤ end ≤ utf8Len src`.
    What this does NOT say (MISSING for "the reader accepts or rejects every text without failing itself"):
    * the first disjunct-or-second is true of ANY Lean function into `Except` — a panic/abort of the real
      reader is not expressible here and is looked for by the differential run only;
    * by itself it does not exclude the model's artificial `outOfFuel` (span `(0,0)`, trivially in bounds):
      that is `read_total` below (fuel adequacy);
    * that span ends fall on character boundaries. -/
theorem read_total_partial (src : Text) :
    (∃ ds, read src = .ok ds) ∨ (∃ e, read src = .error e ∧ e.s ≤ e.e ∧ e.e ≤ utf8Len src) := by
  have h := readLoop_total (utf8Len src) ((lex src).length + 1) {} [] (lex src) 0 (lex_itemsOK src) (lex_sorted src)
  unfold read
  simp only
  cases hr : readLoop ((lex src).length + 1) {} [] (lex src) with
  | ok ds => exact Or.inl ⟨ds, rfl⟩
  | error e =>
    rw [hr] at h
    exact Or.inr ⟨e, rfl, h.1, h.2⟩

/-- non-vacuity: errors do occur, with a span that points into the text -/
example : read t!"(1 . )" = .error ⟨.syntax .dotCdr, 3, 4⟩ := rfl
example : read t!"\"ab" = .error ⟨.eof, 0, 3⟩ := rfl

/-- the theorem applied (every hypothesis instantiated — there is none besides the text) -/
example : (∃ ds, read t!"(1 . )" = .ok ds) ∨
    (∃ e, read t!"(1 . )" = .error e ∧ e.s ≤ e.e ∧ e.e ≤ utf8Len t!"(1 . )") := read_total_partial _
/-- TEST (evaluation of nine hostile texts, not a general claim): none of them exhausts the model's fuel or
    is `unmodelled` — unbalanced and nested delimiters, unterminated string / `|ident` / block comment,
    datum comments, quote shorthands at the end of input, a lone `#`, a NUL, deep nesting -/
example : [t!")", t!"((((", t!"\"abc\\", t!"|ab", t!"#| #| |#", t!"#;#;#;", t!"'`,@", t!"#", [Char.ofNat 0],
    t!"(((((((((((((((((((((((((((((((())))))))))))))))))))))))))))))))"].all (fun src =>
      match read src with
      | .error ⟨.outOfFuel, _, _⟩ => false
      | .error ⟨.unmodelled, _, _⟩ => false
      | _ => true) = true := by decide

/-! ## the model reader never gives up: fuel adequacy -/

/-- `lex_fuel_adequate`: with the fuel `lex` gives its loops (`2·characters + 2`; `characters + 1` for the string
    and `|..|` readers) the token stream of ANY text contains no `outOfFuel` item. -/
theorem lex_fuel_adequate (src : Text) : ∀ it ∈ lex src, ∀ s e, it ≠ .err .outOfFuel s e := lex_nofuel src

/-- every token costs at least one character: the text left after one token is strictly shorter -/
theorem token_consumes (pos : Nat) (c : Char) (cs : Text) (h : isWs c = false) :
    (lexOne pos c cs).rest.length < (c :: cs).length := by
  have := (lexOne_len pos c cs h).1
  simp only [List.length_cons]; omega

/-- the text holds no `@doc` comment (`;;@doc …` lines are the one piece of reader syntax the model leaves out) -/
def isDocItem : LexItem → Bool
  | .tok (.comment true) _ _ => true
  | _ => false
def NoDocComment (src : Text) : Prop := (lex src).any isDocItem = false
instance (src : Text) : Decidable (NoDocComment src) := by unfold NoDocComment; exact inferInstance

theorem lex_itemsPlain (src : Text) (h : NoDocComment src) : ItemsPlain (lex src) := by
  intro it hit
  have hno : isDocItem it = false := by
    unfold NoDocComment at h
    rw [List.any_eq_false] at h
    simpa using h it hit
  cases it with
  | tok t s e =>
    cases t with
    | comment doc =>
      cases doc with
      | true => simp [isDocItem] at hno
      | false => rfl
    | _ => rfl
  | err k s e =>
    cases k with
    | outOfFuel => exact absurd rfl (lex_fuel_adequate src _ hit s e)
    | _ => rfl

/-- `read_total`: totality of the MODEL reader is a theorem.  On every text without a `@doc` comment the model
    reader returns data, or an error whose span lies inside the text and which is NOT one of the artificial
    outcomes `outOfFuel` (parser or lexer) - the fuel `4·tokens + 4` / `tokens + 1` / `2·characters + 2` always
    suffices (`parserFuel`: `3·tokens + 3` is enough, each token costs at most three nested calls).
    The only remaining artificial outcome is `unmodelled`, and with no `@doc` comment it can only come from the
    one place left in `readLoop`: a datum that contains a polar number literal `r@θ` (whose conversion is
    floating point).
    What this still does not say: a panic / abort / hang of the REAL reader is not expressible in the model. -/
theorem read_total (src : Text) (hdoc : NoDocComment src) :
    (∃ ds, read src = .ok ds) ∨
    (∃ e, read src = .error e ∧ e.s ≤ e.e ∧ e.e ≤ utf8Len src ∧
      e.kind ≠ .outOfFuel ∧ e.kind ≠ .syntax (.lex .outOfFuel)) := by
  have hf := readLoop_fuel ((lex src).length + 1) {} [] (lex src) (lex_itemsPlain src hdoc) (by omega)
  rcases read_total_partial src with h | ⟨e, he, h1, h2⟩
  · exact Or.inl h
  · refine Or.inr ⟨e, he, h1, h2, ?_⟩
    unfold read at he
    simp only at he
    rw [he] at hf
    rcases hf with hg | ⟨hk, _⟩
    · exact ⟨fun h => hg (Or.inl h), fun h => hg (Or.inr (Or.inl h))⟩
    · rw [hk]; exact ⟨by simp, by simp⟩

/-- … and `unmodelled` is reached only through the polar check of `readLoop` (no `@doc` comment in the text) -/
theorem read_unmodelled_only_polar (src : Text) (hdoc : NoDocComment src) (e : ReadErr)
    (he : read src = .error e) : ¬ GaveUp e.kind ∨ e.kind = .unmodelled := by
  have hf := readLoop_fuel ((lex src).length + 1) {} [] (lex src) (lex_itemsPlain src hdoc) (by omega)
  unfold read at he
  simp only at he
  rw [he] at hf
  rcases hf with hg | ⟨hk, _⟩
  · exact Or.inl hg
  · exact Or.inr hk

/-- the text holds no polar number literal `r@θ` -/
def NoPolarLiteral (src : Text) : Prop := (lex src).all LexItem.noPolar = true
instance (src : Text) : Decidable (NoPolarLiteral src) := by unfold NoPolarLiteral; exact inferInstance

/-- `read_total_modelled`: the inputs that reach `unmodelled` are named exactly.  On every text whose token
    stream holds neither a `@doc` comment nor a polar literal (two decidable conditions on `lex src`) the model
    reader returns data or a GENUINE error - not `outOfFuel`, not `unmodelled` - with its span inside the text.
    Conversely both kinds of text do reach `unmodelled` (examples below). -/
theorem read_total_modelled (src : Text) (hdoc : NoDocComment src) (hpol : NoPolarLiteral src) :
    (∃ ds, read src = .ok ds) ∨
    (∃ e, read src = .error e ∧ e.s ≤ e.e ∧ e.e ≤ utf8Len src ∧ ¬ GaveUp e.kind) := by
  have hnp : ItemsNoPolar (lex src) := by
    unfold NoPolarLiteral at hpol
    rw [List.all_eq_true] at hpol
    exact hpol
  have hf := readLoop_nopolar ((lex src).length + 1) {} [] (lex src) (lex_itemsPlain src hdoc) hnp (by omega)
  rcases read_total_partial src with h | ⟨e, he, h1, h2⟩
  · exact Or.inl h
  · refine Or.inr ⟨e, he, h1, h2, ?_⟩
    unfold read at he
    simp only at he
    rw [he] at hf
    exact hf

example : (∃ ds, read t!"(1 . )" = .ok ds) ∨
    (∃ e, read t!"(1 . )" = .error e ∧ e.s ≤ e.e ∧ e.e ≤ utf8Len t!"(1 . )" ∧ ¬ GaveUp e.kind) :=
  read_total_modelled _ (by decide) (by decide)
example : ¬ NoPolarLiteral t!"(1@2)" := by decide

/-- non-vacuity (applied): a text with every bracket kind, escapes, a `|..|` identifier and an error -/
example : (∃ ds, read t!"(a |b\\x41; c| \"s\\n\" #\\x . )" = .ok ds) ∨
    (∃ e, read t!"(a |b\\x41; c| \"s\\n\" #\\x . )" = .error e ∧ e.s ≤ e.e ∧
      e.e ≤ utf8Len t!"(a |b\\x41; c| \"s\\n\" #\\x . )" ∧
      e.kind ≠ .outOfFuel ∧ e.kind ≠ .syntax (.lex .outOfFuel)) :=
  read_total _ (by decide)
/-- the hypothesis excludes texts: a `@doc` comment is one -/
example : ¬ NoDocComment t!";;@doc\nx" := by decide
/-- the two ways to `unmodelled`, evaluated -/
example : read t!";;@doc\nx" = .error ⟨.unmodelled, 0, 7⟩ := rfl
example : read t!"(1@2)" = .error ⟨.unmodelled, 0, 5⟩ := rfl

/-! ## `_` in digit strings: `string->number` is more lenient than the reader -/

/-- the number parser follows the code: `IntLiteral::from_str_radix` falls back to num-bigint, which skips `_`
    after the first digit - so `(string->number "1_0")` is 10 and `"1_000/3"` is 1000/3 (finding K12n) -/
example : Gen.intUnderscoreFallback = true →
    parseIntRadix 10 t!"1_0" = some 10 ∧ parseIntRadix 10 t!"1__0_" = some 10 ∧
    parseIntRadix 10 t!"_1" = none ∧ parseIntRadix 10 t!"-_1" = none ∧ parseIntRadix 16 t!"f_f" = some 255 ∧
    parseNumber t!"1_000/3" = some (.real (.rat 1000 3)) ∧ parseNumber t!"1_0.5" = none := by decide
/-- … and when the tree rejects `_` (`Gen.intUnderscoreFallback = false`, after the repair) the model does too -/
example : Gen.intUnderscoreFallback = false → parseIntRadix 10 t!"1_0" = none ∧ parseNumber t!"1_000/3" = none := by
  decide

/-- … while the READER makes a symbol of the same spelling (`read_number` stops at the `_`, the rest is a word) -/
example : lex t!"1_0" = [.tok (.ident t!"1_0") 0 3] ∧ read t!"(1_0 1_000/3)" = .ok [.list [.sym t!"1_0", .sym t!"1_000/3"]] :=
  ⟨by decide, rfl⟩

/-- `underscore_inert`: on a text without `_` the lenient fallback changes nothing (the strict `[+-]? digit+`
    syntax decides) -/
theorem underscore_inert (r : Nat) (s : Text) (h : '_' ∉ s) : parseIntRadix r s = parseIntStrict r s :=
  parseIntRadix_no_underscore r s h

/-- `reader_never_parses_underscore`: the slice `read_number` passes to the number parser holds no `_` - so the
    leniency is reachable from `string->number` only, and a symbol spelled with digits and `_` survives
    write → read (it is never taken for a number) -/
theorem reader_never_parses_underscore (acc cs : Text) (h : '_' ∉ acc) : '_' ∉ acc ++ (scanNum cs).1 :=
  reader_number_slice_no_underscore acc cs h

/-! ## the full statement -/

mutual
/-- data that have an external representation: exact numbers, booleans, characters, strings,
    symbols with arbitrary names, lists, pairs, vectors, byte vectors, nested arbitrarily
    (with the invariants every Steel value satisfies: rationals in lowest terms, bytes below 256,
    the cdr of a pair is not a list). -/
def Representable : Datum → Bool
  | .int _ => true
  | .rat n d => decide (2 ≤ d) && Nat.gcd n.natAbs d == 1
  | .bool _ => true
  | .chr _ => true
  | .str _ => true
  | .sym _ => true
  | .list xs => Representables xs
  | .pair a d => Representable a && Representable d && !isListDatum d
  | .vec xs => Representables xs
  | .bytes bs => bs.all (fun b => decide (b < 256))
  | .flo _ => false
  | .other _ => false
def Representables : List Datum → Bool
  | [] => true
  | x :: xs => Representable x && Representables xs
end

/-- C12, second half, as stated: writing any representable datum and reading the text back gives
    exactly that datum. -/
def ReadWrite : Prop := ∀ d : Datum, Representable d = true → read (write d) = .ok [d]

/-! ## the part that holds: all data of the class `WFD` -/

/-- Round trip for every well-formed datum (`WFD`, see `Model.lean`): any nesting depth up to the
    writer's limit, any code points in strings and characters, any plain symbol. -/
theorem read_write_partial (d : Datum) (h : WFD d) : read (write d) = .ok [d] := by
  rw [write_eq_writeP d h.2]
  exact read_writeP d h.1

/-- stage (i): exact integers (of any size) and booleans -/
theorem read_write_partial_i :
    (∀ i : Int, read (write (.int i)) = .ok [.int i]) ∧ (∀ b : Bool, read (write (.bool b)) = .ok [.bool b]) :=
  ⟨fun i => read_write_partial _ ⟨rfl, by simp [Datum.depth]⟩,
   fun b => read_write_partial _ ⟨rfl, by simp [Datum.depth]⟩⟩

/-- stage (ii): + strings with arbitrary contents (every escape the writer produces) and characters -/
theorem read_write_partial_ii :
    (∀ s : Text, read (write (.str s)) = .ok [.str s]) ∧ (∀ c : Char, read (write (.chr c)) = .ok [.chr c]) :=
  ⟨fun s => read_write_partial _ ⟨rfl, by simp [Datum.depth]⟩,
   fun c => read_write_partial _ ⟨rfl, by simp [Datum.depth]⟩⟩

/-- stage (iii): + symbols whose name the writer prints readably, and exact rationals -/
theorem read_write_partial_iii :
    (∀ s : Text, symOK s = true → read (write (.sym s)) = .ok [.sym s]) ∧
    (∀ (n : Int) (d : Nat), 2 ≤ d → Nat.gcd n.natAbs d = 1 → read (write (.rat n d)) = .ok [.rat n d]) :=
  ⟨fun s h => read_write_partial _ ⟨by simpa [WF] using h, by simp [Datum.depth]⟩,
   fun n d h1 h2 => read_write_partial _ ⟨by simp [WF, h1, h2], by simp [Datum.depth]⟩⟩

mutual
/-- no pairs (improper lists) anywhere -/
def noPairs : Datum → Bool
  | .pair _ _ => false
  | .list xs => noPairss xs
  | .vec xs => noPairss xs
  | _ => true
def noPairss : List Datum → Bool
  | [] => true
  | x :: xs => noPairs x && noPairss xs
end

/-- non-vacuity of the stages (i)–(iii) (applied): a 20-digit negative integer, a string holding `"`, `\`,
    NUL, DEL and non-ASCII, the characters NUL and U+10FFFF, a symbol with punctuation, a negative ratio -/
example : read (write (.int (-12345678901234567890))) = .ok [.int (-12345678901234567890)] :=
  read_write_partial_i.1 _
example : read (write (.str ['"', '\\', Char.ofNat 0, Char.ofNat 0x7f, 'é', '\n'])) =
    .ok [.str ['"', '\\', Char.ofNat 0, Char.ofNat 0x7f, 'é', '\n']] := read_write_partial_ii.1 _
example : read (write (.chr (Char.ofNat 0))) = .ok [.chr (Char.ofNat 0)] ∧
    read (write (.chr (Char.ofNat 0x10ffff))) = .ok [.chr (Char.ofNat 0x10ffff)] :=
  ⟨read_write_partial_ii.2 _, read_write_partial_ii.2 _⟩
example : read (write (.sym t!"set-car!->x?")) = .ok [.sym t!"set-car!->x?"] :=
  read_write_partial_iii.1 _ (by decide)
example : read (write (.rat (-3) 4)) = .ok [.rat (-3) 4] := read_write_partial_iii.2 _ _ (by decide) (by decide)
/-- the guard `symOK` of stage (iii) does exclude names (see the `counter_*` theorems) -/
example : symOK t!"a b" = false ∧ symOK [] = false ∧ symOK t!"12" = false ∧ symOK t!"+a" = false ∧
    symOK t!"fn" = false := by decide

/-- stage (iv): + proper lists, vectors and byte vectors of all of those, nested arbitrarily.
    (A WEAKER restatement of `read_write_partial` — the extra hypothesis `noPairs` is not used; kept for the
    stage numbering of the evidence.) -/
theorem read_write_partial_iv (d : Datum) (h : WFD d) (_ : noPairs d = true) : read (write d) = .ok [d] :=
  read_write_partial d h

/-- stage (v): + improper lists (pairs) and the quotation forms — the whole class `WFD`.
    (IDENTICAL to `read_write_partial`; kept for the stage numbering of the evidence.  `(quote d)`,
    `(quasiquote d)` and lists headed by them are in `WFD`; `(unquote x ..)` / `(unquote-splicing x ..)` are when
    every `x` is an atom: `read_write_quasiquote`, `read_write_unquote`.) -/
theorem read_write_partial_v (d : Datum) (h : WFD d) : read (write d) = .ok [d] := read_write_partial d h

set_option maxRecDepth 100000 in
/-- non-vacuity of stages (iv), (v) (applied): a vector of lists with a byte vector; a nested pair -/
example : read (write (.vec [.list [.int 1, .list []], .bytes [0, 255], .str t!"x"])) =
    .ok [.vec [.list [.int 1, .list []], .bytes [0, 255], .str t!"x"]] :=
  read_write_partial_iv _ (by decide) (by decide)
set_option maxRecDepth 100000 in
example : read (write (.pair (.int 1) (.pair (.list [.sym t!"a"]) (.int 2)))) =
    .ok [.pair (.int 1) (.pair (.list [.sym t!"a"]) (.int 2))] := read_write_partial_v _ (by decide)

/-- `(quote d)` round-trips whenever `d` does and the nesting limit allows; likewise the other
    quotation forms are lists headed by a symbol and covered by `read_write_partial` when that
    symbol does not steer the reader (`quote`). -/
theorem read_write_quote (d : Datum) (h : WF d = true) (hd : d.depth + 1 ≤ 128) :
    read (write d.quote) = .ok [d.quote] := by
  apply read_write_partial
  refine ⟨?_, ?_⟩
  · have hs : symOK t!"quote" = true := by decide
    have hq : isQQ (.sym t!"quote") = false := by decide
    simp [Datum.quote, WF, WFs, headOK, h, hs, hq]
  · simp only [Datum.quote, Datum.depth, depths]
    omega

/-- `(quasiquote d)` round-trips whenever `d` does: a list headed by `quasiquote` moves the reader's
    quasi-quotation depth but is never renamed, and nothing the reader builds from written text depends on the
    depth otherwise (task 2b). -/
theorem read_write_quasiquote (d : Datum) (h : WF d = true) (hd : d.depth + 1 ≤ 128) :
    read (write d.quasiquote) = .ok [d.quasiquote] := by
  apply read_write_partial
  refine ⟨?_, ?_⟩
  · have hs : symOK t!"quasiquote" = true := by decide
    have hq : isQQ (.sym t!"quasiquote") = false := by decide
    simp [Datum.quasiquote, WF, WFs, headOK, h, hs, hq]
  · simp only [Datum.quasiquote, Datum.depth, depths]
    omega

/-- `(unquote x)` and `(unquote-splicing x)` round-trip when `x` is an atom of the class: the reader renames
    such a head only when a child LIST closes inside it (at depth 0), and there is none.  With a compound `x`
    the round trip fails (`counter_unquote`, K12c). -/
theorem read_write_unquote (d : Datum) (h : WF d = true) (hc : isCompound d = false) :
    read (write d.unquote) = .ok [d.unquote] ∧ read (write d.unquoteSplicing) = .ok [d.unquoteSplicing] := by
  have hdep : d.depth = 1 := by cases d <;> simp [isCompound] at hc <;> rfl
  have hs1 : symOK t!"unquote" = true := by decide
  have hs2 : symOK t!"unquote-splicing" = true := by decide
  constructor
  · apply read_write_partial
    refine ⟨?_, ?_⟩
    · simp [Datum.unquote, WF, WFs, restAtomic, h, hs1, hc]
    · simp only [Datum.unquote, Datum.depth, depths, hdep]; omega
  · apply read_write_partial
    refine ⟨?_, ?_⟩
    · simp [Datum.unquoteSplicing, WF, WFs, restAtomic, h, hs2, hc]
    · simp only [Datum.unquoteSplicing, Datum.depth, depths, hdep]; omega

set_option maxRecDepth 100000 in
/-- non-vacuity (applied): `''(a "b")` as data -/
example : read (write (Datum.quote (Datum.quote (.list [.sym t!"a", .str t!"b"])))) =
    .ok [Datum.quote (Datum.quote (.list [.sym t!"a", .str t!"b"]))] :=
  read_write_quote _ (by decide) (by decide)
set_option maxRecDepth 100000 in
/-- non-vacuity (applied): `(quasiquote (a (quasiquote "b") #(quasiquote 1)))`, `(unquote x)`, `(unquote-splicing 7)`,
    and a list that mixes them: `((unquote a) (quasiquote (b)) (unquote-splicing "s" 2))` -/
example : read (write (Datum.quasiquote (.list [.sym t!"a", Datum.quasiquote (.str t!"b"), .vec [.sym t!"quasiquote", .int 1]]))) =
    .ok [Datum.quasiquote (.list [.sym t!"a", Datum.quasiquote (.str t!"b"), .vec [.sym t!"quasiquote", .int 1]])] :=
  read_write_quasiquote _ (by decide) (by decide)
example : read (write (Datum.unquote (.sym t!"x"))) = .ok [Datum.unquote (.sym t!"x")] ∧
    read (write (Datum.unquoteSplicing (.int 7))) = .ok [Datum.unquoteSplicing (.int 7)] :=
  ⟨(read_write_unquote _ (by decide) rfl).1, (read_write_unquote _ (by decide) rfl).2⟩
set_option maxRecDepth 100000 in
example : read (write (.list [Datum.unquote (.sym t!"a"), Datum.quasiquote (.list [.sym t!"b"]),
      .list [.sym t!"unquote-splicing", .str t!"s", .int 2]])) =
    .ok [.list [Datum.unquote (.sym t!"a"), Datum.quasiquote (.list [.sym t!"b"]),
      .list [.sym t!"unquote-splicing", .str t!"s", .int 2]]] := read_write_partial _ (by decide)
/-- what stays outside `WFD`: an `unquote` / `unquote-splicing` head followed by a compound datum (K12c) -/
example : ¬ WFD (Datum.unquote (.list [.sym t!"a"])) ∧ ¬ WFD (Datum.unquoteSplicing (.vec [])) ∧
    ¬ WFD (Datum.quasiquote (Datum.unquote (.list [.sym t!"a"]))) ∧
    ¬ WFD (.pair (.sym t!"unquote") (.int 1)) := by decide

/-! ## the writer's nesting counter -/

/-- `write_depth_balanced`: `format_with_cycles` modelled with its mutable counter (`writeSt`: `depth += 1`
    on entry, `depth -= 1` on every way out) leaves the counter where it found it, for every datum and every
    starting value — so what is printed for an element never depends on the elements printed before it —
    and it prints exactly what the functional writer `writeAt` (depth as a parameter) prints. -/
theorem write_depth_balanced (d : Datum) (depth : Nat) :
    (writeSt d depth).2 = depth ∧ (writeSt d depth).1 = writeAt depth d := by
  rw [writeSt_eq d depth]; exact ⟨rfl, rfl⟩

/-- non-vacuity (applied): a nested datum, counter started at 5 -/
example : (writeSt (.list [.vec [.int 1], .pair (.int 2) (.int 3)]) 5).2 = 5 :=
  (write_depth_balanced _ 5).1

/-- the same for a sequence of siblings: after any number of elements the counter is unchanged -/
theorem write_depth_balanced_seq (xs : List Datum) (depth : Nat) :
    (writeSeqSt xs depth).2 = depth ∧ (writeSeqSt xs depth).1 = writeSeq depth xs := by
  rw [writeSeqSt_eq xs depth]; exact ⟨rfl, rfl⟩

/-- non-vacuity: 200 empty vectors in a row do not use up the 128 levels -/
example : (writeSeqSt (List.replicate 200 (.vec [])) 1).2 = 1 := (write_depth_balanced_seq _ _).1

/-! ## nesting deeper than 128: what the writer does, and why `depth ≤ 128` is exactly the guard -/

/-- `n` one-element lists around `d` -/
def nest : Nat → Datum → Datum
  | 0, d => d
  | n + 1, d => .list [nest n d]

/-- beyond its limit the writer prints EVERY datum as `...`: at recursion depth 128 or more the text does not
    depend on the datum at all -/
theorem write_beyond_limit (k : Nat) (hk : 128 ≤ k) (d : Datum) : writeAt k d = t!"..." := by
  have hc : ∀ t, cut k t = t!"..." := by
    intro t; unfold cut; rw [if_pos (by omega)]
  cases d <;> simp only [writeAt, hc]

theorem cut_within (k : Nat) (hk : k < 128) (t : Text) : cut k t = t := by
  unfold cut; rw [if_neg (by omega)]

theorem writeAt_nest (d : Datum) : ∀ (n k : Nat), k + n ≤ 128 →
    writeAt k (nest n d) = List.replicate n '(' ++ writeAt (k + n) d ++ List.replicate n ')' := by
  intro n
  induction n with
  | zero => intro k _; simp [nest]
  | succ n ih =>
    intro k hk
    have e : k + 1 + n = k + (n + 1) := by omega
    simp only [nest, writeAt, writeSeq, cut_within k (by omega), ih (k + 1) (by omega), e]
    rw [List.replicate_succ, List.replicate_succ' (n := n) (a := ')')]
    simp

/-- a datum nested 128 levels deep is written as 128 brackets around `...`, whatever it holds at the bottom:
    the writer is not injective beyond depth 128, so no reader can invert it there -/
theorem write_deep (d : Datum) :
    write (nest 128 d) = List.replicate 128 '(' ++ t!"..." ++ List.replicate 128 ')' := by
  unfold write
  rw [writeAt_nest d 128 0 (by omega), write_beyond_limit (0 + 128) (by omega) d]

theorem nest_injective (n : Nat) (a b : Datum) (h : nest n a = nest n b) : a = b := by
  induction n with
  | zero => exact h
  | succ n ih =>
    simp only [nest] at h
    injection h with h
    injection h with h _
    exact ih h

theorem nest_depth (n : Nat) (d : Datum) : (nest n d).depth = n + d.depth := by
  induction n with
  | zero => simp [nest]
  | succ n ih => simp only [nest, Datum.depth, depths, ih]; omega

theorem nest_wf (n : Nat) (i : Int) : WF (nest n (.int i)) = true := by
  induction n with
  | zero => rfl
  | succ n ih =>
    simp only [nest, WF, WFs, ih, headOK, Bool.and_true, Bool.true_and, Bool.or_eq_true]
    left
    cases n <;> simp [nest, isQQ]

/-- the guard `depth ≤ 128` of `read_write_partial` cannot be relaxed by even one level: these two data are
    well formed, have depth 129, are different and are written identically (K12d) -/
theorem depth_guard_tight :
    WF (nest 128 (.int 1)) = true ∧ WF (nest 128 (.int 2)) = true ∧
    (nest 128 (.int 1)).depth = 129 ∧ (nest 128 (.int 2)).depth = 129 ∧
    nest 128 (.int 1) ≠ nest 128 (.int 2) ∧
    write (nest 128 (.int 1)) = write (nest 128 (.int 2)) ∧
    ¬ (read (write (nest 128 (.int 1))) = .ok [nest 128 (.int 1)] ∧
       read (write (nest 128 (.int 2))) = .ok [nest 128 (.int 2)]) := by
  refine ⟨nest_wf _ _, nest_wf _ _, by rw [nest_depth]; rfl, by rw [nest_depth]; rfl, ?_, ?_, ?_⟩
  · intro h; have := nest_injective _ _ _ h; cases this
  · rw [write_deep, write_deep]
  · intro ⟨h1, h2⟩
    rw [write_deep] at h1 h2
    rw [h1] at h2
    injection h2 with h2
    injection h2 with h2 _
    have := nest_injective _ _ _ h2
    cases this

set_option maxRecDepth 1000000 in
/-- the witness at depth 129, evaluated: the text `((…(...)…))` reads back as the SYMBOL `...` 128 levels deep -/
theorem counter_depth_129 : read (write (nest 128 (.int 1))) = .ok [nest 128 (.sym t!"...")] := by rfl

/-- … while one level less is inside the theorem -/
example : read (write (nest 127 (.int 1))) = .ok [nest 127 (.int 1)] :=
  read_write_partial _ ⟨nest_wf _ _, by rw [nest_depth]; simp [Datum.depth]⟩

/-! ## non-vacuity -/

/-- a datum with every constructor of the class: nested lists, a pair, a vector, a byte vector,
    a string with characters that need every kind of escape, characters, big and negative numbers -/
def sampleDatum : Datum :=
  .list [.sym t!"define", .list [.sym t!"f", .sym t!"x"],
    .vec [.int (-12345678901234567890), .rat (-3) 4, .bool true, .chr ' ', .chr 'λ', .chr (Char.ofNat 0)],
    .pair (.str ['a', '"', '\\', '\n', '\t', Char.ofNat 0, Char.ofNat 0x7f, 'é']) (.pair (.int 1) (.bytes [0, 255])),
    .list [], .list [.sym t!"quote", .list [.sym t!"a", .sym t!"b"]]]

set_option maxRecDepth 100000 in
theorem sampleDatum_wfd : WFD sampleDatum := by decide

example : read (write sampleDatum) = .ok [sampleDatum] := read_write_partial _ sampleDatum_wfd

/-- the reader is not the constant function: it distinguishes texts -/
example : read t!"(1 . 2)" = .ok [.pair (.int 1) (.int 2)] := rfl
example : read t!"#(a \"b\" #\\c)" = .ok [.vec [.sym t!"a", .str t!"b", .chr 'c']] := rfl
set_option maxRecDepth 100000 in
example : write (.list [.str t!"a\"b", .chr ' ']) = t!"(\"a\\\"b\" #\\space)" := by decide

/-! ## printing a parsed program and parsing it again (task 2c)

`Ast.lean`: `parseM` = the flat reader followed by the model of the parser's lowering (`lower`), `prettyM` = the
model of `Display for ExprKind`; both are compared with the real `Parser::parse` / `Display` on generated programs
on every run (harness / driver op `ast`), and `parse(pretty(ast)) = ast` is checked on the real code alone. -/

/-- `parse_pretty_reduction`: the round trip of a program reduces to three facts about its tree `a` and a datum `d`
    (in practice `d = datumOf a`): `d` is in the class of the datum round-trip theorem, the AST printer prints `a`
    as the writer writes `d`, and the lowering maps `d` back to `a`.  Then `parseM (prettyM a) = [a]`.
    PARTIAL: the three facts are NOT proved for a syntactic class of trees (that needs three inductions over the
    nested `Ast`); instances and counter-witnesses are evaluated by the differential run (driver op `ast`), not in this file:
    kernel evaluation of the lexer on program texts exhausted memory. -/
theorem parse_pretty_reduction (a : Ast) (d : Datum) (hw : WF d = true) (hp : prettyM a = writeP d)
    (hl : lower d = .ok a) : parseM (prettyM a) = .ok [a] := by
  unfold parseM
  rw [hp, read_writeP d hw]
  simp only [lowerList, hl]

/-! ## the full statement is false for the code that exists -/

/-- K12a: the writer prints a symbol's name verbatim; `|a b|` comes back as two symbols -/
theorem counter_symbol_needs_quoting :
    read (write (.sym t!"a b")) = .ok [.sym t!"a", .sym t!"b"] := rfl

/-- K12a: the symbol with the empty name is written as nothing at all -/
theorem counter_empty_symbol : read (write (.sym [])) = .ok [] := rfl

/-- K12a: a symbol that looks like a number is read as the number -/
theorem counter_numeric_symbol : read (write (.sym t!"12")) = .ok [.int 12] := rfl

/-- K12a: a symbol starting with `+` is split by the lexer -/
theorem counter_plus_symbol : read (write (.sym t!"+a")) = .ok [.sym t!"+", .sym t!"a"] := rfl

/-- K12b: `fn` is an alias of `lambda` in the lexer -/
theorem counter_alias : read (write (.sym t!"fn")) = .ok [.sym t!"lambda"] := rfl

/-- K12c: the datum reader renames `unquote` under `quasiquote` -/
theorem counter_unquote :
    read (write (.list [.sym t!"quasiquote", .list [.sym t!"unquote", .list [.sym t!"a"]]]))
      = .ok [.list [.sym t!"quasiquote", .list [.sym t!"#%unquote", .list [.sym t!"a"]]]] := rfl

theorem not_ReadWrite : ¬ ReadWrite := by
  intro h
  have h1 := h (.sym t!"a b") rfl
  rw [counter_symbol_needs_quoting] at h1
  cases h1

/-! ## Clauses of the property not carried by a theorem -/

/-
What the theorems say, read together: the MODEL lexer/reader (`Lex.lean`, `Parse.lean`) reports, for every
text (a list of Unicode scalar values), token spans and an error span with `start ≤ end ≤ utf8Len`
(`spans_in_bounds`, `read_total_partial`), tokens in order of their start (`tokens_in_order`); and
`read (write d) = [d]` (syntactic equality, stronger than `equal?`) for every datum of the class `WFD`:
exact integers of any size, exact rationals, booleans, ALL characters, ALL strings, symbols whose name is a
plain identifier (`symOK`), proper and improper lists, vectors, byte vectors and `(quote d)`, nested up to
depth 128, lists headed by `quasiquote` included, a list/vector headed by `unquote`/`unquote-splicing` only when atoms
follow (`read_write_partial`).  The
full statement `ReadWrite` is refuted for the model (`not_ReadWrite`, `counter_*`; open findings K12a–K12c).

NOT carried by any theorem (covered only by the differential correspondence of checks/c12.py, or not at all):

 * **"accepts or rejects every text without failing itself"** for the real reader: a panic, abort, stack
   overflow or hang of Rust code is not expressible in the model.  For the model itself `read_total` excludes
   `outOfFuel` on every text (fuel adequacy of lexer and parser); `unmodelled` is reached exactly by texts with a
   `@doc` comment or a polar literal token (`read_total_modelled`: without both, never; examples: with each, yes).
 * **Byte strings** that are not valid UTF-8: `Text = List Char`.
 * **Every reported location** other than token spans and the reader's error span: spans of AST nodes of
   `Parser::parse` on success, spans attached to data by `(read)`, line/column information; character-boundary
   alignment is proved for TOKEN spans (`spans_on_char_boundaries`), not for error spans.
 * **Numbers of every kind**: inexact reals (decimal, exponent, `+inf.0`, `-inf.0`, `+nan.0`), complex
   numbers, radix and exactness prefixes (`#x`, `#e`, `#i`) on the WRITE side: `Representable`/`WF` are
   `false` on `.flo`/`.other`.  Only exact integers and reduced exact rationals round-trip by theorem.
 * **Symbols with arbitrary names**: only `symOK` names (the `|..|` path of the lexer, `scanBar`, is in the model and
   compared token by token with the real lexer on every mix of 1-4 byte characters and escapes, and `print`'s
   quoting is modelled and run, but no round-trip theorem mentions them); for names with delimiters/whitespace, the empty
   name, numeric-looking names, names starting with `+`/`-`/`.`/`#`, `|`-quoted names and the aliases
   `fn`/`defn`/`λ` the property is FALSE for the code that exists (K12a, K12b).
 * **Quotation forms**: `(quote d)`, `(quasiquote d)` (any `d` of the class) and `(unquote x ..)`,
   `(unquote-splicing x ..)` with atomic `x` are inside `WFD` (`read_write_quote`, `read_write_quasiquote`,
   `read_write_unquote`).  A list / vector headed by `unquote` / `unquote-splicing` that holds a compound datum, and
   a pair whose car is one of the two, stay outside: for the first the property is FALSE (K12c, `counter_unquote`:
   the head is renamed to `#%unquote` when the child closes at depth 0; whether it is renamed depends on the
   depth the enclosing `quasiquote`s and earlier `unquote`s left behind, no clean guard); the pair case is only
   not proved.  The writer emits no reader shorthand (`'x`, `` `x``, `,x`, `#'x`): nothing to cover there.
 * **Nesting deeper than 128**: carried negatively - `write_beyond_limit` / `write_deep` say what the writer does
   (every datum at level ≥ 128 becomes `...`), `depth_guard_tight` / `counter_depth_129` that the round trip fails
   at depth 129 for well-formed data (K12d); nothing positive can hold there.
 * **"printing a parsed program and parsing it again gives the same syntax tree"**: `Ast.lean` models the lowering
   of `Parser::parse` and `Display for ExprKind` on the fragment atoms / application / if / define / lambda / begin /
   set! / quote / let (tied to the real parser and printer on generated programs on every run), and
   `parse_pretty_reduction` reduces the round trip of a tree to three facts - NOT proved for a syntactic class
   `WFAst`, and not even decided for instances in this file (missing: the
   inductions `prettyM a = writeP (datumOf a)`, `WF (datumOf a)`, `lower (datumOf a) = a` over the nested `Ast`).
   Outside the model: `to_pretty` (the width-60 layout; executed only), `%plain-let`, named `let`, `return!`,
   `require`, macros, vectors / improper lists outside `quote`, dotted argument lists, curried `define`.
   The property is FALSE on the real code for rest arguments (`(lambda x x)` is printed `(lambda (x) x)`, proposed
   K12o), strings with `"` / `\` and identifiers that need bars (K12j): seen by the oracle run, no Lean witness.
 * **The writer of `scheme/print.scm`** (`write`/`display`/`print` implemented in Scheme with cycle labels)
   and **`read` from ports** (`reader.scm`, incremental input, `(read)` returning one datum at a time):
   `write` here is `Display for SteelVal` as reached by `(write d)` on acyclic data; cyclic/shared data with
   datum labels are not modelled.
 * **`@doc` comments** (`unmodelled`), `#;` inside quasi-quotation bookkeeping beyond what `Parse.lean` has.
 * The stage theorems `read_write_partial_iv`/`_v` add nothing to `read_write_partial`.
-/

end SteelVerif.C12
