/-
C12 — property theorems: reading is total and inverse to writing.

Model: `Lex.lean` / `Parse.lean` / `Write.lean` (Steel's lexer, the datum parser `(read)` uses, the
writer `(write)` uses), tied to /repo on every run by the differential check.

  * `read_total`, `spans_in_bounds`, `tokens_in_order` — the reader is total and every token /
                                       error span satisfies start ≤ end ≤ utf8Len src;
  * `ReadWrite`                      — the full statement of the property (all representable data);
  * `read_write_partial`             — `ReadWrite` restricted to the decidable class `WFD`
                                       (`Model.lean`), proved by induction over ALL such data: any
                                       nesting, any Unicode scalar values in strings and characters;
  * `read_write_partial_i … _v`      — the stages (integers/booleans, + strings/characters,
                                       + symbols, + lists/vectors/byte vectors, + pairs/quote forms);
  * `not_ReadWrite` and the `counter_*` theorems — the full statement is false for the code that
    exists; each witness is replayed on the real reader/writer (open findings K12a–K12d).

Not proved (checked on the real code by the differential run only): that span ends fall on
character boundaries; that the fuel of the model is never exhausted (`outOfFuel` never shows up in
the correspondence); inexact numbers; the program-level printer (`parse ∘ pretty`).
-/
import SteelVerif.C12.LemmasTop
import SteelVerif.C12.LemmasTotal
namespace SteelVerif.C12

/-! ## reading is total, and every reported location lies inside the text -/

/-- `lex_total` / `spans_in_bounds`: the lexer is a total function (it is defined by structural
    recursion), and every token and every lexer error of a text has `start ≤ end ≤ utf8Len src`
    (byte offsets). -/
theorem spans_in_bounds (src : Text) : ∀ it ∈ lex src, it.s ≤ it.e ∧ it.e ≤ utf8Len src :=
  lex_spans src

/-- tokens are reported in the order of their start offsets -/
theorem tokens_in_order (src : Text) : TokSorted 0 (lex src) := lex_sorted src

/-- `read_total`: on every text the reader returns data or an error (it is a total function), and
    the error's span satisfies `start ≤ end ≤ utf8Len src`. -/
theorem read_total (src : Text) :
    (∃ ds, read src = .ok ds) ∨ (∃ e, read src = .error e ∧ e.s ≤ e.e ∧ e.e ≤ utf8Len src) := by
  have h := readLoop_total (utf8Len src) ((lex src).length + 1) {} [] (lex src) 0 (lex_itemsOK src) (lex_sorted src)
  unfold read
  simp only
  cases hr : readLoop ((lex src).length + 1) {} [] (lex src) with
  | ok ds => exact Or.inl ⟨ds, rfl⟩
  | error e =>
    rw [hr] at h
    exact Or.inr ⟨e, rfl, h.1, h.2⟩

/-- non-vacuity: errors do occur, with a span that points into the text -/
example : read t!"(1 . )" = .error ⟨.syntax .dotCdr, 3, 4⟩ := rfl
example : read t!"\"ab" = .error ⟨.eof, 0, 3⟩ := rfl

/-! ## the full statement -/

mutual
/-- data that have an external representation: exact numbers, booleans, characters, strings,
    symbols with arbitrary names, lists, pairs, vectors, byte vectors, nested arbitrarily
    (with the invariants every Steel value satisfies: rationals in lowest terms, bytes below 256,
    the cdr of a pair is not a list). -/
def Representable : Datum → Bool
  | .int _ => true
  | .rat n d => decide (2 ≤ d) && Nat.gcd n.natAbs d == 1
  | .bool _ => true
  | .chr _ => true
  | .str _ => true
  | .sym _ => true
  | .list xs => Representables xs
  | .pair a d => Representable a && Representable d && !isListDatum d
  | .vec xs => Representables xs
  | .bytes bs => bs.all (fun b => decide (b < 256))
  | .flo _ => false
  | .other _ => false
def Representables : List Datum → Bool
  | [] => true
  | x :: xs => Representable x && Representables xs
end

/-- C12, second half, as stated: writing any representable datum and reading the text back gives
    exactly that datum. -/
def ReadWrite : Prop := ∀ d : Datum, Representable d = true → read (write d) = .ok [d]

/-! ## the part that holds: all data of the class `WFD` -/

/-- Round trip for every well-formed datum (`WFD`, see `Model.lean`): any nesting depth up to the
    writer's limit, any code points in strings and characters, any plain symbol. -/
theorem read_write_partial (d : Datum) (h : WFD d) : read (write d) = .ok [d] := by
  rw [write_eq_writeP d h.2]
  exact read_writeP d h.1

/-- stage (i): exact integers (of any size) and booleans -/
theorem read_write_partial_i :
    (∀ i : Int, read (write (.int i)) = .ok [.int i]) ∧ (∀ b : Bool, read (write (.bool b)) = .ok [.bool b]) :=
  ⟨fun i => read_write_partial _ ⟨rfl, by simp [Datum.depth]⟩,
   fun b => read_write_partial _ ⟨rfl, by simp [Datum.depth]⟩⟩

/-- stage (ii): + strings with arbitrary contents (every escape the writer produces) and characters -/
theorem read_write_partial_ii :
    (∀ s : Text, read (write (.str s)) = .ok [.str s]) ∧ (∀ c : Char, read (write (.chr c)) = .ok [.chr c]) :=
  ⟨fun s => read_write_partial _ ⟨rfl, by simp [Datum.depth]⟩,
   fun c => read_write_partial _ ⟨rfl, by simp [Datum.depth]⟩⟩

/-- stage (iii): + symbols whose name the writer prints readably, and exact rationals -/
theorem read_write_partial_iii :
    (∀ s : Text, symOK s = true → read (write (.sym s)) = .ok [.sym s]) ∧
    (∀ (n : Int) (d : Nat), 2 ≤ d → Nat.gcd n.natAbs d = 1 → read (write (.rat n d)) = .ok [.rat n d]) :=
  ⟨fun s h => read_write_partial _ ⟨by simpa [WF] using h, by simp [Datum.depth]⟩,
   fun n d h1 h2 => read_write_partial _ ⟨by simp [WF, h1, h2], by simp [Datum.depth]⟩⟩

mutual
/-- no pairs (improper lists) anywhere -/
def noPairs : Datum → Bool
  | .pair _ _ => false
  | .list xs => noPairss xs
  | .vec xs => noPairss xs
  | _ => true
def noPairss : List Datum → Bool
  | [] => true
  | x :: xs => noPairs x && noPairss xs
end

/-- stage (iv): + proper lists, vectors and byte vectors of all of those, nested arbitrarily -/
theorem read_write_partial_iv (d : Datum) (h : WFD d) (_ : noPairs d = true) : read (write d) = .ok [d] :=
  read_write_partial d h

/-- stage (v): + improper lists (pairs) and the quotation forms — the whole class `WFD` -/
theorem read_write_partial_v (d : Datum) (h : WFD d) : read (write d) = .ok [d] := read_write_partial d h

/-- `(quote d)` round-trips whenever `d` does and the nesting limit allows; likewise the other
    quotation forms are lists headed by a symbol and covered by `read_write_partial` when that
    symbol does not steer the reader (`quote`). -/
theorem read_write_quote (d : Datum) (h : WF d = true) (hd : d.depth + 1 ≤ 128) :
    read (write d.quote) = .ok [d.quote] := by
  apply read_write_partial
  refine ⟨?_, ?_⟩
  · simp only [Datum.quote, WF, WFs, headOK, isQQ, Bool.and_true, h, Bool.and_eq_true, Bool.not_eq_true',
      Bool.or_eq_false_iff, true_and]
    refine ⟨by decide, ?_⟩
    decide
  · simp only [Datum.quote, Datum.depth, depths]
    omega

/-! ## the writer's nesting counter -/

/-- `write_depth_balanced`: `format_with_cycles` modelled with its mutable counter (`writeSt`: `depth += 1`
    on entry, `depth -= 1` on every way out) leaves the counter where it found it, for every datum and every
    starting value — so what is printed for an element never depends on the elements printed before it —
    and it prints exactly what the functional writer `writeAt` (depth as a parameter) prints. -/
theorem write_depth_balanced (d : Datum) (depth : Nat) :
    (writeSt d depth).2 = depth ∧ (writeSt d depth).1 = writeAt depth d := by
  rw [writeSt_eq d depth]; exact ⟨rfl, rfl⟩

/-- the same for a sequence of siblings: after any number of elements the counter is unchanged -/
theorem write_depth_balanced_seq (xs : List Datum) (depth : Nat) :
    (writeSeqSt xs depth).2 = depth ∧ (writeSeqSt xs depth).1 = writeSeq depth xs := by
  rw [writeSeqSt_eq xs depth]; exact ⟨rfl, rfl⟩

/-- non-vacuity: 200 empty vectors in a row do not use up the 128 levels -/
example : (writeSeqSt (List.replicate 200 (.vec [])) 1).2 = 1 := (write_depth_balanced_seq _ _).1

/-! ## non-vacuity -/

/-- a datum with every constructor of the class: nested lists, a pair, a vector, a byte vector,
    a string with characters that need every kind of escape, characters, big and negative numbers -/
def sampleDatum : Datum :=
  .list [.sym t!"define", .list [.sym t!"f", .sym t!"x"],
    .vec [.int (-12345678901234567890), .rat (-3) 4, .bool true, .chr ' ', .chr 'λ', .chr (Char.ofNat 0)],
    .pair (.str ['a', '"', '\\', '\n', '\t', Char.ofNat 0, Char.ofNat 0x7f, 'é']) (.pair (.int 1) (.bytes [0, 255])),
    .list [], .list [.sym t!"quote", .list [.sym t!"a", .sym t!"b"]]]

set_option maxRecDepth 100000 in
theorem sampleDatum_wfd : WFD sampleDatum := by decide

example : read (write sampleDatum) = .ok [sampleDatum] := read_write_partial _ sampleDatum_wfd

/-- the reader is not the constant function: it distinguishes texts -/
example : read t!"(1 . 2)" = .ok [.pair (.int 1) (.int 2)] := rfl
example : read t!"#(a \"b\" #\\c)" = .ok [.vec [.sym t!"a", .str t!"b", .chr 'c']] := rfl
set_option maxRecDepth 100000 in
example : write (.list [.str t!"a\"b", .chr ' ']) = t!"(\"a\\\"b\" #\\space)" := by decide

/-! ## the full statement is false for the code that exists -/

/-- K12a: the writer prints a symbol's name verbatim; `|a b|` comes back as two symbols -/
theorem counter_symbol_needs_quoting :
    read (write (.sym t!"a b")) = .ok [.sym t!"a", .sym t!"b"] := rfl

/-- K12a: the symbol with the empty name is written as nothing at all -/
theorem counter_empty_symbol : read (write (.sym [])) = .ok [] := rfl

/-- K12a: a symbol that looks like a number is read as the number -/
theorem counter_numeric_symbol : read (write (.sym t!"12")) = .ok [.int 12] := rfl

/-- K12a: a symbol starting with `+` is split by the lexer -/
theorem counter_plus_symbol : read (write (.sym t!"+a")) = .ok [.sym t!"+", .sym t!"a"] := rfl

/-- K12b: `fn` is an alias of `lambda` in the lexer -/
theorem counter_alias : read (write (.sym t!"fn")) = .ok [.sym t!"lambda"] := rfl

/-- K12c: the datum reader renames `unquote` under `quasiquote` -/
theorem counter_unquote :
    read (write (.list [.sym t!"quasiquote", .list [.sym t!"unquote", .list [.sym t!"a"]]]))
      = .ok [.list [.sym t!"quasiquote", .list [.sym t!"#%unquote", .list [.sym t!"a"]]]] := rfl

theorem not_ReadWrite : ¬ ReadWrite := by
  intro h
  have h1 := h (.sym t!"a b") rfl
  rw [counter_symbol_needs_quoting] at h1
  cases h1

end SteelVerif.C12
