/-
C12 — model of the lexer `crates/steel-parser/src/lexer.rs` (character state machine).

Text is `List Char` (Lean `Char` = Unicode scalar value = Rust `char`); positions are UTF-8 byte
offsets (`token_start`, `token_end` of the Rust `Lexer`).  Every function is structurally recursive
(on the text or on an explicit fuel bounded by the text length), so the model is total by
construction.  The model follows the Rust case by case, including its oddities:
  * an identifier that starts with `+` and has more characters is split into `+` and the rest (the
    `queued` token), both with the same span;
  * `self.error` is never reset: a later error that does not set it reports the stale span;
  * after a number prefix, `{`/`}` are not delimiters of `read_number` but are of `read_word`
    (`2}` is the identifier `2`);
  * `|..|` identifiers are recognised on the *slice* (`|abc\|` at end of input is accepted).
Floats are kept as their decimal text (validated with the grammar of Rust's `f64::from_str`); no
theorem mentions their value.
-/
import SteelVerif.C12.GenUnicode
namespace SteelVerif.C12

abbrev Text := List Char

-- `t!"abc"` = `['a', 'b', 'c']` (a list of character literals, so that nothing depends on how
-- `String` literals reduce).
open Lean in
macro:max "t!" s:str : term => do
  let cs := s.getString.toList
  let elems : Array (TSyntax `term) :=
    (cs.map (fun c => (⟨Syntax.mkCharLit c⟩ : TSyntax `term))).toArray
  `(([$elems,*] : List Char))

/-- UTF-8 length in bytes. -/
def utf8Len : Text → Nat
  | [] => 0
  | c :: cs => c.utf8Size + utf8Len cs

/-- Rust `char::is_whitespace` (Unicode `White_Space`); compared with Rust's table on every run. -/
def isWs (c : Char) : Bool :=
  let n := c.toNat
  (9 ≤ n && n ≤ 13) || n == 32 || n == 0x85 || n == 0xA0 || n == 0x1680 ||
  (0x2000 ≤ n && n ≤ 0x200A) || n == 0x2028 || n == 0x2029 || n == 0x202F || n == 0x205F ||
  n == 0x3000

def isDigit (c : Char) : Bool := '0' ≤ c && c ≤ '9'

inductive Paren | round | square | curly
  deriving DecidableEq, Repr, Inhabited

inductive PMod | vector | bytes
  deriving DecidableEq, Repr

inductive Kw
  | if_ | define | let_ | testLet | return_ | begin_ | lambda | quote | syntaxRules
  | defineSyntax | ellipses | set_ | require
  deriving DecidableEq, Repr

inductive RealLit
  | int (i : Int)
  | rat (n d : Int)
  | flo (text : Text)          -- decimal text accepted by `f64::from_str`
  | inf (neg : Bool)
  | nan
  deriving DecidableEq, Repr

inductive NumLit
  | real (r : RealLit)
  | complex (re im : RealLit)
  | polar (r theta : RealLit)
  deriving DecidableEq, Repr

inductive Tok
  | open_ (p : Paren) (m : Option PMod)
  | close (p : Paren)
  | tick | quasi | unquote | splice
  | synQuote | synQuasi | synUnquote | synSplice
  | kw (k : Kw)
  | chr (c : Char)
  | dcomment
  | comment (doc : Bool)
  | bool (b : Bool)
  | ident (s : Text)
  | keyword (s : Text)
  | num (n : NumLit)
  | str (s : Text)
  | dot
  deriving DecidableEq, Repr

inductive LexErrKind
  | unexpectedChar (c : Char)
  | incompleteString | incompleteIdent | incompleteComment
  | invalidWs
  | invalidEscape (c : Char)
  | invalidChar
  | zeroDenom
  | unclosedHex (c : Char)
  | invalidCharName
  | invalidHexLiteral
  | invalidCodePoint (n : Nat)
  | outOfFuel                       -- never produced (fuel is the text length)
  deriving DecidableEq, Repr

/-- One element of the token stream: a token or a lexer error, with its byte span. -/
inductive LexItem
  | tok (t : Tok) (s e : Nat)
  | err (k : LexErrKind) (s e : Nat)
  deriving DecidableEq, Repr

/-- Result of reading one token starting at a given position. -/
structure Step where
  res : Except LexErrKind Tok
  err : Option (Nat × Nat) := none     -- assignment to `self.error`, if one happened
  pos : Nat                            -- `token_end` afterwards
  rest : Text
  queued : Option Tok := none

/-! ## numbers -/

def digitVal (c : Char) : Option Nat :=
  if '0' ≤ c && c ≤ '9' then some (c.toNat - '0'.toNat)
  else if 'a' ≤ c && c ≤ 'z' then some (c.toNat - 'a'.toNat + 10)
  else if 'A' ≤ c && c ≤ 'Z' then some (c.toNat - 'A'.toNat + 10)
  else none

/-- digits of `radix`, most significant first; `none` if a character is not a digit. -/
def parseDigits (radix : Nat) : Nat → Text → Option Nat
  | acc, [] => some acc
  | acc, c :: cs =>
    match digitVal c with
    | some d => if d < radix then parseDigits radix (acc * radix + d) cs else none
    | none => none

/-- the strict integer syntax `[+-]? digit+` (what `isize::from_str_radix` accepts, at any magnitude). -/
def parseIntStrict (radix : Nat) : Text → Option Int
  | [] => none
  | '+' :: cs => if cs.isEmpty then none else (parseDigits radix 0 cs).map Int.ofNat
  | '-' :: cs => if cs.isEmpty then none else (parseDigits radix 0 cs).map (fun n => - Int.ofNat n)
  | cs => (parseDigits radix 0 cs).map Int.ofNat

/-- `BigUint::from_str_radix` of num-bigint: one leading `+` is dropped (unless another `+` follows), the text
    must not be empty nor start with `_`, and EVERY further `_` is skipped (digit separators). -/
def dropPlus : Text → Text
  | '+' :: t => if t.head? == some '+' then '+' :: t else t
  | s => s

def bigUintRadix (radix : Nat) (s : Text) : Option Nat :=
  if (dropPlus s).isEmpty || (dropPlus s).head? == some '_' then none
  else parseDigits radix 0 ((dropPlus s).filter (· != '_'))

/-- `BigInt::from_str_radix`: a leading `-` (not followed by `+`), then `bigUintRadix`. -/
def bigIntRadix (radix : Nat) : Text → Option Int
  | '-' :: t => if t.head? == some '+' then none else (bigUintRadix radix t).map (fun n => - Int.ofNat n)
  | s => (bigUintRadix radix s).map Int.ofNat

/-- `IntLiteral::from_str_radix`: `isize::from_str_radix(..).or_else(|_| BigInt::from_str_radix(..))`.  The
    fallback is num-bigint's parser, which accepts `_` between digits: `1_0` is 10, `1_000/3` is 1000/3 for
    `string->number` (the READER never gets here with a `_`: `read_number` stops at it, see
    `reader_number_slice_no_underscore`).  Whether the tree has this leniency is `Gen.intUnderscoreFallback`,
    regenerated from the real parser on every run (it turns `false` when `_` is rejected before the fallback). -/
def parseIntRadix (radix : Nat) (s : Text) : Option Int :=
  match parseIntStrict radix s with
  | some i => some i
  | none => if Gen.intUnderscoreFallback then bigIntRadix radix s else none

theorem parseIntRadix_of_strict {radix : Nat} {s : Text} {i : Int} (h : parseIntStrict radix s = some i) :
    parseIntRadix radix s = some i := by
  unfold parseIntRadix; rw [h]

/-- `u32::from_str_radix(_, 16)`: `+? hexdigit+`, value below 2^32. -/
def parseHexU32 (cs : Text) : Option Nat :=
  let body := match cs with
    | '+' :: r => r
    | r => r
  if body.isEmpty then none
  else match parseDigits 16 0 body with
    | some n => if n < 4294967296 then some n else none
    | none => none

def validScalar (n : Nat) : Bool := n < 0xD800 || (0xE000 ≤ n && n < 0x110000)

/-- grammar of Rust's `f64::from_str` restricted to what can reach it (decimal forms):
    `[+-]? (digit+ ('.' digit*)? | '.' digit+) ([eE] [+-]? digit+)?`, plus inf/infinity/nan. -/
def isRustFloat (cs : Text) : Bool :=
  let body := match cs with
    | '+' :: r => r
    | '-' :: r => r
    | r => r
  let lower := body.map Char.toLower
  if lower == t!"inf" || lower == t!"infinity" || lower == t!"nan" then true
  else
    let (ip, r1) := body.span isDigit
    let (fp, r2) : Text × Text := match r1 with
      | '.' :: r => r.span isDigit
      | r => ([], r)
    if ip.isEmpty && fp.isEmpty then false
    else match r2 with
      | [] => true
      | e :: r3 =>
        if e == 'e' || e == 'E' then
          let ds := match r3 with
            | '+' :: r => r
            | '-' :: r => r
            | r => r
          !ds.isEmpty && ds.all isDigit
        else false

structure RealScan where
  hasDot : Bool := false
  hasExp : Bool := false
  frac : Option Nat := none      -- index (in characters) of the '/'
  bad : Bool := false

def scanReal (radix : Nat) : Nat → RealScan → Text → RealScan
  | _, st, [] => st
  | i, st, c :: cs =>
    if (c == 'e' || c == 'E') && radix < 15 then
      if st.hasExp then { st with bad := true } else scanReal radix (i + 1) { st with hasExp := true } cs
    else if c == '/' then
      match st.frac with
      | some _ => { st with bad := true }
      | none => scanReal radix (i + 1) { st with frac := some i } cs
    else if c == '.' then
      if st.hasDot then { st with bad := true } else scanReal radix (i + 1) { st with hasDot := true } cs
    else scanReal radix (i + 1) st cs

/-- the four special spellings `parse_real` recognises first -/
def specialReal (s : Text) : Option RealLit :=
  if s == t!"-inf.0" then some (.inf true)
  else if s == t!"+inf.0" then some (.inf false)
  else if s == t!"+nan.0" || s == t!"-nan.0" then some .nan
  else none

/-- `parse_real` after the special spellings -/
def parseRealPlain (radix : Nat) (s : Text) : Option RealLit :=
  let sc := scanReal radix 0 {} s
  if sc.bad then none
  else if sc.hasExp || sc.hasDot then
    if radix != 10 then none
    else if isRustFloat s then some (.flo s) else none
  else match sc.frac with
    | some p =>
      -- the sign belongs to the numerator: a signed denominator (reachable through the separately
      -- parsed sides of a polar literal, `1@1/-2`) is rejected
      if (s.drop (p + 1)).head? == some '+' || (s.drop (p + 1)).head? == some '-' then none
      else
      match parseIntRadix radix (s.take p), parseIntRadix radix (s.drop (p + 1)) with
      | some n, some d => some (.rat n d)
      | _, _ => none
    | none => (parseIntRadix radix s).map .int

/-- `parse_real` -/
def parseReal (radix : Nat) (s : Text) : Option RealLit :=
  match specialReal s with
  | some r => some r
  | none => parseRealPlain radix s

/-- indices of the sign characters as `split_into_complex` collects them (the character after an
    `e`/`E` is skipped: `skip`); `none` when there are more than two. -/
def signIdxs : Bool → Nat → List Nat → Text → Option (List Nat)
  | _, _, acc, [] => some acc.reverse
  | true, i, acc, _ :: cs => signIdxs false (i + 1) acc cs
  | false, i, acc, c :: cs =>
    if c == '+' || c == '-' then
      if acc.length == 2 then none else signIdxs false (i + 1) (i :: acc) cs
    else if c == 'e' || c == 'E' then signIdxs true (i + 1) acc cs
    else signIdxs false (i + 1) acc cs

inductive NumPart
  | real (s : Text)
  | imag (s : Text)

def classifyPart (s : Text) : NumPart :=
  match s.getLast? with
  | some 'i' => .imag s.dropLast
  | _ => .real s

def splitComplex (s : Text) : Option (List NumPart) :=
  match signIdxs false 0 [] s with
  | none => none
  | some [] => some [classifyPart s]
  | some [0] => some [classifyPart s]
  | some [idx] => some [classifyPart (s.take idx), classifyPart (s.drop idx)]
  | some [0, idx] => some [classifyPart (s.take idx), classifyPart (s.drop idx)]
  | some _ => none

def imagPart (radix : Nat) (x : Text) : Option RealLit :=
  if x == ['+'] then some (.int 1)
  else if x == ['-'] then some (.int (-1))
  else parseReal radix x

/-- the radix prefix `#x #d #o #b` (either case) of a number literal -/
def radixPrefix : Text → Text × Nat
  | '#' :: 'x' :: r => (r, 16) | '#' :: 'X' :: r => (r, 16)
  | '#' :: 'd' :: r => (r, 10) | '#' :: 'D' :: r => (r, 10)
  | '#' :: 'o' :: r => (r, 8) | '#' :: 'O' :: r => (r, 8)
  | '#' :: 'b' :: r => (r, 2) | '#' :: 'B' :: r => (r, 2)
  | r => (r, 10)

def parseNumberBody (radix : Nat) (s : Text) : Option NumLit :=
  if s.contains '@' then
    let (a, b) := s.span (· != '@')
    match parseReal radix a, parseReal radix (b.drop 1) with
    | some r, some t => some (.polar r t)
    | _, _ => none
  else
    match splitComplex s with
    | some [.real x] => (parseReal radix x).map .real
    | some [.imag x] =>
      match x with
      | '+' :: _ | '-' :: _ => (imagPart radix x).map (fun im => .complex (.int 0) im)
      | _ => none
    | some [.real re, .imag im] =>
      match parseReal radix re, imagPart radix im with
      | some r, some i => some (.complex r i)
      | _, _ => none
    | _ => none

/-- `parse_number(s, None)` -/
def parseNumber (s0 : Text) : Option NumLit :=
  parseNumberBody (radixPrefix s0).2 (radixPrefix s0).1

def zeroDen : RealLit → Bool
  | .rat _ d => d == 0
  | _ => false

/-- `try_parse_number`: `none` = not a number, `some (error _)` = zero denominator. -/
def tryParseNumber (s : Text) : Option (Except LexErrKind NumLit) :=
  match parseNumber s with
  | none => none
  | some n =>
    let bad := match n with
      | .real r => zeroDen r
      | .complex a b => zeroDen a || zeroDen b
      | .polar a b => zeroDen a || zeroDen b
    if bad then some (.error .zeroDenom) else some (.ok n)

/-! ## escapes (shared by strings and `|..|` identifiers) -/

def hexStop (c : Char) : Bool :=
  c == ';' || c == '\\' || c == '\n' || c == '(' || c == ')' || c == '[' || c == ']' ||
  c == '{' || c == '}'

inductive HexScan
  | eof (consumed : Text)
  | done (digits : Text) (rest : Text)                 -- terminator eaten
  | bad (digits : Text) (stop : Char) (rest : Text)    -- wrong terminator eaten

def scanHex (endCh delim : Char) : Text → HexScan
  | [] => .eof []
  | c :: cs =>
    if c == endCh then .done [] cs
    else if hexStop c || c == delim then .bad [] c cs
    else match scanHex endCh delim cs with
      | .eof ds => .eof (c :: ds)
      | .done ds r => .done (c :: ds) r
      | .bad ds s r => .bad (c :: ds) s r

structure EscOut where
  res : Except LexErrKind (Option Char)
  err : Option (Nat × Nat) := none
  pos : Nat
  rest : Text

/-- the `\<space|tab|newline>` line continuation; `pos` is `token_end`, `trimming` as in the Rust -/
def escWs (incomplete : LexErrKind) : Bool → Nat → Text → EscOut
  | _, pos, [] => { res := .error incomplete, pos, rest := [] }
  | trimming, pos, c :: cs =>
    if c == ' ' || c == '\t' then escWs incomplete trimming (pos + 1) cs
    else if c == '\n' && !trimming then escWs incomplete true (pos + 1) cs
    else if trimming then { res := .ok none, pos, rest := c :: cs }
    else { res := .error .invalidWs, err := some (pos, pos + c.utf8Size), pos, rest := c :: cs }

/-- the optional `{` of `\u{..}`: terminator, position and text after it (`pos` = after the code letter) -/
def hexOpen (code : Char) (pos : Nat) (cs : Text) : Char × Nat × Text :=
  match cs with
  | '{' :: r => if code == 'u' then ('}', pos + 1, r) else (';', pos, cs)
  | _ => (';', pos, cs)

/-- the digits and terminator of a hex escape; `start` = byte offset of the backslash -/
def readHexEscape (incomplete : LexErrKind) (delim : Char) (start pos1 : Nat) (endCh : Char)
    (cs1 : Text) : EscOut :=
  match scanHex endCh delim cs1 with
  | .eof ds => { res := .error incomplete, pos := pos1 + utf8Len ds, rest := [] }
  | .bad ds _ r =>
    let pe := pos1 + utf8Len ds + 1
    { res := .error (.unclosedHex endCh), err := some (start, pe - 1), pos := pe, rest := r }
  | .done ds r =>
    let pe := pos1 + utf8Len ds + 1
    match parseHexU32 ds with
    | none => { res := .error .invalidHexLiteral, err := some (start, pe), pos := pe, rest := r }
    | some n =>
      if validScalar n then { res := .ok (some (Char.ofNat n)), pos := pe, rest := r }
      else { res := .error (.invalidCodePoint n), err := some (start, pe), pos := pe, rest := r }

/-- `read_string_escape`, called with the backslash already eaten (`pos` = `token_end`). -/
def readEscape (incomplete : LexErrKind) (delim : Char) (pos : Nat) : Text → EscOut
  | [] => { res := .error incomplete, pos, rest := [] }
  | c :: cs =>
    let one (r : Char) : EscOut := { res := .ok (some r), pos := pos + 1, rest := cs }
    if c == '"' then one '"'
    else if c == 'a' then one (Char.ofNat 7)
    else if c == 'b' then one (Char.ofNat 8)
    else if c == '\\' then one '\\'
    else if c == '|' then one '|'
    else if c == 't' then one '\t'
    else if c == 'n' then one '\n'
    else if c == 'r' then one '\r'
    else if c == '0' then one (Char.ofNat 0)
    else if c == 'x' || c == 'u' then
      readHexEscape incomplete delim (pos + 1 - 2) (hexOpen c (pos + 1) cs).2.1 (hexOpen c (pos + 1) cs).1
        (hexOpen c (pos + 1) cs).2.2
    else if c == ' ' || c == '\t' || c == '\n' then
      escWs incomplete (c == '\n') (pos + 1) cs
    else
      { res := .error (.invalidEscape c), err := some (pos - 1, pos + c.utf8Size), pos, rest := c :: cs }

/-! ## strings -/

/-- `read_string` after the opening quote; `buf` is reversed. -/
def readStr : Nat → Nat → Text → Text → Step
  | 0, pos, _, cs => { res := .error .outOfFuel, pos, rest := cs }
  | _ + 1, pos, _, [] => { res := .error .incompleteString, pos, rest := [] }
  | f + 1, pos, buf, c :: cs =>
    let pos1 := pos + c.utf8Size
    if c == '"' then { res := .ok (.str buf.reverse), pos := pos1, rest := cs }
    else if c == '\\' then
      let e := readEscape .incompleteString '"' pos1 cs
      match e.res with
      | .ok none => readStr f e.pos buf e.rest
      | .ok (some ch) => readStr f e.pos (ch :: buf) e.rest
      | .error k => { res := .error k, err := e.err, pos := e.pos, rest := e.rest }
    else readStr f pos1 (c :: buf) cs

/-- does `buf` (reversed) end with `delim` (reversed)? -/
def revEndsWith (bufRev delimRev : Text) : Bool := delimRev.isPrefixOf bufRev

/-- `read_here_string` after `#<<`: the delimiter line -/
def hereDelim : Nat → Text → Text → Except (LexErrKind × Nat × Text) (Text × Nat × Text)
  | pos, acc, [] => .ok (acc.reverse, pos, [])
  | pos, acc, c :: cs =>
    let pos1 := pos + c.utf8Size
    if c == '\n' then .ok (acc.reverse, pos1, cs)
    else if c == '\r' then hereDelim pos1 acc cs
    else if isWs c then .error (.unexpectedChar c, pos1, cs)
    else hereDelim pos1 (c :: acc) cs

def hereBody (delimRev : Text) : Nat → Text → Text → Step
  | pos, _, [] => { res := .error .incompleteString, pos, rest := [] }
  | pos, buf, c :: cs =>
    let pos1 := pos + c.utf8Size
    let buf1 := c :: buf
    if revEndsWith buf1 delimRev then
      { res := .ok (.str (buf1.drop delimRev.length).reverse), pos := pos1, rest := cs }
    else hereBody delimRev pos1 buf1 cs

def readHere (pos : Nat) (cs : Text) : Step :=
  match hereDelim pos [] cs with
  | .error (k, p, r) => { res := .error k, pos := p, rest := r }
  | .ok (delim, p, r) => hereBody delim.reverse p [] r

/-! ## words -/

def isWordStop (c : Char) : Bool :=
  c == '(' || c == '[' || c == ')' || c == ']' || c == '{' || c == '}' || isWs c ||
  c == '\'' || c == '"' || c == '`' || c == ';' || c == ','

/-- the unescaped loop of `read_word`: characters eaten, rest.  `esc` = the previous character was
    a backslash (`'\\' => { eat; eat }`: the next character is eaten whatever it is). -/
def scanWordAux : Bool → Text → Text × Text
  | _, [] => ([], [])
  | true, c :: cs => let (w, r) := scanWordAux false cs; (c :: w, r)
  | false, c :: cs =>
    if isWordStop c then ([], c :: cs)
    else if c == '\\' then let (w, r) := scanWordAux true cs; (c :: w, r)
    else let (w, r) := scanWordAux false cs; (c :: w, r)

def scanWord (cs : Text) : Text × Text := scanWordAux false cs

/-- the spellings `read_word` turns into dedicated tokens -/
def kwTable : List (Text × Tok) :=
  [ (t!".", .dot), (t!"if", .kw .if_), (t!"let", .kw .let_),
    (t!"define", .kw .define), (t!"defn", .kw .define), (t!"#%define", .kw .define),
    (t!"%plain-let", .kw .testLet), (t!"return!", .kw .return_), (t!"begin", .kw .begin_),
    (t!"lambda", .kw .lambda), (t!"fn", .kw .lambda), (t!"#%plain-lambda", .kw .lambda),
    (t!"λ", .kw .lambda), (t!"quote", .kw .quote), (t!"syntax-rules", .kw .syntaxRules),
    (t!"define-syntax", .kw .defineSyntax), (t!"...", .kw .ellipses), (t!"set!", .kw .set_),
    (t!"require", .kw .require) ]

def kwOf (s : Text) : Option Tok := (kwTable.find? (fun e => e.1 == s)).map (·.2)

/-- the escaped (`|..|`) loop of `read_word`, after the opening bar.
    Returns the raw characters eaten (reversed), the identifier pieces (reversed). -/
def scanBar : Nat → Nat → Text → Text → Text →
    Except (LexErrKind × Option (Nat × Nat) × Nat × Text) (Text × Text × Nat × Text)
  | 0, pos, _, _, cs => .error (.outOfFuel, none, pos, cs)
  | _ + 1, pos, raw, ident, [] => .ok (raw, ident, pos, [])
  | f + 1, pos, raw, ident, c :: cs =>
    let pos1 := pos + c.utf8Size
    if c == '|' then .ok (c :: raw, ident, pos1, cs)
    else if c == '\\' then
      let e := readEscape .incompleteIdent '|' pos1 cs
      -- raw text eaten by the escape = what is between `cs` and `e.rest`
      let eaten := cs.take (cs.length - e.rest.length)
      match e.res with
      | .ok none => scanBar f e.pos (eaten.reverse ++ c :: raw) ident e.rest
      | .ok (some ch) => scanBar f e.pos (eaten.reverse ++ c :: raw) (ch :: ident) e.rest
      | .error k => .error (k, e.err, e.pos, e.rest)
    else scanBar f pos1 (c :: raw) (c :: ident) cs

/-- the token `read_word` makes of the slice (`queued` is always free when `read_word` runs).
    Order as in the Rust: keywords, then `+x` (split into `+` and the queued rest), then `|..|`. -/
def wordToken (slice : Text) (escaped : Bool) (ident : Text) : Except LexErrKind (Tok × Option Tok) :=
  match kwOf slice with
  | some t => .ok (t, none)
  | none =>
    if slice.head? == some '+' && decide (2 ≤ slice.length) then
      .ok (.ident ['+'], some (.ident (slice.drop 1)))
    else if escaped then
      if slice.head? == some '|' && slice.getLast? == some '|' && decide (2 ≤ slice.length) then
        if ident.isEmpty then .ok (.ident (slice.drop 1).dropLast, none)
        else .ok (.ident ident, none)
      else .error .incompleteIdent
    else .ok (.ident slice, none)

/-- `read_word`; `acc` = characters of the current token already eaten (the slice so far). -/
def readWord (acc : Text) (pos : Nat) (cs : Text) : Step :=
  match cs with
  | '|' :: cs1 =>
    match scanBar (cs1.length + 1) (pos + 1) [] [] cs1 with
    | .error (k, e, p, r) => { res := .error k, err := e, pos := p, rest := r }
    | .ok (raw, ident, p, r) =>
      let slice := acc ++ '|' :: raw.reverse
      match wordToken slice true ident.reverse with
      | .ok (t, q) => { res := .ok t, pos := p, rest := r, queued := q }
      | .error k => { res := .error k, pos := p, rest := r }
  | _ =>
    let (w, r) := scanWord cs
    let slice := acc ++ w
    match wordToken slice false [] with
    | .ok (t, q) => { res := .ok t, pos := pos + utf8Len w, rest := r, queued := q }
    | .error k => { res := .error k, pos := pos + utf8Len w, rest := r }

/-! ## numbers (`read_number`) -/

def isNumChar (c : Char) : Bool :=
  isDigit c || c == '+' || c == '-' || c == '.' || c == '/' || c == '@' ||
  c == 'a' || c == 'A' || c == 'b' || c == 'B' || c == 'c' || c == 'C' || c == 'd' || c == 'D' ||
  c == 'e' || c == 'E' || c == 'f' || c == 'F' || c == 'i' || c == 'n'

def scanNum : Text → Text × Text
  | [] => ([], [])
  | c :: cs => if isNumChar c then let (w, r) := scanNum cs; (c :: w, r) else ([], c :: cs)

def isNumStop (c : Char) : Bool := c == '(' || c == ')' || c == '[' || c == ']' || isWs c

def readNumber (acc : Text) (pos : Nat) (cs : Text) : Step :=
  let (w, r) := scanNum cs
  let slice := acc ++ w
  let p := pos + utf8Len w
  let tryNum : Step :=
    match tryParseNumber slice with
    | some (.ok n) => { res := .ok (.num n), pos := p, rest := r }
    | some (.error k) => { res := .error k, pos := p, rest := r }
    | none => readWord slice p r
  match r with
  | [] => tryNum
  | c :: _ => if isNumStop c then tryNum else readWord slice p r

/-! ## `#` dispatch -/

def eqIgnoreAsciiCase (a b : Text) : Bool :=
  a.length == b.length && (a.zip b).all (fun (x, y) => x.toLower == y.toLower || x == y)

/-- the character names of `parse_char` (ASCII case-insensitive) -/
def namedChar (s : Text) : Option Char :=
  let named (n : Text) := eqIgnoreAsciiCase s n
  if named t!"alarm" then some (Char.ofNat 7)
  else if named t!"backspace" then some (Char.ofNat 8)
  else if named t!"delete" then some (Char.ofNat 0x7F)
  else if named t!"escape" then some (Char.ofNat 0x1B)
  else if named t!"newline" then some '\n'
  else if named t!"null" then some (Char.ofNat 0)
  else if named t!"return" then some '\r'
  else if named t!"space" then some ' '
  else if named t!"tab" then some '\t'
  else none

/-- hexadecimal scalar value: `u32::from_str_radix(_, 16)` then `char::from_u32` -/
def hexCharOf (p : Text) : Except LexErrKind Char :=
  match parseHexU32 p with
  | none => .error .invalidHexLiteral
  | some n => if validScalar n then .ok (Char.ofNat n) else .error (.invalidCodePoint n)

/-- the digits of `#\uXXXX`, `#\xXXXX`, `#\u{XXXX}` (`s` = `first :: more`) -/
def charPayload (first : Char) (more s : Text) : Except LexErrKind Text :=
  match more with
  | '{' :: body =>
    if first == 'u' then
      if s.getLast? == some '}' then .ok body.dropLast else .error (.unclosedHex '}')
    else .ok more
  | _ => .ok more

/-- `parse_char` on the characters after `#\` (nonempty) -/
def parseCharName (s : Text) : Except LexErrKind Char :=
  match namedChar s with
  | some c => .ok c
  | none =>
    match s with
    | [] => .error .invalidCharName
    | first :: more =>
      if (first == 'u' || first == 'x') && utf8Len s > 1 then
        match charPayload first more s with
        | .error k => .error k
        | .ok p => hexCharOf p
      else if more.isEmpty then .ok first else .error .invalidCharName

/-- the scanning loop of `read_hash_value` (`esc` as in `scanWordAux`) -/
def scanHashAux : Bool → Text → Text × Text
  | _, [] => ([], [])
  | true, c :: cs => let (w, r) := scanHashAux false cs; (c :: w, r)
  | false, c :: cs =>
    if c == '\\' then let (w, r) := scanHashAux true cs; (c :: w, r)
    else if c == '\'' || c == '`' then ([c], cs)
    else if c == ',' then
      (if cs.head? == some '@' then ([',', '@'], cs.tail) else ([','], cs))
    else if c == '(' || c == '[' || c == ')' || c == ']' || isWs c then ([], c :: cs)
    else let (w, r) := scanHashAux false cs; (c :: w, r)

def scanHash (cs : Text) : Text × Text := scanHashAux false cs

/-- `read_hash_value`, after `#` (position `pos` is after the `#`). `tokStart` for error spans. -/
def readHash (tokStart pos : Nat) (cs : Text) : Step :=
  let (w, r) := scanHash cs
  let slice := '#' :: w
  let p := pos + utf8Len w
  if slice == t!"#true" || slice == t!"#t" then { res := .ok (.bool true), pos := p, rest := r }
  else if slice == t!"#false" || slice == t!"#f" then { res := .ok (.bool false), pos := p, rest := r }
  else if slice == t!"#'" then { res := .ok .synQuote, pos := p, rest := r }
  else if slice == t!"#`" then { res := .ok .synQuasi, pos := p, rest := r }
  else if slice == t!"#," then { res := .ok .synUnquote, pos := p, rest := r }
  else if slice == t!"#,@" then { res := .ok .synSplice, pos := p, rest := r }
  else match w with
    | ':' :: _ => { res := .ok (.keyword slice), pos := p, rest := r }
    | '\\' :: name =>
      if name.isEmpty then { res := .error .invalidChar, pos := p, rest := r }
      else match parseCharName name with
        | .ok c => { res := .ok (.chr c), pos := p, rest := r }
        | .error k => { res := .error k, err := some (tokStart, p), pos := p, rest := r }
    | _ =>
      match r with
      | '(' :: r' =>
        if w.isEmpty then { res := .ok (.open_ .round (some .vector)), pos := p + 1, rest := r' }
        else if w == ['u', '8'] then { res := .ok (.open_ .round (some .bytes)), pos := p + 1, rest := r' }
        else readWord slice p r
      | _ => readWord slice p r

/-- `read_nestable_comment` after `#|`.  `prev`: 1 = the previous character was a `|` that did not
    close anything yet, 2 = it was a `#` that did not open anything yet, 0 otherwise. -/
def nestComment : Nat → Nat → Nat → Text → Step
  | _, _, pos, [] => { res := .error .incompleteComment, pos, rest := [] }
  | prev, depth, pos, c :: cs =>
    let pos1 := pos + c.utf8Size
    if prev == 1 && c == '#' then
      if depth ≤ 1 then { res := .ok (.comment false), pos := pos1, rest := cs }
      else nestComment 0 (depth - 1) pos1 cs
    else if prev == 2 && c == '|' then nestComment 0 (depth + 1) pos1 cs
    else if c == '|' then nestComment 1 depth pos1 cs
    else if c == '#' then nestComment 2 depth pos1 cs
    else nestComment 0 depth pos1 cs

/-- rest of a line comment: characters eaten (including the newline), rest -/
def restOfLine : Text → Text × Text
  | [] => ([], [])
  | c :: cs => if c == '\n' then ([c], cs) else let (w, r) := restOfLine cs; (c :: w, r)

def isDocComment (line : Text) : Bool :=
  (t!"@doc").isPrefixOf (line.dropWhile (· == ';'))

/-- one token; `c :: cs` is the text at `pos` (= `token_start`), `c` not whitespace -/
def lexOne (pos : Nat) (c : Char) (cs : Text) : Step :=
  if c == ';' then
    { res := .ok (.comment (isDocComment (c :: (restOfLine cs).1))),
      pos := pos + c.utf8Size + utf8Len (restOfLine cs).1, rest := (restOfLine cs).2 }
  else if c == '"' then readStr (cs.length + 1) (pos + c.utf8Size) [] cs
  else if c == '(' then { res := .ok (.open_ .round none), pos := pos + c.utf8Size, rest := cs }
  else if c == '[' then { res := .ok (.open_ .square none), pos := pos + c.utf8Size, rest := cs }
  else if c == '{' then { res := .ok (.open_ .curly none), pos := pos + c.utf8Size, rest := cs }
  else if c == ')' then { res := .ok (.close .round), pos := pos + c.utf8Size, rest := cs }
  else if c == ']' then { res := .ok (.close .square), pos := pos + c.utf8Size, rest := cs }
  else if c == '}' then { res := .ok (.close .curly), pos := pos + c.utf8Size, rest := cs }
  else if c == '\'' then { res := .ok .tick, pos := pos + c.utf8Size, rest := cs }
  else if c == '`' then { res := .ok .quasi, pos := pos + c.utf8Size, rest := cs }
  else if c == ',' then
    match cs with
    | '@' :: cs' => { res := .ok .splice, pos := pos + c.utf8Size + 1, rest := cs' }
    | _ => { res := .ok .unquote, pos := pos + c.utf8Size, rest := cs }
  else if c == '+' || c == '-' || c == '.' then readNumber [c] (pos + c.utf8Size) cs
  else if c == '#' then
    match cs with
    | [] => readHash pos (pos + c.utf8Size) cs
    | d :: cs' =>
      if d == 'x' || d == 'X' || d == 'd' || d == 'D' || d == 'o' || d == 'O' || d == 'b' || d == 'B' then
        readNumber [c, d] (pos + c.utf8Size + 1) cs'
      else if d == '|' then nestComment 0 1 (pos + c.utf8Size + 1) cs'
      else if d == ';' then { res := .ok .dcomment, pos := pos + c.utf8Size + 1, rest := cs' }
      else if d == '#' then { res := .error (.unexpectedChar '#'), pos := pos + c.utf8Size + 1, rest := cs' }
      else if d == '<' then
        match cs' with
        | '<' :: cs'' => readHere (pos + c.utf8Size + 2) cs''
        | _ => readWord [c, d] (pos + c.utf8Size + 1) cs'
      else readHash pos (pos + c.utf8Size) cs
  else if isDigit c && c != '_' then readNumber [] pos (c :: cs)
  else readWord [] pos (c :: cs)

structure LexSt where
  pos : Nat := 0
  tokStart : Nat := 0
  errSpan : Nat × Nat := (0, 0)
  queued : Option Tok := none

def skipWs : Text → Text × Text
  | [] => ([], [])
  | c :: cs => if isWs c then let (w, r) := skipWs cs; (c :: w, r) else ([], c :: cs)

/-- `self.error` after a token: only an explicit assignment changes it (it is never reset) -/
def newErrSpan (e : Option (Nat × Nat)) (old : Nat × Nat) : Nat × Nat :=
  match e with
  | some e => e
  | none => old

/-- the span reported for an error: `self.error` when it is non-empty, else the token span -/
def errReport (errSpan : Nat × Nat) (start pos : Nat) : Nat × Nat :=
  if errSpan.1 < errSpan.2 then errSpan else (start, pos)

/-- the token stream (comments kept, as the parser sees it) -/
def lexLoop : Nat → LexSt → Text → List LexItem
  | 0, _, _ => [.err .outOfFuel 0 0]
  | f + 1, st, cs =>
    match st.queued with
    | some t => .tok t st.tokStart st.pos :: lexLoop f { st with queued := none } cs
    | none =>
      match (skipWs cs).2 with
      | [] => []
      | c :: rest =>
        let start := st.pos + utf8Len (skipWs cs).1
        let s := lexOne start c rest
        let st' : LexSt := { pos := s.pos, tokStart := start, errSpan := newErrSpan s.err st.errSpan,
                             queued := s.queued }
        match s.res with
        | .ok t => .tok t start s.pos :: lexLoop f st' s.rest
        | .error k =>
          .err k (errReport st'.errSpan start s.pos).1 (errReport st'.errSpan start s.pos).2
            :: lexLoop f st' s.rest

/-- the text up to (not including) the first newline, and the rest -/
def splitAtNewline : Text → Text × Text
  | [] => ([], [])
  | c :: cs => if c == '\n' then ([], c :: cs) else let (w, r) := splitAtNewline cs; (c :: w, r)

/-- `strip_shebang_line`: characters of the first line when the text starts with `#!` -/
def shebang (cs : Text) : Text × Text :=
  match cs with
  | '#' :: '!' :: _ => splitAtNewline cs
  | _ => ([], cs)

def lex (src : Text) : List LexItem :=
  let (sb, rest) := shebang src
  let p := utf8Len sb
  lexLoop (2 * rest.length + 2) { pos := p, tokStart := p } rest

end SteelVerif.C12
