/-
C12 — model of the program-level parser `Parser::parse` (crates/steel-parser/src/parser.rs + ast.rs) on the
fragment: atoms, applications, `if`, `define` (plain and function shorthand), `lambda` (fixed arguments or one rest
identifier), `begin`, `set!`, `quote`, `let` (lowered to the application of a lambda, as the parser does), and of
`Display for ExprKind` (the AST printer).

The real parser lowers while it builds frames; the result is compositional, so the model lowers the DATUM the flat
reader (`Parse.lean`) produces: children first (`lowerList`), then the form is assembled from its head
(`assemble`); `(quote d)` is intercepted before its children are touched.  Everything else (`%plain-let`, named
`let`, `return!`, `require`, macros, vectors and improper lists outside `quote`, argument lists with a dotted
tail, curried `define`) is `unmodelled`.
-/
import SteelVerif.C12.Model
namespace SteelVerif.C12

inductive Ast
  | atom (d : Datum)                                   -- an atomic datum (number, boolean, character, string, identifier)
  | ifE (c t e : Ast)
  | define (name : Text) (body : Ast)
  | lambda (args : List Text) (rest : Bool) (body : Ast)
  | begin (es : List Ast)
  | quote (d : Datum)                                  -- the quoted datum, not lowered
  | set (v e : Ast)
  | app (es : List Ast)
  deriving Repr, Inhabited

inductive LowerErr
  | syntax        -- the parser rejects the form (arity of a special form)
  | unmodelled    -- outside the fragment
  deriving DecidableEq, Repr

/-- the spellings the lexer turns into keyword tokens (after `read` they are symbols with these names) -/
def kwNames : List Text :=
  [t!"if", t!"define", t!"let", t!"%plain-let", t!"return!", t!"begin", t!"lambda", t!"quote", t!"syntax-rules",
   t!"define-syntax", t!"...", t!"set!", t!"require"]

def isKwName (s : Text) : Bool := kwNames.contains s

def voidAtom : Ast := .atom (.sym t!"#%prim.void")

/-- the identifiers of an argument list (lowered as an application of atoms) -/
def identsOf : List Ast → Option (List Text)
  | [] => some []
  | .atom (.sym s) :: r => (identsOf r).map (s :: ·)
  | _ => none

/-- the body of a `lambda` / `define` / `let`: one expression, or a `begin` of several -/
def bodyOf : List Ast → Option Ast
  | [] => none
  | [e] => some e
  | es => some (.begin es)

/-- `(x v)` bindings, lowered as applications -/
def bindingsOf : List Ast → Option (List Text × List Ast)
  | [] => some ([], [])
  | .app [.atom (.sym s), v] :: r => (bindingsOf r).map (fun p => (s :: p.1, v :: p.2))
  | _ => none

/-- the special forms, from the lowered elements of a list (`as` = head :: tail) -/
def assemble (as : List Ast) : Except LowerErr Ast :=
  match as with
  | .atom (.sym s) :: tail =>
    if s == t!"if" then
      match tail with
      | [c, t, e] => .ok (.ifE c t e)
      | [c, t] => .ok (.ifE c t voidAtom)
      | _ => .error .syntax
    else if s == t!"define" then
      match tail with
      | [.atom (.sym name), body] => if isKwName name then .error .unmodelled else .ok (.define name body)
      | .app (.atom (.sym f) :: args) :: b :: bs =>
        match identsOf args, bodyOf (b :: bs) with
        | some names, some body =>
          if isKwName f then .error .unmodelled else .ok (.define f (.lambda names false body))
        | _, _ => .error .unmodelled
      | _ => .error .unmodelled
    else if s == t!"lambda" then
      match tail with
      | .app args :: b :: bs =>
        match identsOf args, bodyOf (b :: bs) with
        | some names, some body => .ok (.lambda names false body)
        | _, _ => .error .unmodelled
      | .atom (.sym x) :: b :: bs =>
        match bodyOf (b :: bs) with
        | some body => if isKwName x then .error .unmodelled else .ok (.lambda [x] true body)
        | none => .error .unmodelled
      | _ => .error .unmodelled
    else if s == t!"begin" then .ok (.begin tail)
    else if s == t!"set!" then
      match tail with
      | [v, e] => .ok (.set v e)
      | _ => .error .syntax
    else if s == t!"let" then
      match tail with
      | .app bs :: b :: rest =>
        match bindingsOf bs, bodyOf (b :: rest) with
        | some (names, vals), some body => .ok (.app (.lambda names false body :: vals))
        | _, _ => .error .unmodelled
      | _ => .error .unmodelled
    else if isKwName s then .error .unmodelled
    else .ok (.app as)
  | _ => .ok (.app as)

def isQuoteForm : List Datum → Option Datum
  | [.sym s, d] => if s == t!"quote" then some d else none
  | _ => none

mutual
/-- `Parser::parse` on one datum of the text -/
def lower : Datum → Except LowerErr Ast
  | .list xs =>
    match isQuoteForm xs with
    | some d => .ok (.quote d)
    | none =>
      match lowerList xs with
      | .ok as => assemble as
      | .error e => .error e
  | .pair _ _ => .error .unmodelled
  | .vec _ => .error .unmodelled
  | .bytes _ => .error .unmodelled
  | .flo _ => .error .unmodelled
  | .other _ => .error .unmodelled
  | .int i => .ok (.atom (.int i))
  | .rat n d => .ok (.atom (.rat n d))
  | .bool b => .ok (.atom (.bool b))
  | .chr c => .ok (.atom (.chr c))
  | .str s => .ok (.atom (.str s))
  | .sym s => .ok (.atom (.sym s))
def lowerList : List Datum → Except LowerErr (List Ast)
  | [] => .ok []
  | x :: xs =>
    match lower x with
    | .error e => .error e
    | .ok a =>
      match lowerList xs with
      | .error e => .error e
      | .ok as => .ok (a :: as)
end

inductive ParseOut
  | ok (as : List Ast)
  | readErr (e : ReadErr)
  | lowerErr (e : LowerErr)

/-- the model of `Parser::parse`: read every datum, lower each -/
def parseM (src : Text) : ParseOut :=
  match read src with
  | .error e => .readErr e
  | .ok ds =>
    match lowerList ds with
    | .ok as => .ok as
    | .error e => .lowerErr e

/-! ## `Display for ExprKind` -/

def joinSp : List Text → Text
  | [] => []
  | [x] => x
  | x :: y :: r => x ++ ' ' :: joinSp (y :: r)

/-- `Display for TokenType` of an atom: numbers and booleans as the writer prints them, identifiers bare, strings
    between quotes WITHOUT any escaping (K12j), characters as the writer prints them -/
def prettyAtom : Datum → Text
  | .int i => writeInt i
  | .rat n d => writeInt n ++ '/' :: decDigits d
  | .bool b => if b then t!"#true" else t!"#false"
  | .chr c => writeChar c
  | .str s => '"' :: (s ++ ['"'])
  | .sym s => s
  | _ => []

def prettyBytes : List Nat → Text
  | [] => []
  | [b] => decDigits b
  | b :: r => decDigits b ++ ' ' :: prettyBytes r

mutual
/-- `Display` of a quoted expression tree: lists, improper lists flattened (`(a b . c)`), vectors, atoms -/
def prettyQuoted : Datum → Text
  | .list xs => '(' :: (prettyQuoteds xs ++ [')'])
  | .pair a d => '(' :: (prettyQuoted a ++ ' ' :: pairTail d)
  | .vec xs => '#' :: '(' :: (prettyQuoteds xs ++ [')'])
  | .bytes bs => t!"#u8(" ++ prettyBytes bs ++ [')']
  | d => prettyAtom d
def pairTail : Datum → Text
  | .pair a d => prettyQuoted a ++ ' ' :: pairTail d
  | d => '.' :: ' ' :: (prettyQuoted d ++ [')'])
def prettyQuoteds : List Datum → Text
  | [] => []
  | [x] => prettyQuoted x
  | x :: y :: r => prettyQuoted x ++ ' ' :: prettyQuoteds (y :: r)
end

mutual
def prettyM : Ast → Text
  | .atom d => prettyAtom d
  | .ifE c t e => t!"(if " ++ prettyM c ++ ' ' :: (prettyM t ++ ' ' :: (prettyM e ++ [')']))
  | .define n b => t!"(define " ++ n ++ ' ' :: (prettyM b ++ [')'])
  | .lambda args _ b => t!"(lambda (" ++ joinSp args ++ ')' :: ' ' :: (prettyM b ++ [')'])
  | .begin es => t!"(begin " ++ prettySeq es ++ [')']
  | .quote d => t!"(quote " ++ prettyQuoted d ++ [')']
  | .set v e => t!"(set! " ++ prettyM v ++ ' ' :: (prettyM e ++ [')'])
  | .app es => '(' :: (prettySeq es ++ [')'])
def prettySeq : List Ast → Text
  | [] => []
  | [x] => prettyM x
  | x :: y :: r => prettyM x ++ ' ' :: prettySeq (y :: r)
end

mutual
/-- the datum whose written form is the printed program (the inverse of `lower` on the fragment) -/
def datumOf : Ast → Datum
  | .atom d => d
  | .ifE c t e => .list [.sym t!"if", datumOf c, datumOf t, datumOf e]
  | .define n b => .list [.sym t!"define", .sym n, datumOf b]
  | .lambda args _ b => .list [.sym t!"lambda", .list (args.map Datum.sym), datumOf b]
  | .begin es => .list (.sym t!"begin" :: datumsOf es)
  | .quote d => .list [.sym t!"quote", d]
  | .set v e => .list [.sym t!"set!", datumOf v, datumOf e]
  | .app es => .list (datumsOf es)
def datumsOf : List Ast → List Datum
  | [] => []
  | x :: xs => datumOf x :: datumsOf xs
end

end SteelVerif.C12
