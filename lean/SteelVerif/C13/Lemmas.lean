/-
C13 — helper definitions and lemmas for `match_exact` (matching a form and re-instantiating the pattern
as a template gives the form back).
-/
import SteelVerif.C13.Model
namespace SteelVerif.C13
set_option linter.unusedSimpArgs false
set_option linter.unusedVariables false

/-! ### The pattern read as a template -/

mutual
/-- The template element for one pattern (the ellipsis after a `many` is added by `tmplList`). -/
def tmpl1 : Pat → Sexp
  | .var x => .id x Mark.plain
  | .lit s => .id s Mark.plain
  | .kwlit k => .kw k
  | .cint n => .int n
  | .cbool b => .bool b
  | .many p => tmpl1 p
  | .rest p => tmpl1 p
  | .nested ps => .list (tmplList ps) (lastIsRest ps)
def tmplList : List Pat → List Sexp
  | [] => []
  | p :: ps =>
      match p with
      | .many q => tmpl1 q :: Sexp.ell :: tmplList ps
      | p => tmpl1 p :: tmplList ps
end

/-! ### Well-formed patterns (what `parse_from_list` produces) -/

/-- The pattern list is exactly `(p ... . r)`: steel's `non_list_match` lets it match a form `f` that is not
a list (an improper list without elements: `p… = ()`, `r = f`).  The bindings are right, but instantiating
the pattern as a template yields the one-element improper list `( . f)` that steel's `make_improper` does not
normalise to `f` — so this shape is excluded in nested positions of `match_exact`. -/
def isManyRest : List Pat → Bool
  | [.many _, .rest _] => true
  | _ => false

mutual
/-- A pattern that consumes exactly one form. -/
def wf1 : Pat → Bool
  | .var x => x != wildcard
  | .lit _ => true
  | .kwlit k => k != Kw.ellipsis
  | .cint _ => true
  | .cbool _ => true
  | .nested ps => wfList ps && !isManyRest ps
  | .many _ => false
  | .rest _ => false
/-- A pattern list: one-form patterns, at most one ellipsis, optionally a dotted tail that is a variable. -/
def wfList : List Pat → Bool
  | [] => true
  | p :: ps =>
      match p with
      | .many sub => wfMany sub && wfPost ps
      | .rest q => ps.isEmpty && (match q with | .var r => r != wildcard | _ => false)
      | p => wf1 p && wfList ps
def wfMany : Pat → Bool
  | .var x => x != wildcard
  | .nested qs => wfList qs && !isManyRest qs && !(Pat.varsList qs).isEmpty
  | _ => false
def wfSimples : List Pat → Bool
  | [] => true
  | p :: ps => wf1 p && wfSimples ps
/-- What may follow an ellipsis: one-form patterns, optionally a dotted tail that is a variable. -/
def wfPost : List Pat → Bool
  | [] => true
  | p :: ps =>
      match p with
      | .rest q => ps.isEmpty && (match q with | .var r => r != wildcard | _ => false)
      | p => wf1 p && wfPost ps
end

mutual
def Pat.lits : Pat → List Name
  | .lit s => [s]
  | .many p => p.lits
  | .rest p => p.lits
  | .nested ps => Pat.litsList ps
  | _ => []
def Pat.litsList : List Pat → List Name
  | [] => []
  | p :: ps => p.lits ++ Pat.litsList ps
end

/-! ### Forms as the reader produces them -/

mutual
/-- An improper list has at least one element before the tail and its tail is not a list. -/
def normal : Sexp → Bool
  | .list xs imp => normalList xs && (!imp || (match xs.getLast? with | some (.list _ _) => false | some _ => xs.length ≥ 2 | none => false))
  | _ => true
def normalList : List Sexp → Bool
  | [] => true
  | x :: xs => normal x && normalList xs
end

/-- `f` is a form a user can write: plain identifiers, no ellipsis token, normalised dotted lists, and no
identifier that is a key of the binding map. -/
def cleanFor (env : Env) (f : Sexp) : Prop :=
  (∀ k ∈ f.ids, env.b.get k = none) ∧ f.hasEllipsis = false ∧ f.isPlain = true ∧ normal f = true

def cleanForList (env : Env) (xs : List Sexp) : Prop :=
  (∀ k ∈ Sexp.idsList xs, env.b.get k = none) ∧ Sexp.hasEllipsisList xs = false ∧
    Sexp.isPlainList xs = true ∧ normalList xs = true

/-! ### Basic facts -/

theorem name_beq_iff (a b : Name) : (a == b) = true ↔ a = b := by
  constructor
  · intro h; exact of_decide_eq_true h
  · intro h; subst h; exact decide_eq_true rfl

theorem name_bne_iff (a b : Name) : (a != b) = true ↔ a ≠ b := by
  simp [bne, name_beq_iff]

theorem get_insert (b : Bindings) (k k' : Name) (v : Sexp) :
    (Bindings.insert b k v).get k' = if k = k' then some v else b.get k' := by
  simp only [Bindings.insert, Bindings.get]
  by_cases h : k = k'
  · subst h; simp [name_beq_iff]
  · have : (k == k') = false := by
      cases hh : (k == k') with
      | false => rfl
      | true => exact absurd ((name_beq_iff k k').1 hh) h
    simp [this, h]

theorem mapE_ok_self {α : Type} (f : α → Except Err α) (xs : List α)
    (h : ∀ x ∈ xs, f x = .ok x) : mapE f xs = .ok xs := by
  induction xs with
  | nil => rfl
  | cons x xs ih =>
      have hx := h x (by simp)
      have hxs := ih (fun y hy => h y (by simp [hy]))
      simp [mapE, hx, hxs]

theorem mapE_append {α β : Type} (f : α → Except Err β) (xs ys : List α) (rx ry : List β)
    (hx : mapE f xs = .ok rx) (hy : mapE f ys = .ok ry) : mapE f (xs ++ ys) = .ok (rx ++ ry) := by
  induction xs generalizing rx with
  | nil => simp [mapE] at hx; subst hx; simpa using hy
  | cons x xs ih =>
      simp only [mapE] at hx
      cases hfx : f x with
      | error e => simp [hfx] at hx
      | ok y =>
          simp only [hfx] at hx
          cases hm : mapE f xs with
          | error e => simp [hm] at hx
          | ok r =>
              simp only [hm] at hx
              have hr : rx = y :: r := by cases hx; rfl
              subst hr
              have := ih r hm
              simp [mapE, hfx, this]


/-! ### `visit` on lists without a (top-level) ellipsis, and on user data -/

theorem visit_list_noell (n : Nat) (c : ICtx) (env : Env) (fb : Bindings) (xs : List Sexp) (imp : Bool)
    (h : xs.findIdx? isEll = none) :
    visit (n + 1) c env fb (.list xs imp) =
      match mapE (fun x => visit n c env fb x) xs with
      | .error e => .error e
      | .ok ys => .ok (Sexp.mkList ys imp) := by
  simp only [visit, h]
  cases mapE (fun x => visit n c env fb x) xs <;> rfl

theorem findIdx_none_of_noEll (xs : List Sexp) (h : Sexp.hasEllipsisList xs = false) :
    xs.findIdx? isEll = none := by
  induction xs with
  | nil => rfl
  | cons x xs ih =>
      simp only [Sexp.hasEllipsisList, Bool.or_eq_false_iff] at h
      have hx : isEll x = false := by
        cases x with
        | kw k => cases k <;> simp_all [isEll, Sexp.hasEllipsis]
        | _ => rfl
      simp [List.findIdx?_cons, hx, ih h.2]

theorem mkList_normal (xs : List Sexp) (imp : Bool) (h : normal (.list xs imp) = true) :
    Sexp.mkList xs imp = .list xs imp := by
  cases imp with
  | false => simp [Sexp.mkList]
  | true =>
      simp only [normal, Bool.not_true, Bool.false_or, Bool.and_eq_true] at h
      simp only [Sexp.mkList, if_true]
      cases hl : xs.getLast? with
      | none => rfl
      | some l =>
          cases l with
          | list a b => simp [hl] at h
          | _ => rfl

theorem substAtom_clean (c : ICtx) (env : Env) (k : Name) (m : Mark)
    (hm : m = Mark.plain) (hk : env.b.get k = none) : substAtom c env k m = .id k m := by
  subst hm
  simp [substAtom, Mark.plain, hk]

/-- Visiting user data (no key of the binding map, no ellipsis token, plain identifiers) changes nothing. -/
theorem visit_clean (c : ICtx) (env : Env) (fb : Bindings) :
    ∀ (n : Nat) (f : Sexp), f.depth ≤ n → cleanFor env f → visit n c env fb f = .ok f := by
  intro n
  induction n with
  | zero =>
      intro f hd _
      cases f <;> simp [Sexp.depth] at hd
  | succ n ih =>
      intro f hd hc
      obtain ⟨hk, he, hp, hn⟩ := hc
      cases f with
      | id k m =>
          simp only [visit]
          have hm : m = Mark.plain := by
            simpa [Sexp.isPlain] using hp
          rw [substAtom_clean c env k m hm (hk k (by simp [Sexp.ids]))]
      | kw k => simp [visit]
      | int i => simp [visit]
      | bool b => simp [visit]
      | list xs imp =>
          simp only [Sexp.hasEllipsis] at he
          rw [visit_list_noell n c env fb xs imp (findIdx_none_of_noEll xs he)]
          have hall : ∀ x ∈ xs, visit n c env fb x = .ok x := by
            intro x hx
            apply ih
            · -- depth
              simp only [Sexp.depth] at hd
              have : x.depth ≤ Sexp.depthList xs := by
                clear hd hk he hp hn ih
                induction xs with
                | nil => cases hx
                | cons y ys ihy =>
                    simp only [Sexp.depthList]
                    cases hx with
                    | head => exact Nat.le_max_left _ _
                    | tail _ h => exact Nat.le_trans (ihy h) (Nat.le_max_right _ _)
              omega
            · refine ⟨?_, ?_, ?_, ?_⟩
              · intro k hkx
                apply hk
                simp only [Sexp.ids]
                clear hd he hp hn ih hk
                induction xs with
                | nil => cases hx
                | cons y ys ihy =>
                    simp only [Sexp.idsList, List.mem_append]
                    cases hx with
                    | head => exact Or.inl hkx
                    | tail _ h => exact Or.inr (ihy h)
              · clear hd hk hp hn ih
                induction xs with
                | nil => cases hx
                | cons y ys ihy =>
                    simp only [Sexp.hasEllipsisList, Bool.or_eq_false_iff] at he
                    cases hx with
                    | head => exact he.1
                    | tail _ h => exact ihy he.2 h
              · simp only [Sexp.isPlain] at hp
                clear hd hk he hn ih
                induction xs with
                | nil => cases hx
                | cons y ys ihy =>
                    simp only [Sexp.isPlainList, Bool.and_eq_true] at hp
                    cases hx with
                    | head => exact hp.1
                    | tail _ h => exact ihy hp.2 h
              · simp only [normal, Bool.and_eq_true] at hn
                have hnl := hn.1
                clear hd hk he hp hn ih
                induction xs with
                | nil => cases hx
                | cons y ys ihy =>
                    simp only [normalList, Bool.and_eq_true] at hnl
                    cases hx with
                    | head => exact hnl.1
                    | tail _ h => exact ihy h hnl.2
          rw [mapE_ok_self _ xs hall]
          simp only []
          rw [mkList_normal xs imp hn]


/-! ### Equations of the item loops for patterns that consume one form -/

/-- a pattern that consumes one form in the item loops -/
def simpleP : Pat → Bool
  | .many _ => false
  | .rest _ => false
  | _ => true

theorem matchItems_simple (sc : List Name) (ex : Nat) (un : List Sexp) (imp : Bool) (p : Pat) (ps : List Pat)
    (rem : List Sexp) (hp : simpleP p = true) :
    matchItems sc ex un imp (p :: ps) rem =
      match rem with
      | [] => false
      | x :: rem' => matchSingle sc p x && matchItems sc ex un imp ps rem' := by
  cases p <;> simp [simpleP] at hp <;> cases rem <;> simp [matchItems]

@[simp] theorem bindE_ok {α β : Type} (a : α) (f : α → Except Err β) : bindE (.ok a) f = f a := rfl
@[simp] theorem bindE_error {α β : Type} (e : Err) (f : α → Except Err β) : bindE (.error e) f = .error e := rfl

theorem collectItems_simple (ex tot : Nat) (imp : Bool) (p : Pat) (ps : List Pat)
    (x : Sexp) (rem : List Sexp) (env : Env) (hp : simpleP p = true) :
    collectItems ex tot imp (p :: ps) (x :: rem) env =
      bindE (collectOne p x env) (fun env' => collectItems ex tot imp ps rem env') := by
  cases p <;> simp [simpleP] at hp <;> simp only [collectItems, bindE] <;> (first | rfl | (split <;> simp_all))

theorem collectItems_many0 (tot : Nat) (imp : Bool) (pat : Pat) (ps : List Pat) (rem : List Sexp) (env : Env) :
    collectItems 0 tot imp (.many pat :: ps) rem env = collectItems 0 tot imp ps rem (emptyMany env pat) := by
  simp [collectItems]

theorem collectItems_manyS (ex tot : Nat) (imp : Bool) (pat : Pat) (ps : List Pat) (rem : List Sexp) (env : Env)
    (hex : ex ≠ 0) :
    collectItems ex tot imp (.many pat :: ps) rem env =
      bindE (mapE (fun x => collectOne pat x {}) (rem.take ex))
        (fun rounds => collectItems ex tot imp ps (rem.drop ex) (finishMany env rounds)) := by
  have : (ex == 0) = false := by simpa using hex
  simp only [collectItems, this, bindE, Bool.false_eq_true, if_false]
  cases mapE (fun x => collectOne pat x {}) (rem.take ex) <;> rfl

/-- The form the dotted-tail variable is matched against. -/
def restVal (rem : List Sexp) (improper : Bool) (total : Nat) : Sexp :=
  match rem with
  | [] => Sexp.nil
  | e :: _ => if improper && (total - rem.length) + 1 == total then e else .list rem improper

theorem collectItems_rest (ex tot : Nat) (imp : Bool) (pat : Pat) (ps : List Pat) (rem : List Sexp) (env : Env) :
    collectItems ex tot imp (.rest pat :: ps) rem env =
      bindE (collectOne pat (restVal rem imp tot) env)
        (fun env' => collectItems ex tot imp ps (rem.drop 1) env') := by
  cases rem with
  | nil =>
      simp only [collectItems, bindE, restVal]
      cases collectOne pat Sexp.nil env <;> rfl
  | cons e r =>
      simp only [collectItems, bindE, restVal]
      cases collectOne pat (if (imp && tot - (e :: r).length + 1 == tot) = true then e else Sexp.list (e :: r) imp) env <;> rfl

/-! ### Lookups after the folds of `finishMany` / `emptyMany` -/

theorem isMany_setMany (e : Env) (k v : Name) : (e.setMany k).isMany v = (decide (v = k) || e.isMany v) := by
  simp [Env.setMany, Env.isMany, List.contains_cons]

theorem get_setMany (e : Env) (k v : Name) : (e.setMany k).b.get v = e.b.get v := rfl
theorem isMany_insert (e : Env) (k : Name) (x : Sexp) (v : Name) : (e.insert k x).isMany v = e.isMany v := rfl
theorem get_env_insert (e : Env) (k v : Name) (x : Sexp) :
    (e.insert k x).b.get v = if k = v then some x else e.b.get v := by
  simp [Env.insert, get_insert]

theorem foldl_ins_get (F : Name → Sexp) (ks : List Name) (e0 : Env) (v : Name) :
    (ks.foldl (fun e k => (e.insert k (F k)).setMany k) e0).b.get v =
      if v ∈ ks then some (F v) else e0.b.get v := by
  induction ks generalizing e0 with
  | nil => simp
  | cons k ks ih =>
      simp only [List.foldl]
      rw [ih]
      by_cases hv : v ∈ ks
      · simp [hv]
      · by_cases hk : k = v
        · subst hk; simp [hv, get_setMany, get_env_insert]
        · have : ¬ v = k := fun h => hk h.symm
          simp [hv, this, get_setMany, get_env_insert, hk]

theorem foldl_ins_many (F : Name → Sexp) (ks : List Name) (e0 : Env) (v : Name) :
    (ks.foldl (fun e k => (e.insert k (F k)).setMany k) e0).isMany v =
      (decide (v ∈ ks) || e0.isMany v) := by
  induction ks generalizing e0 with
  | nil => simp
  | cons k ks ih =>
      simp only [List.foldl]
      rw [ih, isMany_setMany, isMany_insert]
      by_cases hv : v ∈ ks <;> by_cases hk : v = k <;> simp [hv, hk]

theorem mem_keys_iff (b : Bindings) (k : Name) : k ∈ b.map (·.1) ↔ b.get k ≠ none := by
  induction b with
  | nil => simp [Bindings.get]
  | cons kv b ih =>
      obtain ⟨k', v⟩ := kv
      simp only [List.map_cons, List.mem_cons, Bindings.get]
      by_cases h : k' = k
      · subst h; simp
      · have h' : ¬ k = k' := fun x => h x.symm
        simp [h, h', ih]

theorem finishMany_get (env : Env) (rounds : List Env) (v : Name) :
    (finishMany env rounds).b.get v =
      if v ∈ rounds.flatMap (fun r => r.b.map (·.1)) then
        some (.list (rounds.filterMap (fun r => r.b.get v)) false)
      else env.b.get v := by
  simp only [finishMany]
  rw [foldl_ins_get (fun k => Sexp.list (rounds.filterMap (fun r => r.b.get k)) false)]

theorem finishMany_many (env : Env) (rounds : List Env) (v : Name) :
    (finishMany env rounds).isMany v =
      (decide (v ∈ rounds.flatMap (fun r => r.b.map (·.1))) ||
        (decide (v ∈ rounds.flatMap (·.many)) || env.isMany v)) := by
  simp only [finishMany]
  rw [foldl_ins_many (fun k => Sexp.list (rounds.filterMap (fun r => r.b.get k)) false)]
  simp [Env.isMany, List.contains_append, List.contains_iff_mem]

theorem emptyMany_get (env : Env) (p : Pat) (v : Name) :
    (emptyMany env p).b.get v = if v ∈ p.vars then some Sexp.nil else env.b.get v := by
  simp only [emptyMany]
  rw [foldl_ins_get (fun _ => Sexp.nil)]

theorem emptyMany_many (env : Env) (p : Pat) (v : Name) :
    (emptyMany env p).isMany v = (decide (v ∈ p.vars) || env.isMany v) := by
  simp only [emptyMany]
  rw [foldl_ins_many (fun _ => Sexp.nil)]


/-! ### `collect_bindings` only touches the variables of the pattern -/

def FrameP (vs : List Name) (env0 e : Env) : Prop :=
  (∀ k, k ∉ vs → e.b.get k = env0.b.get k) ∧ (∀ k, env0.isMany k = true → e.isMany k = true)

theorem FrameP.refl (vs : List Name) (e : Env) : FrameP vs e e := ⟨fun _ _ => rfl, fun _ h => h⟩

theorem FrameP.trans {vs1 vs2 : List Name} {a b c : Env} (h1 : FrameP vs1 a b) (h2 : FrameP vs2 b c) :
    FrameP (vs1 ++ vs2) a c := by
  refine ⟨fun k hk => ?_, fun k hk => h2.2 k (h1.2 k hk)⟩
  simp only [List.mem_append, not_or] at hk
  rw [h2.1 k hk.2, h1.1 k hk.1]

theorem FrameP.weaken {vs vs' : List Name} {a b : Env} (h : FrameP vs a b) (hs : ∀ k ∈ vs, k ∈ vs') :
    FrameP vs' a b :=
  ⟨fun k hk => h.1 k (fun hk' => hk (hs k hk')), h.2⟩

theorem mapE_mem {α β : Type} (f : α → Except Err β) (xs : List α) (ys : List β)
    (h : mapE f xs = .ok ys) : ∀ y ∈ ys, ∃ x ∈ xs, f x = .ok y := by
  induction xs generalizing ys with
  | nil => simp [mapE] at h; subst h; simp
  | cons x xs ih =>
      simp only [mapE] at h
      cases hfx : f x with
      | error e => simp [hfx] at h
      | ok y0 =>
          simp only [hfx] at h
          cases hm : mapE f xs with
          | error e => simp [hm] at h
          | ok r =>
              simp only [hm] at h
              have : ys = y0 :: r := by cases h; rfl
              subst this
              intro y hy
              cases hy with
              | head => exact ⟨x, by simp, hfx⟩
              | tail _ hy' =>
                  obtain ⟨x', hx', hf'⟩ := ih r hm y hy'
                  exact ⟨x', by simp [hx'], hf'⟩

/-- The frame of `finishMany` when every round only binds names in `vs`. -/
theorem finishMany_frame (vs : List Name) (env0 : Env) (rounds : List Env)
    (hr : ∀ r ∈ rounds, ∀ k, k ∉ vs → r.b.get k = none) : FrameP vs env0 (finishMany env0 rounds) := by
  refine ⟨fun k hk => ?_, fun k hk => ?_⟩
  · rw [finishMany_get]
    have : k ∉ rounds.flatMap (fun r => r.b.map (·.1)) := by
      intro hmem
      simp only [List.mem_flatMap] at hmem
      obtain ⟨r, hr1, hr2⟩ := hmem
      exact (mem_keys_iff r.b k).1 hr2 (hr r hr1 k hk)
    simp [this]
  · rw [finishMany_many]; simp [hk]

theorem emptyMany_frame (env0 : Env) (p : Pat) : FrameP p.vars env0 (emptyMany env0 p) := by
  refine ⟨fun k hk => ?_, fun k hk => ?_⟩
  · rw [emptyMany_get]; simp [hk]
  · rw [emptyMany_many]; simp [hk]

theorem bindE_ok_iff {α β : Type} (x : Except Err α) (f : α → Except Err β) (b : β) :
    bindE x f = .ok b ↔ ∃ a, x = .ok a ∧ f a = .ok b := by
  cases x with
  | error e => simp [bindE]
  | ok a => simp [bindE]

theorem empty_get (k : Name) : (({} : Env).b.get k) = none := rfl

mutual
theorem collectOne_frame : ∀ (p : Pat) (f : Sexp) (env0 e : Env),
    collectOne p f env0 = .ok e → FrameP p.vars env0 e
  | .var s, f, env0, e, h => by
      simp only [collectOne] at h
      cases h
      refine ⟨fun k hk => ?_, fun k hk => hk⟩
      simp only [Pat.vars, List.mem_singleton] at hk
      rw [get_env_insert]
      have : ¬ s = k := fun x => hk x.symm
      simp [this]
  | .lit s, f, env0, e, h => by
      have : e = env0 := by
        cases f with
        | id n m =>
            simp only [collectOne] at h
            split at h
            · cases h
            · cases h; rfl
        | _ => simp only [collectOne] at h; cases h; rfl
      subst this; exact FrameP.refl _ _
  | .kwlit k, f, env0, e, h => by
      simp only [collectOne] at h; cases h; exact FrameP.refl _ _
  | .cint k, f, env0, e, h => by
      simp only [collectOne] at h; cases h; exact FrameP.refl _ _
  | .cbool k, f, env0, e, h => by
      simp only [collectOne] at h; cases h; exact FrameP.refl _ _
  | .many pat, f, env0, e, h => by
      simp only [collectOne] at h
      cases hr : collectOne pat f {} with
      | error er => simp [hr] at h
      | ok r =>
          simp only [hr] at h
          cases h
          have ih := collectOne_frame pat f {} r hr
          simp only [Pat.vars]
          apply finishMany_frame
          intro r' hr' k hk
          simp only [List.mem_singleton] at hr'
          subst hr'
          rw [ih.1 k hk]; rfl
  | .rest p, f, env0, e, h => by
      simp only [collectOne] at h
      exact collectOne_frame p _ env0 e h
  | .nested children, f, env0, e, h => by
      simp only [Pat.vars]
      cases f with
      | list l imp =>
          simp only [collectOne] at h
          exact collectItems_frame children _ _ _ l env0 e h
      | id n m =>
          unfold collectOne at h
          split at h
          · rename_i heq; cases heq
          · split at h
            · rename_i m p
              have := (emptyMany_frame env0 m).trans (collectOne_frame p _ _ e h)
              exact this.weaken (fun k hk => by
                simp only [List.mem_append] at hk
                cases hk with
                | inl hk => simp [Pat.varsList, Pat.vars, hk]
                | inr hk => simp [Pat.varsList, Pat.vars, hk])
            · cases h
      | kw k =>
          unfold collectOne at h
          split at h
          · rename_i heq; cases heq
          · split at h
            · rename_i m p
              have := (emptyMany_frame env0 m).trans (collectOne_frame p _ _ e h)
              exact this.weaken (fun k hk => by
                simp only [List.mem_append] at hk
                cases hk with
                | inl hk => simp [Pat.varsList, Pat.vars, hk]
                | inr hk => simp [Pat.varsList, Pat.vars, hk])
            · cases h
      | int k =>
          unfold collectOne at h
          split at h
          · rename_i heq; cases heq
          · split at h
            · rename_i m p
              have := (emptyMany_frame env0 m).trans (collectOne_frame p _ _ e h)
              exact this.weaken (fun k hk => by
                simp only [List.mem_append] at hk
                cases hk with
                | inl hk => simp [Pat.varsList, Pat.vars, hk]
                | inr hk => simp [Pat.varsList, Pat.vars, hk])
            · cases h
      | bool k =>
          unfold collectOne at h
          split at h
          · rename_i heq; cases heq
          · split at h
            · rename_i m p
              have := (emptyMany_frame env0 m).trans (collectOne_frame p _ _ e h)
              exact this.weaken (fun k hk => by
                simp only [List.mem_append] at hk
                cases hk with
                | inl hk => simp [Pat.varsList, Pat.vars, hk]
                | inr hk => simp [Pat.varsList, Pat.vars, hk])
            · cases h
theorem collectItems_frame : ∀ (ps : List Pat) (ex tot : Nat) (imp : Bool) (rem : List Sexp) (env0 e : Env),
    collectItems ex tot imp ps rem env0 = .ok e → FrameP (Pat.varsList ps) env0 e
  | [], ex, tot, imp, rem, env0, e, h => by
      simp only [collectItems] at h; cases h; exact FrameP.refl _ _
  | p :: ps, ex, tot, imp, rem, env0, e, h => by
      simp only [Pat.varsList]
      cases p with
      | many pat =>
          simp only [Pat.vars]
          by_cases h0 : ex = 0
          · subst h0
            rw [collectItems_many0] at h
            exact (emptyMany_frame env0 pat).trans (collectItems_frame ps 0 tot imp rem _ e h)
          · rw [collectItems_manyS _ _ _ _ _ _ _ h0, bindE_ok_iff] at h
            obtain ⟨rounds, hm, hrest⟩ := h
            refine FrameP.trans ?_ (collectItems_frame ps ex tot imp _ _ e hrest)
            apply finishMany_frame
            intro r hr k hk
            obtain ⟨x, _, hx⟩ := mapE_mem _ _ _ hm r hr
            have := collectOne_frame pat x {} r hx
            rw [this.1 k hk]; rfl
      | rest pat =>
          rw [collectItems_rest, bindE_ok_iff] at h
          obtain ⟨e1, h1, h2⟩ := h
          exact (collectOne_frame pat _ env0 e1 h1).trans (collectItems_frame ps ex tot imp _ e1 e h2)
      | var s =>
          cases rem with
          | nil => simp [collectItems] at h
          | cons x rem' =>
              rw [collectItems_simple _ _ _ _ _ _ _ _ rfl, bindE_ok_iff] at h
              obtain ⟨e1, h1, h2⟩ := h
              exact (collectOne_frame _ x env0 e1 h1).trans (collectItems_frame ps ex tot imp _ e1 e h2)
      | lit s =>
          cases rem with
          | nil => simp [collectItems] at h
          | cons x rem' =>
              rw [collectItems_simple _ _ _ _ _ _ _ _ rfl, bindE_ok_iff] at h
              obtain ⟨e1, h1, h2⟩ := h
              exact (collectOne_frame _ x env0 e1 h1).trans (collectItems_frame ps ex tot imp _ e1 e h2)
      | nested qs =>
          cases rem with
          | nil => simp [collectItems] at h
          | cons x rem' =>
              rw [collectItems_simple _ _ _ _ _ _ _ _ rfl, bindE_ok_iff] at h
              obtain ⟨e1, h1, h2⟩ := h
              exact (collectOne_frame _ x env0 e1 h1).trans (collectItems_frame ps ex tot imp _ e1 e h2)
      | kwlit k =>
          cases rem with
          | nil =>
              simp only [collectItems] at h
              simpa [Pat.vars] using collectItems_frame ps ex tot imp [] env0 e h
          | cons x rem' =>
              rw [collectItems_simple _ _ _ _ _ _ _ _ rfl, bindE_ok_iff] at h
              obtain ⟨e1, h1, h2⟩ := h
              exact (collectOne_frame _ x env0 e1 h1).trans (collectItems_frame ps ex tot imp _ e1 e h2)
      | cint k =>
          cases rem with
          | nil =>
              simp only [collectItems] at h
              simpa [Pat.vars] using collectItems_frame ps ex tot imp [] env0 e h
          | cons x rem' =>
              rw [collectItems_simple _ _ _ _ _ _ _ _ rfl, bindE_ok_iff] at h
              obtain ⟨e1, h1, h2⟩ := h
              exact (collectOne_frame _ x env0 e1 h1).trans (collectItems_frame ps ex tot imp _ e1 e h2)
      | cbool k =>
          cases rem with
          | nil =>
              simp only [collectItems] at h
              simpa [Pat.vars] using collectItems_frame ps ex tot imp [] env0 e h
          | cons x rem' =>
              rw [collectItems_simple _ _ _ _ _ _ _ _ rfl, bindE_ok_iff] at h
              obtain ⟨e1, h1, h2⟩ := h
              exact (collectOne_frame _ x env0 e1 h1).trans (collectItems_frame ps ex tot imp _ e1 e h2)
end


/-! ### Lists of one-form patterns -/

def matchSimples (sc : List Name) : List Pat → List Sexp → Bool
  | [], [] => true
  | p :: ps, x :: xs => matchSingle sc p x && matchSimples sc ps xs
  | _, _ => false

def collectSimples : List Pat → List Sexp → Env → Except Err Env
  | [], [], env => .ok env
  | p :: ps, x :: xs, env => bindE (collectOne p x env) (fun e => collectSimples ps xs e)
  | _, _, _ => .error .arity

theorem wf1_simple (p : Pat) (h : wf1 p = true) : simpleP p = true := by
  cases p <;> simp [wf1] at h <;> rfl

theorem wfSimples_cons (p : Pat) (ps : List Pat) :
    wfSimples (p :: ps) = true ↔ wf1 p = true ∧ wfSimples ps = true := by
  simp [wfSimples]

theorem matchItems_simples (sc : List Name) (ex : Nat) (un : List Sexp) (imp : Bool) (tl : List Pat) :
    ∀ (pre : List Pat) (items rem : List Sexp), wfSimples pre = true → items.length = pre.length →
      matchItems sc ex un imp (pre ++ tl) (items ++ rem) =
        (matchSimples sc pre items && matchItems sc ex un imp tl rem)
  | [], items, rem, _, hl => by
      cases items with
      | nil => simp [matchSimples]
      | cons _ _ => simp at hl
  | p :: pre, items, rem, hw, hl => by
      cases items with
      | nil => simp at hl
      | cons x items =>
          rw [wfSimples_cons] at hw
          simp only [List.cons_append]
          rw [matchItems_simple _ _ _ _ _ _ _ (wf1_simple p hw.1)]
          simp only [matchSimples]
          rw [matchItems_simples sc ex un imp tl pre items rem hw.2 (by simpa using hl)]
          simp [Bool.and_assoc]

theorem matchItems_short (sc : List Name) (ex : Nat) (un : List Sexp) (imp : Bool) (tl : List Pat) :
    ∀ (pre : List Pat) (rem : List Sexp), wfSimples pre = true → rem.length < pre.length →
      matchItems sc ex un imp (pre ++ tl) rem = false
  | [], rem, _, hl => by simp at hl
  | p :: pre, rem, hw, hl => by
      rw [wfSimples_cons] at hw
      simp only [List.cons_append]
      rw [matchItems_simple _ _ _ _ _ _ _ (wf1_simple p hw.1)]
      cases rem with
      | nil => rfl
      | cons x rem =>
          simp only
          rw [matchItems_short sc ex un imp tl pre rem hw.2 (by simpa using hl)]
          simp

theorem collectItems_simples (ex tot : Nat) (imp : Bool) (tl : List Pat) :
    ∀ (pre : List Pat) (items rem : List Sexp) (env : Env), wfSimples pre = true → items.length = pre.length →
      collectItems ex tot imp (pre ++ tl) (items ++ rem) env =
        bindE (collectSimples pre items env) (fun e => collectItems ex tot imp tl rem e)
  | [], items, rem, env, _, hl => by
      cases items with
      | nil => simp [collectSimples]
      | cons _ _ => simp at hl
  | p :: pre, items, rem, env, hw, hl => by
      cases items with
      | nil => simp at hl
      | cons x items =>
          rw [wfSimples_cons] at hw
          simp only [List.cons_append]
          rw [collectItems_simple _ _ _ _ _ _ _ _ (wf1_simple p hw.1)]
          simp only [collectSimples]
          cases h1 : collectOne p x env with
          | error er => simp
          | ok e1 =>
              simp only [bindE_ok]
              exact collectItems_simples ex tot imp tl pre items rem e1 hw.2 (by simpa using hl)

theorem collectSimples_frame : ∀ (pre : List Pat) (items : List Sexp) (env0 e : Env),
    collectSimples pre items env0 = .ok e → FrameP (Pat.varsList pre) env0 e
  | [], items, env0, e, h => by
      cases items with
      | nil => simp [collectSimples] at h; subst h; exact FrameP.refl _ _
      | cons _ _ => simp [collectSimples] at h
  | p :: pre, items, env0, e, h => by
      cases items with
      | nil => simp [collectSimples] at h
      | cons x items =>
          simp only [collectSimples, bindE_ok_iff] at h
          obtain ⟨e1, h1, h2⟩ := h
          simp only [Pat.varsList]
          exact (collectOne_frame p x env0 e1 h1).trans (collectSimples_frame pre items e1 e h2)

/-! ### The three shapes of a well-formed pattern list -/

theorem wfSimples_wfList : ∀ (ps : List Pat), wfSimples ps = true → wfList ps = true
  | [], _ => rfl
  | p :: ps, h => by
      rw [wfSimples_cons] at h
      have := wfSimples_wfList ps h.2
      cases p <;> simp_all [wfList, wf1]

inductive Shape (qs : List Pat) : Prop where
  | simples (h : wfSimples qs = true)
  | rest (pre : List Pat) (r : Name) (hq : qs = pre ++ [.rest (.var r)]) (hpre : wfSimples pre = true)
      (hr : r ≠ wildcard)
  | many (pre : List Pat) (sub : Pat) (post : List Pat) (hq : qs = pre ++ .many sub :: post)
      (hpre : wfSimples pre = true) (hsub : wfMany sub = true) (hpost : wfSimples post = true)
  | manyRest (pre : List Pat) (sub : Pat) (post : List Pat) (r : Name)
      (hq : qs = pre ++ .many sub :: (post ++ [.rest (.var r)]))
      (hpre : wfSimples pre = true) (hsub : wfMany sub = true) (hpost : wfSimples post = true)
      (hr : r ≠ wildcard)

theorem wfPost_shape : ∀ (ps : List Pat), wfPost ps = true →
    wfSimples ps = true ∨ ∃ post r, ps = post ++ [Pat.rest (Pat.var r)] ∧ wfSimples post = true ∧ r ≠ wildcard
  | [], _ => Or.inl rfl
  | p :: ps, h => by
      have step : wf1 p = true → wfPost ps = true →
          wfSimples (p :: ps) = true ∨
            ∃ post r, p :: ps = post ++ [Pat.rest (Pat.var r)] ∧ wfSimples post = true ∧ r ≠ wildcard := by
        intro h1 h2
        cases wfPost_shape ps h2 with
        | inl hs => exact Or.inl (by simp [wfSimples, h1, hs])
        | inr hr =>
            obtain ⟨post, r, hq, hpost, hr⟩ := hr
            exact Or.inr ⟨p :: post, r, by simp [hq], by simp [wfSimples, h1, hpost], hr⟩
      cases p with
      | rest q =>
          simp only [wfPost, Bool.and_eq_true, List.isEmpty_iff] at h
          obtain ⟨hps, hq⟩ := h
          subst hps
          cases q with
          | var r => exact Or.inr ⟨[], r, rfl, rfl, by simpa [name_bne_iff] using hq⟩
          | _ => simp at hq
      | many x => simp [wfPost, wf1] at h
      | var x => simp only [wfPost, Bool.and_eq_true] at h; exact step h.1 h.2
      | lit x => simp only [wfPost, Bool.and_eq_true] at h; exact step h.1 h.2
      | kwlit x => simp only [wfPost, Bool.and_eq_true] at h; exact step h.1 h.2
      | cint x => simp only [wfPost, Bool.and_eq_true] at h; exact step h.1 h.2
      | cbool x => simp only [wfPost, Bool.and_eq_true] at h; exact step h.1 h.2
      | nested x => simp only [wfPost, Bool.and_eq_true] at h; exact step h.1 h.2

theorem wfList_shape : ∀ (qs : List Pat), wfList qs = true → Shape qs
  | [], _ => .simples rfl
  | p :: ps, h => by
      cases p with
      | many sub =>
          simp only [wfList, Bool.and_eq_true] at h
          cases wfPost_shape ps h.2 with
          | inl hs => exact .many [] sub ps rfl rfl h.1 hs
          | inr hr =>
              obtain ⟨post, r, hq, hpost, hr⟩ := hr
              exact .manyRest [] sub post r (by simp [hq]) rfl h.1 hpost hr
      | rest q =>
          simp only [wfList, Bool.and_eq_true, List.isEmpty_iff] at h
          obtain ⟨hps, hq⟩ := h
          subst hps
          cases q with
          | var r => exact .rest [] r rfl rfl (by simpa [name_bne_iff] using hq)
          | _ => simp at hq
      | var x =>
          simp only [wfList, Bool.and_eq_true] at h
          cases wfList_shape ps h.2 with
          | simples hs => exact .simples (by simp [wfSimples, h.1, hs])
          | rest pre r hq hpre hr => exact .rest (.var x :: pre) r (by simp [hq]) (by simp [wfSimples, h.1, hpre]) hr
          | many pre sub post hq hpre hsub hpost =>
              exact .many (.var x :: pre) sub post (by simp [hq]) (by simp [wfSimples, h.1, hpre]) hsub hpost
          | manyRest pre sub post r hq hpre hsub hpost hr =>
              exact .manyRest (.var x :: pre) sub post r (by simp [hq]) (by simp [wfSimples, h.1, hpre]) hsub hpost hr
      | lit x =>
          simp only [wfList, Bool.and_eq_true] at h
          cases wfList_shape ps h.2 with
          | simples hs => exact .simples (by simp [wfSimples, h.1, hs])
          | rest pre r hq hpre hr => exact .rest (.lit x :: pre) r (by simp [hq]) (by simp [wfSimples, h.1, hpre]) hr
          | many pre sub post hq hpre hsub hpost =>
              exact .many (.lit x :: pre) sub post (by simp [hq]) (by simp [wfSimples, h.1, hpre]) hsub hpost
          | manyRest pre sub post r hq hpre hsub hpost hr =>
              exact .manyRest (.lit x :: pre) sub post r (by simp [hq]) (by simp [wfSimples, h.1, hpre]) hsub hpost hr
      | kwlit x =>
          simp only [wfList, Bool.and_eq_true] at h
          cases wfList_shape ps h.2 with
          | simples hs => exact .simples (by simp [wfSimples, h.1, hs])
          | rest pre r hq hpre hr => exact .rest (.kwlit x :: pre) r (by simp [hq]) (by simp [wfSimples, h.1, hpre]) hr
          | many pre sub post hq hpre hsub hpost =>
              exact .many (.kwlit x :: pre) sub post (by simp [hq]) (by simp [wfSimples, h.1, hpre]) hsub hpost
          | manyRest pre sub post r hq hpre hsub hpost hr =>
              exact .manyRest (.kwlit x :: pre) sub post r (by simp [hq]) (by simp [wfSimples, h.1, hpre]) hsub hpost hr
      | cint x =>
          simp only [wfList, Bool.and_eq_true] at h
          cases wfList_shape ps h.2 with
          | simples hs => exact .simples (by simp [wfSimples, h.1, hs])
          | rest pre r hq hpre hr => exact .rest (.cint x :: pre) r (by simp [hq]) (by simp [wfSimples, h.1, hpre]) hr
          | many pre sub post hq hpre hsub hpost =>
              exact .many (.cint x :: pre) sub post (by simp [hq]) (by simp [wfSimples, h.1, hpre]) hsub hpost
          | manyRest pre sub post r hq hpre hsub hpost hr =>
              exact .manyRest (.cint x :: pre) sub post r (by simp [hq]) (by simp [wfSimples, h.1, hpre]) hsub hpost hr
      | cbool x =>
          simp only [wfList, Bool.and_eq_true] at h
          cases wfList_shape ps h.2 with
          | simples hs => exact .simples (by simp [wfSimples, h.1, hs])
          | rest pre r hq hpre hr => exact .rest (.cbool x :: pre) r (by simp [hq]) (by simp [wfSimples, h.1, hpre]) hr
          | many pre sub post hq hpre hsub hpost =>
              exact .many (.cbool x :: pre) sub post (by simp [hq]) (by simp [wfSimples, h.1, hpre]) hsub hpost
          | manyRest pre sub post r hq hpre hsub hpost hr =>
              exact .manyRest (.cbool x :: pre) sub post r (by simp [hq]) (by simp [wfSimples, h.1, hpre]) hsub hpost hr
      | nested x =>
          simp only [wfList, Bool.and_eq_true] at h
          cases wfList_shape ps h.2 with
          | simples hs => exact .simples (by simp [wfSimples, h.1, hs])
          | rest pre r hq hpre hr => exact .rest (.nested x :: pre) r (by simp [hq]) (by simp [wfSimples, h.1, hpre]) hr
          | many pre sub post hq hpre hsub hpost =>
              exact .many (.nested x :: pre) sub post (by simp [hq]) (by simp [wfSimples, h.1, hpre]) hsub hpost
          | manyRest pre sub post r hq hpre hsub hpost hr =>
              exact .manyRest (.nested x :: pre) sub post r (by simp [hq]) (by simp [wfSimples, h.1, hpre]) hsub hpost hr


end SteelVerif.C13
